(* Proofs/C06_SpliceEx.v - non-vacuity of the whole-URL agreement theorems: with the alphanumeric host functions
   ex_hp / ex_hd of C02 (HostRT holds), the record of "a://h:80/p?q#f" and of "http://u:p@h/p" are canonical, each
   setter succeeds with an argument that needs encoding, and the spliced texts are the expected strings. *)
From Coq Require Import String.
From RU Require Import Base.Prelude Base.Utf8 Model.AsciiSet Gen.Tables Model.PercentEncoding Model.HostT Model.UrlRecord
  Model.Parser Model.Setters Model.WF Proofs.ListN Proofs.C02_Enc Proofs.C02_Parts Proofs.C02_Reach Proofs.C02_AuthParts Proofs.C02_Auth
  Proofs.C02_AuthMain Proofs.C02_Canon Proofs.C06_Quirks Proofs.C06_AgreeSet Proofs.C06_Splice Proofs.C06_SpliceAuth Proofs.C06_SpliceCred.
Open Scope N_scope.
Open Scope list_scope.

Lemma usv_B_small l : forallb (fun c => c <? 128) l = true -> usv_list l.
Proof.
  induction l as [|c r IH]; intros H; [constructor|]. cbn [forallb] in H. apply andb_true_iff in H. destruct H as [H1 H2].
  constructor; [unfold is_usv; lia | exact (IH H2)].
Qed.

Definition sx_u : url := mkUrl (B "http://u:p@h/p") 4 8 11 12 HI_Domain None 12 None None.

Lemma splice_canon_examples : Canon ex_hp ex_hp ex_hd qx_u /\ Canon ex_hp ex_hp ex_hd sx_u.
Proof.
  split.
  - apply (parse_Canon true ex_hp ex_hp ex_hd (proj1 ex_host_RT) None (B "a://h:80/p?q#f") qx_u (proj2 ex_host_RT)).
    + apply usv_B_small. vm_compute. reflexivity.
    + vm_compute. reflexivity.
    + left. reflexivity.
    + vm_compute. reflexivity.
  - apply (parse_Canon true ex_hp ex_hp ex_hd (proj1 ex_host_RT) None (B "http://u:p@h/p") sx_u (proj2 ex_host_RT)).
    + apply usv_B_small. vm_compute. reflexivity.
    + vm_compute. reflexivity.
    + left. reflexivity.
    + vm_compute. reflexivity.
Qed.

Definition splice_case (r : option url) (spliced expect : list N) (result : string) : Prop :=
  exists u', r = Some u' /\ spliced = expect /\ ser u' = B result /\ nlen (ser u') <= U32_MAX_P.

Lemma splice_inhabited :
  splice_case (set_fragment true qx_u (Some (B "f g"))) (splice_fragment qx_u (B "f g")) (B "a://h:80/p?q#f g") "a://h:80/p?q#f%20g"
  /\ first_ok (rev (35 :: B "f g"))
  /\ splice_case (set_query true qx_u (Some (B "k v"))) (splice_query qx_u (B "k v")) (B "a://h:80/p?k v#f") "a://h:80/p?k%20v#f"
  /\ no_hash (B "k v") = true
  /\ splice_case (ok_of (set_port true qx_u (Some 81))) (splice_port qx_u 81) (B "a://h:81/p?q#f") "a://h:81/p?q#f"
  /\ splice_case (ok_of (set_password true qx_u (Some (B "p:w")))) (splice_password qx_u (B "p:w")) (B "a://:p:w@h:80/p?q#f") "a://:p%3Aw@h:80/p?q#f"
  /\ forallb (plainc (sp_of qx_u)) (B "p:w") = true
  /\ splice_case (ok_of (set_username true qx_u (B "u s"))) (splice_username qx_u (B "u s")) (B "a://u s@h:80/p?q#f") "a://u%20s@h:80/p?q#f"
  /\ forallb (fun c => plainc (sp_of qx_u) c && negb (c =? 58)) (B "u s") = true
  /\ splice_case (ok_of (set_username true sx_u (B "v w"))) (splice_username sx_u (B "v w")) (B "http://v w:p@h/p") "http://v%20w:p@h/p"
  /\ splice_case (ok_of (set_username true sx_u [])) (splice_username sx_u []) (B "http://:p@h/p") "http://:p@h/p"
  /\ splice_case (ok_of (set_port true sx_u (Some 80))) (splice_port sx_u 80) (B "http://u:p@h:80/p") "http://u:p@h/p".
Proof.
  assert (forall r sp ex res u', r = Some u' -> sp = ex -> ser u' = B res -> (nlen (ser u') <=? U32_MAX_P) = true ->
            splice_case r sp ex res) as G.
  { intros r sp ex res u' H1 H2 H3 H4. exists u'. split; [exact H1|]. split; [exact H2|]. split; [exact H3 | apply N.leb_le; exact H4]. }
  split; [eapply G; [vm_compute; reflexivity | vm_compute; reflexivity | vm_compute; reflexivity | vm_compute; reflexivity]|].
  split; [vm_compute; reflexivity|].
  split; [eapply G; [vm_compute; reflexivity | vm_compute; reflexivity | vm_compute; reflexivity | vm_compute; reflexivity]|].
  split; [vm_compute; reflexivity|].
  split; [eapply G; [vm_compute; reflexivity | vm_compute; reflexivity | vm_compute; reflexivity | vm_compute; reflexivity]|].
  split; [eapply G; [vm_compute; reflexivity | vm_compute; reflexivity | vm_compute; reflexivity | vm_compute; reflexivity]|].
  split; [vm_compute; reflexivity|].
  split; [eapply G; [vm_compute; reflexivity | vm_compute; reflexivity | vm_compute; reflexivity | vm_compute; reflexivity]|].
  split; [vm_compute; reflexivity|].
  split; [eapply G; [vm_compute; reflexivity | vm_compute; reflexivity | vm_compute; reflexivity | vm_compute; reflexivity]|].
  split; [eapply G; [vm_compute; reflexivity | vm_compute; reflexivity | vm_compute; reflexivity | vm_compute; reflexivity]|].
  eapply G; [vm_compute; reflexivity | vm_compute; reflexivity | vm_compute; reflexivity | vm_compute; reflexivity].
Qed.
