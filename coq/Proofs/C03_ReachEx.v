(* Proofs/C03_ReachEx.v - the hypotheses of C03_reachability are met and reach03a is inhabited by a history
   that uses the mutators C03_reachability_partial did not have: host functions ex_hp (C02_AuthMain.v: texts
   over a host alphabet are domains) with a display ex_hd2 that also prints IP values. *)
From Coq Require Import String.
From RU Require Import Base.Prelude Base.Utf8 Model.AsciiSet Gen.Tables Model.PercentEncoding
  Model.HostT Model.UrlRecord Model.Parser Model.Setters Model.WF Model.FilePath
  Proofs.ListN Proofs.C02_Reach Proofs.C02_AuthParts Proofs.C02_AuthMain
  Proofs.C06_Host Proofs.C03_ReachParts Proofs.C03_ReachHost Proofs.C03_ReachAll Proofs.C03_Reachability.
Open Scope string_scope.
Open Scope N_scope.
Open Scope list_scope.

Definition ex_hd2 (h : host) : list N :=
  match h with
  | HDomain d => d
  | HIpv4 _ => [49; 46; 50; 46; 51; 46; 52]      (* "1.2.3.4" for every address: enough for the layout *)
  | HIpv6 _ => [91; 58; 58; 49; 93]              (* "[::1]" *)
  end.

Lemma ex_hp_domain s h : ex_hp s = Ok h -> exists d, h = HDomain d.
Proof.
  unfold ex_hp. destruct s as [|c r]; [intros H; inversion H; eexists; reflexivity|].
  destruct (forallb ex_hostc (c :: r)); intros H; inversion H. eexists; reflexivity.
Qed.

Lemma ex2_host_wf : HostWf ex_hp ex_hp ex_hd2.
Proof.
  destruct ex_host_wf as (A & B0 & C). split; [|split; [|reflexivity]];
    intros s h E Hne; destruct (ex_hp_domain s h E) as (d & ->); [exact (A s _ E Hne) | exact (B0 s _ E Hne)].
Qed.

Lemma ex2_ip_disp : IpDisp ex_hd2.
Proof.
  intros h Hh. destruct h as [d|a|p]; cbn in Hh; [contradiction | |];
    unfold host_disp_ok; cbn [hi_of_host ex_hd2]; do 2 eexists; (split; [reflexivity|]); split; discriminate.
Qed.

Lemma usv_b (l : list N) : forallb (fun c => c <? 55296) l = true -> usv_list l.
Proof.
  intros H. apply Forall_forall. intros c Hc. rewrite forallb_forall in H. specialize (H c Hc).
  apply N.ltb_lt in H. left. exact H.
Qed.

Ltac usv_tac := apply usv_b; vm_compute; reflexivity.

Ltac ex_step o tac :=
  match goal with R : reach03a ?d ?hp ?hpo ?hd ?u |- _ =>
    let E := fresh "E" in let u1 := fresh "u" in let E' := fresh "E" in
    destruct (apply_op d hp hpo hd u o) as [u1|] eqn:E; [|vm_compute in E; discriminate];
    pose proof E as E'; vm_compute in E'; injection E' as <-;
    match type of E with apply_op _ _ _ _ _ _ = Some ?u' =>
      let R' := fresh "R" in
      assert (reach03a d hp hpo hd u') as R'
        by (apply (RA_step d hp hpo hd u o u' R); [cbn [op_args_ok usv_opt]; tac | vm_compute; reflexivity | exact E]);
      clear R E
    end
  end.

(* parse "a://h:80/p?q#f"; set_host(Some "y"); quirks set_host "x:81" (host and port); path_segments_mut push "z";
   set_ip_host(1.2.3.4); set_host(None); set_host(None) again (a call that changes nothing); and, from the other
   constructor: from_file_path "/a b/c" then set_host(Some "h") and quirks set_pathname "d" *)
Definition reach03a_example_stmt : Prop :=
  exists u v, reach03a true ex_hp ex_hp ex_hd2 u /\ ser u = B "a:/p/z?q#f"
    /\ reach03a true ex_hp ex_hp ex_hd2 v /\ ser v = B "file://h/d".

Lemma reach03a_example : reach03a_example_stmt.
Proof.
  destruct (parse_url true ex_hp ex_hp ex_hd2 None None (B "a://h:80/p?q#f")) as [u0| |] eqn:E0;
    [|vm_compute in E0; discriminate ..].
  pose proof (RA_parse true ex_hp ex_hp ex_hd2 None _ u0 E0) as R0. vm_compute in E0. injection E0 as <-.
  ex_step (OSetHost (Some (B "y"))) usv_tac.
  ex_step (OQHost (B "x:81")) usv_tac.
  ex_step (OPathSegments [PPush (B "z")]) ltac:(constructor; [cbn [psm_op_ok]; usv_tac | constructor]).
  ex_step (OSetIpHost (HIpv4 16909060)) ltac:(cbn; lia).
  ex_step (OSetHost None) ltac:(exact I).
  ex_step (OSetHost None) ltac:(exact I).
  match goal with R : reach03a _ _ _ _ ?u |- _ => exists u end.
  destruct (from_file_path (B "/a b/c")) as [v0| |] eqn:F0; [|vm_compute in F0; discriminate ..].
  assert (reach03a true ex_hp ex_hp ex_hd2 v0) as S0.
  { apply (RA_file true ex_hp ex_hp ex_hd2 (B "/a b/c") v0); [|exact F0]. apply Forall_forall. intros c Hc.
    assert (forallb (fun c => c <? 256) (B "/a b/c") = true) as Hb by (vm_compute; reflexivity).
    rewrite forallb_forall in Hb. apply N.ltb_lt. exact (Hb c Hc). }
  vm_compute in F0. injection F0 as <-.
  ex_step (OSetHost (Some (B "h"))) usv_tac.
  ex_step (OQPathname (B "d")) usv_tac.
  match goal with R : reach03a _ _ _ _ ?v |- _ => exists v end.
  split; [assumption|]. split; [vm_compute; reflexivity|]. split; [assumption | vm_compute; reflexivity].
Qed.

(* ---------- every class of excl03 is needed: a wfh record, a call in the class, a result outside wf_b ---------- *)
(* host functions of C02_Reach.v: every text is a domain *)
Definition excl_witness (u : url) (o : op) : bool :=
  wf_b u && host_text_b u
  && match apply_op true toy_hp toy_hp toy_hd u o with
     | Some u' => excl03 u o u' && negb (wf_b u')
     | None => false
     end.

Definition w_marker : url := mkUrl (B "a:/.//p") 1 2 2 2 HI_None None 4 None None.
Definition w_port : url := mkUrl (B "a://h:80/") 1 4 4 5 HI_Domain (Some 80) 8 None None.
Definition w_2slash : url := mkUrl (B "a://h//x") 1 4 4 5 HI_Domain None 5 None None.
Definition w_opaque : url := mkUrl (B "a:b") 1 2 2 2 HI_None None 2 None None.
Definition w_noauth : url := mkUrl (B "a:/p") 1 2 2 2 HI_None None 2 None None.
Definition w_auth_end : url := mkUrl (B "http:///p") 4 7 7 7 HI_None None 7 None None.

Lemma excl03_witnesses :
  excl_witness w_marker (OSetHost (Some (B "h"))) = true            (* F-C03-5: "a://h/.//p" *)
  /\ excl_witness w_marker (OSetIpHost (HIpv4 1)) = true
  /\ excl_witness w_port (OSetHost (Some [])) = true                (* F-C02-4: "a://:80/" *)
  /\ excl_witness w_2slash (OSetHost None) = true                   (* F-C02-2: "a://x" *)
  /\ excl_witness w_opaque (OSetPath (B "?")) = true                (* F-C02-3: "a:?" with the '?' in the path *)
  /\ excl_witness w_noauth (OSetPath (B "//x")) = true              (* F-C02-8: "a://x" *)
  /\ excl_witness w_noauth (OQPathname (B "//x")) = true
  /\ excl_witness w_marker (OSetPath (B "/q")) = true               (* F-C03-5: "a:/./q" *)
  /\ excl_witness w_marker (OPathSegments [PClear]) = true
  /\ excl_witness w_auth_end (OSetPath (B "x")) = true.             (* "http://x" with path "x": not a reachable receiver *)
Proof. vm_compute. repeat split. Qed.
