(* Proofs/Idna_PunyRT.v - the Punycode round trip used by uts46.rs (PunyRT of Proofs/Idna_Hyp.v) is a THEOREM:
   for a label of at most 1000 scalar values, what the internal-caller encoder writes is read back
     - by the char decoder (CharInternal, the `xn--` sub-label of the mapped stream) as the label,
     - by the u8 decoder (U8Internal, an all-ASCII xn-- input label) as the label with its ASCII letters
       lower-cased (that instantiation yields char_ascii_lower_case() for the basic code units).
   Proof: the C13 development.  The walk w_outer succeeds below 3856 scalars (w_outer_small), the checked
   decoder b_dec_loop reads the encoder's output back (b_outer_rt, generic in the digit function), it commutes
   with a map on the basic code units that fixes the inserted code points (b_dec_loop_map), and the model's
   decoder follows a successful checked run for every instantiation (dec_loop_complete).
   Also: the first wording of the premise (PunyRT_old) was unsatisfiable. *)
From RU Require Import Base.Prelude Base.Utf8 Base.U32_c13 Gen.Tables Model.Punycode Model.Uts46 Spec.Rfc3492
  Proofs.C13_Ascii Proofs.C13_Bounds Proofs.C13_Enc Proofs.C13_Dec Proofs.C13_Known Proofs.C13_Vli Proofs.C13_Rt
  Proofs.C13_DecB Proofs.C13_RtB Proofs.C13_DecEnc Proofs.C13_Small Proofs.C13_Main
  Proofs.Idna_Sim Proofs.Idna_Api Proofs.Idna_Known Proofs.Idna_Hyp.

Lemma ulen_len (l : list N) : Uts46.len l = C13_Enc.len l.
Proof. reflexivity. Qed.

(* ---- digits, for both code-unit types ---- *)
Lemma digit_char_char d : d < 36 -> digit_char (s_digit_char d) = Some d.
Proof. intros H. exact (proj2 (digit_of_value d _ (value_to_digit_char d H))). Qed.
Lemma inst_digit_char it d : d < 36 -> inst_digit it (s_digit_char d) = Some d.
Proof. intros H. destruct it; cbn [inst_digit]; [apply digit_u8_char|apply digit_u8_char|apply digit_char_char]; exact H. Qed.

(* ---- the checked decoder commutes with a map that fixes every code point from n on ---- *)
Lemma insert_at_map (f : N -> N) c : f c = c -> forall l i, s_insert_at i c (map f l) = map f (s_insert_at i c l).
Proof.
  intros Hc. induction l as [|x r IH]; intros i; cbn [s_insert_at map].
  - destruct (i =? 0); cbn [map]; rewrite Hc; reflexivity.
  - destruct (i =? 0); cbn [map]; [rewrite Hc; reflexivity|]. rewrite IH. reflexivity.
Qed.
Lemma len_map (f : N -> N) l : C13_Enc.len (map f l) = C13_Enc.len l.
Proof. unfold C13_Enc.len. rewrite map_length. reflexivity. Qed.

Lemma b_dec_loop_map (f : N -> N) n0 (Hf : forall c, n0 <= c -> f c = c) dig input :
  forall mid oldi w k i n bias out out', n0 <= n ->
  b_dec_loop dig input mid oldi w k i n bias out = Some out' ->
  b_dec_loop dig input mid oldi w k i n bias (map f out) = Some (map f out').
Proof.
  induction input as [|c rest IH]; intros mid oldi w k i n bias out out' Hn Hb.
  - cbn [b_dec_loop] in *. destruct mid; [discriminate|]. inversion Hb. reflexivity.
  - rewrite b_dec_loop_cons in *. destruct (dig c) as [digit|]; [|discriminate].
    destruct ((digit * w <=? U32_MAX) && (i + digit * w <=? U32_MAX)); [|discriminate].
    destruct (digit <? s_threshold k bias).
    + unfold b_dec_break in *. cbv zeta in *. rewrite len_map.
      destruct ((C13_Enc.len out + 1 <=? U32_MAX) && (n + (i + digit * w) / (C13_Enc.len out + 1) <=? U32_MAX)); [|discriminate].
      destruct (is_usvb (n + (i + digit * w) / (C13_Enc.len out + 1))); [|discriminate].
      assert (Hn' : n0 <= n + (i + digit * w) / (C13_Enc.len out + 1)) by (apply N.le_trans with n; [exact Hn|apply N.le_add_r]).
      rewrite insert_at_map by (apply Hf; exact Hn'). apply IH; [exact Hn'|exact Hb].
    + destruct (w * (s_base - s_threshold k bias) <=? U32_MAX); [|discriminate]. apply IH; [exact Hn|exact Hb].
Qed.

(* ---- every instantiation of the decoder follows a successful checked run ---- *)
Lemma decode_with_complete cfg it p base rest out' :
  s_split p = (base, rest) -> forallb (fun c => c <? 128) base = true -> C13_Enc.len base <= U32_MAX ->
  b_dec_loop (inst_digit it) rest false 0 1 s_base 0 s_initial_n s_initial_bias (map (inst_base_char it) base) = Some out' ->
  decode_with cfg it p = Ok out'.
Proof.
  intros Hs Ha Hl Hb. unfold decode_with, decoder_decode. rewrite split_eq, Hs.
  rewrite Ha. cbn [negb]. rewrite andb_false_r.
  assert (Hw : u32_wrap (N.of_nat (length base)) = C13_Enc.len base).
  { unfold u32_wrap. apply N.mod_small. unfold C13_Enc.len, U32_MOD, U32_MAX in *. lia. }
  rewrite Hw.
  destruct (dec_loop_complete cfg it base rest false 0 1 BASE 0 (C13_Enc.len base) INITIAL_N INITIAL_BIAS []
              (map (inst_base_char it) base) out' (eq_sym (len_map _ _)) (Rep_base_only it base 0) Hb) as [ins' [Hd HR]].
  rewrite Hd. exact (collect_Rep _ _ _ _ _ HR).
Qed.

Lemma inst_base_char_fix it c : 128 <= c -> inst_base_char it c = c.
Proof.
  intros H. destruct it; cbn [inst_base_char]; try reflexivity.
  unfold to_lower, is_upper. replace ((65 <=? c) && (c <=? 90)) with false by lia. reflexivity.
Qed.

(* ---- decode_with it (encode s) = map (inst_base_char it) s whenever the walk succeeds ---- *)
Lemma dec_enc_of_walk_it cfg it s p : usv_list s -> encode cfg s = Ok p ->
  w_outer (S (length s)) s (C13_Enc.len s) s_initial_n 0 (cnt (fun c => c <? 128) s) 0 = true ->
  decode_with cfg it p = Ok (map (inst_base_char it) s).
Proof.
  intros Hu He Hw.
  assert (Hub : Forall (fun c => is_usvb c = true) s).
  { unfold usv_list in Hu. eapply Forall_impl; [|exact Hu]. intros c Hc. apply is_usvb_spec. exact Hc. }
  assert (HL : C13_Enc.len s <= U32_MAX).
  { unfold encode in He. unfold C13_Enc.len. destruct (U32_MAX <? N.of_nat (length s)) eqn:EL; [discriminate|lia]. }
  destruct (encode_safe cfg s) as [E|E]; rewrite E in He; [discriminate|]. inversion He. subst p. clear He E.
  rewrite s_encode_unfold.
  remember (cnt (fun c => c <? 128) s) as b.
  remember (s_enc_outer (S (length s)) s (C13_Enc.len s) b 128 0 72 b) as D.
  assert (HD : nodelim D) by (subst D; apply outer_nodelim).
  pose proof (cnt_le (fun c => c <? 128) s) as Hcb. rewrite <- Heqb in Hcb.
  assert (Hmain0 : b_dec_loop (inst_digit it) D false 0 1 s_base 0 s_initial_n s_initial_bias (filter (fun c => c <? 128) s) = Some s).
  { subst D. apply (b_outer_rt (inst_digit it) (inst_digit_char it)); try assumption; try reflexivity; try lia.
    - rewrite Heqb. apply cnt_filter.
    - unfold s_initial_n. lia.
    - unfold C13_Enc.len in *. rewrite Nat2N.inj_succ. lia.
    - unfold s_initial_bias. lia. }
  pose proof (b_dec_loop_map (inst_base_char it) 128 (inst_base_char_fix it) (inst_digit it) D
                false 0 1 s_base 0 s_initial_n s_initial_bias _ _ ltac:(unfold s_initial_n; lia) Hmain0) as Hmain.
  assert (Hbl : C13_Enc.len (filter (fun c => c <? 128) s) <= U32_MAX) by (rewrite <- cnt_filter, <- Heqb; lia).
  destruct (0 <? b) eqn:Eb.
  - eapply decode_with_complete; [|apply forallb_filter|exact Hbl|exact Hmain].
    apply (split_encoded _ D); [|exact HD].
    intros Hnil. rewrite Heqb, cnt_filter, Hnil in Eb. cbn in Eb. lia.
  - assert (Hnil : filter (fun c => c <? 128) s = []).
    { destruct (filter (fun c => c <? 128) s) eqn:Ef; [reflexivity|]. rewrite Heqb, cnt_filter, Ef, len_cons in Eb. lia. }
    rewrite Hnil in *. cbn [app].
    apply (decode_with_complete cfg it D [] D); [|reflexivity|rewrite len_nil; unfold U32_MAX; lia|exact Hmain].
    unfold s_split. rewrite (rpos_none D HD). reflexivity.
Qed.

(* no exclusion up to 3855 scalars, every instantiation *)
Theorem dec_enc_small_it cfg it s p : usv_list s -> (length s <= 3855)%nat ->
  encode cfg s = Ok p -> decode_with cfg it p = Ok (map (inst_base_char it) s).
Proof.
  intros Hu Hl He. apply (dec_enc_of_walk_it cfg it s p Hu He).
  apply w_outer_small.
  - unfold C13_Enc.len. lia.
  - unfold usv_list in Hu. eapply Forall_impl; [|exact Hu]. exact usv_le.
  - unfold s_initial_n. lia.
  - reflexivity.
  - rewrite N.add_0_l. apply N.le_0_l.
Qed.

Lemma map_id_N (l : list N) : map (fun c => c) l = l.
Proof. induction l as [|x r IH]; [reflexivity|]. cbn [map]. rewrite IH. reflexivity. Qed.

(* ---- PunyRT holds ---- *)
Theorem punyrt_holds : forall cfg, PunyRT cfg.
Proof.
  intros cfg l p Hlen Hu He.
  assert (Hl : (length l <= 1000)%nat).
  { unfold PUNYCODE_ENCODE_MAX_INPUT_LENGTH in Hlen. change T_IDNA_ENCODE_MAX with 1000 in Hlen.
    unfold Uts46.len in Hlen. lia. }
  destruct (internal_main cfg l Hu Hl) as [E1 E2]. rewrite E1 in He.
  split.
  - rewrite (dec_enc_small_it cfg CharInternal l p Hu ltac:(lia) He). cbn [inst_base_char].
    rewrite map_id_N. reflexivity.
  - exact (dec_enc_small_it cfg U8Internal l p Hu ltac:(lia) He).
Qed.

(* the label-level corollary used by the IDNA proofs: no upper-case ASCII letter => both decoders return the label *)
Lemma map_to_lower_noupper l : existsb is_upper l = false -> map to_lower l = l.
Proof.
  induction l as [|c r IH]; intros H; [reflexivity|]. cbn [existsb] in H. apply orb_false_iff in H. destruct H as [H1 H2].
  cbn [map]. rewrite (IH H2). unfold to_lower. rewrite H1. reflexivity.
Qed.
Theorem punyrt_noupper cfg l p : Uts46.len l <= PUNYCODE_ENCODE_MAX_INPUT_LENGTH -> usv_list l ->
  existsb is_upper l = false -> encode_internal cfg l = Ok p ->
  decode_with cfg CharInternal p = Ok l /\ decode_with cfg U8Internal p = Ok l.
Proof.
  intros Hlen Hu Hup He. destruct (punyrt_holds cfg l p Hlen Hu He) as [H1 H2].
  rewrite (map_to_lower_noupper l Hup) in H2. split; assumption.
Qed.

(* ---- the first wording of the premise was unsatisfiable ---- *)
Definition W_PunyRT_old : list N := [65; 252].                     (* "A" U+00FC *)
Lemma w_punyrt_old cfg :
  encode_internal cfg W_PunyRT_old = Ok [65; 45; 101; 104; 97] /\           (* "A-eha" *)
  decode_with cfg U8Internal [65; 45; 101; 104; 97] = Ok [97; 252] /\       (* lower-cased basic code unit *)
  decode_with cfg CharInternal [65; 45; 101; 104; 97] = Ok [65; 252].
Proof. destruct cfg; vm_compute; repeat split; reflexivity. Qed.

Theorem PunyRT_old_unsat : forall cfg, ~ PunyRT_old cfg.
Proof.
  intros cfg H. destruct (w_punyrt_old cfg) as (He & Hd & _).
  assert (Hu : usv_list W_PunyRT_old) by (unfold W_PunyRT_old; repeat constructor; unfold is_usv; lia).
  assert (Hlen : Uts46.len W_PunyRT_old <= PUNYCODE_ENCODE_MAX_INPUT_LENGTH) by (vm_compute; discriminate).
  destruct (H W_PunyRT_old _ Hlen Hu eq_refl He) as [H1 _]. rewrite Hd in H1. discriminate.
Qed.

Example PunyRT_premises_hold :
  Uts46.len [98; 252; 99; 104; 101; 114] <= PUNYCODE_ENCODE_MAX_INPUT_LENGTH /\ usv_list [98; 252; 99; 104; 101; 114] /\
  encode_internal true [98; 252; 99; 104; 101; 114] = Ok [98; 99; 104; 101; 114; 45; 107; 118; 97].   (* bücher -> bcher-kva *)
Proof.
  split; [vm_compute; discriminate|]. split; [repeat constructor; unfold is_usv; lia|vm_compute; reflexivity].
Qed.
