(* Proofs/C07_EqHostLayout.v - model-side groundwork of the C07 equivalence for the hostname setter:
   the scan of Parser::parse_host is the scan of the Standard's host state (hscan of
   Proofs/C07_SpecHost.v); Url::set_host_internal without new port, evaluated: the record it builds
   (with_host_auth / with_host_noauth of Proofs/C06_Host.v) has an authority and no "//@". *)
From RU Require Import Base.Prelude Base.Utf8 Base.Utf8Facts Model.AsciiSet Gen.Tables Model.PercentEncoding
  Model.HostT Model.UrlRecord Model.Parser Model.Setters Model.WF Model.KnownC01 Model.KnownC07 Spec.Whatwg
  Proofs.ListN Proofs.C03_WF Proofs.C06_List Proofs.C06_WFI Proofs.C06_Tail Proofs.C06_Suffix Proofs.C06_Front
  Proofs.C06_Steps Proofs.C06_Port Proofs.C06_Host Proofs.C08_Input
  Proofs.C01_EqRun Proofs.C01_EqAuthSpec Proofs.C07_Defs Proofs.C07_Corr Proofs.C07_SpecRun Proofs.C07_EqCred
  Proofs.C07_SpecProto Proofs.C07_SpecHost.

(* ---------- the scan ---------- *)
Lemma host_scan_fst sp l : forall br acc,
  fst (host_scan sp br acc l) = fst (hscan sp br (rev acc) (ntnl l)).
Proof.
  induction l as [|c r IH]; intros br acc; [reflexivity|]. cbn [host_scan]. destruct (is_tnl c) eqn:Et.
  - rewrite ntnl_cons_tnl by exact Et. apply IH.
  - rewrite ntnl_cons by exact Et. cbn [hscan].
    destruct ((c =? 58) && negb br) eqn:Ecol; cbn [orb]; [reflexivity|].
    assert (((c =? 92) && sp) || (c =? 47) || (c =? 63) || (c =? 35) = h_end sp c) as E
      by (unfold h_end; destruct (c =? 92), sp, (c =? 47), (c =? 63), (c =? 35); reflexivity).
    rewrite E. destruct (h_end sp c); [reflexivity|].
    unfold br_next. destruct (c =? 91); [rewrite IH; reflexivity|].
    destruct (c =? 93); rewrite IH; reflexivity.
Qed.

(* the scan stops at a ':' outside brackets exactly on the values of class K2 *)
Lemma hscan_colon sp t : forall br buf, snd (hscan sp br buf t) = host_colon_from sp br t.
Proof.
  induction t as [|c r IH]; intros br buf; [reflexivity|]. cbn [hscan host_colon_from].
  destruct (c =? 91) eqn:E91.
  { apply N.eqb_eq in E91. subst c.
    assert ((91 =? 58) && negb br = false) as A1 by reflexivity. rewrite A1.
    assert (h_end sp 91 = false) as A2 by (destruct sp; reflexivity). rewrite A2.
    assert (br_next br 91 = true) as A3 by reflexivity. rewrite A3. apply IH. }
  destruct (c =? 93) eqn:E93.
  { apply N.eqb_eq in E93. subst c.
    assert ((93 =? 58) && negb br = false) as A1 by reflexivity. rewrite A1.
    assert (h_end sp 93 = false) as A2 by (destruct sp; reflexivity). rewrite A2.
    assert (br_next br 93 = false) as A3 by reflexivity. rewrite A3. apply IH. }
  destruct ((c =? 58) && negb br); [reflexivity|].
  unfold h_end. destruct ((c =? 47) || (c =? 63) || (c =? 35)); cbn [orb]; [reflexivity|].
  destruct (sp && (c =? 92)); [reflexivity|].
  unfold br_next. rewrite E91, E93. apply IH.
Qed.

(* ---------- Url::set_host_internal, evaluated ---------- *)
Section Eval.
Variable dbg : bool.
Variable host_display : host -> list N.

Lemma set_host_internal_eval u h : wf_b u = true ->
  (has_authority_b u = false -> path_start u = scheme_end u + 1) ->
  set_host_internal dbg host_display u h None
  = Some (if has_authority_b u then with_host_auth u (hi_of_host h) (host_display h)
          else with_host_noauth u (hi_of_host h) (host_display h)).
Proof.
  intros W Hx2. unfold set_host_internal.
  destruct (wf_scheme_facts u W) as (Hse & Hc & Hlt).
  assert (exists u', (suffix <- u_slice_from u (host_end u);;
     (let s0 := truncate (ser u) (host_start u) in
      ha <- has_authority dbg (set_ser u s0);;
      ' (s1, ue, hs) <-
      (if negb ha
       then
        (if dbg
         then
          x <- slice_o s0 (scheme_end u) (host_start u);;
          assert_o (list_eqb x [58]);;; assert_o (username_end u =? host_start u)
         else Some tt);;; Some (s0 ++ [47; 47], username_end u + 2, host_start u + 2)
       else Some (s0, username_end u, host_start u));;
      (let s2 := s1 ++ host_display h in
       let he := nlen s2 in
       let
       '(s3, port') := (s2, port u) in
        let new_suffix_pos := nlen s3 in
        ps <- adjust dbg (path_start u) (host_end u) new_suffix_pos;;
        qs <- adjust_opt dbg (query_start u) (host_end u) new_suffix_pos;;
        fs <- adjust_opt dbg (fragment_start u) (host_end u) new_suffix_pos;;
        Some
          {|
            ser := s3 ++ suffix;
            scheme_end := scheme_end u;
            username_end := ue;
            host_start := hs;
            host_end := he;
            hosti := hi_of_host h;
            port := port';
            path_start := ps;
            query_start := qs;
            fragment_start := fs
          |}))) = Some u'
     /\ u' = (if has_authority_b u then with_host_auth u (hi_of_host h) (host_display h)
              else with_host_noauth u (hi_of_host h) (host_display h))) as (u' & E & ->); [|exact E].
  destruct (has_authority_b u) eqn:Ha.
  all: try (pose proof (wf_auth_facts u W Ha) as F;
            pose proof (af_ue F); pose proof (af_hs F); pose proof (af_he F); pose proof (af_ps F); pose proof (af_len F)).
  all: try (pose proof (wf_noauth_facts u W Ha) as F; pose proof (nf_ue F) as Eue; pose proof (nf_hs F) as Ehs;
            pose proof (nf_he F) as Ehe; pose proof (nf_len F); pose proof (nf_port F) as Eport; pose proof (Hx2 eq_refl) as Hnm).
  all: destruct (wf_tail_offsets_ge u (path_start u) W ltac:(lia)) as [Gq Gf].
  all: unfold u_slice_from; rewrite slice_from_o_some by lia; cbn [bindo];
       rewrite (has_authority_trunc dbg u W); cbn [bindo]; rewrite Ha; cbn [negb].
  - shi_auth dbg host_display u h. reflexivity.
  - shi_noauth dbg host_display u h Ehs Eue Ehe Hc Eport. reflexivity.
Qed.

End Eval.

(* ---------- the new record has an authority and is tight ---------- *)
Lemma wha_tight u hi d : wf_b u = true -> has_authority_b u = true ->
  ((hi_some hi = false /\ d = [] /\ port u = None)
   \/ (hi_some hi = true /\ exists c r, d = c :: r /\ c <> 58 /\ c <> 64)) ->
  tight u -> tight (with_host_auth u hi d).
Proof.
  intros W Ha Hd T. destruct (wha_bounds u hi d W Ha) as (B1 & B2 & B3 & B4 & B5).
  unfold tight. change (username_end (with_host_auth u hi d)) with (username_end u).
  change (scheme_end (with_host_auth u hi d)) with (scheme_end u). intros Heq.
  destruct (N.eq_dec (username_end u) (host_start u)) as [Eh|Nh].
  - (* no userinfo: the byte is the first byte of the new host text, or of what follows it *)
    rewrite Eh.
    assert (nlen (nfirstn (host_start u) (ser u)) = host_start u) as La by (apply nlen_nfirstn; lia).
    destruct Hd as [(Ehi & Ed & Ep)|(Ehi & c & r & Ed & C1 & C2)].
    + pose proof W as W0. apply wf_b_iff in W0. rewrite Ha in W0.
      destruct W0 as (_ & ((_ & _ & _ & _ & _ & _ & _ & P) & PS) & _).
      unfold port_ok in P. rewrite Ep in P.
      replace (host_start u) with (shift (host_end u) (host_start u + nlen d) (host_end u)) at 1
        by (unfold shift; rewrite Ed, nlen_nil; lia).
      rewrite (wha_byte_hi u hi d W Ha) by lia. rewrite <- P.
      destruct PS as [PS|[PS|[PS|PS]]].
      * apply byte_eqb_false_of. intros X. apply nnth_lt in X. lia.
      * apply (byte_eqb_excl _ _ 47 64); [lia | exact PS].
      * apply (byte_eqb_excl _ _ 63 64); [lia | exact PS].
      * apply (byte_eqb_excl _ _ 35 64); [lia | exact PS].
    + unfold byte_eqb. rewrite (wha_ser u hi d), Ed. rewrite nnth_app_ge by lia. rewrite La, N.sub_diag. cbn.
      apply N.eqb_neq. exact C2.
  - rewrite (pre_byte_eqb (host_start u) (ser u)); [exact (T Heq) | exact (wha_pre u hi d W Ha) | lia].
Qed.

Lemma whn_tight u hi d : wf_b u = true -> has_authority_b u = false ->
  path_start u = scheme_end u + 1 -> byte_eqb (ser u) (scheme_end u + 1) 47 = true ->
  ((hi_some hi = false /\ d = [])
   \/ (hi_some hi = true /\ exists c r, d = c :: r /\ c <> 58 /\ c <> 64)) ->
  tight (with_host_noauth u hi d).
Proof.
  intros W Ha Hnm Hsl Hd. unfold tight.
  change (username_end (with_host_noauth u hi d)) with (scheme_end u + 3). intros _.
  apply (whn_byte_at_hs u hi d W Hnm Hsl Hd 64). right. reflexivity.
Qed.
