(* Proofs/C09_V6spec.v - write_ipv6 equals the Standard's IPv6 serializer on every address. *)
From RU Require Import Base.Prelude Base.Utf8 Model.AsciiSet Gen.Tables Model.PercentEncoding Model.HostT Model.Host
  Spec.WhatwgHost Proofs.C09_V6 Proofs.C09_V6rt Proofs.C09_V6form Proofs.C09_Wf.

Lemma shortest_hex_sweep : all_below 65536 (fun v => list_eqb (Spec.shortest_hex v) (hex4 v)) = true.
Proof. vm_compute. reflexivity. Qed.

Lemma shortest_hex_hex4 v : v < 65536 -> Spec.shortest_hex v = hex4 v.
Proof. intros H. apply list_eqb_spec. exact (all_below_spec _ _ shortest_hex_sweep v H). Qed.

Lemma find_compress_nz l : forall i li ls fi fs,
  Spec.find_compress (map nz l) i li ls fi fs = Spec.find_compress l i li ls fi fs.
Proof.
  induction l as [|p r IH]; intros i li ls fi fs; cbn [map Spec.find_compress]; [reflexivity|].
  replace (nz p =? 0) with (p =? 0) by (unfold nz; destruct (p =? 0) eqn:E; lia).
  destruct (negb (p =? 0)); [destruct (ls <? fs)%nat|]; apply IH.
Qed.

Arguments hex4 : simpl never.
Arguments Spec.shortest_hex : simpl never.

Ltac close_consts :=
  repeat match goal with
  | |- context [longest_zero_sequence ?l] =>
      let v := eval vm_compute in (longest_zero_sequence l) in change (longest_zero_sequence l) with v
  | |- context [Spec.find_compress ?l 0 None 1 None 0] =>
      let v := eval vm_compute in (Spec.find_compress l 0 None 1 None 0) in
      change (Spec.find_compress l 0 None 1 None 0) with v
  end.

Theorem write_ipv6_spec a : wf8 a -> write_ipv6 a = Spec.ipv6_serialize a.
Proof.
  intros [Hlen Hall]. destruct (length8 a Hlen) as (a0 & a1 & a2 & a3 & a4 & a5 & a6 & a7 & ->).
  repeat match goal with H : Forall _ (_ :: _) |- _ => inversion H; clear H; subst end.
  unfold Spec.ipv6_serialize, Spec.compress_index, write_ipv6, write_ipv6_o.
  rewrite <- find_compress_nz, <- lzs_nz. cbn [map]. unfold nz.
  destruct (a0 =? 0) eqn:E0; destruct (a1 =? 0) eqn:E1; destruct (a2 =? 0) eqn:E2; destruct (a3 =? 0) eqn:E3;
  destruct (a4 =? 0) eqn:E4; destruct (a5 =? 0) eqn:E5; destruct (a6 =? 0) eqn:E6; destruct (a7 =? 0) eqn:E7;
  close_consts;
  repeat match goal with E : (?x =? 0) = true |- _ => apply N.eqb_eq in E; subst x end;
  to_nat_consts;
  repeat (progress (cbn [Spec.serialize_pieces andb Nat.eqb app];
                    rewrite ?E0, ?E1, ?E2, ?E3, ?E4, ?E5, ?E6, ?E7; change (0 =? 0) with true));
  rewrite ?shortest_hex_hex4 by (assumption || lia);
  rewrite ?app_nil_r; reflexivity.
Qed.

(* the model parser inverts the Standard's serializer *)
Corollary parse_spec_serialize a : wf8 a -> parse_ipv6addr (Spec.ipv6_serialize a) = XOk a.
Proof. intros H. rewrite <- write_ipv6_spec by exact H. destruct H. apply parse_write_ipv6; assumption. Qed.

(* ------------------------------------------------------------------ parser against the Standard's parser *)

Definition lift6 (o : option (list N)) : xr (list N) :=
  match o with Some a => XOk a | None => XErr InvalidIpv6Address end.

(* the full statement (not proved in this round) *)
Definition ipv6_parse_spec_statement : Prop :=
  forall s, usv_list s -> parse_ipv6addr (utf8_encode s) = lift6 (Spec.ipv6_parse s).

(* bounded instance, decided by computation: all strings of length <= 5 over {1 f F : . 2 5 g} *)
Fixpoint all_strings (alpha : list N) (n : nat) : list (list N) :=
  match n with
  | O => [[]]
  | S k => [] :: flat_map (fun s => map (fun c => c :: s) alpha) (all_strings alpha k)
  end.

Definition xr_list_eqb (x y : xr (list N)) : bool :=
  match x, y with
  | XOk a, XOk b => list_eqb a b
  | XErr InvalidIpv6Address, XErr InvalidIpv6Address => true
  | _, _ => false
  end.

Lemma xr_list_eqb_eq x y : xr_list_eqb x y = true -> x = y.
Proof.
  destruct x as [a|e|sx|], y as [b|f|sy|]; cbn [xr_list_eqb]; try discriminate;
    try (destruct e; discriminate).
  - intros H. apply list_eqb_spec in H. congruence.
  - destruct e, f; try discriminate. reflexivity.
Qed.

Definition v6_alpha : list N := [49; 102; 70; 58; 46; 50; 53; 103].

Lemma ipv6_parse_spec_bounded_check :
  forallb (fun s => xr_list_eqb (parse_ipv6addr s) (lift6 (Spec.ipv6_parse s))) (all_strings v6_alpha 5) = true.
Proof. vm_compute. reflexivity. Qed.

Theorem ipv6_parse_spec_bounded s : In s (all_strings v6_alpha 5) ->
  parse_ipv6addr s = lift6 (Spec.ipv6_parse s).
Proof.
  intros H. apply xr_list_eqb_eq. pose proof ipv6_parse_spec_bounded_check as C.
  rewrite forallb_forall in C. exact (C s H).
Qed.
