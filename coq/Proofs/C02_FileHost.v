(* Proofs/C02_FileHost.v - the host clause of C02_FileParse (host_no_wdl: the display of a parsed host is not a
   Windows drive letter) holds of the host model Model/Host.v for every IDNA function satisfying IdnaOK:
   a domain is free of forbidden domain code points, among them ':' and '|'; the display of an IPv4 address starts
   with a digit, that of an IPv6 address with '['. *)
From Coq Require Import String.
From RU Require Import Base.Prelude Base.Utf8 Base.Utf8Facts Model.AsciiSet Gen.Tables Model.PercentEncoding
  Model.HostT Model.Host Model.UrlRecord Model.Parser Model.Setters Model.WF
  Proofs.ListN Proofs.C09_Host Proofs.C09_Inst
  Proofs.C02_Reach Proofs.C02_AuthParts Proofs.C02_File Proofs.C02_FileL1 Proofs.C02_FileParse.
From RU Require Spec.WhatwgHost.
Open Scope N_scope.
Open Scope list_scope.

Lemma is_wdl_head_not_alpha a X : is_alpha a = false -> is_wdl (a :: X) = false.
Proof.
  intros H. unfold is_wdl, starts_with_wdl. destruct X as [|b r]; [reflexivity|]. rewrite H. cbn [andb]. apply andb_false_r.
Qed.

Lemma digit_dot_not_alpha c : is_digit c = true \/ c = 46 -> is_alpha c = false.
Proof. unfold is_digit, is_alpha, is_upper, is_lower. lia. Qed.

Theorem host_no_wdl_model idna : IdnaOK idna -> host_no_wdl (host_parse idna) host_display.
Proof.
  intros OK s h H. pose proof (host_parse_ok_x _ _ _ H) as Hx.
  destruct (host_parse_x_shape idna s h OK Hx) as [Hs _].
  destruct h as [d|a|ps]; cbn [host_display].
  - destruct (is_wdl d) eqn:E; [|reflexivity]. exfalso.
    destruct (is_wdl_inv d E) as (a & b & -> & Ha).
    pose proof (domain_form idna OK s [a; b] Hx) as Hf.
    inversion Hf as [|? ? _ Hf']; subst. inversion Hf' as [|? ? (_ & _ & Hb) _]; subst.
    unfold is_wdl, starts_with_wdl in E. cbn [length Nat.eqb andb] in E. rewrite Ha in E. cbn [andb] in E.
    rewrite andb_true_r in E. apply orb_true_iff in E. destruct E as [E|E]; apply N.eqb_eq in E; subst b;
      vm_compute in Hb; discriminate Hb.
  - inversion Hs as [| |a0 Ha|]; subst. destruct (ipv4_display_digits a Ha) as (Hd & Hn & _).
    destruct (ipv4_display a) as [|c r]; [reflexivity|]. inversion Hd as [|? ? Hc _]; subst.
    apply is_wdl_head_not_alpha. apply digit_dot_not_alpha. exact Hc.
  - cbn [app]. apply is_wdl_head_not_alpha. reflexivity.
Qed.
