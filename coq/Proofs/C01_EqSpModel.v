(* Proofs/C01_EqSpModel.v - model side of the C01 equivalence for special non-file schemes: what
   inp_count_matching (the slashes after "scheme:"), parse_userinfo, parse_host (host_scan with '\' as a
   terminator, the non-empty-host rule) and parse_port (default-port table) of parser.rs compute on the
   raw remaining input, in terms of the cuts the Standard's states make on the cleaned text
   (Proofs/C01_EqSpSpec.v). *)
From RU Require Import Base.Prelude Base.Utf8 Base.Utf8Facts Model.AsciiSet Gen.Tables
  Model.PercentEncoding Model.HostT Model.UrlRecord Model.Parser Model.Setters Model.WF Spec.Whatwg
  Proofs.ListN Proofs.C14_Set Proofs.C14_Enc Proofs.C14_Views Proofs.C02_Enc Proofs.C02_Parts
  Proofs.C02_Opaque Proofs.C02_Path Proofs.C02_PathL1 Proofs.C03_WF Proofs.C01_Tables Proofs.C08_Input
  Proofs.C01_EqRun Proofs.C01_EqEnc Proofs.C01_EqApi Proofs.C01_EqOpaque Proofs.C01_EqDots Proofs.C01_EqPathSpec
  Proofs.C06_List Proofs.C06_Steps Proofs.C01_EqRef Proofs.C01_EqPath Proofs.C01_EqOverflow Proofs.C01_EqAuthSpec
  Proofs.C01_EqAuthModel Proofs.C01_EqSpSpec Proofs.C02_AuthSp.

(* ================= the slashes after "scheme:" ================= *)
Lemma count_matching_ntnl f l :
  ntnl (snd (inp_count_matching f l)) = drop_leading f (ntnl l)
  /\ (fst (inp_count_matching f l) = 0 -> drop_leading f (ntnl l) = ntnl l).
Proof.
  induction l as [|c r IH]; [split; reflexivity|]. cbn [inp_count_matching].
  destruct (is_tnl c) eqn:Et.
  - rewrite ntnl_cons_tnl by exact Et. destruct (inp_count_matching f r) as [k rm]. cbn [fst snd] in IH.
    destruct IH as [IH1 IH2]. destruct k as [|pk]; cbn [fst snd].
    + rewrite ntnl_cons_tnl by exact Et. rewrite (IH2 eq_refl). split; [reflexivity | intros _; reflexivity].
    + split; [exact IH1 | intros H; discriminate H].
  - rewrite ntnl_cons by exact Et. cbn [drop_leading]. destruct (f c) eqn:Ef.
    + destruct (inp_count_matching f r) as [k rm]. cbn [fst snd] in *. destruct IH as [IH1 _].
      split; [exact IH1 | intros H; lia].
    + cbn [fst snd]. rewrite ntnl_cons by exact Et. split; [reflexivity | intros _; reflexivity].
Qed.

Lemma count_matching_usv' f l : usv_list l -> usv_list (snd (inp_count_matching f l)).
Proof.
  induction l as [|c r IH]; intros Hu; [exact Hu|]. pose proof Hu as Hu0. apply usv_cons in Hu. destruct Hu as [Hc Hr].
  cbn [inp_count_matching]. destruct (is_tnl c).
  - destruct (inp_count_matching f r) as [k rm]. cbn [snd] in IH. destruct k; cbn [snd]; [exact Hu0 | exact (IH Hr)].
  - destruct (f c); [|exact Hu0]. destruct (inp_count_matching f r) as [k rm]. cbn [snd] in *. exact (IH Hr).
Qed.

(* ================= first pass of parse_userinfo: the last '@' ================= *)
Lemma scan_stop_eq_s c : ((c =? 47) || (c =? 63) || (c =? 35) || ((c =? 92) && true)) = is_aes c.
Proof. unfold is_aes, is_ae. rewrite andb_true_r. reflexivity. Qed.

Lemma scan_spec_s l : forall count last, usv_list l ->
  match last_at (as_part (ntnl l)) with
  | Some (w, h) => exists rem, scan_last_at true l count last = Some (count + nlen w, rem)
                               /\ ntnl rem = h ++ as_rest (ntnl l) /\ usv_list rem
  | None => scan_last_at true l count last = last
  end.
Proof.
  induction l as [|c r IH]; intros count last Hu; [reflexivity|].
  apply usv_cons in Hu. destruct Hu as [Huc Hur]. cbn [scan_last_at].
  destruct (is_tnl c) eqn:Et.
  - rewrite ntnl_cons_tnl by exact Et. apply IH. exact Hur.
  - rewrite ntnl_cons by exact Et. cbn [as_part as_rest]. rewrite scan_stop_eq_s.
    destruct (c =? 64) eqn:E64.
    + assert (is_aes c = false) as Eae by (apply N.eqb_eq in E64; subst c; reflexivity). rewrite Eae.
      cbn [last_at]. rewrite E64. specialize (IH (count + 1) (Some (count, r)) Hur).
      destruct (last_at (as_part (ntnl r))) as [[w h]|].
      * destruct IH as (rem & E1 & E2 & E3). exists rem. split; [|split; assumption].
        rewrite E1. rewrite nlen_cons. f_equal. f_equal. lia.
      * exists r. split; [|split; [|exact Hur]].
        -- rewrite IH. rewrite nlen_nil, N.add_0_r. reflexivity.
        -- symmetry. apply as_part_rest.
    + destruct (is_aes c) eqn:Eae; [reflexivity|]. cbn [last_at]. rewrite E64.
      specialize (IH (count + 1) last Hur).
      destruct (last_at (as_part (ntnl r))) as [[w h]|]; [|exact IH].
      destruct IH as (rem & E1 & E2 & E3). exists rem. split; [|split; assumption].
      rewrite E1. rewrite nlen_cons. f_equal. f_equal. lia.
Qed.

Theorem parse_userinfo_spec_s ser l : usv_list l ->
  match fst (after_at_s (ntnl l)) with
  | None => forall P : Prop, (U32_MAX_P < nlen ser -> P) -> oob P (parse_userinfo STSpecialNotFile ser l) (ser, nlen ser, l)
  | Some w =>
      if is_nil w && starts_aes (snd (after_at_s (ntnl l))) then parse_userinfo STSpecialNotFile ser l = PErr EmptyHost
      else exists rem, ntnl rem = snd (after_at_s (ntnl l)) /\ usv_list rem /\
           forall P : Prop,
           ((U32_MAX_P < nlen (ser ++ cred_text (encU (cr_user w)) (encU (cr_pass w))) -> P) ->
            oob P (parse_userinfo STSpecialNotFile ser l)
                (ser ++ cred_text (encU (cr_user w)) (encU (cr_pass w)), nlen ser + nlen (encU (cr_user w)), rem))
  end.
Proof.
  intros Hu. unfold after_at_s, parse_userinfo. cbn [st_is_special].
  pose proof (scan_spec_s l 0 None Hu) as HS.
  destruct (last_at (as_part (ntnl l))) as [[w h]|] eqn:Ela; cbn [fst snd].
  2:{ rewrite HS. intros P HP. eapply oob_bind; [apply oob_u32; exact HP | apply oob_ret]. }
  destruct HS as (rem & Escan & Hrem & Hurem). rewrite Escan, N.add_0_l.
  destruct w as [|c0 w'].
  - (* "@host": no credentials, the '@' is skipped *)
    cbn [is_nil andb]. rewrite nlen_nil. rewrite <- Hrem.
    destruct (inp_next rem) as [[c r']|] eqn:En.
    + destruct (inp_next_ntnl rem c r' En) as [E1 _]. rewrite E1. cbn [starts_aes andb].
      change ((c =? 47) || (c =? 63) || (c =? 35) || (c =? 92)) with (is_aes c). destruct (is_aes c); [reflexivity|].
      exists rem. split; [exact E1 | split; [exact Hurem|]].
      change (encU (cr_user [])) with (@nil N). change (encU (cr_pass [])) with (@nil N).
      cbn [cred_text is_nil andb]. rewrite app_nil_r, nlen_nil, N.add_0_r.
      intros P HP. eapply oob_bind; [apply oob_u32; exact HP | apply oob_ret].
    + rewrite (inp_next_none_ntnl rem En). reflexivity.
  - cbn [is_nil andb]. exists rem. split; [exact Hrem | split; [exact Hurem|]]. intros P HP.
    set (w := c0 :: w') in *.
    assert (exists p, nlen w = N.pos p) as [p Ep] by (unfold w, nlen; cbn [length N.of_nat]; eexists; reflexivity).
    rewrite Ep.
    assert (ntnl l = w ++ 64 :: h ++ as_rest (ntnl l)) as Hl.
    { rewrite <- (as_part_rest (ntnl l)) at 1. rewrite (last_at_split _ _ _ Ela). rewrite <- app_assoc. reflexivity. }
    set (U := cr_user w) in *. set (PW := cr_pass w) in *.
    assert (nlen (ser ++ encU U) <= nlen (ser ++ cred_text (encU U) (encU PW))) as Hle.
    { rewrite !nlen_app. pose proof (cred_text_len (encU U) (encU PW)). lia. }
    pose proof (ui_phase1 P l w _ (N.pos p) ser false Hu Hl (eq_sym Ep)) as H1.
    assert (U32_MAX_P < nlen (ser ++ encU (cr_user w)) -> P) as HP1 by (fold U; intros K; apply HP; lia).
    specialize (H1 HP1). fold U PW in H1.
    eapply oob_bind; [exact H1|]. cbn [orb].
    destruct (has_colon w) eqn:Ecol.
    + cbn [pbind].
      assert ((if negb (is_nil U) || negb (is_nil PW)
               then (ser ++ encU U ++ (if is_nil PW then [] else 58 :: encU PW)) ++ [64]
               else ser ++ encU U ++ (if is_nil PW then [] else 58 :: encU PW))
              = ser ++ cred_text (encU U) (encU PW)) as ->.
      { unfold cred_text. rewrite !encU_nil_iff.
        destruct (is_nil U) eqn:EU; destruct (is_nil PW) eqn:EP; cbn [negb orb andb].
        - destruct U; [|discriminate EU]. change (encU []) with (@nil N). cbn [app]. reflexivity.
        - rewrite <- !app_assoc. reflexivity.
        - rewrite <- !app_assoc. reflexivity.
        - rewrite <- !app_assoc. reflexivity. }
      rewrite (nlen_app ser). right. reflexivity.
    + destruct (no_colon_user w Ecol) as [EU EP]. unfold U, PW in *. rewrite EU, EP in *.
      change (encU []) with (@nil N) in *. cbn [is_nil negb orb].
      assert (cred_text (encU w) [] = encU w ++ [64]) as Ect.
      { unfold cred_text. rewrite encU_nil_iff. cbn [is_nil andb app]. unfold w at 1. cbn [is_nil]. reflexivity. }
      rewrite Ect in *.
      eapply oob_bind; [apply oob_u32; intros K; apply HP; rewrite !nlen_app in *; lia|].
      right. rewrite <- app_assoc, nlen_app. reflexivity.
Qed.

(* ================= host ================= *)
Lemma host_stop_eq_s c br :
  (((c =? 58) && negb br) || ((c =? 92) && true) || (c =? 47) || (c =? 63) || (c =? 35)) = hss_stop br c.
Proof. unfold hss_stop, is_aes, is_ae. destruct (c =? 58), br, (c =? 92), (c =? 47), (c =? 63), (c =? 35); reflexivity. Qed.

Lemma host_scan_spec_s l : forall br acc, usv_list l ->
  exists rem, host_scan true br acc l = (rev acc ++ hss_host br (ntnl l), rem)
              /\ ntnl rem = hss_rest br (ntnl l) /\ usv_list rem.
Proof.
  induction l as [|c r IH]; intros br acc Hu.
  - exists []. cbn. rewrite app_nil_r. repeat split. constructor.
  - pose proof Hu as Hu0. apply usv_cons in Hu. destruct Hu as [Huc Hur]. cbn [host_scan].
    destruct (is_tnl c) eqn:Et.
    + rewrite ntnl_cons_tnl by exact Et. apply IH. exact Hur.
    + rewrite ntnl_cons by exact Et. cbn [hss_host hss_rest]. rewrite host_stop_eq_s.
      destruct (hss_stop br c) eqn:Es.
      * exists (c :: r). rewrite app_nil_r. split; [reflexivity|]. split; [apply ntnl_cons; exact Et | exact Hu0].
      * assert ((if c =? 91 then host_scan true true (c :: acc) r
                 else if c =? 93 then host_scan true false (c :: acc) r else host_scan true br (c :: acc) r)
                = host_scan true (br_next br c) (c :: acc) r) as ->.
        { unfold br_next. destruct (c =? 91); [reflexivity|]. destruct (c =? 93); reflexivity. }
        destruct (IH (br_next br c) (c :: acc) Hur) as (rem & E1 & E2 & E3). exists rem.
        rewrite E1. cbn [rev]. rewrite <- app_assoc. repeat split; assumption.
Qed.

(* the text the path start state sees, from the text HR after the credentials *)
Definition sp_path_text_of (HR : list N) : list N :=
  match port_split (hss_rest false HR) with
  | Some PR => after_digits PR
  | None => hss_rest false HR
  end.

Lemma path_end_aes c : is_path_end c = is_aes c.
Proof. unfold is_path_end, is_aes, is_ae. destruct (c =? 47), (c =? 92), (c =? 63), (c =? 35); reflexivity. Qed.

(* ================= the host functions of the two sides on one string ================= *)
(* the model's Host::parse + Display and the Standard's host parser (isOpaque = false) + serializer
   agree on the non-empty string s: both fail, or both succeed with the same non-empty text, which
   neither starts with ':' nor ends with '/', and the model's host is not the empty domain *)
Definition host_agree_sp (hp : list N -> result host) (hd : host -> list N)
           (shp : bool -> list N -> option spec_host) (shs : spec_host -> list N) (s : list N) : Prop :=
  match s with
  | [] => True
  | _ =>
      match hp s, host_parsing shp false s with
      | Ok h, Some sh => hd h = shs sh /\ starts_with_cp 58 (hd h) = false
                         /\ h <> HDomain [] /\ hd h <> [] /\ ends_with_byte 47 (hd h) = false
      | Err _, None => True
      | _, _ => False
      end
  end.

Lemma port_default_eq sch v : opt_eqb (Some v) (default_port sch) = port_is_default sch v.
Proof.
  unfold port_is_default. rewrite <- default_ports_are_the_standards.
  destruct (default_port sch) as [d|]; cbn [opt_eqb]; [apply N.eqb_sym | reflexivity].
Qed.

Lemma decimal_not_slash p X : ends_with_byte 47 (X ++ 58 :: decimal p) = false.
Proof. exact (decimal_last p X). Qed.

Section Stages.
Variable dbg : bool.
Variable hp hpo : list N -> result host.
Variable hd : host -> list N.
Variable ovr : option (list N -> list N).
Variable shp : bool -> list N -> option spec_host.
Variable shs : spec_host -> list N.

(* ---------- parse_host_and_port ---------- *)
Theorem hp_spec_s sch ser1 rem u : usv_list rem -> scheme_type_of sch = STSpecialNotFile ->
  (exists tl, ser1 = sch ++ tl) -> su_port u = None -> su_scheme u = sch ->
  host_agree_sp hp hd shp shs (hss_host false (ntnl rem)) ->
  match sauth_host_g shp u [] false (ntnl rem) with
  | None => mfail (parse_host_and_port hp hpo hd CUrlParser STSpecialNotFile (nlen sch) ser1 rem)
  | Some su =>
      exists host sh port rem',
        hp (hss_host false (ntnl rem)) = Ok host /\ host_parsing shp false (hss_host false (ntnl rem)) = Some sh
        /\ hss_host false (ntnl rem) <> []
        /\ (forall p, port = Some p -> p <= 65535)
        /\ ntnl rem' = sp_path_text_of (ntnl rem) /\ usv_list rem' /\ starts_aes (sp_path_text_of (ntnl rem)) = true
        /\ su = sauth_tail_s (set_port (set_host u (Some sh)) port) (sp_path_text_of (ntnl rem))
        /\ ends_with_byte 47 ((ser1 ++ hd host) ++ port_suffix port) = false
        /\ (forall P : Prop, (U32_MAX_P < nlen (ser1 ++ hd host) -> P) ->
            oob P (parse_host_and_port hp hpo hd CUrlParser STSpecialNotFile (nlen sch) ser1 rem)
                ((ser1 ++ hd host) ++ port_suffix port, nlen (ser1 ++ hd host), hi_of_host host, port, rem'))
  end.
Proof.
  intros Hu Hsp Hsch Hpo Hus HA.
  unfold parse_host_and_port, parse_host. cbn [st_is_file st_is_special scheme_type_eqb andb negb].
  destruct (host_scan_spec_s rem false [] Hu) as (rem2 & Escan & Hrem2 & Hu2). cbn [rev app] in Escan.
  rewrite Escan.
  unfold sauth_host_g, sp_path_text_of. cbv zeta. cbn [app].
  pose proof (hss_rest_head (ntnl rem) false) as Hhead.
  remember (ntnl rem) as HR eqn:EHR. remember (hss_host false HR) as Hh0 eqn:EHh.
  destruct Hh0 as [|h0 hr].
  { (* empty host: EmptyHost on the model side, failure in the host state *)
    cbn [is_nil pbind]. exists EmptyHost. reflexivity. }
  cbn [is_nil]. unfold host_agree_sp in HA. cbv beta iota in HA.
  change (match h0 :: hr with [] => true | _ :: _ => false end) with false. cbv beta iota.
  set (Hh := h0 :: hr) in *.
  destruct (hp Hh) as [host|e] eqn:Ehp; destruct (host_parsing shp false Hh) as [sh|] eqn:Eshp; try contradiction.
  2:{ cbn [of_result pbind]. exists e. reflexivity. }
  destruct HA as (Htxt & Hcol & Hne & Hne2 & Hsl).
  cbn [of_result pbind].
  assert (nfirstn (nlen sch) (ser1 ++ hd host) = sch) as Esch.
  { destruct Hsch as [tl ->]. rewrite <- app_assoc. apply nfirstn_app_len. }
  rewrite Esch.
  assert (forall rm, match host with
                     | HDomain [] => if inp_starts_with_char 58 rm then PErr EmptyHost
                                     else if true then PErr EmptyHost else POk tt
                     | _ => POk tt end = POk tt) as Echk.
  { intros rm. destruct host as [[|a b]| |]; try reflexivity. exfalso. apply Hne. reflexivity. }
  assert (Hh <> []) as HhNe by (unfold Hh; discriminate).
  destruct (port_split (hss_rest false HR)) as [PR|] eqn:Eps.
  - (* ':' ends the host *)
    destruct (hss_rest false HR) as [|c0 X0] eqn:EX0; [discriminate Eps|]. cbn [port_split] in Eps.
    destruct (c0 =? 58) eqn:E58; [|discriminate Eps]. inversion Eps; subst X0. apply N.eqb_eq in E58. subst c0.
    destruct (inp_next_some rem2 58 PR Hrem2) as (rem3 & En3 & Hrem3 & _).
    assert (usv_list rem3) as Hu3 by (exact (inp_next_usv rem2 58 rem3 Hu2 En3)).
    assert (inp_split_prefix_char 58 rem2 = Some rem3) as Esp by (unfold inp_split_prefix_char; rewrite En3; reflexivity).
    rewrite Esp.
    pose proof (port_loop_spec rem3 0 false Hu3 ltac:(lia)) as HPL. cbv zeta in HPL. rewrite Hrem3 in HPL.
    rewrite valfrom_decimal in HPL. cbn [orb] in HPL.
    unfold sauth_port_g. cbv zeta. cbn [app]. unfold parse_port.
    destruct (starts_aes (after_digits PR)) eqn:Esae; cbn [negb].
    + (* the port ends at the end of the authority *)
      destruct (65535 <? decimal_value (digits_of PR)) eqn:Eov.
      * (* beyond 65535 *)
        assert (is_nil (digits_of PR) = false) as End.
        { destruct (digits_of PR); [discriminate Eov | reflexivity]. }
        rewrite End.
        eapply mfail_bind2 with (P := True); [apply oob_u32; intros _; exact I|].
        rewrite Echk. cbn [pbind]. rewrite HPL. exists InvalidPort. reflexivity.
      * assert (exists rem4, parse_port_loop CUrlParser rem3 0 false
                     = POk (decimal_value (digits_of PR), negb (is_nil (digits_of PR)), rem4)
                     /\ ntnl rem4 = after_digits PR /\ usv_list rem4) as (rem4 & EPL & Hrem4 & Hu4).
        { destruct (after_digits PR) as [|c X1] eqn:EX.
          - exists []. split; [exact HPL | split; [reflexivity | constructor]].
          - cbn [starts_aes] in Esae. rewrite path_end_aes, Esae in HPL. exact HPL. }
        destruct (is_nil (digits_of PR)) eqn:End; try rewrite End in EPL; cbn [negb] in EPL.
        -- exists host, sh, None, rem4.
           split; [reflexivity|]. split; [reflexivity|]. split; [exact HhNe|].
           split; [intros p Hp; discriminate Hp|].
           split; [exact Hrem4|]. split; [exact Hu4|]. split; [first [exact Esae | reflexivity]|].
           split; [rewrite set_port_none; [reflexivity | exact Hpo]|].
           split; [cbn [port_suffix]; rewrite app_nil_r; unfold ends_with_byte in *; rewrite rev_app_distr;
                   destruct (rev (hd host)) as [|x y] eqn:Er; [exfalso; apply Hne2; rewrite <- (rev_involutive (hd host)), Er; reflexivity | exact Hsl]|].
           intros P HP. eapply oob_bind; [apply oob_u32; exact HP|]. rewrite Echk. cbn [pbind]. rewrite EPL. cbn [pbind].
           cbn [ctx_eqb andb negb orb pbind port_suffix]. rewrite app_nil_r. right. reflexivity.
        -- set (v := decimal_value (digits_of PR)) in *.
           exists host, sh, (if port_is_default sch v then None else Some v), rem4.
           split; [reflexivity|]. split; [reflexivity|]. split; [exact HhNe|].
           split; [intros p Hp; destruct (port_is_default sch v); [discriminate Hp | inversion Hp; subst; lia]|].
           split; [exact Hrem4|]. split; [exact Hu4|]. split; [first [exact Esae | reflexivity]|].
           split; [cbn [su_scheme set_host]; rewrite Hus; reflexivity|].
           split.
           { destruct (port_is_default sch v); cbn [port_suffix].
             - rewrite app_nil_r. unfold ends_with_byte in *. rewrite rev_app_distr.
               destruct (rev (hd host)) as [|x y] eqn:Er; [exfalso; apply Hne2; rewrite <- (rev_involutive (hd host)), Er; reflexivity | exact Hsl].
             - apply decimal_not_slash. }
           intros P HP. eapply oob_bind; [apply oob_u32; exact HP|]. rewrite Echk. cbn [pbind]. rewrite EPL. cbn [pbind].
           cbn [ctx_eqb andb negb orb]. rewrite port_default_eq.
           destruct (port_is_default sch v); cbn [pbind port_suffix]; [rewrite app_nil_r|]; right; reflexivity.
    + (* something else follows the digits: failure on both sides *)
      eapply mfail_bind2 with (P := True); [apply oob_u32; intros _; exact I|].
      rewrite Echk. cbn [pbind].
      destruct (65535 <? decimal_value (digits_of PR)) eqn:Eov; [rewrite HPL; exists InvalidPort; reflexivity|].
      destruct (after_digits PR) as [|c X1] eqn:EX; [discriminate Esae|]. cbn [starts_aes] in Esae.
      rewrite path_end_aes, Esae in HPL. rewrite HPL. exists InvalidPort. reflexivity.
  - (* the host ends at the end of the authority *)
    assert (starts_with_cp 58 (hss_rest false HR) = false) as E58.
    { destruct (hss_rest false HR) as [|c0 X0]; [reflexivity|]. cbn [port_split] in Eps. cbn [starts_with_cp].
      destruct (c0 =? 58); [discriminate Eps | reflexivity]. }
    assert (inp_split_prefix_char 58 rem2 = None) as Esp.
    { unfold inp_split_prefix_char. destruct (inp_next rem2) as [[d r]|] eqn:En; [|reflexivity].
      destruct (inp_next_ntnl rem2 d r En) as [E1 _]. rewrite Hrem2 in E1. rewrite E1 in E58. cbn [starts_with_cp] in E58.
      rewrite E58. reflexivity. }
    exists host, sh, None, rem2.
    split; [reflexivity|]. split; [reflexivity|]. split; [exact HhNe|]. split; [intros p Hp; discriminate Hp|].
    split; [exact Hrem2|]. split; [exact Hu2|].
    split.
    { destruct (hss_rest false HR) as [|c0 X0]; [reflexivity|]. cbn [port_split] in Eps. cbn [starts_aes].
      destruct (c0 =? 58) eqn:E58'; [discriminate Eps|]. destruct Hhead as [K|K]; [exact K | rewrite K in E58'; discriminate]. }
    split; [rewrite set_port_none; [reflexivity | exact Hpo]|].
    split; [cbn [port_suffix]; rewrite app_nil_r; unfold ends_with_byte in *; rewrite rev_app_distr;
            destruct (rev (hd host)) as [|x y] eqn:Er; [exfalso; apply Hne2; rewrite <- (rev_involutive (hd host)), Er; reflexivity | exact Hsl]|].
    intros P HP. eapply oob_bind; [apply oob_u32; exact HP|].
    rewrite Echk. cbn [pbind]. rewrite Esp.
    cbn [pbind port_suffix]. rewrite app_nil_r. right. reflexivity.
Qed.

End Stages.
