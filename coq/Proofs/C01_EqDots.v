(* Proofs/C01_EqDots.v - the dot-segment tests of the two sides agree on every byte string:
   parser.rs compares against the spellings "." "%2e" "%2E" / ".." ".%2e" "%2e." "%2e%2e" (either
   case of E), the Standard compares the ASCII-lowercased buffer with the lower-case spellings. *)
From RU Require Import Base.Prelude Model.HostT Model.UrlRecord Model.Parser Spec.Whatwg Proofs.C20_Dir Proofs.C20_Path.

Definition is_single_dot' (s : list N) : bool :=
  match s with
  | [a] => a =? 46
  | [a; b; c] => is_pct2e a b c
  | _ => false
  end.
Definition is_double_dot' (s : list N) : bool :=
  match s with
  | [a; b] => (a =? 46) && (b =? 46)
  | [a; b; c; d] => ((a =? 46) && is_pct2e b c d) || (is_pct2e a b c && (d =? 46))
  | [a; b; c; d; e; f] => is_pct2e a b c && is_pct2e d e f
  | _ => false
  end.

Lemma is_single_dot_eq s : is_single_dot s = is_single_dot' s.
Proof.
  destruct s as [|a [|b [|c [|d r]]]]; cbn [is_single_dot is_single_dot']; try reflexivity;
    m46 a; try reflexivity; symmetry; apply N.eqb_neq; assumption.
Qed.

Lemma pct2e_46 b c : is_pct2e 46 b c = false.
Proof. reflexivity. Qed.
Lemma pct2e_x46 a c : is_pct2e a 46 c = false.
Proof. unfold is_pct2e. replace (46 =? 50) with false by reflexivity. rewrite andb_false_r. reflexivity. Qed.

Lemma is_double_dot_eq s : is_double_dot s = is_double_dot' s.
Proof.
  destruct s as [|a [|b [|c [|d [|e [|f [|g r]]]]]]]; cbn [is_double_dot is_double_dot']; try reflexivity;
    dmatch; try reflexivity; unfold is_pct2e; lia.
Qed.

(* ---------- the Standard's tests in the same explicit form ---------- *)
Lemma lower_46 a : (to_lower a =? 46) = (a =? 46).
Proof. unfold to_lower, is_upper. destruct ((65 <=? a) && (a <=? 90)) eqn:E; lia. Qed.
Lemma lower_37 a : (to_lower a =? 37) = (a =? 37).
Proof. unfold to_lower, is_upper. destruct ((65 <=? a) && (a <=? 90)) eqn:E; lia. Qed.
Lemma lower_50 a : (to_lower a =? 50) = (a =? 50).
Proof. unfold to_lower, is_upper. destruct ((65 <=? a) && (a <=? 90)) eqn:E; lia. Qed.
Lemma lower_101 a : (to_lower a =? 101) = ((a =? 101) || (a =? 69)).
Proof. unfold to_lower, is_upper. destruct ((65 <=? a) && (a <=? 90)) eqn:E; lia. Qed.

Lemma list_eqb_sym' a b : list_eqb a b = list_eqb b a.
Proof.
  revert b. induction a as [|x a IH]; intros [|y b]; cbn [list_eqb]; try reflexivity.
  rewrite IH, N.eqb_sym. reflexivity.
Qed.

Ltac lower_norm :=
  cbn [map list_eqb app]; rewrite ?lower_46, ?lower_37, ?lower_50, ?lower_101; unfold is_pct2e.

Lemma is_single_dot_segment_eq s : is_single_dot_segment s = is_single_dot' s.
Proof.
  unfold is_single_dot_segment, ascii_lowercase, str_dot, str_pct2e.
  destruct s as [|a [|b [|c [|d r]]]]; lower_norm; cbn [is_single_dot']; unfold is_pct2e;
    try reflexivity; rewrite ?andb_false_r, ?orb_false_r; cbn [orb andb]; try reflexivity; lia.
Qed.

Lemma is_double_dot_segment_eq s : is_double_dot_segment s = is_double_dot' s.
Proof.
  unfold is_double_dot_segment, ascii_lowercase, str_dot, str_pct2e.
  destruct s as [|a [|b [|c [|d [|e [|f [|g r]]]]]]]; lower_norm; cbn [is_double_dot']; unfold is_pct2e;
    try reflexivity; rewrite ?andb_false_r, ?orb_false_r; cbn [orb andb]; try reflexivity; lia.
Qed.

Theorem single_dot_agree s : is_single_dot s = is_single_dot_segment s.
Proof. rewrite is_single_dot_eq, is_single_dot_segment_eq. reflexivity. Qed.
Theorem double_dot_agree s : is_double_dot s = is_double_dot_segment s.
Proof. rewrite is_double_dot_eq, is_double_dot_segment_eq. reflexivity. Qed.

Theorem dot_segments_agree s :
  is_single_dot s = is_single_dot_segment s /\ is_double_dot s = is_double_dot_segment s.
Proof. split; [apply single_dot_agree | apply double_dot_agree]. Qed.
