(* Proofs/Idna_WalkFun.v - a FUNCTIONAL description of the two output walks of Uts46::process (uts46.rs 802-913
   and 925-1026), valid in both error modes, for every label-display policy and both build configurations.

   Under the positional invariant that process_inner establishes (when the prefix of the input has not been
   flushed to the sink: domain_name = P ++ the input labels that the entries of already_punycode stand for,
   |P| = passthrough_up_to; relation `cover` of Proofs/Idna_Mark.v), and with one already_punycode entry per
   label of domain_buffer:
     - the text a walk writes is the per-label outputs joined by dots (`outs`, `out_label`):
         MixedCaseAscii m     -> m lower-cased (the label of domain_buffer is NOT looked at),
         MixedCasePunycode m  -> the label as Unicode if the policy says so, else m lower-cased,
         other                -> the label as Unicode if the policy says so, else "xn--" ++ Punycode(label);
     - the first walk returns Passthrough exactly when no label forces a write (`stays`), and then the input is
       its own output; with had_errors set it is then that the debug assertions 813 / 844 / 899 fire;
     - the only other panic a walk can reach is a failing Punycode encoder (site 445 and the encoder's own
       sites): the sites 805, 810, 830, 852, 885, 928, 933, 949, 992 are unreachable. *)
From RU Require Import Base.Prelude Base.Utf8 Base.U32_c13 Gen.Tables Model.Punycode Model.Uts46
  Proofs.Idna_Sim Proofs.Idna_Api Proofs.Idna_Known Proofs.Idna_Hyp Proofs.Idna_Redisc
  Proofs.Idna_C10_Deny Proofs.Idna_C10_Prefix Proofs.Idna_C10_Inner Proofs.Idna_C10_Walk
  Proofs.Idna_Mark Proofs.Idna_MarkWalk Proofs.Idna_MarkFffd.

(* ---- the text of a walk ---- *)
Definition wcat (w : wres) : list N := concat (fst w).
Lemma wcat_wcons x r : wcat (wcons x r) = x ++ wcat r.
Proof. reflexivity. Qed.
Lemma wcat_wapp xs r : wcat (wapp xs r) = concat xs ++ wcat r.
Proof. unfold wcat, wapp. cbn [fst]. apply concat_app. Qed.
Lemma snd_wcons x r : snd (wcons x r) = snd r.
Proof. reflexivity. Qed.
Lemma snd_wapp xs r : snd (wapp xs r) = snd r.
Proof. reflexivity. Qed.
Lemma wcat_flush d pte fl k :
  wcat (flush_prefix d pte fl k) = (if fl then [] else firstn (N.to_nat pte) d) ++ wcat k.
Proof. unfold flush_prefix. destruct fl; [reflexivity|apply wcat_wcons]. Qed.
Lemma snd_flush d pte fl k : snd (flush_prefix d pte fl k) = snd k.
Proof. unfold flush_prefix. destruct fl; reflexivity. Qed.

(* ---- lower-casing ---- *)
Lemma lower_noupper l : Forall (fun b => is_upper b = false) l -> map to_lower l = l.
Proof.
  induction 1 as [|x r Hx _ IH]; [reflexivity|]. cbn [map]. rewrite IH. unfold to_lower. rewrite Hx. reflexivity.
Qed.
Lemma position_upper_none m : position is_upper m = None -> existsb is_upper m = false.
Proof.
  intros H. apply position_none in H. induction H as [|x r Hx _ IH]; [reflexivity|]. cbn [existsb]. rewrite Hx, IH. reflexivity.
Qed.
Lemma position_upper_some m fu : position is_upper m = Some fu -> existsb is_upper m = true.
Proof.
  revert fu. induction m as [|x r IH]; intros fu H; [discriminate|]. cbn [position] in H. cbn [existsb].
  destruct (is_upper x); [reflexivity|]. destruct (position is_upper r) as [j|]; [|discriminate]. exact (IH j eq_refl).
Qed.
Lemma lower_split m fu : position is_upper m = Some fu ->
  map to_lower m = firstn fu m ++ map to_lower (skipn fu m).
Proof.
  intros H. rewrite <- (firstn_skipn fu m) at 1. rewrite map_app. f_equal.
  apply lower_noupper. exact (position_some _ _ _ H).
Qed.
Lemma len_firstn_lt (m : list N) fu : (fu < length m)%nat -> len (firstn fu m) < len m.
Proof. intros H. unfold len. rewrite firstn_length. lia. Qed.
Lemma nth_len_app (P : list N) x R : nth (N.to_nat (len P)) (P ++ x :: R) 256 = x.
Proof. unfold len. rewrite Nat2N.id. rewrite app_nth2 by lia. rewrite Nat.sub_diag. reflexivity. Qed.
Lemma classify_error_fffd label : classify_for_punycode label = PcError -> fffd label = true.
Proof.
  induction label as [|c r IH]; intros H; [discriminate|]. cbn [classify_for_punycode] in H.
  destruct (is_ascii_cp c).
  - unfold fffd in *. cbn [existsb]. rewrite (IH H). apply orb_true_r.
  - destruct (existsb is_fffd (c :: r)) eqn:E; [exact E|discriminate].
Qed.
Lemma classify_unicode_iff label : fffd label = false ->
  match classify_for_punycode label with PcUnicode => true | _ => false end = negb (is_ascii_l label).
Proof.
  induction label as [|c r IH]; intros H; [reflexivity|]. cbn [classify_for_punycode is_ascii_l forallb].
  destruct (is_ascii_cp c) eqn:E.
  - cbn [andb]. apply IH. unfold fffd in *. cbn [existsb] in H. apply orb_false_iff in H. exact (proj2 H).
  - cbn [andb negb]. unfold fffd in H. rewrite H. reflexivity.
Qed.

Section Fun.
Variable cfg : bool.
Variable d : list N.
Variable he : bool.

(* ---- the MixedCase output block ---- *)
Lemma mw_flushed m pc sn sp pte k :
  snd (mixed_write cfg d m he pc sn sp pte true k) = snd (k pte true) /\
  wcat (mixed_write cfg d m he pc sn sp pte true k) = map to_lower m ++ wcat (k pte true).
Proof.
  unfold mixed_write. destruct (position is_upper m) as [fu|] eqn:Ep.
  - split; [reflexivity|]. rewrite wcat_wcons, wcat_wapp, concat_chars, (lower_split m fu Ep), <- app_assoc. reflexivity.
  - split; [reflexivity|]. rewrite wcat_wcons. rewrite (lower_noupper m (position_none _ _ Ep)). reflexivity.
Qed.

Lemma mw_upper m pc sn sp pte k P R : d = P ++ m ++ R -> len P = pte -> existsb is_upper m = true ->
  exists pte', snd (mixed_write cfg d m he pc sn sp pte false k) = snd (k pte' true) /\
    wcat (mixed_write cfg d m he pc sn sp pte false k) = P ++ map to_lower m ++ wcat (k pte' true).
Proof.
  intros Hd HP Hu. unfold mixed_write. destruct (position is_upper m) as [fu|] eqn:Ep.
  2:{ rewrite (position_upper_none m Ep) in Hu. discriminate. }
  pose proof (len_firstn_lt m fu (position_lt _ _ _ Ep)) as Hlt.
  assert (Hne : (pte + len (firstn fu m) =? len d) = false).
  { apply N.eqb_neq. rewrite Hd, !len_app, HP. lia. }
  rewrite Hne, andb_false_r. exists (pte + len (firstn fu m)). split; [reflexivity|].
  rewrite wcat_wcons, wcat_wapp, concat_chars, (lower_split m fu Ep).
  assert (Hd2 : d = (P ++ firstn fu m) ++ (skipn fu m ++ R)).
  { rewrite Hd, <- app_assoc. f_equal. rewrite app_assoc, firstn_skipn. reflexivity. }
  replace (pte + len (firstn fu m)) with (len (P ++ firstn fu m)) by (rewrite len_app, HP; reflexivity).
  rewrite Hd2 at 1. rewrite firstn_len_app. rewrite <- !app_assoc. reflexivity.
Qed.

Lemma mw_noupper m pc sn sp pte k : existsb is_upper m = false ->
  mixed_write cfg d m he pc sn sp pte false k =
    (if pc && (pte + len m =? len d) then (if cfg && he then ([], WPanic sp) else ([], WPass)) else k (pte + len m) false)
  /\ map to_lower m = m.
Proof.
  intros Hu. unfold mixed_write. destruct (position is_upper m) as [fu|] eqn:Ep.
  { rewrite (position_upper_some m fu Ep) in Hu. discriminate. }
  split; [reflexivity|]. exact (lower_noupper m (position_none _ _ Ep)).
Qed.

(* ---- the per-label outputs ---- *)
Definition enc_label (label : list N) : list N + N :=
  match encode_internal cfg label with Ok o => inl (XN_PREFIX ++ o) | Err => inr 445 | Panic s => inr s end.

Section Outs.
Variable uni : list N -> bool.      (* is this label of domain_buffer written as Unicode? *)

Definition out_label (label : list N) (ip : aal) : list N + N :=
  match ip with
  | MixedCaseAscii m => inl (map to_lower m)
  | MixedCasePunycode m => if uni label then inl label else inl (map to_lower m)
  | AalOther => if uni label then inl label else enc_label label
  end.
Fixpoint outs (labels : list (list N)) (aps : list aal) : list (list N) + N :=
  match labels, aps with
  | label :: ls, ip :: ips =>
      match out_label label ip with
      | inl o => match outs ls ips with inl os => inl (o :: os) | inr s => inr s end
      | inr s => inr s
      end
  | _, _ => inl []
  end.
(* the label leaves the prefix of the input unflushed *)
Definition stay_label (label : list N) (ip : aal) : bool :=
  match ip with
  | MixedCaseAscii m => negb (existsb is_upper m)
  | MixedCasePunycode m => negb (uni label) && negb (existsb is_upper m)
  | AalOther => false
  end.
Fixpoint stays (labels : list (list N)) (aps : list aal) : bool :=
  match labels, aps with
  | label :: ls, ip :: ips => stay_label label ip && stays ls ips
  | _, _ => true
  end.

Lemma stays_outs labels : forall aps, stays labels aps = true -> exists os, outs labels aps = inl os.
Proof.
  induction labels as [|l r IH]; intros aps H; [exists []; reflexivity|].
  destruct aps as [|ip ips]; [exists []; reflexivity|]. cbn [stays] in H. apply andb_true_iff in H. destruct H as [H1 H2].
  destruct (IH ips H2) as (os & Ho). cbn [outs]. rewrite Ho.
  destruct ip as [m|m|]; cbn [stay_label out_label] in *; [eauto| |discriminate].
  apply andb_true_iff in H1. destruct H1 as [H1 _]. apply negb_true_iff in H1. rewrite H1. eauto.
Qed.
End Outs.

(* ---- the write of one encoded label ---- *)
Lemma wpl_spec label k :
  match enc_label label with
  | inl o => snd (write_punycode_label cfg label k) = snd k /\ wcat (write_punycode_label cfg label k) = o ++ wcat k
  | inr s => snd (write_punycode_label cfg label k) = WPanic s
  end.
Proof.
  unfold enc_label, write_punycode_label. destruct (encode_internal cfg label) as [o| |s]; [|reflexivity|reflexivity].
  split; [reflexivity|]. rewrite wcat_wcons, wcat_wapp, concat_chars, <- app_assoc. reflexivity.
Qed.
End Fun.

(* ================================================================== the first walk *)
Section Walk1.
Variable cfg : bool.
Variable d : list N.
Variable he : bool.
Variable ff : bool.
Variable p : list N -> list N -> bool -> bool.
Variable tld : list N.
Variable bidi : bool.

(* potentially_punycode, and the decision "written as Unicode" of the first walk *)
Definition pp1 (label : list N) : bool :=
  if ff then negb (is_ascii_l label)
  else match classify_for_punycode label with PcUnicode => true | _ => false end.
Definition uni1 (label : list N) : bool := if pp1 label then p label tld bidi else true.
Definition huo1 (huo : bool) (label : list N) (ip : aal) : bool :=
  match ip with MixedCaseAscii _ => huo | _ => if pp1 label then huo || p label tld bidi else huo end.
Fixpoint huo_fin (huo : bool) (labels : list (list N)) (aps : list aal) : bool :=
  match labels, aps with
  | label :: ls, ip :: ips => huo_fin (huo1 huo label ip) ls ips
  | _, _ => huo
  end.

Definition Res1 (flushed : bool) (P : list N) (stay : bool) (F : list N) (h : bool) (w : wres) : Prop :=
  if negb flushed && stay then
    P ++ F = d /\ (if cfg && he then exists s, snd w = WPanic s /\ (s = 813 \/ s = 844 \/ s = 899) else snd w = WPass)
  else snd w = WEnd h /\ wcat w = (if flushed then F else P ++ F).
Definition Post1 (flushed : bool) (P : list N) (stay : bool) (o : list (list N) + N) (seen : bool) (h : bool) (w : wres) : Prop :=
  match o with inl os => Res1 flushed P stay (tailtext seen os) h w | inr s => snd w = WPanic s end.

Lemma Res1_shift P X st F h w : Res1 false (P ++ X) st F h w -> Res1 false P st (X ++ F) h w.
Proof. unfold Res1. rewrite <- !app_assoc. auto. Qed.

Lemma wbody_eq label ip huo flushed kk pt :
  wbody cfg p d tld bidi ff he label ip huo flushed kk pt =
  match ip with
  | MixedCaseAscii m => mixed_write cfg d m he true 830 844 pt flushed (kk huo)
  | MixedCasePunycode m =>
      if ff && cfg && (match classify_for_punycode label with PcError => true | _ => false end) then ([], WPanic 852)
      else if uni1 label then flush_prefix d pt flushed (wapp (chars label) (kk (huo1 huo label ip) pt true))
      else mixed_write cfg d m he true 885 899 pt flushed (kk (huo1 huo label ip))
  | AalOther =>
      if ff && cfg && (match classify_for_punycode label with PcError => true | _ => false end) then ([], WPanic 852)
      else if uni1 label then flush_prefix d pt flushed (wapp (chars label) (kk (huo1 huo label ip) pt true))
      else flush_prefix d pt flushed (write_punycode_label cfg label (kk (huo1 huo label ip) pt true))
  end.
Proof.
  destruct ip as [m|m|]; [reflexivity| |]; unfold wbody, uni1, huo1; fold (pp1 label); cbv zeta;
    destruct (pp1 label); reflexivity.
Qed.

Lemma no852 label : (ff = true -> fffd label = false) ->
  ff && cfg && (match classify_for_punycode label with PcError => true | _ => false end) = false.
Proof.
  intros H. destruct ff; [|reflexivity]. destruct (classify_for_punycode label) eqn:E; try apply andb_false_r.
  rewrite (classify_error_fffd label E) in H. specialize (H eq_refl). discriminate.
Qed.

Definition KS (labels' : list (list N)) (aps' : list aal) (kk : bool -> N -> bool -> wres) : Prop :=
  (forall h pt, Post1 true [] (stays uni1 labels' aps') (outs cfg uni1 labels' aps') true (huo_fin h labels' aps') (kk h pt true)) /\
  (forall h pt P' rl', labels' <> [] -> d = P' ++ tailtext true rl' -> len P' = pt -> cover aps' rl' ->
     Post1 false P' (stays uni1 labels' aps') (outs cfg uni1 labels' aps') true (huo_fin h labels' aps') (kk h pt false)).

Lemma mixed_spec labels' aps' kk m sn sp h flushed pt P1 rl' :
  length labels' = length aps' -> KS labels' aps' kk -> (sp = 844 \/ sp = 899) ->
  (flushed = false -> d = P1 ++ m ++ tailtext true rl' /\ len P1 = pt /\ cover aps' rl') ->
  match outs cfg uni1 labels' aps' with
  | inl os' => Res1 flushed P1 (negb (existsb is_upper m) && stays uni1 labels' aps') (map to_lower m ++ tailtext true os')
                 (huo_fin h labels' aps') (mixed_write cfg d m he true sn sp pt flushed (kk h))
  | inr s => snd (mixed_write cfg d m he true sn sp pt flushed (kk h)) = WPanic s
  end.
Proof.
  intros Hlen HK Hsp Hpos. destruct HK as [K1 K2]. destruct flushed.
  - destruct (mw_flushed cfg d he m true sn sp pt (kk h)) as [E1 E2]. specialize (K1 h pt). unfold Post1 in K1.
    destruct (outs cfg uni1 labels' aps') as [os'|s]; [|rewrite E1; exact K1].
    unfold Res1 in *. cbn [negb andb] in *. destruct K1 as [K1a K1b]. rewrite E1, E2, K1a, K1b. split; reflexivity.
  - destruct (Hpos eq_refl) as (Hd & HP & Hcv). destruct (existsb is_upper m) eqn:Eu.
    + destruct (mw_upper cfg d he m true sn sp pt (kk h) P1 (tailtext true rl') Hd HP Eu) as (pt' & E1 & E2).
      specialize (K1 h pt'). unfold Post1 in K1.
      destruct (outs cfg uni1 labels' aps') as [os'|s]; [|rewrite E1; exact K1].
      unfold Res1 in *. cbn [negb andb] in *. destruct K1 as [K1a K1b]. rewrite E1, E2, K1a, K1b. split; reflexivity.
    + destruct (mw_noupper cfg d he m true sn sp pt (kk h) Eu) as [E1 E2]. rewrite E1, E2. cbn [negb andb].
      destruct (pt + len m =? len d) eqn:E.
      * apply N.eqb_eq in E.
        assert (Ht : tailtext true rl' = []).
        { apply len_zero. rewrite Hd in E. rewrite !len_app in E. lia. }
        destruct rl' as [|x r]; [|discriminate]. apply cover_nil_r in Hcv. subst aps'.
        destruct labels' as [|? ?]; [|discriminate]. cbn [outs stays tailtext huo_fin].
        unfold Res1. cbn [negb andb]. split; [rewrite Hd; reflexivity|].
        destruct (cfg && he); [|reflexivity]. exists sp. split; [reflexivity|]. destruct Hsp as [-> | ->]; auto.
      * assert (Hne : labels' <> []).
        { intros ->. destruct aps' as [|? ?]; [|discriminate].
          assert (Hr : rl' = []) by (inversion Hcv; reflexivity). rewrite Hr in Hd. cbn [tailtext] in Hd.
          apply N.eqb_neq in E. apply E. rewrite Hd. rewrite !len_app, HP. change (len (@nil N)) with 0. lia. }
        specialize (K2 h (pt + len m) (P1 ++ m) rl' Hne). rewrite <- app_assoc in K2. specialize (K2 Hd).
        rewrite len_app, HP in K2. specialize (K2 eq_refl Hcv). unfold Post1 in K2.
        destruct (outs cfg uni1 labels' aps') as [os'|s]; [|exact K2]. apply Res1_shift. exact K2.
Qed.

Lemma wbody_spec labels' aps' kk label ip huo flushed pt P1 l rl' :
  length labels' = length aps' -> KS labels' aps' kk ->
  (ff = true -> fffd label = false) ->
  (flushed = false -> d = P1 ++ join_dots (l :: rl') /\ len P1 = pt /\ cover (ip :: aps') (l :: rl')) ->
  match out_label cfg uni1 label ip with
  | inl o =>
      match outs cfg uni1 labels' aps' with
      | inl os' => Res1 flushed P1 (stay_label uni1 label ip && stays uni1 labels' aps') (o ++ tailtext true os')
                     (huo_fin (huo1 huo label ip) labels' aps') (wbody cfg p d tld bidi ff he label ip huo flushed kk pt)
      | inr s => snd (wbody cfg p d tld bidi ff he label ip huo flushed kk pt) = WPanic s
      end
  | inr s => snd (wbody cfg p d tld bidi ff he label ip huo flushed kk pt) = WPanic s
  end.
Proof.
  intros Hlen HK Hff Hpos. rewrite wbody_eq.
  assert (HF : flushed = false -> firstn (N.to_nat pt) d = P1).
  { intros Hf. destruct (Hpos Hf) as (Hd & HP & _). rewrite <- HP. rewrite Hd at 1. apply firstn_len_app. }
  assert (HU : forall h, match outs cfg uni1 labels' aps' with
             | inl os' => Res1 flushed P1 false (label ++ tailtext true os') (huo_fin h labels' aps')
                            (flush_prefix d pt flushed (wapp (chars label) (kk h pt true)))
             | inr s => snd (flush_prefix d pt flushed (wapp (chars label) (kk h pt true))) = WPanic s end).
  { intros h. destruct HK as [K1 _]. specialize (K1 h pt). unfold Post1 in K1.
    destruct (outs cfg uni1 labels' aps') as [os'|s]; [|rewrite snd_flush, snd_wapp; exact K1].
    unfold Res1 in *. cbn [negb andb] in K1. rewrite andb_false_r. destruct K1 as [K1a K1b].
    rewrite snd_flush, snd_wapp, wcat_flush, wcat_wapp, concat_chars, K1a, K1b. split; [reflexivity|].
    destruct flushed; [reflexivity|]. rewrite (HF eq_refl). reflexivity. }
  destruct ip as [m|m|]; cbn [out_label stay_label].
  - apply (mixed_spec labels' aps' kk m 830 844 huo flushed pt P1 rl'); [exact Hlen|exact HK|left; reflexivity|]. intros Hf. destruct (Hpos Hf) as (Hd & HP & Hcv).
    inversion Hcv; subst. rewrite join_dots_cons in Hd. repeat split; assumption.
  - rewrite (no852 label Hff). destruct (uni1 label) eqn:Eu; cbn [negb andb]; [apply HU|].
    apply (mixed_spec labels' aps' kk m 885 899 (huo1 huo label (MixedCasePunycode m)) flushed pt P1 rl'); [exact Hlen|exact HK|right; reflexivity|]. intros Hf. destruct (Hpos Hf) as (Hd & HP & Hcv).
    inversion Hcv; subst. rewrite join_dots_cons in Hd. repeat split; assumption.
  - rewrite (no852 label Hff). destruct (uni1 label) eqn:Eu; cbn [negb andb]; [apply HU|].
    pose proof (wpl_spec cfg label (kk (huo1 huo label AalOther) pt true)) as HW.
    destruct (enc_label cfg label) as [o|s]; [|rewrite snd_flush; exact HW]. destruct HW as [W1 W2].
    destruct HK as [K1 _]. specialize (K1 (huo1 huo label AalOther) pt). unfold Post1 in K1.
    destruct (outs cfg uni1 labels' aps') as [os'|s]; [|rewrite snd_flush, W1; exact K1].
    unfold Res1 in *. cbn [negb andb] in K1. rewrite andb_false_r. destruct K1 as [K1a K1b].
    rewrite snd_flush, wcat_flush, W1, W2, K1a, K1b. split; [reflexivity|].
    destruct flushed; [reflexivity|]. rewrite (HF eq_refl). reflexivity.
Qed.

Lemma cover_cons_inv ip aps rl : cover (ip :: aps) rl -> exists l rl', rl = l :: rl'.
Proof. intros H. inversion H; eauto. Qed.

Theorem walk1_spec labels : forall aps seen pte flushed huo P rl,
  length labels = length aps ->
  (ff = true -> efffd labels = false) ->
  (flushed = false -> labels <> [] /\ d = P ++ tailtext seen rl /\ len P = pte /\ cover aps rl) ->
  Post1 flushed P (stays uni1 labels aps) (outs cfg uni1 labels aps) seen (huo_fin huo labels aps)
        (walk1 cfg ff p d tld bidi he labels aps seen pte flushed huo).
Proof.
  induction labels as [|label labels IH]; intros aps seen pte flushed huo P rl Hlen Hff Hpos.
  - destruct aps as [|? ?]; [|discriminate]. destruct flushed; [|destruct (Hpos eq_refl) as [Hx _]; congruence].
    cbn [outs stays huo_fin walk1 Post1]. unfold Res1. cbn [negb andb snd]. split; [reflexivity|]. destruct seen; reflexivity.
  - destruct aps as [|ip aps]; [discriminate|]. cbn [length] in Hlen. assert (Hlen' : length labels = length aps) by lia.
    assert (Hfl : ff = true -> fffd label = false).
    { intros Hf. specialize (Hff Hf). cbn [efffd existsb] in Hff. apply orb_false_iff in Hff. exact (proj1 Hff). }
    assert (Hff' : ff = true -> efffd labels = false).
    { intros Hf. specialize (Hff Hf). cbn [efffd existsb] in Hff. apply orb_false_iff in Hff. exact (proj2 Hff). }
    rewrite walk1_cons_gen. cbv zeta.
    set (kk := fun huo0 pte0 fl0 => walk1 cfg ff p d tld bidi he labels aps true pte0 fl0 huo0).
    assert (HKS : KS labels aps kk).
    { split.
      - intros h pt. apply (IH aps true pt true h [] []); [exact Hlen'|exact Hff'|discriminate].
      - intros h pt P' rl' Hne Hd' HP' Hcv'. apply (IH aps true pt false h P' rl'); [exact Hlen'|exact Hff'|].
        intros _. repeat split; assumption. }
    pose proof (fun fl pt P1 l rl' => wbody_spec labels aps kk label ip huo fl pt P1 l rl' Hlen' HKS Hfl) as HB.
    cbn [outs stays huo_fin].
    destruct flushed.
    + specialize (HB true pte [] [] [] ltac:(discriminate)).
      destruct (out_label cfg uni1 label ip) as [o|s]; [|cbn [Post1]; destruct seen; [rewrite snd_wcons|]; exact HB].
      destruct (outs cfg uni1 labels aps) as [os'|s]; [|cbn [Post1]; destruct seen; [rewrite snd_wcons|]; exact HB].
      cbn [Post1]. unfold Res1 in *. cbn [negb andb] in *. destruct HB as [HB1 HB2].
      destruct seen.
      * rewrite snd_wcons, wcat_wcons, HB1, HB2. cbn [tailtext]. rewrite join_dots_cons. split; reflexivity.
      * rewrite HB1, HB2. cbn [tailtext]. rewrite join_dots_cons. split; reflexivity.
    + destruct (Hpos eq_refl) as (_ & Hd & HP & Hcv). destruct (cover_cons_inv _ _ _ Hcv) as (l & rl' & ->).
      destruct seen.
      * cbn [tailtext] in Hd.
        assert (Hdot : nth (N.to_nat pte) d 256 = DOT) by (rewrite Hd, <- HP; apply nth_len_app).
        rewrite Hdot, N.eqb_refl. cbn [negb]. rewrite andb_false_r.
        destruct (pte + 1 =? len d) eqn:E.
        -- apply N.eqb_eq in E.
           assert (Hj : join_dots (l :: rl') = []).
           { apply len_zero. rewrite Hd in E. rewrite len_app, len_cons1 in E. lia. }
           apply join_dots_nil in Hj. destruct Hj as [-> ->].
           inversion Hcv as [|? ? ? Hc'|? ? ? Hn Hc'|? ? ? ? Hn Hc']; subst; try congruence.
           apply cover_nil_r in Hc'. subst aps. destruct labels as [|? ?]; [|discriminate].
           cbn [out_label outs stay_label stays map existsb negb andb Post1 tailtext join_dots].
           unfold Res1. cbn [negb andb]. split; [rewrite Hd; reflexivity|].
           destruct (cfg && he); [|reflexivity]. exists 813. split; [reflexivity|auto].
        -- specialize (HB false (pte + 1) (P ++ [DOT]) l rl').
           assert (Hpre : false = false -> d = (P ++ [DOT]) ++ join_dots (l :: rl') /\ len (P ++ [DOT]) = pte + 1 /\ cover (ip :: aps) (l :: rl')).
           { intros _. split; [rewrite <- app_assoc; exact Hd|]. split; [rewrite len_app, HP; reflexivity|exact Hcv]. }
           specialize (HB Hpre).
           destruct (out_label cfg uni1 label ip) as [o|s]; [|exact HB].
           destruct (outs cfg uni1 labels aps) as [os'|s]; [|exact HB].
           cbn [Post1 tailtext]. rewrite join_dots_cons. apply Res1_shift in HB. exact HB.
      * cbn [tailtext] in Hd. specialize (HB false pte P l rl' ltac:(intros _; repeat split; assumption)).
        destruct (out_label cfg uni1 label ip) as [o|s]; [|exact HB].
        destruct (outs cfg uni1 labels aps) as [os'|s]; [|exact HB].
        cbn [Post1 tailtext]. rewrite join_dots_cons. exact HB.
Qed.
End Walk1.

(* ================================================================== the second walk *)
Section Walk2.
Variable cfg : bool.
Variable d : list N.
Variable he : bool.

Definition w2body (label : list N) (ip : aal) (flushed : bool) (k : N -> bool -> wres) (pte : N) : wres :=
  match ip with
  | MixedCaseAscii m => mixed_write cfg d m he false 949 0 pte flushed k
  | MixedCasePunycode m =>
      if is_ascii_l label then flush_prefix d pte flushed (wapp (chars label) (k pte true))
      else mixed_write cfg d m he false 992 0 pte flushed k
  | AalOther =>
      if is_ascii_l label then flush_prefix d pte flushed (wapp (chars label) (k pte true))
      else flush_prefix d pte flushed (write_punycode_label cfg label (k pte true))
  end.

Lemma walk2_cons label labels ip aps seen pte flushed :
  walk2 cfg d he (label :: labels) (ip :: aps) seen pte flushed =
  let k := fun pte flushed => walk2 cfg d he labels aps true pte flushed in
  if seen then
    if flushed then wcons [DOT] (w2body label ip flushed k pte)
    else if cfg && negb (nth (N.to_nat pte) d 256 =? DOT) then ([], WPanic 933)
    else w2body label ip flushed k (pte + 1)
  else w2body label ip flushed k pte.
Proof. destruct ip; reflexivity. Qed.

Definition Res2 (flushed : bool) (P : list N) (F : list N) (w : wres) : Prop :=
  snd w = WEnd false /\ wcat w = (if flushed then F else P ++ F).
Definition Post2 (flushed : bool) (P : list N) (o : list (list N) + N) (seen : bool) (w : wres) : Prop :=
  match o with inl os => Res2 flushed P (tailtext seen os) w | inr s => snd w = WPanic s end.
Lemma Res2_shift P X F w : Res2 false (P ++ X) F w -> Res2 false P (X ++ F) w.
Proof. unfold Res2. rewrite <- !app_assoc. auto. Qed.

Definition KS2 (labels' : list (list N)) (aps' : list aal) (k : N -> bool -> wres) : Prop :=
  (forall pt, Post2 true [] (outs cfg is_ascii_l labels' aps') true (k pt true)) /\
  (forall pt P' rl', d = P' ++ tailtext true rl' -> len P' = pt -> cover aps' rl' ->
     Post2 false P' (outs cfg is_ascii_l labels' aps') true (k pt false)).

Lemma mixed_spec2 labels' aps' k m sn flushed pt P1 rl' : KS2 labels' aps' k ->
  (flushed = false -> d = P1 ++ m ++ tailtext true rl' /\ len P1 = pt /\ cover aps' rl') ->
  match outs cfg is_ascii_l labels' aps' with
  | inl os' => Res2 flushed P1 (map to_lower m ++ tailtext true os') (mixed_write cfg d m he false sn 0 pt flushed k)
  | inr s => snd (mixed_write cfg d m he false sn 0 pt flushed k) = WPanic s
  end.
Proof.
  intros [K1 K2] Hpos. destruct flushed.
  - destruct (mw_flushed cfg d he m false sn 0 pt k) as [E1 E2]. specialize (K1 pt). unfold Post2 in K1.
    destruct (outs cfg is_ascii_l labels' aps') as [os'|s]; [|rewrite E1; exact K1].
    unfold Res2 in *. destruct K1 as [K1a K1b]. rewrite E1, E2, K1a, K1b. split; reflexivity.
  - destruct (Hpos eq_refl) as (Hd & HP & Hcv). destruct (existsb is_upper m) eqn:Eu.
    + destruct (mw_upper cfg d he m false sn 0 pt k P1 (tailtext true rl') Hd HP Eu) as (pt' & E1 & E2).
      specialize (K1 pt'). unfold Post2 in K1.
      destruct (outs cfg is_ascii_l labels' aps') as [os'|s]; [|rewrite E1; exact K1].
      unfold Res2 in *. destruct K1 as [K1a K1b]. rewrite E1, E2, K1a, K1b. split; reflexivity.
    + destruct (mw_noupper cfg d he m false sn 0 pt k Eu) as [E1 E2]. rewrite E1, E2. cbn [andb].
      specialize (K2 (pt + len m) (P1 ++ m) rl'). rewrite <- app_assoc in K2. specialize (K2 Hd).
      rewrite len_app, HP in K2. specialize (K2 eq_refl Hcv). unfold Post2 in K2.
      destruct (outs cfg is_ascii_l labels' aps') as [os'|s]; [|exact K2]. apply Res2_shift. exact K2.
Qed.

Lemma w2body_spec labels' aps' k label ip flushed pt P1 l rl' : KS2 labels' aps' k ->
  (flushed = false -> d = P1 ++ join_dots (l :: rl') /\ len P1 = pt /\ cover (ip :: aps') (l :: rl')) ->
  match out_label cfg is_ascii_l label ip with
  | inl o =>
      match outs cfg is_ascii_l labels' aps' with
      | inl os' => Res2 flushed P1 (o ++ tailtext true os') (w2body label ip flushed k pt)
      | inr s => snd (w2body label ip flushed k pt) = WPanic s
      end
  | inr s => snd (w2body label ip flushed k pt) = WPanic s
  end.
Proof.
  intros HK Hpos.
  assert (HF : flushed = false -> firstn (N.to_nat pt) d = P1).
  { intros Hf. destruct (Hpos Hf) as (Hd & HP & _). rewrite <- HP. rewrite Hd at 1. apply firstn_len_app. }
  assert (HU : match outs cfg is_ascii_l labels' aps' with
             | inl os' => Res2 flushed P1 (label ++ tailtext true os') (flush_prefix d pt flushed (wapp (chars label) (k pt true)))
             | inr s => snd (flush_prefix d pt flushed (wapp (chars label) (k pt true))) = WPanic s end).
  { destruct HK as [K1 _]. specialize (K1 pt). unfold Post2 in K1.
    destruct (outs cfg is_ascii_l labels' aps') as [os'|s]; [|rewrite snd_flush, snd_wapp; exact K1].
    unfold Res2 in *. destruct K1 as [K1a K1b].
    rewrite snd_flush, snd_wapp, wcat_flush, wcat_wapp, concat_chars, K1a, K1b. split; [reflexivity|].
    destruct flushed; [reflexivity|]. rewrite (HF eq_refl). reflexivity. }
  destruct ip as [m|m|]; cbn [out_label w2body].
  - apply (mixed_spec2 labels' aps' k m 949 flushed pt P1 rl' HK). intros Hf. destruct (Hpos Hf) as (Hd & HP & Hcv).
    inversion Hcv; subst. rewrite join_dots_cons in Hd. repeat split; assumption.
  - destruct (is_ascii_l label) eqn:Eu; [apply HU|].
    apply (mixed_spec2 labels' aps' k m 992 flushed pt P1 rl' HK). intros Hf. destruct (Hpos Hf) as (Hd & HP & Hcv).
    inversion Hcv; subst. rewrite join_dots_cons in Hd. repeat split; assumption.
  - destruct (is_ascii_l label) eqn:Eu; [apply HU|].
    pose proof (wpl_spec cfg label (k pt true)) as HW.
    destruct (enc_label cfg label) as [o|s]; [|rewrite snd_flush; exact HW]. destruct HW as [W1 W2].
    destruct HK as [K1 _]. specialize (K1 pt). unfold Post2 in K1.
    destruct (outs cfg is_ascii_l labels' aps') as [os'|s]; [|rewrite snd_flush, W1; exact K1].
    unfold Res2 in *. destruct K1 as [K1a K1b].
    rewrite snd_flush, wcat_flush, W1, W2, K1a, K1b. split; [reflexivity|].
    destruct flushed; [reflexivity|]. rewrite (HF eq_refl). reflexivity.
Qed.

Theorem walk2_spec labels : forall aps seen pte flushed P rl,
  length labels = length aps ->
  (flushed = false -> d = P ++ tailtext seen rl /\ len P = pte /\ cover aps rl) ->
  Post2 flushed P (outs cfg is_ascii_l labels aps) seen (walk2 cfg d he labels aps seen pte flushed).
Proof.
  induction labels as [|label labels IH]; intros aps seen pte flushed P rl Hlen Hpos.
  - destruct aps as [|? ?]; [|discriminate]. cbn [outs walk2 Post2]. unfold Res2. rewrite snd_flush, wcat_flush.
    split; [reflexivity|]. destruct flushed; [destruct seen; reflexivity|].
    destruct (Hpos eq_refl) as (Hd & HP & Hcv). assert (Hr : rl = []) by (inversion Hcv; reflexivity). rewrite Hr in Hd.
    assert (Hd' : d = P ++ []) by (destruct seen; exact Hd).
    rewrite <- HP. rewrite Hd' at 1. rewrite firstn_len_app. destruct seen; reflexivity.
  - destruct aps as [|ip aps]; [discriminate|]. cbn [length] in Hlen. assert (Hlen' : length labels = length aps) by lia.
    rewrite walk2_cons. cbv zeta.
    set (k := fun pte0 fl0 => walk2 cfg d he labels aps true pte0 fl0).
    assert (HKS : KS2 labels aps k).
    { split.
      - intros pt. apply (IH aps true pt true [] []); [exact Hlen'|discriminate].
      - intros pt P' rl' Hd' HP' Hcv'. apply (IH aps true pt false P' rl'); [exact Hlen'|].
        intros _. repeat split; assumption. }
    pose proof (fun fl pt P1 l rl' => w2body_spec labels aps k label ip fl pt P1 l rl' HKS) as HB.
    cbn [outs].
    destruct flushed.
    + specialize (HB true pte [] [] [] ltac:(discriminate)).
      destruct (out_label cfg is_ascii_l label ip) as [o|s]; [|cbn [Post2]; destruct seen; [rewrite snd_wcons|]; exact HB].
      destruct (outs cfg is_ascii_l labels aps) as [os'|s]; [|cbn [Post2]; destruct seen; [rewrite snd_wcons|]; exact HB].
      cbn [Post2]. unfold Res2 in *. destruct HB as [HB1 HB2].
      destruct seen.
      * rewrite snd_wcons, wcat_wcons, HB1, HB2. cbn [tailtext]. rewrite join_dots_cons. split; reflexivity.
      * rewrite HB1, HB2. cbn [tailtext]. rewrite join_dots_cons. split; reflexivity.
    + destruct (Hpos eq_refl) as (Hd & HP & Hcv). destruct (cover_cons_inv _ _ _ Hcv) as (l & rl' & ->).
      destruct seen.
      * cbn [tailtext] in Hd.
        assert (Hdot : nth (N.to_nat pte) d 256 = DOT) by (rewrite Hd, <- HP; apply nth_len_app).
        rewrite Hdot, N.eqb_refl. cbn [negb]. rewrite andb_false_r.
        specialize (HB false (pte + 1) (P ++ [DOT]) l rl').
        assert (Hpre : false = false -> d = (P ++ [DOT]) ++ join_dots (l :: rl') /\ len (P ++ [DOT]) = pte + 1 /\ cover (ip :: aps) (l :: rl')).
        { intros _. split; [rewrite <- app_assoc; exact Hd|]. split; [rewrite len_app, HP; reflexivity|exact Hcv]. }
        specialize (HB Hpre).
        destruct (out_label cfg is_ascii_l label ip) as [o|s]; [|exact HB].
        destruct (outs cfg is_ascii_l labels aps) as [os'|s]; [|exact HB].
        cbn [Post2 tailtext]. rewrite join_dots_cons. apply Res2_shift in HB. exact HB.
      * cbn [tailtext] in Hd. specialize (HB false pte P l rl' ltac:(intros _; repeat split; assumption)).
        destruct (out_label cfg is_ascii_l label ip) as [o|s]; [|exact HB].
        destruct (outs cfg is_ascii_l labels aps) as [os'|s]; [|exact HB].
        cbn [Post2 tailtext]. rewrite join_dots_cons. exact HB.
Qed.
End Walk2.
