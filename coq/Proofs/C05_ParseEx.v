(* Proofs/C05_ParseEx.v - C05_components_parse: the first statement (HostOK only) is false of the model for a
   host Display that no url::Host has; a concrete instance of the hypotheses of parse_url_cinv. *)
From Coq Require Import String.
From RU Require Import Base.Prelude Model.HostT Model.UrlRecord Model.Parser Model.WF
  Proofs.ListN Proofs.C06_Suffix Proofs.C02_Reach Proofs.C02_AuthMain Proofs.C04_ParseTotal
  Proofs.C03_ReachParts Proofs.C03_ReachHost
  Proofs.C05_Enc Proofs.C05_Parser Proofs.C05_Comp Proofs.C05_CompSteps Proofs.C05_ParseAll.
Open Scope N_scope.
Open Scope list_scope.

(* a Display that prints ":" for a domain satisfies HostOK (every byte inside 0x21..0x7E) ... *)
Lemma bad_host_ok : HostOK bad_hp bad_hp bad_hd.
Proof.
  intros h [->|[[s Hs]|[s Hs]]]; [constructor| |]; unfold bad_hp in Hs; inversion Hs; subst;
    repeat constructor; unfold ok_byte; lia.
Qed.

(* ... and the record parse_url returns for "a://x" with it is not well-formed *)
Lemma parse_statement_witness :
  exists u, parse_url true bad_hp bad_hp bad_hd None None (B "a://x") = POk u /\ ~ CInv true u.
Proof.
  destruct no_host_hypothesis_witness as (u & Hp & _ & Hw). exists u. split; [exact Hp|].
  intros [[W _] _]. rewrite W in Hw. discriminate.
Qed.

(* an instance: "http://u s:p@h.x/a/b?q" is a base with CInv and base_ok; joining "../c d?r" gives
   "http://u%20s:p@h.x/c%20d?r", again with CInv and base_ok *)
Lemma parse_cinv_example :
  exists b u, parse_url true ex_hp ex_hp ex_hd None None (B "http://u s:p@h.x/a/b?q") = POk b
    /\ CInv true b /\ base_ok b = true
    /\ parse_url true ex_hp ex_hp ex_hd None (Some b) (B "../c d?r") = POk u
    /\ CInv true u /\ base_ok u = true /\ ser u = B "http://u%20s:p@h.x/c%20d?r".
Proof.
  destruct (parse_url true ex_hp ex_hp ex_hd None None (B "http://u s:p@h.x/a/b?q")) as [b| |] eqn:Eb;
    [|vm_compute in Eb; discriminate ..].
  destruct (parse_url true ex_hp ex_hp ex_hd None (Some b) (B "../c d?r")) as [u| |] eqn:Eu;
    [|vm_compute in Eb; inversion Eb; subst b; vm_compute in Eu; discriminate ..].
  exists b, u.
  assert (CInv true b) as Kb by exact (parse_url_cinv true true ex_hp ex_hp ex_hd None None _ b ex_host_wf I Eb).
  assert (base_ok b = true) as Bb by (vm_compute in Eb; inversion Eb; subst b; vm_compute; reflexivity).
  split; [reflexivity|]. split; [exact Kb|]. split; [exact Bb|]. split; [exact Eu|].
  split; [exact (parse_url_cinv true true ex_hp ex_hp ex_hd None (Some b) _ u ex_host_wf (conj Kb Bb) Eu)|].
  vm_compute in Eb. inversion Eb; subst b. vm_compute in Eu. inversion Eu; subst u. split; vm_compute; reflexivity.
Qed.
