(* Proofs/C05_ParseEx.v - C05_components_parse: the first statement (HostOK only) is false of the model for a
   host Display that no url::Host has; a concrete instance of the hypotheses of parse_url_cinv. *)
From Coq Require Import String.
From RU Require Import Base.Prelude Model.HostT Model.UrlRecord Model.Parser Model.WF
  Proofs.ListN Proofs.C06_Suffix Proofs.C02_Reach Proofs.C02_AuthMain Proofs.C04_ParseTotal
  Proofs.C03_ReachParts Proofs.C03_ReachHost
  Proofs.C05_Enc Proofs.C05_Parser Proofs.C05_Comp Proofs.C05_CompSteps Proofs.C05_ParseAll.
Open Scope N_scope.
Open Scope list_scope.

(* a Display that prints ":" for a domain satisfies HostOK (every byte inside 0x21..0x7E) ... *)
Lemma bad_host_ok : HostOK bad_hp bad_hp bad_hd.
Proof.
  intros h [->|[[s Hs]|[s Hs]]]; [constructor| |]; unfold bad_hp in Hs; inversion Hs; subst;
    repeat constructor; unfold ok_byte; lia.
Qed.

(* ... and the record parse_url returns for "a://x" with it is not well-formed *)
Lemma parse_statement_witness :
  exists u, parse_url true bad_hp bad_hp bad_hd None None (B "a://x") = POk u /\ ~ CInv true u.
Proof.
  destruct no_host_hypothesis_witness as (u & Hp & _ & Hw). exists u. split; [exact Hp|].
  intros [[W _] _]. rewrite W in Hw. discriminate.
Qed.

(* an instance: "http://u s:p@h.x/a/b?q" is a base with CInv and base_ok; joining "../c d?r" gives
   "http://u%20s:p@h.x/c%20d?r", again with CInv and base_ok *)
Definition parse_cinv_example_stmt : Prop :=
  exists b u, parse_url true ex_hp ex_hp ex_hd None None (B "http://u s:p@h.x/a/b?q") = POk b
    /\ CInv true b /\ base_ok b = true
    /\ parse_url true ex_hp ex_hp ex_hd None (Some b) (B "../c d?r") = POk u
    /\ CInv true u /\ base_ok u = true /\ ser u = B "http://u%20s:p@h.x/c%20d?r".

Lemma parse_cinv_example : parse_cinv_example_stmt.
Proof.
  unfold parse_cinv_example_stmt.
  destruct (parse_url true ex_hp ex_hp ex_hd None None (B "http://u s:p@h.x/a/b?q")) as [b| |] eqn:Eb;
    [|vm_compute in Eb; discriminate ..].
  destruct (parse_url true ex_hp ex_hp ex_hd None (Some b) (B "../c d?r")) as [u| |] eqn:Eu;
    [|vm_compute in Eb; inversion Eb; subst b; vm_compute in Eu; discriminate ..].
  exists b, u.
  assert (CInv true b) as Kb by exact (parse_url_cinv true true ex_hp ex_hp ex_hd None None _ b ex_host_wf I Eb).
  assert (base_ok b = true) as Bb by (vm_compute in Eb; inversion Eb; subst b; vm_compute; reflexivity).
  split; [reflexivity|]. split; [exact Kb|]. split; [exact Bb|]. split; [exact Eu|].
  split; [exact (parse_url_cinv true true ex_hp ex_hp ex_hd None (Some b) _ u ex_host_wf (conj Kb Bb) Eu)|].
  vm_compute in Eb. inversion Eb; subst b. vm_compute in Eu. inversion Eu; subst u. split; vm_compute; reflexivity.
Qed.

(* ---------- the gated reachability of Proofs/C05_CompReach.v is inhabited, new steps included ---------- *)
From RU Require Import Model.Setters Proofs.C05_History Proofs.C05_CompHist Proofs.C06_Path Proofs.C06_Segments
  Proofs.C05_CompSteps2 Proofs.C05_CompReach.

(* parse "http://h.x/a/b?q"; path_segments_mut: pop, push "c d"; quirks set_pathname "/x y<z";
   set_hostname "o.x"; set_port "81"; join "../w v#f`"  *)
Definition creach_example_stmt : Prop :=
  HostWf ex_hp ex_hp ex_hd
  /\ exists u, CReach true ex_hp ex_hp ex_hd u /\ ser u = B "http://o.x:81/w%20v#f%60".

Lemma creach_example : creach_example_stmt.
Proof.
  split; [exact ex_host_wf|].
  destruct (parse_url true ex_hp ex_hp ex_hd None None (B "http://h.x/a/b?q")) as [u0| |] eqn:E0;
    [|vm_compute in E0; discriminate ..].
  pose proof (CR_parse true ex_hp ex_hp ex_hd None _ u0 E0) as R0. vm_compute in E0. injection E0 as <-.
  match type of R0 with CReach _ _ _ _ ?u =>
    destruct (apply_op true ex_hp ex_hp ex_hd u (OPathSegments [PPop; PPush (B "c d")])) as [u1|] eqn:E1;
      [|vm_compute in E1; discriminate] end.
  pose proof E1 as E1'. vm_compute in E1'. injection E1' as <-.
  match type of E1 with apply_op _ _ _ _ ?u ?o = Some ?u' =>
    assert (CReach true ex_hp ex_hp ex_hd u') as R1 end.
  { eapply CR_step; [exact R0 | | | exact E1]; [exact I|]. cbn [step_gate2]. split; [|exact I].
    repeat constructor; unfold is_usv; lia. }
  clear R0 E1.
  match type of R1 with CReach _ _ _ _ ?u =>
    destruct (apply_op true ex_hp ex_hp ex_hd u (OQPathname (B "/x y<z"))) as [u2|] eqn:E2;
      [|vm_compute in E2; discriminate] end.
  pose proof E2 as E2'. vm_compute in E2'. injection E2' as <-.
  match type of E2 with apply_op _ _ _ _ ?u ?o = Some ?u' =>
    assert (CReach true ex_hp ex_hp ex_hd u') as R2 end.
  { eapply CR_step; [exact R1 | | | exact E2]; [exact I|]. cbn [step_gate2].
    split; [repeat constructor; unfold is_usv; lia|]. split; [intros _ _; vm_compute; reflexivity | exact I]. }
  clear R1 E2.
  match type of R2 with CReach _ _ _ _ ?u =>
    destruct (apply_op true ex_hp ex_hp ex_hd u (OQHostname (B "o.x"))) as [u3|] eqn:E3;
      [|vm_compute in E3; discriminate] end.
  pose proof E3 as E3'. vm_compute in E3'. injection E3' as <-.
  match type of E3 with apply_op _ _ _ _ ?u ?o = Some ?u' =>
    assert (CReach true ex_hp ex_hp ex_hd u') as R3 end.
  { eapply CR_step; [exact R2 | | | exact E3]; [exact I|]. cbn [step_gate2]. split.
    - intros X. vm_compute in X. discriminate.
    - intros _ X. vm_compute in X. discriminate. }
  clear R2 E3.
  match type of R3 with CReach _ _ _ _ ?u =>
    destruct (apply_op true ex_hp ex_hp ex_hd u (OQPort (B "81"))) as [u4|] eqn:E4;
      [|vm_compute in E4; discriminate] end.
  pose proof E4 as E4'. vm_compute in E4'. injection E4' as <-.
  match type of E4 with apply_op _ _ _ _ ?u ?o = Some ?u' =>
    assert (CReach true ex_hp ex_hp ex_hd u') as R4 end.
  { eapply CR_step; [exact R3 | | | exact E4]; exact I. }
  clear R3 E4.
  match type of R4 with CReach _ _ _ _ ?b =>
    destruct (parse_url true ex_hp ex_hp ex_hd None (Some b) (B "../w v#f`")) as [u5| |] eqn:E5;
      [|vm_compute in E5; discriminate ..];
    assert (CReach true ex_hp ex_hp ex_hd u5) as R5
      by (eapply (CR_join true ex_hp ex_hp ex_hd None b); [exact R4 | vm_compute; reflexivity | exact E5])
  end.
  exists u5. split; [exact R5|]. vm_compute in E5. injection E5 as <-. vm_compute. reflexivity.
Qed.
