(* Proofs/C06_SpliceMore.v - (1) state-level path agreement on EVERY non-opaque layout (authority, '/'-led path
   without authority, '/.' marker) in one statement; (2) the exclusions of the whole-URL theorems for set_path and
   set_host(Some) are exact: witnesses where the argument leaves the class and Parser::parse_url on the spliced text
   does NOT return the setter's record. *)
From Coq Require Import String.
From RU Require Import Base.Prelude Base.Utf8 Model.AsciiSet Gen.Tables Model.PercentEncoding Model.HostT Model.UrlRecord
  Model.Parser Model.Setters Model.WF Proofs.ListN Proofs.C03_WF Proofs.C06_List Proofs.C06_WFI Proofs.C06_Suffix Proofs.C06_PathParser
  Proofs.C06_Path Proofs.C02_Enc Proofs.C02_Parts Proofs.C02_Reach Proofs.C02_AuthParts Proofs.C02_Auth
  Proofs.C02_AuthMain Proofs.C02_Canon Proofs.C06_Quirks Proofs.C06_Agree Proofs.C06_AgreeSet Proofs.C06_Splice Proofs.C06_SpliceAuth Proofs.C06_SpliceCred
  Proofs.C06_SpliceEx Proofs.C06_SplicePath Proofs.C06_SpliceHost.
Open Scope N_scope.
Open Scope list_scope.

(* ---------- (1) ---------- *)
(* u is not opaque (the byte behind "scheme:" is '/'): authority, '/'-led path, or marker.  The record the setter
   returns is with_path u P (the old record with P in the path position, offsets behind it shifted), and the
   parser's path-start state in context UrlParser on p X behind the old front writes exactly P and hands X on. *)
Theorem agree_path_layouts dbg u p u' : wf_b u = true -> byte_eqb (ser u) (scheme_end u + 1) 47 = true ->
  usv_list p -> auth_end_ok u -> forallb no_qh p = true -> match p with c :: _ => is_tnl c = false | [] => True end ->
  set_path dbg u p = Some u' ->
  exists P, u' = with_path u P /\ new_path_ok P
    /\ forall X, C06_Agree.qh_tail X ->
         exists hh, parse_path_start dbg CUrlParser (stype u) true (nfirstn (path_start u) (ser u)) (p ++ X)
                    = POk (nfirstn (path_start u) (ser u) ++ P, hh, X).
Proof.
  intros W Hsl Hp He Hq H1 E.
  destruct (set_path_eval dbg u p u' W Hsl Hp He E) as (P & hh & rem & Eu & HP & Hps).
  exists P. split; [exact Eu|]. split; [exact HP|]. intros X HX. exists hh.
  unfold stype. rewrite (path_start_ctx dbg _ true _ p X Hq HX H1). rewrite Hps. reflexivity.
Qed.

(* ---------- (2) ---------- *)
Definition parse_differs (r : option url) (spliced : list N) : Prop :=
  exists u', r = Some u' /\ parse_url true ex_hp ex_hp ex_hd None None spliced <> POk u'.

(* on "a://h:80/p?q#f" (canonical, with an authority; host functions ex_hp / ex_hd):
   - set_path("x"): not '/'-led; the setter gives "a://h:80/x?q#f", the spliced text "a://h:80x?q#f" does not parse;
   - set_path("/a?b"): a '?' in the argument; the setter gives "a://h:80/a%3Fb?q#f", the spliced text reads the query "b?q";
   - set_host(Some "x:81"): the setter ignores the port part ("a://x:80/p?q#f"), the spliced text "a://x:81:80/p?q#f" does not parse;
   - set_host(Some ""): the empty host on a URL with a port (F-C02-4): "a://:80/p?q#f" does not parse *)
Lemma splice_exclusions_refuted :
  Canon ex_hp ex_hp ex_hd qx_u /\ has_authority_b qx_u = true
  /\ parse_differs (set_path true qx_u (B "x")) (splice_path qx_u (B "x")) /\ ~ path_arg_ok (sp_of qx_u) (B "x")
  /\ parse_differs (set_path true qx_u (B "/a?b")) (splice_path qx_u (B "/a?b")) /\ forallb no_qh (B "/a?b") = false
  /\ parse_differs (ok_of (set_host true ex_hp ex_hp ex_hd qx_u (Some (B "x:81")))) (splice_host qx_u (B "x:81"))
  /\ forallb (hostarg (sp_of qx_u)) (B "x:81") = false
  /\ parse_differs (ok_of (set_host true ex_hp ex_hp ex_hd qx_u (Some []))) (splice_host qx_u [])
  /\ (exists u', set_host true ex_hp ex_hp ex_hd qx_u (Some []) = Some (u', SOk) /\ ~ empty_host_ok qx_u u').
Proof.
  split; [exact (proj1 splice_canon_examples)|]. split; [vm_compute; reflexivity|].
  split; [eexists; split; [vm_compute; reflexivity | vm_compute; discriminate]|].
  split; [intros H; vm_compute in H; discriminate H|].
  split; [eexists; split; [vm_compute; reflexivity | vm_compute; discriminate]|].
  split; [vm_compute; reflexivity|].
  split; [eexists; split; [vm_compute; reflexivity | vm_compute; discriminate]|].
  split; [vm_compute; reflexivity|].
  split; [eexists; split; [vm_compute; reflexivity | vm_compute; discriminate]|].
  eexists. split; [vm_compute; reflexivity|]. intros H. destruct (H eq_refl) as (_ & _ & H3). vm_compute in H3. discriminate H3.
Qed.
