(* Proofs/C02_SetCred.v - L2 for set_password and set_username: on a canonical record with authority the setter
   replaces the userinfo text and shifts the offsets behind it; the result is canonical again.
   The frame: ser = A ++ Un ++ Ur ++ X with A = scheme "://", Un the user name, Ur the rest of the userinfo
   ("" | "@" | ":" pw "@"), X everything from the host on; host_end / path_start / query_start / fragment_start
   are stored relative to the start of X. *)
From RU Require Import Base.Prelude Base.Utf8 Base.Utf8Facts Model.AsciiSet Gen.Tables
  Model.PercentEncoding Model.HostT Model.UrlRecord Model.Parser Model.Setters Model.WF
  Proofs.ListN Proofs.C14_Set Proofs.C14_Enc Proofs.C14_Views Proofs.C02_Enc Proofs.C02_Parts
  Proofs.C02_Opaque Proofs.C02_Path Proofs.C02_PathL1 Proofs.C02_Reach Proofs.C16_RT Proofs.C02_AuthParts
  Proofs.C02_Auth Proofs.C02_AuthWf Proofs.C02_PathSp Proofs.C02_AuthSp Proofs.C02_AuthMain Proofs.C02_SetQF
  Proofs.C02_Canon Proofs.C02_SetPort.
Open Scope N_scope.
Open Scope list_scope.

Ltac lens := repeat (rewrite ?nlen_app, ?nlen_cons); change (nlen (@nil N)) with 0 in *; lia.

(* the five-way case split of set_username, as a function (same source text as in Model/Setters.v) *)
Definition un_pick (new_empty : bool) (after_username s : list N) (removed0 new_ue : N) : list N * N * N :=
  match new_empty, after_username with
  | true, 64 :: rest => (s ++ rest, removed0 + 1, new_ue)
  | false, 64 :: _ => (s ++ after_username, removed0, new_ue)
  | _, 58 :: _ => (s ++ after_username, removed0, new_ue)
  | true, _ => (s ++ after_username, removed0, new_ue)
  | false, _ => (s ++ [64] ++ after_username, removed0, new_ue + 1)
  end.

Lemma un_pick_other ne c r s removed0 new_ue : c <> 64 -> c <> 58 ->
  un_pick ne (c :: r) s removed0 new_ue
  = if ne then (s ++ c :: r, removed0, new_ue) else (s ++ [64] ++ c :: r, removed0, new_ue + 1).
Proof.
  intros H1 H2. unfold un_pick. destruct ne; (destruct c as [|p]; [reflexivity|]);
    do 7 (try (destruct p as [p|p|]; try reflexivity)); congruence.
Qed.

Lemma enc1_not_nil S b : enc1 S b <> [].
Proof. unfold enc1. destruct (should_encode S b); discriminate. Qed.

Lemma encode_nil_iff S bs : encode S bs = [] <-> bs = [].
Proof.
  split; [|intros ->; reflexivity]. destruct bs as [|b r]; [reflexivity|]. rewrite encode_cons.
  intros H. apply app_eq_nil in H. destruct H as [H _]. exfalso. exact (enc1_not_nil S b H).
Qed.

Lemma utf8_encode_nil_iff' s : utf8_encode s = [] <-> s = [].
Proof.
  split; [|intros ->; reflexivity]. destruct s as [|c r]; [reflexivity|]. cbn [utf8_encode].
  intros H. apply app_eq_nil in H. destruct H as [H _]. exfalso. revert H. unfold utf8_encode1.
  destruct (c <? 128); [discriminate|]. destruct (c <? 2048); [discriminate|]. destruct (c <? 65536); discriminate.
Qed.

Lemma nnth_app_at_loc a x b : nnth (a ++ x :: b) (nlen a) = Some x.
Proof. unfold nnth, nlen. rewrite Nat2N.id. rewrite nth_error_app2 by lia. rewrite Nat.sub_diag. reflexivity. Qed.

Lemma byte_is_of_eqb_loc u i b : byte_eqb (ser u) i b = true -> byte_is u i b = Some true.
Proof.
  unfold byte_eqb, byte_is, byte_at. destruct (nnth (ser u) i) as [x|]; [|discriminate]. intros H. cbn [bindo]. rewrite H. reflexivity.
Qed.

Lemma nfirstn_2 a b x : nfirstn (nlen a + nlen b) (a ++ b ++ x) = a ++ b.
Proof. rewrite app_assoc. replace (nlen a + nlen b) with (nlen (a ++ b)) by apply nlen_app. apply nfirstn_app_len. Qed.

Lemma nskipn_2 a b x : nskipn (nlen a + nlen b) (a ++ b ++ x) = x.
Proof. rewrite app_assoc. replace (nlen a + nlen b) with (nlen (a ++ b)) by apply nlen_app. apply nskipn_app_len. Qed.

Lemma nskipn_3 a b c x : nskipn (nlen a + nlen b + nlen c) (a ++ b ++ c ++ x) = x.
Proof.
  rewrite (app_assoc a b). replace (nlen a + nlen b) with (nlen (a ++ b)) by apply nlen_app. apply nskipn_2.
Qed.

(* the text the two setters store *)
Definition uenc (s : list N) : list N := encode T_USERINFO (utf8_encode s).

Lemma uenc_clean s : usv_list s -> clean T_USERINFO (uenc s) = true.
Proof. intros H. apply encode_is_clean; [exact stable_USERINFO | apply utf8_encode_bytes; exact H]. Qed.

Lemma uenc_nil_iff s : uenc s = [] <-> s = [].
Proof. unfold uenc. rewrite encode_nil_iff. apply utf8_encode_nil_iff'. Qed.

Section Shift.
Variable dbg : bool.
Variables (sch X : list N) (dh dp : N) (dq df : option N) (hi : host_internal) (pt : option N).

Definition A : list N := sch ++ [58; 47; 47].
Definition sh_url (Un Ur : list N) : url :=
  let b := nlen A + nlen Un + nlen Ur in
  mkUrl (A ++ Un ++ Ur ++ X) (nlen sch) (nlen A + nlen Un) b (b + dh) hi pt (b + dp)
        (option_map (N.add b) dq) (option_map (N.add b) df).

Lemma A_len : nlen A = nlen sch + 3.
Proof. unfold A. rewrite nlen_app. reflexivity. Qed.

Lemma adjust_shift b b' d removed added : removed <= b -> b + added = b' + removed ->
  adjust dbg (b + d) removed added = Some (b' + d).
Proof.
  intros H1 H2. unfold adjust. replace (removed <=? b + d) with true by (symmetry; apply N.leb_le; lia).
  f_equal. lia.
Qed.

Lemma adjust_opt_shift b b' o removed added : removed <= b -> b + added = b' + removed ->
  adjust_opt dbg (option_map (N.add b) o) removed added = Some (option_map (N.add b') o).
Proof.
  intros H1 H2. destruct o as [d|]; cbn [option_map adjust_opt]; [|reflexivity].
  rewrite (adjust_shift b b' d removed added H1 H2). reflexivity.
Qed.

(* the common tail of the setters: five offsets moved *)
Lemma tail_eval b b' removed added s' ue' : removed <= b -> b + added = b' + removed ->
  (hs <- adjust dbg b removed added ;;
   he <- adjust dbg (b + dh) removed added ;;
   ps <- adjust dbg (b + dp) removed added ;;
   qs <- adjust_opt dbg (option_map (N.add b) dq) removed added ;;
   fs <- adjust_opt dbg (option_map (N.add b) df) removed added ;;
   Some (mkUrl s' (nlen sch) ue' hs he hi pt ps qs fs, SOk))
  = Some (mkUrl s' (nlen sch) ue' b' (b' + dh) hi pt (b' + dp) (option_map (N.add b') dq) (option_map (N.add b') df), SOk).
Proof.
  intros H1 H2.
  pose proof (adjust_shift b b' 0 removed added H1 H2) as E0. rewrite !N.add_0_r in E0. rewrite E0.
  rewrite (adjust_shift b b' dh removed added H1 H2), (adjust_shift b b' dp removed added H1 H2).
  rewrite !(adjust_opt_shift b b' _ removed added H1 H2). reflexivity.
Qed.

Lemma sh_ser Un Ur : ser (sh_url Un Ur) = A ++ Un ++ Ur ++ X.
Proof. reflexivity. Qed.

(* ---------- set_password with a non-empty argument ---------- *)
Theorem set_password_some_sh Un Ur p : usv_list p -> p <> [] ->
  cannot_have_credentials_or_port (sh_url Un Ur) = Some false ->
  set_password dbg (sh_url Un Ur) (Some p) = Some (sh_url Un (58 :: uenc p ++ [64]), SOk).
Proof.
  intros Hu Hne Hc. unfold set_password. rewrite Hc. cbn [bindo].
  destruct p as [|c r]; [contradiction|]. set (p := c :: r) in *.
  unfold u_slice_from. rewrite sh_ser.
  change (host_start (sh_url Un Ur)) with (nlen A + nlen Un + nlen Ur).
  change (username_end (sh_url Un Ur)) with (nlen A + nlen Un).
  rewrite slice_from_o_some by (rewrite !nlen_app; lia).
  replace (nskipn (nlen A + nlen Un + nlen Ur) (A ++ Un ++ Ur ++ X)) with X.
  2:{ symmetry. apply nskipn_3. }
  cbn [bindo]. unfold truncate.
  replace (nfirstn (nlen A + nlen Un) (A ++ Un ++ Ur ++ X)) with (A ++ Un)
    by (symmetry; apply nfirstn_2).
  rewrite push_encoded_eq by exact Hu. fold (uenc p).
  change (host_end (sh_url Un Ur)) with (nlen A + nlen Un + nlen Ur + dh).
  change (path_start (sh_url Un Ur)) with (nlen A + nlen Un + nlen Ur + dp).
  change (query_start (sh_url Un Ur)) with (option_map (N.add (nlen A + nlen Un + nlen Ur)) dq).
  change (fragment_start (sh_url Un Ur)) with (option_map (N.add (nlen A + nlen Un + nlen Ur)) df).
  change (scheme_end (sh_url Un Ur)) with (nlen sch). change (hosti (sh_url Un Ur)) with hi. change (port (sh_url Un Ur)) with pt.
  set (s := (((A ++ Un) ++ [58]) ++ uenc p) ++ [64]).
  assert (nlen s = nlen A + nlen Un + nlen (58 :: uenc p ++ [64])) as Ls.
  { unfold s. lens. }
  assert (forall d, adjust dbg (nlen A + nlen Un + nlen Ur + d) (nlen A + nlen Un + nlen Ur) (nlen s) = Some (nlen s + d)) as Ad.
  { intros d. apply adjust_shift; lia. }
  rewrite (Ad dh), (Ad dp).
  rewrite !(adjust_opt_shift (nlen A + nlen Un + nlen Ur) (nlen s)) by lia. cbn [bindo].
  unfold sh_url. rewrite <- Ls. do 2 f_equal. f_equal. unfold s. rewrite <- !app_assoc. cbn [app]. rewrite <- !app_assoc. reflexivity.
Qed.

(* ---------- set_password without (or with an empty) argument ---------- *)
Definition pw_arg_empty (pw : option (list N)) : Prop := match pw with Some (_ :: _) => False | _ => True end.

(* there is a password: it is removed, and the '@' too when the user name is empty *)
Theorem set_password_clear_sh Un P pw : pw_arg_empty pw ->
  cannot_have_credentials_or_port (sh_url Un (58 :: P ++ [64])) = Some false ->
  set_password dbg (sh_url Un (58 :: P ++ [64])) pw
  = Some (sh_url Un (match Un with [] => [] | _ => [64] end), SOk).
Proof.
  intros Hpw Hc. unfold set_password. rewrite Hc. cbn [bindo].
  replace (match match pw with Some x => x | None => [] end with [] => _ | _ :: _ => _ end)
    with (c <- byte_is (sh_url Un (58 :: P ++ [64])) (username_end (sh_url Un (58 :: P ++ [64]))) 58 ;;
          if c then
            at_ <- (if 1 <=? host_start (sh_url Un (58 :: P ++ [64])) then byte_is (sh_url Un (58 :: P ++ [64])) (host_start (sh_url Un (58 :: P ++ [64])) - 1) 64 else None) ;;
            (if dbg then assert_o at_ else Some tt) ;;;
            let username_start := scheme_end (sh_url Un (58 :: P ++ [64])) + 3 in
            let empty_username := username_start =? username_end (sh_url Un (58 :: P ++ [64])) in
            let start := username_end (sh_url Un (58 :: P ++ [64])) in
            let end_ := if empty_username then host_start (sh_url Un (58 :: P ++ [64])) else host_start (sh_url Un (58 :: P ++ [64])) - 1 in
            assert_o ((start <=? end_) && (end_ <=? nlen (ser (sh_url Un (58 :: P ++ [64]))))) ;;;
            let s := nfirstn start (ser (sh_url Un (58 :: P ++ [64]))) ++ nskipn end_ (ser (sh_url Un (58 :: P ++ [64]))) in
            let offset := end_ - start in
            hs <- sub_off dbg (host_start (sh_url Un (58 :: P ++ [64]))) offset ;;
            he <- sub_off dbg (host_end (sh_url Un (58 :: P ++ [64]))) offset ;;
            ps <- sub_off dbg (path_start (sh_url Un (58 :: P ++ [64]))) offset ;;
            qs <- sub_off_opt dbg (query_start (sh_url Un (58 :: P ++ [64]))) offset ;;
            fs <- sub_off_opt dbg (fragment_start (sh_url Un (58 :: P ++ [64]))) offset ;;
            Some (mkUrl s (scheme_end (sh_url Un (58 :: P ++ [64]))) (username_end (sh_url Un (58 :: P ++ [64]))) hs he
                        (hosti (sh_url Un (58 :: P ++ [64]))) (port (sh_url Un (58 :: P ++ [64]))) ps qs fs, SOk)
          else Some (sh_url Un (58 :: P ++ [64]), SOk))
    by (destruct pw as [[|? ?]|]; [reflexivity | contradiction | reflexivity]).
  set (Ur := 58 :: P ++ [64]).
  assert (nlen Ur = nlen P + 2) as LUr by (unfold Ur; lens).
  change (host_start (sh_url Un Ur)) with (nlen A + nlen Un + nlen Ur).
  change (username_end (sh_url Un Ur)) with (nlen A + nlen Un).
  change (host_end (sh_url Un Ur)) with (nlen A + nlen Un + nlen Ur + dh).
  change (path_start (sh_url Un Ur)) with (nlen A + nlen Un + nlen Ur + dp).
  change (query_start (sh_url Un Ur)) with (option_map (N.add (nlen A + nlen Un + nlen Ur)) dq).
  change (fragment_start (sh_url Un Ur)) with (option_map (N.add (nlen A + nlen Un + nlen Ur)) df).
  change (scheme_end (sh_url Un Ur)) with (nlen sch). change (hosti (sh_url Un Ur)) with hi. change (port (sh_url Un Ur)) with pt.
  rewrite sh_ser.
  (* the byte behind the user name is ':' *)
  assert (byte_is (sh_url Un Ur) (nlen A + nlen Un) 58 = Some true) as B1.
  { apply byte_is_of_eqb_loc. rewrite sh_ser. unfold Ur. rewrite (app_assoc A Un), <- nlen_app. cbn [app]. apply byte_eqb_app. }
  rewrite B1. cbn [bindo].
  replace (1 <=? nlen A + nlen Un + nlen Ur) with true by (symmetry; apply N.leb_le; lia).
  assert (byte_is (sh_url Un Ur) (nlen A + nlen Un + nlen Ur - 1) 64 = Some true) as B2.
  { apply byte_is_of_eqb_loc. rewrite sh_ser. unfold Ur.
    replace (A ++ Un ++ (58 :: P ++ [64]) ++ X) with (((A ++ Un) ++ 58 :: P) ++ 64 :: X)
      by (rewrite <- !app_assoc; cbn [app]; rewrite <- !app_assoc; reflexivity).
    replace (nlen A + nlen Un + nlen (58 :: P ++ [64]) - 1) with (nlen ((A ++ Un) ++ 58 :: P))
      by lens.
    apply byte_eqb_app. }
  rewrite B2. cbn [bindo]. replace (if dbg then assert_o true else Some tt) with (Some tt) by (destruct dbg; reflexivity).
  cbn [bindo]. cbv zeta. rewrite A_len.
  set (e := if nlen sch + 3 =? nlen sch + 3 + nlen Un then nlen sch + 3 + nlen Un + nlen Ur else nlen sch + 3 + nlen Un + nlen Ur - 1).
  assert (nlen (A ++ Un ++ Ur ++ X) = nlen sch + 3 + nlen Un + nlen Ur + nlen X) as LS by (rewrite !nlen_app, A_len; lia).
  assert (nlen sch + 3 + nlen Un <= e /\ e <= nlen sch + 3 + nlen Un + nlen Ur) as [E1 E2]
    by (unfold e; destruct (nlen sch + 3 =? nlen sch + 3 + nlen Un); lia).
  replace ((nlen sch + 3 + nlen Un <=? e) && (e <=? nlen (A ++ Un ++ Ur ++ X))) with true
    by (symmetry; apply andb_true_iff; split; apply N.leb_le; lia).
  cbn [assert_o bindo]. unfold sub_off, sub_off_opt.
  set (b := nlen sch + 3 + nlen Un + nlen Ur). set (b' := nlen sch + 3 + nlen Un + (b - e)).
  assert (forall d, adjust dbg (b + d) (e - (nlen sch + 3 + nlen Un)) 0 = Some (b' + d)) as Ad
    by (intros d; apply adjust_shift; unfold b, b'; lia).
  pose proof (Ad 0) as Ad0. rewrite !N.add_0_r in Ad0. rewrite Ad0, (Ad dh), (Ad dp).
  rewrite !(adjust_opt_shift b b') by (unfold b, b'; lia). cbn [bindo].
  do 2 f_equal. unfold sh_url. rewrite A_len.
  assert (nfirstn (nlen sch + 3 + nlen Un) (A ++ Un ++ Ur ++ X) = A ++ Un) as F1
    by (rewrite <- A_len, (app_assoc A Un), <- nlen_app; apply nfirstn_app_len).
  rewrite F1.
  destruct Un as [|c0 r0].
  - assert (e = b) as -> by (unfold e, b; change (nlen (@nil N)) with 0; rewrite N.add_0_r, N.eqb_refl; reflexivity).
    assert (b' = nlen sch + 3 + nlen (@nil N) + nlen (@nil N)) as -> by (unfold b'; change (nlen (@nil N)) with 0; lia).
    f_equal. cbn [app]. rewrite app_nil_r. f_equal. unfold b. change (nlen (@nil N)) with 0. rewrite N.add_0_r, <- A_len.
    rewrite (app_assoc A Ur), <- nlen_app. apply nskipn_app_len.
  - assert (e = b - 1) as ->.
    { unfold e, b. replace (nlen sch + 3 =? nlen sch + 3 + nlen (c0 :: r0)) with false; [reflexivity|].
      symmetry. apply N.eqb_neq. rewrite nlen_cons. lia. }
    assert (b' = nlen sch + 3 + nlen (c0 :: r0) + nlen [64]) as -> by (unfold b', b; change (nlen [64]) with 1; lia).
    assert (nskipn (b - 1) (A ++ (c0 :: r0) ++ Ur ++ X) = 64 :: X) as SK.
    { unfold b, Ur.
      replace (A ++ (c0 :: r0) ++ (58 :: P ++ [64]) ++ X) with (((A ++ c0 :: r0) ++ 58 :: P) ++ 64 :: X)
        by (rewrite <- !app_assoc; cbn [app]; rewrite <- !app_assoc; reflexivity).
      replace (nlen sch + 3 + nlen (c0 :: r0) + nlen (58 :: P ++ [64]) - 1) with (nlen ((A ++ c0 :: r0) ++ 58 :: P))
        by (rewrite <- A_len; lens).
      apply nskipn_app_len. }
    rewrite SK. f_equal. rewrite <- !app_assoc. reflexivity.
Qed.

(* there is no password: nothing changes *)
Theorem set_password_noop_sh Un Ur c0 R pw : pw_arg_empty pw -> Ur ++ X = c0 :: R -> c0 <> 58 ->
  cannot_have_credentials_or_port (sh_url Un Ur) = Some false ->
  set_password dbg (sh_url Un Ur) pw = Some (sh_url Un Ur, SOk).
Proof.
  intros Hpw HX Hc0 Hc. unfold set_password. rewrite Hc. cbn [bindo].
  assert (byte_is (sh_url Un Ur) (username_end (sh_url Un Ur)) 58 = Some false) as B1.
  { unfold byte_is, byte_at. rewrite sh_ser. change (username_end (sh_url Un Ur)) with (nlen A + nlen Un).
    rewrite HX, (app_assoc A Un), <- nlen_app. rewrite nnth_app_at_loc. cbn [bindo]. f_equal. apply N.eqb_neq. exact Hc0. }
  destruct pw as [[|? ?]|]; [|contradiction|]; rewrite B1; reflexivity.
Qed.

(* ---------- set_username ---------- *)
Lemma set_username_unfold u un : set_username dbg u un =
  (c <- cannot_have_credentials_or_port u ;;
   if c then Some (u, SErrUnit) else
   let username_start := scheme_end u + 3 in
   (if dbg then x <- u_slice u (scheme_end u) username_start ;; assert_o (list_eqb x s_css) else Some tt) ;;;
   cur <- u_slice u username_start (username_end u) ;;
   if list_eqb cur (utf8_encode un) then Some (u, SOk) else
   after_username <- u_slice_from u (username_end u) ;;
   let s := push_encoded T_USERINFO (truncate (ser u) username_start) un in
   let removed0 := username_end u in
   let new_ue := nlen s in
   let new_empty := new_ue =? username_start in
   let '(s', removed, added) := un_pick new_empty after_username s removed0 new_ue in
   hs <- adjust dbg (host_start u) removed added ;;
   he <- adjust dbg (host_end u) removed added ;;
   ps <- adjust dbg (path_start u) removed added ;;
   qs <- adjust_opt dbg (query_start u) removed added ;;
   fs <- adjust_opt dbg (fragment_start u) removed added ;;
   Some (mkUrl s' (scheme_end u) new_ue hs he (hosti u) (port u) ps qs fs, SOk)).
Proof. reflexivity. Qed.

Lemma un_pick_at ne r s r0 nu : un_pick ne (64 :: r) s r0 nu = if ne then (s ++ r, r0 + 1, nu) else (s ++ 64 :: r, r0, nu).
Proof. destruct ne; reflexivity. Qed.
Lemma un_pick_colon ne r s r0 nu : un_pick ne (58 :: r) s r0 nu = (s ++ 58 :: r, r0, nu).
Proof. destruct ne; reflexivity. Qed.

(* everything in front of the case split *)
Lemma set_username_sh_pre Un Ur un : usv_list un ->
  cannot_have_credentials_or_port (sh_url Un Ur) = Some false -> list_eqb Un (utf8_encode un) = false ->
  set_username dbg (sh_url Un Ur) un =
  (let '(s', removed, added) := un_pick (nlen (A ++ uenc un) =? nlen sch + 3) (Ur ++ X) (A ++ uenc un) (nlen A + nlen Un) (nlen (A ++ uenc un)) in
   hs <- adjust dbg (nlen A + nlen Un + nlen Ur) removed added ;;
   he <- adjust dbg (nlen A + nlen Un + nlen Ur + dh) removed added ;;
   ps <- adjust dbg (nlen A + nlen Un + nlen Ur + dp) removed added ;;
   qs <- adjust_opt dbg (option_map (N.add (nlen A + nlen Un + nlen Ur)) dq) removed added ;;
   fs <- adjust_opt dbg (option_map (N.add (nlen A + nlen Un + nlen Ur)) df) removed added ;;
   Some (mkUrl s' (nlen sch) (nlen (A ++ uenc un)) hs he hi pt ps qs fs, SOk)).
Proof.
  intros Hu Hc He. rewrite set_username_unfold. rewrite Hc. cbn [bindo]. cbv zeta.
  change (host_start (sh_url Un Ur)) with (nlen A + nlen Un + nlen Ur).
  change (username_end (sh_url Un Ur)) with (nlen A + nlen Un).
  change (host_end (sh_url Un Ur)) with (nlen A + nlen Un + nlen Ur + dh).
  change (path_start (sh_url Un Ur)) with (nlen A + nlen Un + nlen Ur + dp).
  change (query_start (sh_url Un Ur)) with (option_map (N.add (nlen A + nlen Un + nlen Ur)) dq).
  change (fragment_start (sh_url Un Ur)) with (option_map (N.add (nlen A + nlen Un + nlen Ur)) df).
  change (scheme_end (sh_url Un Ur)) with (nlen sch). change (hosti (sh_url Un Ur)) with hi. change (port (sh_url Un Ur)) with pt.
  unfold u_slice, u_slice_from, truncate. rewrite sh_ser.
  assert (nlen (A ++ Un ++ Ur ++ X) = nlen sch + 3 + nlen Un + nlen Ur + nlen X) as LS by (rewrite !nlen_app, A_len; lia).
  assert ((if dbg then x <- slice_o (A ++ Un ++ Ur ++ X) (nlen sch) (nlen sch + 3) ;; assert_o (list_eqb x s_css) else Some tt) = Some tt) as Ed.
  { destruct dbg; [|reflexivity]. rewrite slice_o_some by lia. cbn [bindo].
    replace (nlen sch + 3 - nlen sch) with 3 by lia. unfold A. rewrite <- app_assoc. rewrite nskipn_app_len. reflexivity. }
  rewrite Ed. cbn [bindo].
  rewrite slice_o_some by (rewrite A_len in *; lia).
  replace (nlen A + nlen Un - (nlen sch + 3)) with (nlen Un) by (rewrite A_len; lia).
  rewrite <- A_len. rewrite nskipn_app_len, nfirstn_app_len. cbn [bindo]. rewrite He.
  rewrite slice_from_o_some by (rewrite A_len in *; lia). rewrite nskipn_2. cbn [bindo].
  rewrite nfirstn_app_len. rewrite push_encoded_eq by exact Hu. fold (uenc un). rewrite A_len. reflexivity.
Qed.

Lemma set_username_same Un Ur un :
  cannot_have_credentials_or_port (sh_url Un Ur) = Some false -> list_eqb Un (utf8_encode un) = true ->
  set_username dbg (sh_url Un Ur) un = Some (sh_url Un Ur, SOk).
Proof.
  intros Hc He. rewrite set_username_unfold, Hc. cbn [bindo]. cbv zeta.
  change (username_end (sh_url Un Ur)) with (nlen A + nlen Un). change (scheme_end (sh_url Un Ur)) with (nlen sch).
  unfold u_slice. rewrite sh_ser.
  assert (nlen (A ++ Un ++ Ur ++ X) = nlen sch + 3 + nlen Un + nlen Ur + nlen X) as LS by (rewrite !nlen_app, A_len; lia).
  assert ((if dbg then x <- slice_o (A ++ Un ++ Ur ++ X) (nlen sch) (nlen sch + 3) ;; assert_o (list_eqb x s_css) else Some tt) = Some tt) as Ed.
  { destruct dbg; [|reflexivity]. rewrite slice_o_some by lia. cbn [bindo].
    replace (nlen sch + 3 - nlen sch) with 3 by lia. unfold A. rewrite <- app_assoc. rewrite nskipn_app_len. reflexivity. }
  rewrite Ed. cbn [bindo]. rewrite slice_o_some by (rewrite ?A_len in *; lia).
  replace (nlen A + nlen Un - (nlen sch + 3)) with (nlen Un) by (rewrite A_len; lia).
  rewrite <- A_len. rewrite nskipn_app_len, nfirstn_app_len. cbn [bindo]. rewrite He. reflexivity.
Qed.

(* user name followed by '@' (no password) *)
Theorem set_username_user_sh Un un : usv_list un ->
  cannot_have_credentials_or_port (sh_url Un [64]) = Some false ->
  set_username dbg (sh_url Un [64]) un
  = Some (if list_eqb Un (utf8_encode un) then sh_url Un [64]
          else sh_url (uenc un) (match uenc un with [] => [] | _ => [64] end), SOk).
Proof.
  intros Hu Hc. destruct (list_eqb Un (utf8_encode un)) eqn:He.
  - rewrite (set_username_same Un [64] un Hc He). reflexivity.
  - rewrite (set_username_sh_pre Un [64] un Hu Hc He). cbn [app]. rewrite un_pick_at.
    destruct (uenc un) as [|e0 er] eqn:Ee.
    + replace (nlen (A ++ []) =? nlen sch + 3) with true by (symmetry; apply N.eqb_eq; rewrite app_nil_r; apply A_len).
      rewrite (tail_eval (nlen A + nlen Un + nlen [64]) (nlen A + nlen (@nil N) + nlen (@nil N))) by lens.
      unfold sh_url. do 2 f_equal. f_equal; [rewrite app_nil_r; reflexivity | lens].
    + replace (nlen (A ++ e0 :: er) =? nlen sch + 3) with false by (symmetry; apply N.eqb_neq; rewrite nlen_app, A_len, nlen_cons; lia).
      rewrite (tail_eval (nlen A + nlen Un + nlen [64]) (nlen A + nlen (e0 :: er) + nlen [64])) by lens.
      unfold sh_url. do 2 f_equal. f_equal; [rewrite <- !app_assoc; reflexivity | lens].
Qed.

(* user name followed by ':' password '@' *)
Theorem set_username_pw_sh Un P un : usv_list un ->
  cannot_have_credentials_or_port (sh_url Un (58 :: P ++ [64])) = Some false ->
  set_username dbg (sh_url Un (58 :: P ++ [64])) un
  = Some (if list_eqb Un (utf8_encode un) then sh_url Un (58 :: P ++ [64]) else sh_url (uenc un) (58 :: P ++ [64]), SOk).
Proof.
  intros Hu Hc. set (Ur := 58 :: P ++ [64]) in *. destruct (list_eqb Un (utf8_encode un)) eqn:He.
  - rewrite (set_username_same Un Ur un Hc He). reflexivity.
  - rewrite (set_username_sh_pre Un Ur un Hu Hc He). unfold Ur at 1. cbn [app]. rewrite un_pick_colon.
    rewrite (tail_eval (nlen A + nlen Un + nlen Ur) (nlen A + nlen (uenc un) + nlen Ur)) by lens.
    unfold sh_url. do 2 f_equal. f_equal; [unfold Ur; rewrite <- !app_assoc; cbn [app]; rewrite <- !app_assoc; reflexivity | lens].
Qed.

(* no userinfo at all: X starts with a byte that is neither '@' nor ':' (a host text does) *)
Theorem set_username_none_sh c0 R un : usv_list un -> X = c0 :: R -> c0 <> 64 -> c0 <> 58 ->
  cannot_have_credentials_or_port (sh_url [] []) = Some false ->
  set_username dbg (sh_url [] []) un
  = Some (match un with [] => sh_url [] [] | _ => sh_url (uenc un) [64] end, SOk).
Proof.
  intros Hu HX H64 H58 Hc. destruct un as [|u0 ur].
  - rewrite (set_username_same [] [] [] Hc eq_refl). reflexivity.
  - assert (list_eqb [] (utf8_encode (u0 :: ur)) = false) as He.
    { destruct (utf8_encode (u0 :: ur)) eqn:E; [|reflexivity]. apply (proj1 (utf8_encode_nil_iff' _)) in E. discriminate E. }
    rewrite (set_username_sh_pre [] [] (u0 :: ur) Hu Hc He). cbn [app]. rewrite HX.
    rewrite un_pick_other by assumption.
    destruct (uenc (u0 :: ur)) as [|e0 er] eqn:Ee; [apply (proj1 (uenc_nil_iff _)) in Ee; discriminate Ee|].
    replace (nlen (A ++ e0 :: er) =? nlen sch + 3) with false by (symmetry; apply N.eqb_neq; rewrite nlen_app, A_len, nlen_cons; lia).
    rewrite (tail_eval (nlen A + nlen (@nil N) + nlen (@nil N)) (nlen A + nlen (e0 :: er) + nlen [64])) by lens.
    unfold sh_url. rewrite HX. do 2 f_equal. f_equal; [rewrite <- !app_assoc; reflexivity | lens].
Qed.
End Shift.
