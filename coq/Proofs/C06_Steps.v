(* Proofs/C06_Steps.v - the elementary edits behind the path: cut the fragment, cut the query,
   append a query, append a fragment, strip trailing spaces of an opaque path.  Each keeps wf_b and
   every observation in front of the edit. *)
From RU Require Import Base.Prelude Model.HostT Model.UrlRecord Model.Parser Model.Setters Model.WF
  Proofs.ListN Proofs.C03_WF Proofs.C06_List Proofs.C06_WFI Proofs.C06_Tail.

Ltac rec_simpl :=
  cbn [ser scheme_end username_end host_start host_end hosti port path_start query_start fragment_start
       set_ser set_query_start set_fragment_start] in *.

Definition cut_fragment (u : url) (f : N) : url := set_fragment_start (set_ser u (truncate (ser u) f)) None.
Definition cut_query (u : url) (q : N) : url := set_query_start (set_ser u (truncate (ser u) q)) None.
Definition add_query (u : url) (x : list N) : url :=
  set_query_start (set_ser u (ser u ++ 63 :: x)) (Some (nlen (ser u))).
Definition add_fragment (u : url) (x : list N) : url :=
  set_fragment_start (set_ser u (ser u ++ 35 :: x)) (Some (nlen (ser u))).

Lemma same_main_set u s q f : same_main u (set_fragment_start (set_query_start (set_ser u s) q) f).
Proof. repeat split. Qed.

Lemma agree_pre_trunc a s : agree_pre a s (nfirstn a s).
Proof. unfold agree_pre. apply nfirstn_nfirstn. lia. Qed.

Lemma byte_eqb_app_at s c x : byte_eqb (s ++ c :: x) (nlen s) c = true.
Proof.
  unfold byte_eqb. rewrite nnth_app_ge by lia. rewrite N.sub_diag. cbn. apply N.eqb_refl.
Qed.

(* generic pieces of qf_ok *)
Lemma qf_facts_of u : wf_b u = true -> qf_ok u.
Proof. intros H. apply wf_b_iff in H. tauto. Qed.

(* ---------- cut the fragment ---------- *)
Lemma cut_fragment_step dbg u f : wf_b u = true -> fragment_start u = Some f ->
  let u' := cut_fragment u f in
  wf_b u' = true /\ same_front dbg u u' /\ same_main u u' /\ path u' = path u /\ query dbg u' = query dbg u
  /\ query_start u' = query_start u /\ fragment_start u' = None /\ ser u' = nfirstn f (ser u)
  /\ f < nlen (ser u) /\ nnth (ser u) f = Some 35.
Proof.
  intros W Ef u'.
  pose proof (qf_facts_of u W) as (Q1 & Q2 & Q3 & Q4 & Q5).
  pose proof (wf_qf_facts u W) as QF. pose proof (qf_f QF) as F2. rewrite Ef in F2. destruct F2 as (F2a & F2b & F2c).
  pose proof (wf_ps_le_path_end u W) as [P1 P2].
  assert (path_end u <= f) as Hpe.
  { unfold path_end. rewrite Ef in *. destruct (query_start u); lia. }
  destruct (marker_of_path_end u f W Hpe) as [M1 M2].
  assert (nlen (ser u') = f) as Hl.
  { subst u'. unfold cut_fragment, truncate. rec_simpl. apply nlen_nfirstn. lia. }
  assert (path_end u' = path_end u) as Epe.
  { unfold path_end. subst u'. unfold cut_fragment in *. rec_simpl. rewrite Ef.
    destruct (query_start u); [reflexivity|]. exact Hl. }
  assert (agree_pre f (ser u) (ser u')) as Hpre by apply agree_pre_trunc.
  assert (qf_ok u') as Q'.
  { unfold qf_ok. rewrite Epe. subst u'. unfold cut_fragment, truncate in *. rec_simpl.
    rewrite Ef in *.
    split; [|split; [exact I|split; [destruct (query_start u); exact I|split]]].
    - destruct (query_start u) as [q|]; [|exact I]. destruct Q1 as [Q1a Q1b]. split; [exact Q1a|].
      rewrite (pre_byte_eqb f _ _ _ _ Hpre) by lia. exact Q1b.
    - rewrite (pre_piece f _ _ _ _ Hpre) by lia. exact Q4.
    - destruct (query_start u) as [q|]; [|exact I].
      replace f with ((q + 1) + (f - (q + 1))) at 1 by lia. rewrite nskipn_nfirstn_comm. exact Q5. }
  destruct (tail_step dbg u u' f W (same_main_set u _ _ _) Hpre M1 M2 ltac:(lia) ltac:(lia) (or_introl (eq_sym Hl)) Q')
    as (W' & SF & PT).
  split; [exact W'|]. split; [exact SF|]. split; [apply same_main_set|]. split; [apply PT; assumption|].
  repeat split; try (apply byte_eqb_nnth; exact F2b); try exact F2c.
  rewrite (query_eval dbg u' W'), (query_eval dbg u W). subst u'. unfold cut_fragment, truncate in *. rec_simpl.
  destruct (query_start u) as [q|] eqn:Eq; [|reflexivity]. do 2 f_equal.
  unfold piece. cbn [pidx]. rec_simpl. rewrite Eq, Ef, Hl.
  apply (pre_piece f); [exact Hpre | lia].
Qed.

(* ---------- cut the query (no fragment present) ---------- *)
Lemma cut_query_step dbg u q : wf_b u = true -> fragment_start u = None -> query_start u = Some q ->
  let u' := cut_query u q in
  wf_b u' = true /\ same_front dbg u u' /\ same_main u u' /\ path u' = path u
  /\ query_start u' = None /\ fragment_start u' = None /\ ser u' = nfirstn q (ser u) /\ q < nlen (ser u).
Proof.
  intros W Ef Eq u'.
  pose proof (qf_facts_of u W) as (Q1 & Q2 & Q3 & Q4 & Q5).
  pose proof (wf_qf_facts u W) as QF. pose proof (qf_q QF) as F1. rewrite Eq in F1. destruct F1 as (F1a & F1b & F1c).
  assert (path_end u = q) as Hpe by (unfold path_end; rewrite Eq; reflexivity).
  destruct (marker_of_path_end u q W ltac:(lia)) as [M1 M2].
  assert (nlen (ser u') = q) as Hl.
  { subst u'. unfold cut_query, truncate. rec_simpl. apply nlen_nfirstn. lia. }
  assert (path_end u' = path_end u) as Epe.
  { rewrite Hpe. unfold path_end. subst u'. unfold cut_query in *. rec_simpl. rewrite Ef. exact Hl. }
  assert (agree_pre q (ser u) (ser u')) as Hpre by apply agree_pre_trunc.
  assert (qf_ok u') as Q'.
  { unfold qf_ok. rewrite Epe. subst u'. unfold cut_query, truncate in *. rec_simpl. rewrite Ef.
    repeat split. rewrite (pre_piece q _ _ _ _ Hpre) by lia. exact Q4. }
  destruct (tail_step dbg u u' q W (same_main_set u _ _ _) Hpre M1 M2 ltac:(lia) ltac:(lia) (or_introl (eq_sym Hl)) Q')
    as (W' & SF & PT).
  split; [exact W'|]. split; [exact SF|]. split; [apply same_main_set|]. split; [apply PT; [assumption|lia]|].
  repeat split; try assumption.
Qed.

(* ---------- append a query (no query, no fragment present) ---------- *)
Lemma add_query_step dbg u x : wf_b u = true -> fragment_start u = None -> query_start u = None ->
  forallb no_h x = true ->
  let u' := add_query u x in
  wf_b u' = true /\ same_front dbg u u' /\ same_main u u' /\ path u' = path u
  /\ query dbg u' = Some (Some x) /\ fragment_start u' = None.
Proof.
  intros W Ef Eq Hx u'.
  pose proof (qf_facts_of u W) as (Q1 & Q2 & Q3 & Q4 & Q5).
  assert (path_end u = nlen (ser u)) as Hpe by (unfold path_end; rewrite Eq, Ef; reflexivity).
  destruct (marker_of_path_end u (nlen (ser u)) W ltac:(lia)) as [M1 M2].
  assert (nlen (ser u') = nlen (ser u) + 1 + nlen x) as Hl.
  { subst u'. unfold add_query. rec_simpl. rewrite nlen_app, nlen_cons. lia. }
  assert (path_end u' = path_end u) as Epe.
  { rewrite Hpe. unfold path_end. subst u'. unfold add_query. rec_simpl. reflexivity. }
  assert (agree_pre (nlen (ser u)) (ser u) (ser u')) as Hpre by apply agree_pre_app_r.
  assert (byte_eqb (ser u') (nlen (ser u)) 63 = true) as Hb by apply byte_eqb_app_at.
  assert (nskipn (nlen (ser u) + 1) (ser u') = x) as Hsk.
  { subst u'. unfold add_query. rec_simpl. rewrite nskipn_app_ge by lia.
    replace (nlen (ser u) + 1 - nlen (ser u)) with 1 by lia. reflexivity. }
  assert (qf_ok u') as Q'.
  { unfold qf_ok. rewrite Epe. rewrite Hpe.
    replace (query_start u') with (Some (nlen (ser u))) by reflexivity.
    replace (fragment_start u') with (@None N) by (subst u'; unfold add_query; rec_simpl; symmetry; exact Ef).
    replace (path_start u') with (path_start u) by reflexivity.
    split; [split; [lia | exact Hb]|]. split; [exact I|]. split; [exact I|]. split.
    - rewrite (pre_piece _ _ _ _ _ Hpre) by lia. rewrite <- Hpe. exact Q4.
    - rewrite Hsk. exact Hx. }
  destruct (tail_step dbg u u' (nlen (ser u)) W (same_main_set u _ _ _) Hpre M1 M2 ltac:(lia) ltac:(lia)
              (or_intror (or_introl Hb)) Q') as (W' & SF & PT).
  split; [exact W'|]. split; [exact SF|]. split; [apply same_main_set|]. split; [apply PT; [assumption|lia]|].
  split; [|subst u'; unfold add_query; rec_simpl; exact Ef].
  rewrite (query_eval dbg u' W').
  replace (query_start u') with (Some (nlen (ser u))) by reflexivity. do 2 f_equal.
  unfold piece. cbn [pidx].
  replace (query_start u') with (Some (nlen (ser u))) by reflexivity.
  replace (fragment_start u') with (@None N) by (subst u'; unfold add_query; rec_simpl; symmetry; exact Ef).
  rewrite Hsk. apply nfirstn_all. lia.
Qed.

(* ---------- append a fragment (no fragment present) ---------- *)
Lemma add_fragment_step dbg u x : wf_b u = true -> fragment_start u = None ->
  let u' := add_fragment u x in
  wf_b u' = true /\ same_front dbg u u' /\ same_main u u' /\ path u' = path u /\ query dbg u' = query dbg u
  /\ query_start u' = query_start u /\ fragment dbg u' = Some (Some x).
Proof.
  intros W Ef u'.
  pose proof (qf_facts_of u W) as (Q1 & Q2 & Q3 & Q4 & Q5).
  pose proof (wf_qf_facts u W) as QF. pose proof (qf_q QF) as F1.
  pose proof (wf_ps_le_path_end u W) as [P1 P2].
  destruct (marker_of_path_end u (nlen (ser u)) W ltac:(lia)) as [M1 M2].
  assert (nlen (ser u') = nlen (ser u) + 1 + nlen x) as Hl.
  { subst u'. unfold add_fragment. rec_simpl. rewrite nlen_app, nlen_cons. lia. }
  assert (path_end u' = path_end u) as Epe.
  { unfold path_end. subst u'. unfold add_fragment. rec_simpl. rewrite Ef. reflexivity. }
  assert (agree_pre (nlen (ser u)) (ser u) (ser u')) as Hpre by apply agree_pre_app_r.
  assert (byte_eqb (ser u') (nlen (ser u)) 35 = true) as Hb by apply byte_eqb_app_at.
  assert (nskipn (nlen (ser u) + 1) (ser u') = x) as Hsk.
  { subst u'. unfold add_fragment. rec_simpl. rewrite nskipn_app_ge by lia.
    replace (nlen (ser u) + 1 - nlen (ser u)) with 1 by lia. reflexivity. }
  assert (qf_ok u') as Q'.
  { unfold qf_ok. rewrite Epe.
    replace (fragment_start u') with (Some (nlen (ser u))) by reflexivity.
    replace (query_start u') with (query_start u) by reflexivity.
    replace (path_start u') with (path_start u) by reflexivity.
    rewrite Ef in *.
    split; [|split; [split; [lia | exact Hb]|split; [|split]]].
    - destruct (query_start u) as [q|]; [|exact I]. destruct Q1 as [Q1a Q1b]. split; [exact Q1a|].
      destruct F1 as (_ & _ & F1c). rewrite (pre_byte_eqb _ _ _ _ _ Hpre) by lia. exact Q1b.
    - destruct (query_start u) as [q|]; [|exact I]. destruct F1 as (_ & _ & F1c). exact F1c.
    - rewrite (pre_piece _ _ _ _ _ Hpre) by lia. exact Q4.
    - destruct (query_start u) as [q|]; [|exact I]. destruct F1 as (_ & _ & F1c).
      rewrite (pre_piece _ _ _ _ _ Hpre) by lia.
      rewrite nfirstn_all by (rewrite nlen_nskipn; lia). exact Q5. }
  destruct (tail_step dbg u u' (nlen (ser u)) W (same_main_set u _ _ _) Hpre M1 M2 ltac:(lia) ltac:(lia)
              (or_intror (or_intror Hb)) Q') as (W' & SF & PT).
  split; [exact W'|]. split; [exact SF|]. split; [apply same_main_set|]. split; [apply PT; [assumption|lia]|].
  split; [|split; [reflexivity|]].
  - rewrite (query_eval dbg u' W'), (query_eval dbg u W).
    replace (query_start u') with (query_start u) by reflexivity.
    destruct (query_start u) as [q|] eqn:Eq; [|reflexivity]. do 2 f_equal.
    unfold piece. cbn [pidx].
    replace (query_start u') with (Some q) by (symmetry; exact Eq).
    replace (fragment_start u') with (Some (nlen (ser u))) by reflexivity. rewrite Eq, Ef.
    destruct F1 as (_ & _ & F1c). apply (pre_piece (nlen (ser u))); [exact Hpre | lia].
  - rewrite (fragment_eval dbg u' W').
    replace (fragment_start u') with (Some (nlen (ser u))) by reflexivity. do 2 f_equal.
    unfold piece. cbn [pidx].
    replace (fragment_start u') with (Some (nlen (ser u))) by reflexivity.
    rewrite Hsk. apply nfirstn_all. lia.
Qed.

(* ---------- trailing-space stripping ---------- *)
Definition rstrip (f : N -> bool) (l : list N) : list N := rev (drop_while f (rev l)).

Lemma rstrip_snoc f l x : rstrip f (l ++ [x]) = if f x then rstrip f l else l ++ [x].
Proof.
  unfold rstrip. rewrite rev_app_distr. cbn [rev app drop_while].
  destruct (f x); [reflexivity|]. cbn [rev]. rewrite rev_involutive. reflexivity.
Qed.

Lemma rstrip_prefix f l : exists k, k <= nlen l /\ rstrip f l = nfirstn k l
  /\ (forall i c, nnth l i = Some c -> f c = false -> i < k).
Proof.
  induction l as [|x l IH] using rev_ind.
  - exists 0. repeat split; [lia|]. intros i c H. destruct (N.to_nat i) eqn:E; unfold nnth in H; rewrite E in H; discriminate.
  - rewrite rstrip_snoc. destruct (f x) eqn:Ex.
    + destruct IH as (k & K1 & K2 & K3). exists k. rewrite nlen_app. split; [lia|]. split.
      * rewrite K2. rewrite nfirstn_app_le by exact K1. reflexivity.
      * intros i c H Hc. destruct (N.lt_ge_cases i (nlen l)) as [Hi|Hi].
        -- rewrite nnth_app_lt in H by exact Hi. eapply K3; eassumption.
        -- rewrite nnth_app_ge in H by exact Hi.
           assert (i - nlen l = 0) as E0.
           { apply nnth_lt in H. change (nlen [x]) with 1 in H. lia. }
           rewrite E0 in H. cbn in H. inversion H; subst. congruence.
    + exists (nlen (l ++ [x])). split; [lia|]. split.
      * symmetry. apply nfirstn_all. lia.
      * intros i c H _. eapply nnth_lt. exact H.
Qed.

Lemma cannot_be_a_base_eval u : wf_b u = true ->
  cannot_be_a_base u = Some (negb (byte_eqb (ser u) (scheme_end u + 1) 47)).
Proof.
  intros W. destruct (wf_scheme_facts u W) as (_ & _ & Hlt).
  unfold cannot_be_a_base, u_slice_from. rewrite slice_from_o_some by lia. cbn [bindo].
  do 2 f_equal. unfold byte_eqb. rewrite <- (N.add_0_r (scheme_end u + 1)) at 2. rewrite <- nnth_nskipn.
  destruct (nskipn (scheme_end u + 1) (ser u)) as [|c r]; [reflexivity|].
  cbn [starts_with]. rewrite andb_true_r, N.eqb_sym. reflexivity.
Qed.

(* an opaque-path URL has no authority and no marker: the path starts right after the ':' *)
Lemma opaque_path_start u : wf_b u = true -> byte_eqb (ser u) (scheme_end u + 1) 47 = false ->
  has_authority_b u = false /\ path_start u = scheme_end u + 1.
Proof.
  intros W Hb.
  assert (has_authority_b u = false) as Ha.
  { destruct (has_authority_b u) eqn:Ha; [|reflexivity]. unfold has_authority_b in Ha.
    apply css_bytes in Ha. destruct Ha as (_ & B & _). apply byte_eqb_true_iff in B. congruence. }
  split; [exact Ha|]. pose proof (wf_noauth_facts u W Ha) as F.
  destruct (nf_ps F) as [E|(_ & B & _)]; [exact E | congruence].
Qed.

Lemma strip_step dbg u u' : wf_b u = true -> fragment_start u = None -> query_start u = None ->
  strip_trailing_spaces_from_opaque_path u = Some u' ->
  wf_b u' = true /\ same_front dbg u u' /\ same_main u u' /\ query_start u' = None /\ fragment_start u' = None
  /\ (if byte_eqb (ser u) (scheme_end u + 1) 47 then u' = u
      else exists p, path u = Some p /\ path u' = Some (rstrip (fun c => c =? 32) p)).
Proof.
  intros W Ef Eq H. unfold strip_trailing_spaces_from_opaque_path in H.
  rewrite (cannot_be_a_base_eval u W) in H. cbn [bindo] in H. rewrite Ef, Eq in H.
  destruct (byte_eqb (ser u) (scheme_end u + 1) 47) eqn:Hb; cbn [negb] in H.
  - inversion H; subst u'. repeat split; try assumption.
  - assert (u' = set_ser u (rstrip (fun c => c =? 32) (ser u))) as Hu by (unfold rstrip; congruence). clear H.
    destruct (opaque_path_start u W Hb) as [Ha Eps].
    destruct (rstrip_prefix (fun c => c =? 32) (ser u)) as (k & K1 & K2 & K3).
    destruct (wf_scheme_facts u W) as (Hse & Hcolon & Hselt).
    assert (path_start u <= k) as Hk.
    { apply byte_eqb_nnth in Hcolon. specialize (K3 _ _ Hcolon eq_refl). lia. }
    pose proof (qf_facts_of u W) as (Q1 & Q2 & Q3 & Q4 & Q5).
    assert (path_end u = nlen (ser u)) as Hpe by (unfold path_end; rewrite Eq, Ef; reflexivity).
    assert (ser u' = nfirstn k (ser u)) as Es by (subst u'; rec_simpl; exact K2).
    assert (nlen (ser u') = k) as Hl by (rewrite Es; apply nlen_nfirstn; exact K1).
    assert (agree_pre k (ser u) (ser u')) as Hpre by (rewrite Es; apply agree_pre_trunc).
    assert (same_main u u') as SM by (subst u'; repeat split).
    assert (query_start u' = None) as Eq' by (subst u'; exact Eq).
    assert (fragment_start u' = None) as Ef' by (subst u'; exact Ef).
    assert (path_start u' = path_start u) as Eps' by (subst u'; reflexivity).
    assert (qf_ok u') as Q'.
    { unfold qf_ok, path_end. rewrite Eq', Ef', Eps', Hl. repeat split.
      rewrite (pre_piece k _ _ _ _ Hpre) by lia.
      rewrite Hpe in Q4.
      replace (nfirstn (k - path_start u) (nskipn (path_start u) (ser u)))
        with (nfirstn (k - path_start u) (nfirstn (nlen (ser u) - path_start u) (nskipn (path_start u) (ser u))))
        by (apply nfirstn_nfirstn; lia).
      apply forallb_nfirstn. exact Q4. }
    destruct (tail_step dbg u u' k W SM Hpre Hk ltac:(lia) K1 ltac:(lia) (or_introl (eq_sym Hl)) Q')
      as (W' & SF & _).
    split; [exact W'|]. split; [exact SF|]. split; [exact SM|]. split; [exact Eq'|]. split; [exact Ef'|].
    eexists. split; [apply (path_eval u W)|]. rewrite (path_eval u' W'). f_equal.
    unfold piece. cbn [pidx]. rewrite Eq, Ef, Eq', Ef', Eps', Hl.
    rewrite (pre_piece k _ _ _ _ Hpre) by lia.
    (* rstrip of the path piece = the piece up to k *)
    set (p := nfirstn (nlen (ser u) - path_start u) (nskipn (path_start u) (ser u))).
    assert (p = nskipn (path_start u) (ser u)) as Ep by (apply nfirstn_all; rewrite nlen_nskipn; lia).
    assert (ser u = nfirstn (path_start u) (ser u) ++ p) as Esplit by (rewrite Ep; symmetry; apply nfirstn_nskipn).
    (* compute rstrip on the split serialization *)
    assert (forall a b, (exists c, nnth a (nlen a - 1) = Some c /\ (c =? 32) = false /\ 1 <= nlen a) ->
                        rstrip (fun c => c =? 32) (a ++ b) = a ++ rstrip (fun c => c =? 32) b) as Happ.
    { intros a b (c & Hc1 & Hc2 & Hc3). induction b as [|y b IHb] using rev_ind.
      - rewrite app_nil_r. unfold rstrip at 2. cbn [rev drop_while]. rewrite app_nil_r.
        destruct (rstrip_prefix (fun c => c =? 32) a) as (k' & A1 & A2 & A3).
        specialize (A3 _ _ Hc1 Hc2). rewrite A2. apply nfirstn_all. lia.
      - rewrite app_assoc, !rstrip_snoc. destruct (y =? 32); [exact IHb | rewrite app_assoc; reflexivity]. }
    rewrite Ep.
    assert (rstrip (fun c => c =? 32) (ser u) = nfirstn (path_start u) (ser u) ++ rstrip (fun c => c =? 32) (nskipn (path_start u) (ser u))) as E2.
    { rewrite <- (nfirstn_nskipn (path_start u) (ser u)) at 1. apply Happ.
      exists 58. rewrite nlen_nfirstn by lia. rewrite Eps. replace (scheme_end u + 1 - 1) with (scheme_end u) by lia.
      split; [|split; [reflexivity | lia]].
      rewrite nnth_nfirstn by lia. apply byte_eqb_nnth. exact Hcolon. }
    rewrite K2 in E2.
    assert (nskipn (path_start u) (nfirstn k (ser u)) = rstrip (fun c => c =? 32) (nskipn (path_start u) (ser u))) as E3.
    { rewrite E2. rewrite nskipn_app_ge by (rewrite nlen_nfirstn; lia). rewrite nlen_nfirstn by lia.
      rewrite N.sub_diag. reflexivity. }
    rewrite <- E3. replace k with (path_start u + (k - path_start u)) at 2 by lia.
    rewrite nskipn_nfirstn_comm. reflexivity.
Qed.
