(* Proofs/C06_Path.v - replacing the path of a well-formed record that has an authority: the record
   the path setters build, its invariant and frame; then Url::set_path itself. *)
From RU Require Import Base.Prelude Base.Utf8 Base.Utf8Facts Model.AsciiSet Gen.Tables Model.PercentEncoding
  Model.HostT Model.UrlRecord Model.Parser Model.Setters Model.WF
  Proofs.ListN Proofs.C03_WF Proofs.C06_List Proofs.C06_WFI Proofs.C06_Tail Proofs.C06_Steps Proofs.C06_FragQuery
  Proofs.C06_Suffix Proofs.C06_Front Proofs.C06_PathParser.

Ltac splits := repeat match goal with |- _ /\ _ => split end.

Definition with_path (u : url) (P : list N) : url :=
  let pe := path_end u in
  let b' := path_start u + nlen P in
  mkUrl (nfirstn (path_start u) (ser u) ++ P ++ nskipn pe (ser u))
        (scheme_end u) (username_end u) (host_start u) (host_end u) (hosti u) (port u) (path_start u)
        (option_map (shift pe b') (query_start u)) (option_map (shift pe b') (fragment_start u)).

Section WithPath.
Variables (dbg : bool) (u : url) (P : list N).
Hypothesis W : wf_b u = true.
Hypothesis Ha : has_authority_b u = true.
Hypothesis HP1 : forallb no_qh P = true.
Hypothesis HP2 : P = [] \/ exists r, P = 47 :: r.

Let u' := with_path u P.
Let ps := path_start u.
Let pe := path_end u.
Let b' := path_start u + nlen P.

Lemma wp_bounds : scheme_end u + 3 <= username_end u /\ username_end u <= host_start u /\ host_start u <= host_end u
  /\ host_end u <= ps /\ ps <= pe /\ pe <= nlen (ser u).
Proof.
  pose proof (wf_auth_facts u W Ha) as F. destruct (wf_ps_le_path_end u W).
  pose proof (af_ue F); pose proof (af_hs F); pose proof (af_he F); pose proof (af_ps F). unfold ps, pe. lia.
Qed.

(* the query / fragment offsets relative to the end of the path *)
Lemma wp_offsets :
  (match query_start u with Some q => q = pe /\ byte_eqb (ser u) q 63 = true /\ q < nlen (ser u) | None => True end)
  /\ (match fragment_start u with
      | Some f => pe <= f /\ byte_eqb (ser u) f 35 = true /\ f < nlen (ser u)
                  /\ (query_start u = None -> f = pe)
      | None => True end)
  /\ (query_start u = None -> fragment_start u = None -> pe = nlen (ser u)).
Proof.
  pose proof (wf_qf_facts u W) as QF. pose proof (qf_q QF) as Q1. pose proof (qf_f QF) as Q2. pose proof (qf_qf QF) as Q3.
  unfold pe, path_end. destruct (query_start u) as [q|], (fragment_start u) as [f|]; splits; try tauto; try lia;
    try discriminate; try reflexivity; intros; try discriminate; reflexivity.
Qed.

Lemma wp_ser : ser u' = nfirstn ps (ser u) ++ P ++ nskipn pe (ser u).
Proof. reflexivity. Qed.

Lemma wp_pre : agree_pre ps (ser u) (ser u').
Proof. destruct wp_bounds as (B1 & B2 & B3 & B4 & B5 & B6). rewrite wp_ser. apply agree_pre_nfirstn. lia. Qed.

Lemma wp_suf : agree_suf pe b' (ser u) (ser u').
Proof.
  destruct wp_bounds as (B1 & B2 & B3 & B4 & B5 & B6). unfold agree_suf. rewrite wp_ser, app_assoc.
  rewrite nskipn_app_ge by (rewrite nlen_app, nlen_nfirstn by lia; unfold b', ps; lia).
  rewrite nlen_app, nlen_nfirstn by lia. unfold b', ps. rewrite N.sub_diag. reflexivity.
Qed.

Lemma wp_len : nlen (ser u') = b' + (nlen (ser u) - pe).
Proof.
  destruct wp_bounds as (B1 & B2 & B3 & B4 & B5 & B6).
  rewrite wp_ser, !nlen_app, nlen_nfirstn, nlen_nskipn by lia. unfold b', ps. lia.
Qed.

Lemma wp_byte_hi i c : pe <= i -> byte_eqb (ser u') (shift pe b' i) c = byte_eqb (ser u) i c.
Proof. intros H. apply (suf_byte_eqb pe b'); [apply wp_suf | exact H | reflexivity]. Qed.

Lemma wp_piece_hi i j : pe <= i -> i <= j ->
  nfirstn (shift pe b' j - shift pe b' i) (nskipn (shift pe b' i) (ser u')) = nfirstn (j - i) (nskipn i (ser u)).
Proof.
  intros Hi Hij. replace (shift pe b' j - shift pe b' i) with (j - i) by (unfold shift; lia).
  apply (suf_piece pe b'); [apply wp_suf | exact Hi | reflexivity].
Qed.

Lemma wp_skip_ps : nskipn ps (ser u') = P ++ nskipn pe (ser u).
Proof.
  destruct wp_bounds as (B1 & B2 & B3 & B4 & B5 & B6). rewrite wp_ser.
  rewrite nskipn_app_ge by (rewrite nlen_nfirstn; lia). rewrite nlen_nfirstn by lia. rewrite N.sub_diag. reflexivity.
Qed.

Lemma wp_path_end : path_end u' = b'.
Proof.
  destruct wp_offsets as (O1 & O2 & O3). destruct wp_bounds as (B1 & B2 & B3 & B4 & B5 & B6).
  unfold path_end. change (query_start u') with (option_map (shift pe b') (query_start u)).
  change (fragment_start u') with (option_map (shift pe b') (fragment_start u)).
  destruct (query_start u) as [q|]; cbn [option_map].
  - destruct O1 as (E & _). unfold shift. lia.
  - destruct (fragment_start u) as [f|]; cbn [option_map].
    + destruct O2 as (_ & _ & _ & E). specialize (E eq_refl). unfold shift. lia.
    + rewrite wp_len. specialize (O3 eq_refl eq_refl). lia.
Qed.

(* the byte at path_start of the new serialization is never ':' *)
Lemma wp_byte_ps_not58 : byte_eqb (ser u') ps 58 = false.
Proof.
  destruct wp_offsets as (O1 & O2 & O3). destruct wp_bounds as (B1 & B2 & B3 & B4 & B5 & B6).
  unfold byte_eqb. rewrite <- (N.add_0_r ps). rewrite <- nnth_nskipn, wp_skip_ps.
  destruct HP2 as [E|(r & E)]; rewrite E; [|reflexivity]. cbn [app].
  rewrite nnth_nskipn, N.add_0_r. fold (byte_eqb (ser u) pe 58).
  destruct (query_start u) as [q|] eqn:Eq.
  - destruct O1 as (E1 & E2 & _). rewrite <- E1. apply (byte_eqb_excl _ _ 63 58); [lia | exact E2].
  - destruct (fragment_start u) as [f|] eqn:Ef.
    + destruct O2 as (_ & E2 & _ & E1). rewrite <- (E1 eq_refl). apply (byte_eqb_excl _ _ 35 58); [lia | exact E2].
    + rewrite (O3 eq_refl eq_refl). apply byte_eqb_false_of. intros X. apply nnth_lt in X. lia.
Qed.

Lemma wp_has_authority : has_authority_b u' = true.
Proof.
  destruct wp_bounds as (B1 & B2 & B3 & B4 & B5 & B6).
  rewrite (has_authority_b_pre ps u u' wp_pre) by (try (unfold ps in *; lia); reflexivity). exact Ha.
Qed.

Lemma wp_wf : wf_b u' = true.
Proof.
  destruct wp_offsets as (O1 & O2 & O3). destruct wp_bounds as (B1 & B2 & B3 & B4 & B5 & B6). pose proof wp_len as Hl.
  pose proof W as W0. apply wf_b_iff in W0. rewrite Ha in W0. destruct W0 as (S & (AU & PS) & Q).
  apply wf_b_iff. rewrite wp_has_authority. split; [|split; [split|]].
  - apply (scheme_ok_pre ps u u'); [apply wp_pre | lia | reflexivity | exact S].
  - destruct AU as (A1 & A2 & A3 & A4 & A5 & U & Hn & Po).
    unfold auth_ok. change (scheme_end u') with (scheme_end u). change (username_end u') with (username_end u).
    change (host_start u') with (host_start u). change (host_end u') with (host_end u).
    change (path_start u') with ps. change (hosti u') with (hosti u).
    split; [lia|]. split; [lia|]. split; [lia|]. split; [lia|]. split; [rewrite Hl; unfold b', ps; lia|].
    split; [|split; [exact Hn|]].
    + unfold userinfo_ok. change (scheme_end u') with (scheme_end u). change (username_end u') with (username_end u).
      change (host_start u') with (host_start u).
      destruct U as [(U1 & U2 & U3)|[(U1 & U2 & U3)|(U1 & U2)]].
      * left. splits; try assumption.
        destruct (N.eq_dec (username_end u) ps) as [E|E].
        -- rewrite E. apply wp_byte_ps_not58.
        -- rewrite (pre_byte_eqb ps _ _ _ _ wp_pre) by lia. exact U3.
      * right. left. pose proof (byte_eqb_lt _ _ _ U3).
        rewrite !(pre_byte_eqb ps _ _ _ _ wp_pre) by lia. tauto.
      * right. right. rewrite !(pre_byte_eqb ps _ _ _ _ wp_pre) by lia. tauto.
    + unfold port_ok in *. change (port u') with (port u). change (host_end u') with (host_end u). change (path_start u') with ps.
      destruct (port u) as [p|]; [|exact Po]. destruct Po as (P1 & P2 & P3 & P4).
      rewrite (pre_byte_eqb ps _ _ _ _ wp_pre) by (unfold ps; lia).
      rewrite (pre_piece ps _ _ _ _ wp_pre) by lia. tauto.
  - unfold pathstart_ok. change (path_start u') with ps.
    destruct HP2 as [E|(r & E)].
    + (* empty path: followed by nothing, '?' or '#' *)
      assert (b' = ps) as Eb by (unfold b', ps; rewrite E, nlen_nil; lia).
      destruct (query_start u) as [q|] eqn:Eq.
      * right. right. left. destruct O1 as (E1 & E2 & _).
        replace ps with (shift pe b' q) by (unfold shift; lia). rewrite wp_byte_hi by lia. exact E2.
      * destruct (fragment_start u) as [f|] eqn:Ef.
        -- right. right. right. destruct O2 as (_ & E2 & _ & E1). specialize (E1 eq_refl).
           replace ps with (shift pe b' f) by (unfold shift; lia). rewrite wp_byte_hi by lia. exact E2.
        -- left. rewrite Hl. specialize (O3 eq_refl eq_refl). lia.
    + right. left. unfold byte_eqb. rewrite <- (N.add_0_r ps). rewrite <- nnth_nskipn, wp_skip_ps, E. reflexivity.
  - unfold qf_ok. rewrite wp_path_end. change (path_start u') with ps.
    change (query_start u') with (option_map (shift pe b') (query_start u)).
    change (fragment_start u') with (option_map (shift pe b') (fragment_start u)).
    destruct Q as (Q1 & Q2 & Q3 & Q4 & Q5).
    split; [|split; [|split; [|split]]].
    + destruct (query_start u) as [q|]; [|exact I]. cbn [option_map]. destruct O1 as (E1 & E2 & _).
      split; [unfold shift, b', ps; lia|]. rewrite wp_byte_hi by lia. exact E2.
    + destruct (fragment_start u) as [f|]; [|exact I]. cbn [option_map]. destruct O2 as (E1 & E2 & _).
      split; [unfold shift, b', ps; lia|]. rewrite wp_byte_hi by lia. exact E2.
    + destruct (query_start u) as [q|]; [|exact I]. destruct (fragment_start u) as [f|]; [|exact I].
      cbn [option_map]. destruct O1 as (E1 & _). unfold shift. lia.
    + replace (b' - ps) with (nlen P) by (unfold b', ps; lia). rewrite wp_skip_ps, nfirstn_app_exact. exact HP1.
    + destruct (query_start u) as [q|]; [|exact I]. cbn [option_map]. destruct O1 as (E1 & _ & E3).
      replace (shift pe b' q + 1) with (shift pe b' (q + 1)) by (unfold shift; lia).
      destruct (fragment_start u) as [f|]; cbn [option_map].
      * destruct O2 as (F1 & _ & F3 & _). rewrite wp_piece_hi by lia. exact Q5.
      * rewrite (suf_skip pe b' _ _ (q + 1) _ wp_suf) by (try lia; reflexivity). exact Q5.
Qed.

Lemma wp_front : same_front dbg u u'.
Proof.
  destruct wp_bounds as (B1 & B2 & B3 & B4 & B5 & B6).
  split; [|split; [|split; [|split]]].
  - apply (scheme_same u u' ps W wp_wf wp_pre); [reflexivity | lia].
  - apply (username_same dbg u u' ps W wp_wf Ha wp_has_authority wp_pre); [reflexivity | reflexivity | lia].
  - apply (password_same dbg u u' ps W wp_wf Ha wp_has_authority wp_pre); [reflexivity | reflexivity | lia].
  - rewrite (host_str_eval u' wp_wf), (host_str_eval u W). change (has_host u') with (has_host u).
    destruct (has_host u); [|reflexivity]. do 2 f_equal. unfold piece. cbn [pidx].
    change (host_start u') with (host_start u). change (host_end u') with (host_end u).
    apply (pre_piece ps); [apply wp_pre | lia].
  - reflexivity.
Qed.

Lemma wp_query : query dbg u' = query dbg u.
Proof.
  destruct wp_offsets as (O1 & O2 & O3). destruct wp_bounds as (B1 & B2 & B3 & B4 & B5 & B6).
  rewrite (query_eval dbg u' wp_wf), (query_eval dbg u W).
  change (query_start u') with (option_map (shift pe b') (query_start u)).
  destruct (query_start u) as [q|] eqn:Eq; [|reflexivity]. cbn [option_map]. do 2 f_equal.
  unfold piece. cbn [pidx].
  change (query_start u') with (option_map (shift pe b') (query_start u)).
  change (fragment_start u') with (option_map (shift pe b') (fragment_start u)). rewrite Eq. cbn [option_map].
  destruct O1 as (E1 & _ & E3).
  replace (shift pe b' q + 1) with (shift pe b' (q + 1)) by (unfold shift; lia).
  pose proof (qf_qf (wf_qf_facts u W)) as Q3. rewrite Eq in Q3.
  destruct (fragment_start u) as [f|]; cbn [option_map].
  - destruct O2 as (F1 & _ & F3 & _). apply wp_piece_hi; lia.
  - rewrite wp_len. replace (b' + (nlen (ser u) - pe)) with (shift pe b' (nlen (ser u))) by (unfold shift; lia).
    apply wp_piece_hi; lia.
Qed.

Lemma wp_fragment : fragment dbg u' = fragment dbg u.
Proof.
  destruct wp_offsets as (O1 & O2 & O3). destruct wp_bounds as (B1 & B2 & B3 & B4 & B5 & B6).
  rewrite (fragment_eval dbg u' wp_wf), (fragment_eval dbg u W).
  change (fragment_start u') with (option_map (shift pe b') (fragment_start u)).
  destruct (fragment_start u) as [f|] eqn:Ef; [|reflexivity]. cbn [option_map]. do 2 f_equal.
  unfold piece. cbn [pidx].
  change (fragment_start u') with (option_map (shift pe b') (fragment_start u)). rewrite Ef. cbn [option_map].
  destruct O2 as (F1 & _ & F3 & _).
  replace (shift pe b' f + 1) with (shift pe b' (f + 1)) by (unfold shift; lia).
  rewrite wp_len. replace (b' + (nlen (ser u) - pe)) with (shift pe b' (nlen (ser u))) by (unfold shift; lia).
  apply wp_piece_hi; lia.
Qed.

Lemma wp_path : path u' = Some P.
Proof.
  rewrite (path_eval u' wp_wf). f_equal. unfold piece.
  change (pidx u' AfterPath) with (path_end u'). rewrite wp_path_end. cbn [pidx]. change (path_start u') with ps.
  replace (b' - ps) with (nlen P) by (unfold b', ps; lia). rewrite wp_skip_ps. apply nfirstn_app_exact.
Qed.

Lemma wp_host_text_ok : host_text_ok u -> host_text_ok u'.
Proof.
  intros HT Hh. change (has_host u') with (has_host u) in Hh. destruct (HT Hh) as (T1 & T2 & T3).
  destruct wp_bounds as (B1 & B2 & B3 & B4 & B5 & B6).
  change (host_start u') with (host_start u). change (host_end u') with (host_end u).
  rewrite (pre_byte_eqb ps _ _ _ 58 wp_pre), (pre_byte_eqb ps _ _ _ 64 wp_pre) by lia. tauto.
Qed.

End WithPath.

(* ---------- what parse_path_start (setter context) appends ---------- *)
Definition new_path_ok (P : list N) : Prop := forallb no_qh P = true /\ (P = [] \/ exists r, P = 47 :: r).

Lemma loop_skip_tnl dbg ctx st ps l : forall ser seg hh,
  parse_path_loop dbg ctx st ps l ser seg [] hh = parse_path_loop dbg ctx st ps (drop_while is_tnl l) ser seg [] hh.
Proof.
  induction l as [|c r IH]; intros ser seg hh; [reflexivity|].
  cbn [drop_while]. destruct (is_tnl c) eqn:E; [|reflexivity].
  cbn [parse_path_loop]. rewrite E. cbn [push_pending]. apply IH.
Qed.

Section ParsePathStart.
Variables (dbg : bool) (st : scheme_type) (s0 : list N) (ps : N).
Hypothesis Hps : nlen s0 = ps.

Lemma split_at_ps s' : nfirstn ps s' = s0 -> s' = s0 ++ nskipn ps s'.
Proof. intros H. rewrite <- H. symmetry. apply nfirstn_nskipn. Qed.

(* the loop started behind "<s0>/" in a non-file scheme *)
Lemma loop_from_slash l pending seg hh s' hh' rem :
  parse_path_loop dbg CSetter st ps l (s0 ++ [47]) seg pending hh = POk (s', hh', rem) ->
  st_is_file st = false -> ps + 1 <= seg -> usv_list l -> usv_list pending ->
  exists P, s' = s0 ++ P /\ new_path_ok P.
Proof.
  intros H Hf Hseg Hl Hp.
  assert (nlen (s0 ++ [47]) = ps + 1) as L by (rewrite nlen_app, Hps; reflexivity).
  assert (PInv ps (ps + 1) (s0 ++ [47]) (s0 ++ [47])) as I.
  { split; [apply nfirstn_all; lia|]. rewrite <- Hps, nskipn_app_exact. reflexivity. }
  destruct (pinv_loop dbg ps (ps + 1) (s0 ++ [47]) ltac:(lia) ltac:(lia) L CSetter st l eq_refl
              ltac:(intros X; congruence) _ _ _ _ _ _ _ H I Hseg Hl Hp) as (x & Ex & Ix).
  unfold file_path_fixup in Ex. rewrite Hf in Ex. subst x. destruct Ix as [I1 I2].
  assert (nfirstn ps s' = s0) as E0.
  { rewrite <- (nfirstn_nfirstn ps (ps + 1) s') by lia. rewrite I1. rewrite <- Hps. apply nfirstn_app_exact. }
  exists (nskipn ps s'). split; [apply split_at_ps; exact E0|]. split; [exact I2|]. right.
  assert (nnth s' ps = Some 47) as E1.
  { rewrite <- (nnth_nfirstn s' (ps + 1) ps) by lia. rewrite I1. rewrite nnth_app_ge by lia. rewrite Hps, N.sub_diag. reflexivity. }
  rewrite (nskipn_cons_of_nnth _ _ _ E1). eexists. reflexivity.
Qed.

(* the loop in the file scheme: the final fix-up makes the path start with exactly one '/' *)
Lemma loop_file l ser seg hh s' hh' rem :
  parse_path_loop dbg CSetter st ps l ser seg [] hh = POk (s', hh', rem) ->
  st_is_file st = true -> nfirstn ps ser = s0 -> forallb no_qh (nskipn ps ser) = true -> ps <= seg -> usv_list l ->
  exists P, s' = s0 ++ P /\ new_path_ok P.
Proof.
  intros H Hf E0 Eq Hseg Hl.
  assert (PInv ps ps s0 ser) as I by (split; assumption).
  destruct (pinv_loop dbg ps ps s0 ltac:(lia) ltac:(lia) Hps CSetter st l eq_refl
              ltac:(intros _; reflexivity) _ _ _ _ _ _ _ H I Hseg Hl ltac:(constructor)) as (x & Ex & Ix).
  pose proof (pinv_len ps ps s0 ltac:(lia) ltac:(lia) Hps x Ix) as Lx. destruct Ix as [I1 I2].
  unfold file_path_fixup in Ex. rewrite Hf in Ex. rewrite I1 in Ex.
  exists ([47] ++ drop_while is_slash (nskipn ps x)). split; [exact Ex|]. split.
  - cbn [app forallb]. apply drop_while_forallb. exact I2.
  - right. eexists. reflexivity.
Qed.

Theorem parse_path_start_setter p s1 hh rem :
  parse_path_start dbg CSetter st true s0 p = POk (s1, hh, rem) -> usv_list p ->
  (st_is_special st = true -> st_is_file st = false -> ends_with_byte 47 s0 = false) ->
  exists P, s1 = s0 ++ P /\ new_path_ok P.
Proof.
  intros H Hp Hx. unfold parse_path_start in H. rewrite Hps in H.
  unfold inp_split_first, inp_next in H.
  pose proof (drop_while_usv is_tnl p Hp) as Hd.
  assert (nlen (s0 ++ [47]) = ps + 1) as L by (rewrite nlen_app, Hps; reflexivity).
  assert (nfirstn ps (s0 ++ [47]) = s0) as Fp by (rewrite <- Hps; apply nfirstn_app_exact).
  assert (forallb no_qh (nskipn ps (s0 ++ [47])) = true) as Fq by (rewrite <- Hps, nskipn_app_exact; reflexivity).
  assert (nfirstn ps s0 = s0) as Fp0 by (apply nfirstn_all; lia).
  assert (forallb no_qh (nskipn ps s0) = true) as Fq0 by (rewrite nskipn_all by lia; reflexivity).
  destruct (st_is_special st) eqn:Esp.
  - destruct (st_is_file st) eqn:Ef.
    + (* file: every branch ends in the fix-up *)
      unfold parse_path in H.
      destruct (drop_while is_tnl p) as [|c r] eqn:Ed.
      * destruct (negb (ends_with_byte 47 s0)).
        -- eapply loop_file; [exact H | exact Ef | exact Fp | exact Fq | lia | exact Hp].
        -- eapply loop_file; [exact H | exact Ef | exact Fp0 | exact Fq0 | lia | exact Hp].
      * pose proof (Forall_inv Hd) as Hc; pose proof (Forall_inv_tail Hd : usv_list r) as Hr.
        destruct (negb (ends_with_byte 47 s0)).
        -- destruct (is_slash_or_bslash c).
           ++ eapply loop_file; [exact H | exact Ef | exact Fp | exact Fq | lia | exact Hr].
           ++ eapply loop_file; [exact H | exact Ef | exact Fp | exact Fq | lia | exact Hp].
        -- eapply loop_file; [exact H | exact Ef | exact Fp0 | exact Fq0 | lia | exact Hp].
    + rewrite (Hx eq_refl eq_refl) in H. cbn [negb] in H. unfold parse_path in H. rewrite L in H.
      destruct (drop_while is_tnl p) as [|c r] eqn:Ed.
      * eapply loop_from_slash; [exact H | exact Ef | lia | exact Hp | constructor].
      * pose proof (Forall_inv Hd) as Hc; pose proof (Forall_inv_tail Hd : usv_list r) as Hr. destruct (is_slash_or_bslash c).
        -- eapply loop_from_slash; [exact H | exact Ef | lia | exact Hr | constructor].
        -- eapply loop_from_slash; [exact H | exact Ef | lia | exact Hp | constructor].
  - assert (st_is_file st = false) as Ef by (destruct st; try discriminate; reflexivity).
    unfold parse_path in H.
    destruct (drop_while is_tnl p) as [|c r] eqn:Ed.
    + (* no character at all: nothing is written *)
      rewrite loop_skip_tnl, Ed in H. cbn [parse_path_loop push_pending] in H.
      unfold finish_segment in H. rewrite slice_o_some in H by lia. cbn [of_option pbind] in H.
      rewrite N.sub_diag in H. cbn [nfirstn N.to_nat firstn is_double_dot is_single_dot] in H.
      rewrite Ef in H. cbn [andb pbind] in H. unfold file_path_fixup in H. rewrite Ef in H.
      inversion H as [[E1 E2 E3]]. exists []. split; [symmetry; apply app_nil_r|]. split; [reflexivity | left; reflexivity].
    + pose proof (Forall_inv Hd) as Hc; pose proof (Forall_inv_tail Hd : usv_list r) as Hr.
      destruct ((c =? 63) || (c =? 35)).
      { inversion H as [[E1 E2 E3]]. exists []. split; [symmetry; apply app_nil_r|]. split; [reflexivity | left; reflexivity]. }
      destruct (c =? 47) eqn:E47.
      * apply N.eqb_eq in E47. rewrite E47 in *.
        rewrite loop_skip_tnl, Ed in H. cbn [parse_path_loop] in H.
        change (is_tnl 47) with false in H. cbn [ctx_eqb negb andb push_pending] in H.
        rewrite N.eqb_refl in H. cbn [orb] in H.
        unfold finish_segment in H. rewrite L in H. rewrite ?Hps in H.
        replace (ps + 1 - 1) with ps in H by lia.
        rewrite slice_o_some in H by lia. cbn [of_option pbind] in H.
        rewrite N.sub_diag in H. cbn [nfirstn N.to_nat firstn is_double_dot is_single_dot] in H.
        rewrite Ef in H. cbn [andb pbind] in H. rewrite L in H.
        eapply loop_from_slash; [exact H | exact Ef | lia | exact Hr | constructor].
      * rewrite L in H. eapply loop_from_slash; [exact H | exact Ef | lia | exact Hp | constructor].
Qed.

End ParsePathStart.

(* ---------- Url::set_path ---------- *)
(* the text in front of the path of a special, non-file URL does not end in '/' (host text and port
   digits never do; wf_b itself does not say so) *)
Definition auth_end_ok (u : url) : Prop :=
  let st := scheme_type_of (nfirstn (scheme_end u) (ser u)) in
  st_is_special st = true -> st_is_file st = false ->
  ends_with_byte 47 (nfirstn (path_start u) (ser u)) = false.

Lemma take_after_path_eval u : wf_b u = true ->
  take_after_path u = Some (set_ser u (nfirstn (path_end u) (ser u)), nskipn (path_end u) (ser u)).
Proof.
  intros W. pose proof (wf_qf_facts u W) as QF. pose proof (qf_q QF) as Q1. pose proof (qf_f QF) as Q2.
  unfold take_after_path, path_end, u_slice_from, truncate.
  destruct (query_start u) as [q|] eqn:Eq.
  - rewrite slice_from_o_some by lia. reflexivity.
  - destruct (fragment_start u) as [f|] eqn:Ef.
    + rewrite slice_from_o_some by lia. reflexivity.
    + rewrite nfirstn_all, nskipn_all by lia. destruct u; reflexivity.
Qed.

(* evaluation: for a non-opaque URL the result is the record with_path builds from the text
   parse_path_start appends *)
Lemma set_path_eval dbg u p u' : wf_b u = true -> byte_eqb (ser u) (scheme_end u + 1) 47 = true ->
  usv_list p -> auth_end_ok u -> set_path dbg u p = Some u' ->
  exists P hh rem, u' = with_path u P /\ new_path_ok P
    /\ parse_path_start dbg CSetter (scheme_type_of (nfirstn (scheme_end u) (ser u))) true
         (nfirstn (path_start u) (ser u)) p
       = POk (nfirstn (path_start u) (ser u) ++ P, hh, rem).
Proof.
  intros W Hsl Hp Hx H. unfold set_path in H. rewrite (take_after_path_eval u W) in H. cbn [bindo] in H.
  destruct (wf_ps_le_path_end u W) as [B5 B6]. pose proof (wf_se_lt_ps u W) as B0.
  destruct (wf_scheme_facts u W) as (Hse & Hc & Hlt).
  set (pe := path_end u) in *. set (ps := path_start u) in *.
  assert (nlen (nfirstn pe (ser u)) = pe) as Lpe by (apply nlen_nfirstn; exact B6).
  (* cannot_be_a_base of the truncated record *)
  assert (cannot_be_a_base (set_ser u (nfirstn pe (ser u))) = Some false) as Ecbb.
  { unfold cannot_be_a_base, u_slice_from. cbn [ser set_ser scheme_end]. rewrite slice_from_o_some by lia. cbn [bindo].
    pose proof Hsl as C1. apply byte_eqb_nnth in C1.
    assert (nnth (nfirstn pe (ser u)) (scheme_end u + 1) = Some 47) as C1'.
    { destruct (N.lt_ge_cases (scheme_end u + 1) pe) as [Hlt1|Hge1].
      - rewrite nnth_nfirstn by lia. exact C1.
      - (* the path is empty: the byte at scheme_end + 1 would be '?' / '#' *)
        exfalso. assert (pe = scheme_end u + 1) as Epe by lia.
        pose proof (wf_qf_facts u W) as QF. pose proof (qf_q QF) as Q1. pose proof (qf_f QF) as Q2.
        pose proof (nnth_lt _ _ _ C1). unfold pe, path_end in Epe.
        destruct (query_start u) as [q|].
        + destruct Q1 as (_ & Qb & _). apply byte_eqb_nnth in Qb. rewrite Epe in Qb. congruence.
        + destruct (fragment_start u) as [f|]; [|lia].
          destruct Q2 as (_ & Qb & _). apply byte_eqb_nnth in Qb. rewrite Epe in Qb. congruence. }
    rewrite (nskipn_cons_of_nnth _ _ _ C1'). reflexivity. }
  rewrite Ecbb in H. cbn [bindo] in H.
  assert (u_scheme_type (set_ser u (nfirstn pe (ser u))) = Some (scheme_type_of (nfirstn (scheme_end u) (ser u)))) as Est.
  { unfold u_scheme_type, scheme, u_slice_to. cbn [ser set_ser scheme_end]. rewrite slice_to_o_some by lia. cbn [bindo].
    rewrite nfirstn_nfirstn by lia. reflexivity. }
  rewrite Est in H. cbn [bindo] in H.
  cbn [ser set_ser path_start] in H. unfold truncate in H. fold ps in H.
  rewrite nfirstn_nfirstn in H by lia.
  set (st := scheme_type_of (nfirstn (scheme_end u) (ser u))) in *.
  set (s0 := nfirstn ps (ser u)) in *.
  assert (nlen s0 = ps) as Ls0 by (apply nlen_nfirstn; lia).
  destruct (parse_path_start dbg CSetter st true s0 p) as [[[s1 hh] rem]| |] eqn:Epp; cbn [unpres bindo] in H; try discriminate.
  destruct (parse_path_start_setter dbg st s0 ps Ls0 p s1 hh rem Epp Hp Hx) as (P & Es1 & HP1 & HP2).
  (* restore_after_path *)
  unfold restore_after_path in H. cbn [ser set_ser query_start fragment_start] in H. rewrite Lpe in H.
  assert (match query_start u with Some i => pe <= i | None => True end) as Gq.
  { unfold pe, path_end. destruct (query_start u); [lia | exact I]. }
  assert (match fragment_start u with Some i => pe <= i | None => True end) as Gf.
  { pose proof (qf_qf (wf_qf_facts u W)) as Q3. unfold pe, path_end.
    destruct (query_start u), (fragment_start u); try exact I; lia. }
  rewrite !adjust_opt_ok in H by assumption. cbn [bindo] in H.
  exists P, hh, rem. split; [|split; [split; assumption|rewrite <- Es1; reflexivity]].
  inversion H. unfold with_path. fold pe ps. rewrite Es1. rewrite nlen_app, Ls0. rewrite <- app_assoc. reflexivity.
Qed.

Theorem set_path_ok dbg u p u' : wf_b u = true -> host_text_ok u -> has_authority_b u = true ->
  usv_list p -> auth_end_ok u -> set_path dbg u p = Some u' ->
  wf_b u' = true /\ host_text_ok u' /\ same_front dbg u u'
  /\ query dbg u' = query dbg u /\ fragment dbg u' = fragment dbg u
  /\ exists P, path u' = Some P /\ new_path_ok P
     /\ exists hh rem, parse_path_start dbg CSetter (scheme_type_of (nfirstn (scheme_end u) (ser u))) true
                         (nfirstn (path_start u) (ser u)) p
                       = POk (nfirstn (path_start u) (ser u) ++ P, hh, rem).
Proof.
  intros W HT Ha Hp Hx H.
  assert (byte_eqb (ser u) (scheme_end u + 1) 47 = true) as Hsl.
  { pose proof Ha as Ha2. unfold has_authority_b in Ha2. apply css_bytes in Ha2. destruct Ha2 as (_ & C1 & _).
    apply byte_eqb_true_iff. exact C1. }
  destruct (set_path_eval dbg u p u' W Hsl Hp Hx H) as (P & hh & rem & -> & (HP1 & HP2) & Epp).
  splits.
  - apply wp_wf; assumption.
  - apply wp_host_text_ok; assumption.
  - apply wp_front; assumption.
  - apply wp_query; assumption.
  - apply wp_fragment; assumption.
  - exists P. split; [apply wp_path; assumption|]. split; [split; assumption|].
    exists hh, rem. exact Epp.
Qed.

(* F-C02-8: set_path("//x") on an authority-less URL - outside the premise has_authority_b u = true *)
Definition sp_w1 : url := mkUrl [97; 58; 47; 112] 1 2 2 2 HI_None None 2 None None.
Lemma set_path_noauth_refuted :
  wf_b sp_w1 = true /\ has_authority_b sp_w1 = false
  /\ exists u', set_path true sp_w1 [47; 47; 120] = Some u' /\ ser u' = [97; 58; 47; 47; 120] /\ wf_b u' = false.
Proof. split; [vm_compute; reflexivity|]. split; [vm_compute; reflexivity|]. eexists. split; [vm_compute; reflexivity|]. split; vm_compute; reflexivity. Qed.

(* F-C02-3: set_path("?") on the opaque-path URL "a:b" writes the '?' unencoded: "a:?" with the '?'
   inside the path - outside wf_b (and outside has_authority_b u = true) *)
Definition sp_w2 : url := mkUrl [97; 58; 98] 1 2 2 2 HI_None None 2 None None.
Lemma set_path_opaque_refuted :
  wf_b sp_w2 = true /\ has_authority_b sp_w2 = false
  /\ exists u', set_path true sp_w2 [63] = Some u' /\ ser u' = [97; 58; 63] /\ query_start u' = None /\ wf_b u' = false.
Proof.
  split; [vm_compute; reflexivity|]. split; [vm_compute; reflexivity|]. eexists. split; [vm_compute; reflexivity|].
  split; [|split]; vm_compute; reflexivity.
Qed.
