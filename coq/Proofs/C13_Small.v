(* Proofs/C13_Small.v - up to 3855 scalars the class Known_C13 is empty: along the encoder's walk
   di + delta <= (m - 128) * (h + 1) + pos <= 1113983 * 3855 + 3854 < 2^32, so the walk w_outer succeeds
   and decode (encode s) = s without any exclusion. *)
From RU Require Import Base.Prelude Base.Utf8 Base.U32_c13 Gen.Tables Model.Punycode Spec.Rfc3492
  Proofs.C13_Enc Proofs.C13_Dec Proofs.C13_Known Proofs.C13_Rt Proofs.C13_DecB Proofs.C13_RtB Proofs.C13_DecEnc.

Lemma w_inner_small L l : forall m d h di pos,
  128 <= m <= 1114111 -> L <= 3855 ->
  di + d <= (m - 128) * (h + 1) + pos ->
  pos + cnt (fun c => c <? m) l <= h ->
  h + cnt (fun c => c =? m) l <= L ->
  exists d' h' di', w_inner l m d h di pos = Some (d', h', di')
    /\ di' + d' <= (m - 128) * (h' + 1) + h' /\ h' = h + cnt (fun c => c =? m) l.
Proof.
  induction l as [|c l IH]; intros m d h di pos Hm HL HJ HP HQ.
  - cbn [w_inner]. cbn [cnt] in *. exists d, h, di. split; [reflexivity|]. split; lia.
  - rewrite w_inner_cons. cbn [cnt] in HP, HQ.
    destruct (c =? m) eqn:Ecm.
    + apply N.eqb_eq in Ecm. subst c. replace (m <? m) with false in * by lia.
      assert (HA : (m - 128) * (h + 1) <= 1113983 * 3855) by (apply N.mul_le_mono; lia).
      replace (di + d <=? U32_MAX) with true by (unfold U32_MAX; lia).
      pose proof (N.le_0_l ((m - 128) * (h + 1 + 1))) as H0.
      destruct (IH m 0 (h + 1) (pos + 1) (pos + 1) Hm HL) as [d' [h' [di' [E1 [E2 E3]]]]]; [lia|lia|lia|].
      exists d', h', di'. split; [exact E1|]. split; [exact E2|]. cbn [cnt]. rewrite N.eqb_refl. lia.
    + destruct (c <? m) eqn:Elt.
      * destruct (IH m (d + 1) h di (pos + 1) Hm HL) as [d' [h' [di' [E1 [E2 E3]]]]]; [lia|lia|lia|].
        exists d', h', di'. split; [exact E1|]. split; [exact E2|]. cbn [cnt]. rewrite Ecm. lia.
      * destruct (IH m d h di pos Hm HL) as [d' [h' [di' [E1 [E2 E3]]]]]; [lia|lia|lia|].
        exists d', h', di'. split; [exact E1|]. split; [exact E2|]. cbn [cnt]. rewrite Ecm. lia.
Qed.

Lemma cnt_lt_min l n m : n <= m -> (forall c, In c l -> n <= c -> m <= c) ->
  cnt (fun c => c <? n) l = cnt (fun c => c <? m) l.
Proof.
  intros Hnm. induction l as [|c r IH]; intros H; [reflexivity|]. cbn [cnt].
  rewrite IH by (intros x Hx; apply H; right; exact Hx).
  pose proof (H c (or_introl eq_refl)) as Hc.
  destruct (c <? n) eqn:E1; destruct (c <? m) eqn:E2; try reflexivity; lia.
Qed.

Lemma w_outer_small input (HL : len input <= 3855) (Husv : Forall (fun c => c <= 1114111) input) fuel :
  forall n d h di, 128 <= n -> h = cnt (fun c => c <? n) input -> di + d <= (n - 128) * (h + 1) ->
  w_outer fuel input (len input) n d h di = true.
Proof.
  induction fuel as [|f IH]; intros n d h di Hn Hh HJ.
  - cbn [w_outer]. destruct (h <? len input); reflexivity.
  - rewrite w_outer_S. destruct (h <? len input) eqn:E; [|reflexivity].
    destruct (min_exists input n h Hh ltac:(lia)) as [m Em]. rewrite Em.
    apply s_min_ge_some in Em. destruct Em as [Hin [Hle Hmin]].
    assert (Hm : m <= 1114111) by (rewrite Forall_forall in Husv; exact (Husv m Hin)).
    pose proof (cnt_lt_step input n m Hle Hmin) as Hstep.
    pose proof (cnt_le (fun c => c <? m + 1) input) as Hcl.
    assert (Hmul : (m - 128) * (h + 1) = (n - 128) * (h + 1) + (m - n) * (h + 1)).
    { rewrite <- N.mul_add_distr_r. f_equal. lia. }
    destruct (w_inner_small (len input) input m (d + (m - n) * (h + 1)) h di 0)
      as [d' [h' [di' [E1 [E2 E3]]]]]; [lia|exact HL|lia| |lia|].
    { rewrite <- (cnt_lt_min input n m Hle Hmin). lia. }
    rewrite E1. apply IH; [lia|lia|].
    replace (m + 1 - 128) with ((m - 128) + 1) by lia. rewrite N.mul_add_distr_r. lia.
Qed.

(* no exclusion up to 3855 scalars (the witness of F-C13-1 has 3857) *)
Theorem dec_enc_small_3855 : forall cfg s p, usv_list s -> (length s <= 3855)%nat ->
  encode cfg s = Ok p -> decode cfg p = Ok s.
Proof.
  intros cfg s p Hu Hl He. apply (dec_enc_of_walk cfg s p Hu He).
  apply w_outer_small.
  - unfold len. lia.
  - unfold usv_list in Hu. eapply Forall_impl; [|exact Hu]. exact usv_le.
  - unfold s_initial_n. lia.
  - reflexivity.
  - rewrite N.add_0_l. apply N.le_0_l.
Qed.

Theorem dec_enc_small : forall cfg s p, usv_list s -> (length s <= 3854)%nat ->
  encode cfg s = Ok p -> decode cfg p = Ok s.
Proof. intros cfg s p Hu Hl. apply dec_enc_small_3855; [exact Hu|lia]. Qed.
