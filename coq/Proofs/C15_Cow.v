(* Proofs/C15_Cow.v - when decode() hands back a borrow of its input. *)
From RU Require Import Base.Prelude Base.Utf8 Base.Utf8Facts Base.Outcome_c15 Model.AsciiSet Gen.Tables
  Model.PercentEncoding Model.FormUrlencoded Proofs.C14_Set Proofs.C14_Enc Proofs.C14_Views Proofs.C15_Table
  Proofs.C15_Parse.

Lemma map_p2s_id x : Forall (fun b => b <> 43) x -> map plus_to_space x = x.
Proof.
  induction x as [|b r IH]; intros H; [reflexivity|].
  inversion H as [|? ? Hb Hr]; subst. cbn [map]. rewrite plus_to_space_eq.
  replace (b =? 43) with false by lia. f_equal. apply IH. exact Hr.
Qed.

(* decode(input) is Cow::Borrowed exactly when nothing had to change: no '+', no decodable escape,
   valid UTF-8; the value is then the input itself *)
Theorem fu_decode_borrow_iff x :
  fst (fu_decode x) = BorrowedInput
  <-> (Forall (fun b => b <> 43) x /\ decode x = x /\ utf8_valid x = true).
Proof.
  unfold fu_decode.
  pose proof (replace_plus_borrow_iff x) as Hrp. pose proof (replace_plus_value x) as Hv.
  destruct (replace_plus x) as [k r]. cbn [fst snd] in *.
  pose proof (pd_cow_borrow_iff r) as Hpd. unfold pd_cow in *.
  destruct (if_any r) as [v|]; cbn [fst] in Hpd.
  - cbn [decode_utf8_lossy fst]. split; [discriminate|]. intros (Hp & Hd & _). exfalso.
    rewrite (map_p2s_id x Hp) in Hv. subst r. apply Hpd in Hd. discriminate.
  - assert (Hd : decode r = r) by (apply Hpd; reflexivity).
    destruct k; unfold decode_utf8_lossy; cbn [fst snd].
    + assert (Hp : Forall (fun b => b <> 43) x) by (apply Hrp; reflexivity).
      rewrite (map_p2s_id x Hp) in Hv. subst r.
      destruct (utf8_valid x); split; try tauto; try discriminate.
      intros (_ & _ & H). discriminate.
    + split; [destruct (utf8_valid r); discriminate|]. intros (Hp & _). apply Hrp in Hp. discriminate.
    + split; [discriminate|]. intros (Hp & _). apply Hrp in Hp. discriminate.
Qed.

Theorem fu_decode_borrowed_value x : fst (fu_decode x) = BorrowedInput -> utf8_strict x = inl (snd (fu_decode x)).
Proof.
  intros H. pose proof H as H0. apply fu_decode_borrow_iff in H. destruct H as (Hp & Hd & Hu).
  rewrite fu_decode_value. unfold fdec. rewrite (map_p2s_id x Hp), Hd.
  unfold utf8_valid, utf8_strict, utf8_lossy in *.
  (* strict decoding succeeds, so there is no invalid item and lossy = strict *)
  assert (G : forall its acc upto l, strict_of_items acc upto its = inl l ->
              l = rev acc ++ map (fun it => match it with UCp c _ => c | UBad _ _ => REPLACEMENT end) its).
  { induction its as [|it r IH]; intros acc upto l Hs; cbn [strict_of_items map] in *.
    - inversion Hs. rewrite app_nil_r. reflexivity.
    - destruct it as [c n|n tr]; [|discriminate]. rewrite (IH _ _ _ Hs). cbn [rev]. rewrite <- app_assoc. reflexivity. }
  destruct (strict_of_items [] 0 (utf8_scan x)) as [l|e] eqn:E; [|discriminate].
  rewrite (G _ _ _ _ E). reflexivity.
Qed.
