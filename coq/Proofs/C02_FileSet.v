(* Proofs/C02_FileSet.v - L2 on canonical file records (FileCanon) for the operations that only replace query and
   fragment: Url::set_fragment, Url::set_query, a Url::query_pairs_mut session, and joins with an empty,
   fragment-only or query-led reference (tail_ref) against a file base (the three base arms of parse_file that do
   not touch the path).  All through the frame  pre [?q] [#f]  (qf_url) of C02_SetQF / C02_JoinTail / C02_Form. *)
From RU Require Import Proofs.C15_Ser.
From Coq Require Import String.
From RU Require Import Base.Prelude Base.Utf8 Base.Utf8Facts Base.Outcome_c15 Model.AsciiSet Gen.Tables
  Model.PercentEncoding Model.HostT Model.UrlRecord Model.Parser Model.Setters Model.WF Model.FormUrlencoded
  Model.QueryPairs
  Proofs.ListN Proofs.C14_Set Proofs.C14_Enc Proofs.C14_Views Proofs.C02_Enc Proofs.C02_Parts
  Proofs.C02_Opaque Proofs.C02_Path Proofs.C02_PathL1 Proofs.C02_Reach Proofs.C02_AuthParts
  Proofs.C02_Auth Proofs.C02_AuthWf Proofs.C02_PathSp Proofs.C02_AuthSp Proofs.C02_AuthMain Proofs.C02_SetQF Proofs.C02_Canon
  Proofs.C02_JoinTail Proofs.C02_JoinAbs Proofs.C02_JoinPath Proofs.C02_Ovr Proofs.C02_Form
  Proofs.C02_File Proofs.C02_FileL1 Proofs.C02_FileCanon Proofs.C02_FileParse.
Open Scope N_scope.
Open Scope list_scope.

Section FileSet.
Variable dbg : bool.
Variable hp hpo : list N -> result host.
Variable hd : host -> list N.
Hypothesis HRT : HostRT hp hpo hd.

Notation FileCanon := (FileCanon hp hd).
Notation file_ok := (file_ok hp hd).
Notation file_curl := (file_curl hd).
Notation file_pre := (file_pre hd).
Notation file_front := (file_front hd).

(* query and fragment of a canonical file record can be replaced *)
Lemma file_repl ho segs last q0 f0 q f : file_ok ho segs last q0 f0 ->
  opt_clean T_SPECIAL_QUERY q -> opt_clean T_FRAGMENT f ->
  opt_le (qf_qs (nlen (file_pre ho (path_text segs last))) q) U32_MAX_P ->
  opt_le (qf_fs (nlen (file_pre ho (path_text segs last))) q f) U32_MAX_P ->
  FileCanon (file_curl ho (path_text segs last) q f).
Proof.
  intros K Cq Cf Bq Bf. destruct K as [Kh Ksegs Klast Kfirst _ _ Kb1 _ _].
  apply FileCanon_intro. constructor; assumption.
Qed.

Lemma file_repl_len ho segs last q0 f0 q f : file_ok ho segs last q0 f0 ->
  opt_clean T_SPECIAL_QUERY q -> opt_clean T_FRAGMENT f ->
  nlen (ser (file_curl ho (path_text segs last) q f)) <= U32_MAX_P ->
  FileCanon (file_curl ho (path_text segs last) q f).
Proof.
  intros K Cq Cf Hb. unfold C02_File.file_curl, qf_url in Hb. cbn [ser] in Hb.
  destruct (qf_bounds _ _ _ _ Hb) as [Bq Bf]. exact (file_repl ho segs last q0 f0 q f K Cq Cf Bq Bf).
Qed.

Lemma file_pre_sch ho T : nfirstn 4 (file_pre ho T) = s_file /\ 4 <= nlen (file_pre ho T).
Proof.
  unfold C02_File.file_pre, C02_File.file_front, s_file_css, s_css. rewrite <- !app_assoc. split.
  - change 4 with (nlen s_file). apply nfirstn_app_len.
  - rewrite nlen_app. change (nlen s_file) with 4. lia.
Qed.

Lemma file_curl_cbb ho T q f : cannot_be_a_base (file_curl ho T q f) = Some false.
Proof.
  unfold cannot_be_a_base, u_slice_from, C02_File.file_curl, qf_url. cbn [ser scheme_end].
  unfold C02_File.file_pre, C02_File.file_front, s_file_css, s_css. rewrite <- !app_assoc.
  change (s_file ++ [58; 47; 47] ++ fhost_text hd ho ++ T ++ qf_text q f)
    with ((s_file ++ [58]) ++ 47 :: 47 :: fhost_text hd ho ++ T ++ qf_text q f).
  change (4 + 1) with (nlen (s_file ++ [58])).
  rewrite slice_from_o_some by (rewrite (nlen_app (s_file ++ [58])); lia). rewrite nskipn_app_len. reflexivity.
Qed.

(* ---------- Url::set_fragment ---------- *)
Theorem set_fragment_File u fr u' : FileCanon u -> usv_opt fr ->
  set_fragment dbg u fr = Some u' -> nlen (ser u') <= U32_MAX_P -> FileCanon u'.
Proof.
  intros [ho segs last q f K] Hfr. unfold C02_File.file_curl. destruct fr as [x|].
  - rewrite set_fragment_qf_some by exact Hfr. intros E Hb. inversion E; subst u'.
    apply (file_repl_len ho segs last q f); [exact K | exact (fk_q _ _ _ _ _ _ _ K) | exact (frag_of_clean x Hfr) | exact Hb].
  - rewrite (set_fragment_qf_none dbg _ _ _ _ _ _ _ _ q f false) by (apply file_curl_cbb).
    intros E Hb. inversion E; subst u'. cbn [andb] in *.
    apply (file_repl_len ho segs last q f); [exact K | exact (fk_q _ _ _ _ _ _ _ K) | exact I | exact Hb].
Qed.

(* ---------- Url::set_query ---------- *)
Theorem set_query_File u qr u' : FileCanon u -> usv_opt qr ->
  set_query dbg u qr = Some u' -> nlen (ser u') <= U32_MAX_P -> FileCanon u'.
Proof.
  intros [ho segs last q f K] Hqr. unfold C02_File.file_curl.
  destruct (file_pre_sch ho (path_text segs last)) as [S1 S2]. destruct qr as [x|].
  - rewrite (set_query_qf_some dbg _ _ _ _ _ _ _ _ s_file S1 S2 q f x Hqr).
    intros E Hb. inversion E; subst u'.
    apply (file_repl_len ho segs last q f); [exact K | | exact (fk_f _ _ _ _ _ _ _ K) | exact Hb].
    exact (squery_of_clean STFile x Hqr).
  - rewrite (set_query_qf_none dbg _ _ _ _ _ _ _ _ q f false) by (apply file_curl_cbb).
    intros E Hb. inversion E; subst u'. cbn [andb] in *.
    apply (file_repl_len ho segs last q f); [exact K | exact I | exact (fk_f _ _ _ _ _ _ _ K) | exact Hb].
Qed.

(* ---------- a Url::query_pairs_mut session ---------- *)
Theorem qpm_File u ops u' : FileCanon u -> Forall op_ok ops ->
  query_pairs_session dbg u ops = Some u' -> nlen (ser u') <= U32_MAX_P -> FileCanon u'.
Proof.
  intros C Hops. destruct (FileCanon_fixpoint dbg hp hpo hd HRT u C) as (_ & Hwf & Ha).
  destruct C as [ho segs last q f K]. unfold C02_File.file_curl in *.
  destruct (qpm_session_qf dbg _ _ _ _ _ _ _ _ q f ops Hwf Ha Hops) as (nq & E & HP). rewrite E.
  intros E' Hb. inversion E'; subst u'. clear E'.
  apply (file_repl_len ho segs last q f); [exact K | | exact (fk_f _ _ _ _ _ _ _ K) | exact Hb].
  exact (new_query_clean STFile q nq (fk_q _ _ _ _ _ _ _ K) HP).
Qed.

(* ---------- joins with an empty, fragment-only or query-led reference against a file base ---------- *)
Theorem join_tail_File ovr b input u : FileCanon b -> usv_list input -> tail_ref input = true ->
  parse_url dbg hp hpo hd ovr (Some b) input = POk u -> FileCanon u.
Proof.
  intros [ho segs last q0 f0 K] Hu Ht.
  pose proof (trim_usv input Hu) as Hl.
  destruct (file_pre_sch ho (path_text segs last)) as [S1 S2].
  pose proof (file_curl_cbb ho (path_text segs last) q0 f0) as Hcbb.
  unfold tail_ref in Ht. unfold parse_url. set (l := input_new_trim_c0 input) in *.
  destruct (parse_scheme CUrlParser l) as [[s r]|]; [discriminate|].
  unfold C02_File.file_curl in *.
  rewrite (b_scheme_qf _ _ _ _ _ _ _ _ q0 f0 s_file S1 S2) in *.
  unfold inp_starts_with_char.
  destruct (inp_next l) as [[c r]|] eqn:En.
  - destruct (c =? 35) eqn:E35.
    + intros E. destruct (fragment_only_qf _ _ _ _ _ _ _ _ q0 f0 l u Hl E) as (F & -> & CF & BF).
      apply (file_repl ho segs last q0 f0); [exact K | exact (fk_q _ _ _ _ _ _ _ K) | exact CF | exact (fk_bq _ _ _ _ _ _ _ K) | exact BF].
    + rewrite Hcbb. change (scheme_type_of s_file) with STFile. cbn [st_is_file].
      destruct (c =? 63) eqn:E63; [|cbn in Ht; discriminate Ht].
      apply N.eqb_eq in E63. subst c.
      unfold parse_file, inp_split_first. rewrite En. cbn [is_slash_or_bslash N.eqb orb].
      change (is_slash_or_bslash 63) with false. cbv iota. change (63 =? 63) with true. cbv iota.
      rewrite before_query_qf.
      change (scheme_end (qf_url (file_pre ho (path_text segs last)) 4 7 7 (nlen (file_front ho)) (fhost_hi ho) None
                                 (nlen (file_front ho)) q0 f0)) with 4.
      destruct (parse_query_and_fragment ovr CUrlParser STFile 4 (file_pre ho (path_text segs last)) l) as [[[s' qs] fs]| |] eqn:Ep;
        cbn [pbind]; try discriminate.
      apply pqf_out_g in Ep; [|exact Hl]. destruct Ep as (q & f & -> & -> & -> & Bq & Bf & Cq & Cf).
      intros E. injection E as <-.
      change (url_with (qf_url (file_pre ho (path_text segs last)) 4 7 7 (nlen (file_front ho)) (fhost_hi ho) None
                               (nlen (file_front ho)) q0 f0)
                (file_pre ho (path_text segs last) ++ qf_text q f)
                (qf_qs (nlen (file_pre ho (path_text segs last))) q)
                (qf_fs (nlen (file_pre ho (path_text segs last))) q f))
        with (qf_url (file_pre ho (path_text segs last)) 4 7 7 (nlen (file_front ho)) (fhost_hi ho) None
                     (nlen (file_front ho)) q f).
      exact (file_repl ho segs last q0 f0 q f K Cq Cf Bq Bf).
  - rewrite Hcbb. change (scheme_type_of s_file) with STFile. cbn [st_is_file].
    unfold parse_file, inp_split_first. rewrite En. cbv iota.
    intros E. injection E as <-.
    rewrite before_fragment_qf.
    match goal with |- C02_FileCanon.FileCanon _ _ ?t =>
      replace t with (qf_url (file_pre ho (path_text segs last)) 4 7 7 (nlen (file_front ho)) (fhost_hi ho) None
                             (nlen (file_front ho)) q0 None) end.
    2:{ unfold url_with, qf_url, qf_text.
        cbn [qf_ftext qf_fs scheme_end username_end host_start host_end hosti port path_start query_start].
        rewrite app_nil_r. reflexivity. }
    apply (file_repl ho segs last q0 f0); [exact K | exact (fk_q _ _ _ _ _ _ _ K) | exact I | exact (fk_bq _ _ _ _ _ _ _ K) | exact I].
Qed.

(* a canonical file record is a file record outside Known_file_drive *)
Lemma FileCanon_is_file u : FileCanon u -> is_file u = true.
Proof. intros [ho segs last q f K]. apply file_curl_is_file. Qed.

Lemma FileCanon_not_drive u : FileCanon u -> Known_file_drive u = false.
Proof.
  intros [ho segs last q f K]. unfold Known_file_drive. rewrite file_curl_is_file, file_curl_path. cbn [andb].
  destruct K as [_ Ksegs Klast _ _ _ _ _ _].
  rewrite split_on_path_text.
  2:{ apply good_segs_sp_no_slash. apply fsegs_ok_sp. exact Ksegs. }
  2:{ exact (proj1 (proj2 (good_seg_sp_parts last (fseg_ok_sp last Klast)))). }
  change (existsb wdl_like ([] :: segs ++ [last])) with (existsb wdl_like (segs ++ [last])).
  rewrite existsb_app. cbn [existsb]. rewrite (fseg_ok_like last Klast). cbn [orb]. rewrite orb_false_r.
  destruct (existsb wdl_like segs) eqn:E; [|reflexivity].
  apply existsb_exists in E. destruct E as (s & Hin & Hs).
  rewrite (fseg_ok_like s (proj1 (forallb_forall _ _) Ksegs s Hin)) in Hs. discriminate Hs.
Qed.

End FileSet.
