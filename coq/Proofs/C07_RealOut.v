(* Proofs/C07_RealOut.v - the C07 statement for the REAL host functions relative to the FIRST clause of the oracle
   hypothesis only (IdnaOut of Proofs/C09_RealC01.v: every output of the domain-to-ASCII oracle is ASCII outside the
   deny list - implied by IdnaOK2, which holds of the real idna crate up to Known_C10, and by IdnaOK): both sides ask
   the SAME oracle for the same host text once and compare the answers; idempotence of the oracle is never needed.
   HostWf (the text of a non-empty host is not empty, led by neither ':' nor '@', does not end with '/') and the
   restricted host hypothesis host_fns_ok_on (Proofs/C07_HostOn.v) for Host::parse / Host::parse_opaque / Display against
   spec_host_parser / spec_host_serializer, hence host_parse_ok_on and the theorems of Proofs/C07_AllOn.v. *)
From Coq Require Import Bool.
From RU Require Import Base.Prelude Base.Utf8 Base.Utf8Facts Model.AsciiSet Gen.Tables Model.PercentEncoding
  Model.HostT Model.Host Model.UrlRecord Model.Parser Model.Setters Model.WF Model.KnownC01 Model.KnownC07
  Spec.Whatwg Spec.WhatwgHost Spec.WhatwgHostParse
  Proofs.C09_Wf Proofs.C09_Host Proofs.C09_Inst Proofs.C09_InstWf Proofs.C02_Reach Proofs.C02_AuthParts
  Proofs.C03_ReachParts Proofs.C03_ReachHost Proofs.C06_Host
  Proofs.C01_EqAuthModel Proofs.C01_EqSpModel Proofs.C01_EqSpHost Proofs.C09_RealC01
  Proofs.C07_Defs Proofs.C07_EqSix Proofs.C07_EqHostname Proofs.C07_ParseExtra Proofs.C07_EqParseAll Proofs.C07_HostReal Proofs.C07_HostOn Proofs.C07_AllOn.

Section Out.
Variable idna : list N -> option (list N).
Hypothesis OUT : IdnaOut idna.

Lemma host_parse_x_shape_out input h : host_parse_x idna input = XOk h -> host_shape h.
Proof.
  intros H. destruct h as [d|a|ps].
  - destruct (parse_domain idna input d H) as (H1 & H2 & _). apply HS_dom; [exact H2|].
    pose proof (OUT _ d H1) as Hout.
    apply forallb_forall. intros c Hc. rewrite Forall_forall in Hout. apply dom_char_hostc, Hout, Hc.
  - apply HS_v4. unfold host_parse_x in H. destruct (Host.starts_with 91 input).
    { destruct (bracketed_ok _ _ H) as (x & Hx & _). discriminate Hx. }
    destruct (idna (decode (utf8_encode input))) as [dom|]; [|discriminate].
    destruct dom as [|c dom']; [discriminate|].
    destruct (Host.ends_in_a_number (c :: dom')); [|discriminate].
    destruct (parse_ipv4addr (c :: dom')) as [x| | |] eqn:Ev; cbn [xr_map] in H; try discriminate.
    inversion H; subst. eapply parse_ipv4addr_bound. exact Ev.
  - apply HS_v6. unfold host_parse_x in H. destruct (Host.starts_with 91 input).
    + destruct (bracketed_ok _ _ H) as (x & Hx & Hw). inversion Hx; subst. exact Hw.
    + destruct (idna (decode (utf8_encode input))) as [dom|]; [|discriminate].
      destruct dom as [|c dom']; [discriminate|].
      destruct (Host.ends_in_a_number (c :: dom')); [|discriminate].
      destruct (parse_ipv4addr (c :: dom')); cbn [xr_map] in H; discriminate.
Qed.

Theorem real_HostWf_out : HostWf (host_parse idna) host_parse_opaque host_display.
Proof.
  split; [|split; [|reflexivity]].
  - intros s h E Hne. apply host_text_ok_wf.
    exact (proj1 (shape_text h (host_parse_x_shape_out s h (host_parse_ok_x _ _ _ E)) Hne)).
  - intros s h E Hne. apply host_text_ok_wf. exact (proj1 (hpo_clause s h E Hne)).
Qed.

Theorem host_fn_real_opaque_out s : usv_list s ->
  host_fn_ok_at host_parse_opaque host_display (spec_host_parser idna) spec_host_serializer true s.
Proof.
  intros Hu. pose proof (host_agree_real_all idna s Hu) as A. unfold host_agree in A. unfold host_fn_ok_at.
  destruct real_HostWf_out as (_ & W2 & W3).
  destruct (host_parse_opaque s) as [h|e] eqn:Eh;
    destruct (host_parsing (spec_host_parser idna) true s) as [sh|] eqn:Es; try exact A.
  destruct A as (A1 & A2 & A3 & A4).
  split; [exact A1|]. split; [apply wf_disp_ok; [exact W3 | exact (W2 s h Eh)]|]. split; [|exact A3].
  split.
  - intros Hh. apply A3 in Hh. subst s. cbn in Es. injection Es as <-. reflexivity.
  - intros ->. apply A3. apply A4. rewrite A1. reflexivity.
Qed.

Theorem host_fn_real_special_out s : usv_list s -> s <> [] ->
  host_fn_ok_at (host_parse idna) host_display (spec_host_parser idna) spec_host_serializer false s.
Proof.
  intros Hu Hne. pose proof (host_agree_special idna OUT s Hu) as A. unfold host_agree_sp in A.
  unfold host_fn_ok_at. destruct s as [|c r]; [contradiction|].
  destruct real_HostWf_out as (W1 & _ & W3).
  destruct (host_parse idna (c :: r)) as [h|e] eqn:Eh;
    destruct (host_parsing (spec_host_parser idna) false (c :: r)) as [sh|] eqn:Es; try exact A.
  destruct A as (A1 & A2 & A3 & A4 & A5).
  split; [exact A1|]. split; [apply wf_disp_ok; [exact W3 | exact (W1 _ h Eh)]|]. split.
  - split; [intros X; contradiction|]. intros ->. exfalso. apply A4. rewrite A1. reflexivity.
  - split; [intros X; contradiction | discriminate].
Qed.

Theorem real_host_parse_ok_on_out :
  host_parse_ok_on (host_parse idna) host_parse_opaque host_display (spec_host_parser idna) spec_host_serializer.
Proof.
  split; [|split; [exact real_HostWf_out | reflexivity]].
  split; [intros s Hu Hne; exact (host_fn_real_special_out s Hu Hne) | intros s Hu; exact (host_fn_real_opaque_out s Hu)].
Qed.

End Out.

(* C07_statement for the linked model (parser + setters + host model) against the Standard's parser and setters with the
   Standard's host parser over the same oracle *)
Theorem statement_model_out dbg idna : IdnaOut idna ->
  exists R : url -> spec_url -> Prop,
    (forall u su, R u su -> model_api dbg u = Some (spec_api_list spec_host_serializer su))
    /\ (forall input u, usv_list input -> known_c01 None input = 0 -> input_is_file input = false ->
          parse_url dbg (host_parse idna) host_parse_opaque host_display None None input = POk u ->
          exists su, spec_basic_url_parse (spec_host_parser idna) input None = BDone su /\ R u su)
    /\ (forall u su s v, R u su -> all_ok (spec_host_parser idna) spec_host_serializer s v -> usv_list v ->
          known_c07 u s v = 0 ->
          exists u' su', model_set dbg (host_parse idna) host_parse_opaque host_display s u v = Some u'
            /\ spec_step (spec_host_parser idna) s su v = Some su' /\ R u' su').
Proof. intros OUT. exact (statement_all_on dbg _ _ _ _ _ (real_host_parse_ok_on_out idna OUT)). Qed.

Theorem model_histories_out dbg idna : IdnaOut idna ->
  forall input u ops, usv_list input -> known_c01 None input = 0 -> input_is_file input = false ->
  parse_url dbg (host_parse idna) host_parse_opaque host_display None None input = POk u ->
  all_ops (spec_host_parser idna) spec_host_serializer ops ->
  outside_known dbg (host_parse idna) host_parse_opaque host_display u ops ->
  exists su, spec_basic_url_parse (spec_host_parser idna) input None = BDone su
    /\ model_api dbg u = Some (spec_api_list spec_host_serializer su)
    /\ forall n, exists u' su',
         model_run dbg (host_parse idna) host_parse_opaque host_display u (firstn n ops) = Some u'
         /\ spec_run (spec_host_parser idna) su (firstn n ops) = Some su'
         /\ model_api dbg u' = Some (spec_api_list spec_host_serializer su').
Proof. intros OUT. exact (all_from_parse dbg _ _ _ _ _ (real_host_parse_ok_on_out idna OUT)). Qed.
