(* Proofs/C06_PathParser.v - what the path states of the parser (setter contexts) do to the
   serialization: the text in front of the path is kept, and nothing they write is '?' or '#'. *)
From RU Require Import Base.Prelude Base.Utf8 Base.Utf8Facts Model.AsciiSet Gen.Tables Model.PercentEncoding
  Model.HostT Model.UrlRecord Model.Parser Model.Setters Model.WF
  Proofs.C14_Set Proofs.C14_Enc Proofs.C14_Views
  Proofs.ListN Proofs.C03_WF Proofs.C06_List Proofs.C06_WFI Proofs.C06_Tail Proofs.C06_Steps Proofs.C06_FragQuery.

(* ---------- encodings contain no '?' / '#' when the set encodes them ---------- *)
Lemma hex_upper_no_qh_sweep : all_below 16 (fun d => no_qh (hex_upper d)) = true.
Proof. vm_compute. reflexivity. Qed.

Lemma encode_no_qh set bs : bytes bs -> should_encode set 63 = true -> should_encode set 35 = true ->
  forallb no_qh (encode set bs) = true.
Proof.
  intros Hb H63 H35. induction bs as [|b r IH]; [reflexivity|].
  inversion Hb as [|? ? Hb1 Hr]; subst. rewrite encode_cons. apply forallb_app_iff. split; [|apply IH; exact Hr].
  unfold enc1. destruct (should_encode set b) eqn:E.
  - unfold enc_byte_spec. cbn [forallb]. unfold is_byte in Hb1.
    assert (forall d, d < 16 -> no_qh (hex_upper d) = true) as Hh
      by (intros d Hd; apply (all_below_spec 16 _ hex_upper_no_qh_sweep d Hd)).
    rewrite !Hh by lia. reflexivity.
  - cbn [forallb]. rewrite andb_true_r. unfold no_qh.
    destruct (b =? 63) eqn:E1; [apply N.eqb_eq in E1; subst b; congruence|].
    destruct (b =? 35) eqn:E2; [apply N.eqb_eq in E2; subst b; congruence|]. reflexivity.
Qed.

Lemma path_set_encodes_qh ctx st : should_encode (path_set ctx st) 63 = true /\ should_encode (path_set ctx st) 35 = true.
Proof. unfold path_set. destruct (ctx_eqb ctx CPathSegmentSetter), (st_is_special st); split; vm_compute; reflexivity. Qed.

Lemma push_encoded_no_qh ctx st t : usv_list t ->
  forallb no_qh (pe_display (path_set ctx st) (utf8_encode t)) = true.
Proof.
  intros H. rewrite pe_display_is_encode by (apply utf8_encode_bytes; exact H).
  destruct (path_set_encodes_qh ctx st). apply encode_no_qh; [apply utf8_encode_bytes; exact H | assumption | assumption].
Qed.

(* ---------- rfind stays inside the list ---------- *)
Lemma rfind_aux_bound b l : forall i0 last j, rfind_aux b l i0 last = Some j ->
  last = Some j \/ (i0 <= j /\ j < i0 + nlen l).
Proof.
  induction l as [|x r IH]; intros i0 last j H; cbn [rfind_aux] in H.
  - left. exact H.
  - apply IH in H. rewrite nlen_cons. destruct H as [H|H]; [|right; lia].
    destruct (x =? b); [inversion H; subst; right; lia | left; exact H].
Qed.

Lemma rfind_bound b l j : rfind b l = Some j -> j < nlen l.
Proof. intros H. apply rfind_aux_bound in H. destruct H as [H|H]; [discriminate | lia]. Qed.

Lemma drop_while_forallb {f g : N -> bool} l : forallb f l = true -> forallb f (drop_while g l) = true.
Proof.
  induction l as [|c r IH]; intros H; [reflexivity|]. cbn [drop_while]. destruct (g c); [|exact H].
  cbn [forallb] in H. apply andb_true_iff in H. apply IH. tauto.
Qed.

Lemma usv_list_rev l : usv_list l -> usv_list (rev l).
Proof. unfold usv_list. apply Forall_rev. Qed.

(* ---------- the invariant of the path states ---------- *)
Section PathInv.
Variables (dbg : bool) (ps m : N) (pre : list N).
Hypothesis Hm1 : ps <= m.
Hypothesis Hm2 : m <= ps + 1.
Hypothesis Hpre : nlen pre = m.

(* the first m bytes are `pre`; from ps on there is neither '?' nor '#' *)
Definition PInv (ser : list N) : Prop := nfirstn m ser = pre /\ forallb no_qh (nskipn ps ser) = true.

Lemma pinv_len ser : PInv ser -> m <= nlen ser.
Proof.
  intros [H _]. assert (nlen (nfirstn m ser) = m) as E by (rewrite H; exact Hpre).
  unfold nlen, nfirstn in *. rewrite firstn_length in E. lia.
Qed.

Lemma pinv_app ser x : PInv ser -> forallb no_qh x = true -> PInv (ser ++ x).
Proof.
  intros H Hx. pose proof (pinv_len ser H) as L. destruct H as [H1 H2]. split.
  - rewrite nfirstn_app_le by exact L. exact H1.
  - rewrite nskipn_app_le by lia. apply forallb_app_iff. split; assumption.
Qed.

Lemma pinv_trunc ser n : PInv ser -> m <= n -> PInv (nfirstn n ser).
Proof.
  intros [H1 H2] Hn. split.
  - rewrite nfirstn_nfirstn by exact Hn. exact H1.
  - replace n with (ps + (n - ps)) by lia. rewrite nskipn_nfirstn_comm. apply forallb_nfirstn. exact H2.
Qed.

Lemma pinv_push_pending ctx st ser pending : PInv ser -> usv_list pending ->
  PInv (push_pending ctx st ser pending).
Proof.
  intros H Hp. unfold push_pending. destruct pending as [|c r]; [exact H|].
  unfold push_encoded. apply pinv_app; [exact H|]. apply push_encoded_no_qh. apply usv_list_rev. exact Hp.
Qed.

Lemma pinv_pop_path st ser s' : pop_path st ps ser = POk s' -> PInv ser -> PInv s'.
Proof.
  unfold pop_path. intros H I. destruct (ps <? nlen ser); [|inversion H; subst; exact I].
  destruct (rfind 47 (nskipn ps ser)) as [sp|]; [|discriminate].
  destruct (st_is_file st && is_normalized_wdl (nskipn (ps + sp + 1) ser)); inversion H; subst; [exact I|].
  unfold truncate. apply pinv_trunc; [exact I | lia].
Qed.

Lemma pinv_shorten_path st ser s' : shorten_path st ps ser = POk s' -> PInv ser -> PInv s'.
Proof.
  unfold shorten_path. intros H I. destruct (nlen ser =? ps); [inversion H; subst; exact I|].
  destruct (st_is_file st && is_normalized_wdl (nskipn ps ser)); [inversion H; subst; exact I|].
  eapply pinv_pop_path; eassumption.
Qed.

Lemma last_slash_bound s1 : last_slash_can_be_removed s1 ps = true -> ps + 1 <= nlen s1 - 1.
Proof.
  unfold last_slash_can_be_removed. destruct (rfind 47 (nfirstn (nlen s1 - 1) s1)) as [p|] eqn:E; [|discriminate].
  intros H. apply andb_true_iff in H. destruct H as [H _]. apply rfind_bound in E.
  pose proof (nlen_nfirstn_le (nlen s1 - 1) s1). lia.
Qed.

Lemma is_wdl_head seg : is_wdl seg = true -> exists c r, seg = c :: r /\ is_alpha c = true.
Proof.
  unfold is_wdl, starts_with_wdl. destruct seg as [|a [|b rest]]; cbn; try discriminate; try (rewrite andb_false_r; discriminate).
  intros H. apply andb_true_iff in H. destruct H as [_ H]. apply andb_true_iff in H. destruct H as [H _].
  apply andb_true_iff in H. destruct H as [H _]. exists a, (b :: rest). split; [reflexivity | exact H].
Qed.

Lemma no_qh_alpha c : is_alpha c = true -> no_qh c = true.
Proof. unfold is_alpha, is_upper, is_lower, no_qh. lia. Qed.

Lemma pinv_finish_segment st ser seg_start ews hh s' hh' :
  finish_segment dbg st ps ser seg_start ews hh = POk (s', hh') -> PInv ser -> m <= seg_start -> PInv s'.
Proof.
  unfold finish_segment. intros H I Hs.
  destruct (slice_o ser seg_start (if ews then nlen ser - 1 else nlen ser)) as [seg|]; cbn [of_option pbind] in H; [|discriminate].
  destruct (is_double_dot seg).
  - match type of H with pbind ?c _ = _ => destruct c as [[]| |]; cbn [pbind] in H; try discriminate end.
    set (s1 := truncate ser seg_start) in *.
    assert (PInv s1) as I1 by (apply pinv_trunc; assumption).
    set (s2 := if ends_with_byte 47 s1 && last_slash_can_be_removed s1 ps then nfirstn (nlen s1 - 1) s1 else s1) in *.
    assert (PInv s2) as I2.
    { subst s2. destruct (ends_with_byte 47 s1 && last_slash_can_be_removed s1 ps) eqn:E; [|exact I1].
      apply andb_true_iff in E. destruct E as [_ E]. apply last_slash_bound in E.
      apply pinv_trunc; [exact I1 | lia]. }
    destruct (shorten_path st ps s2) as [s3| |] eqn:E3; cbn [pbind] in H; try discriminate.
    pose proof (pinv_shorten_path _ _ _ E3 I2) as I3.
    inversion H; subst. destruct (ews && negb (ends_with_byte 47 s3)); [|exact I3].
    apply pinv_app; [exact I3 | reflexivity].
  - destruct (is_single_dot seg).
    + inversion H; subst. assert (PInv (truncate ser seg_start)) as I1 by (apply pinv_trunc; assumption).
      destruct (ends_with_byte 47 (truncate ser seg_start)); [exact I1|]. apply pinv_app; [exact I1 | reflexivity].
    + destruct (st_is_file st && (seg_start =? ps + 1) && is_wdl seg) eqn:Ew; [|inversion H; subst; exact I].
      apply andb_true_iff in Ew. destruct Ew as [_ Ew]. destruct (is_wdl_head seg Ew) as (c & r & -> & Hc).
      inversion H; subst. apply pinv_app; [apply pinv_trunc; assumption|].
      cbn [app forallb]. rewrite (no_qh_alpha c Hc). destruct ews; reflexivity.
Qed.

Lemma pinv_file_path_fixup st ser : PInv ser -> (st_is_file st = true -> m = ps) -> PInv (file_path_fixup st ps ser).
Proof.
  intros I Hf. unfold file_path_fixup. destruct (st_is_file st) eqn:E; [|exact I].
  specialize (Hf eq_refl). pose proof (pinv_len ser I) as L. destruct I as [I1 I2].
  assert (nlen (nfirstn ps ser) = ps) as Lp by (apply nlen_nfirstn; lia).
  split.
  - rewrite Hf in *. rewrite nfirstn_app_le by lia. rewrite nfirstn_nfirstn by lia. exact I1.
  - rewrite nskipn_app_ge by lia. rewrite Lp, N.sub_diag, nskipn_0.
    cbn [app forallb]. apply drop_while_forallb. exact I2.
Qed.

(* the loop in the two setter contexts: the result is the file fix-up of a serialization that
   satisfies the invariant *)
Lemma pinv_loop ctx st l : ctx_eqb ctx CUrlParser = false -> (st_is_file st = true -> m = ps) ->
  forall ser seg_start pending hh s' hh' rem,
  parse_path_loop dbg ctx st ps l ser seg_start pending hh = POk (s', hh', rem) ->
  PInv ser -> m <= seg_start -> usv_list l -> usv_list pending ->
  exists x, s' = file_path_fixup st ps x /\ PInv x.
Proof.
  intros Hctx Hf. induction l as [|c r IH]; intros ser seg_start pending hh s' hh' rem H I Hs Hl Hp;
    cbn [parse_path_loop] in H.
  - destruct (finish_segment dbg st ps (push_pending ctx st ser pending) seg_start false hh) as [[s2 h2]| |] eqn:E;
      cbn [pbind] in H; try discriminate.
    inversion H; subst. exists s2. split; [reflexivity|].
    eapply pinv_finish_segment; [exact E | apply pinv_push_pending; assumption | exact Hs].
  - inversion Hl as [|? ? Hc Hr]; subst.
    destruct (is_tnl c).
    { eapply IH; [exact H | apply pinv_push_pending; assumption | exact Hs | exact Hr | constructor]. }
    destruct (negb (ctx_eqb ctx CPathSegmentSetter) && ((c =? 47) || (c =? 92) && st_is_special st)).
    { destruct (finish_segment dbg st ps (push_pending ctx st ser pending ++ [47]) seg_start true hh) as [[s2 h2]| |] eqn:E;
        cbn [pbind] in H; try discriminate.
      assert (PInv s2) as I2.
      { eapply pinv_finish_segment; [exact E | | exact Hs]. apply pinv_app; [apply pinv_push_pending; assumption | reflexivity]. }
      eapply IH; [exact H | exact I2 | apply pinv_len; exact I2 | exact Hr | constructor]. }
    rewrite Hctx, andb_false_r in H.
    destruct (st_is_file st && (ps <? nlen ser) && is_normalized_wdl (nskipn (ps + 1) ser)).
    { eapply IH; [exact H | | | exact Hr | constructor; [exact Hc | constructor]].
      - apply pinv_app; [apply pinv_push_pending; assumption | reflexivity].
      - lia. }
    eapply IH; [exact H | exact I | exact Hs | exact Hr | constructor; assumption].
Qed.

End PathInv.
