(* Proofs/C01_EqPathSpec.v - specification side: what the path state of Spec/Whatwg.v computes on any
   remaining text, for a URL that is neither special nor file: a list of segments (dot segments
   resolved by popping) and the rest starting at '?' / '#'; the path-or-authority state in front of it. *)
From RU Require Import Base.Prelude Base.Utf8 Spec.Whatwg Proofs.C01_EqRun.

(* the end of a segment: buffer B closes at a separator (sep) or at '?', '#', EOF *)
Definition fin (P : list (list N)) (B : list N) (sep : bool) : list (list N) :=
  if is_double_dot_segment B then (if sep then removelast P else removelast P ++ [[]])
  else if is_single_dot_segment B then (if sep then P else P ++ [[]])
  else P ++ [B].

Fixpoint spath (t : list N) (P : list (list N)) (B : list N) : list (list N) * list N :=
  match t with
  | [] => (fin P B false, [])
  | c :: r => if c =? 47 then spath r (fin P B true) []
              else if is_qh c then (fin P B false, t)
              else spath r P (B ++ utf8_percent_encode_cp in_path_set c)
  end.

Lemma spath_rest_head t : forall P B, match snd (spath t P B) with [] => True | c :: _ => is_qh c = true end.
Proof.
  induction t as [|c r IH]; intros P B; [exact I|]. cbn [spath].
  destruct (c =? 47); [apply IH|]. destruct (is_qh c) eqn:E; [exact E | apply IH].
Qed.

Section PathRuns.
Variable hp : bool -> list N -> option spec_host.
Variable input : list N.
Variable base : option spec_url.

Notation RunsN := (Runs hp input base).

Lemma path_seg_update u P B sep :
  su_path u = SPList P -> list_eqb (su_scheme u) str_file = false ->
  (if is_double_dot_segment B
   then (if negb sep then path_append (shorten_path u) [] else shorten_path u)
   else if is_single_dot_segment B && negb sep then path_append u []
        else if negb (is_single_dot_segment B)
             then path_append u (if list_eqb (su_scheme u) str_file && path_is_empty_list u && is_windows_drive_letter B
                                 then match B with a :: _ :: r => a :: 58 :: r | _ => B end else B)
             else u)
  = set_path u (SPList (fin P B sep)).
Proof.
  intros HP Hf. unfold fin, shorten_path, path_append. rewrite Hf. cbn [andb].
  destruct (is_double_dot_segment B).
  - rewrite HP. cbn [su_path set_path]. destruct sep; cbn [negb]; destruct u; reflexivity.
  - destruct (is_single_dot_segment B); cbn [andb negb].
    + destruct sep; cbn [negb]; rewrite ?HP; destruct u; cbn in *; subst; reflexivity.
    + rewrite HP. reflexivity.
Qed.

Theorem runs_path : forall t pre B a b pw u P,
  input = pre ++ t -> su_path u = SPList P -> is_special u = false ->
  list_eqb (su_scheme u) str_file = false ->
  RunsN (at_pos StPath pre B a b pw u)
        (BDone (tail_url (set_path u (SPList (fst (spath t P B)))) (snd (spath t P B)))).
Proof.
  induction t as [|c r IH]; intros pre B a b pw u P Hin HP Hns Hf.
  - cbn [spath fst snd tail_url].
    eapply R_end with (m' := at_pos StPath pre [] a b pw (set_path u (SPList (fin P B false)))).
    + rewrite (step_unfold _ _ _ _ _ _ _ _ _ _ _ Hin). cbn zeta. cbn [hd_error]. unfold st_path.
      cbn [is_eof orb cis andb m_url m_buf at_pos]. rewrite Hns. cbn [andb orb].
      rewrite (path_seg_update u P B false HP Hf). reflexivity.
    + cbn [m_ptr at_pos]. rewrite (len_split hp _ _ _ Hin). cbn [length]. lia.
  - cbn [spath]. destruct (c =? 47) eqn:E47.
    + (* separator *)
      eapply runs_step_next with (st' := StPath) (buf' := []) (u' := set_path u (SPList (fin P B true))); [exact Hin | |].
      * rewrite (step_unfold _ _ _ _ _ _ _ _ _ _ _ Hin). cbn zeta. cbn [hd_error]. unfold st_path.
        cbn [is_eof orb cis andb m_url m_buf at_pos]. rewrite Hns, E47. cbn [andb orb].
        rewrite (path_seg_update u P B true HP Hf).
        assert ((c =? 63) = false) as E63 by lia. assert ((c =? 35) = false) as E35 by lia.
        rewrite E63, E35. reflexivity.
      * pose proof (IH (pre ++ [c]) [] a b pw (set_path u (SPList (fin P B true))) (fin P B true)
                      (snoc_split _ _ _ _ Hin) eq_refl Hns Hf) as H.
        exact H.
    + unfold is_qh. destruct (c =? 63) eqn:E63.
      * cbn [orb fst snd tail_url]. rewrite E63.
        eapply runs_step_next with (st' := StQuery) (buf' := [])
          (u' := set_query (set_path u (SPList (fin P B false))) (Some [])); [exact Hin | |].
        -- rewrite (step_unfold _ _ _ _ _ _ _ _ _ _ _ Hin). cbn zeta. cbn [hd_error]. unfold st_path.
           cbn [is_eof orb cis andb m_url m_buf at_pos has_ov opt_is_some negb]. rewrite Hns, E47, E63.
           cbn [andb orb]. rewrite (path_seg_update u P B false HP Hf). reflexivity.
        -- exact (runs_query hp input base r (pre ++ [c]) [] a b pw (set_query (set_path u (SPList (fin P B false))) (Some [])) []
                   (snoc_split _ _ _ _ Hin) eq_refl).
      * destruct (c =? 35) eqn:E35.
        -- cbn [orb fst snd tail_url]. rewrite E63.
           eapply runs_step_next with (st' := StFragment) (buf' := [])
             (u' := set_fragment (set_path u (SPList (fin P B false))) (Some [])); [exact Hin | |].
           ++ rewrite (step_unfold _ _ _ _ _ _ _ _ _ _ _ Hin). cbn zeta. cbn [hd_error]. unfold st_path.
              cbn [is_eof orb cis andb m_url m_buf at_pos has_ov opt_is_some negb]. rewrite Hns, E47, E63, E35.
              cbn [andb orb]. rewrite (path_seg_update u P B false HP Hf). reflexivity.
           ++ exact (runs_fragment hp input base r (pre ++ [c]) [] a b pw (set_fragment (set_path u (SPList (fin P B false))) (Some [])) []
                      (snoc_split _ _ _ _ Hin) eq_refl).
        -- cbn [orb].
           eapply runs_step_next with (st' := StPath) (buf' := B ++ utf8_percent_encode_cp in_path_set c) (u' := u);
             [exact Hin | |].
           ++ rewrite (step_unfold _ _ _ _ _ _ _ _ _ _ _ Hin). cbn zeta. cbn [hd_error]. unfold st_path.
              cbn [is_eof orb cis andb m_url m_buf at_pos has_ov opt_is_some negb]. rewrite Hns, E47, E63, E35.
              cbn [andb orb]. reflexivity.
           ++ exact (IH (pre ++ [c]) _ a b pw u P (snoc_split _ _ _ _ Hin) HP Hns Hf).
Qed.

(* path or authority state, next code point is not '/': the path state starts at that code point *)
Theorem runs_path_or_authority pre t a b pw u res :
  input = pre ++ t -> starts_with_cp 47 t = false ->
  RunsN (at_pos StPath pre [] a b pw u) res ->
  RunsN (at_pos StPathOrAuthority pre [] a b pw u) res.
Proof.
  intros Hin H47 HR.
  destruct t as [|c r].
  - (* EOF: decrease, then the loop ends?  no: pointer < length is false only at EOF *)
    eapply R_next with (m' := mkM StPath (Z.of_nat (length pre) - 1)%Z [] a b pw u).
    + rewrite (step_unfold _ _ _ _ _ _ _ _ _ _ _ Hin). reflexivity.
    + cbn [m_ptr]. rewrite (len_split hp _ _ _ Hin). cbn [length]. lia.
    + unfold inc_ptr, set_ptr. cbn [m_ptr m_state m_buf m_at m_br m_pw m_url].
      unfold at_pos in HR. replace (Z.of_nat (length pre) - 1 + 1)%Z with (Z.of_nat (length pre)) by lia. exact HR.
  - eapply runs_step_stay with (st' := StPath) (buf' := []) (u' := u); [exact Hin | discriminate | | exact HR].
    rewrite (step_unfold _ _ _ _ _ _ _ _ _ _ _ Hin). cbn zeta. cbn [hd_error]. unfold st_path_or_authority.
    cbn [cis starts_with_cp] in *. rewrite H47. reflexivity.
Qed.

End PathRuns.
