(* Proofs/C04_ParseFile.v - the file states of the parser (Parser::parse_file) reach no panic site, for
   every input and every well-formed file base, outside ONE situation: a relative reference that starts
   with a path segment (not '/', '\', '?', '#', not a drive letter) against a base for which
   shorten_path leaves a text that does not end in '/' (it refuses to remove a drive-letter-shaped last
   segment, or the base path is empty): the first segment then starts behind a byte that is not '/', and
   a ".." there fails the debug assertion of the path state - finding F-C04-7.  file_rel_unsafe is the
   computable recogniser of that situation (it does not look at the segment itself: a superset). *)
From RU Require Import Base.Prelude Base.Utf8 Model.AsciiSet Gen.Tables Model.PercentEncoding
  Model.HostT Model.UrlRecord Model.Parser Model.WF
  Proofs.ListN Proofs.C06_List Proofs.C02_Parts Proofs.C03_WF Proofs.C06_WFI Proofs.C06_Tail Proofs.C06_Steps
  Proofs.C04_Parse Proofs.C04_PathTotal Proofs.C04_ParseTotal Proofs.C04_PathFile.

Definition file_rel_unsafe (b : url) (l : list N) : bool :=
  match inp_next l with
  | None => false
  | Some (c, _) =>
      if is_slash_or_bslash c then false
      else if (c =? 63) || (c =? 35) then false
      else if starts_with_wdl_segment l then false
      else match shorten_path STFile (path_start b) (b_before_query b) with
           | POk s1 => negb (ends_with_byte 47 s1)
           | _ => true
           end
  end.

Lemma fixup_slash st ps s2 : st_is_file st = true -> ps <= nlen s2 -> nnth (file_path_fixup st ps s2) ps = Some 47.
Proof.
  intros Hf Hl. unfold file_path_fixup. rewrite Hf.
  rewrite nnth_app_ge by (rewrite nlen_nfirstn by exact Hl; lia). rewrite nlen_nfirstn by exact Hl.
  rewrite N.sub_diag. reflexivity.
Qed.

Lemma pqf_bind_ok {A} ovr st se ser rem (F : list N * option N * option N -> pres A) :
  rem_ok rem -> (forall x, F x <> PPanic) -> pbind (parse_query_and_fragment ovr CUrlParser st se ser rem) F <> PPanic.
Proof.
  intros Hr HF. pose proof (pqf_no_panic ovr CUrlParser st se ser rem Hr) as Hq.
  destruct (parse_query_and_fragment ovr CUrlParser st se ser rem) as [x| |]; cbn [pbind]; [apply HF | discriminate | congruence].
Qed.

Lemma parse_file_host_ok hp hd ser l : parse_file_host hp hd ser l <> PPanic.
Proof.
  unfold parse_file_host. destruct (file_host l) as [h rem]. destruct h as [|c t]; [discriminate|].
  destruct (hp (c :: t)) as [host|e]; cbn [of_result pbind]; [|discriminate].
  destruct host as [d| |]; try discriminate. destruct (list_eqb d s_localhost); discriminate.
Qed.

Lemma shorten_len st ps s s1 : shorten_path st ps s = POk s1 -> ps <= nlen s -> ps <= nlen s1.
Proof.
  unfold shorten_path, pop_path. intros H Hl.
  destruct (nlen s =? ps); [inversion H; subst; exact Hl|].
  destruct (st_is_file st && is_normalized_wdl (nskipn ps s)); [inversion H; subst; exact Hl|].
  destruct (ps <? nlen s); [|inversion H; subst; exact Hl].
  destruct (rfind 47 (nskipn ps s)) as [sp|] eqn:Er; [|discriminate].
  destruct (st_is_file st && is_normalized_wdl (nskipn (ps + sp + 1) s)); inversion H; subst; [exact Hl|].
  apply rfind_lt' in Er. rewrite nlen_nskipn in Er. unfold truncate. rewrite nlen_nfirstn by lia. lia.
Qed.

Lemma nlen_file_css : nlen s_file_css = 7.
Proof. reflexivity. Qed.

Section File.
Variable dbg : bool.
Variable hp : list N -> result host.
Variable hd : host -> list N.
Variable ovr : option (list N -> list N).

Theorem parse_path_start_special st hh ser l : st_is_special st = true ->
  exists s' hh' rem, parse_path_start dbg CUrlParser st hh ser l = POk (s', hh', rem) /\ rem_ok rem.
Proof.
  intros Hs. unfold parse_path_start. destruct (inp_split_first l) as [mc rm]. rewrite Hs.
  assert (forall X, exists s' hh' rem, parse_path dbg CUrlParser st hh (nlen ser) (ser ++ [47]) X = POk (s', hh', rem) /\ rem_ok rem) as Hpush.
  { intros X. destruct (parse_path_any dbg st (nlen ser) (nlen ser) ltac:(lia) hh (ser ++ [47]) X
                          (seg_inv_snoc (nlen ser) (nlen ser) ser ltac:(lia) ltac:(lia))) as (s2 & hh' & rem & E & _ & Hr).
    eexists _, hh', rem. split; [exact E | exact Hr]. }
  destruct (ends_with_byte 47 ser) eqn:Ee; cbn [negb].
  - apply ends_with_byte_nnth in Ee. destruct Ee as [E1 E2].
    destruct (parse_path_any dbg st (nlen ser) (nlen ser) ltac:(lia) hh ser l) as (s2 & hh' & rem & E & _ & Hr).
    { unfold seg_inv. repeat split; try lia. exact E2. }
    eexists _, hh', rem. split; [exact E | exact Hr].
  - destruct mc as [c|]; [destruct (is_slash_or_bslash c)|]; apply Hpush.
Qed.

Theorem parse_file_ok st base_file l :
  (match base_file with Some b => wf_b b = true /\ file_rel_unsafe b l = false | None => True end) ->
  parse_file dbg hp hd ovr CUrlParser st base_file l <> PPanic.
Proof.
  intros Hb.
  (* the arm without base, and with a drive letter in front *)
  assert ((' (s2, _, rem) <~ parse_path dbg CUrlParser STFile false 7 (s_file_css ++ [47]) l ;;
           ' (s3, qs, fs) <~ parse_query_and_fragment ovr CUrlParser STFile 4 s2 rem ;;
           POk (file_url s3 7 7 HI_None qs fs)) <> PPanic) as Hplain.
  { destruct (parse_path_any dbg STFile 7 7 ltac:(lia) false (s_file_css ++ [47]) l
                (seg_inv_snoc 7 7 s_file_css ltac:(rewrite nlen_file_css; lia) ltac:(rewrite nlen_file_css; lia)))
      as (s2 & hh' & rem & E & _ & Hr).
    rewrite E. cbn [pbind]. apply pqf_bind_ok; [exact Hr|]. intros [[a q] f]. discriminate. }
  unfold parse_file. destruct (inp_split_first l) as [fc af] eqn:Esf.
  destruct (match fc with Some c => is_slash_or_bslash c | None => false end) eqn:Esl.
  - (* the reference starts with a separator *)
    destruct fc as [c|]; [|discriminate].
    assert (exists r, inp_next l = Some (c, r)) as [r En].
    { unfold inp_split_first in Esf. destruct (inp_next l) as [[c' r']|]; [|discriminate]. inversion Esf; subst. exists af. reflexivity. }
    destruct (inp_split_first af) as [nc an].
    destruct (match nc with Some c0 => is_slash_or_bslash c0 | None => false end).
    + (* file host state *)
      cbv zeta.
      pose proof (parse_file_host_ok hp hd s_file_css an) as Hh.
      destruct (parse_file_host hp hd s_file_css an) as [[[[ser1 flag] hi] rm]| |]; cbn [pbind]; [|discriminate|congruence].
      du32 (nlen ser1) he Ehe.
      assert (exists s' hh' rem, (if flag then parse_path_start dbg CUrlParser STFile (negb (hi_eqb hi HI_None)) ser1 rm
                                  else parse_path dbg CUrlParser STFile (negb (hi_eqb hi HI_None)) (nlen ser1) (ser1 ++ [47]) rm)
                                 = POk (s', hh', rem) /\ rem_ok rem) as (s' & hh' & rem & E & Hr).
      { destruct flag; [apply parse_path_start_special; reflexivity|].
        destruct (parse_path_any dbg STFile (nlen ser1) (nlen ser1) ltac:(lia) (negb (hi_eqb hi HI_None)) (ser1 ++ [47]) rm
                    (seg_inv_snoc (nlen ser1) (nlen ser1) ser1 ltac:(lia) ltac:(lia))) as (s2 & hh' & rem & E & _ & Hr).
        eexists _, hh', rem. split; [exact E | exact Hr]. }
      rewrite E. cbn [pbind].
      destruct (if negb hh' then (nfirstn 7 s' ++ nskipn he s', 7, HI_None) else (s', he, hi)) as [[ser3 he3] hi3].
      apply pqf_bind_ok; [exact Hr|]. intros [[a q] f]. discriminate.
    + (* one separator: the path state is entered in front of it *)
      cbv zeta.
      set (T := if negb (starts_with_wdl_segment af) then _ else _).
      assert (let '(ser1, he, _) := T in he <= nlen ser1) as HT.
      { subst T. destruct (negb (starts_with_wdl_segment af)); [|rewrite nlen_file_css; lia].
        destruct base_file as [b|]; [|rewrite nlen_file_css; lia].
        destruct (base_first_segment b) as [seg|]; [|rewrite nlen_file_css; lia].
        destruct (is_normalized_wdl seg); [rewrite !nlen_app, nlen_file_css; lia|].
        destruct (host_str b) as [[hs|]|]; try (rewrite nlen_file_css; lia). lia. }
      destruct T as [[ser1 he] hi].
      destruct (parse_path_at_slash dbg STFile he he ltac:(lia) false ser1 l c r En) as (s2 & hh' & rem & E & _ & Hr).
      { cbn [st_is_special]. rewrite andb_true_r. exact Esl. }
      { lia. } { exact HT. }
      rewrite E. cbn [pbind]. apply pqf_bind_ok; [exact Hr|]. intros [[a q] f]. discriminate.
  - destruct base_file as [b|]; [|exact Hplain].
    destruct fc as [c|]; [|discriminate].
    destruct Hb as [W Hu].
    assert (inp_next l = Some (c, af)) as En.
    { unfold inp_split_first in Esf. destruct (inp_next l) as [[c' r']|]; [|discriminate]. inversion Esf; subst. reflexivity. }
    destruct (c =? 63) eqn:E63.
    { apply pqf_bind_ok; [unfold rem_ok; rewrite En; unfold is_qh; rewrite E63; reflexivity|]. intros [[a q] f]. discriminate. }
    destruct (c =? 35) eqn:E35; [apply fragment_only_ok|].
    destruct (starts_with_wdl_segment l) eqn:Ew; cbn [negb]; [exact Hplain|].
    unfold file_rel_unsafe in Hu. rewrite En, Esl, E63, E35, Ew in Hu. cbn [orb] in Hu.
    destruct (shorten_path STFile (path_start b) (b_before_query b)) as [s1| |] eqn:Es; try discriminate.
    apply negb_false_iff in Hu. cbn [pbind].
    destruct (bq_shape b W) as (Ebq & P1 & P2).
    assert (path_start b <= nlen s1) as L1.
    { apply (shorten_len _ _ _ _ Es). rewrite Ebq, nlen_nfirstn by exact P2. exact P1. }
    apply ends_with_byte_nnth in Hu. destruct Hu as [U1 U2].
    destruct (parse_path_any dbg STFile (path_start b) (path_start b) ltac:(lia) true s1 l) as (s2 & hh' & rem & E & Ha & Hr).
    { unfold seg_inv. repeat split; try lia. exact U2. }
    rewrite E. cbn [pbind]. apply wqf_ok; [exact Hr|]. intros _ _.
    apply fixup_slash; [reflexivity|]. eapply pre_len; [exact Ha | exact L1].
Qed.
End File.

(* ---------- top level, file class included ---------- *)
(* the narrowed class of finding F-C04-7: the file scheme is involved, there is a file base, and the
   reference is a path-relative one against a base whose shortened path does not end in '/' *)
Definition known_c04_7b (base : option url) (input : list N) : bool :=
  let l := input_new_trim_c0 input in
  match parse_scheme CUrlParser l with
  | Some (sch, rem) =>
      st_is_file (scheme_type_of sch)
      && match base with Some b => list_eqb (b_scheme b) s_file && file_rel_unsafe b rem | None => false end
  | None => match base with Some b => list_eqb (b_scheme b) s_file && file_rel_unsafe b l | None => false end
  end.

Section Top.
Variable dbg : bool.
Variable hp hpo : list N -> result host.
Variable hd : host -> list N.
Variable ovr : option (list N -> list N).

Theorem parse_url_ok3 base input :
  match base with Some b => base_ok b = true | None => True end ->
  known_c04_7b base input = false ->
  parse_url dbg hp hpo hd ovr base input <> PPanic.
Proof.
  intros Hb Hk. unfold parse_url. unfold known_c04_7b in Hk. cbv zeta in Hk.
  destruct (parse_scheme CUrlParser (input_new_trim_c0 input)) as [[sch rem]|].
  - destruct (st_is_file (scheme_type_of sch)) eqn:Ef; [|apply parse_with_scheme_ok; assumption].
    cbn [andb] in Hk. unfold parse_with_scheme. du32 (nlen sch) se E.
    destruct (scheme_type_of sch); try discriminate Ef.
    apply parse_file_ok. destruct base as [b|]; [|exact I].
    destruct (list_eqb (b_scheme b) s_file); [|exact I]. cbn [andb] in Hk.
    unfold base_ok in Hb. apply andb_true_iff in Hb. destruct Hb as [W _]. split; assumption.
  - destruct base as [b|]; [|discriminate].
    destruct (inp_starts_with_char 35 (input_new_trim_c0 input)); [apply fragment_only_ok|].
    unfold base_ok in Hb. apply andb_true_iff in Hb. destruct Hb as [W _].
    rewrite (cannot_be_a_base_eval b W).
    destruct (byte_eqb (ser b) (scheme_end b + 1) 47) eqn:Eb; cbn [negb]; [|discriminate].
    destruct (list_eqb (b_scheme b) s_file) eqn:Efile.
    + cbn [andb] in Hk. apply list_eqb_spec in Efile. rewrite Efile.
      change (st_is_file (scheme_type_of s_file)) with true. cbv iota.
      apply parse_file_ok. split; assumption.
    + rewrite (not_file_scheme _ Efile).
      apply parse_relative_ok; [exact W | apply not_file_scheme; exact Efile | apply byte_eqb_nnth; exact Eb].
Qed.
End Top.

(* the narrowed class lies inside the file class of Properties/C04.known_c04_7 *)
Lemma known_7b_file_involved base input : known_c04_7b base input = true -> file_involved base input = true.
Proof.
  unfold known_c04_7b, file_involved. cbv zeta.
  destruct (parse_scheme CUrlParser (input_new_trim_c0 input)) as [[sch rem]|].
  - intros H. apply andb_true_iff in H. tauto.
  - destruct base as [b|]; [|discriminate]. intros H. apply andb_true_iff in H. tauto.
Qed.
