(* Proofs/C15_Url.v - the URL-editing clause of C15: Url::query_pairs_mut sessions (Model/QueryPairs.v)
   on a well-formed Url, via the generic for_suffix theorem of Proofs/C15_Ser.v. *)
From RU Require Import Base.Prelude Base.Utf8 Base.Outcome_c15 Model.AsciiSet Gen.Tables Model.PercentEncoding
  Model.FormUrlencoded Proofs.C15_Table Proofs.C15_Parse Proofs.C15_Bser Proofs.C15_Ser Proofs.C15_Main.
From RU Require Import Model.HostT Model.UrlRecord Model.Parser Model.Setters Model.WF Model.QueryPairs
  Proofs.ListN Proofs.C03_WF.

(* ---------------------------------------------------------------- the two vocabularies coincide *)
Lemma nlen_eq l : C15_Ser.nlen l = nlen l.
Proof. reflexivity. Qed.
Lemma pre_eq n s : pre n s = nfirstn n s.
Proof. reflexivity. Qed.
Lemma suf_eq n s : suf n s = nskipn n s.
Proof. reflexivity. Qed.

(* ---------------------------------------------------------------- list facts *)
Lemma nfirstn_app_le n a b : n <= nlen a -> nfirstn n (a ++ b) = nfirstn n a.
Proof.
  unfold nlen, nfirstn. intros H. rewrite firstn_app.
  replace (N.to_nat n - length a)%nat with O by lia. cbn [firstn]. apply app_nil_r.
Qed.
Lemma nskipn_app_le n a b : n <= nlen a -> nskipn n (a ++ b) = nskipn n a ++ b.
Proof.
  unfold nlen, nskipn. intros H. rewrite skipn_app.
  replace (N.to_nat n - length a)%nat with O by lia. reflexivity.
Qed.
Lemma nnth_app_lt a b i : i < nlen a -> nnth (a ++ b) i = nnth a i.
Proof. unfold nlen, nnth. intros H. apply nth_error_app1. lia. Qed.
Lemma nnth_app_at a x b : nnth (a ++ x :: b) (nlen a) = Some x.
Proof.
  unfold nlen, nnth. rewrite Nat2N.id, nth_error_app2 by lia.
  replace (length a - length a)%nat with O by lia. reflexivity.
Qed.
Lemma nth_error_firstn_lt {A} (l : list A) : forall n i, (i < n)%nat -> nth_error (firstn n l) i = nth_error l i.
Proof.
  induction l as [|x l IH]; intros n i H.
  - rewrite firstn_nil. reflexivity.
  - destruct n as [|n]; [lia|]. destruct i as [|i]; [reflexivity|]. cbn [firstn nth_error]. apply IH. lia.
Qed.
Lemma nnth_nfirstn n l i : i < n -> nnth (nfirstn n l) i = nnth l i.
Proof. unfold nnth, nfirstn. intros H. apply nth_error_firstn_lt. lia. Qed.
Lemma nnth_prefix n a b i : nfirstn n a = nfirstn n b -> i < n -> nnth a i = nnth b i.
Proof. intros H Hi. rewrite <- (nnth_nfirstn n a i Hi), <- (nnth_nfirstn n b i Hi), H. reflexivity. Qed.
Lemma nfirstn_nfirstn m n l : m <= n -> nfirstn m (nfirstn n l) = nfirstn m l.
Proof. unfold nfirstn. intros H. rewrite firstn_firstn. f_equal. lia. Qed.
Lemma nfirstn_prefix m n a b : nfirstn n a = nfirstn n b -> m <= n -> nfirstn m a = nfirstn m b.
Proof. intros H Hm. rewrite <- (nfirstn_nfirstn m n a Hm), <- (nfirstn_nfirstn m n b Hm), H. reflexivity. Qed.
Lemma piece_of_prefix l x y : x <= y -> nfirstn (y - x) (nskipn x l) = nskipn x (nfirstn y l).
Proof.
  unfold nfirstn, nskipn. intros H. rewrite firstn_skipn_comm. f_equal. f_equal. lia.
Qed.
Lemma piece_prefix n a b x y : nfirstn n a = nfirstn n b -> x <= y -> y <= n ->
  nfirstn (y - x) (nskipn x a) = nfirstn (y - x) (nskipn x b).
Proof.
  intros H Hxy Hyn. rewrite !piece_of_prefix by exact Hxy. rewrite (nfirstn_prefix y n a b H Hyn). reflexivity.
Qed.
Lemma nnth_nskipn l a k : nnth (nskipn a l) k = nnth l (a + k).
Proof.
  unfold nnth, nskipn. replace (N.to_nat (a + k)) with (N.to_nat a + N.to_nat k)%nat by lia.
  generalize (N.to_nat a) (N.to_nat k). clear. intros n k. revert l.
  induction n as [|n IH]; intros l; [reflexivity|].
  destruct l as [|x l]; [destruct k; reflexivity|]. cbn [skipn Nat.add nth_error]. apply IH.
Qed.
Lemma Forall_nfirstn {P : N -> Prop} n l : Forall P l -> Forall P (nfirstn n l).
Proof. intros H. rewrite <- (nfirstn_nskipn n l) in H. apply Forall_app in H. tauto. Qed.
Lemma Forall_nskipn {P : N -> Prop} n l : Forall P l -> Forall P (nskipn n l).
Proof. intros H. rewrite <- (nfirstn_nskipn n l) in H. apply Forall_app in H. tauto. Qed.

(* in an ASCII string every index up to the length is a char boundary *)
Lemma ascii_boundary s i : Forall (fun b => b < 128) s -> i <= nlen s -> is_char_boundary s i = true.
Proof.
  intros Ha Hi. unfold is_char_boundary. destruct (i =? 0); [reflexivity|].
  destruct (nth_error s (N.to_nat i)) as [b|] eqn:E.
  - apply nth_error_In in E. rewrite Forall_forall in Ha. specialize (Ha b E). lia.
  - apply nth_error_None in E. unfold nlen in Hi. lia.
Qed.

(* starts_with "://" looks at three bytes *)
Lemma starts_with_css l : starts_with s_css l = true <-> (nnth l 0 = Some 58 /\ nnth l 1 = Some 47 /\ nnth l 2 = Some 47).
Proof.
  unfold s_css, nnth. change (N.to_nat 0) with 0%nat. change (N.to_nat 1) with 1%nat. change (N.to_nat 2) with 2%nat.
  destruct l as [|a [|b [|c r]]]; cbn [starts_with nth_error].
  - split; [discriminate | intros (H & _); discriminate].
  - split; [intros H; apply andb_true_iff in H; destruct H; discriminate | intros (_ & H & _); discriminate].
  - split; [intros H; apply andb_true_iff in H; destruct H as [_ H]; apply andb_true_iff in H; destruct H; discriminate
           | intros (_ & _ & H); discriminate].
  - split.
    + intros H. apply andb_true_iff in H. destruct H as [H1 H]. apply andb_true_iff in H. destruct H as [H2 H].
      apply andb_true_iff in H. destruct H as [H3 _]. apply N.eqb_eq in H1, H2, H3. subst. auto.
    + intros (H1 & H2 & H3). inversion H1; inversion H2; inversion H3; subst. reflexivity.
Qed.
Lemma starts_with_ss l : starts_with s_ss l = true <-> (nnth l 0 = Some 47 /\ nnth l 1 = Some 47).
Proof.
  unfold s_ss, nnth. change (N.to_nat 0) with 0%nat. change (N.to_nat 1) with 1%nat.
  destruct l as [|a [|b r]]; cbn [starts_with nth_error].
  - split; [discriminate | intros (H & _); discriminate].
  - split; [intros H; apply andb_true_iff in H; destruct H; discriminate | intros (_ & H); discriminate].
  - split.
    + intros H. apply andb_true_iff in H. destruct H as [H1 H]. apply andb_true_iff in H. destruct H as [H2 _].
      apply N.eqb_eq in H1, H2. subst. auto.
    + intros (H1 & H2). inversion H1; inversion H2; subst. reflexivity.
Qed.

(* ---------------------------------------------------------------- the UrlQuery target is a lens *)
Lemma uq_get_set t s : uq_get (uq_set t s) = s.
Proof. destruct t as [u f]. reflexivity. Qed.
Lemma uq_set_set t a b : uq_set (uq_set t a) b = uq_set t b.
Proof. destruct t as [u f]. reflexivity. Qed.
Lemma uq_set_get t : uq_set t (uq_get t) = t.
Proof. destruct t as [[s a b c d e g h i j] f]. reflexivity. Qed.

(* ---------------------------------------------------------------- offsets of a well-formed Url *)
(* end of the path = position of '?', or of '#', or the end *)
Definition path_end (u : url) : N :=
  match query_start u, fragment_start u with
  | Some q, _ => q | None, Some f => f | None, None => nlen (ser u) end.
(* end of the query (of the path if there is none) = position of '#', or the end *)
Definition body_end (u : url) : N :=
  match fragment_start u with Some f => f | None => nlen (ser u) end.
(* the query text ("" when there is no query) *)
Definition old_query (u : url) : list N :=
  match query_start u with
  | Some q => nfirstn (body_end u - (q + 1)) (nskipn (q + 1) (ser u))
  | None => []
  end.
(* '#' and the fragment text *)
Definition frag_tail (u : url) : list N :=
  match fragment_start u with Some f => 35 :: nskipn (f + 1) (ser u) | None => [] end.
(* the serialization that the Serializer edits: fragment detached, '?' present *)
Definition body2 (u : url) : list N :=
  match query_start u with
  | Some _ => nfirstn (body_end u) (ser u)
  | None => nfirstn (body_end u) (ser u) ++ [63]
  end.

Definition edited (u : url) (str' : list N) : url :=
  mkUrl (str' ++ frag_tail u) (scheme_end u) (username_end u) (host_start u) (host_end u) (hosti u) (port u)
        (path_start u) (Some (path_end u))
        (match fragment_start u with Some _ => Some (nlen str') | None => None end).

Section Session.
Variable dbg : bool.
Variable u : url.
Hypothesis Hwf : wf_b u = true.

Lemma ends_facts : path_start u <= path_end u /\ path_end u <= body_end u /\ body_end u <= nlen (ser u)
  /\ (match query_start u with Some q => q < body_end u /\ nnth (ser u) q = Some 63 | None => path_end u = body_end u end)
  /\ (match fragment_start u with Some f => f < nlen (ser u) /\ nnth (ser u) f = Some 35 | None => True end).
Proof.
  pose proof (wf_qf_facts u Hwf) as QF. pose proof (path_start_le_len u Hwf) as Hps.
  pose proof (qf_q QF) as Q1. pose proof (qf_f QF) as Q2. pose proof (qf_qf QF) as Q3.
  unfold path_end, body_end.
  destruct (query_start u) as [q|]; destruct (fragment_start u) as [f|];
    repeat match goal with H : _ /\ _ |- _ => destruct H end;
    repeat split; try lia; try (apply byte_eqb_nnth; assumption).
Qed.

Lemma take_fragment_eval :
  take_fragment dbg u =
  Some (set_fragment_start (set_ser u (nfirstn (body_end u) (ser u))) None,
        match fragment_start u with Some f => Some (nskipn (f + 1) (ser u)) | None => None end).
Proof.
  pose proof (wf_qf_facts u Hwf) as QF. pose proof (qf_f QF) as Q2.
  unfold take_fragment, body_end. destruct (fragment_start u) as [f|] eqn:Ef.
  - destruct Q2 as (_ & Hb & Hlt). unfold dbg_byte_is. rewrite (byte_is_of_eqb _ _ _ Hb). cbn [bindo assert_o].
    unfold u_slice_from. rewrite slice_from_o_some by lia. destruct dbg; reflexivity.
  - rewrite nfirstn_all by lia. destruct u as [s a b c d e g h i j]. cbn in Ef. subst j. reflexivity.
Qed.

Lemma body2_facts :
  path_end u + 1 <= nlen (body2 u)
  /\ nfirstn (path_end u) (body2 u) = nfirstn (path_end u) (ser u)
  /\ nnth (body2 u) (path_end u) = Some 63
  /\ nskipn (path_end u + 1) (body2 u) = old_query u.
Proof.
  destruct ends_facts as (E1 & E2 & E3 & E4 & E5).
  assert (Hb : nlen (nfirstn (body_end u) (ser u)) = body_end u) by (apply nlen_nfirstn; exact E3).
  unfold body2, old_query, path_end in *. destruct (query_start u) as [q|].
  - destruct E4 as [E4 E4b]. repeat split.
    + lia.
    + apply nfirstn_nfirstn. lia.
    + rewrite nnth_nfirstn by lia. exact E4b.
    + rewrite piece_of_prefix by lia. reflexivity.
  - assert (Hpe : match fragment_start u with Some f => f | None => nlen (ser u) end = body_end u) by exact E4.
    rewrite Hpe. repeat split.
    + rewrite nlen_app, Hb. cbn. lia.
    + rewrite nfirstn_app_le by lia. apply nfirstn_nfirstn. lia.
    + rewrite <- Hb at 2. apply nnth_app_at.
    + apply nskipn_all. rewrite nlen_app, Hb. cbn. lia.
Qed.

Lemma query_pairs_mut_eval :
  query_pairs_mut dbg u =
  Some ((mkUrl (body2 u) (scheme_end u) (username_end u) (host_start u) (host_end u) (hosti u) (port u)
               (path_start u) (Some (path_end u)) None,
         match fragment_start u with Some f => Some (nskipn (f + 1) (ser u)) | None => None end),
        path_end u + 1).
Proof.
  destruct ends_facts as (E1 & E2 & E3 & E4 & E5).
  assert (Hb : nlen (nfirstn (body_end u) (ser u)) = body_end u) by (apply nlen_nfirstn; exact E3).
  unfold query_pairs_mut. rewrite take_fragment_eval.
  unfold body2, path_end in *. cbn [query_start set_fragment_start set_ser ser].
  destruct (query_start u) as [q|] eqn:Eq.
  - destruct E4 as [E4 E4b]. unfold dbg_byte_is, byte_is, byte_at. cbn [ser].
    unfold set_fragment_start, set_ser. cbn [ser]. rewrite nnth_nfirstn by lia. rewrite E4b. cbn [bindo]. rewrite N.eqb_refl. cbn [assert_o].
    replace (if dbg then Some tt else Some tt) with (Some tt) by (destruct dbg; reflexivity).
    destruct u as [s a b c d e g h i j]. cbn in *. subst i. reflexivity.
  - assert (Hpe : match fragment_start u with Some f => f | None => nlen (ser u) end = body_end u) by exact E4.
    rewrite Hpe, Hb. destruct u as [s a b c d e g h i j]. cbn in *. reflexivity.
Qed.

Lemma uq_fin_eval str' :
  uq_fin (uq_set (mkUrl (body2 u) (scheme_end u) (username_end u) (host_start u) (host_end u) (hosti u) (port u)
                        (path_start u) (Some (path_end u)) None,
                  match fragment_start u with Some f => Some (nskipn (f + 1) (ser u)) | None => None end) str')
  = Some (edited u str').
Proof.
  unfold uq_fin, uq_set, edited, frag_tail, restore_already_parsed_fragment. cbn [fst snd set_ser].
  destruct (fragment_start u) as [f|].
  - cbn [fragment_start assert_o bindo ser set_fragment_start set_ser app]. reflexivity.
  - rewrite app_nil_r. reflexivity.
Qed.

Hypothesis Hascii : Forall (fun b => b < 128) (ser u).

Lemma body2_ascii : Forall (fun b => b < 128) (body2 u).
Proof.
  unfold body2. destruct (query_start u).
  - apply Forall_nfirstn. exact Hascii.
  - apply Forall_app. split; [apply Forall_nfirstn; exact Hascii | repeat constructor].
Qed.

(* the shape of the result of one editing session *)
Theorem session_shape ops : Forall op_ok ops ->
  exists str',
    query_pairs_session dbg u ops = Some (edited u str')
    /\ path_end u + 1 <= nlen str'
    /\ nfirstn (path_end u) str' = nfirstn (path_end u) (ser u)
    /\ nnth str' (path_end u) = Some 63
    /\ parse (nskipn (path_end u + 1) str') = Some (snd (ops_effect (None, parse_spec (old_query u)) ops))
    /\ (forall P : N -> Prop, (forall c, form_alpha c = true -> P c) ->
        Forall P (old_query u) -> Forall P (nskipn (path_end u + 1) str')).
Proof.
  intros Hops. destruct body2_facts as (B1 & B2 & B3 & B4).
  unfold query_pairs_session. rewrite query_pairs_mut_eval.
  set (t0 := (mkUrl (body2 u) (scheme_end u) (username_end u) (host_start u) (host_end u) (hosti u) (port u)
                    (path_start u) (Some (path_end u)) None,
              match fragment_start u with Some f => Some (nskipn (f + 1) (ser u)) | None => None end)).
  assert (Hget : uq_get t0 = body2 u) by reflexivity.
  destruct (session_ok_P uq (option url) uq_get uq_set uq_fin uq_get_set uq_set_set uq_set_get
              t0 (path_end u + 1) ops Hops) as (str' & H1 & H2 & H3 & H4 & H5).
  - rewrite Hget, nlen_eq. exact B1.
  - left. rewrite Hget. apply ascii_boundary; [exact body2_ascii | exact B1].
  - rewrite Hget in *. rewrite nlen_eq in H2. change pre with nfirstn in H3. change suf with nskipn in H4, H5. rewrite B4 in H4, H5.
    exists str'. rewrite H1. unfold t0. rewrite uq_fin_eval.
    split; [reflexivity|]. split; [exact H2|]. split.
    { rewrite (nfirstn_prefix (path_end u) (path_end u + 1) _ _ H3) by lia. exact B2. }
    split.
    { rewrite (nnth_prefix (path_end u + 1) _ _ (path_end u) H3) by lia. exact B3. }
    split; [exact H4 | exact H5].
Qed.
End Session.

(* ---------------------------------------------------------------- everything before the '?' *)
(* v has u's offsets and a serialization that agrees with u's up to pe (u's end of path) and has '?'
   there; u has '?', '#' or nothing at pe *)
Section Front.
Variable u : url.
Hypothesis Hwf : wf_b u = true.
Variable S : list N.
Variables (qs fs : option N).
Let pe := path_end u.
Hypothesis Hpre : nfirstn pe S = nfirstn pe (ser u).
Hypothesis HS : nnth S pe = Some 63.

Let v := mkUrl S (scheme_end u) (username_end u) (host_start u) (host_end u) (hosti u) (port u)
               (path_start u) qs fs.

Lemma at_pe : pe <= nlen (ser u)
  /\ (nnth (ser u) pe = None \/ nnth (ser u) pe = Some 63 \/ nnth (ser u) pe = Some 35).
Proof using Hwf.
  clear v Hpre HS.
  destruct (ends_facts u Hwf) as (E1 & E2 & E3 & E4 & E5). split; [unfold pe; lia|].
  unfold pe, path_end, body_end in *.
  destruct (query_start u) as [q|]; [right; left; tauto|].
  destruct (fragment_start u) as [f|]; [right; right; tauto|].
  left. unfold nnth, nlen. apply nth_error_None. lia.
Qed.

Lemma pe_lt_S : pe < nlen S.
Proof. eapply nnth_lt. exact HS. Qed.

Lemma se_lt_ps : scheme_end u + 1 <= path_start u /\ path_start u <= pe.
Proof.
  destruct (ends_facts u Hwf) as (E1 & _). split; [|exact E1].
  destruct (has_authority_b u) eqn:Ha.
  - pose proof (wf_auth_facts u Hwf Ha) as F.
    pose proof (af_ue F); pose proof (af_hs F); pose proof (af_he F); pose proof (af_ps F). lia.
  - pose proof (wf_noauth_facts u Hwf Ha) as F. destruct (nf_ps F) as [H|[H _]]; lia.
Qed.

Lemma byte_front i b : i < pe -> byte_eqb S i b = byte_eqb (ser u) i b.
Proof. intros H. unfold byte_eqb. rewrite (nnth_prefix pe _ _ i Hpre H). reflexivity. Qed.

Lemma byte_at_pe_S b : byte_eqb S pe b = (63 =? b).
Proof. unfold byte_eqb. rewrite HS. reflexivity. Qed.

Lemma byte_at_pe_u b : b <> 63 -> b <> 35 -> byte_eqb (ser u) pe b = false.
Proof.
  intros H1 H2. destruct at_pe as (_ & [H|[H|H]]); unfold byte_eqb; rewrite H; [reflexivity | lia | lia].
Qed.

Lemma piece_front x y : x <= y -> y <= pe ->
  nfirstn (y - x) (nskipn x S) = nfirstn (y - x) (nskipn x (ser u)).
Proof. intros. apply (piece_prefix pe); assumption. Qed.

Lemma has_authority_front : has_authority_b v = has_authority_b u.
Proof.
  destruct se_lt_ps as [H1 H2].
  assert (G : forall s, starts_with s_css (nskipn (scheme_end u) s) = true <->
                        (byte_eqb s (scheme_end u) 58 = true /\ byte_eqb s (scheme_end u + 1) 47 = true
                         /\ byte_eqb s (scheme_end u + 2) 47 = true)).
  { intros s. rewrite starts_with_css, !nnth_nskipn. rewrite N.add_0_r. unfold byte_eqb.
    destruct (nnth s (scheme_end u)) as [a|], (nnth s (scheme_end u + 1)) as [b|], (nnth s (scheme_end u + 2)) as [c|];
      split; intros (A & B & C); try discriminate; repeat split;
      try (apply N.eqb_eq; congruence); try (f_equal; apply N.eqb_eq; assumption). }
  unfold has_authority_b. cbn [scheme_end ser v].
  apply Bool.eq_true_iff_eq. rewrite !G.
  rewrite (byte_front (scheme_end u) 58) by lia.
  destruct (N.ltb_spec (scheme_end u + 2) pe) as [Hlt|Hge].
  - rewrite !byte_front by lia. tauto.
  - (* the window reaches pe: both sides fail there *)
    assert (pe = scheme_end u + 1 \/ pe = scheme_end u + 2) as [E|E] by lia.
    + rewrite <- E. rewrite byte_at_pe_S, byte_at_pe_u by lia. cbn. split; intros (_ & A & _); discriminate.
    + rewrite <- E. rewrite byte_at_pe_S, byte_at_pe_u by lia. cbn. split; intros (_ & _ & A); discriminate.
Qed.

Lemma head_front {A} (f : N -> A) (d : A) :
  match S with c :: _ => f c | [] => d end = match ser u with c :: _ => f c | [] => d end.
Proof.
  destruct se_lt_ps as [H1 H2]. pose proof (wf_scheme_facts u Hwf) as (H0 & _).
  unfold nfirstn in Hpre. destruct (N.to_nat pe) as [|k] eqn:Ek; [lia|].
  destruct S as [|a S']; destruct (ser u) as [|b s']; cbn [firstn] in Hpre; try discriminate; [reflexivity|].
  inversion Hpre. reflexivity.
Qed.

Lemma wf_scheme_front : wf_scheme v = true.
Proof.
  destruct se_lt_ps as [H1 H2]. destruct (wf_parts u Hwf) as (H & _ & _).
  unfold wf_scheme in *. cbn [scheme_end ser v].
  rewrite (head_front (fun c => is_alpha c) false).
  rewrite (nfirstn_prefix (scheme_end u) pe _ _ Hpre) by lia.
  rewrite byte_front by lia. exact H.
Qed.

Lemma wf_layout_front :
  (if has_authority_b v then wf_authority v else wf_no_authority v) = true.
Proof.
  destruct se_lt_ps as [H1 H2]. destruct (wf_parts u Hwf) as (_ & H & _).
  pose proof pe_lt_S as HpS. destruct at_pe as [Hpu Hat].
  rewrite has_authority_front. destruct (has_authority_b u) eqn:Ha.
  - pose proof (wf_auth_facts u Hwf Ha) as F.
    pose proof (af_ue F) as A1; pose proof (af_hs F) as A2; pose proof (af_he F) as A3; pose proof (af_ps F) as A4.
    unfold wf_authority in *. cbn [scheme_end username_end host_start host_end hosti port path_start ser v].
    repeat match type of H with (_ && _) = true => apply andb_true_iff in H; let H' := fresh "K" in destruct H as [H H'] end.
    repeat (apply andb_true_iff; split); try lia; try assumption.
    + (* userinfo delimiters *)
      destruct (username_end u =? host_start u) eqn:E; [exact K3|].
      rewrite (byte_front (username_end u) 58) by lia. rewrite (byte_front (username_end u) 64) by lia.
      destruct (byte_eqb (ser u) (username_end u) 58) eqn:E58; [|exact K3].
      apply andb_true_iff in K3. destruct K3 as [K3a K3b]. rewrite byte_front by lia. rewrite K3a, K3b. reflexivity.
    + (* no ':' at username_end without userinfo *)
      destruct (username_end u =? host_start u) eqn:E; [|reflexivity].
      destruct (N.ltb_spec (username_end u) pe) as [Hlt|Hge].
      * rewrite byte_front by lia. exact K2.
      * assert (username_end u = pe) as -> by lia. rewrite byte_at_pe_S. reflexivity.
    + (* port *)
      destruct (port u) as [p|]; [|exact K0].
      repeat match type of K0 with (_ && _) = true => apply andb_true_iff in K0; let H' := fresh "Q" in destruct K0 as [K0 H'] end.
      rewrite byte_front by lia. rewrite piece_front by lia. rewrite K0, Q1, Q0, Q. reflexivity.
    + (* what follows the authority *)
      destruct (N.ltb_spec (path_start u) pe) as [Hlt|Hge].
      * rewrite !byte_front by lia. replace (path_start u =? nlen (ser u)) with false in K by lia.
        replace (path_start u =? nlen S) with false by lia. exact K.
      * assert (path_start u = pe) as -> by lia. rewrite (byte_at_pe_S 63). cbn. rewrite !orb_true_r. reflexivity.
  - pose proof (wf_noauth_facts u Hwf Ha) as F.
    unfold wf_no_authority in *. cbn [scheme_end username_end host_start host_end hosti port path_start ser v].
    repeat match type of H with (_ && _) = true => apply andb_true_iff in H; let H' := fresh "K" in destruct H as [H H'] end.
    repeat (apply andb_true_iff; split); try lia; try assumption.
    apply orb_true_iff in K. apply orb_true_iff. destruct K as [K|K]; [left; exact K|]. right.
    repeat match type of K with (_ && _) = true => apply andb_true_iff in K; let H' := fresh "Q" in destruct K as [K H'] end.
    (* the "/." marker: the path starts with "//", so pe is at least two bytes further *)
    pose proof Q as Qss. apply starts_with_ss in Qss. rewrite !nnth_nskipn, N.add_0_r in Qss. destruct Qss as [S0 S1].
    assert (Hpe2 : path_start u + 1 < pe).
    { destruct (N.ltb_spec (path_start u + 1) pe) as [Hlt|Hge]; [exact Hlt|]. exfalso.
      assert (pe = path_start u \/ pe = path_start u + 1) as [E|E] by lia; rewrite E in Hat;
        destruct Hat as [Hx|[Hx|Hx]]; congruence. }
    rewrite !byte_front by lia. rewrite K, Q1, Q0. cbn [andb].
    apply starts_with_ss. rewrite !nnth_nskipn, N.add_0_r.
    rewrite (nnth_prefix pe _ _ (path_start u) Hpre) by lia.
    rewrite (nnth_prefix pe _ _ (path_start u + 1) Hpre) by lia. tauto.
Qed.
End Front.

(* ---------------------------------------------------------------- reading the edited Url *)
Lemma nskipn_past a x b : nskipn (nlen a + 1) (a ++ x :: b) = b.
Proof.
  replace (nlen a + 1) with (1 + nlen a) by lia. rewrite <- nskipn_nskipn.
  rewrite nskipn_app_le by lia. rewrite (nskipn_all (nlen a) a) by lia. reflexivity.
Qed.

Lemma alpha_not_sharp c : form_alpha c = true -> negb (c =? 35) = true.
Proof.
  intros H. destruct (N.eqb_spec c 35) as [->|Hne]; [vm_compute in H; discriminate | reflexivity].
Qed.

Section Result.
Variable dbg : bool.
Variable u : url.
Hypothesis Hwf : wf_b u = true.
Variable str' : list N.
Let pe := path_end u.
Hypothesis F1 : pe + 1 <= nlen str'.
Hypothesis F2 : nfirstn pe str' = nfirstn pe (ser u).
Hypothesis F3 : nnth str' pe = Some 63.
Let u' := edited u str'.

Lemma edited_prefix : nfirstn pe (ser u') = nfirstn pe (ser u).
Proof. unfold u', edited. cbn [ser]. rewrite nfirstn_app_le by lia. exact F2. Qed.

Lemma edited_qmark : nnth (ser u') pe = Some 63.
Proof. unfold u', edited. cbn [ser]. rewrite nnth_app_lt by lia. exact F3. Qed.

Lemma edited_len : nlen str' <= nlen (ser u').
Proof. unfold u', edited. cbn [ser]. rewrite nlen_app. lia. Qed.

Lemma query_edited : query dbg u' = Some (Some (nskipn (pe + 1) str')).
Proof.
  pose proof edited_qmark as Hq. pose proof edited_len as Hl.
  unfold query. change (query_start u') with (Some pe).
  assert (Hb : byte_is u' pe 63 = Some true).
  { unfold byte_is, byte_at. rewrite Hq. reflexivity. }
  cbv beta iota. rewrite Hb. cbn [bindo assert_o].
  replace (if dbg then Some tt else Some tt) with (Some tt) by (destruct dbg; reflexivity). cbn [bindo].
  change (fragment_start u') with (match fragment_start u with Some _ => Some (nlen str') | None => None end).
  destruct (fragment_start u) as [f|] eqn:Ef.
  - unfold u_slice. rewrite slice_o_some by lia.
    rewrite piece_of_prefix by lia. unfold u', edited, frag_tail. cbn [ser]. rewrite Ef.
    rewrite nfirstn_app_le by lia. rewrite nfirstn_all by lia. reflexivity.
  - unfold u_slice_from. rewrite slice_from_o_some by lia.
    unfold u', edited, frag_tail. cbn [ser]. rewrite Ef, app_nil_r. reflexivity.
Qed.

Lemma fragment_edited : fragment dbg u' = fragment dbg u.
Proof.
  pose proof (wf_qf_facts u Hwf) as QF. pose proof (qf_f QF) as Q2.
  unfold fragment, u', edited, frag_tail. cbn [fragment_start ser].
  destruct (fragment_start u) as [f|]; [|reflexivity].
  destruct Q2 as (_ & Hb & Hlt). rewrite (byte_is_of_eqb _ _ _ Hb).
  unfold byte_is, byte_at. cbn [ser]. rewrite nnth_app_at. cbn [bindo]. rewrite N.eqb_refl. cbn [assert_o].
  unfold u_slice_from. cbn [ser]. rewrite !slice_from_o_some; [|lia|].
  - rewrite nskipn_past. reflexivity.
  - rewrite nlen_app, nlen_cons. lia.
Qed.

Lemma path_edited : path u' = path u.
Proof.
  pose proof (se_lt_ps u Hwf) as [H1 H2]. fold pe in H2. pose proof edited_len as Hl.
  rewrite (path_eval u Hwf). unfold piece. cbn [pidx]. change (match query_start u with
    | Some q => q | None => match fragment_start u with Some f => f | None => nlen (ser u) end end) with pe.
  unfold path. change (query_start u') with (Some pe). cbv beta iota. change (path_start u') with (path_start u).
  unfold u_slice. rewrite slice_o_some by lia.
  f_equal. apply (piece_prefix pe); [exact edited_prefix | lia | lia].
Qed.

Lemma scheme_edited : scheme u' = scheme u.
Proof.
  pose proof (se_lt_ps u Hwf) as [H1 H2]. fold pe in H2. pose proof edited_len as Hl.
  destruct (at_pe u Hwf) as [Hpu _]. fold pe in Hpu.
  unfold scheme, u_slice_to. change (scheme_end u') with (scheme_end u). rewrite !slice_to_o_some by lia.
  f_equal. apply (nfirstn_prefix _ pe); [exact edited_prefix | lia].
Qed.

Lemma has_authority_edited : has_authority_b u' = has_authority_b u.
Proof. exact (has_authority_front u Hwf _ _ _ edited_prefix edited_qmark). Qed.

(* the record stays well formed as long as the new query text has no '#' *)
Lemma wf_edited : Forall (fun c => negb (c =? 35) = true) (nskipn (pe + 1) str') -> wf_b u' = true.
Proof.
  intros Hns. pose proof (se_lt_ps u Hwf) as [H1 H2]. fold pe in H2. pose proof edited_len as Hl.
  unfold wf_b. apply andb_true_iff. split; [apply andb_true_iff; split|].
  - exact (wf_scheme_front u Hwf _ _ _ edited_prefix edited_qmark).
  - exact (wf_layout_front u Hwf _ _ _ edited_prefix edited_qmark).
  - destruct (wf_parts u Hwf) as (_ & _ & H). unfold wf_query_fragment in *.
    repeat match type of H with (_ && _) = true => apply andb_true_iff in H; let H' := fresh "K" in destruct H as [H H'] end.
    assert (Hq : byte_eqb (ser u') pe 63 = true) by (unfold byte_eqb; rewrite edited_qmark; reflexivity).
    change (query_start u') with (Some pe). change (path_start u') with (path_start u).
    change (fragment_start u') with (match fragment_start u with Some _ => Some (nlen str') | None => None end).
    cbv beta iota.
    apply andb_true_iff; split; [apply andb_true_iff; split; [apply andb_true_iff; split; [apply andb_true_iff; split|]|]|].
    + replace (path_start u <=? pe) with true by lia. exact Hq.
    + destruct (fragment_start u) as [f|] eqn:Ef; [|reflexivity].
      replace (path_start u <=? nlen str') with true by lia. cbn [andb].
      unfold byte_eqb, u', edited, frag_tail. cbn [ser]. rewrite Ef, nnth_app_at. reflexivity.
    + destruct (fragment_start u); [lia | reflexivity].
    + (* the path is the same list as before *)
      rewrite (piece_prefix pe _ _ (path_start u) pe edited_prefix) by lia. exact K0.
    + (* the new query text has no '#' *)
      rewrite Forall_forall in Hns.
      destruct (fragment_start u) as [f|] eqn:Ef; apply forallb_forall; intros c Hc; apply Hns.
      * rewrite piece_of_prefix in Hc by lia. unfold u', edited, frag_tail in Hc. cbn [ser] in Hc.
        rewrite Ef in Hc. rewrite nfirstn_app_le in Hc by lia. rewrite nfirstn_all in Hc by lia. exact Hc.
      * unfold u', edited, frag_tail in Hc. cbn [ser] in Hc. rewrite Ef, app_nil_r in Hc. exact Hc.
Qed.
End Result.

(* ---------------------------------------------------------------- the old query text *)
Lemma query_old dbg u : wf_b u = true ->
  query dbg u = Some (match query_start u with Some _ => Some (old_query u) | None => None end).
Proof.
  intros Hwf. rewrite (query_eval dbg u Hwf). unfold old_query, body_end, piece. cbn [pidx].
  destruct (query_start u); reflexivity.
Qed.

Lemma old_query_of_query dbg u : wf_b u = true ->
  match query dbg u with Some (Some x) => x | _ => [] end = old_query u.
Proof.
  intros Hwf. rewrite (query_old dbg u Hwf). unfold old_query. destruct (query_start u); reflexivity.
Qed.

Lemma old_query_no_sharp u : wf_b u = true -> Forall (fun c => negb (c =? 35) = true) (old_query u).
Proof.
  intros Hwf. destruct (wf_parts u Hwf) as (_ & _ & H). unfold wf_query_fragment in H.
  repeat match type of H with (_ && _) = true => apply andb_true_iff in H; let H' := fresh "K" in destruct H as [H H'] end.
  unfold old_query, body_end. destruct (query_start u) as [q|]; [|constructor].
  destruct (fragment_start u) as [f|].
  - apply Forall_forall. rewrite forallb_forall in K. exact K.
  - apply Forall_nfirstn. apply Forall_forall. rewrite forallb_forall in K. exact K.
Qed.

(* ---------------------------------------------------------------- the components before the query *)
Section Components.
Variable dbg : bool.
Variable u : url.
Hypothesis Hwf : wf_b u = true.
Variable str' : list N.
Let pe := path_end u.
Hypothesis F1 : pe + 1 <= nlen str'.
Hypothesis F2 : nfirstn pe str' = nfirstn pe (ser u).
Hypothesis F3 : nnth str' pe = Some 63.
Let u' := edited u str'.
Hypothesis Hwf' : wf_b u' = true.

Let Hpre := edited_prefix u str' F1 F2.
Let Hqm := edited_qmark u str' F1 F3.

Lemma piece_edited a b : a <= b -> b <= pe -> piece u' a b = piece u a b.
Proof. intros Hab Hb. unfold piece. apply (piece_prefix pe); assumption. Qed.

Lemma ps_le_pe : path_start u <= pe.
Proof. exact (proj2 (se_lt_ps u Hwf)). Qed.

Lemma username_edited : username dbg u' = username dbg u.
Proof.
  rewrite (username_eval dbg u' Hwf'), (username_eval dbg u Hwf). f_equal.
  pose proof (pidx_monotone u Hwf BeforeUsername AfterUsername ltac:(cbn; lia)) as M1.
  pose proof (pidx_monotone u Hwf AfterUsername BeforePath ltac:(cbn; lia)) as M2.
  pose proof ps_le_pe as M3.
  cbn [pidx] in *. change (username_end u') with (username_end u). change (scheme_end u') with (scheme_end u).
  pose proof (has_authority_edited u Hwf str' F1 F2 F3) as Hae. fold u' in Hae. rewrite Hae. apply piece_edited; lia.
Qed.

Lemma host_str_edited : host_str u' = host_str u.
Proof.
  rewrite (host_str_eval u' Hwf'), (host_str_eval u Hwf). change (has_host u') with (has_host u).
  destruct (has_host u); [|reflexivity]. f_equal. f_equal.
  pose proof (pidx_monotone u Hwf BeforeHost AfterHost ltac:(cbn; lia)) as M1.
  pose proof (pidx_monotone u Hwf AfterHost BeforePath ltac:(cbn; lia)) as M2.
  pose proof ps_le_pe as M3.
  cbn [pidx] in *. change (host_start u') with (host_start u). change (host_end u') with (host_end u).
  apply piece_edited; lia.
Qed.

Lemma has_password_edited : has_password_b u' = has_password_b u.
Proof.
  unfold has_password_b. pose proof (has_authority_edited u Hwf str' F1 F2 F3) as Hae. fold u' in Hae. rewrite Hae.
  change (username_end u') with (username_end u).
  destruct (has_authority_b u) eqn:Ha; [|reflexivity]. cbn [andb].
  pose proof (wf_auth_facts u Hwf Ha) as F.
  pose proof (af_hs F) as A2; pose proof (af_he F) as A3; pose proof (af_ps F) as A4. pose proof ps_le_pe as M3.
  destruct (at_pe u Hwf) as [Hpu _]. fold pe in Hpu.
  pose proof (pe_lt_S u (ser u') Hqm) as HlS. fold pe in HlS.
  destruct (N.ltb_spec (username_end u) pe) as [Hlt|Hge].
  - rewrite (byte_front u (ser u') Hpre) by exact Hlt.
    replace (username_end u =? nlen (ser u')) with false by lia.
    replace (username_end u =? nlen (ser u)) with false by lia. reflexivity.
  - assert (username_end u = pe) as -> by lia.
    unfold pe. rewrite (byte_at_pe_S u (ser u') Hqm), (byte_at_pe_u u Hwf) by lia.
    cbn. rewrite !andb_false_r. reflexivity.
Qed.

Lemma password_edited : password dbg u' = password dbg u.
Proof.
  rewrite (password_piece dbg u' Hwf'), (password_piece dbg u Hwf). rewrite has_password_edited.
  destruct (has_password_b u) eqn:Hp; [|reflexivity]. f_equal. f_equal.
  pose proof (pidx_monotone u Hwf BeforePassword AfterPassword ltac:(cbn; lia)) as M1.
  pose proof (pidx_monotone u Hwf AfterPassword BeforePath ltac:(cbn; lia)) as M2.
  pose proof ps_le_pe as M3.
  cbn [pidx] in *. rewrite has_password_edited. rewrite Hp in *.
  change (username_end u') with (username_end u). change (host_start u') with (host_start u).
  apply piece_edited; lia.
Qed.
End Components.

(* ---------------------------------------------------------------- C15_url *)
Theorem query_pairs_url dbg u ops :
  wf_b u = true -> Forall (fun b => b < 128) (ser u) -> Forall op_ok ops ->
  exists u',
    query_pairs_session dbg u ops = Some u'
    (* (1) the query reads back as the retained pairs followed by the appended ones *)
    /\ query_pairs dbg u' =
       Some (Some (snd (ops_effect (None, parse_spec (match query dbg u with Some (Some x) => x | _ => [] end)) ops)))
    (* (2) everything before the query is unchanged *)
    /\ (scheme_end u' = scheme_end u /\ username_end u' = username_end u /\ host_start u' = host_start u
        /\ host_end u' = host_end u /\ hosti u' = hosti u /\ port u' = port u /\ path_start u' = path_start u)
    /\ (query_start u' = Some (path_end u)
        /\ nfirstn (path_end u) (ser u') = nfirstn (path_end u) (ser u)
        /\ nnth (ser u') (path_end u) = Some 63)
    /\ (scheme u' = scheme u /\ username dbg u' = username dbg u /\ password dbg u' = password dbg u
        /\ host_str u' = host_str u /\ path u' = path u)
    (* (3) the fragment is preserved *)
    /\ fragment dbg u' = fragment dbg u
    (* (4) the record stays well formed *)
    /\ wf_b u' = true.
Proof.
  intros Hwf Hascii Hops.
  destruct (session_shape dbg u Hwf Hascii ops Hops) as (str' & H1 & F1 & F2 & F3 & F4 & F5).
  assert (Hns : Forall (fun c => negb (c =? 35) = true) (nskipn (path_end u + 1) str')).
  { apply (F5 (fun c => negb (c =? 35) = true) alpha_not_sharp). apply old_query_no_sharp. exact Hwf. }
  assert (Hwf' : wf_b (edited u str') = true) by (eapply wf_edited; eassumption).
  exists (edited u str'). split; [exact H1|]. split.
  { unfold query_pairs. rewrite (query_edited dbg u str') by assumption. rewrite F4.
    rewrite (old_query_of_query dbg u Hwf). reflexivity. }
  split; [repeat split|]. split.
  { split; [reflexivity|]. split; [eapply edited_prefix; eassumption | eapply edited_qmark; eassumption]. }
  split.
  { split; [eapply scheme_edited; eassumption|]. split; [eapply username_edited; eassumption|].
    split; [eapply password_edited; eassumption|].
    split; [eapply host_str_edited; eassumption | eapply path_edited; eassumption]. }
  split; [eapply fragment_edited; eassumption | exact Hwf'].
Qed.
