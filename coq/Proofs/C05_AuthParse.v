(* Proofs/C05_AuthParse.v - "a special scheme is followed by ://" (AS, Proofs/C05_AuthOfs.v), second half: the
   parser.  Every record parse_url returns satisfies AS, from a base that is well formed and satisfies AS; no
   hypothesis on the host functions, none on the input.  Only the offsets scheme_end / username_end are followed:
     with_query_and_fragment passes both through; after_double_slash sets username_end behind "scheme://";
     the relative-reference and file states copy both from the base or build "file://".
   With as_bk this replaces the premise `base_ok b` of the join steps by an invariant. *)
From RU Require Import Base.Prelude Base.Utf8 Model.AsciiSet Gen.Tables Model.PercentEncoding
  Model.HostT Model.UrlRecord Model.Parser Model.Setters Model.WF
  Proofs.ListN Proofs.C06_List Proofs.C03_WF Proofs.C06_WFI Proofs.C06_Tail Proofs.C06_Steps
  Proofs.C06_Suffix Proofs.C06_FragQuery Proofs.C04_ParseTotal Proofs.C03_ReachParts
  Proofs.C05_Enc Proofs.C05_Parser Proofs.C05_Frag Proofs.C05_Comp Proofs.C05_PathClean Proofs.C05_ParseUI Proofs.C05_ParseArms Proofs.C05_BaseOk Proofs.C05_AuthOfs
  Proofs.C03_Reach Proofs.C03_ReachFile.

(* ---------- with_query_and_fragment passes the offsets and the host kind through ---------- *)
Lemma wqf_fields ovr ctx st se ue hs he hi pt ps s rem u :
  with_query_and_fragment ovr ctx st se ue hs he hi pt ps s rem = POk u ->
  scheme_end u = se /\ username_end u = ue /\ hosti u = hi.
Proof.
  unfold with_query_and_fragment. intros H.
  pb H a Ha. destruct a as [s1 ps1]. pb H b Hb. destruct b as [[s2 qs] fs]. inversion H; subst u.
  split; [reflexivity|]. split; reflexivity.
Qed.

Lemma ao_file_url s he hi qs fs : AO (file_url s 7 he hi qs fs).
Proof. unfold AO, file_url. cbn [scheme_end username_end]. lia. Qed.

Section Arms.
Variable dbg : bool.
Variable hp hpo : list N -> result host.
Variable hd : host -> list N.
Variable ovr : option (list N -> list N).

(* ---------- after "//" ---------- *)
Lemma ads_ao ctx st se ser0 l u : nlen ser0 = se + 1 ->
  after_double_slash dbg hp hpo hd ovr ctx st se ser0 l = POk u -> scheme_end u = se /\ AO u.
Proof.
  intros L0. unfold after_double_slash. cbv zeta. intros H.
  pb H a Ha. destruct a as [[ser1 ue] rm]. destruct (parse_userinfo_ui _ _ _ _ _ _ Ha) as (un & t & _ & Eue & _).
  pb H hs Hhs. pb H b Hb. destruct b as [[[[ser2 he] hi] pt] rm2].
  match type of H with (if ?c then _ else _) = _ => destruct c; [discriminate|] end.
  pb H ps Hps. pb H c Hc. destruct c as [[s3 hh] rm3].
  apply wqf_fields in H. destruct H as (E1 & E2 & _). split; [exact E1|].
  unfold AO. rewrite E1, E2, Eue, nlen_app, L0. change (nlen [47; 47]) with 2. lia.
Qed.

(* ---------- relative references ---------- *)
Theorem parse_relative_ao st b l u : wf_b b = true -> AO b ->
  parse_relative dbg hp hpo hd ovr CUrlParser st b l = POk u -> AO u.
Proof.
  intros W A. destruct (wf_scheme_facts b W) as (S1 & S2 & S3).
  unfold parse_relative, inp_split_first. destruct (inp_next l) as [[c r]|] eqn:En.
  2:{ intros H. inversion H; subst u. exact A. }
  destruct (c =? 63).
  { intros H. pb H a Ha. destruct a as [[s qs] fs]. inversion H; subst u. exact A. }
  destruct (c =? 35).
  { intros H. unfold fragment_only in H. cbv zeta in H. pb H fs Hfs. inversion H; subst u. exact A. }
  destruct ((c =? 47) || (c =? 92) && st_is_special st).
  - destruct (inp_count_matching (fun d => (d =? 47) || (d =? 92) && st_is_special st) l) as [slashes remaining].
    destruct (2 <=? slashes).
    + cbv zeta. intros H. pb H x Hx.
      assert (nlen (nfirstn (scheme_end b + 1) (ser b)) = scheme_end b + 1) as L1 by (apply nlen_nfirstn; lia).
      assert (forall X, after_double_slash dbg hp hpo hd ovr CUrlParser st (scheme_end b) (nfirstn (scheme_end b + 1) (ser b)) X = POk u ->
                AO u) as Hads.
      { intros X HX. exact (proj2 (ads_ao _ st _ _ X u L1 HX)). }
      destruct (negb (st_is_special st)); [destruct (inp_split_prefix_str s_ss l)|]; exact (Hads _ H).
    + cbv zeta. intros H. pb H a Ha. destruct a as [[s hh] rem].
      apply wqf_fields in H. destruct H as (E1 & E2 & _). unfold AO in *. rewrite E1, E2. exact A.
  - cbv zeta. intros H. pb H s1 Hs1. pb H a Ha. destruct a as [[s3 hh] rem].
    apply wqf_fields in H. destruct H as (E1 & E2 & _). unfold AO in *. rewrite E1, E2. exact A.
Qed.

(* ---------- the file states ---------- *)
Theorem parse_file_ao st base_file l u :
  match base_file with Some b => AO b | None => True end ->
  parse_file dbg hp hd ovr CUrlParser st base_file l = POk u -> AO u.
Proof.
  intros Hb. unfold parse_file. destruct (inp_split_first l) as [first_char after_first] eqn:Esf.
  assert (forall hh X,
    (' (s2, _, rem) <~ parse_path dbg CUrlParser STFile hh 7 (s_file_css ++ [47]) X ;;
     ' (s3, qs, fs) <~ parse_query_and_fragment ovr CUrlParser STFile 4 s2 rem ;;
     POk (file_url s3 7 7 HI_None qs fs)) = POk u -> AO u) as Hfresh.
  { intros hh X H. pb H a Ha. destruct a as [[s2 h2] rem]. pb H c Hc. destruct c as [[s3 qs] fs]. inversion H; subst u.
    apply ao_file_url. }
  destruct (match first_char with Some c => is_slash_or_bslash c | None => false end) eqn:Efs.
  - destruct (inp_split_first after_first) as [next_char after_next].
    destruct (match next_char with Some c => is_slash_or_bslash c | None => false end).
    + intros H. pb H a Ha. destruct a as [[[ser1 flag] hi] remaining].
      pb H he Hhe. cbv zeta in H. pb H b Hb2. destruct b as [[ser2 hh] rem2].
      destruct (negb hh); cbv beta iota zeta in H; pb H c Hc; destruct c as [[ser4 qs] fs]; inversion H; subst u;
        apply ao_file_url.
    + match goal with |- context [if negb (starts_with_wdl_segment after_first) then ?a else ?b] =>
        destruct (if negb (starts_with_wdl_segment after_first) then a else b) as [[ser1 he] hi] end.
      intros H. pb H a Ha. destruct a as [[ser2 hh] remaining]. pb H c Hc. destruct c as [[ser3 qs] fs].
      inversion H; subst u. apply ao_file_url.
  - destruct base_file as [base|].
    2:{ intros H. pb H a Ha. destruct a as [[s2 h2] rem]. pb H c Hc. destruct c as [[s3 qs] fs]. inversion H; subst u.
        apply ao_file_url. }
    destruct first_char as [c|].
    2:{ intros H. inversion H; subst u. exact Hb. }
    destruct (c =? 63).
    { intros H. pb H a Ha. destruct a as [[s qs] fs]. inversion H; subst u. exact Hb. }
    destruct (c =? 35).
    { intros H. unfold fragment_only in H. cbv zeta in H. pb H fs Hfs. inversion H; subst u. exact Hb. }
    destruct (negb (starts_with_wdl_segment l)); [|apply Hfresh].
    intros H. pb H s1 Hs1. pb H a Ha. destruct a as [[s2 hh] rem].
    apply wqf_fields in H. destruct H as (E1 & E2 & _). unfold AO in *. rewrite E1, E2. exact Hb.
Qed.

(* ---------- top level ---------- *)
Theorem parse_with_scheme_as base sch l u :
  match base with Some b => wf_b b = true /\ AS b | None => True end ->
  parse_with_scheme dbg hp hpo hd ovr base sch l = POk u -> AS u.
Proof.
  intros Hb. unfold parse_with_scheme. intros H. pb H se Hse. apply to_u32_eq in Hse. subst se. cbv zeta in H.
  assert (nlen (sch ++ [58]) = nlen sch + 1) as L0 by (rewrite nlen_app; reflexivity).
  destruct (scheme_type_of sch) eqn:Est.
  - intros _. eapply parse_file_ao; [|exact H].
    destruct base as [b|]; [|exact I]. destruct (list_eqb (b_scheme b) s_file) eqn:Eb; [|exact I].
    destruct Hb as [W K]. apply K. apply list_eqb_spec in Eb. rewrite Eb. reflexivity.
  - destruct (inp_count_matching is_slash_or_bslash l) as [slashes remaining].
    assert (forall X, after_double_slash dbg hp hpo hd ovr CUrlParser STSpecialNotFile (nlen sch) (sch ++ [58]) X = POk u -> AS u) as Hads.
    { intros X HX _. exact (proj2 (ads_ao _ _ _ _ X u L0 HX)). }
    destruct base as [b|]; [|exact (Hads _ H)].
    destruct ((slashes <? 2) && list_eqb (b_scheme b) sch) eqn:Ec; [|exact (Hads _ H)].
    apply andb_true_iff in Ec. destruct Ec as [_ Ec]. apply list_eqb_spec in Ec.
    pb H x Hx. destruct Hb as [W K]. intros _.
    apply (parse_relative_ao STSpecialNotFile b l u W); [|exact H].
    apply K. rewrite Ec, Est. reflexivity.
  - destruct (pns_bk dbg hp hpo hd ovr _ _ _ _ u L0 H) as (K1 & K2). intros Hs. exfalso.
    unfold b_scheme in Hs. rewrite K1, K2, nfirstn_app_exact, Est in Hs. discriminate.
Qed.

Theorem parse_url_as base input u :
  match base with Some b => wf_b b = true /\ AS b | None => True end ->
  parse_url dbg hp hpo hd ovr base input = POk u -> AS u.
Proof.
  intros Hb. unfold parse_url. cbv zeta.
  destruct (parse_scheme CUrlParser (input_new_trim_c0 input)) as [[sch rem]|].
  - apply parse_with_scheme_as. exact Hb.
  - destruct base as [b|]; [|discriminate]. destruct Hb as [W K].
    destruct (inp_starts_with_char 35 (input_new_trim_c0 input)).
    { intros H Hs. unfold fragment_only in H. cbv zeta in H. pb H fs Hfs. inversion H; subst u. clear H.
      assert (st_is_special (scheme_type_of (b_scheme b)) = true) as Hsb.
      { unfold b_scheme in *. cbn [scheme_end ser] in Hs. rewrite parse_fragment_text, <- app_assoc in Hs.
        pose proof (wf_se_lt_ps b W) as L1. destruct (wf_ps_le_path_end b W) as [L2 L3].
        assert (scheme_end b <= nlen (b_before_fragment b) /\ nfirstn (scheme_end b) (b_before_fragment b) = nfirstn (scheme_end b) (ser b)) as [A1 A2].
        { unfold b_before_fragment. destruct (fragment_start b) as [f|] eqn:Ef; [|split; [lia | reflexivity]].
          destruct (bf_len b f W Ef) as [Lf Hpe]. rewrite Lf. split; [lia | apply nfirstn_nfirstn; lia]. }
        rewrite nfirstn_app_le in Hs by exact A1. rewrite A2 in Hs. exact Hs. }
      exact (K Hsb). }
    rewrite (cannot_be_a_base_eval b W).
    destruct (byte_eqb (ser b) (scheme_end b + 1) 47) eqn:Eb; cbn [negb]; [|discriminate].
    apply byte_eqb_nnth in Eb.
    destruct (st_is_file (scheme_type_of (b_scheme b))) eqn:Ef.
    + intros H _. eapply (parse_file_ao _ (Some b)); [|exact H]. apply K.
      destruct (scheme_type_of (b_scheme b)); try discriminate Ef; reflexivity.
    + intros H Hs. destruct (parse_relative_bk dbg hp hpo hd ovr _ b _ u W Eb Ef H) as (K1 & K2 & _).
      eapply (parse_relative_ao _ b); [exact W | | exact H]. apply K.
      unfold b_scheme in *. rewrite K1, K2 in Hs. exact Hs.
Qed.

End Arms.

(* ---------- the consequence for joins: every parse result is a possible base, from a base with wf_b and AS ---------- *)
Theorem parse_url_as_base_ok dbg hp hpo hd ovr base input u : HostWf hp hpo hd ->
  match base with Some b => wf_b b = true /\ host_text_ok b /\ AS b | None => True end ->
  parse_url dbg hp hpo hd ovr base input = POk u -> wf_b u = true /\ host_text_ok u /\ AS u.
Proof.
  intros HW Hb Hp.
  assert (wf_b u = true /\ host_text_ok u) as [W HT].
  { apply (parse_url_wf_all dbg hp hpo hd ovr HW base input u); [|exact Hp].
    destruct base as [b|]; [|exact I]. destruct Hb as (Wb & Tb & Ab). split; [exact (as_base_ok b Wb Ab) | exact Tb]. }
  split; [exact W|]. split; [exact HT|].
  apply (parse_url_as dbg hp hpo hd ovr base input u); [|exact Hp].
  destruct base as [b|]; [|exact I]. destruct Hb as (Wb & _ & Ab). split; assumption.
Qed.
