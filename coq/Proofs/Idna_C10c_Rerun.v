(* Proofs/Idna_C10c_Rerun.v - the SECOND run: to_ascii applied to a name that is a run of pass-through labels followed by
   labels o_1 .. o_n, each of which (RT) the fail-fast label step turns into one buffer label dbl_i with a
   MixedCaseAscii / MixedCasePunycode entry that leaves the input unflushed.  Such a name is returned unchanged
   (Borrowed).  The bidi facts are supplied for the buffer of ALL processed labels; the second run may absorb a few
   leading ones (all ASCII) into its pass-through prefix. *)
From RU Require Import Base.Prelude Base.Utf8 Base.U32_c13 Gen.Tables Model.Punycode Model.Uts46
  Proofs.Idna_Sim Proofs.Idna_Api Proofs.Idna_Known Proofs.Idna_Hyp Proofs.Idna_Redisc Proofs.Idna_Tables
  Proofs.Idna_C10_Deny Proofs.Idna_C10_Prefix Proofs.Idna_C10_Inner Proofs.Idna_C10_Walk
  Proofs.Idna_C10b_AsciiInner Proofs.Idna_WalkFun Proofs.Idna_WalkInv Proofs.Idna_WalkApi Proofs.Idna_WalkPass
  Proofs.Idna_C10c_Start Proofs.Idna_C10c_Drun Proofs.Idna_C10c_Loop Proofs.Idna_Mark.

Definition triple := (list N * list N * aal)%type.
Definition t_o (t : triple) : list N := fst (fst t).
Definition t_d (t : triple) : list N := snd (fst t).
Definition t_e (t : triple) : aal := snd t.

Lemma join_concat x xs : join_dots (x :: xs) = x ++ concat (map (fun y => DOT :: y) xs).
Proof.
  revert x. induction xs as [|y r IH]; intros x; [cbn [join_dots map concat]; rewrite app_nil_r; reflexivity|].
  rewrite join_dots_cons2, IH. reflexivity.
Qed.

(* ---------------------------------------------------------------- is_bidi and labels *)
Section Bidi.
Variable A : adapter.
Variable cfg : bool.

Lemma is_bidi_app a b : is_bidi A cfg (a ++ b) = match is_bidi A cfg a with Ok false => is_bidi A cfg b | r => r end.
Proof.
  induction a as [|c r IH]; [reflexivity|]. cbn [app is_bidi].
  destruct (c <? T_IDNA_BIDI_BELOW); [exact IH|].
  destruct T_IDNA_BIDI_SKIP as [|[lo1 hi1] others].
  - destruct (bc_rtl (bidi_class A c)); [reflexivity|exact IH].
  - destruct (in_inclusive_range32 c lo1 hi1).
    + destruct (cfg && (c =? 8207)); [reflexivity|exact IH].
    + destruct (existsb (fun p => in_inclusive_range32 c (fst p) (snd p)) others); [exact IH|].
      destruct (bc_rtl (bidi_class A c)); [reflexivity|exact IH].
Qed.
Lemma is_bidi_dot l : is_bidi A cfg (DOT :: l) = is_bidi A cfg l.
Proof.
  cbn [is_bidi]. replace (DOT <? T_IDNA_BIDI_BELOW) with true; [reflexivity|].
  symmetry. apply N.ltb_lt. rewrite (proj1 idna_ranges). unfold DOT. lia.
Qed.
Lemma is_bidi_join ls : is_bidi A cfg (join_dots ls) = is_bidi A cfg (concat ls).
Proof.
  induction ls as [|l r IH]; [reflexivity|]. destruct r as [|x r'].
  - cbn [join_dots concat]. rewrite app_nil_r. reflexivity.
  - rewrite join_dots_cons2. cbn [concat] in *. rewrite (is_bidi_app l (DOT :: join_dots (x :: r'))), (is_bidi_app l (x ++ concat r')), is_bidi_dot, IH. reflexivity.
Qed.
Lemma is_bidi_drop k (L : list (list N)) : Forall (fun l => Forall (fun b => b < 128) l) (firstn k L) ->
  is_bidi A cfg (join_dots (skipn k L)) = is_bidi A cfg (join_dots L).
Proof.
  intros H. rewrite !is_bidi_join. rewrite <- (firstn_skipn k L) at 2. rewrite concat_app, is_bidi_app.
  rewrite (is_bidi_ascii A cfg (concat (firstn k L))); [reflexivity|].
  induction H as [|x r Hx _ IH]; [constructor|]. cbn [concat]. apply Forall_app. split; assumption.
Qed.
End Bidi.

Section Rerun.
Variable A : adapter.
Variable cfg : bool.
Variable deny : N.
Variable hy : hyphens.

Definition RT (o dbl : list N) (e : aal) : Prop :=
  nodot o /\ nodot dbl /\
  match o with
  | [] => dbl = [] /\ e = MixedCaseAscii []
  | _ => forall db ap, label_nonempty A cfg true hy deny o db false ap = SOk (db ++ dbl, false, ap ++ [e])
  end /\
  stay_label is_ascii_l dbl e = true /\
  (is_passthrough_ascii_label o = true -> Forall (fun b => b < 128) dbl).
Definition RT3 (t : triple) : Prop := RT (t_o t) (t_d t) (t_e t).

Definition r_step (o dbl : list N) (e : aal) (s : ist) : ist :=
  if i_inpre s && is_passthrough_ascii_label o then
    {| i_ptu := i_ptu s + (if i_seen s then 1 else 0) + len o; i_seen := true; i_inpre := true;
       i_db := i_db s; i_he := i_he s; i_ap := i_ap s |}
  else
    {| i_ptu := if i_seen s && i_inpre s then i_ptu s + 1 else i_ptu s; i_seen := true; i_inpre := false;
       i_db := (if i_seen s && negb (i_inpre s) then i_db s ++ [DOT] else i_db s) ++ dbl;
       i_he := false; i_ap := i_ap s ++ [e] |}.

Lemma label_step_rt o dbl e s : RT o dbl e -> i_he s = false ->
  label_step A cfg true hy deny o s = SOk (r_step o dbl e s).
Proof.
  intros (_ & _ & Hrun & _) Hhe. unfold label_step, r_step.
  destruct (i_inpre s && is_passthrough_ascii_label o); [reflexivity|].
  destruct o as [|b r].
  - destruct Hrun as [-> ->]. rewrite app_nil_r, Hhe. reflexivity.
  - rewrite Hhe, Hrun. reflexivity.
Qed.

Lemma rloop2 T : forall s, Forall RT3 T -> i_he s = false -> i_inpre s = false -> i_seen s = true ->
  labels_loop A cfg true hy deny (map t_o T) s =
  SOk {| i_ptu := i_ptu s; i_seen := true; i_inpre := false;
         i_db := i_db s ++ concat (map (fun t => DOT :: t_d t) T); i_he := false; i_ap := i_ap s ++ map t_e T |}.
Proof.
  induction T as [|t T IH]; intros s HT Hhe Hin Hse; cbn [map labels_loop concat].
  - rewrite !app_nil_r. destruct s as [p se ip db he ap]. cbn [i_ptu i_seen i_inpre i_db i_he i_ap] in *. subst. reflexivity.
  - inversion HT as [|? ? Ht HT']; subst. rewrite (label_step_rt _ _ _ s Ht Hhe). cbn [sbind].
    unfold r_step. rewrite Hin, Hse. cbn [andb negb].
    match goal with |- labels_loop _ _ _ _ _ _ ?s1 = _ => rewrite (IH s1 HT' eq_refl eq_refl eq_refl) end.
    cbn [i_ptu i_seen i_inpre i_db i_he i_ap].
    rewrite <- !app_assoc. reflexivity.
Qed.

Lemma rloop1 T : forall s, Forall RT3 T -> i_he s = false -> i_inpre s = true -> i_db s = [] -> i_ap s = [] ->
  exists s', labels_loop A cfg true hy deny (map t_o T) s = SOk s' /\ i_he s' = false /\
    ((i_db s' = [] /\ i_ap s' = []) \/
     exists k, (k < length T)%nat /\ Forall (fun t => Forall (fun b => b < 128) (t_d t)) (firstn k T) /\
       i_db s' = join_dots (map t_d (skipn k T)) /\ i_ap s' = map t_e (skipn k T)).
Proof.
  induction T as [|t T IH]; intros s HT Hhe Hin Hdb Hap; cbn [map labels_loop].
  - exists s. split; [reflexivity|]. split; [exact Hhe|]. left. split; assumption.
  - inversion HT as [|? ? Ht HT']; subst. rewrite (label_step_rt _ _ _ s Ht Hhe). cbn [sbind].
    unfold r_step. rewrite Hin. cbn [andb negb]. destruct (is_passthrough_ascii_label (t_o t)) eqn:Ep.
    + match goal with |- exists s', labels_loop _ _ _ _ _ _ ?s1 = _ /\ _ => destruct (IH s1 HT' Hhe eq_refl Hdb Hap) as (s' & Hl & Hh & Hc) end. exists s'. split; [exact Hl|]. split; [exact Hh|].
      destruct Hc as [Hc|(k & Hk & Hasc & Hd & Ha)]; [left; exact Hc|]. right. exists (Datatypes.S k).
      cbn [length firstn skipn]. split; [lia|]. split; [|split; assumption].
      constructor; [|exact Hasc]. destruct Ht as (_ & _ & _ & _ & Hpa). exact (Hpa Ep).
    + rewrite andb_false_r, Hdb, Hap. cbn [app].
      match goal with |- exists s', labels_loop _ _ _ _ _ _ ?s1 = _ /\ _ => rewrite (rloop2 T s1 HT' eq_refl eq_refl eq_refl) end.
      cbn [i_ptu i_seen i_inpre i_db i_he i_ap].
      eexists. split; [reflexivity|]. cbn [i_he i_db i_ap]. split; [reflexivity|]. right. exists 0%nat.
      cbn [length firstn skipn map]. split; [lia|]. split; [constructor|]. split; [|reflexivity].
      rewrite join_concat, map_map. reflexivity.
Qed.

Lemma stays_rt X : Forall RT3 X -> stays is_ascii_l (map t_d X) (map t_e X) = true.
Proof.
  induction 1 as [|t r Ht _ IH]; [reflexivity|]. cbn [map stays]. rewrite IH.
  destruct Ht as (_ & _ & _ & Hs & _). rewrite Hs. reflexivity.
Qed.

Lemma pass_nodot l : PassL l -> nodot l.
Proof.
  intros [Hb Hp]. unfold is_passthrough_ascii_label in Hp.
  destruct ((4 <=? len l) && (nth 2 l 0 =? HYPHEN) && (nth 3 l 0 =? HYPHEN)); [discriminate|].
  destruct l as [|f t]; [constructor|].
  inversion Hb as [|? ? Hf Ht]; subst. unfold is_byte in Hf.
  destruct (in_inclusive_range8 f 97 122) eqn:E1; [|discriminate]. cbn [negb] in Hp.
  destruct (forallb (fun b => in_inclusive_range8 b 97 122 || in_inclusive_range8 b 48 57 || (b =? HYPHEN)) t) eqn:E2; [|discriminate].
  constructor.
  - destruct (range8_spec f 97 122 Hf ltac:(lia) ltac:(lia) E1). unfold DOT. lia.
  - apply Forall_forall. intros x Hx. rewrite forallb_forall in E2. specialize (E2 x Hx).
    unfold bytes in Ht. rewrite Forall_forall in Ht. specialize (Ht x Hx). unfold is_byte in Ht.
    apply orb_true_iff in E2. destruct E2 as [E2|E2].
    + apply orb_true_iff in E2. destruct E2 as [E2|E2].
      * destruct (range8_spec x 97 122 Ht ltac:(lia) ltac:(lia) E2). unfold DOT. lia.
      * destruct (range8_spec x 48 57 Ht ltac:(lia) ltac:(lia) E2). unfold DOT. lia.
    + unfold HYPHEN, DOT in *. lia.
Qed.

(* ---------------------------------------------------------------- from the inner result to to_ascii *)
Lemma to_ascii_of_inner r ptu bd db ap : bytes r ->
  process_inner A cfg true hy deny r = IRes ptu bd false db ap ->
  ((db = [] /\ ap = []) \/ stays is_ascii_l (split_on DOT db) ap = true) ->
  to_ascii A cfg r deny hy DIgnore = Ok (true, r).
Proof.
  intros Hb Hi Hc.
  destruct (inner_ff_facts A cfg hy deny r _ _ _ _ _ Hi) as [HX|[_ Hm]]; [inversion HX|].
  destruct (inner_mark_facts A cfg hy deny r _ _ _ _ _ Hb Hm) as [(-> & _ & _)|HB].
  - unfold to_ascii, process. rewrite Hi, N.eqb_refl, andb_false_r. reflexivity.
  - destruct Hc as [[-> ->]|Hst].
    + destruct HB as (_ & Hlen & _). discriminate Hlen.
    + pose proof HB as HB'. destruct HB' as (_ & _ & _ & _ & _ & P & rl & Hd & HP & Hcv & _).
      exact (to_ascii_walk_t A cfg r deny hy _ _ _ _ Hi HB P rl Hd HP Hcv Hst).
Qed.

Definition BOK (l : list N) : Prop := bidi_label A true l false = SOk (l, false).

Theorem rrun pl T r bd : Forall PassL pl -> T <> [] -> Forall RT3 T -> r = join_dots (pl ++ map t_o T) -> bytes r ->
  is_bidi A cfg (join_dots (map t_d T)) = Ok bd -> (bd = true -> Forall BOK (map t_d T)) ->
  to_ascii A cfg r deny hy DIgnore = Ok (true, r).
Proof.
  intros Hpl HTne HT Hr Hb Hbidi Hbok.
  assert (Hlabels : split_on DOT r = pl ++ map t_o T).
  { rewrite Hr. apply split_join.
    - destruct pl; [destruct T; [contradiction HTne; reflexivity|discriminate]|discriminate].
    - apply Forall_app. split.
      + eapply Forall_impl; [|exact Hpl]. intros l. apply pass_nodot.
      + apply Forall_forall. intros o Ho. apply in_map_iff in Ho. destruct Ho as (t & <- & Hin).
        rewrite Forall_forall in HT. exact (proj1 (HT t Hin)). }
  assert (Hinner : exists ptu bd' db ap, process_inner A cfg true hy deny r = IRes ptu bd' false db ap /\
             ((db = [] /\ ap = []) \/ stays is_ascii_l (split_on DOT db) ap = true)).
  { rewrite (inner_from_start A cfg true hy deny r Hb). unfold process_innermost. rewrite N.sub_diag. fold s_start.
    rewrite Hlabels, labels_loop_app.
    rewrite (pass_loop A cfg true hy deny pl s_start eq_refl); [|eapply Forall_impl; [|exact Hpl]; intros l Hl; exact (proj2 Hl)].
    cbn [sbind].
    assert (HS : i_he (pass_end s_start pl) = false /\ i_inpre (pass_end s_start pl) = true /\
                 i_db (pass_end s_start pl) = [] /\ i_ap (pass_end s_start pl) = []).
    { unfold pass_end. destruct pl; repeat split. }
    destruct HS as (S1 & S2 & S3 & S4).
    destruct (rloop1 T _ HT S1 S2 S3 S4) as (s' & Hl & Hhe & Hc). rewrite Hl.
    destruct Hc as [[Hd Ha]|(k & Hk & Hasc & Hd & Ha)].
    - rewrite Hd. cbn [is_bidi]. exists (i_ptu s'), false, [], []. rewrite Hhe, Ha. split; [reflexivity|]. left. split; reflexivity.
    - assert (HX : Forall RT3 (skipn k T)).
      { rewrite <- (firstn_skipn k T) in HT. apply Forall_app in HT. exact (proj2 HT). }
      assert (Hne : map t_d (skipn k T) <> []).
      { intros E. apply (f_equal (@length (list N))) in E. rewrite map_length, skipn_length in E. cbn [length] in E. lia. }
      assert (Hnd : Forall nodot (map t_d (skipn k T))).
      { apply Forall_forall. intros x Hx. apply in_map_iff in Hx. destruct Hx as (t & <- & Hin).
        rewrite Forall_forall in HX. exact (proj1 (proj2 (HX t Hin))). }
      assert (Hib : is_bidi A cfg (i_db s') = Ok bd).
      { rewrite Hd, <- skipn_map, (is_bidi_drop A cfg k (map t_d T)); [exact Hbidi|].
        rewrite firstn_map. apply Forall_forall. intros x Hx. apply in_map_iff in Hx. destruct Hx as (t & <- & Hin).
        rewrite Forall_forall in Hasc. exact (Hasc t Hin). }
      rewrite Hib. destruct bd.
      + rewrite Hd, (split_join _ Hne Hnd), Hhe.
        assert (HB2 : Forall BOK (map t_d (skipn k T))).
        { specialize (Hbok eq_refl). rewrite <- skipn_map. rewrite <- (firstn_skipn k (map t_d T)) in Hbok.
          apply Forall_app in Hbok. exact (proj2 Hbok). }
        rewrite (bidi_labels_ok A _ HB2).
        exists (i_ptu s'), true, (join_dots (map t_d (skipn k T))), (i_ap s'). split; [reflexivity|]. right.
        rewrite (split_join _ Hne Hnd), Ha. exact (stays_rt _ HX).
      + exists (i_ptu s'), false, (i_db s'), (i_ap s'). rewrite Hhe. split; [reflexivity|]. right.
        rewrite Hd, (split_join _ Hne Hnd), Ha. exact (stays_rt _ HX). }
  destruct Hinner as (ptu & bd' & db & ap & Hi & Hc). exact (to_ascii_of_inner r ptu bd' db ap Hb Hi Hc).
Qed.
End Rerun.
