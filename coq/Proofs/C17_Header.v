(* Proofs/C17_Header.v - the header of a data: URL, byte level.  For a header h (the bytes before the
   first comma, as DataUrl::process sees them) without '?', what parse_header hands to the MIME parser,
   and its base64 flag, are what steps 6, 11 (the condition and 11.4-11.6) and 12 of the Fetch
   processor compute from the C0-control percent-encoding of h without ASCII tab / newlines (which is
   what the URL serializer writes for an opaque path). *)
From RU Require Import Base.Prelude Base.Utf8 Model.AsciiSet Gen.Tables Model.PercentEncoding
  Model.Parser Model.Mime Model.Base64 Model.DataUrl Model.DataUrlTie
  Spec.Infra Spec.MimeSniff Spec.Fetch
  Proofs.C14_Enc Proofs.C02_Enc Proofs.C17_Tables Proofs.C17_Total Proofs.C17_Bridge.

Local Notation nt := C02_Enc.not_tnl.
Local Notation S := T_CONTROLS.

(* ---- steps 6, 11 (condition, 11.4-11.6) and 12 of the processor, on mimeType ---- *)
Definition fetch_step12 (mimeType : list N) : list N :=
  match mimeType with
  | c :: _ => if c =? 59 then text_plain ++ mimeType else mimeType
  | [] => mimeType
  end.

Definition fetch_header (mimeType : list N) : list N * bool :=
  let m6 := strip_leading_and_trailing_ascii_whitespace mimeType in
  match ends_with_base64_marker m6 with
  | Some m' => (fetch_step12 m', true)
  | None => (fetch_step12 m6, false)
  end.

(* Fetch.process in terms of fetch_header *)
Definition fetch_process_alt (serialization : list N) : option (mime_type * list N) :=
  match collect_until_comma (remove_data_colon [100; 97; 116; 97; 58] serialization) with
  | (_, None) => None
  | (mimeType, Some encodedBody) =>
      let body := string_percent_decode encodedBody in
      match (if snd (fetch_header mimeType) then forgiving_base64_decode body else Some body) with
      | None => None
      | Some body' =>
          Some (match parse_a_mime_type (fst (fetch_header mimeType)) with
                | Some r => r
                | None => text_plain_us_ascii
                end, body')
      end
  end.

Lemma fetch_process_alt_eq ser : Fetch.process ser = fetch_process_alt ser.
Proof.
  unfold Fetch.process, fetch_process_alt, fetch_header, fetch_step12.
  destruct (collect_until_comma (remove_data_colon [100; 97; 116; 97; 58] ser)) as [mt [eb|]]; [|reflexivity].
  destruct (ends_with_base64_marker (strip_leading_and_trailing_ascii_whitespace mt)) as [m'|]; cbn [fst snd].
  - destruct (forgiving_base64_decode (string_percent_decode eb)); reflexivity.
  - reflexivity.
Qed.

(* ---- list facts ---- *)
Lemma filter_rev' (f : N -> bool) l : filter f (rev l) = rev (filter f l).
Proof.
  induction l as [|c r IH]; [reflexivity|]. cbn [rev filter]. rewrite filter_app, IH. cbn [filter].
  destruct (f c); [reflexivity|]. rewrite app_nil_r. reflexivity.
Qed.

Lemma rev_flat_map (f : N -> list N) l : rev (flat_map f l) = flat_map (fun b => rev (f b)) (rev l).
Proof.
  induction l as [|c r IH]; [reflexivity|]. cbn [flat_map rev]. rewrite rev_app_distr, IH, flat_map_app.
  cbn [flat_map]. rewrite app_nil_r. reflexivity.
Qed.

Definition sp (c : N) : bool := c =? 32.

(* ---- the C0-control set on bytes ---- *)
Lemma se_spec b : b < 256 -> should_encode S b = (b <? 32) || (126 <? b).
Proof.
  intros Hb. rewrite <- hdr_enc_is_controls by exact Hb. unfold in_ranges, T_DU_HDR_ENC. cbn [existsb fst snd]. lia.
Qed.

Definition renc (b : N) : list N := rev (enc1 S b).
Definition R (y : list N) : list N := flat_map renc y.

Lemma rev_encode x : rev (encode S x) = R (rev x).
Proof. unfold encode, R. rewrite rev_flat_map. reflexivity. Qed.

Lemma rev_R y : rev (R y) = encode S (rev y).
Proof. rewrite <- (rev_involutive y) at 1. rewrite <- rev_encode, rev_involutive. reflexivity. Qed.

Lemma R_cons b y : R (b :: y) = renc b ++ R y.
Proof. reflexivity. Qed.

Lemma renc_plain b : should_encode S b = false -> renc b = [b].
Proof. intros E. unfold renc, enc1. rewrite E. reflexivity. Qed.

Lemma renc_enc b : should_encode S b = true -> renc b = [hex_upper (b mod 16); hex_upper (b / 16); 37].
Proof. intros E. unfold renc, enc1. rewrite E. reflexivity. Qed.

Lemma hex_rng d : d < 16 -> (48 <= hex_upper d /\ hex_upper d <= 57) \/ (65 <= hex_upper d /\ hex_upper d <= 70).
Proof. unfold hex_upper. intros H. destruct (d <? 10) eqn:E; lia. Qed.

(* ---- step A: trimming {space, tab, LF, CR} then dropping tab / newlines = dropping tab / newlines then
   trimming spaces ---- *)
Lemma filter_drop_ht l : filter nt (drop_while is_header_trim l) = drop_while sp (filter nt l).
Proof.
  induction l as [|c r IH]; [reflexivity|]. cbn [drop_while filter]. rewrite is_header_trim_spec.
  unfold C02_Enc.not_tnl. change (is_tnl c) with (tnl c). unfold sp.
  destruct (tnl c) eqn:Et; cbn [negb].
  - rewrite orb_true_r. exact IH.
  - rewrite orb_false_r. cbn [drop_while]. destruct (c =? 32) eqn:E32; [exact IH|].
    cbn [filter]. unfold C02_Enc.not_tnl. change (is_tnl c) with (tnl c). rewrite Et. reflexivity.
Qed.

Lemma filter_trim_ht l :
  filter nt (drop_while_end is_header_trim (drop_while is_header_trim l))
  = drop_while_end sp (drop_while sp (filter nt l)).
Proof.
  unfold drop_while_end. rewrite filter_rev', filter_drop_ht, filter_rev', filter_drop_ht. reflexivity.
Qed.

(* ---- step B: stripping ASCII whitespace from the encoded text = trimming spaces before encoding ---- *)
Lemma slw_encode x : bytes x -> strip_leading_ws (encode S x) = encode S (drop_while sp x).
Proof.
  induction x as [|c r IH]; intros Hb; [reflexivity|]. inversion Hb as [|? ? Hc Hr]; subst. unfold is_byte in Hc.
  rewrite encode_cons. unfold enc1. cbn [drop_while]. unfold sp. pose proof (se_spec c Hc) as Hs.
  destruct (should_encode S c) eqn:E.
  - replace (c =? 32) with false by lia. rewrite encode_cons. unfold enc1. rewrite E. reflexivity.
  - cbn [app strip_leading_ws]. unfold is_ascii_whitespace.
    destruct (c =? 32) eqn:E32.
    + rewrite !orb_true_r. exact (IH Hr).
    + replace ((c =? 9) || (c =? 10) || (c =? 12) || (c =? 13) || false) with false by lia.
      rewrite encode_cons. unfold enc1. rewrite E. reflexivity.
Qed.

Lemma slw_R y : bytes y -> strip_leading_ws (R y) = R (drop_while sp y).
Proof.
  induction y as [|c r IH]; intros Hb; [reflexivity|]. inversion Hb as [|? ? Hc Hr]; subst. unfold is_byte in Hc.
  rewrite R_cons. cbn [drop_while]. unfold sp. pose proof (se_spec c Hc) as Hs.
  destruct (should_encode S c) eqn:E.
  - replace (c =? 32) with false by lia. rewrite R_cons. rewrite (renc_enc c E).
    cbn [app strip_leading_ws]. unfold is_ascii_whitespace.
    assert (Hm : c mod 16 < 16) by lia. pose proof (hex_rng _ Hm) as Hh.
    replace ((hex_upper (c mod 16) =? 9) || (hex_upper (c mod 16) =? 10) || (hex_upper (c mod 16) =? 12)
             || (hex_upper (c mod 16) =? 13) || (hex_upper (c mod 16) =? 32)) with false by lia.
    reflexivity.
  - rewrite (renc_plain c E). cbn [app strip_leading_ws]. unfold is_ascii_whitespace.
    destruct (c =? 32) eqn:E32.
    + rewrite !orb_true_r. exact (IH Hr).
    + replace ((c =? 9) || (c =? 10) || (c =? 12) || (c =? 13) || false) with false by lia.
      rewrite R_cons, (renc_plain c E). reflexivity.
Qed.

Lemma bytes_rev l : bytes l -> bytes (rev l).
Proof. unfold bytes. intros H. apply Forall_rev. exact H. Qed.

Lemma strip_ws_encode x : bytes x ->
  strip_leading_and_trailing_ascii_whitespace (encode S x) = encode S (drop_while_end sp (drop_while sp x)).
Proof.
  intros Hb. unfold strip_leading_and_trailing_ascii_whitespace, drop_while_end.
  rewrite slw_encode by exact Hb. rewrite rev_encode.
  rewrite slw_R by (apply bytes_rev, bytes_drop_while; exact Hb). rewrite rev_R. reflexivity.
Qed.

(* ---- step C: the base64 marker ---- *)
Definition marker_tail (r : list N) : option (list N) :=
  match drop_spaces r with
  | c :: r' => if c =? 59 then Some r' else None
  | [] => None
  end.
Definition marker_rev (y : list N) : option (list N) :=
  match strip_prefix_ci base64_reversed y with
  | None => None
  | Some r => marker_tail r
  end.

Lemma ewbm_rev m : ends_with_base64_marker m = option_map (@rev N) (marker_rev (rev m)).
Proof.
  unfold ends_with_base64_marker, marker_rev, marker_tail.
  destruct (strip_prefix_ci base64_reversed (rev m)) as [r|]; [|reflexivity].
  destruct (drop_spaces r) as [|c r']; [reflexivity|]. destruct (c =? 59); reflexivity.
Qed.

Lemma marker_tail_R r : bytes r -> marker_tail (R r) = option_map R (marker_tail r).
Proof.
  unfold marker_tail.
  induction r as [|c r IH]; intros Hb; [reflexivity|]. inversion Hb as [|? ? Hc Hr]; subst. unfold is_byte in Hc.
  rewrite R_cons. pose proof (se_spec c Hc) as Hs. destruct (should_encode S c) eqn:E.
  - rewrite (renc_enc c E). cbn [app drop_spaces].
    assert (Hm : c mod 16 < 16) by lia. pose proof (hex_rng _ Hm) as Hh.
    replace (hex_upper (c mod 16) =? 32) with false by lia.
    replace (hex_upper (c mod 16) =? 59) with false by lia.
    replace (c =? 32) with false by lia. replace (c =? 59) with false by lia. reflexivity.
  - rewrite (renc_plain c E). cbn [app drop_spaces]. destruct (c =? 32) eqn:E32; [exact (IH Hr)|].
    destruct (c =? 59); reflexivity.
Qed.

Definition lit_ok (l : N) : Prop := 32 <= l /\ l <= 126 /\ l <> 37.

Lemma to_lower_hi b : b < 32 \/ 126 < b -> to_lower b = b.
Proof. intros H. unfold to_lower, is_upper. replace ((65 <=? b) && (b <=? 90)) with false by lia. reflexivity. Qed.

Lemma strip_ci_R lit : Forall lit_ok lit -> forall y, bytes y ->
  match strip_prefix_ci lit y with
  | Some r => strip_prefix_ci lit (R y) = Some (R r)
  | None => match strip_prefix_ci lit (R y) with Some r => marker_tail r = None | None => True end
  end.
Proof.
  induction lit as [|l lit IH]; intros Hl y Hb; [reflexivity|].
  inversion Hl as [|? ? Hl1 Hl2]; subst. destruct Hl1 as (L1 & L2 & L3).
  destruct y as [|c y]; [exact I|]. inversion Hb as [|? ? Hc Hr]; subst. unfold is_byte in Hc.
  rewrite R_cons. pose proof (se_spec c Hc) as Hs. destruct (should_encode S c) eqn:E.
  - (* an encoded byte: no match on the raw side; on the encoded side at most two hex digits match *)
    cbn [strip_prefix_ci]. rewrite to_lower_hi by lia. replace (c =? l) with false by lia.
    rewrite (renc_enc c E). cbn [app strip_prefix_ci].
    assert (Hm : c mod 16 < 16) by lia. pose proof (hex_rng _ Hm) as Hh.
    assert (Hd : c / 16 < 16) by lia. pose proof (hex_rng _ Hd) as Hh2.
    destruct (to_lower (hex_upper (c mod 16)) =? l); [|exact I].
    destruct lit as [|l2 lit].
    { cbn [strip_prefix_ci]. unfold marker_tail. cbn [drop_spaces].
      replace (hex_upper (c / 16) =? 32) with false by lia. replace (hex_upper (c / 16) =? 59) with false by lia.
      reflexivity. }
    cbn [strip_prefix_ci]. destruct (to_lower (hex_upper (c / 16)) =? l2); [|exact I].
    destruct lit as [|l3 lit].
    { cbn [strip_prefix_ci]. unfold marker_tail. cbn [drop_spaces]. reflexivity. }
    cbn [strip_prefix_ci]. inversion Hl2 as [|? ? _ Hl3]; subst. inversion Hl3 as [|? ? Hl4 _]; subst.
    destruct Hl4 as (_ & _ & M3). change (to_lower 37) with 37. replace (37 =? l3) with false by lia. exact I.
  - rewrite (renc_plain c E). cbn [app strip_prefix_ci]. destruct (to_lower c =? l); [|exact I].
    exact (IH Hl2 y Hr).
Qed.

Lemma b64_lits_ok : Forall lit_ok base64_reversed.
Proof. unfold base64_reversed, lit_ok. repeat constructor; lia. Qed.

Lemma strip_ci_suffix lit : forall y r, strip_prefix_ci lit y = Some r -> exists p, y = p ++ r.
Proof.
  induction lit as [|l lit IH]; intros y r H.
  - destruct y; inversion H; exists []; reflexivity.
  - destruct y as [|c y]; [discriminate|]. cbn [strip_prefix_ci] in H. destruct (to_lower c =? l); [|discriminate].
    destruct (IH _ _ H) as [p ->]. exists (c :: p). reflexivity.
Qed.

Lemma marker_rev_R y : bytes y -> marker_rev (R y) = option_map R (marker_rev y).
Proof.
  intros Hb. unfold marker_rev. pose proof (strip_ci_R base64_reversed b64_lits_ok y Hb) as H.
  destruct (strip_prefix_ci base64_reversed y) as [r|] eqn:E.
  - rewrite H. apply marker_tail_R. destruct (strip_ci_suffix _ _ _ E) as [p ->]. apply bytes_app in Hb. tauto.
  - destruct (strip_prefix_ci base64_reversed (R y)) as [r|]; [exact H|reflexivity].
Qed.

Lemma ewbm_encode x : bytes x ->
  ends_with_base64_marker (encode S x) = option_map (fun r => encode S (rev r)) (marker_rev (rev x)).
Proof.
  intros Hb. rewrite ewbm_rev, rev_encode, marker_rev_R by (apply bytes_rev; exact Hb).
  destruct (marker_rev (rev x)) as [r|]; [|reflexivity]. cbn [option_map]. rewrite rev_R. reflexivity.
Qed.

(* ---- the crate's scan of the reversed header ---- *)
Definition crate_rev (z : list N) : option (list N) :=
  match require_exact T_DU_B64_EXACT z with
  | None => None
  | Some r1 =>
      match require_nocase T_DU_B64_NOCASE r1 with
      | None => None
      | Some r2 =>
          match skip_while_next r2 with
          | None => None
          | Some (b, bytes) => if b =? T_DU_B64_SEP then Some bytes else None
          end
      end
  end.

Lemma filter_next_filter z :
  match filter_next z with
  | None => filter nt z = []
  | Some (b, r) => filter nt z = b :: filter nt r
  end.
Proof.
  induction z as [|c z IH]; [reflexivity|]. cbn [filter_next filter]. rewrite is_skipped_spec.
  unfold C02_Enc.not_tnl. change (is_tnl c) with (tnl c). destruct (tnl c); cbn [negb]; [exact IH|reflexivity].
Qed.

Lemma require_exact_filter lits : Forall (fun l => l < 65) lits -> forall z,
  strip_prefix_ci lits (filter nt z) = option_map (filter nt) (require_exact lits z).
Proof.
  induction lits as [|l lits IH]; intros Hl z; [reflexivity|]. inversion Hl as [|? ? Hl1 Hl2]; subst.
  cbn [require_exact]. pose proof (filter_next_filter z) as Hf.
  destruct (filter_next z) as [[b r]|]; rewrite Hf; [|reflexivity]. cbn [strip_prefix_ci].
  assert (E : (to_lower b =? l) = (b =? l)).
  { unfold to_lower, is_upper. destruct ((65 <=? b) && (b <=? 90)) eqn:Eu; lia. }
  rewrite E. destruct (b =? l); [exact (IH Hl2 r)|reflexivity].
Qed.

Lemma require_nocase_filter lits : Forall (fun l => to_lower l = l) lits -> forall z,
  strip_prefix_ci lits (filter nt z) = option_map (filter nt) (require_nocase lits z).
Proof.
  induction lits as [|l lits IH]; intros Hl z; [reflexivity|]. inversion Hl as [|? ? Hl1 Hl2]; subst.
  cbn [require_nocase]. pose proof (filter_next_filter z) as Hf.
  destruct (filter_next z) as [[b r]|]; rewrite Hf; [|reflexivity]. cbn [strip_prefix_ci].
  unfold byte_eq_ignore_ascii_case. rewrite Hl1. destruct (to_lower b =? l); [exact (IH Hl2 r)|reflexivity].
Qed.

Lemma strip_ci_app a : forall b y,
  strip_prefix_ci (a ++ b) y = match strip_prefix_ci a y with Some r => strip_prefix_ci b r | None => None end.
Proof.
  induction a as [|l a IH]; intros b y.
  - cbn [app strip_prefix_ci]. destruct y; reflexivity.
  - cbn [app strip_prefix_ci]. destruct y as [|c y]; [reflexivity|]. destruct (to_lower c =? l); [apply IH|reflexivity].
Qed.

Lemma skip_while_next_filter r :
  match skip_while_next r with
  | None => drop_spaces (filter nt r) = []
  | Some (b, bs) => drop_spaces (filter nt r) = b :: filter nt bs /\ b <> 32
  end.
Proof.
  induction r as [|c r IH]; [reflexivity|]. cbn [skip_while_next filter]. rewrite is_skipped_spec.
  unfold C02_Enc.not_tnl. change (is_tnl c) with (tnl c). destruct (tnl c); cbn [negb]; [exact IH|].
  cbn [drop_spaces]. change T_DU_B64_SKIP with 32. destruct (c =? 32) eqn:E; [exact IH|].
  split; [reflexivity|lia].
Qed.

Lemma crate_rev_marker z : marker_rev (filter nt z) = option_map (filter nt) (crate_rev z).
Proof.
  unfold marker_rev, crate_rev. change base64_reversed with (T_DU_B64_EXACT ++ T_DU_B64_NOCASE).
  rewrite strip_ci_app, require_exact_filter by (unfold T_DU_B64_EXACT; repeat constructor).
  destruct (require_exact T_DU_B64_EXACT z) as [r1|]; [|reflexivity]. cbn [option_map].
  rewrite require_nocase_filter by (unfold T_DU_B64_NOCASE; repeat constructor).
  destruct (require_nocase T_DU_B64_NOCASE r1) as [r2|]; [|reflexivity]. cbn [option_map].
  unfold marker_tail. pose proof (skip_while_next_filter r2) as Hs.
  destruct (skip_while_next r2) as [[b bs]|].
  - destruct Hs as [Hs _]. rewrite Hs. change T_DU_B64_SEP with 59. destruct (b =? 59); reflexivity.
  - rewrite Hs. reflexivity.
Qed.

(* remove_base64_suffix in closed form *)
Lemma crate_rev_suffix z bs : crate_rev z = Some bs -> exists p, z = p ++ bs.
Proof.
  unfold crate_rev.
  destruct (require_exact T_DU_B64_EXACT z) as [r1|] eqn:E1; [|discriminate].
  destruct (require_nocase T_DU_B64_NOCASE r1) as [r2|] eqn:E2; [|discriminate].
  destruct (skip_while_next r2) as [[b bytes]|] eqn:E3; [|discriminate].
  destruct (b =? T_DU_B64_SEP); [|discriminate]. intros H. inversion H; subst. clear H.
  destruct (require_exact_split _ _ _ E1) as [p1 H1]. destruct (require_nocase_split _ _ _ E2) as [p2 H2].
  destruct (skip_while_next_split _ _ _ E3) as [p3 H3].
  exists (p1 ++ p2 ++ p3 ++ [b]). rewrite H1, H2, H3, <- !app_assoc. reflexivity.
Qed.

Lemma remove_base64_suffix_eq s :
  remove_base64_suffix s = Ok (option_map (@rev N) (crate_rev (rev s))).
Proof.
  destruct (remove_base64_suffix_total s) as [w Hw]. rewrite Hw. f_equal.
  revert Hw. unfold remove_base64_suffix. destruct (crate_rev (rev s)) as [bs|] eqn:Ec.
  - destruct (crate_rev_suffix _ _ Ec) as [p Hp]. revert Ec. unfold crate_rev.
    destruct (require_exact T_DU_B64_EXACT (rev s)) as [r1|]; [|discriminate].
    destruct (require_nocase T_DU_B64_NOCASE r1) as [r2|]; [|discriminate].
    destruct (skip_while_next r2) as [[b bytes]|]; [|discriminate].
    destruct (b =? T_DU_B64_SEP); cbn [negb]; [|discriminate]. intros H. inversion H; subst. clear H.
    unfold slice_to. destruct (is_char_boundary s (length bs)); cbn [bind]; [|discriminate].
    intros H. inversion H; subst. clear H. cbn [option_map]. f_equal.
    assert (Es : s = rev bs ++ rev p) by (rewrite <- rev_app_distr, <- Hp, rev_involutive; reflexivity).
    rewrite Es at 1. rewrite <- (rev_length bs). rewrite firstn_app, Nat.sub_diag, firstn_all. cbn [firstn].
    rewrite app_nil_r. reflexivity.
  - revert Ec. unfold crate_rev.
    destruct (require_exact T_DU_B64_EXACT (rev s)) as [r1|]; [|intros _ H; inversion H; reflexivity].
    destruct (require_nocase T_DU_B64_NOCASE r1) as [r2|]; [|intros _ H; inversion H; reflexivity].
    destruct (skip_while_next r2) as [[b bytes]|]; [|intros _ H; inversion H; reflexivity].
    destruct (b =? T_DU_B64_SEP); cbn [negb]; [discriminate|]. intros _ H. inversion H. reflexivity.
Qed.

(* ---- step D: the loop of parse_header outside the query ---- *)
Lemma header_loop_encode t : bytes t -> ~ In 63 t -> header_loop false t = encode S (filter nt t).
Proof.
  induction t as [|b t IH]; intros Hb Hq; [reflexivity|]. inversion Hb as [|? ? Hb1 Hb2]; subst. unfold is_byte in Hb1.
  assert (Hq' : ~ In 63 t) by (intros Hin; apply Hq; right; exact Hin).
  assert (Hb63 : (b =? 63) = false) by (destruct (b =? 63) eqn:E; [apply N.eqb_eq in E; exfalso; apply Hq; left; exact E|reflexivity]).
  cbn [header_loop filter]. rewrite is_skipped_spec. unfold C02_Enc.not_tnl. change (is_tnl b) with (tnl b).
  destruct (tnl b); cbn [negb]; [exact (IH Hb2 Hq')|].
  rewrite encode_cons. unfold enc1. rewrite hdr_enc_is_controls by exact Hb1.
  destruct (should_encode S b).
  - rewrite percent_encode_spec by exact Hb1. rewrite (IH Hb2 Hq'). reflexivity.
  - rewrite andb_false_r. change T_DU_HDR_QMARK with 63. rewrite Hb63. rewrite (IH Hb2 Hq'). reflexivity.
Qed.

(* ---- step E: the "text/plain" prefix ---- *)
Lemma step12_encode t : bytes t -> match t with b :: _ => tnl b = false | [] => True end ->
  fetch_step12 (encode S (filter nt t))
  = (if starts_with_byte T_DU_HDR_PREFIX_IF t then T_DU_HDR_PREFIX else []) ++ encode S (filter nt t).
Proof.
  intros Hb Hh. destruct t as [|b t]; [reflexivity|]. inversion Hb as [|? ? Hb1 Hb2]; subst. unfold is_byte in Hb1.
  cbn [filter starts_with_byte]. unfold C02_Enc.not_tnl. change (is_tnl b) with (tnl b). rewrite Hh. cbn [negb].
  rewrite encode_cons. unfold enc1. pose proof (se_spec b Hb1) as Hs. change T_DU_HDR_PREFIX_IF with 59.
  destruct (should_encode S b).
  - unfold enc_byte_spec. cbn [app fetch_step12]. change (37 =? 59) with false. replace (b =? 59) with false by lia.
    reflexivity.
  - cbn [app fetch_step12]. destruct (b =? 59); reflexivity.
Qed.

(* the first byte of a trimmed header is not a tab / newline; nor is that of a prefix of it *)
Lemma drop_while_head f l : match drop_while f l with b :: _ => f b = false | [] => True end.
Proof. induction l as [|c r IH]; [exact I|]. cbn [drop_while]. destruct (f c) eqn:E; [exact IH|exact E]. Qed.

Lemma prefix_head (t q l : list N) (P : N -> Prop) : l = t ++ q ->
  match l with b :: _ => P b | [] => True end -> match t with b :: _ => P b | [] => True end.
Proof. intros -> H. destruct t; [exact I|exact H]. Qed.

Definition trimmed_header (h : list N) : list N :=
  drop_while_end is_header_trim (drop_while is_header_trim h).

Lemma trimmed_head h : match trimmed_header h with b :: _ => tnl b = false | [] => True end.
Proof.
  unfold trimmed_header. destruct (drop_while_end_prefix is_header_trim (drop_while is_header_trim h)) as [post Hp].
  apply (prefix_head _ post _ (fun b => tnl b = false) Hp).
  pose proof (drop_while_head is_header_trim h) as Hh. destruct (drop_while is_header_trim h) as [|b r]; [exact I|].
  rewrite is_header_trim_spec in Hh. apply orb_false_iff in Hh. tauto.
Qed.

Lemma notin_prefix (c : N) t q : ~ In c (t ++ q) -> ~ In c t.
Proof. intros H Hin. apply H. apply in_or_app. left. exact Hin. Qed.

Lemma trimmed_sub h : exists p q, h = p ++ trimmed_header h ++ q.
Proof.
  unfold trimmed_header. destruct (drop_while_suffix is_header_trim h) as [p Hp].
  destruct (drop_while_end_prefix is_header_trim (drop_while is_header_trim h)) as [q Hq].
  exists p, q. rewrite <- Hq. exact Hp.
Qed.

(* ---- the header theorem, byte level ---- *)
Definition header_of (h : list N) : list N * bool :=
  let trimmed := trimmed_header h in
  match crate_rev (rev trimmed) with
  | Some bs => (header_string (rev bs), true)
  | None => (header_string trimmed, false)
  end.

Lemma parse_header_eq h :
  parse_header h = bind (Mime.from_str (fst (header_of h)))
                        (fun parsed => Ok (match parsed with Some m => m | None => fallback_mime end, snd (header_of h))).
Proof.
  unfold parse_header, header_of. fold (trimmed_header h). rewrite remove_base64_suffix_eq. cbn [bind].
  destruct (crate_rev (rev (trimmed_header h))); reflexivity.
Qed.

Theorem header_bytes h : bytes h -> ~ In 63 h -> header_of h = fetch_header (encode S (filter nt h)).
Proof.
  intros Hb Hq. unfold header_of, fetch_header.
  assert (Hbf : bytes (filter nt h)).
  { unfold bytes in *. rewrite Forall_forall in *. intros x Hx. apply filter_In in Hx. apply Hb. tauto. }
  rewrite strip_ws_encode by exact Hbf. rewrite <- filter_trim_ht. fold (trimmed_header h).
  destruct (trimmed_sub h) as (p & q & Hsub).
  assert (Hbt : bytes (trimmed_header h)).
  { rewrite Hsub in Hb. apply bytes_app in Hb. destruct Hb as [_ Hb]. apply bytes_app in Hb. tauto. }
  assert (Hqt : ~ In 63 (trimmed_header h)).
  { rewrite Hsub in Hq. intros Hin. apply Hq. apply in_or_app. right. apply in_or_app. left. exact Hin. }
  assert (Hbft : bytes (filter nt (trimmed_header h))).
  { unfold bytes in *. rewrite Forall_forall in *. intros x Hx. apply filter_In in Hx. apply Hbt. tauto. }
  rewrite ewbm_encode by exact Hbft. rewrite <- filter_rev', crate_rev_marker.
  destruct (crate_rev (rev (trimmed_header h))) as [bs|] eqn:Ec; cbn [option_map].
  - destruct (crate_rev_suffix _ _ Ec) as [pp Hpp].
    assert (Et : trimmed_header h = rev bs ++ rev pp) by (rewrite <- rev_app_distr, <- Hpp, rev_involutive; reflexivity).
    assert (Hbb : bytes (rev bs)) by (rewrite Et in Hbt; apply bytes_app in Hbt; tauto).
    assert (Hqb : ~ In 63 (rev bs)) by (rewrite Et in Hqt; exact (notin_prefix _ _ _ Hqt)).
    rewrite <- filter_rev'. f_equal. unfold header_string.
    rewrite header_loop_encode by assumption. symmetry. apply step12_encode; [exact Hbb|].
    apply (prefix_head _ (rev pp) _ (fun b => tnl b = false) Et). exact (trimmed_head h).
  - f_equal. unfold header_string. rewrite header_loop_encode by assumption. symmetry.
    apply step12_encode; [exact Hbt|exact (trimmed_head h)].
Qed.
