(* Proofs/C02_AuthSp.v - class (iv) of DESIGN B.5: special non-file schemes (http, https, ws, wss, ftp)
   parsed without base.  Same canonical form as class (iii) with: a non-empty host parsed by Host::parse,
   the default port elided, a path that always starts with '/', no '\' in any segment (it is a
   separator), the SPECIAL_QUERY set.  Any number of '/' and '\' after the colon is accepted. *)
From RU Require Import Base.Prelude Base.Utf8 Base.Utf8Facts Model.AsciiSet Gen.Tables
  Model.PercentEncoding Model.HostT Model.UrlRecord Model.Parser Model.WF
  Proofs.ListN Proofs.C14_Set Proofs.C14_Enc Proofs.C14_Views Proofs.C02_Enc Proofs.C02_Parts
  Proofs.C02_Opaque Proofs.C02_Path Proofs.C02_PathL1 Proofs.C02_Reach Proofs.C16_RT Proofs.C02_AuthParts
  Proofs.C02_Auth Proofs.C02_AuthWf Proofs.C02_PathSp.

Definition pth_ok_sp (p : pth) : Prop :=
  match p with
  | Some (segs, last) => forallb good_seg_sp segs = true /\ good_seg_sp last = true
  | None => False
  end.

Lemma pth_ok_sp_ok p : pth_ok_sp p -> pth_ok p.
Proof.
  destruct p as [[segs last]|]; [|contradiction]. intros [Hs Hl]. split; [apply good_segs_sp_good; exact Hs | apply good_seg_sp_good; exact Hl].
Qed.

(* ---------- the slashes after the colon ---------- *)
Lemma count_matching_usv f l : forall n rem, usv_list l -> inp_count_matching f l = (n, rem) -> usv_list rem.
Proof.
  induction l as [|c r IH]; intros n rem Hu H; cbn [inp_count_matching] in H.
  - inversion H; subst. constructor.
  - pose proof Hu as Hu0. apply usv_cons in Hu. destruct Hu as [Hc Hr].
    destruct (is_tnl c).
    + destruct (inp_count_matching f r) as [k rm] eqn:E. destruct k as [|pk].
      * inversion H; subst. exact Hu0.
      * inversion H; subst. exact (IH _ _ Hr eq_refl).
    + destruct (f c).
      * destruct (inp_count_matching f r) as [k rm] eqn:E. inversion H; subst. exact (IH _ _ Hr eq_refl).
      * inversion H; subst. exact Hu0.
Qed.

Lemma count_matching_2 X : match X with c :: _ => is_tnl c = false /\ is_slash_or_bslash c = false | [] => False end ->
  inp_count_matching is_slash_or_bslash (47 :: 47 :: X) = (2, X).
Proof.
  destruct X as [|c r]; [contradiction|]. intros [Ht Hs].
  cbn [inp_count_matching]. replace (is_tnl 47) with false by reflexivity.
  replace (is_slash_or_bslash 47) with true by reflexivity. rewrite Ht, Hs. reflexivity.
Qed.

Section PathStartSp.
Variable dbg : bool.
Notation loop := (parse_path_loop dbg CUrlParser STSpecialNotFile).

(* L1: the path start state, special scheme *)
Theorem pps_out_sp ser l hh s3 hh' rem3 : usv_list l -> pe_ok l -> ends_with_byte 47 ser = false ->
  parse_path_start dbg CUrlParser STSpecialNotFile hh ser l = POk (s3, hh', rem3) ->
  exists segs last, forallb good_seg_sp segs = true /\ good_seg_sp last = true
                    /\ s3 = ser ++ path_text segs last /\ usv_list rem3 /\ qh_ok rem3.
Proof.
  intros Hu Hpe Hends. unfold parse_path_start, inp_split_first. cbn [st_is_special]. rewrite Hends. cbn [negb].
  assert (forall l0 s hh1 rm, usv_list l0 ->
            loop (nlen ser) l0 (ser ++ [47]) (nlen (ser ++ [47])) [] hh = POk (s, hh1, rm) ->
            exists segs last, forallb good_seg_sp segs = true /\ good_seg_sp last = true
                              /\ s = ser ++ path_text segs last /\ usv_list rm /\ qh_ok rm) as G.
  { intros l0 s hh1 rm Hu0 Hl.
    assert (ser ++ [47] = Bs ser [] ++ []) as EB by (unfold Bs; cbn; rewrite !app_nil_r; reflexivity).
    rewrite EB in Hl. rewrite app_nil_r in Hl at 2.
    apply (loop_inv_sp ser dbg l0 [] [] [] hh s hh1 rm Hu0) in Hl; try reflexivity.
    2:{ apply pend_nil_ok. }
    destruct Hl as (segs & last & -> & Hs & Hl & _ & ->).
    exists segs, last. unfold Bs, path_text. rewrite <- !app_assoc.
    repeat split; try assumption; [apply usv_cbb_rest; exact Hu0 | apply cbb_rest_head]. }
  destruct l as [|c r].
  - cbn [inp_next drop_while]. unfold parse_path. apply G. constructor.
  - destruct Hpe as [Ht He]. rewrite inp_next_cons by exact Ht.
    apply usv_cons in Hu. destruct Hu as [Hc Hr].
    destruct (is_slash_or_bslash c); unfold parse_path; apply G; [exact Hr | apply usv_cons; split; assumption].
Qed.

(* L3 *)
Theorem pps_canon_sp ser segs last X hh : forallb good_seg_sp segs = true -> good_seg_sp last = true -> qh_ok X ->
  ends_with_byte 47 ser = false ->
  parse_path_start dbg CUrlParser STSpecialNotFile hh ser (path_text segs last ++ X)
  = POk (ser ++ path_text segs last, hh, X).
Proof.
  intros Hs Hl HX Hends. unfold parse_path_start, inp_split_first. cbn [st_is_special]. rewrite Hends. cbn [negb].
  unfold path_text. cbn [app]. rewrite inp_next_cons by reflexivity.
  replace (is_slash_or_bslash 47) with true by reflexivity. unfold parse_path.
  rewrite <- app_assoc. rewrite (path_loop_canon_sp dbg (nlen ser) segs last X (ser ++ [47]) hh Hs Hl HX).
  rewrite <- !app_assoc. reflexivity.
Qed.

End PathStartSp.

Lemma default_port_sp sch : scheme_type_of sch = STSpecialNotFile -> exists d, default_port sch = Some d.
Proof.
  unfold scheme_type_of, default_port.
  destruct (list_eqb sch s_http); [eexists; reflexivity|]. destruct (list_eqb sch s_https); cbn [orb].
  { destruct (list_eqb sch s_ws); eexists; reflexivity. }
  destruct (list_eqb sch s_ws); [eexists; reflexivity|]. destruct (list_eqb sch s_wss); [eexists; reflexivity|].
  destruct (list_eqb sch s_ftp); [eexists; reflexivity|]. cbn [orb]. destruct (list_eqb sch s_file); discriminate.
Qed.

Lemma decimal_last p X : ends_with_byte 47 (X ++ 58 :: decimal p) = false.
Proof.
  unfold ends_with_byte. change (58 :: decimal p) with ([58] ++ decimal p). rewrite !rev_app_distr.
  unfold decimal. rewrite rev_involutive. cbn [decimal_rev app].
  apply N.eqb_neq. pose proof (N.mod_lt p 10 ltac:(lia)). lia.
Qed.

Section AuthSp.
Variable dbg : bool.
Variable hp hpo : list N -> result host.
Variable hd : host -> list N.
Hypothesis HOK : HostRT hp hpo hd.
Hypothesis HAb : host_above hp hpo hd.

Notation auth_ok := (auth_ok hp hpo hd).
Notation auth_url := (auth_url hd).
Notation auth_ser := (auth_ser hd).
Notation auth_front := (auth_front hd).
Notation auth_pre := (auth_pre hd).
Notation host_ok := (host_ok hp hpo hd).

Lemma host_ok_sp_ne h : host_ok STSpecialNotFile h -> h <> HDomain [] /\ host_text_ok (hd h).
Proof. intros [[_ E]|(Hne & Ht & _)]; [discriminate | split; assumption]. Qed.

Lemma front_not_slash sch ui h pt : host_ok STSpecialNotFile h -> ends_with_byte 47 (auth_front sch ui h pt) = false.
Proof.
  intros Hh. destruct (host_ok_sp_ne h Hh) as [_ Ht]. unfold C02_Auth.auth_front. destruct pt as [p|]; cbn [port_text].
  - rewrite !app_assoc. apply decimal_last.
  - rewrite app_nil_r. rewrite app_assoc. apply host_text_last. exact Ht.
Qed.

(* L1: everything after the slashes *)
Theorem ads_out_sp sch l u : scheme_canon sch = true -> scheme_type_of sch = STSpecialNotFile -> usv_list l ->
  after_double_slash dbg hp hpo hd None CUrlParser STSpecialNotFile (nlen sch) (sch ++ [58]) l = POk u ->
  exists ui h pt p q f, auth_ok STSpecialNotFile sch ui h pt p q f /\ pth_ok_sp p /\ u = auth_url sch ui h pt p q f.
Proof.
  intros Hsc Hst Hu. unfold after_double_slash.
  destruct (parse_userinfo STSpecialNotFile ((sch ++ [58]) ++ [47; 47]) l) as [[[ser1 ue] rem]| |] eqn:E1; cbn [pbind]; try discriminate.
  destruct (parse_userinfo_out _ _ _ _ _ _ Hu E1) as (ui & Hui & -> & -> & Hur). clear E1.
  destruct (to_u32 (nlen (((sch ++ [58]) ++ [47; 47]) ++ ui_text ui))) as [hs| |] eqn:Eu; cbn [pbind]; try discriminate.
  apply to_u32_inv in Eu. destruct Eu as [-> Hb1].
  destruct (parse_host_and_port hp hpo hd CUrlParser STSpecialNotFile (nlen sch) (((sch ++ [58]) ++ [47; 47]) ++ ui_text ui) rem)
    as [[[[[ser2 he] hi] port] rem2]| |] eqn:E2; cbn [pbind]; try discriminate.
  destruct (phap_out hp hpo hd HOK HAb STSpecialNotFile eq_refl _ _ _ _ _ _ _ _ Hur E2)
    as (h & Hh & Hpt & Hemp & -> & -> & -> & Hur2 & Hpe). clear E2.
  rewrite (front_eq hd) in *.
  destruct (hi_eqb (hi_of_host h) HI_None && negb (nlen ((sch ++ [58]) ++ [47; 47]) =? nlen (((sch ++ [58]) ++ [47; 47]) ++ ui_text ui))) eqn:Ee;
    [discriminate|].
  destruct (to_u32 (nlen (auth_front sch ui h port))) as [ps| |] eqn:Eu; cbn [pbind]; try discriminate.
  apply to_u32_inv in Eu. destruct Eu as [-> Hb2].
  destruct (parse_path_start dbg CUrlParser STSpecialNotFile true (auth_front sch ui h port) rem2) as [[[s3 hh] rem3]| |] eqn:E3;
    cbn [pbind]; try discriminate.
  destruct (pps_out_sp dbg _ _ _ _ _ _ Hur2 Hpe (front_not_slash sch ui h port Hh) E3) as (segs & last & Hsg & Hla & -> & Hur3 & Hq3). clear E3.
  change (path_text segs last) with (pth_text (Some (segs, last))).
  fold (C02_Auth.auth_pre hd sch ui h port (Some (segs, last))).
  rewrite wqf_auth; [|rewrite (front_len hd); lia | apply (front_css hd)].
  destruct (parse_query_and_fragment None CUrlParser STSpecialNotFile (nlen sch) (auth_pre sch ui h port (Some (segs, last))) rem3)
    as [[[s4 qs] fs]| |] eqn:E4; cbn [pbind]; try discriminate.
  apply pqf_out in E4; [|exact Hur3|reflexivity].
  destruct E4 as (-> & -> & -> & Bq & Bf & Cq & Cf).
  intros H. inversion H; subst u. clear H.
  exists ui, h, port, (Some (segs, last)), (pqf_q STSpecialNotFile rem3), (pqf_f rem3).
  destruct (host_ok_sp_ne h Hh) as [Hne _].
  split; [|split; [split; assumption|]].
  - constructor; try assumption.
    + intros E. contradiction.
    + replace (nfirstn (nlen sch) ((((sch ++ [58]) ++ [47; 47]) ++ ui_text ui) ++ hd h)) with sch in Hpt; [exact Hpt|].
      rewrite <- !app_assoc. symmetry. apply nfirstn_app_len.
    + split; [apply good_segs_sp_good; exact Hsg | apply good_seg_sp_good; exact Hla].
  - unfold C02_Auth.auth_url. f_equal; rewrite ?nlen_app; unfold nlen; cbn [length]; lia.
Qed.

(* L3 *)
Lemma ads_canon_sp sch ui h pt p q f : auth_ok STSpecialNotFile sch ui h pt p q f -> pth_ok_sp p ->
  after_double_slash dbg hp hpo hd None CUrlParser STSpecialNotFile (nlen sch) (sch ++ [58])
    (ui_text ui ++ hd h ++ port_text pt ++ pth_text p ++ qf_text q f)
  = POk (auth_url sch ui h pt p q f).
Proof.
  intros K Kps. destruct K as [Ksch Kst Kui Kh Kemp Kpt Kp Kq Kf Kb Kbq Kbf].
  destruct p as [[segs last]|]; [|contradiction]. destruct Kps as [Ksg Kla].
  assert (qh_ok (qf_text q f)) as Hqf by (unfold qf_text; destruct q; destruct f; cbn; auto).
  pose proof (pth_tail (Some (segs, last)) _ Hqf) as Htail.
  pose proof (front_len hd sch ui h pt) as FL. pose proof (ui_ulen_le ui) as UL.
  destruct (host_ok_sp_ne h Kh) as [Hne _].
  assert (nlen ((sch ++ [58]) ++ [47; 47]) = nlen sch + 3) as L0 by len_lia.
  unfold after_double_slash.
  rewrite parse_userinfo_canon; [| exact Kui | | lia].
  2:{ apply (auth_scan hp hpo hd HOK STSpecialNotFile h pt _ Kh (fun E => proj2 (Kemp E)) (port_ok_le _ _ Kpt) Htail). }
  cbn [pbind]. rewrite to_u32_ok by (rewrite nlen_app; lia). cbn [pbind].
  rewrite phap_unfold.
  rewrite (parse_host_canon hp hpo hd HOK STSpecialNotFile eq_refl h pt _ Kh (fun E => proj2 (Kemp E)) Htail). cbn [pbind].
  rewrite (hap_tail_canon hp hpo hd STSpecialNotFile (nlen sch) _ h pt _ Kh (fun E => proj2 (Kemp E))); [| | exact Htail | rewrite nlen_app; lia].
  2:{ replace (nfirstn (nlen sch) ((((sch ++ [58]) ++ [47; 47]) ++ ui_text ui) ++ hd h)) with sch; [exact Kpt|].
      rewrite <- !app_assoc. symmetry. apply nfirstn_app_len. }
  cbn [pbind]. rewrite (front_eq hd).
  rewrite (hi_some h Hne). cbn [andb]. rewrite to_u32_ok by exact Kb. cbn [pbind].
  cbn [pth_text]. rewrite pps_canon_sp by (try assumption; apply front_not_slash; exact Kh). cbn [pbind].
  change (path_text segs last) with (pth_text (Some (segs, last))).
  fold (C02_Auth.auth_pre hd sch ui h pt (Some (segs, last))).
  rewrite wqf_auth; [| lia | apply (front_css hd)].
  rewrite (pqf_canon None STSpecialNotFile (nlen sch) (auth_pre sch ui h pt (Some (segs, last))) q f); try assumption; [|reflexivity].
  cbn [pbind]. unfold C02_Auth.auth_url, C02_Auth.auth_ser. f_equal. f_equal; rewrite ?nlen_app; unfold nlen; cbn [length]; lia.
Qed.

Lemma plain_not_slash c : plainc true c = true -> is_tnl c = false /\ is_slash_or_bslash c = false.
Proof.
  unfold plainc, auth_delim, is_slash_or_bslash. intros H. apply andb_true_iff in H. destruct H as [H H3].
  apply andb_true_iff in H. destruct H as [H1 _]. apply negb_true_iff in H1, H3. split; [exact H1|].
  destruct (c =? 47), (c =? 92); try reflexivity; cbn in H3; try discriminate;
    destruct (c =? 63), (c =? 35); discriminate.
Qed.

Lemma rest_head ui h X : ui_ok ui -> host_ok STSpecialNotFile h ->
  match ui_text ui ++ hd h ++ X with c :: _ => is_tnl c = false /\ is_slash_or_bslash c = false | [] => False end.
Proof.
  intros Hui Hh. destruct (host_ok_sp_ne h Hh) as [_ Ht]. destruct (host_text_facts _ Ht) as [Hf _]. destruct Ht as (_ & Hnn & _).
  assert (forall u Y, clean T_USERINFO u = true -> u <> [] ->
            match u ++ Y with c :: _ => is_tnl c = false /\ is_slash_or_bslash c = false | [] => False end) as G.
  { intros u Y Hu Hne. destruct u as [|c u']; [contradiction|]. cbn [app]. apply plain_not_slash.
    pose proof (clean_ui_plain true _ Hu) as Hp. cbn [forallb] in Hp. apply andb_true_iff in Hp. tauto. }
  destruct ui as [|u|u p]; cbn [ui_ok ui_text] in *.
  - cbn [app]. destruct (hd h) as [|c t]; [contradiction|]. cbn [app]. apply plain_not_slash.
    cbn [forallb] in Hf. apply andb_true_iff in Hf. tauto.
  - destruct Hui as [Hu Hne]. rewrite <- app_assoc. apply G; assumption.
  - destruct Hui as (Hu & _ & _). destruct u as [|c u']; [cbn [app]; split; reflexivity|].
    rewrite <- app_assoc. apply G; [exact Hu | discriminate].
Qed.

(* L3 for the class *)
Theorem reparse_special_form sch ui h pt p q f : auth_ok STSpecialNotFile sch ui h pt p q f -> pth_ok_sp p ->
  parse_url dbg hp hpo hd None None (auth_ser sch ui h pt p q f) = POk (auth_url sch ui h pt p q f).
Proof.
  intros K Kps. pose proof (auth_ser_okc hp hpo hd HOK _ _ _ _ _ _ _ _ K) as Hokc.
  pose proof (ads_canon_sp _ _ _ _ _ _ _ K Kps) as Hads.
  destruct K as [Ksch Kst Kui Kh Kemp Kpt Kp Kq Kf Kb Kbq Kbf].
  unfold parse_url. rewrite trim_c0_id by (apply all_above_edge; apply okc_above; exact Hokc).
  rewrite (auth_ser_shape hd). rewrite parse_scheme_canon by exact Ksch.
  unfold parse_with_scheme. rewrite Kst.
  rewrite to_u32_ok by (rewrite (front_len hd) in Kb; lia). cbn [pbind].
  rewrite count_matching_2 by (apply rest_head; assumption).
  exact Hads.
Qed.

(* L1 for the class, from the input *)
Theorem parse_special_out input sch rem u : usv_list input ->
  parse_scheme CUrlParser (input_new_trim_c0 input) = Some (sch, rem) ->
  scheme_type_of sch = STSpecialNotFile ->
  parse_url dbg hp hpo hd None None input = POk u ->
  exists ui h pt p q f, auth_ok STSpecialNotFile sch ui h pt p q f /\ pth_ok_sp p /\ u = auth_url sch ui h pt p q f.
Proof.
  intros Hu Hs Hst. unfold parse_url. rewrite Hs. unfold parse_with_scheme. rewrite Hst.
  destruct (to_u32 (nlen sch)) as [se| |] eqn:Eu; cbn [pbind]; try discriminate.
  apply to_u32_inv in Eu. destruct Eu as [-> Hb0].
  pose proof (scheme_rem_usv input sch rem Hu Hs) as Hur.
  destruct (inp_count_matching is_slash_or_bslash rem) as [n remaining] eqn:Ec.
  pose proof (count_matching_usv _ _ _ _ Hur Ec) as Hur'.
  apply ads_out_sp; [exact (parse_scheme_out _ _ _ Hs) | exact Hst | exact Hur'].
Qed.

End AuthSp.
