(* Proofs/C04_SetPath.v - Url::set_path and path_segments_mut sessions reach no panic site on a
   well-formed record (wf_b), both configurations:
   - parse_path_start is total in the Parser and Setter contexts, any scheme type, any text in front;
   - set_path dbg u p = Some _ for EVERY argument (no scalar-value hypothesis);
   - a path_segments_mut session (any list of clear / pop_if_empty / pop / push / extend, then drop) panics
     exactly when debug assertions are on, the URL is not cannot-be-a-base, its scheme is special and the byte at
     path_start is not '/' (psm_assert_fails: PathSegmentsMut::new's debug_assert; a record the parser never
     produces - special URLs always have a path - but wf_b allows it). *)
From RU Require Import Base.Prelude Base.Utf8 Model.AsciiSet Gen.Tables Model.PercentEncoding
  Model.HostT Model.UrlRecord Model.Parser Model.WF Model.Setters
  Proofs.ListN Proofs.C06_List Proofs.C02_Parts Proofs.C03_WF Proofs.C06_WFI Proofs.C06_Tail Proofs.C06_Steps
  Proofs.C06_Suffix Proofs.C06_Path
  Proofs.C04_PathTotal Proofs.C04_ParseTotal Proofs.C04_PathFile Proofs.C04_ParseFile Proofs.C04_PathCtx.

(* ---------- parse_path_start, Parser and Setter contexts ---------- *)
Section PathStartCtx.
Variables (dbg : bool) (ctx : context) (st : scheme_type).
Hypothesis Hctx : ctx_eqb ctx CPathSegmentSetter = false.

Theorem parse_path_start_ctx hh ser l :
  exists s' hh' rem, parse_path_start dbg ctx st hh ser l = POk (s', hh', rem) /\ nlen ser <= nlen s'.
Proof using Hctx.
  assert (forall X, exists s' hh' rem, parse_path dbg ctx st hh (nlen ser) (ser ++ [47]) X = POk (s', hh', rem)
                                       /\ nlen ser <= nlen s') as Hpush.
  { intros X. destruct (parse_path_ctx dbg ctx st (nlen ser) (nlen ser) ltac:(lia) hh (ser ++ [47]) X
                          (seg_inv_snoc (nlen ser) (nlen ser) ser ltac:(lia) ltac:(lia))) as (s2 & hh' & rem & E & Ha & _).
    eexists _, hh', rem. split; [exact E|].
    assert (nlen ser <= nlen s2) as L by (eapply pre_len; [exact Ha | rewrite nlen_app; lia]).
    unfold file_path_fixup. destruct (st_is_file st); [|exact L].
    rewrite nlen_app, nlen_nfirstn by exact L. lia. }
  assert (ends_with_byte 47 ser = true ->
          exists s' hh' rem, parse_path dbg ctx st hh (nlen ser) ser l = POk (s', hh', rem) /\ nlen ser <= nlen s') as Hends.
  { intros Ee. apply ends_with_byte_nnth in Ee. destruct Ee as [E1 E2].
    destruct (parse_path_ctx dbg ctx st (nlen ser) (nlen ser) ltac:(lia) hh ser l) as (s2 & hh' & rem & E & Ha & _).
    { unfold seg_inv. repeat split; try lia. exact E2. }
    eexists _, hh', rem. split; [exact E|].
    assert (nlen ser <= nlen s2) as L by (eapply pre_len; [exact Ha | lia]).
    unfold file_path_fixup. destruct (st_is_file st); [|exact L].
    rewrite nlen_app, nlen_nfirstn by exact L. lia. }
  assert (drop_while is_tnl l = [] ->
          exists s' hh' rem, parse_path dbg ctx st hh (nlen ser) ser l = POk (s', hh', rem) /\ nlen ser <= nlen s') as Hnone.
  { intros Ed. unfold parse_path. rewrite loop_ctx_drop_tnl, Ed. cbn [parse_path_loop push_pending].
    rewrite (finish_empty_any dbg st (nlen ser) ser false hh). cbn [pbind].
    eexists _, hh, []. split; [reflexivity|].
    unfold file_path_fixup. destruct (st_is_file st); [|lia].
    rewrite nlen_app, nlen_nfirstn by lia. lia. }
  unfold parse_path_start, inp_split_first, inp_next.
  destruct (drop_while is_tnl l) as [|c r] eqn:Ed.
  - destruct (st_is_special st); [|apply Hnone; reflexivity].
    destruct (ends_with_byte 47 ser) eqn:Ee; cbn [negb]; [apply Hends; reflexivity | apply Hpush].
  - destruct (st_is_special st) eqn:Esp.
    + destruct (ends_with_byte 47 ser) eqn:Ee; cbn [negb]; [apply Hends; reflexivity|].
      destruct (is_slash_or_bslash c); apply Hpush.
    + destruct ((c =? 63) || (c =? 35)); [exists ser, hh, l; split; [reflexivity | lia]|].
      destruct (c =? 47) eqn:E47; [|apply Hpush].
      apply N.eqb_eq in E47. subst c. unfold parse_path. rewrite loop_ctx_drop_tnl, Ed.
      cbn [parse_path_loop]. change (is_tnl 47) with false. cbv iota. rewrite Hctx. cbn [negb andb push_pending].
      rewrite N.eqb_refl. cbn [orb].
      rewrite (finish_empty_any dbg st (nlen ser) ser true hh). cbn [pbind].
      destruct (loop_ctx dbg ctx st (nlen ser) (nlen ser) ltac:(lia) r (ser ++ [47]) (nlen (ser ++ [47])) [] hh) as (s2 & hh' & rem & E & Ha & _).
      { left. apply seg_inv_snoc; lia. }
      eexists _, hh', rem. split; [exact E|].
      assert (nlen ser <= nlen s2) as L by (eapply pre_len; [exact Ha | rewrite nlen_app; lia]).
      unfold file_path_fixup. destruct (st_is_file st); [|exact L].
      rewrite nlen_app, nlen_nfirstn by exact L. lia.
Qed.
End PathStartCtx.

(* ---------- Url::set_path ---------- *)
Lemma tail_ge_path_end u : wf_b u = true ->
  (match query_start u with Some i => path_end u <= i | None => True end)
  /\ (match fragment_start u with Some i => path_end u <= i | None => True end).
Proof.
  intros W. pose proof (qf_qf (wf_qf_facts u W)) as Q3. unfold path_end.
  destruct (query_start u), (fragment_start u); split; try exact I; lia.
Qed.

Lemma restore_after_path_total dbg u v s a : wf_b u = true ->
  query_start v = query_start u -> fragment_start v = fragment_start u ->
  exists u', restore_after_path dbg (set_ser v s) (path_end u) a = Some u'.
Proof.
  intros W Eq Ef. destruct (tail_ge_path_end u W) as [Gq Gf].
  unfold restore_after_path. cbn [ser set_ser query_start fragment_start]. rewrite Eq, Ef.
  rewrite !adjust_opt_ok by assumption. cbn [bindo]. eexists. reflexivity.
Qed.

Theorem set_path_total dbg u p : wf_b u = true -> exists u', set_path dbg u p = Some u'.
Proof.
  intros W. unfold set_path. rewrite (take_after_path_eval u W). cbn [bindo].
  destruct (wf_ps_le_path_end u W) as [B5 B6]. pose proof (wf_se_lt_ps u W) as B0.
  assert (nlen (nfirstn (path_end u) (ser u)) = path_end u) as Lpe by (apply nlen_nfirstn; exact B6).
  unfold cannot_be_a_base, u_slice_from. cbn [ser set_ser scheme_end].
  rewrite slice_from_o_some by (rewrite Lpe; lia). cbn [bindo].
  unfold u_scheme_type, scheme, u_slice_to. cbn [ser set_ser scheme_end].
  rewrite slice_to_o_some by (rewrite Lpe; lia). cbn [bindo]. cbn [path_start set_ser].
  rewrite Lpe.
  destruct (negb (starts_with [47] (nskipn (scheme_end u + 1) (nfirstn (path_end u) (ser u))))).
  - destruct (inp_split_prefix_char 47 (input_new_no_trim p)) as [r|];
      cbn [bindo]; apply (restore_after_path_total dbg u u _ _ W); reflexivity.
  - destruct (parse_path_start_ctx dbg CSetter (scheme_type_of (nfirstn (scheme_end u) (nfirstn (path_end u) (ser u))))
                eq_refl true (truncate (nfirstn (path_end u) (ser u)) (path_start u)) p) as (s & hh & rem & E & _).
    rewrite E. cbn [unpres bindo]. apply (restore_after_path_total dbg u u _ _ W); reflexivity.
Qed.

(* ---------- path_segments_mut ---------- *)
(* PathSegmentsMut::new asserts (debug builds) that the path of a special URL starts with '/' *)
Definition special_path_ok (u : url) : bool :=
  negb (st_is_special (scheme_type_of (b_scheme u))) || byte_eqb (ser u) (path_start u) 47.
Definition psm_assert_fails (u : url) : bool :=
  byte_eqb (ser u) (scheme_end u + 1) 47 && negb (special_path_ok u).

(* what an editing session keeps: the text in front of the path and, unless the path is empty, its '/' *)
Definition path_text_ok (u : url) (s : list N) : Prop :=
  agree_pre (path_start u) (ser u) s /\ path_start u <= nlen s
  /\ (nlen s = path_start u \/ nnth s (path_start u) = Some 47).

Definition psm_ok (u : url) (p : psm) : Prop :=
  path_start (psm_url p) = path_start u /\ scheme_end (psm_url p) = scheme_end u
  /\ query_start (psm_url p) = query_start u /\ fragment_start (psm_url p) = fragment_start u
  /\ after_first_slash p = path_start u + 1 /\ psm_old_pos p = path_end u
  /\ path_text_ok u (ser (psm_url p)).

Lemma psm_with_ok u p s : psm_ok u p -> path_text_ok u s -> psm_ok u (psm_with p s).
Proof. intros (H1 & H2 & H3 & H4 & H5 & H6 & _) Hs. unfold psm_ok, psm_with. cbn. tauto. Qed.

Lemma nlen_nfirstn_min n l : nlen (nfirstn n l) = N.min n (nlen l).
Proof.
  destruct (N.le_gt_cases n (nlen l)) as [H|H].
  - rewrite nlen_nfirstn by exact H. lia.
  - rewrite nfirstn_all by lia. lia.
Qed.

(* truncation behind the first '/' *)
Lemma path_text_trunc u s n : path_text_ok u s -> path_start u + 1 <= n -> path_text_ok u (nfirstn n s).
Proof.
  intros (H1 & H2 & H3) Hn. unfold path_text_ok. split; [|split].
  - unfold agree_pre in *. rewrite nfirstn_nfirstn by lia. exact H1.
  - rewrite nlen_nfirstn_min. lia.
  - destruct H3 as [H3|H3].
    + left. rewrite nfirstn_all by lia. exact H3.
    + right. rewrite nnth_nfirstn by lia. exact H3.
Qed.

Lemma fixup_keeps st ps s1 s2 : agree_pre (ps + 1) s1 s2 -> ps + 1 <= nlen s1 -> nnth s1 ps = Some 47 ->
  agree_pre ps s1 (file_path_fixup st ps s2) /\ ps + 1 <= nlen (file_path_fixup st ps s2)
  /\ nnth (file_path_fixup st ps s2) ps = Some 47.
Proof.
  intros Ha L1 H47. pose proof (pre_len _ _ _ Ha L1) as L2.
  destruct (st_is_file st) eqn:Ef.
  - split; [|split].
    + unfold file_path_fixup. rewrite Ef. unfold agree_pre.
      rewrite nfirstn_app_le by (rewrite nlen_nfirstn by lia; lia).
      rewrite nfirstn_nfirstn by lia. apply (pre_firstn _ _ _ _ Ha). lia.
    + unfold file_path_fixup. rewrite Ef. rewrite !nlen_app, nlen_nfirstn by lia. change (nlen [47]) with 1. lia.
    + apply fixup_slash; [exact Ef | lia].
  - unfold file_path_fixup. rewrite Ef. split; [|split].
    + eapply agree_pre_le; [exact Ha | lia].
    + exact L2.
    + rewrite (pre_nnth _ _ _ ps Ha) by lia. exact H47.
Qed.

Section Session.
Variable dbg : bool.

Lemma extend_loop_ok u st segs : forall s, path_text_ok u s ->
  exists s', psm_extend_loop dbg st (path_start u) s segs = Some s' /\ path_text_ok u s'.
Proof.
  induction segs as [|seg rest IH]; intros s Hs; [exists s; split; [reflexivity | exact Hs]|].
  cbn [psm_extend_loop]. destruct (psm_skips seg); [apply IH; exact Hs|].
  set (ps := path_start u) in *.
  set (s1 := if (ps + 1 <? nlen s) || (nlen s =? ps) then s ++ [47] else s).
  destruct Hs as (H1 & H2 & H3).
  assert (agree_pre ps s s1 /\ ps + 1 <= nlen s1 /\ nnth s1 ps = Some 47 /\ seg_inv ps (ps + 1) s1 (nlen s1)) as (A1 & A2 & A3 & A4).
  { subst s1. destruct ((ps + 1 <? nlen s) || (nlen s =? ps)) eqn:Ec.
    - split; [apply agree_pre_app_le; exact H2|]. split; [rewrite nlen_app; change (nlen [47]) with 1; lia|].
      split; [|apply seg_inv_snoc; lia].
      destruct H3 as [H3|H3].
      + rewrite nnth_app_ge by lia. rewrite H3, N.sub_diag. reflexivity.
      + rewrite nnth_app_lt by (apply nnth_lt in H3; exact H3). exact H3.
    - assert (nlen s = ps + 1) as L by lia. destruct H3 as [H3|H3]; [lia|].
      split; [reflexivity|]. split; [lia|]. split; [exact H3|].
      unfold seg_inv. rewrite L. replace (ps + 1 - 1) with ps by lia. repeat split; try lia. exact H3. }
  destruct (parse_path_ctx dbg CPathSegmentSetter st ps (ps + 1) ltac:(lia) true s1 seg A4) as (s2 & hh' & rem & E & Ha & _).
  rewrite E. cbn [unpres bindo]. apply IH.
  destruct (fixup_keeps st ps s1 s2 Ha A2 A3) as (F1 & F2 & F3).
  unfold path_text_ok. fold ps. split; [|split; [lia | right; exact F3]].
  eapply agree_pre_trans; [exact H1|]. eapply agree_pre_trans; [exact A1 | exact F1].
Qed.

Lemma psm_apply_ok u p o : wf_b u = true -> psm_ok u p ->
  exists p', psm_apply dbg p o = Some p' /\ psm_ok u p'.
Proof.
  intros W Hp. pose proof Hp as (P1 & P2 & P3 & P4 & P5 & P6 & Hs). pose proof Hs as (H1 & H2 & H3).
  pose proof (wf_se_lt_ps u W) as B0.
  assert (forall segs, exists p', psm_extend dbg p segs = Some p' /\ psm_ok u p') as Hext.
  { intros segs. unfold psm_extend, u_scheme_type, scheme, u_slice_to. rewrite P2.
    rewrite slice_to_o_some by lia. cbn [bindo]. rewrite P1.
    destruct (extend_loop_ok u (scheme_type_of (nfirstn (scheme_end u) (ser (psm_url p)))) segs _ Hs) as (s' & E & Hs').
    rewrite E. cbn [bindo]. eexists. split; [reflexivity|]. apply psm_with_ok; assumption. }
  destruct o as [| | |sg|sgs]; cbn [psm_apply].
  - eexists. split; [reflexivity|]. unfold psm_clear. apply psm_with_ok; [exact Hp|].
    rewrite P5. apply path_text_trunc; [exact Hs | lia].
  - eexists. split; [reflexivity|]. unfold psm_pop_if_empty. rewrite P5.
    destruct (nlen (ser (psm_url p)) <=? path_start u + 1) eqn:E1; [exact Hp|].
    destruct (ends_with_byte 47 (nskipn (path_start u + 1) (ser (psm_url p)))); [|exact Hp].
    apply psm_with_ok; [exact Hp|]. apply path_text_trunc; [exact Hs | lia].
  - eexists. split; [reflexivity|]. unfold psm_pop. rewrite P5.
    destruct (nlen (ser (psm_url p)) <=? path_start u + 1) eqn:E1; [exact Hp|].
    apply psm_with_ok; [exact Hp|]. apply path_text_trunc; [exact Hs | lia].
  - apply Hext.
  - apply Hext.
Qed.

Lemma psm_run_ok u ops : wf_b u = true -> forall p, psm_ok u p ->
  exists p', psm_run dbg p ops = Some p' /\ psm_ok u p'.
Proof.
  intros W. induction ops as [|o r IH]; intros p Hp; [exists p; split; [reflexivity | exact Hp]|].
  cbn [psm_run]. destruct (psm_apply_ok u p o W Hp) as (p1 & E & Hp1). rewrite E. cbn [bindo]. apply IH. exact Hp1.
Qed.

(* a special URL that is not cannot-be-a-base and whose byte at path_start is '/' has that byte inside the path *)
Lemma slash_in_path u : wf_b u = true -> byte_eqb (ser u) (path_start u) 47 = true -> path_start u < path_end u.
Proof.
  intros W H. destruct (wf_ps_le_path_end u W) as [B5 B6]. pose proof (byte_eqb_lt _ _ _ H) as L.
  pose proof (wf_qf_facts u W) as QF. pose proof (qf_q QF) as Q1. pose proof (qf_f QF) as Q2.
  destruct (N.eq_dec (path_start u) (path_end u)) as [E|E]; [|lia]. exfalso.
  apply byte_eqb_true_iff in H. unfold path_end in E.
  destruct (query_start u) as [q|].
  - destruct Q1 as (_ & Qb & _). apply byte_eqb_true_iff in Qb. rewrite <- E in Qb. congruence.
  - destruct (fragment_start u) as [f|]; [|lia].
    destruct Q2 as (_ & Qb & _). apply byte_eqb_true_iff in Qb. rewrite <- E in Qb. congruence.
Qed.

Theorem session_panics_iff u ops : wf_b u = true ->
  (path_segments_session dbg u ops = None <-> dbg = true /\ psm_assert_fails u = true).
Proof.
  intros W. unfold path_segments_session, path_segments_mut. rewrite (cannot_be_a_base_eval u W). cbn [bindo].
  unfold psm_assert_fails.
  destruct (byte_eqb (ser u) (scheme_end u + 1) 47) eqn:Ecbb; cbn [negb andb].
  2:{ split; [discriminate | intros [_ X]; discriminate]. }
  destruct (wf_ps_le_path_end u W) as [B5 B6]. pose proof (wf_se_lt_ps u W) as B0.
  assert (nlen (nfirstn (path_end u) (ser u)) = path_end u) as Lpe by (apply nlen_nfirstn; exact B6).
  unfold psm_new. rewrite (take_after_path_eval u W). cbn [bindo].
  unfold u_scheme_type, scheme, u_slice_to. cbn [ser set_ser scheme_end path_start].
  rewrite slice_to_o_some by (rewrite Lpe; lia). cbn [bindo].
  rewrite nfirstn_nfirstn by lia. rewrite Lpe.
  unfold special_path_ok, b_scheme.
  set (st := scheme_type_of (nfirstn (scheme_end u) (ser u))).
  set (u1 := set_ser u (nfirstn (path_end u) (ser u))).
  (* the state after a successful open *)
  assert (psm_ok u (mkPsm u1 (path_start u + 1) (nskipn (path_end u) (ser u)) (path_end u))) as Hopen.
  { unfold psm_ok, u1. cbn. repeat split; try reflexivity.
    - apply agree_pre_nfirstn_ge. exact B5.
    - rewrite Lpe. exact B5.
    - rewrite Lpe. destruct (N.eq_dec (path_end u) (path_start u)) as [E|E]; [left; exact E|]. right.
      rewrite nnth_nfirstn by lia. apply base_path_slash; [exact W | apply byte_eqb_true_iff; exact Ecbb | lia]. }
  assert (forall p, psm_ok u p ->
            (p' <- psm_run dbg p ops ;; u' <- psm_close dbg p' ;; Some (u', SOk)) <> None) as Hrest.
  { intros p Hp. destruct (psm_run_ok u ops W p Hp) as (p' & E & Hp'). rewrite E. cbn [bindo].
    destruct Hp' as (_ & _ & P3 & P4 & _ & P6 & _). unfold psm_close. rewrite P6.
    destruct (psm_url p') as [s' a1 a2 a3 a4 a5 a6 a7 a8 a9] eqn:Eu. cbn [query_start fragment_start] in P3, P4.
    destruct (restore_after_path_total dbg u (mkUrl s' a1 a2 a3 a4 a5 a6 a7 a8 a9) s' (psm_after_path p') W P3 P4) as (u' & E').
    unfold set_ser in E'. cbn in E'. rewrite E'. discriminate. }
  (* the debug assertion *)
  assert (path_start u < path_end u -> byte_is u1 (path_start u) 47 = Some true) as Hbyte.
  { intros Hlt. unfold byte_is, byte_at, u1. cbn [ser set_ser]. rewrite nnth_nfirstn by lia.
    rewrite (base_path_slash u W ltac:(apply byte_eqb_true_iff; exact Ecbb) Hlt). reflexivity. }
  destruct dbg.
  - destruct (st_is_special st) eqn:Esp; cbn [negb orb].
    + destruct (byte_eqb (ser u) (path_start u) 47) eqn:E47; cbn [negb].
      * rewrite (Hbyte (slash_in_path u W E47)). cbn [bindo assert_o].
        split; [intros X; exfalso; revert X; apply Hrest; exact Hopen | intros [_ X]; discriminate].
      * split; [intros _; split; reflexivity|]. intros _.
        unfold byte_is, byte_at, u1. cbn [ser set_ser].
        destruct (nnth (nfirstn (path_end u) (ser u)) (path_start u)) as [x|] eqn:En; [|reflexivity].
        cbn [bindo]. pose proof (nnth_lt _ _ _ En) as Lx. rewrite Lpe in Lx. rewrite nnth_nfirstn in En by lia.
        unfold byte_eqb in E47. rewrite En in E47. rewrite E47. reflexivity.
    + split; [|intros [_ X]; discriminate]. intros X. exfalso. revert X.
      destruct (path_end u =? path_start u) eqn:Ee.
      * cbn [bindo]. apply Hrest. exact Hopen.
      * rewrite (Hbyte ltac:(lia)). cbn [bindo assert_o]. apply Hrest. exact Hopen.
  - cbn [bindo]. split; [intros X; exfalso; revert X; apply Hrest; exact Hopen | intros [X _]; discriminate].
Qed.

Corollary session_total u ops : wf_b u = true -> special_path_ok u = true ->
  exists r, path_segments_session dbg u ops = Some r.
Proof.
  intros W Hs. destruct (path_segments_session dbg u ops) as [r|] eqn:E; [exists r; reflexivity|].
  apply (session_panics_iff u ops W) in E. destruct E as [_ E]. unfold psm_assert_fails in E. rewrite Hs in E.
  rewrite andb_false_r in E. discriminate.
Qed.
End Session.

(* the excluded record: "http://h" with an empty path satisfies wf_b; opening an editing session on it fails
   the debug assertion of PathSegmentsMut::new *)
Definition psm_w : url := mkUrl [104;116;116;112;58;47;47;104] 4 7 7 8 HI_Domain None 8 None None.
Lemma psm_witness : wf_b psm_w = true /\ psm_assert_fails psm_w = true
  /\ path_segments_session true psm_w [] = None /\ path_segments_session false psm_w [] = Some (psm_w, SOk).
Proof. vm_compute. repeat split; reflexivity. Qed.

(* finding F-C04-12 (with F-C02-8): set_path never panics on "a:/a/b", but set_path("//") leaves "a://", a record
   outside wf_b, on which Position slicing in component order panics in both configurations *)
Definition w_c04_12 : url := mkUrl [97; 58; 47; 97; 47; 98] 1 2 2 2 HI_None None 2 None None.
Lemma c04_12_witness :
  wf_b w_c04_12 = true
  /\ exists u', set_path true w_c04_12 [47; 47] = Some u' /\ set_path false w_c04_12 [47; 47] = Some u'
     /\ ser u' = [97; 58; 47; 47] /\ wf_b u' = false
     /\ index_range true u' BeforeUsername AfterUsername = None
     /\ index_range false u' BeforeUsername AfterUsername = None.
Proof.
  split; [vm_compute; reflexivity|]. eexists. split; [vm_compute; reflexivity|].
  vm_compute. repeat split; reflexivity.
Qed.
