(* Proofs/C05_PathSpSteps.v - "the path of a special-scheme URL contains no backslash" along the mutators.
   For a special URL (which has an authority: AS) every gated step either keeps path() or writes a new path through the
   path states of a special scheme (Url::set_path, quirks set_pathname: C05_PathSp.parse_path_start_nb;
   path_segments_mut sessions: SPECIAL_PATH_SEGMENT encodes '\').  The scheme class only goes from special to special
   (C05_HostText.FR), so BSg u := special scheme -> path() has no '\' is an invariant of CReachF. *)
From RU Require Import Base.Prelude Base.Utf8 Base.Utf8Facts Model.AsciiSet Gen.Tables Model.PercentEncoding
  Model.HostT Model.UrlRecord Model.Parser Model.Setters Model.WF Model.FormUrlencoded Model.QueryPairs
  Proofs.ListN Proofs.C03_WF Proofs.C05_Enc Proofs.C05_Parser Proofs.C05_Setters Proofs.C05_History
  Proofs.C05_Frag Proofs.C05_Query Proofs.C05_Comp Proofs.C05_PathClean Proofs.C05_CompSteps Proofs.C05_CompHist
  Proofs.C06_List Proofs.C06_WFI Proofs.C06_Tail Proofs.C06_Steps Proofs.C06_Suffix
  Proofs.C06_Front Proofs.C06_Atomic Proofs.C06_FragQuery Proofs.C06_Port Proofs.C06_Cred Proofs.C06_Scheme
  Proofs.C06_HostNone Proofs.C06_Host Proofs.C06_PathParser Proofs.C06_Path Proofs.C06_Segments Proofs.C06_PathNoAuth
  Proofs.C06_Main Proofs.C06_PathMore Proofs.C06_Quirks Proofs.C04_ParseTotal Proofs.C03_ReachParts
  Proofs.C05_ParseAll Proofs.C05_CompSteps2 Proofs.C05_CompReach Proofs.C05_BaseOk Proofs.C05_CompSteps3 Proofs.C05_Alphabet
  Proofs.C05_AuthOfs Proofs.C05_AuthParse Proofs.C05_HostText Proofs.C05_PathSp Proofs.C05_PathSpParse.

(* the clause on the getter *)
Definition BSg (u : url) : Prop := spb u = true -> forall p, path u = Some p -> forallb nb p = true.

Lemma bs_bsg u : wf_b u = true -> BS u -> BSg u.
Proof. intros W H Hs p Hp. rewrite (path_eval u W) in Hp. inversion Hp; subst p. exact (H Hs). Qed.

Lemma bsg_bs u : wf_b u = true -> BSg u -> BS u.
Proof. intros W H Hs. exact (H Hs _ (path_eval u W)). Qed.

(* ================= path_segments_mut sessions on a special URL ================= *)
Section SessNB.
Variable dbg : bool.

Lemma pinvb_extend_loop ps s0 (Hps : nlen s0 = ps) st (Hsp : st_is_special st = true) segs : forall x s',
  psm_extend_loop dbg st ps x segs = Some s' -> PInvB ps s0 x -> PInvB ps s0 s'.
Proof.
  induction segs as [|seg rest IH]; intros x s' H I; cbn [psm_extend_loop] in H.
  - inversion H; subst. exact I.
  - destruct (psm_skips seg); [eapply IH; eassumption|].
    set (s1 := if (ps + 1 <? nlen x) || (nlen x =? ps) then x ++ [47] else x) in *.
    assert (PInvB ps s0 s1) as I1.
    { subst s1. destruct ((ps + 1 <? nlen x) || (nlen x =? ps)); [|exact I]. apply (pinvb_app ps s0 st Hps); [exact I | reflexivity]. }
    destruct (parse_path dbg CPathSegmentSetter st true ps s1 seg) as [[[s2 hh] rem]| |] eqn:Epp;
      cbn [unpres bindo] in H; try discriminate.
    eapply IH; [exact H|]. exact (pinvb_parse_path dbg ps s0 CPathSegmentSetter st Hps Hsp _ _ _ _ _ _ Epp I1).
Qed.

Lemma scheme_type_set_ser u x : scheme_end u <= nlen x ->
  u_scheme_type (set_ser u x) = Some (scheme_type_of (nfirstn (scheme_end u) x)).
Proof.
  intros L. unfold u_scheme_type, scheme, u_slice_to, slice_to_o. cbn [ser set_ser scheme_end].
  replace (scheme_end u <=? nlen x) with true by lia. reflexivity.
Qed.

Lemma session_nb u ops u' : wf_b u = true ->
  byte_eqb (ser u) (scheme_end u + 1) 47 = true -> spb u = true ->
  forallb nb (piece u (path_start u) (path_end u)) = true ->
  path_segments_session dbg u ops = Some (u', SOk) ->
  exists P, u' = with_path u P /\ forallb nb P = true.
Proof.
  intros W Hsl Hsp Hnb H. unfold piece in Hnb.
  destruct (wf_ps_le_path_end u W) as [B5 B6]. pose proof (wf_se_lt_ps u W) as B0.
  set (pe := path_end u) in *. set (ps := path_start u) in *.
  set (s0 := nfirstn ps (ser u)).
  assert (nlen s0 = ps) as Ls0 by (apply nlen_nfirstn; lia).
  set (x0 := nfirstn pe (ser u)).
  assert (nlen x0 = pe) as Lx0 by (apply nlen_nfirstn; exact B6).
  assert (PInvB ps s0 x0) as I0.
  { split.
    - unfold x0, s0. apply nfirstn_nfirstn. exact B5.
    - unfold x0. replace pe with (ps + (pe - ps)) by lia. rewrite nskipn_nfirstn_comm. exact Hnb. }
  (* the scheme type read from a serialization that keeps the front *)
  assert (forall x, PInvB ps s0 x -> u_scheme_type (set_ser u x) = Some (scheme_type_of (b_scheme u))) as Hst.
  { intros x Ix. pose proof (pinvb_len ps s0 STFile Ls0 x Ix) as Lx. rewrite scheme_type_set_ser by lia.
    destruct Ix as [J1 _]. unfold b_scheme. f_equal. f_equal.
    rewrite <- (nfirstn_nfirstn (scheme_end u) ps x) by lia. rewrite J1. unfold s0. apply nfirstn_nfirstn. lia. }
  unfold path_segments_session, path_segments_mut in H.
  rewrite (cannot_be_a_base_eval u W) in H. cbn [bindo] in H.
  rewrite Hsl in H. cbn [negb] in H.
  unfold psm_new in H. rewrite (take_after_path_eval u W) in H. cbn [bindo] in H. fold pe x0 in H.
  destruct (u_scheme_type (set_ser u x0)) as [st|] eqn:Est; cbn [bindo] in H; [|discriminate].
  match type of H with bindo (bindo (bindo ?c _) _) _ = _ => destruct c as [[]|]; cbn [bindo] in H; [|discriminate] end.
  cbn [ser set_ser path_start] in H. fold ps in H. rewrite Lx0 in H.
  set (p0 := mkPsm (set_ser u x0) (ps + 1) (nskipn pe (ser u)) pe) in H.
  destruct (psm_run dbg p0 ops) as [p1|] eqn:Erun; cbn [bindo] in H; [|discriminate].
  assert (forall ops p q, psm_run dbg p ops = Some q ->
            psm_url p = set_ser u (ser (psm_url p)) -> after_first_slash p = ps + 1 ->
            psm_after_path p = nskipn pe (ser u) -> psm_old_pos p = pe -> PInvB ps s0 (ser (psm_url p)) ->
            psm_url q = set_ser u (ser (psm_url q)) /\ psm_after_path q = nskipn pe (ser u) /\ psm_old_pos q = pe
            /\ PInvB ps s0 (ser (psm_url q))) as Hrun.
  { clear - Ls0 Hst Hsp. intros ops0. induction ops0 as [|o rest IH]; intros p q Hr E1 E2 E3 E4 I.
    - cbn in Hr. inversion Hr; subst. tauto.
    - cbn [psm_run] in Hr. destruct (psm_apply dbg p o) as [p'|] eqn:Eo; cbn [bindo] in Hr; [|discriminate].
      assert (psm_url p' = set_ser u (ser (psm_url p')) /\ after_first_slash p' = ps + 1
              /\ psm_after_path p' = nskipn pe (ser u) /\ psm_old_pos p' = pe /\ PInvB ps s0 (ser (psm_url p'))) as (F1 & F2 & F3 & F4 & F5).
      { assert (forall x, PInvB ps s0 x ->
                  let r := psm_with p x in
                  psm_url r = set_ser u (ser (psm_url r)) /\ after_first_slash r = ps + 1
                  /\ psm_after_path r = nskipn pe (ser u) /\ psm_old_pos r = pe /\ PInvB ps s0 (ser (psm_url r))) as Hw.
        { intros x Ix. unfold psm_with. cbn [psm_url after_first_slash psm_after_path psm_old_pos ser set_ser].
          splits; try assumption. rewrite E1. reflexivity. }
        assert (forall segs s', psm_extend dbg p segs = Some s' ->
                  psm_url s' = set_ser u (ser (psm_url s')) /\ after_first_slash s' = ps + 1
                  /\ psm_after_path s' = nskipn pe (ser u) /\ psm_old_pos s' = pe /\ PInvB ps s0 (ser (psm_url s'))) as Hext.
        { intros segs s' Es. unfold psm_extend in Es. rewrite E1 in Es. rewrite (Hst _ I) in Es. cbn [bindo] in Es.
          cbn [path_start set_ser ser] in Es. fold ps in Es.
          destruct (psm_extend_loop dbg (scheme_type_of (b_scheme u)) ps (ser (psm_url p)) segs) as [s1|] eqn:El;
            cbn [bindo] in Es; [|discriminate].
          inversion Es; subst s'. apply Hw.
          exact (pinvb_extend_loop ps s0 Ls0 _ Hsp _ _ _ El I). }
        destruct o; cbn [psm_apply] in Eo.
        - inversion Eo; subst p'. unfold psm_clear. rewrite E2. apply Hw. unfold truncate.
          apply (pinvb_trunc ps s0 STFile Ls0); [exact I | lia].
        - inversion Eo; subst p'. unfold psm_pop_if_empty. rewrite E2.
          destruct (nlen (ser (psm_url p)) <=? ps + 1) eqn:El; [tauto|].
          destruct (ends_with_byte 47 (nskipn (ps + 1) (ser (psm_url p)))); [|tauto].
          apply Hw. apply (pinvb_trunc ps s0 STFile Ls0); [exact I | lia].
        - inversion Eo; subst p'. unfold psm_pop. rewrite E2.
          destruct (nlen (ser (psm_url p)) <=? ps + 1) eqn:El; [tauto|].
          apply Hw. unfold truncate. apply (pinvb_trunc ps s0 STFile Ls0); [exact I | lia].
        - unfold psm_push in Eo. exact (Hext _ _ Eo).
        - exact (Hext _ _ Eo). }
      eapply IH; eassumption. }
  destruct (Hrun ops p0 p1 Erun eq_refl eq_refl eq_refl eq_refl I0) as (R1 & R3 & R4 & (I1 & I2)).
  destruct (psm_close dbg p1) as [uf|] eqn:Ecl; cbn [bindo] in H; [|discriminate].
  inversion H; subst uf. clear H.
  unfold psm_close, restore_after_path in Ecl. rewrite R3, R4 in Ecl. rewrite R1 in Ecl.
  cbn [ser set_ser query_start fragment_start] in Ecl.
  set (x1 := ser (psm_url p1)) in *.
  assert (match query_start u with Some i => pe <= i | None => True end) as Gq.
  { unfold pe, path_end. destruct (query_start u); [lia | exact I]. }
  assert (match fragment_start u with Some i => pe <= i | None => True end) as Gf.
  { pose proof (wf_qf_facts u W) as QF. pose proof (qf_qf QF) as Q3. pose proof (qf_f QF) as Q2. unfold pe, path_end.
    destruct (query_start u), (fragment_start u); try exact I; lia. }
  rewrite !adjust_opt_ok in Ecl by assumption. cbn [bindo] in Ecl.
  set (P := nskipn ps x1).
  assert (x1 = s0 ++ P) as Ex1 by (unfold P; rewrite <- I1; symmetry; apply nfirstn_nskipn).
  exists P. split; [|exact I2].
  inversion Ecl. unfold with_path. fold pe ps. rewrite Ex1. rewrite nlen_app, Ls0. rewrite <- app_assoc. reflexivity.
Qed.

End SessNB.

(* ================= what a gated step does to path() of a special URL ================= *)
Lemma special_layout u : wf_b u = true -> AS u -> spb u = true ->
  has_authority_b u = true /\ byte_eqb (ser u) (scheme_end u + 1) 47 = true /\ is_opaque_b u = false.
Proof.
  intros W A Hs. pose proof (wf_ao_auth u W (A Hs)) as Ha. pose proof (auth_sl1 u Ha) as S1. unfold sl1 in S1.
  assert (byte_eqb (ser u) (scheme_end u + 1) 47 = true) as Hb by (apply byte_eqb_true_iff; exact S1).
  split; [exact Ha|]. split; [exact Hb|]. unfold is_opaque_b. rewrite Hb. reflexivity.
Qed.

(* path() stays, or is a new backslash-free text *)
Definition PK (u u' : url) : Prop := path u' = path u \/ exists P, path u' = Some P /\ forallb nb P = true.

Section PathSteps.
Variable dbg : bool.
Variable hp hpo : list N -> result host.
Variable hd : host -> list N.
Hypothesis HW : HostWf hp hpo hd.

Lemma set_path_pk u p u' : wfh u -> AS u -> spb u = true -> usv_list p -> auth_end_ok u ->
  set_path dbg u p = Some u' -> PK u u'.
Proof.
  intros [W HT] A Hs Hp Hx H. destruct (special_layout u W A Hs) as (Ha & Hsl & Ho).
  destruct (set_path_ok dbg u p u' W HT Ha Hp Hx H) as (_ & _ & _ & _ & _ & (P & Pp & _ & (hh & rem & Epp))).
  destruct (parse_path_start_nb dbg CSetter _ true _ p _ hh rem Hs Epp) as (P' & E & HP).
  apply app_inv_head in E. subst P'. right. exists P. split; assumption.
Qed.

Lemma session_pk u ops u' st : wfh u -> AS u -> spb u = true -> path_nb u -> Forall psm_op_usv ops ->
  path_segments_session dbg u ops = Some (u', st) -> PK u u'.
Proof.
  intros [W HT] A Hs Hnb Hops H. destruct (special_layout u W A Hs) as (Ha & Hsl & Ho).
  destruct st; [|rewrite (path_segments_session_atomic dbg u ops u' _ H) by discriminate; left; reflexivity ..].
  destruct (auth_path_head u W Ha) as [_ Hhead].
  destruct (path_segments_session_eval dbg u ops u' W Hsl Hhead Hops H) as (P & EP & HP1 & HP2).
  destruct (session_nb dbg u ops u' W Hsl Hs Hnb H) as (P' & EP' & HP').
  rewrite EP in EP'. apply with_path_inj in EP'. subst P' u'.
  right. exists P. split; [exact (wp_path u P W Ha HP1 HP2) | exact HP'].
Qed.

Lemma q_set_pathname_pk u v u' : wfh u -> AS u -> spb u = true -> usv_list v -> auth_end_ok u ->
  q_set_pathname dbg u v = Some u' -> PK u u'.
Proof.
  intros WH A Hs Hv Hx H. pose proof WH as [W _]. unfold q_set_pathname in H.
  rewrite (cannot_be_a_base_eval u W) in H. cbn [bindo] in H.
  destruct (byte_eqb (ser u) (scheme_end u + 1) 47) eqn:Hsl; cbn [negb] in H; [|inversion H; subst; left; reflexivity].
  destruct (u_scheme_type u) as [st|]; cbn [bindo] in H; [|discriminate].
  assert (usv_list (47 :: v)) as Hv' by (constructor; [unfold is_usv; lia | exact Hv]).
  destruct (match v with 47 :: _ => true | _ => false end || st_is_special st && match v with 92 :: _ => true | _ => false end).
  - exact (set_path_pk u v u' WH A Hs Hv Hx H).
  - destruct (st_is_special st || negb match v with [] => true | _ => false end || negb (has_host u)).
    + exact (set_path_pk u (47 :: v) u' WH A Hs Hv' Hx H).
    + exact (set_path_pk u v u' WH A Hs Hv Hx H).
Qed.

(* ---------- the other mutators keep path() ---------- *)
Lemma set_fragment_keep u f u' : wf_b u = true -> is_opaque_b u = false -> set_fragment dbg u f = Some u' -> path u' = path u.
Proof.
  intros W Ho H. destruct (set_fragment_ok dbg u f W) as (u'' & E' & _ & _ & _ & _ & _ & P).
  rewrite H in E'. inversion E'; subst u''. destruct f; [exact P|].
  unfold opaque_strip_applies in P. rewrite Ho in P. exact P.
Qed.

Lemma set_query_keep u q u' : wf_b u = true -> is_opaque_b u = false -> str_arg_ok q -> set_query dbg u q = Some u' -> path u' = path u.
Proof.
  intros W Ho Hq H. destruct (set_query_ok dbg u q W Hq) as (u'' & E' & _ & _ & _ & _ & _ & P).
  rewrite H in E'. inversion E'; subst u''. destruct q; [exact P|]. rewrite Ho in P. exact P.
Qed.

Lemma set_port_keep u p u' st : wfh u -> port_arg_ok p -> set_port dbg u p = Some (u', st) -> path u' = path u.
Proof.
  intros [W HT] Hp H. destruct (set_port_ok dbg u p W HT Hp) as (u'' & st' & E' & Herr & Hok).
  rewrite H in E'. inversion E'; subst u'' st'.
  destruct st; [|rewrite Herr by discriminate; reflexivity ..].
  destruct (Hok eq_refl) as (_ & _ & _ & (B1 & _) & _). exact B1.
Qed.

Lemma q_set_port_keep u v u' st : wfh u -> q_set_port dbg u v = Some (u', st) -> path u' = path u.
Proof.
  intros K H. destruct (q_set_port_as_set_port dbg u v u' st H) as [[-> _]|(p & Hp & E)]; [reflexivity|].
  exact (set_port_keep u p u' st K Hp E).
Qed.

Lemma set_password_keep u pw u' st : wfh u -> set_password dbg u pw = Some (u', st) -> path u' = path u.
Proof.
  intros [W HT] H. destruct (set_password_ok dbg u pw W HT) as (u'' & st' & E' & Herr & Hok).
  rewrite H in E'. inversion E'; subst u'' st'.
  destruct st; [|rewrite Herr by discriminate; reflexivity ..].
  destruct (Hok eq_refl) as (_ & _ & _ & _ & _ & _ & (B1 & _) & _). exact B1.
Qed.

Lemma set_username_keep u un u' st : wfh u -> set_username dbg u un = Some (u', st) -> path u' = path u.
Proof.
  intros [W HT] H. destruct (set_username_ok dbg u un W HT) as (u'' & st' & E' & Herr & Hok).
  rewrite H in E'. inversion E'; subst u'' st'.
  destruct st; [|rewrite Herr by discriminate; reflexivity ..].
  destruct (Hok eq_refl) as (_ & _ & _ & _ & _ & _ & (B1 & _) & _). exact B1.
Qed.

Lemma set_scheme_keep u s u' st : wfh u -> set_scheme dbg u s = Some (u', st) -> path u' = path u.
Proof.
  intros [W HT] H. destruct (set_scheme_ok dbg u s W HT) as (u'' & st' & E' & Herr & Hok).
  rewrite H in E'. inversion E'; subst u'' st'.
  destruct st; [|rewrite Herr by discriminate; reflexivity ..].
  destruct (Hok eq_refl) as (new & rem & _ & _ & _ & _ & _ & _ & _ & (B1 & _) & _). exact B1.
Qed.

Lemma set_host_none_keep u u' st : wf_b u = true ->
  (has_host u = true -> path_empty_at_end u = false /\ path_starts_with_2slash u = false) ->
  set_host dbg hp hpo hd u None = Some (u', st) -> path u' = path u.
Proof.
  intros W G H. destruct (set_host_none_ok dbg hp hpo hd u u' st W H) as (Herr & Hno & Hok).
  destruct st; [|rewrite Herr by discriminate; reflexivity ..].
  destruct (has_host u) eqn:Hh; [|rewrite (Hno eq_refl eq_refl); reflexivity].
  destruct (G eq_refl) as [G1 G2].
  destruct (Hok eq_refl eq_refl G1 G2) as (_ & _ & _ & (B1 & _) & _). exact B1.
Qed.

Lemma shi_keep u h u' : wf_b u = true -> h = HDomain [] \/ origin_st hp hpo (spb u) h ->
  byte_eqb (ser u) (scheme_end u + 1) 47 = true ->
  (has_authority_b u = false -> path_start u = scheme_end u + 1) ->
  (has_authority_b u = true -> hosti u' = HI_None -> port u = None) ->
  set_host_internal dbg hd u h None = Some u' -> path u' = path u.
Proof.
  intros W Ho Hsl X2 X1 E. pose proof (set_host_internal_hosti dbg hd u h None u' E) as Hi.
  assert (host_set_post dbg hd u u' h) as (_ & _ & _ & _ & _ & _ & (B1 & _) & _); [|exact B1].
  apply (set_host_internal_post dbg hd u h u' W (origin3_disp_ok hp hpo hd HW h _ Ho)); [|exact X2 | exact Hsl | exact E].
  intros Ha Hn. apply X1; [exact Ha | rewrite Hi; exact Hn].
Qed.

Lemma set_host_some_keep u x u' st : wf_b u = true ->
  (has_authority_b u = false -> path_start u = scheme_end u + 1) ->
  (has_authority_b u = true -> hosti u' = HI_None -> port u = None) ->
  set_host dbg hp hpo hd u (Some x) = Some (u', st) -> path u' = path u.
Proof.
  intros W X2 X1 H.
  destruct st; [|rewrite (set_host_atomic dbg hp hpo hd u (Some x) u' _ H) by discriminate; reflexivity ..].
  unfold set_host in H. rewrite (cannot_be_a_base_eval u W) in H. cbn [bindo] in H.
  destruct (byte_eqb (ser u) (scheme_end u + 1) 47) eqn:Hsl; cbn [negb] in H; [|discriminate].
  rewrite (u_scheme_type_eval u W) in H. cbn [bindo] in H.
  match type of H with (if ?c then _ else _) = _ => destruct c end; [discriminate|].
  match type of H with (match ?sub with Some _ => _ | None => _ end) = _ => destruct sub as [hsub|] end; [|discriminate].
  match type of H with (match ?r with Ok _ => _ | Err _ => _ end) = _ => destruct r as [host|e] eqn:Er end; [|discriminate].
  assert (origin_st hp hpo (spb u) host) as Ho.
  { unfold origin_st, spb, b_scheme.
    destruct (st_is_special (scheme_type_of (nfirstn (scheme_end u) (ser u)))); eexists; exact Er. }
  destruct (set_host_internal dbg hd u host None) as [u0|] eqn:E; cbn [bindo] in H; [|discriminate].
  inversion H; subst u0. exact (shi_keep u host u' W (or_intror Ho) Hsl X2 X1 E).
Qed.

Lemma set_ip_host_keep u h u' st : IpDisp hd -> wf_b u = true -> ip_arg h ->
  (has_authority_b u = false -> path_start u = scheme_end u + 1) ->
  set_ip_host dbg hd u h = Some (u', st) -> path u' = path u.
Proof.
  intros HI W Hv X2 H. destruct (set_ip_host_ok dbg hd u h u' st W (HI h Hv) X2 H) as (Herr & Hok).
  destruct st; [|rewrite Herr by discriminate; reflexivity ..].
  assert (host_set_post dbg hd u u' h) as (_ & _ & _ & _ & _ & _ & (B1 & _) & _); [|exact B1].
  apply (Hok eq_refl). intros _ Hn. exfalso. exact (ip_arg_not_none h Hv Hn).
Qed.

Lemma q_set_host_keep u v u' st : wf_b u = true ->
  (has_authority_b u = false -> path_start u = scheme_end u + 1) ->
  (has_authority_b u = true -> hosti u' = HI_None -> port u = None) ->
  q_set_host dbg hp hpo hd u v = Some (u', st) -> path u' = path u.
Proof.
  intros W X2 X1 H. unfold q_set_host in H.
  rewrite (cannot_be_a_base_eval u W) in H. cbn [bindo] in H.
  destruct (byte_eqb (ser u) (scheme_end u + 1) 47) eqn:Hsl; cbn [negb] in H; [|inversion H; subst; reflexivity].
  ob H sc Hsc. cbv zeta in H.
  destruct (scheme_type_eqb (scheme_type_of sc) STFile && match v with [] => true | _ => false end).
  { ob H u1 Hu1. inversion H; subst. exact (shi_keep u (HDomain []) u' W (or_introl eq_refl) Hsl X2 X1 Hu1). }
  ob H r Hr. destruct r as [[h remaining]|]; [|inversion H; subst; reflexivity].
  apply pres_ok_some in Hr. pose proof (parse_host_origin_st hp hpo _ _ _ _ Hr) as Ho.
  rewrite (scheme_type_spb u sc W Hsc) in Ho.
  ob H opp Hop. ob H un Hun.
  match type of H with (if ?c then _ else _) = _ => destruct c eqn:Ec end; [inversion H; subst; reflexivity|].
  ob H u1 Hu1. inversion H; subst u1 st. clear H.
  destruct opp as [np|]; [|exact (shi_keep u h u' W Ho Hsl X2 X1 Hu1)].
  assert (host_port_post dbg hd u u' h np) as (_ & _ & _ & _ & _ & _ & (B1 & _) & _); [|exact B1].
  apply (set_host_internal_port_post dbg hd u h np u' W (origin3_disp_ok hp hpo hd HW h _ Ho)); try assumption.
  - destruct (inp_split_prefix_char 58 remaining) as [rem|]; [|inversion Hop; subst; exact I].
    destruct (inp_is_empty rem); [inversion Hop; subst; exact I|].
    destruct (parse_port CSetter (default_port sc) rem) as [[p r0]|e|] eqn:Epp; inversion Hop; subst; try exact I.
    exact (parse_port_le _ _ _ _ _ Epp).
  - intros Hn. apply hi_of_host_none in Hn. subst h. cbn [andb] in Ec.
    apply orb_false_iff in Ec. destruct Ec as [Ec E3]. apply orb_false_iff in Ec. destruct Ec as [_ E2].
    split; [destruct np; [discriminate | reflexivity]|]. intros _. destruct (port u); [discriminate | reflexivity].
Qed.

Lemma q_set_hostname_keep u v u' st : wf_b u = true ->
  (has_authority_b u = false -> path_start u = scheme_end u + 1) ->
  (has_authority_b u = true -> hosti u' = HI_None -> port u = None) ->
  q_set_hostname dbg hp hpo hd u v = Some (u', st) -> path u' = path u.
Proof.
  intros W X2 X1 H. unfold q_set_hostname in H.
  rewrite (cannot_be_a_base_eval u W) in H. cbn [bindo] in H.
  destruct (byte_eqb (ser u) (scheme_end u + 1) 47) eqn:Hsl; cbn [negb] in H; [|inversion H; subst; reflexivity].
  ob H sc Hsc. cbv zeta in H.
  destruct (scheme_type_eqb (scheme_type_of sc) STFile && match v with [] => true | _ => false end).
  { ob H u1 Hu1. inversion H; subst. exact (shi_keep u (HDomain []) u' W (or_introl eq_refl) Hsl X2 X1 Hu1). }
  ob H r Hr. destruct r as [[h remaining]|]; [|inversion H; subst; reflexivity].
  apply pres_ok_some in Hr. pose proof (parse_host_origin_st hp hpo _ _ _ _ Hr) as Ho.
  rewrite (scheme_type_spb u sc W Hsc) in Ho.
  ob H reject Hrej. destruct reject; [inversion H; subst; reflexivity|].
  ob H u1 Hu1. inversion H; subst. exact (shi_keep u h u' W Ho Hsl X2 X1 Hu1).
Qed.

(* ---------- every gated step on a special URL ---------- *)
Theorem path_step3 u o u' : IpDisp hd -> CInv dbg u -> AS u -> spb u = true -> path_nb u ->
  step_gate3 hp hpo hd u o u' -> apply_op dbg hp hpo hd u o = Some u' -> PK u u'.
Proof.
  intros HI K A Hs Hnb G H. pose proof K as [[W HT] _]. pose proof (conj W HT : wfh u) as WH.
  destruct (special_layout u W A Hs) as (Ha & Hsl & Ho).
  destruct o; cbn [apply_op step_gate3 step_gate2 step_gate] in H, G;
    try (apply drop_status_some in H; destruct H as [st H]).
  - left. exact (set_fragment_keep u f u' W Ho H).
  - left. exact (set_query_keep u q u' W Ho G H).
  - destruct G as (G1 & G2 & _). exact (set_path_pk u p u' WH A Hs G1 G2 H).
  - left. exact (set_port_keep u p u' st WH G H).
  - left. destruct h as [x|].
    + destruct G as [G1 G2]. exact (set_host_some_keep u x u' st W G1 G2 H).
    + exact (set_host_none_keep u u' st W G H).
  - left. destruct G as [G1 G2]. exact (set_ip_host_keep u h u' st HI W G1 G2 H).
  - left. exact (set_password_keep u p u' st WH H).
  - left. exact (set_username_keep u s u' st WH H).
  - left. exact (set_scheme_keep u s u' st WH H).
  - destruct G as [G1 _]. exact (session_pk u ops u' st WH A Hs Hnb G1 H).
  - left. unfold q_set_protocol in H. cbv zeta in H. exact (set_scheme_keep u _ u' st WH H).
  - left. exact (set_username_keep u v u' st WH H).
  - left. unfold q_set_password in H. exact (set_password_keep u _ u' st WH H).
  - left. destruct G as [G1 G2]. exact (q_set_host_keep u v u' st W G1 G2 H).
  - left. destruct G as [G1 G2]. exact (q_set_hostname_keep u v u' st W G1 G2 H).
  - left. exact (q_set_port_keep u v u' st WH H).
  - destruct G as (G1 & G2 & _). exact (q_set_pathname_pk u v u' WH A Hs G1 G2 H).
  - left. unfold q_set_search in H. eapply (set_query_keep u); [exact W | exact Ho | | exact H].
    destruct v as [|c r]; [exact I|]. destruct (N.eq_dec c 63) as [->|Hc].
    + exact (usv_tail _ _ G).
    + unfold str_arg_ok. destruct c as [|q]; [exact G|]. do 6 (destruct q as [q|q|]; try exact G). contradiction.
  - left. unfold q_set_hash in H. exact (set_fragment_keep u _ u' W Ho H).
Qed.

(* BSg is kept by a gated step *)
Theorem bsg_step u o u' : IpDisp hd -> CInv dbg u -> AS u -> BSg u ->
  step_gate3 hp hpo hd u o u' -> apply_op dbg hp hpo hd u o = Some u' -> BSg u'.
Proof.
  intros HI K A Hb G H Hs' p Hp. pose proof K as [[W _] _].
  destruct (frame_step3 dbg hp hpo hd HW u o u' HI K G H) as [Fs _]. pose proof (Fs Hs') as Hs.
  destruct (path_step3 u o u' HI K A Hs (bsg_bs u W Hb Hs) G H) as [E|(P & E & HP)].
  - rewrite E in Hp. exact (Hb Hs p Hp).
  - rewrite E in Hp. inversion Hp; subst p. exact HP.
Qed.

End PathSteps.
