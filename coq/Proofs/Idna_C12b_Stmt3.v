(* Proofs/Idna_C12b_Stmt3.v - C12 after the idempotence proof of C10 (Proofs/Idna_C10c_Idem.v).
   - C12_statement2 (Proofs/Idna_C10b_Stmt.v) is FALSE for an abstract adapter, for the same reason as
     C10_idem_statement2: its adapter premises do not relate map_normalize of the tail of a label to the ASCII prefix
     that uts46.rs copies into the buffer (adapter ctxad of Proofs/Idna_C10c_Refute.v: ToUnicode of the ASCII form of
     "ab" U+00EA reports an error).  A refutation of the statement, not a defect of the crate.
   - C12_statement3: the same statement with the two further sampled premises AdapterUSV and MapPrefix.  Stated.
   - proved part (c12_ascii_form): under the premises of C12_statement3 (no exclusion of Known_C12 / Known_C11 needed),
     for every accepted name whose ASCII form a is outside Known_C10_long: ToASCII returns a for a (borrowed), and
     ToUnicode reports no error for a, nor for the name itself - the "no error" half of clause u_of_a. *)
From RU Require Import Base.Prelude Base.Utf8 Base.U32_c13 Gen.Tables Model.Punycode Model.Uts46
  Proofs.Idna_Sim Proofs.Idna_Api Proofs.Idna_Known Proofs.Idna_Hyp Proofs.Idna_C12 Proofs.Idna_C10_Deny Proofs.Idna_C10_Prefix
  Proofs.Idna_C10_Inner Proofs.Idna_C10_Walk Proofs.Idna_C10b_Long Proofs.Idna_C10b_Stmt Proofs.Idna_WalkEnc
  Proofs.Idna_C10c_Drun Proofs.Idna_C10c_Idem Proofs.Idna_C10c_Example Proofs.Idna_C10c_Refute.

Section Statement3.
Variable A : adapter.
Variable cfg : bool.
Definition C12_statement3 : Prop :=
  AdapterOK A -> AdapterUSV A -> NvNoTrunc A -> NvIdem A -> AsciiNoMark A -> MapPrefix A -> forall d deny hy b a,
  bytes d -> valid_deny deny -> Known_C12 A cfg d deny hy = false -> Known_C11 A cfg d deny hy = false ->
  to_ascii A cfg d deny hy DIgnore = Ok (b, a) -> Known_C10_long a = false ->
  let u := ui_text (to_unicode A cfg d deny hy) in
  (ui_text (to_unicode A cfg a deny hy) = u /\ ui_err (to_unicode A cfg a deny hy) = false) /\
  (exists b', to_ascii A cfg (utf8_encode u) deny hy DIgnore = Ok (b', a)) /\
  (ui_text (to_unicode A cfg (utf8_encode u) deny hy) = u /\ ui_err (to_unicode A cfg (utf8_encode u) deny hy) = false) /\
  (forall p, exists b', to_ascii A cfg (utf8_encode (ui_text (to_user_interface A cfg d deny hy p))) deny hy DIgnore = Ok (b', a)).
End Statement3.

Lemma ui_err_of_accept A cfg x deny hy b a : Redisc A cfg deny ->
  to_ascii A cfg x deny hy DIgnore = Ok (b, a) -> ui_err (to_unicode A cfg x deny hy) = false.
Proof.
  intros HR H. destruct (to_unicode A cfg x deny hy) as [bu t e|s] eqn:E; [|reflexivity].
  cbn [ui_err]. exact (c12_accepted_no_error A cfg x deny hy b a bu t e HR H E).
Qed.

Theorem c12_ascii_form A cfg : AdapterOK A -> AdapterUSV A -> NvNoTrunc A -> NvIdem A -> AsciiNoMark A -> MapPrefix A ->
  forall d deny hy b a, bytes d -> valid_deny deny ->
  to_ascii A cfg d deny hy DIgnore = Ok (b, a) -> Known_C10_long a = false ->
  to_ascii A cfg a deny hy DIgnore = Ok (true, a) /\
  ui_err (to_unicode A cfg a deny hy) = false /\ ui_err (to_unicode A cfg d deny hy) = false.
Proof.
  intros HOK HUSV HNT HNI HNM HMP d deny hy b a Hb Hv H Hlong.
  destruct (valid_deny_facts deny Hv) as [HU HL].
  pose proof (redisc_of_adapter A cfg deny (ok_nil A HOK) HU) as HR.
  pose proof (c10_idem3 A cfg HOK HUSV HNT HNI HNM HMP d deny hy DIgnore b a Hb Hv H Hlong) as Hi.
  split; [exact Hi|]. split; [exact (ui_err_of_accept A cfg a deny hy true a HR Hi)|exact (ui_err_of_accept A cfg d deny hy b a HR H)].
Qed.

Lemma w_c12_stmt2 :
  Known_C12 ctxad false W_idem2 DENY_EMPTY HAllow = false /\ Known_C11 ctxad false W_idem2 DENY_EMPTY HAllow = false /\
  to_unicode ctxad false W_idem2 DENY_EMPTY HAllow = UI false [97; 98; 234] false /\
  to_unicode ctxad false W_idem2_A DENY_EMPTY HAllow = UI false [97; 98; 65533] true.
Proof. vm_compute. repeat split; reflexivity. Qed.

Theorem c12_statement2_refuted : exists A cfg, AdapterOK A /\ NvNoTrunc A /\ NvIdem A /\ AsciiNoMark A /\ ~ C12_statement2 A cfg.
Proof.
  exists ctxad, false. destruct ctxad_premises as (H1 & H2 & H3 & H4).
  split; [exact H1|]. split; [exact H2|]. split; [exact H3|]. split; [exact H4|]. intros HS.
  destruct w_idem2 as (E1 & E2 & _). destruct w_c12_stmt2 as (K1 & K2 & _ & U2).
  assert (Hb : bytes W_idem2) by (unfold W_idem2; repeat constructor; unfold is_byte; lia).
  destruct (HS H1 H2 H3 H4 W_idem2 DENY_EMPTY HAllow false W_idem2_A Hb deny_empty_valid K1 K2 E1 E2) as ((_ & Hx) & _).
  rewrite U2 in Hx. discriminate.
Qed.

Example c12_ascii_form_premises_hold :
  to_ascii lowsan true W_idem3 DENY_URL HCheck DIgnore = Ok (false, W_idem3_A) /\ Known_C10_long W_idem3_A = false /\
  to_unicode lowsan true W_idem3_A DENY_URL HCheck = UI false [97; 46; 98; 252; 99; 104; 101; 114] false.
Proof. vm_compute. repeat split; reflexivity. Qed.
