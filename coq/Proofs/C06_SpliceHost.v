(* Proofs/C06_SpliceHost.v - WHOLE-URL parser agreement, part 5: Url::set_host(Some x) on the canonical records with
   an authority.  The setter hands x to the host parser of the scheme type, and maps auth_url .. h .. to
   auth_url .. h' .. (host text and kind replaced, every offset behind it shifted); Parser::parse_url on the old
   serialization with the RAW argument in the host position returns exactly this record.
   Argument: free of TAB/LF/CR, ':' '/' '?' '#' '[' ']' '@' (and '\' for a special scheme) - the characters at
   which the parser's authority / host scan would stop or switch mode while the setter hands the text to the host
   parser whole.  Excluded result: the empty host on a URL with credentials or a port (F-C02-4). *)
From RU Require Import Base.Prelude Base.Utf8 Base.Utf8Facts Model.AsciiSet Gen.Tables
  Model.PercentEncoding Model.HostT Model.UrlRecord Model.Parser Model.Setters Model.WF
  Proofs.ListN Proofs.C03_WF Proofs.C06_List Proofs.C06_WFI Proofs.C06_Suffix Proofs.C06_PathParser Proofs.C06_Path
  Proofs.C14_Set Proofs.C14_Enc Proofs.C14_Views Proofs.C02_Enc Proofs.C02_Parts
  Proofs.C02_Opaque Proofs.C02_Path Proofs.C02_PathL1 Proofs.C02_Reach Proofs.C16_RT Proofs.C02_AuthParts
  Proofs.C02_Auth Proofs.C02_AuthWf Proofs.C02_PathSp Proofs.C02_AuthSp Proofs.C02_AuthMain Proofs.C02_SetQF
  Proofs.C02_Canon Proofs.C02_SetPort
  Proofs.C06_Agree Proofs.C06_AgreeUrl Proofs.C06_Splice Proofs.C06_SpliceAuth Proofs.C06_SpliceCred Proofs.C06_SplicePath.
Open Scope N_scope.
Open Scope list_scope.

(* the old serialization with x in the host position *)
Definition splice_host (u : url) (x : list N) : list N :=
  nfirstn (host_start u) (ser u) ++ x ++ nskipn (host_end u) (ser u).

(* a character of a host argument: the host scan of the parser walks over it, and so does the '@' scan *)
Definition hostarg (sp : bool) (c : N) : bool := hostc sp c && negb (c =? 64).

Lemma hostarg_hostc sp x : forallb (hostarg sp) x = true -> forallb (hostc sp) x = true.
Proof. apply forallb_impl. intros c H. unfold hostarg in H. apply andb_true_iff in H. tauto. Qed.

Lemma hostarg_plain sp x : forallb (hostarg sp) x = true -> forallb (plainc sp) x = true.
Proof.
  apply forallb_impl. intros c H. unfold hostarg, hostc, host_stop, plainc, auth_delim, is_tnl in *. destruct sp; lia.
Qed.

Lemma hostarg_58 sp x : forallb (hostarg sp) x = true -> forallb (fun c => negb (c =? 58)) x = true.
Proof. apply forallb_impl. intros c H. unfold hostarg, hostc, host_stop, is_tnl in *. destruct sp; lia. Qed.

Lemma hostarg_head sp x : forallb (hostarg sp) x = true ->
  match x with c :: _ => is_tnl c = false /\ (c =? 91) = false /\ (c =? 47) = false /\ ((c =? 92) && sp) = false | [] => True end.
Proof.
  destruct x as [|c r]; [tauto|]. cbn [forallb]. intros H. apply andb_true_iff in H. destruct H as [H _].
  unfold hostarg, hostc, host_stop, is_tnl in *. destruct sp; repeat split; lia.
Qed.

(* ---------- the frame of set_host_internal ---------- *)
Section Frame.
Variable dbg : bool.
Variable hd : host -> list N.
Variables (sch T R : list N) (ue : N) (pt : option N) (q f : option (list N)).
Notation A := ((sch ++ s_css) ++ T).
Notation U H hi := (hp_url (A ++ H) pt R (nlen sch) ue (nlen A) hi q f).

Lemma hpu_ser H hi : ser (U H hi) = A ++ H ++ port_text pt ++ R ++ qf_text q f.
Proof. rewrite hp_ser. rewrite <- !app_assoc. reflexivity. Qed.

Theorem set_host_internal_frame H hi h' :
  set_host_internal dbg hd (U H hi) h' None = Some (U (hd h') (hi_of_host h')).
Proof.
  unfold set_host_internal.
  change (host_end (U H hi)) with (nlen (A ++ H)). change (host_start (U H hi)) with (nlen A).
  change (path_start (U H hi)) with (nlen ((A ++ H) ++ port_text pt)).
  change (scheme_end (U H hi)) with (nlen sch). change (username_end (U H hi)) with ue. change (port (U H hi)) with pt.
  change (query_start (U H hi)) with (qf_qs (nlen (((A ++ H) ++ port_text pt) ++ R)) q).
  change (fragment_start (U H hi)) with (qf_fs (nlen (((A ++ H) ++ port_text pt) ++ R)) q f).
  unfold u_slice_from. rewrite hpu_ser.
  rewrite slice_from_o_some by (rewrite !nlen_app; lia).
  rewrite (app_assoc A H). rewrite nskipn_app_len. cbn [bindo].
  unfold truncate. rewrite <- (app_assoc A H). rewrite nfirstn_app_len.
  assert (has_authority dbg (set_ser (U H hi) A) = Some true) as ->.
  { unfold has_authority, byte_is, byte_at, u_slice_from, hp_url, qf_url. cbn [ser set_ser scheme_end].
    assert (A = sch ++ 58 :: 47 :: 47 :: T) as EA by (unfold s_css; rewrite <- !app_assoc; reflexivity).
    rewrite EA. rewrite slice_from_o_some by (rewrite nlen_app; lia). rewrite nskipn_app_len.
    destruct dbg; [|reflexivity].
    rewrite nnth_app_ge by lia. rewrite N.sub_diag. reflexivity. }
  cbn [bindo negb].
  rewrite adjust_ge by (rewrite (nlen_app (A ++ H)); lia). cbn [bindo].
  replace (((A ++ H) ++ port_text pt) ++ R) with ((A ++ H) ++ port_text pt ++ R) by (rewrite <- !app_assoc; reflexivity).
  rewrite adjust_qs, adjust_fs. cbn [bindo].
  f_equal. unfold hp_url, qf_url. f_equal; try (clear; llia); try (f_equal; clear; llia).
  rewrite <- !app_assoc. reflexivity.
Qed.
End Frame.

(* ================= the canonical records with an authority ================= *)
Section HostAuth.
Variable dbg : bool.
Variable hp hpo : list N -> result host.
Variable hd : host -> list N.
Hypothesis HRT : HostRT hp hpo hd.
Hypothesis HAb : host_above hp hpo hd.

Notation auth_ok := (auth_ok hp hpo hd).
Notation auth_url := (auth_url hd).
Notation auth_ser := (auth_ser hd).
Notation auth_front := (auth_front hd).
Notation auth_pre := (auth_pre hd).
Notation host_ok := (host_ok hp hpo hd).
Notation auth_cls := C06_SpliceAuth.auth_cls.

Lemma auth_url_hpu sch ui h pt p q f :
  auth_url sch ui h pt p q f
  = hp_url (((sch ++ s_css) ++ ui_text ui) ++ hd h) pt (pth_text p) (nlen sch) (nlen sch + 3 + ui_ulen ui)
           (nlen ((sch ++ s_css) ++ ui_text ui)) (hi_of_host h) q f.
Proof.
  rewrite (auth_url_hp hd). unfold auth_A, s_css. f_equal. rewrite !nlen_app. reflexivity.
Qed.

Lemma not_bracketed sp x : forallb (hostarg sp) x = true ->
  (match x with 91 :: _ => true | _ => false end) && ends_with_byte 93 x = false.
Proof.
  intros H. pose proof (hostarg_head sp x H) as Hh. destruct x as [|c r]; [reflexivity|].
  destruct Hh as (_ & H91 & _). apply N.eqb_neq in H91.
  destruct c as [|pp]; [reflexivity|]. do 7 (try (destruct pp as [pp|pp|]; try reflexivity)). exfalso. apply H91. reflexivity.
Qed.

(* ---------- set_host(Some x) on a canonical record, result explicit ---------- *)
Theorem set_host_auth st sch ui h pt p q f x u' : auth_ok st sch ui h pt p q f -> st_is_file st = false ->
  forallb (hostarg (st_is_special st)) x = true ->
  set_host dbg hp hpo hd (auth_url sch ui h pt p q f) (Some x) = Some (u', SOk) ->
  exists h', (if st_is_special st then hp x else hpo x) = Ok h'
    /\ (st_is_special st = true -> x <> [])
    /\ u' = auth_url sch ui h' pt p q f.
Proof.
  intros K Hnf Hx. unfold set_host.
  rewrite (proj2 (auth_url_wf hp hpo hd HRT _ _ _ _ _ _ _ _ K)). cbn [bindo].
  unfold u_scheme_type. rewrite (auth_scheme hd). cbn [bindo]. rewrite (ak_st _ _ _ _ _ _ _ _ _ _ _ K). rewrite Hnf.
  destruct ((match x with [] => true | _ => false end) && st_is_special st && negb false) eqn:Ee; [discriminate|].
  rewrite (not_bracketed _ x Hx).
  unfold find_byte. rewrite (find_byte_aux_none 58 x 0 (hostarg_58 _ x Hx)).
  destruct (if st_is_special st then hp x else hpo x) as [h'|e] eqn:Ehp; [|discriminate].
  rewrite auth_url_hpu. rewrite set_host_internal_frame. cbn [bindo]. intros E. inversion E; subst u'. clear E.
  exists h'. split; [reflexivity|]. split.
  - intros Hsp ->. rewrite Hsp in Ee. discriminate Ee.
  - rewrite auth_url_hpu. reflexivity.
Qed.

(* the new host is canonical for the scheme type *)
Lemma new_host_ok st x h' : st_is_file st = false -> (if st_is_special st then hp x else hpo x) = Ok h' ->
  (h' = HDomain [] -> st_is_special st = false) -> host_ok st h'.
Proof.
  intros Hnf Ehp Hemp.
  assert (h' = HDomain [] \/ h' <> HDomain []) as [->|Hne]
    by (destruct h' as [[|c d]|a|pcs]; [left; reflexivity | right; discriminate | right; discriminate | right; discriminate]).
  - left. split; [reflexivity | exact (Hemp eq_refl)].
  - apply (hpx_host_ok hp hpo hd HRT HAb st x h'); [unfold hpx; destruct (st_is_special st); exact Ehp | exact Hne].
Qed.

Lemma auth_ok_host st sch ui h pt p q f h' : auth_ok st sch ui h pt p q f -> host_ok st h' ->
  (h' = HDomain [] -> ui = UNone /\ pt = None) ->
  nlen (auth_ser sch ui h' pt p q f) <= U32_MAX_P -> auth_ok st sch ui h' pt p q f.
Proof.
  intros K Hh Hemp Hb. destruct K as [Ksch Kst Kui Kh Kemp Kpt Kp Kq Kf Kb Kbq Kbf].
  destruct (qf_bounds _ _ _ _ Hb) as [B1 B2]. constructor; try assumption.
  unfold C02_Auth.auth_ser, C02_Auth.auth_pre in Hb. rewrite !nlen_app in Hb. lia.
Qed.

Lemma splice_host_auth sch ui h pt p q f x :
  splice_host (auth_url sch ui h pt p q f) x
  = sch ++ 58 :: 47 :: 47 :: ui_text ui ++ x ++ port_text pt ++ pth_text p ++ qf_text q f.
Proof.
  unfold splice_host. rewrite auth_url_hpu.
  change (host_start (hp_url (((sch ++ s_css) ++ ui_text ui) ++ hd h) pt (pth_text p) (nlen sch) (nlen sch + 3 + ui_ulen ui)
            (nlen ((sch ++ s_css) ++ ui_text ui)) (hi_of_host h) q f)) with (nlen ((sch ++ s_css) ++ ui_text ui)).
  change (host_end (hp_url (((sch ++ s_css) ++ ui_text ui) ++ hd h) pt (pth_text p) (nlen sch) (nlen sch + 3 + ui_ulen ui)
            (nlen ((sch ++ s_css) ++ ui_text ui)) (hi_of_host h) q f)) with (nlen (((sch ++ s_css) ++ ui_text ui) ++ hd h)).
  rewrite hp_ser. rewrite <- (app_assoc ((sch ++ s_css) ++ ui_text ui) (hd h)). rewrite nfirstn_app_len.
  rewrite (app_assoc ((sch ++ s_css) ++ ui_text ui) (hd h)). rewrite nskipn_app_len.
  unfold s_css. rewrite <- !app_assoc. reflexivity.
Qed.

(* the head of the text behind "scheme://" for a special scheme *)
Lemma ui_head_cls ui Y : ui_ok ui -> ui <> UNone ->
  match ui_text ui ++ Y with c :: _ => is_tnl c = false /\ is_slash_or_bslash c = false | [] => False end.
Proof.
  intros Hui Hne.
  assert (forall u Z, clean T_USERINFO u = true -> u <> [] ->
            match u ++ Z with c :: _ => is_tnl c = false /\ is_slash_or_bslash c = false | [] => False end) as G.
  { intros u Z Hu Hn. destruct u as [|c u']; [contradiction|]. cbn [app]. apply plain_not_slash.
    pose proof (clean_ui_plain true _ Hu) as Hp. cbn [forallb] in Hp. apply andb_true_iff in Hp. tauto. }
  destruct ui as [|u|u pw]; [contradiction| |]; cbn [ui_ok ui_text] in *.
  - destruct Hui as [Hu Hn]. rewrite <- app_assoc. apply G; assumption.
  - destruct Hui as (Hu & _ & _). destruct u as [|c u']; [cbn [app]; split; reflexivity|].
    rewrite <- app_assoc. apply G; [exact Hu | discriminate].
Qed.

Lemma port_host_tail sp pt X : tail_ok X -> host_tail sp (port_text pt ++ X).
Proof.
  intros HX. destruct pt as [n|]; cbn [port_text app]; [split; reflexivity|].
  destruct X as [|c r]; [exact I|]. cbn [tail_ok] in HX. cbn [host_tail]. unfold host_stop, is_tnl. destruct sp; split; lia.
Qed.

(* WHOLE-URL agreement for set_host(Some x) on the classes with an authority *)
Theorem splice_host_auth_parse st sch ui h pt p q f x u' : auth_ok st sch ui h pt p q f -> auth_cls st p ->
  usv_list x -> forallb (hostarg (st_is_special st)) x = true ->
  (port_text pt ++ pth_text p ++ qf_text q f = [] -> first_ok (rev x)) ->
  set_host dbg hp hpo hd (auth_url sch ui h pt p q f) (Some x) = Some (u', SOk) ->
  (hosti u' = HI_None -> st_is_special st = false /\ ui = UNone /\ pt = None) ->
  nlen (ser u') <= U32_MAX_P ->
  parse_url dbg hp hpo hd None None (splice_host (auth_url sch ui h pt p q f) x) = POk u'.
Proof.
  intros K Hc Hx Hxa Hl E Hemp Hb. pose proof (auth_cls_nf st p Hc) as Hnf.
  destruct (set_host_auth st sch ui h pt p q f x u' K Hnf Hxa E) as (h' & Ehp & Hxne & ->).
  cbn [ser hosti C02_Auth.auth_url] in Hb, Hemp.
  assert (h' = HDomain [] -> st_is_special st = false /\ ui = UNone /\ pt = None) as Hemp'.
  { intros ->. apply Hemp. reflexivity. }
  pose proof (new_host_ok st x h' Hnf Ehp (fun E0 => proj1 (Hemp' E0))) as Kh'.
  pose proof (auth_ok_host st sch ui h pt p q f h' K Kh' (fun E0 => proj2 (Hemp' E0)) Hb) as K'.
  rewrite splice_host_auth.
  destruct x as [|x0 xr].
  { (* the empty argument: the empty host of a non-special URL; the spliced text is the canonical text *)
    assert (st_is_special st = false) as Hns by (destruct (st_is_special st); [exfalso; apply Hxne; reflexivity | reflexivity]).
    rewrite Hns in Ehp. destruct HRT as (_ & _ & Hd0 & Hp0). rewrite Hp0 in Ehp. inversion Ehp; subst h'.
    destruct (Canon_fixpoint dbg hp hpo hd HRT (auth_url sch ui (HDomain []) pt p q f)) as (Hfix & _ & Hasc).
    { destruct Hc as [[-> Hp']|[-> Hp']]; [apply Canon_auth | apply Canon_special]; assumption. }
    unfold Fixpoint_of_reparse, reparse in Hfix. rewrite utf8_lossy_ascii in Hfix by exact Hasc.
    cbn [ser C02_Auth.auth_url] in Hfix. rewrite (auth_ser_shape hd) in Hfix. rewrite Hd0 in Hfix. exact Hfix. }
  set (x := x0 :: xr) in *.
  destruct K as [Ksch Kst Kui Kh Kemp Kpt Kp Kq Kf Kb Kbq Kbf].
  set (back := pth_text p ++ qf_text q f).
  assert (tail_ok back) as Htail by (apply pth_tail; apply qf_qh_ok).
  pose proof (front_len hd sch ui h' pt) as FL. pose proof (ui_ulen_le ui) as UL.
  pose proof (ak_b _ _ _ _ _ _ _ _ _ _ _ K') as Kb'.
  apply (auth_parse dbg hp hpo hd st sch ui h' pt p q f _ (x ++ port_text pt ++ back) back (qf_text q f) true K').
  - destruct Hc as [[-> _]|[-> _]]; [left; reflexivity | right; split; [reflexivity|]].
    assert (ui = UNone \/ ui <> UNone) as [->|Hun] by (destruct ui; [left; reflexivity | right; discriminate | right; discriminate]).
    + cbn [ui_text app]. pose proof (hostarg_head _ x Hxa) as Hh. unfold x in *. cbn [app]. destruct Hh as (H1 & _ & H2 & H3).
      split; [exact H1|]. unfold is_slash_or_bslash. cbn [st_is_special] in H3. rewrite andb_true_r in H3. rewrite H2, H3. reflexivity.
    + apply ui_head_cls; assumption.
  - unfold x. destruct (ui_text ui); discriminate.
  - unfold back.
    apply first_ok_rev_parts.
    + apply okc_above. exact (ui_text_okc ui Kui).
    + apply okc_above. rewrite !forallb_app.
      rewrite (port_text_okc _ pt Kpt), (pth_text_okc p Kp), (qf_text_okc st q f Kq Kf). reflexivity.
    + exact Hl.
    + unfold x. destruct (ui_text ui); discriminate.
  - apply parse_userinfo_canon; [exact Kui | | clear - Kb' FL UL; llia].
    intros count last. rewrite scan_plain by (apply hostarg_plain; exact Hxa).
    apply port_text_scan; [exact Htail | exact (port_ok_le _ _ Kpt)].
  - rewrite (phap_unfold hp hpo hd st).
    rewrite (parse_host_raw hp hpo st x (port_text pt ++ back) Hnf (hostarg_hostc _ x Hxa) (port_host_tail _ pt back Htail)).
    assert ((if st_is_special st then hp else hpo) x = Ok h') as Ehp2 by (destruct (st_is_special st); exact Ehp).
    unfold x at 1. rewrite andb_false_r. rewrite Ehp2. cbn [of_result pbind].
    rewrite (hap_tail_canon hp hpo hd st (nlen sch) _ h' pt back Kh' (fun E0 => proj2 (proj2 (Hemp' E0)))); [| | exact Htail | clear - Kb' FL; llia].
    2:{ replace (nfirstn (nlen sch) ((((sch ++ [58]) ++ [47; 47]) ++ ui_text ui) ++ hd h')) with sch; [exact Kpt|].
        rewrite <- !app_assoc. symmetry. apply nfirstn_app_len. }
    rewrite (front_eq hd). reflexivity.
  - apply (pps_cls dbg hp hpo hd); [exact Kh' | exact Hc | apply qf_qh_ok].
  - apply pqf_canon; [reflexivity | exact Kq | exact Kf | exact (ak_bq _ _ _ _ _ _ _ _ _ _ _ K') | exact (ak_bf _ _ _ _ _ _ _ _ _ _ _ K')].
Qed.

Lemma auth_host_cut sch ui h pt p q f :
  nskipn (host_end (auth_url sch ui h pt p q f)) (ser (auth_url sch ui h pt p q f)) = port_text pt ++ pth_text p ++ qf_text q f.
Proof.
  rewrite auth_url_hpu.
  change (host_end (hp_url (((sch ++ s_css) ++ ui_text ui) ++ hd h) pt (pth_text p) (nlen sch) (nlen sch + 3 + ui_ulen ui)
            (nlen ((sch ++ s_css) ++ ui_text ui)) (hi_of_host h) q f)) with (nlen (((sch ++ s_css) ++ ui_text ui) ++ hd h)).
  rewrite hp_ser. apply nskipn_app_len.
Qed.

(* the exclusion F-C02-4 on records: the new host is empty while the URL is special, or has credentials or a port *)
Definition empty_host_ok (u u' : url) : Prop :=
  hosti u' = HI_None -> sp_of u = false /\ host_start u = scheme_end u + 3 /\ port u = None.

(* WHOLE-URL agreement for set_host(Some x): every canonical record with an authority; argument free of TAB/LF/CR,
   ':' '/' '?' '#' '[' ']' '@' ('\' for a special scheme); when nothing follows the host in the serialization the argument
   must not end in a C0 control or a space *)
Theorem splice_agreement_set_host u x u' : Canon hp hpo hd u -> has_authority_b u = true ->
  usv_list x -> forallb (hostarg (sp_of u)) x = true ->
  (nskipn (host_end u) (ser u) = [] -> first_ok (rev x)) ->
  set_host dbg hp hpo hd u (Some x) = Some (u', SOk) -> empty_host_ok u u' -> nlen (ser u') <= U32_MAX_P ->
  parse_url dbg hp hpo hd None None (splice_host u x) = POk u'.
Proof.
  intros C Hau. destruct (Canon_auth_cases hp hpo hd u C Hau) as (st & sch & ui & h & pt & p & q & f & -> & K & Hc).
  rewrite (sp_of_auth hp hpo hd _ _ _ _ _ _ _ _ K). rewrite auth_host_cut. intros Hx Hxa Hl E Hemp Hb.
  apply (splice_host_auth_parse st sch ui h pt p q f x u' K Hc Hx Hxa Hl E); [|exact Hb].
  intros Hi. destruct (Hemp Hi) as (H1 & H2 & H3). rewrite (sp_of_auth hp hpo hd _ _ _ _ _ _ _ _ K) in H1.
  split; [exact H1|]. split; [|exact H3]. cbn [host_start scheme_end C02_Auth.auth_url] in H2. apply (ui_text_nil). lia.
Qed.

(* and the result is canonical again *)
Theorem set_host_Canon u x u' : Canon hp hpo hd u -> has_authority_b u = true ->
  forallb (hostarg (sp_of u)) x = true ->
  set_host dbg hp hpo hd u (Some x) = Some (u', SOk) -> empty_host_ok u u' -> nlen (ser u') <= U32_MAX_P ->
  Canon hp hpo hd u'.
Proof.
  intros C Hau. destruct (Canon_auth_cases hp hpo hd u C Hau) as (st & sch & ui & h & pt & p & q & f & -> & K & Hc).
  rewrite (sp_of_auth hp hpo hd _ _ _ _ _ _ _ _ K). intros Hxa E Hemp Hb. pose proof (auth_cls_nf st p Hc) as Hnf.
  destruct (set_host_auth st sch ui h pt p q f x u' K Hnf Hxa E) as (h' & Ehp & Hxne & ->).
  cbn [ser C02_Auth.auth_url] in Hb.
  assert (h' = HDomain [] -> st_is_special st = false /\ ui = UNone /\ pt = None) as Hemp'.
  { intros ->. destruct (Hemp eq_refl) as (H1 & H2 & H3). rewrite (sp_of_auth hp hpo hd _ _ _ _ _ _ _ _ K) in H1.
    split; [exact H1|]. split; [|exact H3]. cbn [host_start scheme_end C02_Auth.auth_url] in H2. apply (ui_text_nil). lia. }
  pose proof (new_host_ok st x h' Hnf Ehp (fun E0 => proj1 (Hemp' E0))) as Kh'.
  pose proof (auth_ok_host st sch ui h pt p q f h' K Kh' (fun E0 => proj2 (Hemp' E0)) Hb) as K'.
  destruct Hc as [[-> Hp']|[-> Hp']]; [apply Canon_auth | apply Canon_special]; assumption.
Qed.

End HostAuth.
