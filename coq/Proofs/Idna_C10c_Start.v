(* Proofs/Idna_C10c_Start.v - the fastest tier of process_inner (uts46.rs 1031-1067) is semantically invisible:
   process_inner is the label loop run FROM THE START of the name (the labels that the fastest tier skips are
   pass-through labels, and the loop skips them in the same way).  Both error modes, every adapter. *)
From RU Require Import Base.Prelude Base.Utf8 Base.U32_c13 Gen.Tables Model.Punycode Model.Uts46
  Proofs.Idna_Sim Proofs.Idna_Api Proofs.Idna_Known Proofs.Idna_Hyp Proofs.Idna_Redisc
  Proofs.Idna_C10_Deny Proofs.Idna_C10_Prefix Proofs.Idna_C10_Inner Proofs.Idna_C10_Walk
  Proofs.Idna_C10b_AsciiInner.

Lemma labels_loop_app A cfg ff hy deny a : forall b s,
  labels_loop A cfg ff hy deny (a ++ b) s = sbind (labels_loop A cfg ff hy deny a s) (labels_loop A cfg ff hy deny b).
Proof.
  induction a as [|l r IH]; intros b s; cbn [app labels_loop sbind]; [reflexivity|].
  destruct (label_step A cfg ff hy deny l s) as [s1| |p]; cbn [sbind]; [apply IH|reflexivity|reflexivity].
Qed.

(* the state after a run of pass-through labels *)
Definition pass_end (s : ist) (pl : list (list N)) : ist :=
  match pl with
  | [] => s
  | _ => {| i_ptu := i_ptu s + (if i_seen s then 1 else 0) + len (join_dots pl); i_seen := true; i_inpre := true;
            i_db := i_db s; i_he := i_he s; i_ap := i_ap s |}
  end.

Lemma ist_eta s : s = {| i_ptu := i_ptu s; i_seen := i_seen s; i_inpre := i_inpre s; i_db := i_db s; i_he := i_he s; i_ap := i_ap s |}.
Proof. destruct s; reflexivity. Qed.

Lemma pass_loop A cfg ff hy deny pl : forall s, i_inpre s = true ->
  Forall (fun l => is_passthrough_ascii_label l = true) pl ->
  labels_loop A cfg ff hy deny pl s = SOk (pass_end s pl).
Proof.
  induction pl as [|l r IH]; intros s Hin Hp; [reflexivity|].
  inversion Hp as [|? ? Hl Hr]; subst. cbn [labels_loop]. unfold label_step at 1. rewrite Hin, Hl. cbn [andb sbind].
  match goal with |- labels_loop _ _ _ _ _ _ ?s1 = _ => rewrite (IH s1 eq_refl Hr) end. f_equal. destruct r as [|l2 r2]; [unfold pass_end; cbn [join_dots]; reflexivity|].
  unfold pass_end. cbn [i_ptu i_seen i_inpre i_db i_he i_ap]. f_equal.
  change (join_dots (l :: l2 :: r2)) with (l ++ DOT :: join_dots (l2 :: r2)).
  rewrite len_app, len_cons1. lia.
Qed.

(* two prefix states that differ only in how the dot before the next label is accounted for *)
Lemma label_step_seen A cfg ff hy deny label (p1 p2 : N) (se1 se2 : bool) db he ap :
  p1 + (if se1 then 1 else 0) = p2 + (if se2 then 1 else 0) ->
  label_step A cfg ff hy deny label {| i_ptu := p1; i_seen := se1; i_inpre := true; i_db := db; i_he := he; i_ap := ap |} =
  label_step A cfg ff hy deny label {| i_ptu := p2; i_seen := se2; i_inpre := true; i_db := db; i_he := he; i_ap := ap |}.
Proof.
  intros H. unfold label_step. cbn [i_ptu i_seen i_inpre i_db i_he i_ap andb negb]. rewrite !andb_false_r.
  replace (if se1 && true then p1 + 1 else p1) with (p1 + (if se1 then 1 else 0)) by (destruct se1; cbn [andb]; lia).
  replace (if se2 && true then p2 + 1 else p2) with (p2 + (if se2 then 1 else 0)) by (destruct se2; cbn [andb]; lia).
  rewrite H. reflexivity.
Qed.

Lemma lower_or_dot_pass pre : Forall lower_or_dot pre ->
  Forall (fun l => is_passthrough_ascii_label l = true) (split_on DOT pre).
Proof.
  intros H. apply Forall_forall. intros l Hl. apply lower_label_passthrough.
  pose proof (split_on_Forall lower_or_dot DOT pre H) as H1. pose proof (split_on_nodot pre) as H2.
  rewrite Forall_forall in H1, H2. specialize (H1 l Hl). specialize (H2 l Hl).
  apply Forall_forall. intros x Hx. rewrite Forall_forall in H1. destruct (H1 x Hx) as [Hr|Hr]; [exact Hr|].
  subst x. contradiction (H2 Hx).
Qed.

Definition s_start : ist := {| i_ptu := 0; i_seen := false; i_inpre := true; i_db := []; i_he := false; i_ap := [] |}.

Theorem inner_from_start A cfg ff hy deny d : bytes d ->
  process_inner A cfg ff hy deny d = process_innermost A cfg ff hy deny d d.
Proof.
  intros Hb. unfold process_inner. destruct (fast_tier d d) as [tail|] eqn:Ef.
  - destruct (fast_tier_tail d Hb d tail Ef) as [->|(pre & Hd & Hp)]; [reflexivity|].
    unfold process_innermost. rewrite N.sub_diag. fold s_start.
    replace (split_on DOT d) with (split_on DOT pre ++ split_on DOT tail)
      by (rewrite Hd; symmetry; apply split_on_app_dot).
    rewrite labels_loop_app.
    rewrite (pass_loop A cfg ff hy deny (split_on DOT pre) s_start eq_refl (lower_or_dot_pass pre Hp)). cbn [sbind].
    destruct (split_on DOT tail) as [|l r] eqn:Et; [exfalso; unfold split_on in Et; destruct (split1 DOT tail); discriminate|].
    cbn [labels_loop].
    assert (Hpe : pass_end s_start (split_on DOT pre) =
                  {| i_ptu := len pre; i_seen := true; i_inpre := true; i_db := []; i_he := false; i_ap := [] |}).
    { unfold pass_end. destruct (split_on DOT pre) as [|x xs] eqn:Ep;
        [exfalso; unfold split_on in Ep; destruct (split1 DOT pre); discriminate|].
      rewrite <- Ep, join_split. unfold s_start. cbn [i_ptu i_seen i_inpre i_db i_he i_ap]. reflexivity. }
    rewrite Hpe.
    rewrite (label_step_seen A cfg ff hy deny l (len pre) (len d - len tail) true false [] false []); [reflexivity|].
    rewrite Hd, len_app, len_cons1. lia.
  - unfold process_innermost. rewrite N.sub_diag. fold s_start.
    pose proof (fast_tier_none d Hb d Ef) as Hl.
    rewrite (pass_loop A cfg ff hy deny (split_on DOT d) s_start eq_refl (lower_or_dot_pass d Hl)).
    unfold pass_end. destruct (split_on DOT d) as [|x xs] eqn:Ep;
      [exfalso; unfold split_on in Ep; destruct (split1 DOT d); discriminate|].
    rewrite <- Ep, join_split. unfold s_start. cbn [i_ptu i_seen i_inpre i_db i_he i_ap is_bidi]. reflexivity.
Qed.
