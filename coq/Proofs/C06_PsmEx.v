(* Proofs/C06_PsmEx.v - non-vacuity of C06_all_p: with the host model of Model/Host.v (IDNA oracle idna_clean; HostOK2 and
   host_nonempty hold) the history  parse "http://h/a/b" ; path_segments_mut { push("x<TAB>y"), pop, extend(["..", ".<TAB>.", "c d"]) } ;
   set_ip_host(127.0.0.1)  is a ReachC6p history. *)
From Coq Require Import String.
From RU Require Import Base.Prelude Base.Utf8 Model.AsciiSet Gen.Tables Model.PercentEncoding Model.HostT Model.Host Model.UrlRecord
  Model.Parser Model.Setters Model.WF Proofs.ListN Proofs.C06_WFI Proofs.C06_Path Proofs.C02_Enc Proofs.C02_Parts Proofs.C02_Reach
  Proofs.C02_AuthParts Proofs.C02_Auth Proofs.C02_Hist Proofs.C16_RT6Model Proofs.C02_HistInst Proofs.C02_SetHostCanon Proofs.C02_Reach4
  Proofs.C06_Quirks Proofs.C06_AgreeSet Proofs.C06_Splice Proofs.C06_SpliceEx Proofs.C06_Segments Proofs.C06_SegPush
  Proofs.C06_PushCanon Proofs.C06_All Proofs.C06_AllPsm.
Open Scope N_scope.
Open Scope list_scope.

Notation mhp := (host_parse idna_clean).
Notation mhpo := host_parse_opaque.
Notation mhd := host_display.

Definition ex7_ops : list psm_op := [PPush [120; 9; 121]; PPop; PExtend [[46; 46]; [46; 9; 46]; B "c d"]].

Lemma reach6p_inhabited :
  HostOK2 mhp mhpo mhd /\ host_nonempty mhp mhpo
  /\ exists u0 u1 u2, parse_url true mhp mhpo mhd None None (B "http://h/a/b") = POk u0
    /\ path_segments_session true u0 ex7_ops = Some (u1, SOk) /\ ReachC6p true mhp mhpo mhd u1
    /\ ser u1 = B "http://h/a/b/c%20d"
    /\ set_ip_host true mhd u1 (HIpv4 2130706433) = Some (u2, SOk) /\ ReachC6p true mhp mhpo mhd u2
    /\ ser u2 = B "http://127.0.0.1/a/b/c%20d".
Proof.
  split; [exact HostOK2_inhabited|]. split; [exact (host_nonempty_model idna_clean)|].
  destruct (parse_url true mhp mhpo mhd None None (B "http://h/a/b")) as [u0| |] eqn:E0;
    [|vm_compute in E0; discriminate E0|vm_compute in E0; discriminate E0].
  assert (ReachC6p true mhp mhpo mhd u0) as R0.
  { apply (P_parse true mhp mhpo mhd None (B "http://h/a/b")).
    - apply usv_B_small. vm_compute. reflexivity.
    - vm_compute. reflexivity.
    - left. reflexivity.
    - exact E0. }
  vm_compute in E0. inversion E0; subst u0. clear E0.
  match type of R0 with ReachC6p _ _ _ _ ?v => set (u0 := v) in * end.
  destruct (path_segments_session true u0 ex7_ops) as [[u1 s1]|] eqn:E1; [|vm_compute in E1; discriminate E1].
  assert (s1 = SOk) as -> by (vm_compute in E1; inversion E1; reflexivity).
  assert (ReachC6p true mhp mhpo mhd u1) as R1.
  { apply (P_psm true mhp mhpo mhd u0 ex7_ops u1 R0); try exact E1.
    - vm_compute. reflexivity.
    - repeat constructor; unfold is_usv; lia.
    - vm_compute in E1. inversion E1; subst u1. vm_compute. discriminate. }
  vm_compute in E1. inversion E1; subst u1. clear E1.
  match type of R1 with ReachC6p _ _ _ _ ?v => set (u1 := v) in * end.
  destruct (set_ip_host true mhd u1 (HIpv4 2130706433)) as [[u2 s2]|] eqn:E2; [|vm_compute in E2; discriminate E2].
  assert (s2 = SOk) as -> by (vm_compute in E2; inversion E2; reflexivity).
  exists u0, u1, u2. split; [reflexivity|]. split; [reflexivity|]. split; [exact R1|]. split; [vm_compute; reflexivity|].
  split; [exact E2|].
  assert (ser u2 = B "http://127.0.0.1/a/b/c%20d") as S2 by (vm_compute in E2; inversion E2; subst u2; vm_compute; reflexivity).
  split; [|exact S2].
  apply (P_step true mhp mhpo mhd u1 (OSetIpHost (HIpv4 2130706433)) u2 R1).
  - reflexivity.
  - vm_compute. reflexivity.
  - vm_compute. reflexivity.
  - cbn [apply_op]. rewrite E2. reflexivity.
  - rewrite S2. vm_compute. discriminate.
Qed.
