(* Proofs/C13_Main.v - the statements of Properties/C13.v assembled from the lemma files. *)
From RU Require Import Base.Prelude Base.Utf8 Base.U32_c13 Gen.Tables Model.Punycode Spec.Rfc3492
  Proofs.C13_Ascii Proofs.C13_Bounds Proofs.C13_Enc Proofs.C13_Dec Proofs.C13_Known Proofs.C13_Vli Proofs.C13_Rt.

Lemma not_known2 p : ~ Known_C13_2 p -> len p <= U32_MAX.
Proof. unfold Known_C13_2. lia. Qed.

Lemma safe_main : forall cfg,
  (forall s, (encode cfg s = Err \/ encode cfg s = Ok (s_encode s))
             /\ (encode_str cfg s = Err \/ encode_str cfg s = Ok (s_encode s)))
  /\ (forall p, ~ Known_C13_2 p ->
        (forall site, decode cfg p <> Panic site) /\ (forall site, decode_to_string cfg p <> Panic site)
        /\ (forall s, decode cfg p = Ok s -> s_decode p = Some s)
        /\ (forall s, decode_to_string cfg p = Ok s -> s_decode p = Some s)).
Proof.
  intros cfg. split.
  - intros s. split; [apply encode_safe|apply encode_str_safe].
  - intros p Hk. apply not_known2 in Hk. repeat split.
    + intros site. exact (decode_with_no_panic cfg U8External p Hk site).
    + intros site. exact (decode_with_no_panic cfg U8External p Hk site).
    + intros s. exact (decode_refines cfg p s Hk).
    + intros s. exact (decode_refines cfg p s Hk).
Qed.

(* the internal instantiations of the decoder never panic either (used by the UTS #46 model) *)
Lemma internal_decoder_no_panic : forall cfg it p, ~ Known_C13_2 p -> forall site, decode_with cfg it p <> Panic site.
Proof. intros cfg it p Hk. apply decode_with_no_panic. apply not_known2. exact Hk. Qed.

Lemma internal_main : forall cfg s, usv_list s -> (length s <= 1000)%nat ->
  encode_internal cfg s = encode cfg s /\ encode cfg s = Ok (s_encode s).
Proof. exact encode_internal_eq. Qed.

(* the round trips, full statements (not proved in general) *)
Definition dec_enc_statement : Prop :=
  forall cfg s p, usv_list s -> encode cfg s = Ok p -> ~ Known_C13 s -> decode cfg p = Ok s.
Definition dec_enc_small_statement : Prop :=
  forall cfg s p, usv_list s -> (length s <= 3854)%nat -> encode cfg s = Ok p -> decode cfg p = Ok s.
Definition enc_dec_statement : Prop :=
  forall cfg p s, ~ Known_C13_2 p -> decode cfg p = Ok s -> has_non_ascii s = true ->
    exists q, encode cfg s = Ok q /\ eq_upto_digit_case q p.

(* what is proved of decode (encode s) = s: Bootstring over unbounded integers is invertible
   (s_round_trip), both u32 functions refine the unbounded ones, hence the u32 round trip can fail
   only by the decoder returning None - never by returning another string *)
Lemma dec_enc_partial : forall cfg s p, usv_list s -> encode cfg s = Ok p -> ~ Known_C13_2 p ->
  p = s_encode s /\ s_decode p = Some s /\ (decode cfg p = Ok s \/ decode cfg p = Err).
Proof.
  intros cfg s p Hu He Hk.
  destruct (encode_safe cfg s) as [E|E]; rewrite E in He; [discriminate|]. inversion He. subst p.
  split; [reflexivity|]. split; [exact (s_round_trip s Hu)|].
  destruct (decode cfg (s_encode s)) as [s'| |site] eqn:Hd.
  - left. apply decode_refines in Hd; [|apply not_known2; exact Hk].
    rewrite (s_round_trip s Hu) in Hd. inversion Hd. reflexivity.
  - right. reflexivity.
  - exfalso. exact (decode_with_no_panic cfg U8External (s_encode s) (not_known2 _ Hk) site Hd).
Qed.

Lemma enc_dec_partial : forall cfg p s q, ~ Known_C13_2 p ->
  decode cfg p = Ok s -> encode cfg s = Ok q -> s_decode p = Some s /\ q = s_encode s /\ ascii q.
Proof.
  intros cfg p s q Hk Hd He. split; [exact (decode_refines cfg p s (not_known2 p Hk) Hd)|].
  split; [|exact (encode_ascii cfg s q He)].
  destruct (encode_safe cfg s) as [E|E]; rewrite E in He; [discriminate|]. inversion He. reflexivity.
Qed.

Lemma insertions_main : forall it base ins out i c,
  Rep it base (sort_by_key ins) 0 out -> i <= len out ->
  Rep it base (sort_by_key (shift_ins i ins ++ [(i, c)])) 0 (s_insert_at i c out)
  /\ decode_collect it (sort_by_key ins) base 0 = Ok out.
Proof.
  intros it base ins out i c HR Hi. split; [|exact (collect_Rep it base _ 0 out HR)].
  rewrite sort_snoc.
  - rewrite sort_shift. pose proof (Rep_insert it base _ 0 out HR i c ltac:(lia) ltac:(lia)) as H.
    rewrite N.sub_0_r in H. exact H.
  - intros y Hy. rewrite shift_ins_map in Hy. apply in_map_iff in Hy. destruct Hy as [e [Heq _]]. subst y.
    unfold shift1. cbn [fst]. destruct (i <=? fst e) eqn:E; cbn [fst]; lia.
Qed.
