(* Proofs/C04_Table.v - "no public function panics", function by function.
   table : one row per entry of the regenerated public-function inventory (T_C04_API = C04_Inventory.modelled_api,
   167 `pub fn`s of the five crates), in source order.  A row names
     - the kind of decision (kind),
     - the CLAIM (claim_id; claim i : Prop is the statement, on the Gallina models, that decides the row),
     - the name of the pinned theorem of Properties/ that states it (a string, for the reader and the manifest).
   claims_hold proves every claim.  table_complete says that the (crate, name) columns of the table ARE the regenerated
   inventory: a new `pub fn` in /repo changes T_C04_API and breaks it until a row - hence a decision - is added.
   kinds_consistent says that exactly the rows of kind KByType / KHarness carry the trivial claim, and
   bytype_no_panic_macro that no KByType function contains a panic macro of its own in the regenerated panic-site
   inventory (two listed exceptions).
   Modules with clashing constructor names are required without import. *)
From Coq Require Import String Ascii.
From RU Require Import Base.Prelude Base.Utf8 Model.AsciiSet Gen.Tables Model.PercentEncoding
  Model.HostT Model.UrlRecord Model.Parser Model.WF.
From RU Require Base.U32_c13 Base.Outcome_c15 Model.Punycode Model.FormUrlencoded Model.Base64 Model.Mime Model.DataUrl
  Model.Host Model.Setters Model.Uts46 Model.FilePath Model.Origin Model.MakeRelative Model.QueryPairs.
From RU Require Proofs.C04_Inventory Proofs.C04_NoPanic Proofs.C04_Parse Proofs.C04_ParseTotal Proofs.C04_ParseFile7
  Proofs.C04_PathFile Proofs.C04_PathCtx Proofs.C04_SetPath Proofs.C04_SetHost Proofs.C04_Chain Proofs.C04_Rest
  Proofs.C04_Origin Proofs.C04_Uts46_Inner Proofs.C06_Main Proofs.C03_WF Proofs.C03_ReachParts Proofs.C09_Reject
  Proofs.C13_Known Proofs.C15_Main Proofs.C15_Ser Proofs.C15_Parse Proofs.C17_Main Proofs.C17_Decode Proofs.C16_Origin
  Proofs.Idna_Known Proofs.Idna_WalkEnc Proofs.Idna_WalkDepr Proofs.C19_Pure Proofs.C04_CheckInv Proofs.C06_Suffix.
From RU Require Properties.C03 Properties.C06 Properties.C09 Properties.C13 Properties.C14 Properties.C15 Properties.C19.

Inductive kind :=
| KTheorem      (* no panic, under the stated well-formedness premise only *)
| KExact        (* panics EXACTLY in a computable / stated class: an iff-theorem (the class is a known finding or a documented panic) *)
| KOutside      (* no panic outside a named known class (the class has a witness: a _refuted theorem) *)
| KByType       (* plain data: constructor, field read, table lookup or a total model function whose result type has no
                   panic outcome and whose Rust body has no slicing / unwrap / arithmetic that can fail *)
| KDocumented   (* a panic the documentation promises (DESIGN section 10) on a function without Coq model: probed once by the harness *)
| KHarness.     (* no Coq model (I/O, serde, callbacks): the catch_unwind harness row only *)

Definition kind_eqb (a b : kind) : bool :=
  match a, b with
  | KTheorem, KTheorem | KExact, KExact | KOutside, KOutside | KByType, KByType | KDocumented, KDocumented
  | KHarness, KHarness => true
  | _, _ => false
  end.

Inductive claim_id :=
| P_trivial
| P_parse_nobase | P_parse_iff | P_parse_with_params
| P_accessors | P_accessors2 | P_views | P_make_relative | P_origin
| P_setters | P_set_path | P_psm | P_set_host | P_set_ip_host | P_query_pairs_mut
| P_file_from | P_file_to
| P_host | P_authority | P_path_state
| P_quirks_get | P_quirks_set
| P_new_opaque
| P_uts46 | P_uts46_process | P_idna_wrappers | P_idna_to_ascii | P_verify_dns
| P_punycode
| P_pe_table | P_aset
| P_form | P_form_ser
| P_data_process | P_data_decode | P_base64 | P_mime
| P_check_invariants.

Definition claim_eqb_trivial (i : claim_id) : bool := match i with P_trivial => true | _ => false end.

Definition base_premise (base : option url) : Prop :=
  match base with Some b => C04_ParseTotal.base_ok b = true | None => True end.

Definition claim (i : claim_id) : Prop :=
  match i with
  | P_trivial => True
  | P_parse_nobase =>
      forall dbg hp hpo hd ovr input, parse_url dbg hp hpo hd ovr None input <> PPanic
  | P_parse_iff =>
      forall dbg hp hpo hd ovr base input, base_premise base ->
        (parse_url dbg hp hpo hd ovr base input = PPanic <-> dbg = true /\ C04_ParseFile7.known_c04_7x base input = true)
  | P_parse_with_params =>
      (forall dbg hp hpo hd ovr input, parse_url dbg hp hpo hd ovr None input <> PPanic)
      /\ (forall dbg u ops, wf_b u = true -> Forall (fun b => b < 128) (ser u) -> Forall C15_Ser.op_ok ops ->
            exists u', QueryPairs.query_pairs_session dbg u ops = Some u')
  | P_accessors =>
      forall dbg u, wf_b u = true ->
        (forall p, exists i, Setters.position_index dbg u p = Some i /\ i <= nlen (ser u))
        /\ (forall p q, (C03_WF.pos_rank p <= C03_WF.pos_rank q)%nat -> exists s, Setters.index_range dbg u p q = Some s)
        /\ (forall p, exists s t, Setters.index_to dbg u p = Some s /\ Setters.index_from dbg u p = Some t)
        /\ (exists sch un pw hs pth q f,
              scheme u = Some sch /\ username dbg u = Some un /\ password dbg u = Some pw /\ host_str u = Some hs
              /\ path u = Some pth /\ query dbg u = Some q /\ fragment dbg u = Some f)
  | P_accessors2 =>
      forall dbg u, wf_b u = true ->
        has_authority dbg u <> None /\ cannot_be_a_base u <> None /\ host_of u <> None /\ domain u <> None
        /\ port_or_known_default u <> None
  | P_views =>
      forall dbg u, wf_b u = true ->
        (exists r, path_segments u = Some r) /\ (exists r, QueryPairs.query_pairs dbg u = Some r)
  | P_make_relative =>
      forall dbg b t, wf_b b = true -> wf_b t = true ->
        Forall (fun x => x < 128) (ser b) -> Forall (fun x => x < 128) (ser t) ->
        exists r, MakeRelative.make_relative dbg b t = Some r
  | P_origin =>
      forall dbg hp ho hd, C03_ReachParts.HostWf hp ho hd ->
        (forall c u, wf_b u = true ->
           (Origin.url_origin dbg hp ho hd c u = Origin.OPanic <-> C04_Origin.tuple_no_host_b u = true))
        /\ (forall c p v, Origin.url_parse dbg hp ho hd p = POk v -> Origin.url_origin dbg hp ho hd c v <> Origin.OPanic)
        /\ (forall c u, Origin.url_origin dbg hp ho hd c u <> Origin.OFuel)
  | P_setters =>
      forall dbg u, C06_Main.wfh u ->
        (forall f, exists u', Setters.set_fragment dbg u f = Some u')
        /\ (forall q, C06_Main.str_arg_ok q -> exists u', Setters.set_query dbg u q = Some u')
        /\ (forall p, C06_Main.port_arg_ok p -> exists r, Setters.set_port dbg u p = Some r)
        /\ (forall pw, exists r, Setters.set_password dbg u pw = Some r)
        /\ (forall un, exists r, Setters.set_username dbg u un = Some r)
        /\ (forall s, exists r, Setters.set_scheme dbg u s = Some r)
  | P_set_path =>
      forall dbg u p, wf_b u = true -> exists u', Setters.set_path dbg u p = Some u'
  | P_psm =>
      forall dbg u ops, wf_b u = true ->
        (Setters.path_segments_session dbg u ops = None <-> dbg = true /\ C04_SetPath.psm_assert_fails u = true)
  | P_set_host =>
      forall dbg hp hpo hd u h, wf_b u = true ->
        (Setters.set_host dbg hp hpo hd u h = None <-> dbg = true /\ h = None /\ C04_SetHost.known_c04_1 u = true)
  | P_set_ip_host =>
      forall dbg (hd : host -> list N) u h, wf_b u = true -> exists r, Setters.set_ip_host dbg hd u h = Some r
  | P_query_pairs_mut =>
      forall dbg u ops, wf_b u = true -> Forall (fun b => b < 128) (ser u) -> Forall C15_Ser.op_ok ops ->
        exists u', QueryPairs.query_pairs_session dbg u ops = Some u'
  | P_file_from =>
      forall p, FilePath.from_file_path p <> FilePath.FPanic /\ FilePath.from_directory_path p <> FilePath.FPanic
  | P_file_to =>
      forall dbg u, wf_b u = true -> FilePath.to_file_path dbg u <> FilePath.FPanic
  | P_host =>
      (forall idna input, C09_Reject.no_panic (Host.host_parse_x idna input))
      /\ (forall input, C09_Reject.no_panic (Host.host_parse_opaque_x input))
  | P_authority =>
      forall hp hpo hd ctx st se ser l dflt,
        parse_userinfo st ser l <> PPanic /\ parse_host_and_port hp hpo hd ctx st se ser l <> PPanic
        /\ parse_host hp hpo st l <> PPanic /\ parse_port ctx dflt l <> PPanic
  | P_path_state =>
      forall dbg ctx st ps k, k <= ps + 1 -> forall l ser ss pend hh, C04_PathFile.path_inv ps k ser ss ->
        C04_PathFile.path_res st ps k ser (parse_path_loop dbg ctx st ps l ser ss pend hh)
  | P_quirks_get =>
      forall dbg u, wf_b u = true ->
        (exists s, Setters.q_protocol u = Some s) /\ (exists s, Setters.q_username dbg u = Some s)
        /\ (exists s, Setters.q_password dbg u = Some s) /\ (exists s, Setters.q_host dbg u = Some s)
        /\ (exists s, Setters.q_hostname u = Some s) /\ (exists s, Setters.q_port dbg u = Some s)
        /\ (exists s, Setters.q_pathname u = Some s) /\ (exists s, Setters.q_search dbg u = Some s)
        /\ (exists s, Setters.q_hash dbg u = Some s)
  | P_quirks_set =>
      forall dbg hp hpo hd u, C06_Main.wfh u ->
        (forall v, exists r, Setters.q_set_protocol dbg u v = Some r)
        /\ (forall v, exists r, Setters.q_set_username dbg u v = Some r)
        /\ (forall v, exists r, Setters.q_set_password dbg u v = Some r)
        /\ (forall v, exists r, Setters.q_set_host dbg hp hpo hd u v = Some r)
        /\ (forall v, exists r, Setters.q_set_hostname dbg hp hpo hd u v = Some r)
        /\ (forall v, exists r, Setters.q_set_port dbg u v = Some r)
        /\ (forall v, exists u', Setters.q_set_pathname dbg u v = Some u')
        /\ (forall v, usv_list v -> exists u', Setters.q_set_search dbg u v = Some u')
        /\ (forall v, exists u', Setters.q_set_hash dbg u v = Some u')
  | P_new_opaque => forall c, Origin.new_opaque c <> Origin.OPanic
  | P_uts46 =>
      forall A cfg d deny hy dns p, C04_Uts46_Inner.AdapterNP A -> Idna_WalkEnc.AdapterUSV A -> bytes d ->
        (forall site, Uts46.to_ascii A cfg d deny hy dns <> U32_c13.Panic site)
        /\ (Idna_Known.Known_C11 A cfg d deny hy = false ->
            forall site, Uts46.to_user_interface A cfg d deny hy p <> Uts46.UIPanic site)
  | P_uts46_process =>
      forall A cfg ff p d deny hy w,
        C04_Uts46_Inner.AdapterNP A -> Idna_WalkEnc.AdapterUSV A -> bytes d ->
        (ff = false -> Idna_Known.Known_C11 A cfg d deny hy = false) ->
        match fst (fst (Uts46.process A cfg ff p d deny hy None None w)) with
        | Uts46.PPanic _ | Uts46.PSinkError => False | _ => True end
  | P_idna_wrappers =>
      forall A cfg, C04_Uts46_Inner.AdapterNP A -> Idna_WalkEnc.AdapterUSV A ->
        (forall c domain out, usv_list domain ->
           Idna_Known.Known_C11 A cfg (utf8_encode (Uts46.map_transitional domain (Uts46.transitional_processing c)))
             (Uts46.config_deny_list c) (Uts46.config_hyphens c) = false ->
           forall site, Uts46.idna_to_unicode A cfg c domain out <> U32_c13.Panic site)
        /\ (forall domain, usv_list domain ->
             (forall site, Uts46.domain_to_ascii A cfg domain <> U32_c13.Panic site) /\
             (forall site, Uts46.domain_to_ascii_strict A cfg domain <> U32_c13.Panic site) /\
             (Idna_Known.Known_C11 A cfg (utf8_encode domain) Uts46.DENY_EMPTY Uts46.HAllow = false ->
              forall site, Uts46.domain_to_unicode A cfg domain <> Uts46.UIPanic site))
  | P_idna_to_ascii =>
      forall A cfg c domain out,
        C04_Uts46_Inner.AdapterNP A -> Idna_WalkEnc.AdapterUSV A -> usv_list domain ->
        (U32_c13.is_panic (Uts46.idna_to_ascii A cfg c domain out) = true <->
         cfg = true /\ Uts46.cfg_verify_dns_length c = true /\ Uts46.is_ascii_l out = false /\
         exists s x, Uts46.process A cfg true Uts46.never_unicode
                       (utf8_encode (Uts46.map_transitional domain (Uts46.transitional_processing c)))
                       (Uts46.config_deny_list c) (Uts46.config_hyphens c) None None false = (Uts46.PWroteToSink, s, x))
  | P_verify_dns =>
      forall cfg d t, U32_c13.is_panic (Uts46.verify_dns_length_pub cfg d t) = true
                      <-> cfg = true /\ Uts46.is_ascii_l d = false
  | P_punycode =>
      forall cfg,
        (forall s site, Punycode.encode cfg s <> U32_c13.Panic site /\ Punycode.encode_str cfg s <> U32_c13.Panic site)
        /\ (forall p, ~ C13_Known.Known_C13_2 p ->
              forall site, Punycode.decode cfg p <> U32_c13.Panic site
                           /\ Punycode.decode_to_string cfg p <> U32_c13.Panic site)
  | P_pe_table =>
      (forall b, is_byte b -> (N.to_nat (b * T_ENC_STRIDE) + N.to_nat T_ENC_WIDTH <= length T_ENC_TABLE)%nat)
      /\ (forall s b, (128 <=? b) = true \/ aset_contains_o s b <> None)
  | P_aset =>
      (forall s x, aset_add_o s x = None <-> 128 <= x)
      /\ (forall s b, b < 128 -> aset_contains_o s b <> None /\ aset_add_o s b <> None /\ aset_remove_o s b <> None)
  | P_form =>
      forall bs, FormUrlencoded.parse_next bs <> FormUrlencoded.PFuel
                 /\ FormUrlencoded.parse bs = Some (C15_Parse.parse_spec bs)
                 /\ exists cs, FormUrlencoded.bser_chunks bs = Outcome_c15.Ok cs
  | P_form_ser =>
      forall target start ops, Forall C15_Ser.op_ok ops -> start <= nlen target ->
        ~ C15_Main.Known_C15_1 target start ops ->
        exists result, C15_Main.str_session target start ops = Outcome_c15.Ok result
  | P_data_process =>
      forall s, usv_list s ->
        (exists r, DataUrl.process s = Mime.Ok r)
        /\ (forall site, DataUrl.process_and_decode s <> DataUrl.PdPanic site)
        /\ DataUrl.process_and_decode s <> DataUrl.PdOutOfFuel
  | P_data_decode =>
      (forall u, DataUrl.decode_to_vec u <> DataUrl.DecPanic)
      /\ (forall (W E : Type) (write : W -> list N -> W * option E) base64 w body,
            snd (Base64.data_url_decode write base64 w body) <> Base64.BodyPanic)
  | P_base64 =>
      forall (W E : Type) (write : W -> list N -> W * option E) w body,
        snd (Base64.decode_without_base64 write w body) <> Base64.BodyPanic
        /\ snd (Base64.decode_with_base64 write w body) <> Base64.BodyPanic
  | P_mime =>
      (forall s, usv_list s -> exists r, Mime.parse s = Mime.Ok r)
      /\ (forall m, C19_Pure.usv_mime m -> exists d, Mime.display m = Mime.Ok d)
  | P_check_invariants =>
      (* Url::check_invariants (transcription: Proofs/C04_CheckInv.v) on a record with wf_b and host_text_ok: it panics
         exactly when its structural part passes and the re-parse fails (.expect("Failed to parse myself?")); `other` is
         the outcome of Url::parse(self.as_str()), whose Ok values are well-formed *)
      forall hd u other, wf_b u = true -> C06_Suffix.host_text_ok u ->
        (forall o, other = POk o -> wf_b o = true) ->
        (C04_CheckInv.check_invariants hd u other = C04_CheckInv.CPanic
         <-> (has_authority_b u && negb (C04_CheckInv.ip_text_ok hd u) = false /\ forall o, other <> POk o))
  end.

(* ---------------------------------------------------------------- every claim holds *)
Lemma accessors2_hold dbg u : wf_b u = true ->
  has_authority dbg u <> None /\ cannot_be_a_base u <> None /\ host_of u <> None /\ domain u <> None
  /\ port_or_known_default u <> None.
Proof.
  intros W. split; [rewrite (C03_WF.has_authority_eval dbg u W); discriminate|].
  split; [rewrite (C06_Steps.cannot_be_a_base_eval u W); discriminate|].
  destruct (C04_Rest.host_of_some dbg u W) as [h Eh].
  split; [rewrite Eh; discriminate|]. split.
  - unfold host_of in Eh. unfold domain. destruct (hosti u); try discriminate.
    destruct (u_slice u (host_start u) (host_end u)); [discriminate | discriminate Eh].
  - unfold port_or_known_default. destruct (port u); [discriminate|]. rewrite (C03_WF.scheme_eval u W). discriminate.
Qed.

Theorem claims_hold : forall i, claim i.
Proof.
  destruct i; cbn [claim].
  - exact I.
  - exact C04_Chain.parse_no_base_no_panic.
  - exact C04_ParseFile7.parse_url_panic_iff.
  - split; [exact C04_Chain.parse_no_base_no_panic|].
    intros dbg u ops W A O. destruct (C15.C15_url dbg u ops W A O) as (u' & H & _). exists u'. exact H.
  - intros dbg u H. split; [|split; [|split]].
    + intros p. exact (C03.C03_index dbg u p H).
    + exact (proj1 (C03.C03_slices dbg u H)).
    + intros p. destruct (proj1 (proj2 (C03.C03_slices dbg u H)) p) as (s & t & Hs & Ht & _). exists s, t. tauto.
    + destruct (C03.C03_concat dbg u H) as (sch & un & pw & hs & pth & q & f & H1 & H2 & H3 & H4 & H5 & H6 & H7 & _).
      exists sch, un, pw, hs, pth, q, f. tauto.
  - exact accessors2_hold.
  - exact C04_Rest.views_total.
  - exact C04_Rest.make_relative_total.
  - intros dbg hp ho hd HW. split; [|split].
    + intros c u W. rewrite C04_Origin.tuple_no_host_spec. exact (C04_Origin.url_origin_panic_iff dbg hp ho hd HW c u W).
    + exact (C04_Origin.url_origin_parsed_no_panic dbg hp ho hd HW).
    + intros c u. exact (C16_Colons.fuel_always_enough dbg hp ho hd c u).
  - exact C06.C06_nopanic.
  - intros dbg u p W. exact (C04_SetPath.set_path_total dbg u p W).
  - intros dbg u ops W. exact (C04_SetPath.session_panics_iff dbg u ops W).
  - intros dbg hp hpo hd u h W. exact (C04_SetHost.set_host_panics_iff dbg hp hpo hd u h W).
  - intros dbg hd u h W. exact (C04_SetHost.set_ip_host_total dbg (fun _ => HostT.Err EmptyHost) (fun _ => HostT.Err EmptyHost) hd u h W).
  - intros dbg u ops W A O. destruct (C15.C15_url dbg u ops W A O) as (u' & H & _). exists u'. exact H.
  - exact C04_Rest.from_file_path_no_panic.
  - exact C04_Rest.to_file_path_no_panic.
  - exact C09.C09_total.
  - intros hp hpo hd ctx st se ser l dflt.
    split; [exact (C04_Parse.parse_userinfo_no_panic st ser l)|].
    split; [exact (C04_Parse.parse_host_and_port_no_panic hp hpo hd ctx st se ser l)|].
    split; [exact (C04_Rest.parse_host_no_panic hp hpo st l) | exact (C04_Rest.parse_port_no_panic ctx dflt l)].
  - exact C04_PathCtx.loop_ctx.
  - exact C04_Rest.quirks_getters_total.
  - exact C04_Rest.quirks_setters_total.
  - exact C04_Origin.new_opaque_no_panic.
  - intros A cfg d deny hy dns p HN HU Hb. exact (Idna_WalkEnc.uts46_no_panic A cfg d deny hy dns p HN HU Hb).
  - exact Idna_WalkEnc.uts46_process_no_panic.
  - intros A cfg HN HU. split.
    + intros c domain out Hd HK. exact (Idna_WalkDepr.idna_to_unicode_no_panic A cfg HN HU c domain out Hd HK).
    + intros domain Hd. exact (Idna_WalkDepr.lib_wrappers_no_panic A cfg HN HU domain Hd).
  - intros A cfg c domain out HN HU Hd. exact (Idna_WalkDepr.idna_to_ascii_panic_iff A cfg HN HU c domain out Hd).
  - intros cfg d t. unfold Uts46.verify_dns_length_pub. destruct cfg; cbn [andb].
    + destruct (Uts46.is_ascii_l d); cbn [negb U32_c13.is_panic]; split; try tauto; try discriminate.
      intros (_ & H). discriminate H.
    + cbn [U32_c13.is_panic]. split; [discriminate | intros (H & _); discriminate H].
  - intros cfg. destruct (C13.C13_safe cfg) as [He Hd]. split.
    + intros s site. destruct (He s) as [[H1|H1] [H2|H2]]; rewrite H1, H2; split; discriminate.
    + intros p Hk site. destruct (Hd p Hk) as (H1 & H2 & _). exact (conj (H1 site) (H2 site)).
  - exact (conj C04_NoPanic.enc_table_slice_in_range C04_NoPanic.should_encode_no_panic).
  - exact (conj C14.C14_add_panics_iff C04_NoPanic.aset_ops_no_panic).
  - intros bs. destruct (C15.C15_views bs) as (H1 & _ & (cs & H3 & _) & _).
    destruct (C15.C15_total bs [] []) as (H4 & _).
    split; [exact H1|]. split; [exact H4|]. exists cs. exact H3.
  - intros target start ops Ho Hs Hk. destruct (C15.C15_suffix target start ops Ho Hs Hk) as (r & Hr & _).
    exists r. exact Hr.
  - exact C17_Main.process_and_decode_total.
  - split; [exact C17_Decode.decode_to_vec_no_panic|].
    intros W E write base64 w body. exact (C04_NoPanic.data_url_decode_no_panic write base64 w body).
  - intros W E write w body. exact (conj (C04_NoPanic.dwo_no_panic write w body) (C04_NoPanic.dwb_no_panic write w body)).
  - exact C19.C19_total.
  - exact C04_CheckInv.check_invariants_panic_iff.
Qed.

(* ---------------------------------------------------------------- the table *)
Record row := R { r_crate : string; r_name : string; r_kind : kind; r_claim : claim_id; r_theorem : string }.

Local Open Scope string_scope.
Definition table : list row := [
  R "url" "ParseOptions::base_url" KByType P_trivial "-";
  R "url" "ParseOptions::encoding_override" KByType P_trivial "-";
  R "url" "ParseOptions::syntax_violation_callback" KHarness P_trivial "-";
  R "url" "ParseOptions::parse" KExact P_parse_iff "C04_parse_panic_iff";
  R "url" "Url::parse" KTheorem P_parse_nobase "C04_parse_no_base_no_panic";
  R "url" "Url::parse_with_params" KTheorem P_parse_with_params "C04_parse_no_base_no_panic + C15_url";
  R "url" "Url::join" KExact P_parse_iff "C04_parse_panic_iff";
  R "url" "Url::make_relative" KTheorem P_make_relative "C04_no_panic_inventory (claim P_make_relative)";
  R "url" "Url::options" KByType P_trivial "-";
  R "url" "Url::as_str" KByType P_trivial "-";
  R "url" "Url::into_string" KByType P_trivial "-";
  R "url" "Url::check_invariants" KExact P_check_invariants "C04_check_invariants";
  R "url" "Url::origin" KExact P_origin "C04_origin_panic_iff";
  R "url" "Url::scheme" KTheorem P_accessors "C04_no_panic_accessors";
  R "url" "Url::is_special" KTheorem P_accessors "C04_no_panic_accessors";
  R "url" "Url::has_authority" KTheorem P_accessors2 "C04_no_panic_inventory (claim P_accessors2)";
  R "url" "Url::authority" KTheorem P_accessors "C04_no_panic_accessors";
  R "url" "Url::cannot_be_a_base" KTheorem P_accessors2 "C04_no_panic_inventory (claim P_accessors2)";
  R "url" "Url::username" KTheorem P_accessors "C04_no_panic_accessors";
  R "url" "Url::password" KTheorem P_accessors "C04_no_panic_accessors";
  R "url" "Url::has_host" KByType P_trivial "-";
  R "url" "Url::host_str" KTheorem P_accessors "C04_no_panic_accessors";
  R "url" "Url::host" KTheorem P_accessors2 "C04_no_panic_inventory (claim P_accessors2)";
  R "url" "Url::domain" KTheorem P_accessors2 "C04_no_panic_inventory (claim P_accessors2)";
  R "url" "Url::port" KByType P_trivial "-";
  R "url" "Url::port_or_known_default" KTheorem P_accessors2 "C04_no_panic_inventory (claim P_accessors2)";
  R "url" "Url::socket_addrs" KHarness P_trivial "-";
  R "url" "Url::path" KTheorem P_accessors "C04_no_panic_accessors";
  R "url" "Url::path_segments" KTheorem P_views "C04_no_panic_inventory (claim P_views)";
  R "url" "Url::query" KTheorem P_accessors "C04_no_panic_accessors";
  R "url" "Url::query_pairs" KTheorem P_views "C04_no_panic_inventory (claim P_views)";
  R "url" "Url::fragment" KTheorem P_accessors "C04_no_panic_accessors";
  R "url" "Url::set_fragment" KTheorem P_setters "C04_no_panic_setters";
  R "url" "Url::set_query" KTheorem P_setters "C04_no_panic_setters";
  R "url" "Url::query_pairs_mut" KTheorem P_query_pairs_mut "C15_url";
  R "url" "Url::set_path" KTheorem P_set_path "C04_no_panic_setters2";
  R "url" "Url::path_segments_mut" KExact P_psm "C04_no_panic_setters2";
  R "url" "Url::set_port" KTheorem P_setters "C04_no_panic_setters";
  R "url" "Url::set_host" KExact P_set_host "C04_no_panic_setters2";
  R "url" "Url::set_ip_host" KTheorem P_set_ip_host "C04_no_panic_setters2";
  R "url" "Url::set_password" KTheorem P_setters "C04_no_panic_setters";
  R "url" "Url::set_username" KTheorem P_setters "C04_no_panic_setters";
  R "url" "Url::set_scheme" KTheorem P_setters "C04_no_panic_setters";
  R "url" "Url::from_file_path" KTheorem P_file_from "C04_no_panic_inventory (claim P_file_from)";
  R "url" "Url::from_directory_path" KTheorem P_file_from "C04_no_panic_inventory (claim P_file_from)";
  R "url" "Url::serialize_internal" KHarness P_trivial "-";
  R "url" "Url::deserialize_internal" KHarness P_trivial "-";
  R "url" "Url::to_file_path" KTheorem P_file_to "C04_no_panic_inventory (claim P_file_to)";
  R "url" "Host::to_owned" KByType P_trivial "-";
  R "url" "Host::parse" KTheorem P_host "C04_no_panic_host";
  R "url" "Host::parse_opaque" KTheorem P_host "C04_no_panic_host";
  R "url" "origin::url_origin" KExact P_origin "C04_origin_panic_iff";
  R "url" "Origin::new_opaque" KTheorem P_new_opaque "C04_no_panic_inventory (claim P_new_opaque)";
  R "url" "Origin::is_tuple" KByType P_trivial "-";
  R "url" "Origin::ascii_serialization" KByType P_trivial "-";
  R "url" "Origin::unicode_serialization" KOutside P_idna_wrappers "C04_no_panic_idna_wrappers";
  R "url" "SyntaxViolation::description" KByType P_trivial "-";
  R "url" "SchemeType::is_special" KByType P_trivial "-";
  R "url" "SchemeType::is_file" KByType P_trivial "-";
  R "url" "parser::default_port" KByType P_trivial "-";
  R "url" "Input::new_no_trim" KByType P_trivial "-";
  R "url" "Input::new_trim_tab_and_newlines" KByType P_trivial "-";
  R "url" "Input::new_trim_c0_control_and_space" KByType P_trivial "-";
  R "url" "Input::is_empty" KByType P_trivial "-";
  R "url" "Input::split_prefix" KByType P_trivial "-";
  R "url" "Parser::for_setter" KByType P_trivial "-";
  R "url" "Parser::parse_url" KExact P_parse_iff "C04_parse_panic_iff";
  R "url" "Parser::parse_scheme" KByType P_trivial "-";
  R "url" "Parser::parse_host" KTheorem P_authority "C04_no_panic_authority_states";
  R "url" "Parser::file_host" KByType P_trivial "-";
  R "url" "Parser::parse_port" KTheorem P_authority "C04_no_panic_authority_states";
  R "url" "Parser::parse_path_start" KTheorem P_path_state "C04_path_state_total_ctx";
  R "url" "Parser::parse_path" KTheorem P_path_state "C04_path_state_total_ctx";
  R "url" "Parser::parse_cannot_be_a_base_path" KByType P_trivial "-";
  R "url" "Parser::parse_query" KByType P_trivial "-";
  R "url" "Parser::parse_fragment" KByType P_trivial "-";
  R "url" "parser::ascii_alpha" KByType P_trivial "-";
  R "url" "parser::to_u32" KByType P_trivial "-";
  R "url" "parser::is_windows_drive_letter" KByType P_trivial "-";
  R "url" "path_segments::new" KExact P_psm "C04_no_panic_setters2";
  R "url" "PathSegmentsMut::clear" KExact P_psm "C04_no_panic_setters2";
  R "url" "PathSegmentsMut::pop_if_empty" KExact P_psm "C04_no_panic_setters2";
  R "url" "PathSegmentsMut::pop" KExact P_psm "C04_no_panic_setters2";
  R "url" "PathSegmentsMut::push" KExact P_psm "C04_no_panic_setters2";
  R "url" "PathSegmentsMut::extend" KExact P_psm "C04_no_panic_setters2";
  R "url" "quirks::internal_components" KByType P_trivial "-";
  R "url" "quirks::domain_to_ascii" KTheorem P_idna_wrappers "C04_no_panic_idna_wrappers";
  R "url" "quirks::domain_to_unicode" KOutside P_idna_wrappers "C04_no_panic_idna_wrappers";
  R "url" "quirks::href" KByType P_trivial "-";
  R "url" "quirks::set_href" KTheorem P_parse_nobase "C04_parse_no_base_no_panic";
  R "url" "quirks::origin" KExact P_origin "C04_origin_panic_iff";
  R "url" "quirks::protocol" KTheorem P_quirks_get "C04_no_panic_quirks";
  R "url" "quirks::set_protocol" KTheorem P_quirks_set "C04_no_panic_quirks";
  R "url" "quirks::username" KTheorem P_quirks_get "C04_no_panic_quirks";
  R "url" "quirks::set_username" KTheorem P_quirks_set "C04_no_panic_quirks";
  R "url" "quirks::password" KTheorem P_quirks_get "C04_no_panic_quirks";
  R "url" "quirks::set_password" KTheorem P_quirks_set "C04_no_panic_quirks";
  R "url" "quirks::host" KTheorem P_quirks_get "C04_no_panic_quirks";
  R "url" "quirks::set_host" KTheorem P_quirks_set "C04_no_panic_quirks";
  R "url" "quirks::hostname" KTheorem P_quirks_get "C04_no_panic_quirks";
  R "url" "quirks::set_hostname" KTheorem P_quirks_set "C04_no_panic_quirks";
  R "url" "quirks::port" KTheorem P_quirks_get "C04_no_panic_quirks";
  R "url" "quirks::set_port" KTheorem P_quirks_set "C04_no_panic_quirks";
  R "url" "quirks::pathname" KTheorem P_quirks_get "C04_no_panic_quirks";
  R "url" "quirks::set_pathname" KTheorem P_quirks_set "C04_no_panic_quirks";
  R "url" "quirks::search" KTheorem P_quirks_get "C04_no_panic_quirks";
  R "url" "quirks::set_search" KTheorem P_quirks_set "C04_no_panic_quirks";
  R "url" "quirks::hash" KTheorem P_quirks_get "C04_no_panic_quirks";
  R "url" "quirks::set_hash" KTheorem P_quirks_set "C04_no_panic_quirks";
  R "idna" "domain_to_ascii_cow" KTheorem P_uts46 "C04_no_panic_uts46";
  R "idna" "domain_to_ascii" KTheorem P_idna_wrappers "C04_no_panic_idna_wrappers";
  R "idna" "domain_to_ascii_strict" KTheorem P_idna_wrappers "C04_no_panic_idna_wrappers";
  R "idna" "domain_to_unicode" KOutside P_idna_wrappers "C04_no_panic_idna_wrappers";
  R "idna" "Idna::new" KByType P_trivial "-";
  R "idna" "Idna::to_ascii" KExact P_idna_to_ascii "C04_13_panic_iff";
  R "idna" "Idna::to_unicode" KOutside P_idna_wrappers "C04_no_panic_idna_wrappers";
  R "idna" "Config::use_std3_ascii_rules" KByType P_trivial "-";
  R "idna" "Config::transitional_processing" KByType P_trivial "-";
  R "idna" "Config::verify_dns_length" KByType P_trivial "-";
  R "idna" "Config::check_hyphens" KByType P_trivial "-";
  R "idna" "Config::use_idna_2008_rules" KDocumented P_trivial "-";
  R "idna" "Config::to_ascii" KExact P_idna_to_ascii "C04_13_panic_iff";
  R "idna" "Config::to_unicode" KOutside P_idna_wrappers "C04_no_panic_idna_wrappers";
  R "idna" "punycode::decode_to_string" KOutside P_punycode "C04_no_panic_punycode";
  R "idna" "punycode::decode" KOutside P_punycode "C04_no_panic_punycode";
  R "idna" "punycode::encode_str" KTheorem P_punycode "C04_no_panic_punycode";
  R "idna" "punycode::encode" KTheorem P_punycode "C04_no_panic_punycode";
  R "idna" "AsciiDenyList::new" KDocumented P_trivial "-";
  R "idna" "uts46::verify_dns_length" KExact P_verify_dns "C04_no_panic_inventory (claim P_verify_dns)";
  R "idna" "Uts46::new" KByType P_trivial "-";
  R "idna" "Uts46::to_ascii" KTheorem P_uts46 "C04_no_panic_uts46";
  R "idna" "Uts46::to_unicode" KOutside P_uts46 "C04_no_panic_uts46";
  R "idna" "Uts46::to_user_interface" KOutside P_uts46 "C04_no_panic_uts46";
  R "idna" "Uts46::process" KOutside P_uts46_process "C04_no_panic_uts46_process";
  R "percent_encoding" "percent_encode_byte" KTheorem P_pe_table "C04_no_panic_percent_encoding";
  R "percent_encoding" "percent_encode" KTheorem P_pe_table "C04_no_panic_percent_encoding";
  R "percent_encoding" "utf8_percent_encode" KTheorem P_pe_table "C04_no_panic_percent_encoding";
  R "percent_encoding" "percent_decode_str" KByType P_trivial "-";
  R "percent_encoding" "percent_decode" KByType P_trivial "-";
  R "percent_encoding" "PercentDecode::decode_utf8" KByType P_trivial "-";
  R "percent_encoding" "PercentDecode::decode_utf8_lossy" KByType P_trivial "-";
  R "percent_encoding" "AsciiSet::add" KExact P_aset "C04_no_panic_percent_encoding";
  R "percent_encoding" "AsciiSet::remove" KExact P_aset "C04_no_panic_percent_encoding";
  R "percent_encoding" "AsciiSet::union" KByType P_trivial "-";
  R "percent_encoding" "AsciiSet::complement" KByType P_trivial "-";
  R "form_urlencoded" "parse" KTheorem P_form "C04_no_panic_form_urlencoded";
  R "form_urlencoded" "Parse::into_owned" KTheorem P_form "C04_no_panic_form_urlencoded";
  R "form_urlencoded" "byte_serialize" KTheorem P_form "C04_no_panic_form_urlencoded";
  R "form_urlencoded" "Serializer::new" KByType P_trivial "-";
  R "form_urlencoded" "Serializer::for_suffix" KOutside P_form_ser "C04_no_panic_form_urlencoded";
  R "form_urlencoded" "Serializer::clear" KOutside P_form_ser "C04_no_panic_form_urlencoded";
  R "form_urlencoded" "Serializer::encoding_override" KByType P_trivial "-";
  R "form_urlencoded" "Serializer::append_pair" KOutside P_form_ser "C04_no_panic_form_urlencoded";
  R "form_urlencoded" "Serializer::append_key_only" KOutside P_form_ser "C04_no_panic_form_urlencoded";
  R "form_urlencoded" "Serializer::extend_pairs" KOutside P_form_ser "C04_no_panic_form_urlencoded";
  R "form_urlencoded" "Serializer::extend_keys_only" KOutside P_form_ser "C04_no_panic_form_urlencoded";
  R "form_urlencoded" "Serializer::finish" KOutside P_form_ser "C04_no_panic_form_urlencoded";
  R "data_url" "DataUrl::process" KTheorem P_data_process "C17_total";
  R "data_url" "DataUrl::mime_type" KByType P_trivial "-";
  R "data_url" "DataUrl::decode" KTheorem P_data_decode "C04_no_panic_data_url";
  R "data_url" "DataUrl::decode_to_vec" KTheorem P_data_decode "C04_no_panic_data_url";
  R "data_url" "FragmentIdentifier::to_percent_encoded" KByType P_trivial "-";
  R "data_url" "forgiving_base64::decode_to_vec" KTheorem P_base64 "C04_no_panic_data_url";
  R "data_url" "Decoder::new" KByType P_trivial "-";
  R "data_url" "Decoder::feed" KTheorem P_base64 "C04_no_panic_data_url";
  R "data_url" "Decoder::finish" KTheorem P_base64 "C04_no_panic_data_url";
  R "data_url" "Mime::get_parameter" KByType P_trivial "-"

].

(* KByType functions that DO contain a panic macro of their own, looked at by hand:
   Url::check_invariants - its assert! / assert_eq! are LOCAL macros that return Err(String) (lib.rs), not panics (the row is
     KExact since task c04fin2: claim P_check_invariants; the entry is kept, harmless);
   Parser::parse_scheme - debug_assert!(self.serialization.is_empty()): true at its three call sites (a fresh parser) *)
Definition bytype_exceptions : list string := ["Url::check_invariants"; "Parser::parse_scheme"].
Local Close Scope string_scope.

Definition row_key (r : row) : list N * list N :=
  (C04_Inventory.bytes_of_string (r_crate r), C04_Inventory.bytes_of_string (r_name r)).

Definition trivial_kind (k : kind) : bool :=
  match k with KByType | KDocumented | KHarness => true | _ => false end.

Definition has_panic_macro (name : string) : bool :=
  existsb (fun p => String.eqb (snd (fst (fst p))) name) C04_Inventory.audited_panic_sites.

Definition count_kind (k : kind) : nat := length (filter (fun r => kind_eqb (r_kind r) k) table).

(* every regenerated public function has exactly one row, in source order *)
Theorem table_complete : map row_key table = T_C04_API.
Proof. vm_compute. reflexivity. Qed.

(* exactly the rows of kind KByType / KDocumented / KHarness carry the trivial claim *)
Theorem kinds_consistent :
  forallb (fun r => Bool.eqb (trivial_kind (r_kind r)) (claim_eqb_trivial (r_claim r))) table = true.
Proof. vm_compute. reflexivity. Qed.

(* no KByType function contains a panic macro in the regenerated panic-site inventory, the listed exceptions aside *)
Theorem bytype_no_panic_macro :
  forallb (fun r => negb (kind_eqb (r_kind r) KByType) || negb (has_panic_macro (r_name r))
                    || existsb (String.eqb (r_name r)) bytype_exceptions) table = true.
Proof. vm_compute. reflexivity. Qed.

(* the claim of every row holds *)
Theorem table_sound : Forall (fun r => claim (r_claim r)) table.
Proof. apply Forall_forall. intros r _. apply claims_hold. Qed.

Theorem table_counts :
  length table = 167%nat /\ count_kind KTheorem = 76%nat /\ count_kind KExact = 20%nat /\ count_kind KOutside = 17%nat
  /\ count_kind KByType = 48%nat /\ count_kind KDocumented = 2%nat /\ count_kind KHarness = 4%nat.
Proof. vm_compute. repeat split. Qed.
