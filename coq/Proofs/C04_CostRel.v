(* Proofs/C04_CostRel.v - cost of Url::make_relative (url/src/lib.rs:515-604; model: Model/MakeRelative.v), task c04cost.
   Cost semantics of Model/Cost.v: rfind is a reverse search (rcost), a `split('/')` iterator examines every byte of its
   text once (size of the segment list = bytes + one step per segment), slice equality compares the lengths first and
   then at most the common length, push_str of x = nlen x, push / is_empty / peek of a cached item = 1.  As in
   Proofs/C04_CostMime.v the step counts follow the data flow of the model functions.
     mr_path_k pb pt           - the path part (two extract_path_filename, the two split iterators, the skip loop, the ".."
                                 loop, the copy loop, the filename rule): at most 9 |pb| + 6 |pt| + 26
     make_relative_k dbg b t   - the whole method: at most 12 |b| + 8 |t| + 35 in the lengths of the two serializations
   No quadratic term: every loop consumes its iterator. *)
From RU Require Import Base.Prelude Model.HostT Model.UrlRecord Model.Cost Model.MakeRelative Proofs.ListN.
From RU Require Import Proofs.C04_CostMime.

(* ---------------------------------------------------------------- lengths *)
Lemma nfirstn_len i (s : list N) : nlen (nfirstn i s) <= nlen s.
Proof. unfold nlen, nfirstn. rewrite firstn_length. lia. Qed.
Lemma nskipn_len i (s : list N) : nlen (nskipn i s) <= nlen s.
Proof. unfold nlen, nskipn. rewrite skipn_length. lia. Qed.
Lemma slice_o_len l a b s : slice_o l a b = Some s -> nlen s <= nlen l.
Proof.
  unfold slice_o. destruct ((a <=? b) && (b <=? nlen l)); [|discriminate]. intros H. inversion H; subst.
  pose proof (nfirstn_len (b - a) (nskipn a l)). pose proof (nskipn_len a l). lia.
Qed.
Lemma slice_from_o_len l a s : slice_from_o l a = Some s -> nlen s <= nlen l.
Proof. unfold slice_from_o. destruct (a <=? nlen l); [|discriminate]. intros H. inversion H; subst. apply nskipn_len. Qed.
Lemma slice_to_o_len l b s : slice_to_o l b = Some s -> nlen s <= nlen l.
Proof. unfold slice_to_o. destruct (b <=? nlen l); [|discriminate]. intros H. inversion H; subst. apply nfirstn_len. Qed.

Lemma rcost_le b l : rcost b l <= nlen l.
Proof. unfold rcost. destruct (rfind b l); lia. Qed.

Lemma size_cons p ps : size (p :: ps) = nlen p + 1 + size ps.
Proof. reflexivity. Qed.

Lemma size_split_on_aux sep l : forall cur, size (split_on_aux sep cur l) = nlen cur + nlen l + 1.
Proof.
  induction l as [|x r IH]; intros cur; cbn [split_on_aux].
  - rewrite size_cons. change (size []) with 0. unfold nlen at 1. rewrite rev_length. fold (nlen cur). cbn [nlen length N.of_nat]. lia.
  - rewrite nlen_cons. destruct (x =? sep).
    + rewrite size_cons, IH. unfold nlen at 1. rewrite rev_length. fold (nlen cur). change (nlen []) with 0. lia.
    + rewrite IH, nlen_cons. lia.
Qed.
Lemma size_split_on sep l : size (split_on sep l) = nlen l + 1.
Proof. unfold split_on. rewrite size_split_on_aux. change (nlen []) with 0. lia. Qed.

(* ---------------------------------------------------------------- the loops *)
Definition eq_k (x y : list N) : N := 1 + (if nlen x =? nlen y then nlen x else 0).

Fixpoint skip_common_k (a b : list (list N)) : N :=
  match a, b with
  | x :: a', y :: b' => 2 + eq_k x y + (if list_eqb x y then skip_common_k a' b' else 0)
  | _, _ => 2
  end.
Lemma skip_common_k_le a : forall b, skip_common_k a b <= 3 * size a + 2.
Proof.
  induction a as [|x a IH]; intros b; [destruct b; cbn; lia|]. destruct b as [|y b]; cbn [skip_common_k]; rewrite size_cons.
  - lia.
  - unfold eq_k. specialize (IH b). destruct (nlen x =? nlen y); destruct (list_eqb x y); lia.
Qed.
Lemma skip_common_size a : forall b, size (fst (skip_common a b)) <= size a /\ size (snd (skip_common a b)) <= size b.
Proof.
  induction a as [|x a IH]; intros b; [destruct b; cbn [skip_common fst snd]; lia|].
  destruct b as [|y b]; cbn [skip_common]; [cbn [fst snd]; lia|].
  destruct (list_eqb x y); [|cbn [fst snd]; lia]. specialize (IH b). rewrite !size_cons. lia.
Qed.

Fixpoint emit_dotdot_k (segs : list (list N)) : N :=
  match segs with
  | [] => 1
  | [] :: _ => 2
  | (_ :: _) :: r => 5 + emit_dotdot_k r
  end.
Lemma emit_dotdot_k_le segs : emit_dotdot_k segs <= 3 * size segs + 2.
Proof.
  induction segs as [|s r IH]; [cbn; lia|]. destruct s as [|c s]; cbn [emit_dotdot_k]; rewrite size_cons; [lia|].
  rewrite nlen_cons. lia.
Qed.

Fixpoint emit_rest_k (segs : list (list N)) : N :=
  match segs with
  | [] => 1
  | s :: r => 3 + nlen s + emit_rest_k r
  end.
Lemma emit_rest_k_le segs : emit_rest_k segs <= 3 * size segs + 1.
Proof. induction segs as [|s r IH]; [cbn; lia|]. cbn [emit_rest_k]. rewrite size_cons. lia. Qed.

Definition add_filename_k (bf uf : list N) : N := 3 + eq_k bf uf + nlen uf.

(* ---------------------------------------------------------------- the path part *)
Definition extract_k (s : list N) : N := rcost 47 s + 3.

Definition mr_path_k (pb pt : list N) : N :=
  extract_k pb + extract_k pt
  + match extract_path_filename pb, extract_path_filename pt with
    | Some (p1, bf), Some (p2, uf) =>
        let a := split_on 47 p1 in
        let b := split_on 47 p2 in
        size a + size b                                  (* the two split('/') iterators: every byte at most once *)
        + skip_common_k a b
        + emit_dotdot_k (fst (skip_common a b)) + emit_rest_k (snd (skip_common a b))
        + add_filename_k bf uf
    | _, _ => 0
    end.

Lemma extract_len s p f : extract_path_filename s = Some (p, f) -> nlen p <= nlen s /\ nlen f <= nlen s.
Proof.
  unfold extract_path_filename. set (i := match rfind 47 s with Some i => i | None => 0 end).
  pose proof (nfirstn_len i s) as H1. pose proof (nskipn_len i s) as H2.
  destruct (nskipn i s) as [|c r] eqn:E.
  - intros H. inversion H; subst. change (nlen []) with 0. lia.
  - destruct (char_boundary_1 (c :: r)); [|discriminate]. intros H. inversion H; subst. rewrite nlen_cons in H2. lia.
Qed.

Theorem mr_path_k_le pb pt : mr_path_k pb pt <= 9 * nlen pb + 6 * nlen pt + 26.
Proof.
  unfold mr_path_k, extract_k. pose proof (rcost_le 47 pb) as R1. pose proof (rcost_le 47 pt) as R2.
  destruct (extract_path_filename pb) as [[p1 bf]|] eqn:E1; [|lia].
  destruct (extract_path_filename pt) as [[p2 uf]|] eqn:E2; [|lia].
  destruct (extract_len pb p1 bf E1) as [L1 L2]. destruct (extract_len pt p2 uf E2) as [L3 L4]. cbv zeta.
  pose proof (size_split_on 47 p1) as S1. pose proof (size_split_on 47 p2) as S2.
  set (a := split_on 47 p1) in *. set (b := split_on 47 p2) in *.
  pose proof (skip_common_k_le a b) as K1. destruct (skip_common_size a b) as [K2 K3].
  pose proof (emit_dotdot_k_le (fst (skip_common a b))) as K4. pose proof (emit_rest_k_le (snd (skip_common a b))) as K5.
  unfold add_filename_k, eq_k. destruct (nlen bf =? nlen uf); lia.
Qed.

(* ---------------------------------------------------------------- the whole method *)
Definition optlen (o : option (list N)) : N := match o with Some x => 1 + nlen x | None => 0 end.

(* the comparisons in front of the path part (two cannot_be_a_base, scheme, host, port), the path part, and the copies
   of query and fragment *)
Definition make_relative_k (dbg : bool) (b t : url) : N :=
  match scheme b, scheme t, host_str b, path b, path t, query dbg t, fragment dbg t with
  | Some sb, Some st, Some hb, Some pb, Some pt, Some q, Some f =>
      4 + eq_k sb st + (1 + optlen hb) + mr_path_k pb pt + optlen q + optlen f
  | _, _, _, _, _, _, _ => 0
  end.

Lemma path_len u p : path u = Some p -> nlen p <= nlen (ser u).
Proof.
  unfold path. destruct (query_start u) as [i|]; [exact (slice_o_len _ _ _ p)|].
  destruct (fragment_start u) as [i|]; [exact (slice_o_len _ _ _ p) | exact (slice_from_o_len _ _ p)].
Qed.
Lemma scheme_len u s : scheme u = Some s -> nlen s <= nlen (ser u).
Proof. unfold scheme. exact (slice_to_o_len _ _ s). Qed.
Lemma host_str_len u h : host_str u = Some h -> optlen h <= 1 + nlen (ser u).
Proof.
  unfold host_str. destruct (has_host u); [|intros H; inversion H; subst; cbn; lia].
  unfold u_slice. destruct (slice_o (ser u) (host_start u) (host_end u)) as [s|] eqn:E; [|discriminate].
  intros H. cbn in H. inversion H; subst. cbn [optlen]. pose proof (slice_o_len _ _ _ s E). lia.
Qed.

Lemma bindo_some {A B} (x : option A) (f : A -> option B) r : bindo x f = Some r -> exists a, x = Some a /\ f a = Some r.
Proof. destruct x as [a|]; [intros H; exists a; split; [reflexivity | exact H] | discriminate]. Qed.

Lemma query_len dbg u q : query dbg u = Some q -> optlen q <= 1 + nlen (ser u).
Proof.
  unfold query. destruct (query_start u) as [i|]; [|intros H; inversion H; subst; cbn; lia].
  destruct (fragment_start u) as [j|]; intros H.
  - apply bindo_some in H. destruct H as (_ & _ & H). apply bindo_some in H. destruct H as (s & Hs & H).
    inversion H; subst. cbn [optlen]. pose proof (slice_o_len _ _ _ s Hs). lia.
  - apply bindo_some in H. destruct H as (_ & _ & H). apply bindo_some in H. destruct H as (s & Hs & H).
    inversion H; subst. cbn [optlen]. pose proof (slice_from_o_len _ _ s Hs). lia.
Qed.
Lemma fragment_len dbg u f : fragment dbg u = Some f -> optlen f <= 1 + nlen (ser u).
Proof.
  unfold fragment. destruct (fragment_start u) as [j|]; [|intros H; inversion H; subst; cbn; lia]. intros H.
  apply bindo_some in H. destruct H as (_ & _ & H). apply bindo_some in H. destruct H as (s & Hs & H).
  inversion H; subst. cbn [optlen]. pose proof (slice_from_o_len _ _ s Hs). lia.
Qed.

Theorem make_relative_k_le dbg b t : make_relative_k dbg b t <= 12 * nlen (ser b) + 8 * nlen (ser t) + 35.
Proof.
  unfold make_relative_k.
  destruct (scheme b) as [sb|] eqn:E1; [|lia]. destruct (scheme t) as [st|] eqn:E2; [|lia].
  destruct (host_str b) as [hb|] eqn:E3; [|lia]. destruct (path b) as [pb|] eqn:E4; [|lia].
  destruct (path t) as [pt|] eqn:E5; [|lia]. destruct (query dbg t) as [q|] eqn:E6; [|lia].
  destruct (fragment dbg t) as [f|] eqn:E7; [|lia].
  pose proof (scheme_len b sb E1). pose proof (host_str_len b hb E3). pose proof (path_len b pb E4).
  pose proof (path_len t pt E5). pose proof (query_len dbg t q E6). pose proof (fragment_len dbg t f E7).
  pose proof (mr_path_k_le pb pt). unfold eq_k. destruct (nlen sb =? nlen st); lia.
Qed.

(* make_relative_k counts a run of the model: whenever Url::make_relative returns (Some or None, no panic) the seven
   accessors it is defined from returned as well *)
Theorem make_relative_k_defined dbg b t r : make_relative dbg b t = Some (Some r) ->
  exists sb st pb pt q f, scheme b = Some sb /\ scheme t = Some st /\ path b = Some pb /\ path t = Some pt
    /\ query dbg t = Some q /\ fragment dbg t = Some f.
Proof.
  unfold make_relative. intros H.
  apply bindo_some in H. destruct H as (cb & _ & H). apply bindo_some in H. destruct H as (ct & _ & H).
  destruct (cb || ct); [discriminate|].
  apply bindo_some in H. destruct H as (sb & Hsb & H). apply bindo_some in H. destruct H as (st & Hst & H).
  destruct (negb (list_eqb sb st)); [discriminate|].
  apply bindo_some in H. destruct H as (hb & _ & H). apply bindo_some in H. destruct H as (ht & _ & H).
  destruct (negb (mr_opt_host_eqb hb ht)); [discriminate|]. destruct (negb (opt_eqb (port b) (port t))); [discriminate|].
  apply bindo_some in H. destruct H as (pb & Hpb & H). apply bindo_some in H. destruct H as (pt & Hpt & H).
  apply bindo_some in H. destruct H as (eb & _ & H). apply bindo_some in H. destruct H as (et & _ & H).
  apply bindo_some in H. destruct H as (q & Hq & H). apply bindo_some in H. destruct H as (f & Hf & H).
  exists sb, st, pb, pt, q, f. tauto.
Qed.
