(* Proofs/Idna_MarkFffd.v - C11, the U+FFFD clauses of the mark-errors run:
     error reported  => the returned text contains U+FFFD   (outside Known_C11)
     no error        => the returned text does not contain U+FFFD
   for every adapter, every byte string, every option set and every output policy. *)
From RU Require Import Base.Prelude Base.Utf8 Base.U32_c13 Gen.Tables Model.Punycode Model.Uts46
  Proofs.C13_Ascii Proofs.Idna_Sim Proofs.Idna_Api Proofs.Idna_Known Proofs.Idna_Hyp Proofs.Idna_Redisc
  Proofs.Idna_C10_Deny Proofs.Idna_C10_Prefix Proofs.Idna_C10_Inner Proofs.Idna_C10_Walk Proofs.Idna_Mark Proofs.Idna_MarkWalk.

Lemma concat_chars l : concat (chars l) = l.
Proof. unfold chars. induction l as [|c r IH]; [reflexivity|]. cbn [map concat app]. rewrite IH. reflexivity. Qed.
Lemma fffd_in l : fffd l = true -> In FFFD l.
Proof.
  intros H. apply existsb_exists in H. destruct H as (x & Hx & Hf). unfold is_fffd in Hf. apply N.eqb_eq in Hf. subst x. exact Hx.
Qed.
Lemma nofffd_notin l : fffd l = false -> Forall (fun c => c <> FFFD) l.
Proof.
  intros H. apply Forall_forall. intros x Hx Hq. subst x.
  pose proof (existsb_false_in is_fffd l FFFD H Hx) as Hf. rewrite is_fffd_FFFD in Hf. discriminate.
Qed.
Lemma classify_error label : fffd label = true -> classify_for_punycode label = PcError.
Proof.
  induction label as [|c r IH]; intros H; [discriminate|]. cbn [classify_for_punycode].
  destruct (is_ascii_cp c) eqn:Ea.
  - apply IH. unfold fffd in *. cbn [existsb] in H. unfold is_ascii_cp in Ea.
    unfold is_fffd at 1 in H. unfold FFFD, REPLACEMENT in H. replace (c =? 65533) with false in H by lia. exact H.
  - unfold fffd in H. rewrite H. reflexivity.
Qed.

Definition nf (l : list N) : Prop := Forall (fun c => c <> FFFD) l.
Lemma byte_nf l : bytes l -> nf l.
Proof. intros H. eapply Forall_impl; [|exact H]. unfold is_byte, FFFD, REPLACEMENT. intros; lia. Qed.

Section Fffd.
Variable cfg : bool.
Variable p : list N -> list N -> bool -> bool.
Variable d tld : list N.
Variable bidi : bool.

(* ---- an error is visible ---- *)
Definition Has (r : wres) : Prop := (exists huo, snd r = WEnd huo) -> In FFFD (concat (fst r)).
Lemma Has_wcons w k : Has k -> Has (wcons w k).
Proof. unfold Has, wcons. cbn [fst snd concat]. intros H He. apply in_or_app. right. exact (H He). Qed.
Lemma Has_wapp ws k : Has k -> Has (wapp ws k).
Proof. unfold Has, wapp. cbn [fst snd]. intros H He. rewrite concat_app. apply in_or_app. right. exact (H He). Qed.
Lemma Has_flush pt fl k : Has k -> Has (flush_prefix d pt fl k).
Proof. unfold flush_prefix. destruct fl; [auto|apply Has_wcons]. Qed.
Lemma Has_nowend ws e : (forall huo, e <> WEnd huo) -> Has (ws, e).
Proof. intros H [huo Hq]. cbn [snd] in Hq. exfalso. exact (H huo Hq). Qed.
Lemma Has_wpl label k : Has k -> Has (write_punycode_label cfg label k).
Proof.
  intros H. unfold write_punycode_label. destruct (encode_internal cfg label).
  - apply Has_wcons, Has_wapp, H.
  - apply Has_nowend. discriminate.
  - apply Has_nowend. discriminate.
Qed.
Lemma Has_mixed m he pc sn sp pt fl kk : (forall pt' fl', Has (kk pt' fl')) -> Has (mixed_write cfg d m he pc sn sp pt fl kk).
Proof.
  intros Hk. unfold mixed_write. destruct (position is_upper m) as [fu|]; destruct fl.
  - apply Has_wcons, Has_wapp, Hk.
  - destruct (cfg && (pt + len (firstn fu m) =? len d)); [apply Has_nowend; discriminate|apply Has_wcons, Has_wapp, Hk].
  - apply Has_wcons, Hk.
  - destruct (pc && (pt + len m =? len d)); [|apply Hk]. destruct (cfg && he); apply Has_nowend; discriminate.
Qed.
Lemma Has_here label k : fffd label = true -> Has (wapp (chars label) k).
Proof.
  intros Hf _. unfold wapp. cbn [fst]. rewrite concat_app, concat_chars. apply in_or_app. left. exact (fffd_in _ Hf).
Qed.

Lemma wbody_has he label ip labels huo flushed kk pt :
  (forall h pt' fl', efffd labels = true -> Has (kk h pt' fl')) ->
  match ip with MixedCaseAscii _ => fffd label = false | _ => True end -> efffd (label :: labels) = true ->
  Has (wbody cfg p d tld bidi false he label ip huo flushed kk pt).
Proof.
  intros Hk Hip Hf. cbn [efffd existsb] in Hf. unfold wbody. destruct (fffd label) eqn:El.
  - destruct ip as [m|m|]; [discriminate| |]; cbn [andb]; cbv zeta; rewrite (classify_error label El);
      apply Has_flush, Has_here; exact El.
  - cbn [orb] in Hf. fold (efffd labels) in Hf.
    destruct ip as [m|m|].
    + apply Has_mixed. intros. apply Hk. exact Hf.
    + cbn [andb]. cbv zeta.
      match goal with |- Has (if ?u then _ else _) => destruct u end;
        [apply Has_flush, Has_wapp, Hk; exact Hf|apply Has_mixed; intros; apply Hk; exact Hf].
    + cbn [andb]. cbv zeta.
      match goal with |- Has (if ?u then _ else _) => destruct u end;
        [apply Has_flush, Has_wapp, Hk; exact Hf|apply Has_flush, Has_wpl, Hk; exact Hf].
Qed.

Theorem walk1_has he labels : forall aps seen pte flushed huo, pre_ok labels aps -> efffd labels = true ->
  Has (walk1 cfg false p d tld bidi he labels aps seen pte flushed huo).
Proof.
  induction labels as [|label labels IH]; intros aps seen pte flushed huo Hpo Hf; [discriminate|].
  inversion Hpo as [|? ip ? aps' Hip Hpo']; subst. rewrite walk1_cons_gen. cbv zeta.
  assert (HB : forall pt, Has (wbody cfg p d tld bidi false he label ip huo flushed
                    (fun huo0 pte0 fl0 => walk1 cfg false p d tld bidi he labels aps' true pte0 fl0 huo0) pt)).
  { intros pt. apply (wbody_has he label ip labels); [|exact Hip|exact Hf]. intros h pt' fl' Hf'. apply IH; assumption. }
  destruct seen; [|apply HB]. destruct flushed; [apply Has_wcons, HB|].
  destruct (cfg && negb (nth (N.to_nat pte) d 256 =? DOT)); [apply Has_nowend; discriminate|].
  destruct (pte + 1 =? len d); [destruct (cfg && he); apply Has_nowend; discriminate|apply HB].
Qed.

(* ---- no error: no U+FFFD is written ---- *)
Definition Cl (r : wres) : Prop := Forall nf (fst r).
Hypothesis Hd : bytes d.
Lemma firstn_nf n : nf (firstn n d).
Proof. apply Forall_firstn_gen. apply byte_nf; exact Hd. Qed.
Lemma Cl_wcons w k : nf w -> Cl k -> Cl (wcons w k).
Proof. unfold Cl, wcons. cbn [fst]. intros; constructor; assumption. Qed.
Lemma Cl_wapp ws k : Forall nf ws -> Cl k -> Cl (wapp ws k).
Proof. unfold Cl, wapp. cbn [fst]. intros. apply Forall_app. split; assumption. Qed.
Lemma Cl_nil e : Cl ([], e).
Proof. constructor. Qed.
Lemma chars_nf l : nf l -> Forall nf (chars l).
Proof.
  unfold chars. intros H. apply Forall_forall. intros x Hx. apply in_map_iff in Hx. destruct Hx as (c & <- & Hc).
  unfold nf in H. rewrite Forall_forall in H. constructor; [exact (H c Hc)|constructor].
Qed.
Lemma Cl_flush pt fl k : Cl k -> Cl (flush_prefix d pt fl k).
Proof. unfold flush_prefix. destruct fl; [auto|apply Cl_wcons, firstn_nf]. Qed.
Lemma xn_nf : nf XN_PREFIX.
Proof. unfold XN_PREFIX. repeat constructor; unfold FFFD, REPLACEMENT; lia. Qed.
Lemma Cl_wpl label k : Cl k -> Cl (write_punycode_label cfg label k).
Proof.
  intros H. unfold write_punycode_label. destruct (encode_internal cfg label) as [o| |s] eqn:E.
  - apply Cl_wcons; [exact xn_nf|]. apply Cl_wapp; [|exact H]. apply chars_nf.
    unfold encode_internal in E. apply encode_into_ascii in E. eapply Forall_impl; [|exact E].
    unfold is_ascii, FFFD, REPLACEMENT. intros; lia.
  - constructor; [exact xn_nf|constructor].
  - constructor; [exact xn_nf|constructor].
Qed.
Lemma lower_nf l : bytes l -> nf (map to_lower l).
Proof.
  intros H. apply Forall_forall. intros x Hx. apply in_map_iff in Hx. destruct Hx as (c & <- & Hc).
  unfold bytes in H. rewrite Forall_forall in H. specialize (H c Hc). unfold is_byte in H.
  unfold to_lower, FFFD, REPLACEMENT. destruct (is_upper c); lia.
Qed.
Lemma Cl_mixed m he pc sn sp pt fl kk : bytes m -> (forall pt' fl', Cl (kk pt' fl')) -> Cl (mixed_write cfg d m he pc sn sp pt fl kk).
Proof.
  intros Hm Hk. unfold mixed_write. destruct (position is_upper m) as [fu|]; destruct fl.
  - apply Cl_wcons; [apply byte_nf, Forall_firstn_gen; exact Hm|]. apply Cl_wapp; [|apply Hk].
    apply chars_nf, lower_nf. unfold bytes. rewrite <- (firstn_skipn fu m) in Hm. apply Forall_app in Hm. exact (proj2 Hm).
  - destruct (cfg && (pt + len (firstn fu m) =? len d)); [apply Cl_nil|]. apply Cl_wcons; [apply firstn_nf|].
    apply Cl_wapp; [|apply Hk]. apply chars_nf, lower_nf. unfold bytes. rewrite <- (firstn_skipn fu m) in Hm.
    apply Forall_app in Hm. exact (proj2 Hm).
  - apply Cl_wcons; [exact (byte_nf m Hm)|apply Hk].
  - destruct (pc && (pt + len m =? len d)); [|apply Hk]. destruct (cfg && he); apply Cl_nil.
Qed.

Definition ebytes (e : aal) : Prop := match e with MixedCaseAscii m | MixedCasePunycode m => bytes m | AalOther => True end.

Theorem walk1_cl ff he labels : forall aps seen pte flushed huo, Forall nf labels -> Forall ebytes aps ->
  Cl (walk1 cfg ff p d tld bidi he labels aps seen pte flushed huo).
Proof.
  induction labels as [|label labels IH]; intros aps seen pte flushed huo Hl Ha; [cbn [walk1]; apply Cl_nil|].
  destruct aps as [|ip aps]; [cbn [walk1]; apply Cl_nil|]. rewrite walk1_cons_gen. cbv zeta.
  inversion Hl as [|? ? Hlab Hl']; subst. inversion Ha as [|? ? Hip Ha']; subst.
  assert (HK : forall h pt fl, Cl (walk1 cfg ff p d tld bidi he labels aps true pt fl h)) by (intros; apply IH; assumption).
  assert (HB : forall pt, Cl (wbody cfg p d tld bidi ff he label ip huo flushed
                    (fun huo0 pte0 fl0 => walk1 cfg ff p d tld bidi he labels aps true pte0 fl0 huo0) pt)).
  { intros pt. unfold wbody. destruct ip as [m|m|].
    - apply Cl_mixed; [exact Hip|intros; apply HK].
    - destruct (ff && cfg && match classify_for_punycode label with PcError => true | _ => false end); [apply Cl_nil|]. cbv zeta.
      match goal with |- Cl (if ?u then _ else _) => destruct u end;
        [apply Cl_flush, Cl_wapp; [apply chars_nf; exact Hlab|apply HK]|apply Cl_mixed; [exact Hip|intros; apply HK]].
    - destruct (ff && cfg && match classify_for_punycode label with PcError => true | _ => false end); [apply Cl_nil|]. cbv zeta.
      match goal with |- Cl (if ?u then _ else _) => destruct u end;
        [apply Cl_flush, Cl_wapp; [apply chars_nf; exact Hlab|apply HK]|apply Cl_flush, Cl_wpl, HK]. }
  destruct seen; [|apply HB]. destruct flushed; [apply Cl_wcons; [repeat constructor; exact (not_eq_sym FFFD_not_dot)|apply HB]|].
  destruct (cfg && negb (nth (N.to_nat pte) d 256 =? DOT)); [apply Cl_nil|].
  destruct (pte + 1 =? len d); [destruct (cfg && he); apply Cl_nil|apply HB].
Qed.
End Fffd.

Lemma join_dots_bytes ls : bytes (join_dots ls) -> Forall bytes ls.
Proof.
  induction ls as [|l r IH]; intros H; [constructor|]. rewrite join_dots_cons in H. unfold bytes in *.
  apply Forall_app in H. destruct H as [H1 H2]. constructor; [exact H1|]. apply IH.
  destruct r; [constructor|]. cbn [tailtext] in H2. inversion H2; assumption.
Qed.
Lemma repeat_ebytes k : Forall ebytes (repeat AalOther k).
Proof. induction k; cbn [repeat]; constructor; [exact I|assumption]. Qed.
Lemma cover_ebytes ap rl : cover ap rl -> Forall bytes rl -> Forall ebytes ap.
Proof.
  induction 1 as [|l ap ls _ IH|l ap ls Hl _ IH|k l ap ls Hl _ IH]; intros H; [constructor| | |];
    inversion H as [|? ? Hb Hr]; subst.
  - constructor; [exact Hb|exact (IH Hr)].
  - constructor; [exact Hb|exact (IH Hr)].
  - constructor; [exact I|]. apply Forall_app. split; [apply repeat_ebytes|exact (IH Hr)].
Qed.
Lemma concat_nf ws : Forall nf ws -> nf (concat ws).
Proof. induction 1; cbn [concat]; [constructor|apply Forall_app; split; assumption]. Qed.

Section Api.
Variable A : adapter.
Variable cfg : bool.

Theorem err_fffd_full d deny hy p : Known_C11 A cfg d deny hy = false ->
  ui_err (to_user_interface A cfg d deny hy p) = true -> In FFFD (ui_text (to_user_interface A cfg d deny hy p)).
Proof.
  intros Hk He. destruct (to_user_interface A cfg d deny hy p) as [b t e|s] eqn:Eu; [|discriminate]. cbn [ui_err ui_text] in *. subst e.
  destruct (ui_err_inner A cfg d deny hy p b t Eu) as (ptu & bd & db & ap & Hi).
  pose proof (process_inner_FInv A cfg hy deny d) as HF. rewrite Hi in HF. cbn [FInv] in HF.
  destruct HF as [[_ Hc]|(Hlt & dbl & Hdn & Hsp & Hnd & Hhe & Hx & Hlen & Hpb & _)]; [discriminate Hc|].
  unfold Known_C11 in Hk. rewrite Hi, Hsp in Hk.
  assert (Hpo : pre_ok dbl ap).
  { destruct bd; [cbn [andb] in Hk; exact (known_c11_pre_ok dbl ap Hlen Hk)|exact (Hpb eq_refl)]. }
  unfold to_user_interface, process in Eu. rewrite Hi in Eu.
  replace (ptu =? len d) with false in Eu by (symmetry; apply N.eqb_neq; lia). cbn [andb] in Eu.
  destruct (cfg && negb (Bool.eqb true (existsb is_fffd db))); [discriminate Eu|]. rewrite Hsp in Eu.
  match type of Eu with context [walk1 ?a ?b ?c ?d0 ?e ?f ?g ?h ?i ?j ?k ?l ?m] =>
    pose proof (walk1_has a c d0 e f g h i j k l m Hpo (eq_sym Hhe)) as HW;
    destruct (walk1 a b c d0 e f g h i j k l m) as [ws we] end.
  cbn [fst snd run_sink negb] in *. unfold Has in HW. cbn [fst snd] in HW.
  destruct we as [|huo|s]; try discriminate Eu. inversion Eu. subst. apply HW. exists huo. reflexivity.
Qed.

Theorem ok_no_fffd_full d deny hy p b t : bytes d ->
  to_user_interface A cfg d deny hy p = UI b t false -> ~ In FFFD t.
Proof.
  intros Hd Eu.
  assert (Hgoal : nf t).
  { unfold to_user_interface, process in Eu.
    destruct (process_inner A cfg false hy deny d) as [ptu bd he db ap|s] eqn:Hi; [|discriminate Eu].
    pose proof (process_inner_FInv A cfg hy deny d) as HF. rewrite Hi in HF. cbn [FInv] in HF.
    destruct (ptu =? len d) eqn:Ep.
    { destruct (cfg && he); [discriminate Eu|]. inversion Eu. subst. apply byte_nf; exact Hd. }
    cbn [andb] in Eu. apply N.eqb_neq in Ep.
    destruct HF as [[Hc _]|(Hlt & dbl & Hdn & Hsp & Hnd & Hhe & Hx & Hlen & Hpb & P & rl & Hdd & HP & Hcv)]; [contradiction|].
    destruct (cfg && negb (Bool.eqb he (existsb is_fffd db))); [discriminate Eu|].
    assert (Heb : Forall ebytes ap).
    { apply (cover_ebytes ap rl Hcv). apply join_dots_bytes. unfold bytes in *. rewrite Hdd in Hd. apply Forall_app in Hd. exact (proj2 Hd). }
    match type of Eu with context [walk1 ?a ?b ?c ?d0 ?e ?f ?g ?h ?i ?j ?k ?l ?m] =>
      pose proof (fun Hl => walk1_cl a c d0 e f Hd b g h i j k l m Hl Heb) as HW;
      destruct (walk1 a b c d0 e f g h i j k l m) as [ws we] end.
    cbn [fst snd run_sink negb] in *.
    destruct we as [|huo|s]; try discriminate Eu.
    - inversion Eu. subst. apply byte_nf; exact Hd.
    - destruct he; [discriminate Eu|]. rewrite andb_false_r in Eu. inversion Eu. subst.
      apply concat_nf. apply HW. apply split_on_Forall. apply nofffd_notin. symmetry. exact Hx. }
  intros Hin. unfold nf in Hgoal. rewrite Forall_forall in Hgoal. exact (Hgoal FFFD Hin eq_refl).
Qed.
End Api.

Lemma c11_err_fffd_full : forall A cfg, C11_err_fffd_statement A cfg.
Proof. intros A cfg d deny hy p _ _ Hk He. exact (err_fffd_full A cfg d deny hy p Hk He). Qed.
Lemma c11_ok_no_fffd_full : forall A cfg, C11_ok_no_fffd_statement A cfg.
Proof. intros A cfg d deny hy p b t Hb _ Hu. exact (ok_no_fffd_full A cfg d deny hy p b t Hb Hu). Qed.
