(* Proofs/C02_SetHostNone.v - L2 for Url::set_host(None) on the canonical forms.
   On a record  C ++ M ++ W  (C = scheme ":", M = "//" userinfo host port, W = path ++ query ++ fragment) that has a host
   and a non-special scheme the setter cuts M out: the result is  C ++ W  (C ++ "/" when W is empty) with every offset
   in front of the path at |C|.  With debug assertions the code asserts that a '/' follows M: on an EMPTY path followed
   by a query or fragment (a://h?q) it panics - finding F-C04-1, no Url value results; a release build gives a:?q, the
   canonical opaque record with an empty path.
   Canon records: opaque path - refused; no authority, empty host, special scheme - unchanged; authority with a host:
   scheme ":" path [?q] [#f] without authority, outside F-C02-2 (path starting with "//", the "/." marker is not
   inserted) and F-C03-5 (marker). *)
From RU Require Import Base.Prelude Base.Utf8 Base.Utf8Facts Model.AsciiSet Gen.Tables
  Model.PercentEncoding Model.HostT Model.UrlRecord Model.Parser Model.Setters Model.WF
  Proofs.ListN Proofs.C02_Enc Proofs.C02_Parts Proofs.C02_Opaque Proofs.C02_Path Proofs.C02_PathL1 Proofs.C02_Reach
  Proofs.C02_AuthParts Proofs.C02_Auth Proofs.C02_AuthWf Proofs.C02_AuthSp Proofs.C02_AuthMain Proofs.C02_SetQF
  Proofs.C02_Canon Proofs.C02_SetPort Proofs.C02_Hist Proofs.C02_SetHostFrame Proofs.C02_SetHostCanon Proofs.C02_SetCred.
Open Scope N_scope.
Open Scope list_scope.

Lemma starts_with_app_false p a b : starts_with p (a ++ b) = false -> starts_with p a = false.
Proof.
  revert a. induction p as [|x p IH]; intros a H; [discriminate H|].
  destruct a as [|y a]; [reflexivity|]. cbn [app starts_with] in *.
  destruct (x =? y); [exact (IH a H) | reflexivity].
Qed.

Section Frame.
Variable dbg : bool.
Variable hp hpo : list N -> result host.
Variable hd : host -> list N.

Variables (sch M' : list N) (ue hs he : N) (hi : host_internal) (pt : option N).
Notation C := (sch ++ [58]).
Notation M := (47 :: 47 :: M').

Definition w0 (W : list N) : list N := match W with [] => [47] | _ => W end.

(* the record: pre = C ++ M ++ T, path_start = |C ++ M| *)
Definition hn_url (T : list N) (q f : option (list N)) : url :=
  qf_url ((C ++ M) ++ T) (nlen sch) ue hs he hi pt (nlen (C ++ M)) q f.

Definition hn_result (T : list N) (q f : option (list N)) : url :=
  mkUrl (C ++ w0 (T ++ qf_text q f)) (nlen sch) (nlen C) (nlen C) (nlen C) HI_None None (nlen C)
        (qf_qs (nlen (C ++ T)) q) (qf_fs (nlen (C ++ T)) q f).

Lemma sub_off_qs X q : sub_off_opt dbg (qf_qs (nlen ((C ++ M) ++ X)) q) (nlen M) = Some (qf_qs (nlen (C ++ X)) q).
Proof.
  destruct q as [x|]; cbn [qf_qs]; [|reflexivity]. unfold sub_off_opt, adjust_opt.
  rewrite adjust_ge by (rewrite !nlen_app; lia). cbn [bindo]. do 2 f_equal. rewrite !nlen_app. lia.
Qed.

Lemma sub_off_fs X q f : sub_off_opt dbg (qf_fs (nlen ((C ++ M) ++ X)) q f) (nlen M) = Some (qf_fs (nlen (C ++ X)) q f).
Proof.
  destruct f as [y|]; cbn [qf_fs]; [|reflexivity]. unfold sub_off_opt, adjust_opt.
  rewrite adjust_ge by (rewrite !nlen_app; lia). cbn [bindo]. do 2 f_equal. rewrite !nlen_app. lia.
Qed.

Theorem set_host_none_frame T q f : hi <> HI_None -> scheme_type_of sch = STNotSpecial ->
  set_host dbg hp hpo hd (hn_url T q f) None
  = if dbg && negb (C02_AuthWf.head_is (w0 (T ++ qf_text q f)) 47) then None else Some (hn_result T q f, SOk).
Proof.
  intros Hhi Hns. set (W := T ++ qf_text q f).
  assert (ser (hn_url T q f) = (C ++ M) ++ W) as Es by (unfold hn_url, qf_url, W; cbn [ser]; rewrite <- !app_assoc; reflexivity).
  unfold set_host.
  assert (cannot_be_a_base (hn_url T q f) = Some false) as ->.
  { unfold cannot_be_a_base, u_slice_from. rewrite Es. change (scheme_end (hn_url T q f)) with (nlen sch).
    replace (nlen sch + 1) with (nlen C) by (rewrite nlen_app; reflexivity).
    rewrite <- (app_assoc C M W). rewrite slice_from_o_some by (rewrite (nlen_app C); lia). rewrite nskipn_app_len. reflexivity. }
  cbn [bindo].
  assert (u_scheme_type (hn_url T q f) = Some STNotSpecial) as ->.
  { unfold u_scheme_type, scheme, u_slice_to. rewrite Es. change (scheme_end (hn_url T q f)) with (nlen sch).
    rewrite <- !app_assoc. rewrite slice_to_o_some by (rewrite (nlen_app sch); lia). rewrite nfirstn_app_len. cbn [bindo]. rewrite Hns. reflexivity. }
  cbn [bindo st_is_special andb st_is_file].
  assert (has_host (hn_url T q f) = true) as -> by (unfold has_host, hn_url, qf_url; cbn [hosti]; destruct hi; [contradiction | reflexivity ..]).
  rewrite Es. change (path_start (hn_url T q f)) with (nlen (C ++ M)). change (scheme_end (hn_url T q f)) with (nlen sch).
  change (query_start (hn_url T q f)) with (qf_qs (nlen ((C ++ M) ++ T)) q).
  change (fragment_start (hn_url T q f)) with (qf_fs (nlen ((C ++ M) ++ T)) q f).
  assert ((if nlen ((C ++ M) ++ W) =? nlen (C ++ M) then ((C ++ M) ++ W) ++ [47] else (C ++ M) ++ W) = (C ++ M) ++ w0 W) as ->.
  { destruct W as [|c r]; cbn [w0].
    - rewrite app_nil_r, N.eqb_refl. reflexivity.
    - replace (nlen ((C ++ M) ++ c :: r) =? nlen (C ++ M)) with false; [reflexivity|].
      symmetry. apply N.eqb_neq. rewrite (nlen_app _ (c :: r)), nlen_cons. lia. }
  unfold dbg_byte_is, byte_is, byte_at, set_ser. cbn [ser].
  assert (nnth ((C ++ M) ++ w0 W) (nlen sch) = Some 58) as ->.
  { rewrite <- !app_assoc. cbn [app]. apply nnth_app_at_loc. }
  assert (exists c r, w0 W = c :: r) as (c & r & Ew) by (destruct W as [|c r]; cbn [w0]; [exists 47, [] | exists c, r]; reflexivity).
  rewrite Ew. rewrite nnth_app_at_loc. cbn [bindo C02_AuthWf.head_is]. rewrite N.eqb_refl. cbn [assert_o].
  assert ((if dbg then Some tt else Some tt) = Some tt) as -> by (destruct dbg; reflexivity). cbn [bindo].
  assert ((if dbg then assert_o (c =? 47) else Some tt) = if dbg && negb (c =? 47) then None else Some tt) as ->
    by (destruct dbg; [destruct (c =? 47)|]; reflexivity).
  destruct (dbg && negb (c =? 47)); [reflexivity|]. cbn [bindo].
  replace ((nlen sch + 1 <=? nlen (C ++ M)) && (nlen (C ++ M) <=? nlen ((C ++ M) ++ c :: r))) with true
    by (symmetry; rewrite !nlen_app; apply andb_true_iff; split; apply N.leb_le; change (nlen [58]) with 1; lia).
  cbn [assert_o bindo].
  replace (nlen (C ++ M) - (nlen sch + 1)) with (nlen M) by (rewrite !nlen_app; change (nlen [58]) with 1; lia).
  rewrite sub_off_qs, sub_off_fs. cbn [bindo]. unfold hn_result. fold W. rewrite Ew.
  replace (nlen sch + 1) with (nlen C) by (rewrite nlen_app; reflexivity).
  rewrite nskipn_app_len. rewrite <- (app_assoc C M). rewrite nfirstn_app_len. reflexivity.
Qed.
End Frame.

Lemma qf_qs_mono n m q B : n <= m -> opt_le (qf_qs m q) B -> opt_le (qf_qs n q) B.
Proof. destruct q; cbn [qf_qs opt_le]; [lia | tauto]. Qed.
Lemma qf_fs_mono n m q f B : n <= m -> opt_le (qf_fs m q f) B -> opt_le (qf_fs n q f) B.
Proof. destruct f; cbn [qf_fs opt_le]; [lia | tauto]. Qed.

Section NoneCanon.
Variable dbg : bool.
Variable hp hpo : list N -> result host.
Variable hd : host -> list N.
Hypothesis HRT : HostRT hp hpo hd.

Notation auth_ok := (auth_ok hp hpo hd).
Notation auth_url := (auth_url hd).
Notation Canon := (Canon hp hpo hd).

Lemma auth_url_hn sch ui h pt p q f :
  auth_url sch ui h pt p q f
  = hn_url sch (ui_text ui ++ hd h ++ port_text pt) (nlen sch + 3 + ui_ulen ui) (nlen sch + 3 + nlen (ui_text ui))
           (nlen sch + 3 + nlen (ui_text ui) + nlen (hd h)) (hi_of_host h) pt (pth_text p) q f.
Proof.
  rewrite auth_url_qf. unfold hn_url.
  assert (auth_front hd sch ui h pt = (sch ++ [58]) ++ 47 :: 47 :: ui_text ui ++ hd h ++ port_text pt) as E
    by (unfold auth_front; rewrite <- !app_assoc; reflexivity).
  unfold auth_pre. rewrite E. reflexivity.
Qed.

(* the three shapes of the result *)
Lemma hn_result_path sch segs last q f : starts_with s_ss (path_text segs last) = false ->
  hn_result sch (path_text segs last) q f = noauth_url sch (path_text segs last) q f.
Proof.
  intros Hm. assert (w0 (path_text segs last ++ qf_text q f) = path_text segs last ++ qf_text q f) as Ew by reflexivity.
  unfold hn_result. rewrite Ew. set (T := path_text segs last) in *.
  unfold noauth_url, noauth_ser, noauth_pre, marker_of. rewrite Hm. cbn [app]. change (nlen (@nil N)) with 0.
  rewrite N.add_0_r. rewrite (app_assoc (sch ++ [58]) T). reflexivity.
Qed.

Lemma hn_result_empty sch : hn_result sch [] None None = noauth_url sch (path_text [] []) None None.
Proof.
  unfold hn_result, noauth_url, noauth_ser, noauth_pre, marker_of, path_text. cbn [segs_text map concat app starts_with s_ss].
  cbn [qf_text qf_qtext qf_ftext app w0 qf_qs qf_fs nlen length]. rewrite !app_nil_r.
  replace (47 =? 47) with true by reflexivity. cbn [andb]. rewrite N.add_0_r. reflexivity.
Qed.

Lemma hn_result_opaque sch q f : qf_text q f <> [] -> hn_result sch [] q f = opaque_url sch [] q f.
Proof.
  intros Hne. unfold hn_result, opaque_url, opaque_ser, opaque_pre. cbn [app]. rewrite !app_nil_r.
  destruct (qf_text q f) as [|c r] eqn:E; [contradiction|]. reflexivity.
Qed.

Lemma auth_to_noauth sch ui h pt segs last q f : auth_ok STNotSpecial sch ui h pt (Some (segs, last)) q f ->
  starts_with s_ss (path_text segs last) = false -> noauth_ok sch segs last q f.
Proof.
  intros K Hm. destruct K as [Ksch Kst Kui Kh Kemp Kpt Kp Kq Kf Kb Kbq Kbf]. destruct Kp as [Kp1 Kp2].
  assert (nlen (noauth_pre sch (path_text segs last)) <= nlen (auth_pre hd sch ui h pt (Some (segs, last)))) as Hle.
  { unfold noauth_pre, marker_of, auth_pre. rewrite Hm. cbn [app pth_text]. rewrite !nlen_app, front_len. change (nlen [58]) with 1. lia. }
  constructor; try assumption.
  - rewrite front_len in Kb. rewrite nlen_app. change (nlen [58]) with 1. lia.
  - exact (qf_qs_mono _ _ _ _ Hle Kbq).
  - exact (qf_fs_mono _ _ _ _ _ Hle Kbf).
Qed.

Lemma auth_to_noauth_empty sch ui h pt : auth_ok STNotSpecial sch ui h pt None None None -> noauth_ok sch [] [] None None.
Proof.
  intros K. destruct K as [Ksch Kst Kui Kh Kemp Kpt Kp Kq Kf Kb Kbq Kbf].
  constructor; try assumption; try exact I; try reflexivity.
  rewrite front_len in Kb. rewrite nlen_app. change (nlen [58]) with 1. lia.
Qed.

Lemma auth_to_opaque sch ui h pt q f : auth_ok STNotSpecial sch ui h pt None q f -> opaque_ok sch [] q f.
Proof.
  intros K. destruct K as [Ksch Kst Kui Kh Kemp Kpt Kp Kq Kf Kb Kbq Kbf].
  assert (nlen (opaque_pre sch []) <= nlen (auth_pre hd sch ui h pt None)) as Hle.
  { unfold opaque_pre, auth_pre. cbn [pth_text]. rewrite !app_nil_r, front_len, nlen_app. change (nlen [58]) with 1. lia. }
  constructor; try assumption; try reflexivity.
  - rewrite front_len in Kb. rewrite nlen_app. change (nlen [58]) with 1. lia.
  - exact (qf_qs_mono _ _ _ _ Hle Kbq).
  - exact (qf_fs_mono _ _ _ _ _ Hle Kbf).
Qed.

Lemma qf_text_head q f : qf_text q f <> [] -> C02_AuthWf.head_is (qf_text q f) 47 = false.
Proof. destruct q as [x|]; [reflexivity|]. destruct f as [y|]; [reflexivity|]. intros H. contradiction H. reflexivity. Qed.

Theorem set_host_none_Canon u u' s : Canon u ->
  known_step2 dbg hp hpo hd u (OSetHost None) = false ->
  set_host dbg hp hpo hd u None = Some (u', s) -> Canon u'.
Proof.
  intros C Hk. unfold known_step2, known_step in Hk. rewrite !orb_false_iff in Hk.
  destruct Hk as [[[[[K1 _] K2] _] _] _]. unfold Known_F_C03_5 in K1. cbn [is_host_or_path_op] in K1. rewrite andb_true_r in K1.
  unfold Known_F_C02_2 in K2.
  destruct (Canon_classes hp hpo hd u C) as [Hc | [Hm | (st & sch & ui & pt & Hh)]].
  - unfold set_host. rewrite Hc. cbn [bindo]. intros E. inversion E; subst. exact C.
  - congruence.
  - destruct (hostable_facts hp hpo hd HRT u st sch ui pt Hh) as (Es & Est & Hnf & Hc & _).
    assert (has_host u = false \/ st_is_special st = true -> set_host dbg hp hpo hd u None = Some (u', s) -> Canon u') as Hsame.
    { intros Hor. unfold set_host. rewrite Hc. cbn [bindo]. rewrite (u_scheme_type_of u sch Es). cbn [bindo]. rewrite Est, Hnf.
      cbn [negb]. rewrite andb_true_r. destruct (has_host u); [|intros E; inversion E; subst; exact C].
      destruct Hor as [Hor|Hor]; [discriminate Hor|]. rewrite Hor. intros E. inversion E; subst. exact C. }
    destruct Hh as [sch0 segs last q f K Hm | sch0 ui0 h pt0 p q f K | sch0 ui0 h pt0 p q f K Kp].
    + apply Hsame. left. reflexivity.
    + destruct (host_eq_dec_nil h) as [->|Hne]; [apply Hsame; left; reflexivity|]. clear Hsame.
      assert (hi_of_host h <> HI_None) as Hhi by (destruct h as [[|c d]|a|ps]; [contradiction Hne; reflexivity | discriminate ..]).
      assert (has_host (auth_url sch0 ui0 h pt0 p q f) = true) as Hh
        by (unfold has_host; cbn [auth_url hosti]; destruct (hi_of_host h); [contradiction Hhi; reflexivity | reflexivity ..]).
      rewrite Hh in K2. cbn [andb] in K2. unfold path_leads_ss in K2. cbn [auth_url path_start ser] in K2.
      unfold auth_ser, auth_pre in K2. rewrite <- app_assoc in K2. rewrite nskipn_app_len in K2.
      rewrite auth_url_hn. rewrite (set_host_none_frame dbg hp hpo hd) by (assumption || exact (ak_st _ _ _ _ _ _ _ _ _ _ _ _ K)).
      destruct p as [[segs last]|].
      * cbn [pth_text] in *. apply starts_with_app_false in K2.
        assert (w0 (path_text segs last ++ qf_text q f) = path_text segs last ++ qf_text q f) as Ew by reflexivity.
        rewrite Ew. cbn [app path_text C02_AuthWf.head_is]. rewrite N.eqb_refl. cbn [negb]. rewrite andb_false_r.
        intros E. inversion E; subst u' s. rewrite (hn_result_path sch0 segs last q f K2).
        apply Canon_noauth. exact (auth_to_noauth sch0 ui0 h pt0 segs last q f K K2).
      * cbn [pth_text app] in *. destruct (qf_text q f) as [|c r] eqn:Eqf.
        -- assert (q = None /\ f = None) as [-> ->].
           { destruct q; [discriminate Eqf|]. destruct f; [discriminate Eqf|]. split; reflexivity. }
           cbn [w0 C02_AuthWf.head_is]. rewrite N.eqb_refl. cbn [negb]. rewrite andb_false_r.
           intros E. inversion E; subst u' s. rewrite hn_result_empty. apply Canon_noauth. exact (auth_to_noauth_empty sch0 ui0 h pt0 K).
        -- assert (qf_text q f <> []) as Hne' by (rewrite Eqf; discriminate).
           assert (C02_AuthWf.head_is (w0 (c :: r)) 47 = false) as -> by (cbn [w0]; rewrite <- Eqf; exact (qf_text_head q f Hne')).
           cbn [negb]. rewrite andb_true_r. destruct dbg; [discriminate|].
           intros E. inversion E; subst u' s. rewrite (hn_result_opaque sch0 q f Hne'). apply Canon_opaque.
           exact (auth_to_opaque sch0 ui0 h pt0 q f K).
    + apply Hsame. right. reflexivity.
Qed.
End NoneCanon.
