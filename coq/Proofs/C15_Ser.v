(* Proofs/C15_Ser.v - the Serializer: string-level effect of every operation, the for_suffix theorem,
   round trip, alphabet, and the exact set of panics. *)
From RU Require Import Base.Prelude Base.Utf8 Base.Utf8Facts Base.Outcome_c15 Model.AsciiSet Gen.Tables
  Model.PercentEncoding Model.FormUrlencoded Proofs.C14_Set Proofs.C14_Enc Proofs.C14_Views Proofs.C15_Table
  Proofs.C15_Parse Proofs.C15_Bser.

Definition nlen (l : list N) : N := N.of_nat (length l).
(* the part of a String before / from start_position *)
Definition pre (start : N) (s : list N) : list N := firstn (N.to_nat start) s.
Definition suf (start : N) (s : list N) : list N := skipn (N.to_nat start) s.

Lemma suf_app start s x : start <= nlen s -> suf start (s ++ x) = suf start s ++ x.
Proof.
  unfold suf, nlen. intros H. rewrite skipn_app.
  replace (N.to_nat start - length s)%nat with O by lia. reflexivity.
Qed.
Lemma pre_app start s x : start <= nlen s -> pre start (s ++ x) = pre start s.
Proof.
  unfold pre, nlen. intros H. rewrite firstn_app.
  replace (N.to_nat start - length s)%nat with O by lia. cbn [firstn]. apply app_nil_r.
Qed.
Lemma suf_nil start s : nlen s <= start -> suf start s = [].
Proof. unfold suf, nlen. intros H. apply skipn_all2. lia. Qed.
Lemma pre_suf start s : pre start s ++ suf start s = s.
Proof. apply firstn_skipn. Qed.
Lemma nlen_app a b : nlen (a ++ b) = nlen a + nlen b.
Proof. unfold nlen. rewrite app_length. lia. Qed.
Lemma suf_pre_len start s : start <= nlen s -> nlen (pre start s) = start.
Proof. unfold pre, nlen. intros H. rewrite firstn_length. lia. Qed.

(* ---------------------------------------------------------------- encodings *)
(* what the parser reads back for a name or value written under an encoding *)
Definition dec_of (enc : encoding_override_t) (s : list N) : list N := utf8_lossy (fu_encode enc s).

(* an override is acceptable when it yields bytes (Cow<[u8]>) on every string *)
Definition enc_ok (enc : encoding_override_t) : Prop :=
  match enc with Some f => forall s, usv_list s -> bytes (f s) | None => True end.

Lemma enc_ok_bytes enc s : enc_ok enc -> usv_list s -> bytes (fu_encode enc s).
Proof.
  destruct enc as [f|]; cbn [enc_ok fu_encode]; intros H Hs; [exact (H s Hs) | exact (utf8_encode_bytes s Hs)].
Qed.

Lemma dec_of_default s : usv_list s -> dec_of None s = s.
Proof. intros H. unfold dec_of. cbn [fu_encode]. apply utf8_lossy_encode. exact H. Qed.

(* the text written for one name or value *)
Definition E (enc : encoding_override_t) (s : list N) : list N := bser (fu_encode enc s).

(* ---------------------------------------------------------------- the free functions *)
Theorem append_encoded_total s str enc :
  append_encoded s str enc = Ok (str ++ bser_t (fu_encode enc s)).
Proof.
  unfold append_encoded. destruct (bser_chunks_ok (fu_encode enc s)) as (cs & H1 & H2 & _).
  rewrite H1. cbn [omap]. rewrite extend_chunks_concat, H2. reflexivity.
Qed.

Lemma append_encoded_ok s str enc : bytes (fu_encode enc s) ->
  append_encoded s str enc = Ok (str ++ E enc s).
Proof. intros H. rewrite append_encoded_total, bser_t_is_bser by exact H. reflexivity. Qed.

Definition sep_of (str : list N) (start : N) : list N := if start <? nlen str then [38] else [].

Lemma append_separator_eq str start : append_separator_if_needed str start = str ++ sep_of str start.
Proof.
  unfold append_separator_if_needed, sep_of, nlen. change T_FORM_PUSH_SEP with 38.
  destruct (start <? N.of_nat (length str)); [reflexivity | rewrite app_nil_r; reflexivity].
Qed.

Lemma append_pair_fn_eq str start enc n v : bytes (fu_encode enc n) -> bytes (fu_encode enc v) ->
  append_pair_fn str start enc n v = Ok (str ++ (sep_of str start ++ E enc n ++ 61 :: E enc v)).
Proof.
  intros Hn Hv. unfold append_pair_fn. rewrite append_separator_eq, append_encoded_ok by exact Hn.
  cbn [obind]. rewrite append_encoded_ok by exact Hv. change T_FORM_PUSH_EQ with 61.
  f_equal. rewrite <- !app_assoc. reflexivity.
Qed.

Lemma append_key_only_fn_eq str start enc k : bytes (fu_encode enc k) ->
  append_key_only_fn str start enc k = Ok (str ++ (sep_of str start ++ E enc k)).
Proof.
  intros Hk. unfold append_key_only_fn. rewrite append_separator_eq, append_encoded_ok by exact Hk.
  rewrite <- app_assoc. reflexivity.
Qed.

(* the append functions never panic and never run out of fuel, whatever the arguments *)
Lemma append_pair_fn_total str start enc n v : exists s', append_pair_fn str start enc n v = Ok s'.
Proof.
  unfold append_pair_fn. rewrite append_encoded_total. cbn [obind]. rewrite append_encoded_total. eauto.
Qed.
Lemma append_key_only_fn_total str start enc k : exists s', append_key_only_fn str start enc k = Ok s'.
Proof. unfold append_key_only_fn. rewrite append_encoded_total. eauto. Qed.
Lemma extend_pairs_loop_total l : forall str start enc, exists s', extend_pairs_loop str start enc l = Ok s'.
Proof.
  induction l as [|[k v] r IH]; intros str start enc; cbn [extend_pairs_loop]; [eauto|].
  destruct (append_pair_fn_total str start enc k v) as [s1 H1]. rewrite H1. cbn [obind]. apply IH.
Qed.
Lemma extend_keys_loop_total l : forall str start enc, exists s', extend_keys_loop str start enc l = Ok s'.
Proof.
  induction l as [|k r IH]; intros str start enc; cbn [extend_keys_loop]; [eauto|].
  destruct (append_key_only_fn_total str start enc k) as [s1 H1]. rewrite H1. cbn [obind]. apply IH.
Qed.

(* ---------------------------------------------------------------- what is read back *)
Definition pairs := list (list N * list N).

Definition eff_pair (enc : encoding_override_t) (n v : list N) : pairs := [(dec_of enc n, dec_of enc v)].
Definition eff_key (enc : encoding_override_t) (k : list N) : pairs :=
  if is_empty (fu_encode enc k) then [] else [(dec_of enc k, [])].

Lemma E_alpha enc s : bytes (fu_encode enc s) -> Forall (fun c => val_alpha c = true) (E enc s).
Proof. apply bser_alpha. Qed.

Lemma forall_val_form l : Forall (fun c => val_alpha c = true) l -> Forall (fun c => form_alpha c = true) l.
Proof. intros H. eapply Forall_impl; [|exact H]. exact val_alpha_form. Qed.

Lemma pair_text_parse enc n v : bytes (fu_encode enc n) -> bytes (fu_encode enc v) ->
  parse_spec (E enc n ++ 61 :: E enc v) = eff_pair enc n v.
Proof.
  intros Hn Hv. rewrite parse_spec_piece.
  - unfold pair_of. rewrite splitn2_app by (apply bser_no_eq; exact Hn).
    cbn [unwrap_or_empty]. unfold E. rewrite !fdec_bser by assumption. reflexivity.
  - destruct (E enc n); discriminate.
  - apply Forall_app. split; [apply bser_no_amp; exact Hn|].
    constructor; [lia | apply bser_no_amp; exact Hv].
Qed.

Lemma key_text_parse enc k : bytes (fu_encode enc k) -> parse_spec (E enc k) = eff_key enc k.
Proof.
  unfold eff_key, E, dec_of. intros Hk. destruct (fu_encode enc k) as [|b r]; [reflexivity|].
  cbn [is_empty]. rewrite parse_spec_piece.
  - unfold pair_of. rewrite splitn2_no_delim by (apply bser_no_eq; exact Hk).
    cbn [unwrap_or_empty]. rewrite fdec_bser by exact Hk. rewrite fdec_nil. reflexivity.
  - intros Hnil. apply (proj1 (bser_nil_iff _)) in Hnil. discriminate.
  - apply bser_no_amp. exact Hk.
Qed.

(* appending "sep? ++ y" after start_position appends parse_spec y to what is read back *)
Lemma sep_parse str start y : start <= nlen str ->
  parse_spec (suf start (str ++ (sep_of str start ++ y))) = parse_spec (suf start str) ++ parse_spec y.
Proof.
  intros Hs. rewrite suf_app by exact Hs. unfold sep_of.
  destruct (start <? nlen str) eqn:El.
  - cbn [app]. apply parse_spec_app_amp.
  - rewrite suf_nil by lia. reflexivity.
Qed.

(* string s grows into s' by text over the alphabet, adding delta to what is read back after start *)
Definition grows (start : N) (s s' : list N) (delta : pairs) : Prop :=
  exists x, s' = s ++ x /\ Forall (fun c => form_alpha c = true) x
            /\ parse_spec (suf start s') = parse_spec (suf start s) ++ delta.

Lemma grows_refl start s : grows start s s [].
Proof. exists []. rewrite !app_nil_r. repeat split. constructor. Qed.

Lemma grows_trans start a b c d1 d2 : grows start a b d1 -> grows start b c d2 -> grows start a c (d1 ++ d2).
Proof.
  intros (x & -> & Hx & Hp) (y & -> & Hy & Hq). exists (x ++ y). rewrite app_assoc. split; [reflexivity|].
  split; [apply Forall_app; tauto|]. rewrite Hq, Hp, app_assoc. reflexivity.
Qed.

Lemma grows_len start a b d : grows start a b d -> start <= nlen a -> start <= nlen b.
Proof. intros (x & -> & _) H. rewrite nlen_app. lia. Qed.

Lemma sep_alpha str start : Forall (fun c => form_alpha c = true) (sep_of str start).
Proof. unfold sep_of. destruct (start <? nlen str); repeat constructor. Qed.

Lemma append_pair_grows str start enc n v :
  enc_ok enc -> usv_list n -> usv_list v -> start <= nlen str ->
  exists s', append_pair_fn str start enc n v = Ok s' /\ grows start str s' (eff_pair enc n v).
Proof.
  intros He Hn Hv Hs. pose proof (enc_ok_bytes enc n He Hn) as Bn. pose proof (enc_ok_bytes enc v He Hv) as Bv.
  eexists. split; [apply append_pair_fn_eq; assumption|].
  eexists. split; [reflexivity|]. split.
  - apply Forall_app. split; [apply sep_alpha|]. apply Forall_app. split; [apply forall_val_form, E_alpha; exact Bn|].
    constructor; [reflexivity | apply forall_val_form, E_alpha; exact Bv].
  - rewrite sep_parse by exact Hs. rewrite pair_text_parse by assumption. reflexivity.
Qed.

Lemma append_key_grows str start enc k :
  enc_ok enc -> usv_list k -> start <= nlen str ->
  exists s', append_key_only_fn str start enc k = Ok s' /\ grows start str s' (eff_key enc k).
Proof.
  intros He Hk Hs. pose proof (enc_ok_bytes enc k He Hk) as Bk.
  eexists. split; [apply append_key_only_fn_eq; assumption|].
  eexists. split; [reflexivity|]. split.
  - apply Forall_app. split; [apply sep_alpha | apply forall_val_form, E_alpha; exact Bk].
  - rewrite sep_parse by exact Hs. rewrite key_text_parse by assumption. reflexivity.
Qed.

Lemma extend_pairs_grows enc start l : enc_ok enc ->
  Forall (fun p => usv_list (fst p) /\ usv_list (snd p)) l -> forall str, start <= nlen str ->
  exists s', extend_pairs_loop str start enc l = Ok s'
             /\ grows start str s' (flat_map (fun p => eff_pair enc (fst p) (snd p)) l).
Proof.
  intros He. induction l as [|[k v] r IH]; intros Hl str Hs; cbn [extend_pairs_loop flat_map].
  - eexists. split; [reflexivity | apply grows_refl].
  - inversion Hl as [|? ? [Hk Hv] Hr]; subst. cbn [fst snd] in *.
    destruct (append_pair_grows str start enc k v He Hk Hv Hs) as (s1 & H1 & G1). rewrite H1. cbn [obind].
    destruct (IH Hr s1 (grows_len _ _ _ _ G1 Hs)) as (s2 & H2 & G2). exists s2. split; [exact H2|].
    exact (grows_trans _ _ _ _ _ _ G1 G2).
Qed.

Lemma extend_keys_grows enc start l : enc_ok enc -> Forall usv_list l -> forall str, start <= nlen str ->
  exists s', extend_keys_loop str start enc l = Ok s' /\ grows start str s' (flat_map (eff_key enc) l).
Proof.
  intros He. induction l as [|k r IH]; intros Hl str Hs; cbn [extend_keys_loop flat_map].
  - eexists. split; [reflexivity | apply grows_refl].
  - inversion Hl as [|? ? Hk Hr]; subst.
    destruct (append_key_grows str start enc k He Hk Hs) as (s1 & H1 & G1). rewrite H1. cbn [obind].
    destruct (IH Hr s1 (grows_len _ _ _ _ G1 Hs)) as (s2 & H2 & G2). exists s2. split; [exact H2|].
    exact (grows_trans _ _ _ _ _ _ G1 G2).
Qed.

(* ---------------------------------------------------------------- char boundaries and truncate *)
Lemma boundary_at_end s : is_char_boundary s (nlen s) = true.
Proof.
  unfold is_char_boundary, nlen. destruct (N.of_nat (length s) =? 0) eqn:E; [reflexivity|].
  rewrite Nat2N.id. replace (nth_error s (length s)) with (@None N).
  - apply N.eqb_refl.
  - symmetry. apply nth_error_None. lia.
Qed.

Lemma boundary_grows start a x : start <= nlen a -> Forall (fun c => form_alpha c = true) x ->
  is_char_boundary a start = true -> is_char_boundary (a ++ x) start = true.
Proof.
  intros Hs Hx Hb. unfold is_char_boundary in *. destruct (start =? 0) eqn:E0; [reflexivity|].
  destruct (N.ltb_spec start (nlen a)) as [Hlt|Hge].
  - unfold nlen in Hlt. rewrite nth_error_app1 by lia.
    destruct (nth_error a (N.to_nat start)) eqn:En; [exact Hb|].
    apply nth_error_None in En. lia.
  - assert (start = nlen a) as -> by lia. unfold nlen. rewrite Nat2N.id.
    rewrite nth_error_app2 by lia. replace (length a - length a)%nat with O by lia.
    destruct x as [|c r]; cbn [nth_error].
    + rewrite app_nil_r. apply N.eqb_refl.
    + inversion Hx as [|? ? Hc _]; subst. apply form_alpha_ascii in Hc. lia.
Qed.

Lemma truncate_ok s start : start <= nlen s -> is_char_boundary s start = true ->
  string_truncate s start = Ok (pre start s).
Proof.
  intros Hs Hb. unfold string_truncate. fold (nlen s). replace (start <=? nlen s) with true by lia.
  rewrite Hb. reflexivity.
Qed.

Lemma truncate_panic s start : start <= nlen s -> is_char_boundary s start = false ->
  string_truncate s start = Panic T_FORM_SITE_CLEAR_TRUNCATE.
Proof.
  intros Hs Hb. unfold string_truncate. fold (nlen s). replace (start <=? nlen s) with true by lia.
  rewrite Hb. reflexivity.
Qed.

(* ---------------------------------------------------------------- string-level histories *)
Definition has_clear (ops : list ser_op) : bool :=
  existsb (fun op => match op with OpClear => true | _ => false end) ops.

Definition op_ok (op : ser_op) : Prop :=
  match op with
  | OpAppendPair n v => usv_list n /\ usv_list v
  | OpAppendKeyOnly k => usv_list k
  | OpExtendPairs l => Forall (fun p => usv_list (fst p) /\ usv_list (snd p)) l
  | OpExtendKeysOnly l => Forall usv_list l
  | OpClear => True
  | OpEncodingOverride o => enc_ok o
  end.

(* the (encoding, pairs read back after start_position) state and the effect of each operation on it *)
Definition op_effect (st : encoding_override_t * pairs) (op : ser_op) : encoding_override_t * pairs :=
  let (enc, ps) := st in
  match op with
  | OpAppendPair n v => (enc, ps ++ eff_pair enc n v)
  | OpAppendKeyOnly k => (enc, ps ++ eff_key enc k)
  | OpExtendPairs l => (enc, ps ++ flat_map (fun p => eff_pair enc (fst p) (snd p)) l)
  | OpExtendKeysOnly l => (enc, ps ++ flat_map (eff_key enc) l)
  | OpClear => (enc, [])
  | OpEncodingOverride o => (o, ps)
  end.
Definition ops_effect (st : encoding_override_t * pairs) (ops : list ser_op) : encoding_override_t * pairs :=
  fold_left op_effect ops st.

(* one operation on the String the target hands out *)
Definition str_step (start : N) (enc : encoding_override_t) (str : list N) (op : ser_op)
  : outcome (list N * encoding_override_t) :=
  match op with
  | OpAppendPair n v => omap (fun s => (s, enc)) (append_pair_fn str start enc n v)
  | OpAppendKeyOnly k => omap (fun s => (s, enc)) (append_key_only_fn str start enc k)
  | OpExtendPairs l => omap (fun s => (s, enc)) (extend_pairs_loop str start enc l)
  | OpExtendKeysOnly l => omap (fun s => (s, enc)) (extend_keys_loop str start enc l)
  | OpClear => omap (fun s => (s, enc)) (string_truncate str start)
  | OpEncodingOverride o => Ok (str, o)
  end.

Fixpoint str_run (start : N) (enc : encoding_override_t) (str : list N) (ops : list ser_op)
  : outcome (list N * encoding_override_t) :=
  match ops with
  | [] => Ok (str, enc)
  | op :: r => obind (str_step start enc str op) (fun se => str_run start (snd se) (fst se) r)
  end.

(* the invariant a history maintains *)
Record hist_inv (start : N) (str0 str : list N) : Prop := {
  hi_len : start <= nlen str;
  hi_pre : pre start str = pre start str0;
}.

Lemma str_step_ok start enc str op : enc_ok enc -> op_ok op -> start <= nlen str ->
  (is_char_boundary str start = true \/ op <> OpClear) ->
  exists str' enc', str_step start enc str op = Ok (str', enc')
    /\ enc_ok enc' /\ start <= nlen str' /\ pre start str' = pre start str
    /\ (enc', parse_spec (suf start str')) = op_effect (enc, parse_spec (suf start str)) op
    /\ (forall P : N -> Prop, (forall c, form_alpha c = true -> P c) -> Forall P (suf start str) -> Forall P (suf start str'))
    /\ (is_char_boundary str start = true -> is_char_boundary str' start = true).
Proof.
  intros He Ho Hs Hb.
  assert (G : forall s' d, grows start str s' d ->
     start <= nlen s' /\ pre start s' = pre start str
     /\ parse_spec (suf start s') = parse_spec (suf start str) ++ d
     /\ (forall P : N -> Prop, (forall c, form_alpha c = true -> P c) -> Forall P (suf start str) -> Forall P (suf start s'))
     /\ (is_char_boundary str start = true -> is_char_boundary s' start = true)).
  { intros s' d Hg. pose proof (grows_len _ _ _ _ Hg Hs) as Hl. destruct Hg as (x & -> & Hx & Hp).
    split; [exact Hl|]. split; [apply pre_app; exact Hs|]. split; [exact Hp|]. split.
    - intros P HP Ha. rewrite suf_app by exact Hs. apply Forall_app. split; [exact Ha|].
      eapply Forall_impl; [|exact Hx]. exact HP.
    - apply boundary_grows; assumption. }
  destruct op as [n v|k|l|l| |o]; cbn [str_step op_effect op_ok] in *.
  - destruct Ho as [Hn Hv]. destruct (append_pair_grows str start enc n v He Hn Hv Hs) as (s' & H1 & G1).
    rewrite H1. cbn [omap]. destruct (G _ _ G1) as (A & B & C & D & F).
    exists s', enc. rewrite C. repeat split; assumption.
  - destruct (append_key_grows str start enc k He Ho Hs) as (s' & H1 & G1).
    rewrite H1. cbn [omap]. destruct (G _ _ G1) as (A & B & C & D & F).
    exists s', enc. rewrite C. repeat split; assumption.
  - destruct (extend_pairs_grows enc start l He Ho str Hs) as (s' & H1 & G1).
    rewrite H1. cbn [omap]. destruct (G _ _ G1) as (A & B & C & D & F).
    exists s', enc. rewrite C. repeat split; assumption.
  - destruct (extend_keys_grows enc start l He Ho str Hs) as (s' & H1 & G1).
    rewrite H1. cbn [omap]. destruct (G _ _ G1) as (A & B & C & D & F).
    exists s', enc. rewrite C. repeat split; assumption.
  - destruct Hb as [Hb|Hb]; [|congruence].
    rewrite truncate_ok by assumption. cbn [omap]. exists (pre start str), enc.
    assert (Hl : nlen (pre start str) = start) by (apply suf_pre_len; exact Hs).
    split; [reflexivity|]. split; [exact He|]. split; [lia|]. split.
    { unfold pre. rewrite firstn_firstn. f_equal. lia. }
    split; [rewrite suf_nil by lia; reflexivity|]. split.
    { intros P _ _. rewrite suf_nil by lia. constructor. }
    intros _. rewrite <- Hl at 2. apply boundary_at_end.
  - exists str, o. repeat split; try assumption; tauto.
Qed.

Theorem str_run_ok ops : forall start enc str, Forall op_ok ops -> enc_ok enc -> start <= nlen str ->
  (is_char_boundary str start = true \/ has_clear ops = false) ->
  exists str' enc', str_run start enc str ops = Ok (str', enc')
    /\ start <= nlen str' /\ pre start str' = pre start str
    /\ (enc', parse_spec (suf start str')) = ops_effect (enc, parse_spec (suf start str)) ops
    /\ (forall P : N -> Prop, (forall c, form_alpha c = true -> P c) -> Forall P (suf start str) -> Forall P (suf start str')).
Proof.
  induction ops as [|op r IH]; intros start enc str Hops He Hs Hb.
  - exists str, enc. cbn [str_run ops_effect fold_left]. repeat split; try assumption. tauto.
  - inversion Hops as [|? ? Ho Hr]; subst. cbn [str_run].
    assert (Hb1 : is_char_boundary str start = true \/ op <> OpClear).
    { destruct Hb as [Hb|Hb]; [left; exact Hb|]. right. intros ->. cbn in Hb. discriminate. }
    destruct (str_step_ok start enc str op He Ho Hs Hb1) as (s1 & e1 & H1 & He1 & Hs1 & Hp1 & Hq1 & Ha1 & Hb2).
    rewrite H1. cbn [obind fst snd].
    assert (Hb3 : is_char_boundary s1 start = true \/ has_clear r = false).
    { destruct Hb as [Hb|Hb]; [left; exact (Hb2 Hb)|]. right. cbn [has_clear existsb] in Hb.
      apply orb_false_iff in Hb. tauto. }
    destruct (IH start e1 s1 Hr He1 Hs1 Hb3) as (s2 & e2 & H2 & Hs2 & Hp2 & Hq2 & Ha2).
    exists s2, e2. split; [exact H2|]. split; [exact Hs2|]. split; [congruence|]. split.
    + unfold ops_effect in *. cbn [fold_left]. rewrite <- Hq1. exact Hq2.
    + intros P HP Ha. exact (Ha2 P HP (Ha1 P HP Ha)).
Qed.

(* ---------------------------------------------------------------- lifting to Serializer<T> *)
Section Generic.
  Variables (T F : Type) (get : T -> list N) (set : T -> list N -> T) (fin : T -> F).
  (* as_mut_string hands out the same String every time: a lens *)
  Hypothesis get_set : forall t s, get (set t s) = s.
  Hypothesis set_set : forall t a b, set (set t a) b = set t b.
  Hypothesis set_get : forall t, set t (get t) = t.

  Definition lift (t0 : T) (start : N) (o : outcome (list N * encoding_override_t)) : outcome (serializer T) :=
    omap (fun se => mk_ser (Some (set t0 (fst se))) start (snd se)) o.

  Lemma ser_step_lift t0 start enc str op :
    ser_step T get set (mk_ser (Some (set t0 str)) start enc) op = lift t0 start (str_step start enc str op).
  Proof.
    unfold lift. destruct op as [n v|k|l|l| |o]; cbn [ser_step str_step].
    - unfold ser_append_pair, string_of, with_string. cbn [ser_target ser_start ser_encoding obind].
      rewrite get_set. destruct (append_pair_fn str start enc n v); cbn [obind omap fst snd]; [rewrite set_set|..]; reflexivity.
    - unfold ser_append_key_only, string_of, with_string. cbn [ser_target ser_start ser_encoding obind].
      rewrite get_set. destruct (append_key_only_fn str start enc k); cbn [obind omap fst snd]; [rewrite set_set|..]; reflexivity.
    - unfold ser_extend_pairs, string_of, with_string. cbn [ser_target ser_start ser_encoding obind].
      rewrite get_set. destruct (extend_pairs_loop str start enc l); cbn [obind omap fst snd]; [rewrite set_set|..]; reflexivity.
    - unfold ser_extend_keys_only, string_of, with_string. cbn [ser_target ser_start ser_encoding obind].
      rewrite get_set. destruct (extend_keys_loop str start enc l); cbn [obind omap fst snd]; [rewrite set_set|..]; reflexivity.
    - unfold ser_clear, string_of, with_string. cbn [ser_target ser_start ser_encoding obind].
      rewrite get_set. destruct (string_truncate str start); cbn [obind omap fst snd]; [rewrite set_set|..]; reflexivity.
    - reflexivity.
  Qed.

  Lemma ser_run_lift ops : forall t0 start enc str,
    ser_run T get set (mk_ser (Some (set t0 str)) start enc) ops = lift t0 start (str_run start enc str ops).
  Proof.
    induction ops as [|op r IH]; intros t0 start enc str; cbn [ser_run str_run]; [reflexivity|].
    rewrite ser_step_lift. unfold lift at 1.
    destruct (str_step start enc str op) as [[s1 e1]| |]; cbn [omap obind fst snd]; [apply IH | reflexivity..].
  Qed.

  (* documented panic 1: for_suffix beyond the end of the target, and nothing else *)
  Theorem for_suffix_outcome t start :
    (nlen (get t) < start -> ser_for_suffix T get t start = Panic T_FORM_SITE_FOR_SUFFIX)
    /\ (start <= nlen (get t) -> ser_for_suffix T get t start = Ok (mk_ser (Some t) start None)).
  Proof using T get.
    clear get_set set_set set_get set fin F.
    unfold ser_for_suffix, nlen. split; intros H.
    - replace (N.of_nat (length (get t)) <? start) with true by lia. reflexivity.
    - replace (N.of_nat (length (get t)) <? start) with false by lia. reflexivity.
  Qed.

  (* documented panic 2: finish takes the target; a second finish and every String-touching operation
     afterwards panic (encoding_override alone does not touch the target) *)
  Theorem finish_outcome (s : serializer T) :
    match ser_target s with
    | Some t => ser_finish T F fin s = Ok (fin t, mk_ser None (ser_start s) (ser_encoding s))
    | None => ser_finish T F fin s = Panic T_FORM_SITE_FINISH
    end.
  Proof using T F fin. unfold ser_finish. destruct (ser_target s); reflexivity. Qed.

  Theorem after_finish (s : serializer T) f s' : ser_finish T F fin s = Ok (f, s') ->
    ser_finish T F fin s' = Panic T_FORM_SITE_FINISH
    /\ forall op, ser_step T get set s' op =
                  match op with
                  | OpEncodingOverride o => Ok (mk_ser None (ser_start s') o)
                  | _ => Panic T_FORM_SITE_STRING
                  end.
  Proof using T F get set fin.
    unfold ser_finish. destruct (ser_target s) as [t|]; [|discriminate]. intros H. inversion H; subst. clear H.
    split; [reflexivity|]. intros op. destruct op; reflexivity.
  Qed.

  (* the complete list of ways one operation can fail *)
  Theorem ser_step_outcome (s : serializer T) op :
    match ser_step T get set s op with
    | Ok _ => True
    | OutOfFuel => False
    | Panic x =>
        (ser_target s = None /\ x = T_FORM_SITE_STRING)
        \/ (exists t, ser_target s = Some t /\ op = OpClear /\ x = T_FORM_SITE_CLEAR_TRUNCATE
                      /\ ser_start s <= nlen (get t) /\ is_char_boundary (get t) (ser_start s) = false)
    end.
  Proof using T get set.
    clear get_set set_set set_get fin F.
    destruct s as [[t|] start enc].
    2:{ destruct op; cbn; auto. }
    destruct op as [n v|k|l|l| |o]; cbn [ser_step].
    - unfold ser_append_pair, string_of. cbn [ser_target ser_start ser_encoding obind].
      destruct (append_pair_fn_total (get t) start enc n v) as [s' ->]. exact I.
    - unfold ser_append_key_only, string_of. cbn [ser_target ser_start ser_encoding obind].
      destruct (append_key_only_fn_total (get t) start enc k) as [s' ->]. exact I.
    - unfold ser_extend_pairs, string_of. cbn [ser_target ser_start ser_encoding obind].
      destruct (extend_pairs_loop_total l (get t) start enc) as [s' ->]. exact I.
    - unfold ser_extend_keys_only, string_of. cbn [ser_target ser_start ser_encoding obind].
      destruct (extend_keys_loop_total l (get t) start enc) as [s' ->]. exact I.
    - unfold ser_clear, string_of. cbn [ser_target ser_start ser_encoding obind].
      unfold string_truncate. fold (nlen (get t)).
      destruct (start <=? nlen (get t)) eqn:El; [|exact I].
      destruct (is_char_boundary (get t) start) eqn:Eb; [exact I|]. cbn [obind].
      right. exists t. repeat split; try reflexivity; [lia | exact Eb].
    - exact I.
  Qed.

  (* for_suffix(target, start) . ops . finish() ; the text after start_position keeps every byte property
     P that the alphabet has (e.g. "is not '#'") *)
  Theorem session_ok_P t0 start ops :
    Forall op_ok ops -> start <= nlen (get t0) ->
    (is_char_boundary (get t0) start = true \/ has_clear ops = false) ->
    exists str', ser_session T F get set fin t0 start ops = Ok (fin (set t0 str'))
      /\ start <= nlen str' /\ pre start str' = pre start (get t0)
      /\ parse (suf start str') = Some (snd (ops_effect (None, parse_spec (suf start (get t0))) ops))
      /\ (forall P : N -> Prop, (forall c, form_alpha c = true -> P c) ->
          Forall P (suf start (get t0)) -> Forall P (suf start str')).
  Proof.
    intros Hops Hs Hb. unfold ser_session.
    rewrite (proj2 (for_suffix_outcome t0 start) Hs). cbn [obind].
    replace (mk_ser (Some t0) start None) with (mk_ser (Some (set t0 (get t0))) start None)
      by (rewrite set_get; reflexivity).
    rewrite ser_run_lift.
    destruct (str_run_ok ops start None (get t0) Hops I Hs Hb) as (s' & e' & H1 & H2 & H3 & H4 & H5).
    rewrite H1. unfold lift. cbn [omap obind fst snd ser_finish ser_target].
    exists s'. split; [reflexivity|]. split; [exact H2|]. split; [exact H3|]. split; [|exact H5].
    rewrite parse_is_spec. f_equal. apply (f_equal snd) in H4. cbn [snd] in H4. exact H4.
  Qed.

  Theorem session_ok t0 start ops :
    Forall op_ok ops -> start <= nlen (get t0) ->
    (is_char_boundary (get t0) start = true \/ has_clear ops = false) ->
    exists str', ser_session T F get set fin t0 start ops = Ok (fin (set t0 str'))
      /\ start <= nlen str' /\ pre start str' = pre start (get t0)
      /\ parse (suf start str') = Some (snd (ops_effect (None, parse_spec (suf start (get t0))) ops))
      /\ (Forall (fun c => form_alpha c = true) (suf start (get t0)) ->
          Forall (fun c => form_alpha c = true) (suf start str')).
  Proof.
    intros Hops Hs Hb. destruct (session_ok_P t0 start ops Hops Hs Hb) as (s' & H1 & H2 & H3 & H4 & H5).
    exists s'. repeat split; try assumption. apply H5. intros c Hc; exact Hc.
  Qed.
End Generic.
