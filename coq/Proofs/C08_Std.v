(* Proofs/C08_Std.v - the STANDARD-side reading of the first two clauses of C08.
   (1) On the Standard's basic URL parser alone (Spec/Whatwg.v, any host parser): against a base record that is
       not opaque and whose scheme is not "file", EVERY reference that - after the Standard's cleaning - has no
       scheme and does not start with two slash characters ('/', and '\' only for a special base) succeeds and
       keeps scheme, username, password, host and port of the base (std_contain); the empty reference gives the
       base with a null fragment, '#f' replaces only the fragment, '?q' only query and fragment (lemmas of
       C01_EqEmpty / C01_EqRef, collected as std_simple).
   (2) The crate agrees: for a full_base pair (model record `related` to the Standard's) the model's join
       returns a record related to the Standard's result (or Overflow beyond u32::MAX), which is contained
       in the sense of C08_contain (corollary of C01's statement_all + C08's contain_nonfile). *)
From Coq Require Import ZifyBool ZifyN.
From RU Require Import Base.Prelude Base.Utf8 Base.Utf8Facts Model.AsciiSet Gen.Tables
  Model.PercentEncoding Model.HostT Model.UrlRecord Model.Parser Model.Setters Model.WF Model.KnownC01 Model.KnownC08 Spec.Whatwg
  Proofs.ListN Proofs.C02_Parts Proofs.C02_Path Proofs.C03_WF Proofs.C01_Tables Proofs.C08_Input
  Proofs.C08_Simple Proofs.C08_Contain Proofs.C08_NoAuth
  Proofs.C01_EqRun Proofs.C01_EqEnc Proofs.C01_EqApi Proofs.C01_EqOpaque Proofs.C01_EqRef Proofs.C01_EqDots
  Proofs.C01_EqPathSpec Proofs.C01_EqPath Proofs.C01_EqEmpty
  Proofs.C01_EqRel Proofs.C01_EqRelPath Proofs.C01_EqRelArms Proofs.C01_EqRelBase
  Proofs.C01_EqSpSpec Proofs.C01_EqSpPath Proofs.C01_EqSpBase Proofs.C01_EqAsm Proofs.C01_EqShape Proofs.C01_EqCover.
Open Scope N_scope.
Open Scope list_scope.

(* the premise of the containment law on the Standard's side: decided on the cleaned reference and the scheme of
   the Standard's base record *)
Definition std_contain_pre (sb : spec_url) (t : list N) : bool :=
  negb (has_scheme_b t) && negb (two_leading_slashes (is_special_scheme (su_scheme sb)) t).

Lemma rel_path_result_s_front sb P0 t : spec_same_front sb (rel_path_result_s sb P0 t).
Proof.
  unfold rel_path_result_s, tail_url, spec_same_front. destruct (snd (spath_s t P0 [])) as [|c r]; [repeat split|].
  destruct (c =? 63); [|repeat split; reflexivity].
  unfold query_final, frag_opt. destruct (C01_EqRun.after_hash r); repeat split; reflexivity.
Qed.

Lemma no_scheme_std input : has_scheme_b (spec_clean input) = false -> spec_scheme (spec_clean input) = None.
Proof.
  rewrite spec_clean_is_ntnl_trim. intros H. pose proof (parse_scheme_none _ H) as E.
  pose proof (scheme_state_eq (input_new_trim_c0 input)) as K. rewrite E in K.
  destruct (spec_scheme (ntnl (input_new_trim_c0 input))); [contradiction | reflexivity].
Qed.

(* C01_EqEmpty.spec_empty_ref was generalised over unused section variables *)
Definition spec_empty_ref' (shp : bool -> list N -> option spec_host) :=
  spec_empty_ref true (fun _ => Err EmptyHost) (fun _ => Err EmptyHost) shp.

Section Std.
Variable shp : bool -> list N -> option spec_host.

(* ---------- containment on the Standard's side ---------- *)
Theorem std_contain input sb : spec_valid sb -> has_opaque_path sb = false ->
  list_eqb (su_scheme sb) str_file = false -> std_contain_pre sb (spec_clean input) = true ->
  exists su, spec_basic_url_parse shp input (Some sb) = BDone su /\ spec_same_front sb su.
Proof.
  intros V Hop Hnf Hpre. unfold std_contain_pre in Hpre. apply andb_true_iff in Hpre. destruct Hpre as [H1 H2].
  apply negb_true_iff in H1. apply negb_true_iff in H2.
  pose proof (no_scheme_std input H1) as Hs.
  destruct (spec_clean input) as [|c t] eqn:Ecl.
  { eexists. split; [exact (spec_empty_ref' shp input sb Ecl V Hop)|]. repeat split. }
  destruct (c =? 35) eqn:E35.
  { apply N.eqb_eq in E35. subst c. eexists. split; [exact (spec_fragment_only shp input sb t Ecl V)|]. repeat split. }
  destruct (c =? 63) eqn:E63.
  { apply N.eqb_eq in E63. subst c. eexists. split; [exact (spec_query_only shp input sb t Ecl V Hop)|].
    unfold ref_result. repeat split. }
  destruct (is_special_scheme (su_scheme sb)) eqn:Hsp.
  - (* special, not file *)
    destruct (is_sl c) eqn:Esl.
    + eexists. split.
      * apply spec_parse_of_runs. rewrite Ecl.
        apply (runs_rel_abs_s shp (c :: t) sb Hop Hsp Hnf c t eq_refl Esl); [|exact Hs].
        destruct t as [|c2 r]; [exact I|]. cbn [two_leading_slashes] in H2.
        unfold is_ref_slash in H2. rewrite !andb_true_r in H2. unfold is_sl in *. rewrite Esl in H2. exact H2.
      * apply rel_path_result_s_front.
    + eexists. split.
      * apply spec_parse_of_runs. rewrite Ecl.
        exact (runs_rel_path_s shp (c :: t) sb Hop Hsp Hnf c t eq_refl Hs Esl E63 E35).
      * apply rel_path_result_s_front.
  - destruct (c =? 47) eqn:E47.
    + apply N.eqb_eq in E47. subst c. eexists. split.
      * apply (spec_rel_abs shp input sb t Hop Hsp Ecl).
        destruct t as [|c2 r]; [reflexivity|]. cbn [two_leading_slashes] in H2. unfold is_ref_slash in H2.
        rewrite !andb_false_r, !orb_false_r in H2. cbn [starts_with_cp]. exact H2.
      * apply rel_path_result_front.
    + eexists. split.
      * exact (spec_rel_path shp input sb c t Hop Hsp Ecl Hs E47 E63 E35).
      * apply rel_path_result_front.
Qed.

(* ---------- the three simple references on the Standard's side ---------- *)
Theorem std_simple input sb : spec_valid sb ->
  (spec_clean input = [] -> has_opaque_path sb = false ->
     spec_basic_url_parse shp input (Some sb) = BDone (set_fragment sb None))
  /\ (forall f, spec_clean input = 35 :: f ->
        spec_basic_url_parse shp input (Some sb) = BDone (set_fragment sb (Some (upe in_fragment_set f))))
  /\ (forall q, spec_clean input = 63 :: q -> has_opaque_path sb = false ->
        spec_basic_url_parse shp input (Some sb)
        = BDone (set_fragment (set_query sb (Some (upe (qset_of sb) (C01_EqRun.before_hash q))))
                              (option_map (upe in_fragment_set) (C01_EqRun.after_hash q)))).
Proof.
  intros V. split; [|split].
  - intros Ecl Hop. exact (spec_empty_ref' shp input sb Ecl V Hop).
  - intros f Ecl. exact (spec_fragment_only shp input sb f Ecl V).
  - intros q Ecl Hop. exact (spec_query_only shp input sb q Ecl V Hop).
Qed.

End Std.

(* ---------- the model's premise is the Standard's ---------- *)
Lemma contain_pre_std dbg shs b sb input : related dbg shs b sb ->
  contain_pre b input = std_contain_pre sb (spec_clean input).
Proof.
  intros R. unfold contain_pre, std_contain_pre, base_special. rewrite ref_text_eq, <- spec_clean_is_ntnl_trim.
  rewrite (rel_sch _ _ _ _ R), special_schemes_are_the_standards. reflexivity.
Qed.

Lemma related_not_file dbg shs b sb : related dbg shs b sb -> list_eqb (su_scheme sb) str_file = false ->
  st_is_file (b_st b) = false.
Proof.
  intros R H. unfold b_st. rewrite (rel_sch _ _ _ _ R). unfold scheme_type_of.
  change s_file with str_file. rewrite H.
  destruct (list_eqb (su_scheme sb) s_http || list_eqb (su_scheme sb) s_https || list_eqb (su_scheme sb) s_ws
            || list_eqb (su_scheme sb) s_wss || list_eqb (su_scheme sb) s_ftp); reflexivity.
Qed.

(* ---------- the crate's join agrees with the Standard's, and both keep the front ---------- *)
Section Agree.
Variable dbg : bool.
Variable hp hpo : list N -> result host.
Variable hd : host -> list N.
Variable shp : bool -> list N -> option spec_host.
Variable shs : spec_host -> list N.

Theorem std_contain_agree b sb input : usv_list input -> full_base dbg shs b sb ->
  has_opaque_path sb = false -> list_eqb (su_scheme sb) str_file = false ->
  contain_pre b input = true -> known_c01_v1 (Some b) input = 0 ->
  host_hyp3 hp hpo hd shp shs (Some sb) input ->
  exists su, spec_basic_url_parse shp input (Some sb) = BDone su /\ spec_same_front sb su
    /\ ((parse_url dbg hp hpo hd None (Some b) input = PErr Overflow /\ U32_MAX_P < nlen (get_href shs su))
        \/ exists u', parse_url dbg hp hpo hd None (Some b) input = POk u' /\ related dbg shs u' su
                      /\ full_base dbg shs u' su /\ contained dbg b u').
Proof.
  intros Hu Hfb Hop Hnf Hcp Hk HH. pose proof (proj1 (proj1 Hfb)) as R.
  pose proof Hcp as Hcp'. rewrite (contain_pre_std dbg shs b sb input R) in Hcp'.
  destruct (std_contain shp input sb (rel_valid _ _ _ _ R) Hop Hnf Hcp') as (su & HS & HF).
  exists su. split; [exact HS|]. split; [exact HF|].
  destruct (statement_all dbg hp hpo hd shp shs input (Some b) (Some sb) Hu Hfb Hk HH) as [A FB].
  rewrite HS in A. cbn [agree_good] in A. destruct A as [_ [[E L]|(u' & E & Ru)]]; [left; split; assumption|].
  right. exists u'. split; [exact E|]. split; [exact Ru|]. split; [exact (FB su u' HS E)|].
  apply (contain_nonfile dbg hp hpo hd b input u' (rel_wf _ _ _ _ R)); try assumption.
  - rewrite (rel_cbb _ _ _ _ R), Hop. reflexivity.
  - exact (related_not_file dbg shs b sb R Hnf).
Qed.

(* the three simple references: the model's result is the closed form of C08_empty / C08_frag / C08_query and is
   related to the Standard's *)
Theorem std_empty_agree b sb input : related dbg shs b sb -> has_opaque_path sb = false -> spec_clean input = [] ->
  spec_basic_url_parse shp input (Some sb) = BDone (set_fragment sb None)
  /\ parse_url dbg hp hpo hd None (Some b) input = POk (without_fragment b)
  /\ related dbg shs (without_fragment b) (set_fragment sb None).
Proof.
  intros R Hop Ecl. split; [exact (spec_empty_ref' shp input sb Ecl (rel_valid _ _ _ _ R) Hop)|].
  assert (ref_text input = []) as Hr by (rewrite ref_text_eq, <- spec_clean_is_ntnl_trim; exact Ecl).
  assert (cannot_be_a_base b = Some false) as Hcb by (rewrite (rel_cbb _ _ _ _ R), Hop; reflexivity).
  split; [exact (join_empty dbg hp hpo hd b input Hcb Hr)|]. exact (related_without_fragment dbg hp hpo shp shs b sb R).
Qed.

End Agree.

(* ---------- the same for the parser model with the host model plugged in against the Standard's parser with the
   Standard's host parser: relative to IdnaOK idna only ---------- *)
From RU Require Import Model.Host Proofs.C09_Host Spec.WhatwgHostParse.

Theorem std_contain_agree_model dbg idna : IdnaOK idna -> forall b sb input,
  usv_list input -> full_base dbg spec_host_serializer b sb ->
  has_opaque_path sb = false -> list_eqb (su_scheme sb) str_file = false ->
  contain_pre b input = true -> known_c01_v1 (Some b) input = 0 ->
  exists su, spec_basic_url_parse (spec_host_parser idna) input (Some sb) = BDone su /\ spec_same_front sb su
    /\ ((parse_url dbg (host_parse idna) host_parse_opaque host_display None (Some b) input = PErr Overflow
         /\ U32_MAX_P < nlen (get_href spec_host_serializer su))
        \/ exists u', parse_url dbg (host_parse idna) host_parse_opaque host_display None (Some b) input = POk u'
                      /\ related dbg spec_host_serializer u' su
                      /\ full_base dbg spec_host_serializer u' su /\ contained dbg b u').
Proof.
  intros HI b sb input Hu Hfb Hop Hnf Hcp Hk.
  apply std_contain_agree; try assumption.
  apply host_hyp3_model; [exact (idna_out idna HI) | exact Hu].
Qed.

(* a parse result without a base and the Standard's are a full_base pair (second part of statement_all) *)
Theorem parsed_full_base dbg idna : IdnaOK idna -> forall input u su,
  usv_list input -> known_c01_v1 None input = 0 ->
  parse_url dbg (host_parse idna) host_parse_opaque host_display None None input = POk u ->
  spec_basic_url_parse (spec_host_parser idna) input None = BDone su ->
  full_base dbg spec_host_serializer u su.
Proof.
  intros HI input u su Hu Hk Hm HS.
  exact (proj2 (statement_all_model dbg idna HI input None None Hu I Hk) su u HS Hm).
Qed.

(* ---------- non-vacuity: base = the parse results of "http://u:p@example.com:81/a/b/c?q#f" (special) and of
   "web+x://h.x/a/b" (not special); the references meet contain_pre and are outside Known_C01; the Standard's
   results keep the front ---------- *)
Definition std_case (base : list N) (refs : list (list N)) : bool :=
  let idna := ex_idna_clean in
  match parse_url true (host_parse idna) host_parse_opaque host_display None None base,
        spec_basic_url_parse (spec_host_parser idna) base None with
  | POk b, BDone sb =>
      (known_c01_v1 None base =? 0) && negb (has_opaque_path sb) && negb (list_eqb (su_scheme sb) str_file)
      && forallb (fun r =>
           contain_pre b r && (known_c01_v1 (Some b) r =? 0)
           && match spec_basic_url_parse (spec_host_parser idna) r (Some sb),
                    parse_url true (host_parse idna) host_parse_opaque host_display None (Some b) r with
              | BDone su, POk u' =>
                  list_eqb (su_scheme su) (su_scheme sb) && list_eqb (su_username su) (su_username sb)
                  && list_eqb (su_password su) (su_password sb)
                  && list_eqb (get_href spec_host_serializer su) (ser u')
              | _, _ => false
              end) refs
  | _, _ => false
  end.

From Coq Require Import String.
From RU Require Import Proofs.C02_Reach.
Open Scope string_scope.
Lemma std_contain_inhabited :
  IdnaOK ex_idna_clean
  /\ std_case (B "http://u:p@example.com:81/a/b/c?q#f")
       [B ""; B "#x y"; B "?z#w"; B "/x/../y"; B "\x"; B "x/./y?q"; B "..\..\z"; B " /	x"] = true
  /\ std_case (B "web+x://h.x/a/b") [B ""; B "#x"; B "?z"; B "/x"; B "\\h"; B "/\h"; B "../../x"; B "c/d#f"] = true.
Proof. split; [exact ex_idna_clean_ok | vm_compute; split; reflexivity]. Qed.
