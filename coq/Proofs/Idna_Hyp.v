(* Proofs/Idna_Hyp.v - the explicit premises of the adapter-relative statements (DESIGN section 8,
   C10 and C12), and the full-strength statements of C10 - C12 as propositions. *)
From RU Require Import Base.Prelude Base.Utf8 Base.U32_c13 Gen.Tables Model.Punycode Model.Uts46
  Proofs.Idna_Sim Proofs.Idna_Api Proofs.Idna_Known.

(* ASCII case variants: same length, equal up to the case of ASCII letters *)
Definition ascii_case_variant (d d' : list N) : Prop := map to_lower d = map to_lower d'.

Record AdapterOK (A : adapter) : Prop := {
  (* H0 *) ok_nil : map_normalize A [] = [];
  (* H1 *) ok_ascii : forall l, is_ascii_l l = true -> map_normalize A l = map to_lower l;
           ok_case : forall l l', ascii_case_variant l l' -> map_normalize A l = map_normalize A l';
  (* H2 *) ok_stable : forall l, existsb is_fffd (map_normalize A l) = false ->
             forall piece, In piece (split_on DOT (map_normalize A l)) -> normalize_validate A piece = piece;
  (* H3 *) ok_fffd : forall l, existsb is_fffd l = false -> existsb is_fffd (normalize_validate A l) = true ->
             normalize_validate A l <> l }.

(* C13's internal round trip as first written: UNSATISFIABLE (the U8Internal instantiation lower-cases the basic
   code units, so [65; 252] -> "A-eha" -> [97; 252]); kept only for the lemma PunyRT_old_unsat of Proofs/Idna_PunyRT.v *)
Definition PunyRT_old (cfg : bool) : Prop := forall l p,
  len l <= PUNYCODE_ENCODE_MAX_INPUT_LENGTH -> usv_list l -> existsb (fun c => negb (is_ascii_cp c)) l = true ->
  encode_internal cfg l = Ok p -> decode_with cfg U8Internal p = Ok l /\ decode_with cfg CharInternal p = Ok l.

(* C13's internal round trip, stated correctly: what the internal encoder writes for a label of at most 1000 scalar
   values is read back by the char decoder as the label, and by the u8 decoder (which lower-cases the basic code
   units) as the label with its ASCII letters lower-cased.  No longer a premise: Proofs/Idna_PunyRT.v proves
   punyrt_holds : forall cfg, PunyRT cfg  from the C13 development. *)
Definition PunyRT (cfg : bool) : Prop := forall l p,
  len l <= PUNYCODE_ENCODE_MAX_INPUT_LENGTH -> usv_list l -> encode_internal cfg l = Ok p ->
  decode_with cfg CharInternal p = Ok l /\ decode_with cfg U8Internal p = Ok (map to_lower l).

(* deny lists the API can build *)
Definition valid_deny (deny : N) : Prop :=
  deny = DENY_STD3 \/ exists g l, deny_new g l = Ok deny.
Definition deny_member (deny : N) (c : N) : bool := negb (N.land deny (N.shiftl 1 c) =? 0).

Definition ui_err (r : uires) : bool := match r with UI _ _ e => e | UIPanic _ => false end.
Definition ui_text (r : uires) : list N := match r with UI _ t _ => t | UIPanic _ => [] end.
Definition ui_panics (r : uires) : bool := match r with UIPanic _ => true | _ => false end.
Definition res_err {X} (r : res X) : bool := match r with Err => true | _ => false end.

Section Statements.
Variable A : adapter.
Variable cfg : bool.

(* ---- C10 ---- *)
Definition C10_ascii_statement : Prop := forall d deny hy dns b r, bytes d -> valid_deny deny ->
  to_ascii A cfg d deny hy dns = Ok (b, r) ->
  Forall (fun c => c < 128 /\ is_upper c = false /\ deny_member deny c = false) r.
Definition C10_idem_statement : Prop := AdapterOK A -> PunyRT cfg -> forall d deny hy dns b r,
  bytes d -> valid_deny deny -> Known_C12 A cfg d deny hy = false ->
  to_ascii A cfg d deny hy dns = Ok (b, r) -> exists b', to_ascii A cfg r deny hy dns = Ok (b', r).
Definition C10_case_statement : Prop := AdapterOK A -> forall d d' deny hy dns b r,
  bytes d -> valid_deny deny -> ascii_case_variant d d' ->
  to_ascii A cfg d deny hy dns = Ok (b, r) -> exists b', to_ascii A cfg d' deny hy dns = Ok (b', r).

(* ---- C11 ---- *)
Definition C11_same_verdict_statement : Prop := forall d deny hy p, bytes d -> valid_deny deny ->
  Known_C11 A cfg d deny hy = false ->
  is_panic (to_ascii A cfg d deny hy DIgnore) = false -> ui_panics (to_user_interface A cfg d deny hy p) = false ->
  res_err (to_ascii A cfg d deny hy DIgnore) = ui_err (to_user_interface A cfg d deny hy p).
Definition C11_err_fffd_statement : Prop := forall d deny hy p, bytes d -> valid_deny deny ->
  Known_C11 A cfg d deny hy = false ->
  ui_err (to_user_interface A cfg d deny hy p) = true -> In FFFD (ui_text (to_user_interface A cfg d deny hy p)).
Definition C11_ok_no_fffd_statement : Prop := forall d deny hy p b t, bytes d -> valid_deny deny ->
  to_user_interface A cfg d deny hy p = UI b t false -> ~ In FFFD t.
Definition C11_dual_statement : Prop := forall d deny hy p s a, bytes d -> valid_deny deny ->
  process A cfg false p d deny hy None None true = (PWroteToSink, s, a) ->
  to_user_interface A cfg d deny hy p = UI false s false /\
  exists b, to_ascii A cfg d deny hy DIgnore = Ok (b, match a with [] => s | _ => a end).
Definition C11_passthrough_statement : Prop := forall ff p d deny hy k1 k2 w s a, bytes d -> valid_deny deny ->
  process A cfg ff p d deny hy k1 k2 w = (PPassthrough, s, a) ->
  Known_C11 A cfg d deny hy = false ->
  ascii d /\ to_ascii A cfg d deny hy DIgnore = Ok (true, d).

(* ---- C12 ---- *)
Definition C12_statement : Prop := AdapterOK A -> PunyRT cfg -> forall d deny hy b a,
  bytes d -> valid_deny deny -> Known_C12 A cfg d deny hy = false -> Known_C11 A cfg d deny hy = false ->
  to_ascii A cfg d deny hy DIgnore = Ok (b, a) ->
  let u := ui_text (to_unicode A cfg d deny hy) in
  (* u_of_a *) (ui_text (to_unicode A cfg a deny hy) = u /\ ui_err (to_unicode A cfg a deny hy) = false) /\
  (* a_of_u *) (exists b', to_ascii A cfg (utf8_encode u) deny hy DIgnore = Ok (b', a)) /\
  (* u_idem *) (ui_text (to_unicode A cfg (utf8_encode u) deny hy) = u /\ ui_err (to_unicode A cfg (utf8_encode u) deny hy) = false) /\
  (* ui     *) (forall p, exists b', to_ascii A cfg (utf8_encode (ui_text (to_user_interface A cfg d deny hy p))) deny hy DIgnore = Ok (b', a)).
End Statements.

(* the three built-in deny lists contain the upper-case letters (used by the rediscovery lemma) *)
Definition DenyUpper (deny : N) : Prop := forall b, is_upper b = true -> deny_member deny b = true.
Lemma deny_upper_builtin : DenyUpper DENY_EMPTY /\ DenyUpper DENY_STD3 /\ DenyUpper DENY_URL.
Proof.
  assert (H : forall deny, all_below 128 (fun b => implb (is_upper b) (deny_member deny b)) = true -> DenyUpper deny).
  { intros deny Hs b Hb. pose proof (all_below_spec 128 _ Hs b) as Hx. cbv beta in Hx.
    assert (Hlt : b < 128) by (unfold is_upper in Hb; lia). specialize (Hx Hlt). rewrite Hb in Hx. exact Hx. }
  repeat split; apply H; vm_compute; reflexivity.
Qed.
