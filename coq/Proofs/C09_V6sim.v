(* Proofs/C09_V6sim.v - the IPv6 parser of the model equals the Standard's IPv6 parser on ALL inputs.

   A simulation between the suffix-consuming index/fuel loops of Model/Host.v (v6_main, read_hex, v6_v4,
   read_dec, v6_swaps) and the Standard's pointer machine of Spec/WhatwgHost.v (ipv6_main, hex_piece,
   ipv4_in_ipv6, ipv4_piece_digits, do_swaps), piece by piece.  The model reads the BYTES of the &str, the
   Standard the code points: the two inputs are related by `sim` (equal ASCII prefix; where one side has a
   code point above 127 the other has a byte above 127, after which nothing is assumed - both parsers fail
   when they reach such a position, and neither ever skips one).  Along the way every checked index of the
   model is shown in range, the u16 overflow check of the embedded IPv4 part (pieces[p] * 0x100 + v) is shown
   never to fire (pieces at and after piece_pointer are zero), the usize underflow checks of the swap loop
   likewise, and the fuel of every loop suffices. *)
From RU Require Import Base.Prelude Base.Utf8 Model.AsciiSet Gen.Tables Model.PercentEncoding Model.HostT Model.Host
  Spec.WhatwgHost Proofs.C09_V6 Proofs.C09_Wf Proofs.C09_V4spec Proofs.C09_V6spec.

(* ------------------------------------------------------------------ the relation between the two inputs *)

Inductive sim : list N -> list N -> Prop :=
| sim_nil : sim [] []
| sim_ascii c m x : c < 128 -> sim m x -> sim (c :: m) (c :: x)
| sim_bad b m c x : 128 <= b -> 128 <= c -> sim (b :: m) (c :: x).

Lemma sim_refl l : sim l l.
Proof.
  induction l as [|c l IH]; [constructor|].
  destruct (c <? 128) eqn:E; [apply sim_ascii; [lia|exact IH] | apply sim_bad; lia].
Qed.

Lemma sim_utf8 s : sim (utf8_encode s) s.
Proof.
  induction s as [|c s IH]; [constructor|].
  change (utf8_encode (c :: s)) with (utf8_encode1 c ++ utf8_encode s). unfold utf8_encode1.
  destruct (c <? 128) eqn:E1; [apply sim_ascii; [lia|exact IH]|].
  destruct (c <? 2048) eqn:E2; [apply sim_bad; lia|].
  destruct (c <? 65536) eqn:E3; apply sim_bad; lia.
Qed.

Lemma sim_nil_l x : sim [] x -> x = [].
Proof. intros H. inversion H. reflexivity. Qed.

Lemma sim_nil_r m : sim m [] -> m = [].
Proof. intros H. inversion H. reflexivity. Qed.

(* ------------------------------------------------------------------ the Standard's pointer as a suffix *)

Lemma at_skipn input : forall p, Spec.at_ input p = hd_error (skipn p input).
Proof.
  unfold Spec.at_. induction input as [|a l IH]; intros [|p]; cbn [nth_error skipn hd_error]; auto.
Qed.

Lemma skipn_S_tl (input : list N) : forall p, skipn (S p) input = tl (skipn p input).
Proof.
  induction input as [|a l IH]; intros [|p]; try reflexivity.
  change (skipn (S (S p)) (a :: l)) with (skipn (S p) l). rewrite IH. reflexivity.
Qed.

Lemma ptr_cons input p c x' : skipn p input = c :: x' ->
  Spec.at_ input p = Some c /\ skipn (S p) input = x' /\ (p < length input)%nat.
Proof.
  intros H. rewrite at_skipn, skipn_S_tl, H. repeat split.
  pose proof (skipn_length p input) as L. rewrite H in L. cbn [length] in L. lia.
Qed.

Lemma ptr_nil input p : skipn p input = [] -> Spec.at_ input p = None.
Proof. intros H. rewrite at_skipn, H. reflexivity. Qed.

Lemma hex_val_hi b : 128 <= b -> hex_val b = None.
Proof.
  intros H. unfold hex_val, is_digit.
  replace ((48 <=? b) && (b <=? 57)) with false by lia.
  replace ((65 <=? b) && (b <=? 70)) with false by lia.
  replace ((97 <=? b) && (b <=? 102)) with false by lia. reflexivity.
Qed.

Lemma spec_hex_hi c : 128 <= c -> Spec.ascii_hex_digit c = false.
Proof. intros H. unfold Spec.ascii_hex_digit, Spec.ascii_digit. lia. Qed.

(* ------------------------------------------------------------------ the hex piece *)

Lemma hex_sim k : forall m x input p v n l, sim m x -> skipn p input = x ->
  exists v1 d m1, read_hex k m v n = (v1, n + N.of_nat d, m1)
    /\ Spec.hex_piece k input p v l = (v1, (l + d)%nat, (p + d)%nat)
    /\ sim m1 (skipn (p + d) input) /\ (length m1 + d = length m)%nat.
Proof.
  induction k as [|k IH]; intros m x input p v n l Hs Hx.
  - exists v, 0%nat, m. cbn [read_hex Spec.hex_piece]. rewrite !Nat.add_0_r, Hx.
    repeat split; [f_equal; f_equal; lia | exact Hs].
  - cbn [read_hex Spec.hex_piece]. destruct Hs as [|c m x' Hc Hs|b m c x' Hb Hc].
    + exists v, 0%nat, []. rewrite (ptr_nil _ _ Hx). cbn [Spec.is_hex]. rewrite !Nat.add_0_r, Hx.
      repeat split; [f_equal; f_equal; lia | constructor].
    + destruct (ptr_cons _ _ _ _ Hx) as (Ha & Hn & _). rewrite Ha. cbn [Spec.is_hex Spec.cp_value].
      pose proof (spec_digit c) as SD. destruct (hex_val c) as [dv|].
      * destruct SD as [S1 S2]. rewrite S1, S2.
        destruct (IH m x' input (S p) (v * 16 + dv) (n + 1) (S l) Hs Hn) as (v1 & d & m1 & R1 & R2 & R3 & R4).
        exists v1, (S d), m1. rewrite R1, R2.
        replace (p + S d)%nat with (S p + d)%nat by lia. cbn [length].
        repeat split; [f_equal; f_equal; lia | f_equal; f_equal; lia | exact R3 | lia].
      * rewrite SD. exists v, 0%nat, (c :: m). rewrite !Nat.add_0_r, Hx.
        repeat split; [f_equal; f_equal; lia | apply sim_ascii; assumption].
    + destruct (ptr_cons _ _ _ _ Hx) as (Ha & Hn & _). rewrite Ha. cbn [Spec.is_hex].
      rewrite (hex_val_hi b Hb), (spec_hex_hi c Hc).
      exists v, 0%nat, (b :: m). rewrite !Nat.add_0_r, Hx.
      repeat split; [f_equal; f_equal; lia | apply sim_bad; assumption].
Qed.

(* ------------------------------------------------------------------ pieces: checked indexing against the Standard's list operations *)

Lemma set_at_upd ps : forall i v, (i < length ps)%nat -> firstn i ps ++ v :: skipn (S i) ps = upd_nth ps i v.
Proof.
  induction ps as [|a r IH]; intros [|i] v H; cbn [length] in H; try lia; cbn [firstn skipn app upd_nth]; [reflexivity|].
  f_equal. apply IH. lia.
Qed.

Lemma set_piece_spec ps i v : i < N.of_nat (length ps) -> set_piece ps i v = Some (Spec.set_at ps i v).
Proof. intros H. rewrite set_piece_ok by exact H. unfold Spec.set_at. rewrite set_at_upd by lia. reflexivity. Qed.

Lemma get_piece_spec ps i : i < N.of_nat (length ps) -> get_piece ps i = Some (Spec.get_at ps i).
Proof.
  intros H. unfold get_piece, Spec.get_at. apply nth_error_nth'. lia.
Qed.

Lemma set_at_length ps i v : i < N.of_nat (length ps) -> length (Spec.set_at ps i v) = length ps.
Proof. intros H. unfold Spec.set_at. rewrite set_at_upd by lia. apply upd_nth_length. Qed.

Lemma nth_upd_nth ps : forall i j v, (i < length ps)%nat ->
  nth j (upd_nth ps i v) 0 = if (j =? i)%nat then v else nth j ps 0.
Proof.
  induction ps as [|a r IH]; intros [|i] [|j] v H; cbn [length] in H; try lia; cbn [upd_nth nth Nat.eqb]; try reflexivity.
  apply IH. lia.
Qed.

Lemma get_set_at ps i j v : i < N.of_nat (length ps) ->
  Spec.get_at (Spec.set_at ps i v) j = if j =? i then v else Spec.get_at ps j.
Proof.
  intros H. unfold Spec.get_at, Spec.set_at. rewrite set_at_upd by lia. rewrite nth_upd_nth by lia.
  destruct (j =? i) eqn:E.
  - replace (N.to_nat j =? N.to_nat i)%nat with true by lia. reflexivity.
  - replace (N.to_nat j =? N.to_nat i)%nat with false by lia. reflexivity.
Qed.

(* ------------------------------------------------------------------ the final swaps *)

Lemma swap_pieces_spec ps i j : i < N.of_nat (length ps) -> j < N.of_nat (length ps) ->
  swap_pieces ps i j = Some (Spec.set_at (Spec.set_at ps i (Spec.get_at ps j)) j (Spec.get_at ps i)).
Proof.
  intros Hi Hj. unfold swap_pieces. rewrite (get_piece_spec ps i Hi), (get_piece_spec ps j Hj).
  rewrite (set_piece_spec ps i _ Hi). apply set_piece_spec. rewrite set_at_length by exact Hi. exact Hj.
Qed.

Lemma swaps_sim s : forall ps pp cp, length ps = 8%nat -> N.of_nat s <= pp -> pp < 8 -> cp + N.of_nat s <= 8 ->
  v6_swaps s ps pp cp = XOk (Spec.do_swaps s ps pp cp).
Proof.
  induction s as [|s IH]; intros ps pp cp Hl Hs Hp Hc; [reflexivity|].
  cbn [v6_swaps Spec.do_swaps].
  rewrite swap_pieces_spec by (rewrite Hl; lia).
  replace (pp =? 0) with false by lia.
  apply IH; [|lia|lia|lia].
  rewrite !set_at_length; rewrite ?set_at_length; rewrite ?Hl; try lia.
Qed.

Definition liftx {A} (o : option A) : xr A :=
  match o with Some a => XOk a | None => XErr InvalidIpv6Address end.

(* steps 7 and 8 of the Standard's parser on the state its main loop returns *)
Definition spec_fin (o : option (list N * N * option N)) : option (list N) :=
  match o with
  | None => None
  | Some (address, pieceIndex, compress) =>
      match compress with
      | Some compress => Some (Spec.do_swaps (N.to_nat (pieceIndex - compress)) address 7 compress)
      | None => if negb (pieceIndex =? 8) then None else Some address
      end
  end.

Definition cp_ok (cp : option N) (pp : N) : Prop :=
  match cp with Some c => 1 <= c /\ c <= pp | None => True end.

Lemma finish_sim ps pp cp : length ps = 8%nat -> pp <= 8 -> cp_ok cp pp ->
  v6_finish ps pp cp = liftx (spec_fin (Some (ps, pp, cp))).
Proof.
  intros Hl Hp Hc. unfold v6_finish, spec_fin. destruct cp as [c|]; cbn [cp_ok] in Hc.
  - replace (pp <? c) with false by lia. rewrite swaps_sim by lia. reflexivity.
  - destruct (pp =? 8); reflexivity.
Qed.

(* ------------------------------------------------------------------ the decimal digits of one embedded IPv4 number *)

Lemma is_digit_hi b : 128 <= b -> is_digit b = false.
Proof. unfold is_digit. lia. Qed.

Lemma digit_value_dec c : is_digit c = true -> Spec.digit_value c = c - 48.
Proof. intros H. unfold Spec.digit_value. change (Spec.ascii_digit c) with (is_digit c). rewrite H. reflexivity. Qed.

Lemma dec_sim m x : sim m x -> forall input p piece fuel, skipn p input = x -> (length input - p <= fuel)%nat ->
  match read_dec m piece with
  | None => Spec.ipv4_piece_digits fuel input p piece = None
  | Some (piece', m1) =>
      exists d, Spec.ipv4_piece_digits fuel input p piece = Some (piece', (p + d)%nat)
        /\ sim m1 (skipn (p + d) input) /\ (length m1 + d = length m)%nat /\ (d = 0%nat -> piece' = piece)
  end.
Proof.
  induction 1 as [|c m x' Hc Hs IH|b m c x' Hb Hc]; intros input p piece fuel Hx Hf.
  - cbn [read_dec]. exists 0%nat. rewrite Nat.add_0_r, Hx. split; [|split; [constructor|split; [lia|reflexivity]]].
    destruct fuel as [|fuel]; cbn [Spec.ipv4_piece_digits]; [reflexivity|]. rewrite (ptr_nil _ _ Hx). reflexivity.
  - destruct (ptr_cons _ _ _ _ Hx) as (Ha & Hn & Hp).
    destruct fuel as [|fuel]; [lia|]. cbn [read_dec Spec.ipv4_piece_digits]. rewrite Ha.
    cbn [Spec.is_dig Spec.cp_value]. change (Spec.ascii_digit c) with (is_digit c).
    destruct (is_digit c) eqn:Ed.
    + rewrite (digit_value_dec c Ed).
      assert (Hf' : (length input - S p <= fuel)%nat) by lia.
      destruct piece as [[|q]|].
      * change (0 =? 0) with true. cbv iota. reflexivity.
      * change (N.pos q =? 0) with false. cbv iota.
        destruct (255 <? N.pos q * 10 + (c - 48)); [reflexivity|].
        specialize (IH input (S p) (Some (N.pos q * 10 + (c - 48))) fuel Hn Hf').
        destruct (read_dec m (Some (N.pos q * 10 + (c - 48)))) as [[piece' m1]|]; [|exact IH].
        destruct IH as (d & I1 & I2 & I3 & _). exists (S d).
        replace (p + S d)%nat with (S p + d)%nat by lia. cbn [length].
        repeat split; [exact I1|exact I2|lia|lia].
      * specialize (IH input (S p) (Some (c - 48)) fuel Hn Hf').
        destruct (read_dec m (Some (c - 48))) as [[piece' m1]|]; [|exact IH].
        destruct IH as (d & I1 & I2 & I3 & _). exists (S d).
        replace (p + S d)%nat with (S p + d)%nat by lia. cbn [length].
        repeat split; [exact I1|exact I2|lia|lia].
    + exists 0%nat. rewrite Nat.add_0_r, Hx. split; [reflexivity|]. split; [apply sim_ascii; assumption|]. split; [lia|reflexivity].
  - destruct (ptr_cons _ _ _ _ Hx) as (Ha & Hn & Hp).
    destruct fuel as [|fuel]; [lia|]. cbn [read_dec Spec.ipv4_piece_digits]. rewrite Ha.
    cbn [Spec.is_dig]. change (Spec.ascii_digit c) with (is_digit c).
    rewrite (is_digit_hi b Hb), (is_digit_hi c Hc).
    exists 0%nat. rewrite Nat.add_0_r, Hx. split; [reflexivity|]. split; [apply sim_bad; assumption|]. split; [lia|reflexivity].
Qed.

Lemma read_dec_bound m : forall piece v rest, read_dec m piece = Some (Some v, rest) ->
  (forall pv, piece = Some pv -> pv <= 255) -> v <= 255.
Proof.
  induction m as [|c m IH]; intros piece v rest H Hp; cbn [read_dec] in H.
  - inversion H; subst. apply Hp. reflexivity.
  - destruct (is_digit c) eqn:Ed.
    + destruct piece as [[|q]|]; [discriminate| |].
      * destruct (255 <? N.pos q * 10 + (c - 48)) eqn:E; [discriminate|].
        eapply IH; [exact H|]. intros pv Hpv. inversion Hpv; subst. lia.
      * eapply IH; [exact H|]. intros pv Hpv. inversion Hpv; subst. unfold is_digit in Ed. lia.
    + inversion H; subst. apply Hp. reflexivity.
Qed.

Lemma precheck fuel input p : Spec.is_dig (Spec.at_ input p) = false ->
  Spec.ipv4_piece_digits fuel input p None = Some (None, p).
Proof. intros H. destruct fuel; cbn [Spec.ipv4_piece_digits]; [reflexivity|]. rewrite H. reflexivity. Qed.

Lemma sim_cons_inv b m' x : sim (b :: m') x ->
  exists c x', x = c :: x' /\ ((b < 128 /\ c = b /\ sim m' x') \/ (128 <= b /\ 128 <= c)).
Proof.
  intros H. inversion H; subst.
  - exists b, x0. split; [reflexivity|]. left. auto.
  - exists c, x0. split; [reflexivity|]. right. auto.
Qed.

(* ------------------------------------------------------------------ the embedded IPv4 part *)

Definition inv4 (ps : list N) (pp seen : N) : Prop :=
  length ps = 8%nat /\ seen <= 4 /\ pp <= 6 + seen / 2
  /\ (forall j, pp < j -> Spec.get_at ps j = 0)
  /\ Spec.get_at ps pp <= (if (seen =? 1) || (seen =? 3) then 255 else 0).

Definition v4_rel (r : xr (list N * N * N)) (o : option (list N * N * N)) (pp : N) : Prop :=
  match r with
  | XOk (ps', pp', seen') =>
      o = Some (ps', pp', seen') /\ length ps' = 8%nat /\ pp <= pp' /\ pp' <= 6 + seen' / 2 /\ seen' <= 4
  | XErr InvalidIpv6Address => o = None
  | _ => False
  end.

Lemma v4_rel_weaken r o pp pp1 : pp <= pp1 -> v4_rel r o pp1 -> v4_rel r o pp.
Proof.
  intros H. destruct r as [[[ps' pp'] seen']|e| |]; cbn [v4_rel]; auto.
  intros (R1 & R2 & R3 & R4). repeat split; try assumption; lia.
Qed.

Lemma inv4_step ps pp seen v : inv4 ps pp seen -> seen < 4 -> v <= 255 ->
  inv4 (Spec.set_at ps pp (Spec.get_at ps pp * 256 + v))
       (if (seen + 1 =? 2) || (seen + 1 =? 4) then pp + 1 else pp) (seen + 1).
Proof.
  intros (Hl & H4 & Hpp & Hz & Ho) Hs Hv.
  assert (Hi : pp < N.of_nat (length ps)) by (rewrite Hl; lia).
  assert (Hc : seen = 0 \/ seen = 1 \/ seen = 2 \/ seen = 3) by lia.
  unfold inv4. rewrite set_at_length by exact Hi. split; [exact Hl|]. split; [lia|].
  destruct Hc as [-> | [-> | [-> | ->]]]; vm_compute (_ || _); cbv iota; vm_compute (_ || _) in Ho; cbv iota in Ho.
  - split; [vm_compute (_ / 2) in *; lia|]. split.
    + intros j Hj. rewrite get_set_at by exact Hi. replace (j =? pp) with false by lia. apply Hz. exact Hj.
    + rewrite get_set_at by exact Hi. rewrite N.eqb_refl. lia.
  - split; [vm_compute (_ / 2) in *; lia|]. split.
    + intros j Hj. rewrite get_set_at by exact Hi. replace (j =? pp) with false by lia. apply Hz. lia.
    + rewrite get_set_at by exact Hi. replace (pp + 1 =? pp) with false by lia. rewrite Hz by lia. lia.
  - split; [vm_compute (_ / 2) in *; lia|]. split.
    + intros j Hj. rewrite get_set_at by exact Hi. replace (j =? pp) with false by lia. apply Hz. exact Hj.
    + rewrite get_set_at by exact Hi. rewrite N.eqb_refl. lia.
  - split; [vm_compute (_ / 2) in *; lia|]. split.
    + intros j Hj. rewrite get_set_at by exact Hi. replace (j =? pp) with false by lia. apply Hz. lia.
    + rewrite get_set_at by exact Hi. replace (pp + 1 =? pp) with false by lia. rewrite Hz by lia. lia.
Qed.

Lemma v4_sim f : forall g m x input p ps pp seen, sim m x -> skipn p input = x ->
  (length m <= f)%nat -> (length input - p < g)%nat -> inv4 ps pp seen ->
  v4_rel (v6_v4 f m ps pp seen) (Spec.ipv4_in_ipv6 g input p ps pp seen) pp.
Proof.
  induction f as [|f IH]; intros g m x input p ps pp seen Hs Hx Hf Hg Hi; (destruct g as [|g]; [lia|]).
  - destruct m as [|b m']; [|cbn [length] in Hf; lia]. apply sim_nil_l in Hs. subst x.
    cbn [v6_v4 Spec.ipv4_in_ipv6 v4_rel]. rewrite (ptr_nil _ _ Hx).
    destruct Hi as (Hl & H4 & Hpp & _). repeat split; try assumption; lia.
  - destruct m as [|b m'].
    { apply sim_nil_l in Hs. subst x.
      cbn [v6_v4 Spec.ipv4_in_ipv6 v4_rel]. rewrite (ptr_nil _ _ Hx).
      destruct Hi as (Hl & H4 & Hpp & _). repeat split; try assumption; lia. }
    destruct (sim_cons_inv _ _ _ Hs) as (c & x' & -> & D).
    destruct (ptr_cons _ _ _ _ Hx) as (Ha & Hn & Hp).
    cbn [v6_v4 Spec.ipv4_in_ipv6]. rewrite Ha. cbn [Spec.is_cp]. cbn [length] in Hf.
    set (after_sep := if 0 <? seen then if (seen <? 4) && (b =? 46) then Some m' else None else Some (b :: m')).
    set (pointer_o := if 0 <? seen then if (c =? 46) && (seen <? 4) then Some (S p) else None else Some p).
    assert (SEP : (after_sep = None /\ pointer_o = None)
                  \/ exists inp1 p1, after_sep = Some inp1 /\ pointer_o = Some p1 /\ sim inp1 (skipn p1 input)
                       /\ (p <= p1)%nat /\ (length inp1 <= S (length m'))%nat /\ seen < 4).
    { subst after_sep pointer_o. destruct (0 <? seen) eqn:E0.
      - destruct (seen <? 4) eqn:E4; [|rewrite andb_false_r; left; split; reflexivity].
        rewrite andb_true_r. cbn [andb].
        destruct D as [(Hb & -> & Hs')|(Hb & Hc)].
        + destruct (b =? 46) eqn:E; [right|left; split; reflexivity].
          exists m', (S p). rewrite Hn. repeat split; try assumption; lia.
        + replace (b =? 46) with false by lia. replace (c =? 46) with false by lia. left. split; reflexivity.
      - right. exists (b :: m'), p. rewrite Hx. cbn [length]. repeat split; try assumption; lia. }
    destruct SEP as [[E1 E2]|(inp1 & p1 & E1 & E2 & S1 & Hp1 & Hl1 & Hs4)]; rewrite E1, E2.
    { reflexivity. }
    clear E1 E2 after_sep pointer_o.
    assert (Hfuel : (length input - p1 <= length input)%nat) by lia.
    pose proof (dec_sim inp1 _ S1 input p1 None (length input) eq_refl Hfuel) as DS.
    destruct (read_dec inp1 None) as [[[v|] rest]|] eqn:RD.
    + destruct DS as (d & D1 & D2 & D3 & D4).
      assert (Hd : d <> 0%nat) by (intros Z; specialize (D4 Z); discriminate).
      destruct (Spec.is_dig (Spec.at_ input p1)) eqn:Edig;
        [|rewrite (precheck _ _ _ Edig) in D1; discriminate].
      cbn [negb]. rewrite D1.
      pose proof Hi as (Hl & H4 & Hpp & Hz & Ho).
      assert (Hpi : pp < N.of_nat (length ps)) by (rewrite Hl; lia).
      rewrite (get_piece_spec ps pp Hpi).
      assert (Hv : v <= 255).
      { eapply read_dec_bound; [exact RD|]. intros pv Hpv. discriminate. }
      assert (Hold : Spec.get_at ps pp <= 255) by (destruct ((seen =? 1) || (seen =? 3)); lia).
      replace (U16_MAX <? Spec.get_at ps pp * 256 + v) with false by (unfold U16_MAX; lia).
      rewrite (set_piece_spec ps pp _ Hpi).
      eapply v4_rel_weaken; [|apply (IH g rest (skipn (p1 + d) input) input (p1 + d)%nat); [exact D2|reflexivity|lia|lia|]].
      * destruct ((seen + 1 =? 2) || (seen + 1 =? 4)); lia.
      * apply inv4_step; assumption.
    + cbn [v4_rel]. destruct (Spec.is_dig (Spec.at_ input p1)); cbn [negb]; [|reflexivity].
      destruct DS as (d & D1 & _). rewrite D1. reflexivity.
    + cbn [v4_rel]. destruct (Spec.is_dig (Spec.at_ input p1)); cbn [negb]; [|reflexivity].
      rewrite DS. reflexivity.
Qed.

(* ------------------------------------------------------------------ the main loop *)

Definition inv (ps : list N) (pp : N) (cp : option N) : Prop :=
  length ps = 8%nat /\ pp <= 8 /\ (forall j, pp <= j -> Spec.get_at ps j = 0) /\ cp_ok cp pp.

Lemma cp_ok_mono cp pp pp' : cp_ok cp pp -> pp <= pp' -> cp_ok cp pp'.
Proof. destruct cp as [c|]; cbn [cp_ok]; lia. Qed.

Lemma inv_set ps pp cp v : inv ps pp cp -> pp <> 8 -> inv (Spec.set_at ps pp v) (pp + 1) cp.
Proof.
  intros (Hl & Hp & Hz & Hc) H8. assert (Hi : pp < N.of_nat (length ps)) by (rewrite Hl; lia).
  unfold inv. rewrite set_at_length by exact Hi. repeat split; [exact Hl|lia| |eapply cp_ok_mono; [exact Hc|lia]].
  intros j Hj. rewrite get_set_at by exact Hi. replace (j =? pp) with false by lia. apply Hz. lia.
Qed.

Lemma inv_colon ps pp : inv ps pp None -> pp <> 8 -> inv ps (pp + 1) (Some (pp + 1)).
Proof.
  intros (Hl & Hp & Hz & _) H8. repeat split; [exact Hl|lia| |lia|lia]. intros j Hj. apply Hz. lia.
Qed.

Lemma inv_inv4 ps pp cp : inv ps pp cp -> pp <= 6 -> inv4 ps pp 0.
Proof.
  intros (Hl & Hp & Hz & _) H6. repeat split; [exact Hl|lia|vm_compute (0 / 2); lia| |].
  - intros j Hj. apply Hz. lia.
  - rewrite Hz by lia. vm_compute. discriminate.
Qed.

Lemma main_sim f : forall g m x input p ps pp cp, sim m x -> skipn p input = x ->
  (length m <= f)%nat -> (length input - p < g)%nat -> inv ps pp cp ->
  xr_bind (v6_main f m ps pp cp) v6_tail = liftx (spec_fin (Spec.ipv6_main g input p ps pp cp)).
Proof.
  induction f as [|f IH]; intros g m x input p ps pp cp Hs Hx Hf Hg Hi; (destruct g as [|g]; [lia|]).
  - destruct m as [|b m']; [|cbn [length] in Hf; lia]. apply sim_nil_l in Hs. subst x.
    rewrite v6_main_nil. cbn [xr_bind v6_tail Spec.ipv6_main]. rewrite (ptr_nil _ _ Hx).
    destruct Hi as (Hl & Hp & _ & Hc). apply finish_sim; assumption.
  - destruct m as [|b m'].
    { apply sim_nil_l in Hs. subst x.
      rewrite v6_main_nil. cbn [xr_bind v6_tail Spec.ipv6_main]. rewrite (ptr_nil _ _ Hx).
      destruct Hi as (Hl & Hp & _ & Hc). apply finish_sim; assumption. }
    destruct (sim_cons_inv _ _ _ Hs) as (c & x' & -> & D).
    destruct (ptr_cons _ _ _ _ Hx) as (Ha & Hn & Hp).
    rewrite v6_main_step. cbn [Spec.ipv6_main]. rewrite Ha. cbn [length] in Hf.
    pose proof Hi as (Hl & Hp8 & Hz & Hcp).
    destruct (pp =? 8) eqn:E8; [reflexivity|].
    assert (Hpi : pp < N.of_nat (length ps)) by (rewrite Hl; lia).
    assert (E58 : (c =? 58) = (b =? 58)) by (destruct D as [(? & -> & ?)|(? & ?)]; lia).
    rewrite E58. destruct (b =? 58) eqn:Eb.
    { destruct cp as [cpv|]; [reflexivity|].
      destruct D as [(Hb & -> & Hs')|(Hb & Hc)]; [|lia].
      apply (IH g m' x' input (S p)); [exact Hs'|exact Hn|lia|lia|]. apply inv_colon; [exact Hi|lia]. }
    destruct (hex_sim 4 _ _ input p 0 0 0%nat Hs Hx) as (v1 & d & m1 & R1 & R2 & R3 & R4).
    rewrite R1, R2. cbv beta iota. cbn [length] in R4.
    remember (skipn (p + d) input) as x1 eqn:Ex1. symmetry in Ex1.
    pose proof (skipn_length (p + d) input) as L1. rewrite Ex1 in L1.
    destruct R3 as [|c1 m1' x1' Hc1 Hs1|b1 m1' c1 x1' Hb1 Hc1].
    + rewrite (ptr_nil _ _ Ex1). cbn [Spec.is_cp]. rewrite (set_piece_spec ps pp v1 Hpi).
      cbn [length] in L1.
      apply (IH g [] [] input (p + d)%nat); [constructor|exact Ex1|cbn [length]; lia|lia|].
      apply inv_set; [exact Hi|lia].
    + destruct (ptr_cons _ _ _ _ Ex1) as (Ha1 & Hn1 & Hp1). rewrite Ha1. cbn [Spec.is_cp]. cbn [length] in R4.
      destruct (c1 =? 46) eqn:E46.
      * destruct d as [|d'].
        { replace (0 + N.of_nat 0 =? 0) with true by lia. reflexivity. }
        replace (0 + N.of_nat (S d') =? 0) with false by lia. change ((0 + S d' =? 0)%nat) with false. cbv iota.
        destruct (6 <? pp) eqn:E6; [reflexivity|].
        cbn [xr_bind v6_tail]. rewrite E6.
        replace (p + S d' - (0 + S d'))%nat with p by lia.
        assert (Hg4 : (length input - p < S (length input))%nat) by lia.
        assert (Hi4 : inv4 ps pp 0) by (eapply inv_inv4; [exact Hi|lia]).
        pose proof (v4_sim (length (b :: m')) (S (length input)) (b :: m') _ input p ps pp 0 Hs Hx (le_n _) Hg4 Hi4) as V.
        destruct (v6_v4 (length (b :: m')) (b :: m') ps pp 0) as [[[ps' pp'] seen']|e| |]; cbn [v4_rel] in V.
        -- destruct V as (V1 & V2 & V3 & V4 & V5). rewrite V1. cbn [xr_bind].
           destruct (negb (seen' =? 4)); [reflexivity|].
           apply finish_sim; [exact V2|lia|eapply cp_ok_mono; [exact Hcp|exact V3]].
        -- destruct e; try contradiction. rewrite V. reflexivity.
        -- contradiction.
        -- contradiction.
      * destruct (c1 =? 58) eqn:E58'; [|reflexivity].
        destruct m1' as [|b2 m2].
        { apply sim_nil_l in Hs1. subst x1'. rewrite (ptr_nil _ _ Hn1). reflexivity. }
        destruct (sim_cons_inv _ _ _ Hs1) as (c2 & x2 & Ex2 & _).
        rewrite Ex2 in Hn1. destruct (ptr_cons _ _ _ _ Hn1) as (Ha2 & _ & Hp2). rewrite Ha2.
        rewrite (set_piece_spec ps pp v1 Hpi). rewrite <- Ex2 in Hn1.
        apply (IH g (b2 :: m2) x1' input (S (p + d))); [exact Hs1|exact Hn1|lia|lia|].
        apply inv_set; [exact Hi|lia].
    + destruct (ptr_cons _ _ _ _ Ex1) as (Ha1 & Hn1 & Hp1). rewrite Ha1. cbn [Spec.is_cp].
      replace (b1 =? 46) with false by lia. replace (b1 =? 58) with false by lia.
      replace (c1 =? 46) with false by lia. replace (c1 =? 58) with false by lia. reflexivity.
Qed.

(* ------------------------------------------------------------------ the whole parser *)

Lemma zero_get j : Spec.get_at v6_zero j = 0.
Proof.
  unfold Spec.get_at, v6_zero. generalize (N.to_nat j). intros n.
  do 8 (destruct n as [|n]; [reflexivity|]). destruct n; reflexivity.
Qed.

Lemma inv_zero0 : inv v6_zero 0 None.
Proof. repeat split; [lia|]. intros j _. apply zero_get. Qed.

Lemma inv_zero1 : inv v6_zero 1 (Some 1).
Proof. repeat split; try lia. intros j _. apply zero_get. Qed.

Lemma ipv6_parse_fin input :
  Spec.ipv6_parse input =
  match (if Spec.is_cp (Spec.at_ input 0) 58 then
           if negb (Spec.is_cp (Spec.at_ input 1) 58) then None else Some (2%nat, 1, Some 1)
         else Some (0%nat, 0, None)) with
  | None => None
  | Some (p, pi, c) => spec_fin (Spec.ipv6_main (S (length input)) input p v6_zero pi c)
  end.
Proof. reflexivity. Qed.

(* inputs shorter than two bytes: the explicit length check agrees with running the loop *)
Lemma short_loop m : (length m < 2)%nat -> starts_with 58 m = false ->
  xr_bind (v6_main (length m) m v6_zero 0 None) v6_tail = XErr InvalidIpv6Address.
Proof.
  intros Hl Hc. destruct m as [|b [|b' m']]; [| |cbn [length] in Hl; lia].
  - rewrite v6_main_nil. reflexivity.
  - cbn [starts_with] in Hc. cbn [length]. rewrite v6_main_step.
    change (0 =? 8) with false. rewrite Hc. cbv iota. cbn [read_hex].
    destruct (hex_val b) as [dv|].
    + cbv beta iota. unfold set_piece. cbn [length v6_zero]. change (0 <? N.of_nat 8) with true. cbv iota.
      rewrite v6_main_nil. reflexivity.
    + cbv beta iota. destruct (b =? 46); [reflexivity|]. rewrite Hc. reflexivity.
Qed.

Lemma parse_nocolon c0 m0 : (c0 =? 58) = false ->
  parse_ipv6addr (c0 :: m0) = xr_bind (v6_main (length (c0 :: m0)) (c0 :: m0) v6_zero 0 None) v6_tail.
Proof.
  intros H. destruct m0 as [|c1 r2].
  - symmetry. apply short_loop; [cbn [length]; lia|exact H].
  - unfold parse_ipv6addr. rewrite H. reflexivity.
Qed.

Theorem parse_ipv6addr_sim m x : sim m x -> parse_ipv6addr m = lift6 (Spec.ipv6_parse x).
Proof.
  intros Hs. change (@lift6) with (@liftx (list N)). rewrite ipv6_parse_fin.
  destruct m as [|c0 m0].
  { apply sim_nil_l in Hs. subst x. reflexivity. }
  destruct (sim_cons_inv _ _ _ Hs) as (c & x' & -> & D).
  change (Spec.at_ (c :: x') 0) with (Some c). change (Spec.at_ (c :: x') 1) with (hd_error x'). cbn [Spec.is_cp].
  assert (E58 : (c =? 58) = (c0 =? 58)) by (destruct D as [(? & -> & ?)|(? & ?)]; lia).
  rewrite E58. destruct (c0 =? 58) eqn:E0.
  - destruct D as [(Hb & -> & Hs')|(Hb & Hc)]; [|lia].
    destruct m0 as [|c1 r2].
    { apply sim_nil_l in Hs'. subst x'. reflexivity. }
    destruct (sim_cons_inv _ _ _ Hs') as (c1' & x2 & -> & D').
    cbn [hd_error Spec.is_cp]. unfold parse_ipv6addr. rewrite E0.
    assert (E58' : (c1' =? 58) = (c1 =? 58)) by (destruct D' as [(? & -> & ?)|(? & ?)]; lia).
    rewrite E58'. destruct (c1 =? 58) eqn:E1; [|reflexivity]. cbn [negb].
    destruct D' as [(Hb1 & -> & Hs2)|(Hb1 & Hc1)]; [|lia].
    apply (main_sim (length r2) (S (length (c0 :: c1 :: x2))) r2 x2 (c0 :: c1 :: x2) 2%nat);
      [exact Hs2|reflexivity|lia|cbn [length]; lia|exact inv_zero1].
  - rewrite (parse_nocolon c0 m0 E0).
    apply (main_sim (length (c0 :: m0)) (S (length (c :: x'))) (c0 :: m0) (c :: x') (c :: x') 0%nat);
      [exact Hs|reflexivity|lia|lia|exact inv_zero0].
Qed.

(* the second conjunct of C09_ipv6_spec_statement, without the scalar-value hypothesis *)
Theorem ipv6_parse_spec_str s : parse_ipv6addr (utf8_encode s) = lift6 (Spec.ipv6_parse s).
Proof. apply parse_ipv6addr_sim. apply sim_utf8. Qed.

(* the same for the function on arbitrary byte lists (code points above 127 fail like bytes above 127) *)
Theorem ipv6_parse_spec_bytes l : parse_ipv6addr l = lift6 (Spec.ipv6_parse l).
Proof. apply parse_ipv6addr_sim. apply sim_refl. Qed.

Theorem ipv6_parse_spec_full : ipv6_parse_spec_statement.
Proof. intros s _. apply ipv6_parse_spec_str. Qed.

