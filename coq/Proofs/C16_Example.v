(* Proofs/C16_Example.v - the origin model run inside Coq on concrete URLs, with stand-in host
   functions (a domain is kept as it is; no IDNA, no IP forms).  Used by the non-vacuity Example. *)
From RU Require Import Base.Prelude Base.Utf8 Gen.Tables Model.HostT Model.UrlRecord Model.Parser Model.Origin
  Proofs.C16_Conc Proofs.C16_Origin.

Definition toy_host_parse (s : list N) : result host :=
  match s with [] => Err EmptyHost | _ => Ok (HDomain s) end.
Definition toy_host_display (h : host) : list N :=
  match h with HDomain d => d | _ => [] end.
Definition toy_to_unicode (d : list N) : list N := d.

Definition toy_parse (s : list N) : pres url := url_parse true toy_host_parse toy_host_parse toy_host_display s.
Definition toy_origin (c : N) (u : url) : ores := url_origin true toy_host_parse toy_host_parse toy_host_display c u.

(* the origin of the URL a text parses to, starting with counter c *)
Definition origin_of_text (c : N) (s : list N) : option ores :=
  match toy_parse s with POk u => Some (toy_origin c u) | _ => None end.

(* the round trip of the property on one text: parse, take the origin, serialize it, parse again,
   take the origin again *)
Definition rt_of_text (s : list N) : option (origin * list N * option ores) :=
  match origin_of_text 0 s with
  | Some (OOk o c) => Some (o, ascii_serialization toy_host_display o, origin_of_text c (ascii_serialization toy_host_display o))
  | _ => None
  end.

Definition t_https_example_8443_x : list N :=
  [104; 116; 116; 112; 115; 58; 47; 47; 101; 120; 97; 109; 112; 108; 101; 46; 99; 111; 109; 58; 56; 52; 52; 51; 47; 120].
Definition t_https_example_8443 : list N :=
  [104; 116; 116; 112; 115; 58; 47; 47; 101; 120; 97; 109; 112; 108; 101; 46; 99; 111; 109; 58; 56; 52; 52; 51].
Definition t_example_com : list N := [101; 120; 97; 109; 112; 108; 101; 46; 99; 111; 109].
Definition t_blob_blob_https_h_443_x : list N :=
  [98; 108; 111; 98; 58; 98; 108; 111; 98; 58; 104; 116; 116; 112; 115; 58; 47; 47; 104; 58; 52; 52; 51; 47; 120].
Definition t_https_h : list N := [104; 116; 116; 112; 115; 58; 47; 47; 104].
Definition t_data_x : list N := [100; 97; 116; 97; 58; 120].
Definition t_blob_garbage : list N := [98; 108; 111; 98; 58; 103; 97; 114; 98; 97; 103; 101].
Definition t_file_tmp_x : list N := [102; 105; 108; 101; 58; 47; 47; 47; 116; 109; 112; 47; 120].
Definition t_http_h_80 : list N := [104; 116; 116; 112; 58; 47; 47; 104; 58; 56; 48; 47].
Definition t_ws_h : list N := [119; 115; 58; 47; 47; 104; 47].
(* blob:blob:/ followed by three double quotes - the inner serialization blob:/%22%22%22 is LONGER than
   the text it was parsed from *)
Definition t_blob_blob_quotes : list N := [98; 108; 111; 98; 58; 98; 108; 111; 98; 58; 47; 34; 34; 34].

Lemma examples :
  (* a tuple origin with a non-default port, and its round trip *)
  rt_of_text t_https_example_8443_x
  = Some (Tuple s_https (HDomain t_example_com) 8443, t_https_example_8443,
          Some (OOk (Tuple s_https (HDomain t_example_com) 8443) 0))
  (* two levels of blob nesting, default port elided in the serialization, round trip *)
  /\ rt_of_text t_blob_blob_https_h_443_x
     = Some (Tuple s_https (HDomain [104]) 443, t_https_h, Some (OOk (Tuple s_https (HDomain [104]) 443) 0))
  (* opaque kinds: data:, unparsable blob, file - each takes the next identity *)
  /\ origin_of_text 5 t_data_x = Some (OOk (Opaque 5) 6)
  /\ origin_of_text 6 t_blob_garbage = Some (OOk (Opaque 6) 7)
  /\ origin_of_text 7 t_file_tmp_x = Some (OOk (Opaque 7) 8)
  /\ origin_of_text 0 t_blob_blob_quotes = Some (OOk (Opaque 0) 1)
  (* http://h:80/ and ws://h/ have the same host and effective port but different schemes *)
  /\ origin_of_text 0 t_http_h_80 = Some (OOk (Tuple s_http (HDomain [104]) 80) 0)
  /\ origin_of_text 0 t_ws_h = Some (OOk (Tuple s_ws (HDomain [104]) 80) 0)
  /\ origin_eqb (Tuple s_http (HDomain [104]) 80) (Tuple s_ws (HDomain [104]) 80) = false.
Proof. vm_compute. repeat split. Qed.
