(* Proofs/C02_ReachPartial.v - C02_statement restricted to the histories built from
     Url::parse without base on a non-file scheme (special schemes: without encoding override)
     followed by any number of set_fragment / set_query / set_port calls with arbitrary arguments and of joins
   with a scheme-less reference that is empty, fragment-only or query-led (tail_ref):
   every such record is Canon, hence a fixpoint of re-parsing; and these histories are inside Reachable2. *)
From Coq Require Import String.
From RU Require Import Base.Prelude Base.Utf8 Base.Utf8Facts Model.AsciiSet Gen.Tables
  Model.PercentEncoding Model.HostT Model.UrlRecord Model.Parser Model.Setters Model.WF
  Proofs.ListN Proofs.C02_Enc Proofs.C02_Parts Proofs.C02_Opaque Proofs.C02_Path Proofs.C02_PathL1 Proofs.C02_Reach
  Proofs.C02_AuthParts Proofs.C02_Auth Proofs.C02_AuthWf Proofs.C02_PathSp Proofs.C02_AuthSp Proofs.C02_AuthMain
  Proofs.C02_Hist Proofs.C02_SetQF Proofs.C02_Canon Proofs.C02_SetPort Proofs.C02_JoinTail.
Open Scope N_scope.
Open Scope list_scope.

Definition tail_op (o : op) : bool :=
  match o with OSetFragment _ | OSetQuery _ | OSetPort _ => true | _ => false end.

Lemma tail_op_not_known dbg hp hpo hd u o : tail_op o = true -> known_step2 dbg hp hpo hd u o = false.
Proof.
  destruct o; try discriminate; intros _; unfold known_step2, known_step, Known_F_C03_5, Known_F_C02_3, Known_F_C02_2,
    Known_F_C02_8, Known_F_C02_4, Known_F_C02_9; cbn [is_host_or_path_op]; rewrite ?andb_false_r; reflexivity.
Qed.

Section ReachC.
Variable dbg : bool.
Variable hp hpo : list N -> result host.
Variable hd : host -> list N.
Hypothesis HOK : HostOK2 hp hpo hd.

Let HRT : HostRT hp hpo hd := proj1 HOK.
Let HAb : host_above hp hpo hd := proj1 (proj2 HOK).

(* the length premise of a step: the new serialization fits the u32 offsets (a longer one makes the Rust
   setter panic in to_u32(..).unwrap() - no Url value results - which the model of the setters does not show) *)
Inductive ReachC : url -> Prop :=
| RC_parse ovr input u :
    usv_list input -> nonfile_input input = true -> (ovr = None \/ special_input input = false) ->
    parse_url dbg hp hpo hd ovr None input = POk u -> ReachC u
| RC_join ovr b input u :
    ReachC b -> usv_list input -> tail_ref input = true ->
    (ovr = None \/ st_is_special (scheme_type_of (b_scheme b)) = false) ->
    parse_url dbg hp hpo hd ovr (Some b) input = POk u -> ReachC u
| RC_step u o u' :
    ReachC u -> tail_op o = true -> op_args_ok o -> apply_op dbg hp hpo hd u o = Some u' ->
    nlen (ser u') <= U32_MAX_P -> ReachC u'.

Lemma option_map_fst_some {A B} (x : option (A * B)) a : option_map fst x = Some a -> exists b, x = Some (a, b).
Proof. destruct x as [[a0 b0]|]; [|discriminate]. cbn. intros E. inversion E; subst. exists b0. reflexivity. Qed.

Theorem ReachC_Canon u : ReachC u -> Canon hp hpo hd u.
Proof.
  induction 1 as [ovr input u Hu Hn Hov Hp | ovr b input u Hr IH Hu Ht Hov Hp | u o u' Hr IH Ht Ha Ho Hb].
  - exact (parse_Canon dbg hp hpo hd HRT ovr input u HAb Hu Hn Hov Hp).
  - exact (join_tail_Canon dbg hp hpo hd HRT ovr b input u IH Hu Ht Hov Hp).
  - destruct o; try discriminate Ht; cbn [apply_op op_args_ok] in *.
    + exact (set_fragment_Canon dbg hp hpo hd HRT u f u' IH Ha Ho Hb).
    + exact (set_query_Canon dbg hp hpo hd HRT u q u' IH Ha Ho Hb).
    + destruct (option_map_fst_some _ _ Ho) as [s Es].
      exact (set_port_Canon dbg hp hpo hd u p u' s IH Ha Es Hb).
Qed.

Theorem reach_partial u : ReachC u ->
  Fixpoint_of_reparse dbg hp hpo hd u /\ wf_b u = true /\ ascii (ser u).
Proof. intros H. exact (Canon_fixpoint dbg hp hpo hd HRT u (ReachC_Canon u H)). Qed.

(* ---------- the restricted histories are histories of C02_statement ---------- *)
Lemma Canon_scheme_of u : Canon hp hpo hd u -> exists sch, scheme_of u = sch /\ st_is_file (scheme_type_of sch) = false.
Proof.
  intros [sch P q f K | sch segs last q f K | sch ui h pt p q f K | sch ui h pt p q f K Kp]; exists sch; unfold scheme_of.
  - cbn [opaque_url scheme_end ser]. unfold opaque_ser, opaque_pre. rewrite <- !app_assoc.
    split; [apply nfirstn_app_len | rewrite (ok_ns _ _ _ _ K); reflexivity].
  - cbn [noauth_url scheme_end ser]. unfold noauth_ser, noauth_pre. rewrite <- !app_assoc.
    split; [apply nfirstn_app_len | rewrite (nk_ns _ _ _ _ _ K); reflexivity].
  - cbn [auth_url scheme_end ser]. unfold auth_ser, auth_pre. rewrite <- app_assoc.
    split; [apply front_sch | rewrite (ak_st _ _ _ _ _ _ _ _ _ _ _ K); reflexivity].
  - cbn [auth_url scheme_end ser]. unfold auth_ser, auth_pre. rewrite <- app_assoc.
    split; [apply front_sch | rewrite (ak_st _ _ _ _ _ _ _ _ _ _ _ K); reflexivity].
Qed.

Lemma Canon_not_file_drive u : Canon hp hpo hd u -> Known_file_drive u = false.
Proof.
  intros C. destruct (Canon_scheme_of u C) as (sch & Es & Hf). unfold Known_file_drive, is_file. rewrite Es.
  destruct (list_eqb sch s_file) eqn:El; [|reflexivity].
  apply list_eqb_spec in El. rewrite El in Hf. vm_compute in Hf. discriminate Hf.
Qed.

Theorem ReachC_Reachable2 u : ReachC u -> Reachable2 dbg hp hpo hd u.
Proof.
  intros H. induction H as [ovr input u Hu Hn Hov Hp | ovr b input u Hr IH Hu Ht Hov Hp | u o u' Hr IH Ht Ha Ho Hb].
  - apply (R2_parse dbg hp hpo hd ovr input u Hu Hp).
    apply Canon_not_file_drive. exact (parse_Canon dbg hp hpo hd HRT ovr input u HAb Hu Hn Hov Hp).
  - apply (R2_join dbg hp hpo hd ovr b input u IH Hu Hp).
    apply Canon_not_file_drive. apply ReachC_Canon. exact (RC_join ovr b input u Hr Hu Ht Hov Hp).
  - apply (R2_step dbg hp hpo hd u o u' IH Ha (tail_op_not_known dbg hp hpo hd u o Ht) Ho).
    apply Canon_not_file_drive. apply ReachC_Canon. exact (RC_step u o u' Hr Ht Ha Ho Hb).
Qed.

End ReachC.

(* ---------- non-vacuity: a history of five steps ---------- *)
(* http://EXAMPLE.com:80/a/../b?x#y  ->  set_port(8080) -> set_query("k=v w#") -> set_fragment(None)
   -> set_port(80) (the default: elided) -> set_fragment("f g") *)
Definition ex_hist (start : string) (ops : list op) : option url :=
  match parse_url true ex_hp ex_hp ex_hd None None (B start) with
  | POk u => fold_left (fun acc o => match acc with Some v => apply_op true ex_hp ex_hp ex_hd v o | None => None end) ops (Some u)
  | _ => None
  end.

Example reach_partial_example :
  match ex_hist "http://EXAMPLE.com:80/a/../b?x#y"
          [OSetPort (Some 8080); OSetQuery (Some (B "k=v w#")); OSetFragment None; OSetPort (Some 80); OSetFragment (Some (B "f g"))] with
  | Some u => list_eqb (ser u) (B "http://EXAMPLE.com/b?k=v%20w%23#f%20g")
              && match parse_url true ex_hp ex_hp ex_hd None None (ser u) with POk v => url_eqb v u | _ => false end
  | None => false
  end = true
  /\ match ex_hist "a:b c  ?q" [OSetQuery None] with
     | Some u => list_eqb (ser u) (B "a:b c") | None => false end = true.
Proof. vm_compute. split; reflexivity. Qed.
