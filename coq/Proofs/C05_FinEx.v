(* Proofs/C05_FinEx.v - the hypotheses of C05_components_step3 / C05_components_reach3 are met and the two steps
   that were open are taken: with the example host parser of C02 (ex_hp) and a Display that prints a domain as
   it is and an address as a fixed non-empty text (HostWf, IpDisp):
   parse "http://h.x/a?q"; quirks set_host "o.x:81" (host AND port in one call); Url::set_ip_host(1.2.3.4);
   join "../w v" against the result. *)
From Coq Require Import String.
From RU Require Import Base.Prelude Model.HostT Model.UrlRecord Model.Parser Model.Setters Model.WF
  Proofs.ListN Proofs.C06_Suffix Proofs.C06_Host Proofs.C02_Reach Proofs.C02_AuthMain Proofs.C04_ParseTotal
  Proofs.C03_ReachParts Proofs.C03_ReachHost
  Proofs.C05_Enc Proofs.C05_Parser Proofs.C05_History Proofs.C05_Comp Proofs.C05_CompSteps Proofs.C05_CompHist
  Proofs.C05_ParseAll Proofs.C05_CompSteps2 Proofs.C05_CompReach Proofs.C05_BaseOk Proofs.C05_CompSteps3 Proofs.C03_WF Proofs.C05_Alphabet.
Open Scope N_scope.
Open Scope list_scope.

Lemma In_firstn_sub (x : N) n : forall l, In x (firstn n l) -> In x l.
Proof.
  induction n as [|n IH]; intros l H; [destruct H|]. destruct l as [|c r]; [destruct H|].
  destruct H as [H|H]; [left; exact H | right; exact (IH r H)].
Qed.

Lemma In_nfirstn_skipn_sub (x : N) n m l : In x (firstn n (skipn m l)) -> In x l.
Proof.
  intros H. apply In_firstn_sub in H. revert l H. induction m as [|m IH]; intros l H; [exact H|].
  destruct l as [|c r]; [destruct H|]. right. apply IH. exact H.
Qed.

Definition fx_hd (h : host) : list N :=
  match h with HDomain d => d | HIpv4 _ => B "1.2.3.4" | HIpv6 _ => B "[::1]" end.

Lemma ex_hp_domain s h : ex_hp s = Ok h -> exists d, h = HDomain d.
Proof.
  unfold ex_hp. destruct s as [|c r]; [intros H; inversion H; eexists; reflexivity|].
  destruct (forallb ex_hostc (c :: r)); intros H; inversion H. eexists; reflexivity.
Qed.

Lemma fx_host_wf : HostWf ex_hp ex_hp fx_hd.
Proof.
  destruct ex_host_wf as (W1 & W2 & W3). split; [|split; [|exact W3]].
  - intros s h E Hne. destruct (ex_hp_domain s h E) as (d & ->). exact (W1 s _ E Hne).
  - intros s h E Hne. destruct (ex_hp_domain s h E) as (d & ->). exact (W2 s _ E Hne).
Qed.

Lemma fx_ip_disp : IpDisp fx_hd.
Proof.
  intros h Hv. unfold host_disp_ok. destruct h as [d|a|p]; [destruct Hv | |]; cbn [hi_of_host fx_hd];
    eexists; eexists; (split; [reflexivity|]); split; discriminate.
Qed.

Definition fin_example_stmt : Prop :=
  HostWf ex_hp ex_hp fx_hd /\ IpDisp fx_hd
  /\ exists u, CReach3 true ex_hp ex_hp fx_hd u /\ ser u = B "http://1.2.3.4:81/w%20v".

Lemma fin_example : fin_example_stmt.
Proof.
  split; [exact fx_host_wf|]. split; [exact fx_ip_disp|].
  destruct (parse_url true ex_hp ex_hp fx_hd None None (B "http://h.x/a?q")) as [u0| |] eqn:E0;
    [|vm_compute in E0; discriminate ..].
  pose proof (CR3_parse true ex_hp ex_hp fx_hd None _ u0 E0) as R0. vm_compute in E0. injection E0 as <-.
  match type of R0 with CReach3 _ _ _ _ ?u =>
    destruct (apply_op true ex_hp ex_hp fx_hd u (OQHost (B "o.x:81"))) as [u1|] eqn:E1;
      [|vm_compute in E1; discriminate] end.
  pose proof E1 as E1'. vm_compute in E1'. injection E1' as <-.
  match type of E1 with apply_op _ _ _ _ ?u ?o = Some ?u' =>
    assert (CReach3 true ex_hp ex_hp fx_hd u') as R1 end.
  { eapply CR3_step; [exact R0 | | exact E1]. cbn [step_gate3]. split.
    - intros X. vm_compute in X. discriminate.
    - intros _ X. vm_compute in X. discriminate. }
  clear R0 E1.
  match type of R1 with CReach3 _ _ _ _ ?u =>
    destruct (apply_op true ex_hp ex_hp fx_hd u (OSetIpHost (HIpv4 16909060))) as [u2|] eqn:E2;
      [|vm_compute in E2; discriminate] end.
  pose proof E2 as E2'. vm_compute in E2'. injection E2' as <-.
  match type of E2 with apply_op _ _ _ _ ?u ?o = Some ?u' =>
    assert (CReach3 true ex_hp ex_hp fx_hd u') as R2 end.
  { eapply CR3_step; [exact R1 | | exact E2]. cbn [step_gate3 ip_arg]. split; [lia|].
    intros X. vm_compute in X. discriminate. }
  clear R1 E2.
  match type of R2 with CReach3 _ _ _ _ ?b =>
    destruct (parse_url true ex_hp ex_hp fx_hd None (Some b) (B "../w v")) as [u3| |] eqn:E3;
      [|vm_compute in E3; discriminate ..];
    assert (CReach3 true ex_hp ex_hp fx_hd u3) as R3
      by (eapply (CR3_join true ex_hp ex_hp fx_hd None b); [exact R2 | vm_compute; reflexivity | exact E3])
  end.
  exists u3. split; [exact R3|]. vm_compute in E3. injection E3 as <-. vm_compute. reflexivity.
Qed.

(* ---------- the hypotheses of C05_alphabet_reach are met ---------- *)
Lemma fx_host_ok : HostOK ex_hp ex_hp fx_hd.
Proof.
  assert (forall s h, ex_hp s = Ok h -> Forall ok_byte (fx_hd h)) as G.
  { intros s h E. unfold ex_hp in E. destruct s as [|c r]; [inversion E; constructor|].
    destruct (forallb ex_hostc (c :: r)) eqn:F; inversion E; subst. cbn [fx_hd].
    rewrite forallb_forall in F. apply Forall_forall. intros x Hx. specialize (F x Hx).
    unfold ex_hostc, is_alnum, is_alpha, is_lower, is_upper, is_digit in F. unfold ok_byte. lia. }
  intros h [->|[[s Hs]|[s Hs]]]; [constructor | exact (G s h Hs) | exact (G s h Hs)].
Qed.

Lemma fx_ip_okv : IpOKv fx_hd.
Proof.
  intros h Hv. destruct h as [d|a|p]; [destruct Hv | |]; cbn [fx_hd]; vm_compute; repeat constructor; discriminate.
Qed.

(* the record of fin_example: host text "1.2.3.4" has no space, so its serialization splits as alphabet_ok says *)
Definition fin_alphabet_stmt : Prop :=
  HostOK ex_hp ex_hp fx_hd /\ IpOKv fx_hd
  /\ exists u, CReach3 true ex_hp ex_hp fx_hd u /\ ser u = B "http://1.2.3.4:81/w%20v"
       /\ (has_host u = true -> ~ In 32 (piece u (host_start u) (host_end u))) /\ alphabet_ok u.

Lemma fin_alphabet : fin_alphabet_stmt.
Proof.
  split; [exact fx_host_ok|]. split; [exact fx_ip_okv|].
  destruct fin_example as (_ & _ & u & R & E). exists u. split; [exact R|]. split; [exact E|].
  assert (has_host u = true -> ~ In 32 (piece u (host_start u) (host_end u))) as Hh.
  { intros _ Hin. unfold piece in Hin.
    assert (In 32 (ser u)) as Hs.
    { unfold nfirstn, nskipn in Hin. apply (In_nfirstn_skipn_sub _ _ _ _ Hin). }
    rewrite E in Hs. vm_compute in Hs. intuition discriminate. }
  split; [exact Hh|].
  exact (creach3_alphabet true ex_hp ex_hp fx_hd fx_host_wf fx_host_ok fx_ip_disp fx_ip_okv u R Hh).
Qed.
