(* Proofs/Idna_C10_Puny.v - two facts about Model/Punycode.v used by the C10 output theorem:
   (1) everything the encoder writes is an ASCII character of its input, or a letter a-z, a digit or '-';
   (2) when the internal-caller decoder accepts a text, each of its characters is '-', a Punycode digit
       (a-z A-Z 0-9), or a base character whose yielded form (lower-cased for the u8 instantiation) occurs in the
       decoded text. *)
From RU Require Import Base.Prelude Base.Utf8 Base.U32_c13 Gen.Tables Model.Punycode Model.Uts46
  Proofs.C13_Ascii Proofs.C13_Dec Proofs.Idna_Sim Proofs.Idna_Api Proofs.Idna_Known Proofs.Idna_Hyp Proofs.Idna_Redisc
  Proofs.Idna_C10_Deny.

(* ---------------------------------------------------------------- encoder *)
Lemma value_to_digit_ldh v c : value_to_digit v = Ok c -> ldh c = true.
Proof.
  intros H. apply value_to_digit_ok in H. destruct H as [Hv [_ H]]. unfold value_to_digit_spec in H.
  unfold ldh, is_lower, is_digit.
  destruct (v <? 26) eqn:E1; [inversion H; lia|].
  destruct (v <? 36) eqn:E2; [inversion H; lia|discriminate].
Qed.

Definition all_ldh (l : list N) : Prop := Forall (fun c => ldh c = true) l.

Lemma enc_vli_ldh fuel : forall q k bias ds, enc_vli fuel q k bias = Ok ds -> all_ldh ds.
Proof.
  induction fuel as [|f IH]; intros q k bias ds H; cbn [enc_vli] in H; [discriminate|].
  destruct (q <? threshold k bias).
  - rbind_inv H d Hd. inversion H. subst ds. constructor; [exact (value_to_digit_ldh _ _ Hd)|constructor].
  - rbind_inv H d Hd. rbind_inv H r Hr. inversion H. subst ds.
    constructor; [exact (value_to_digit_ldh _ _ Hd)|exact (IH _ _ _ _ Hr)].
Qed.

Lemma enc_inner_ldh cfg ext input : forall cp bl delta bias processed d b p o,
  enc_inner cfg ext input cp bl delta bias processed = Ok (d, b, p, o) -> all_ldh o.
Proof.
  induction input as [|c r IH]; intros cp bl delta bias processed d b p o H; cbn [enc_inner] in H.
  - inversion H. constructor.
  - rbind_inv H delta' Hdelta.
    destruct (c =? cp).
    + rbind_inv H digits Hdig. rbind_inv H bias' Hbias. rbind_inv H st Hst.
      destruct st as [[[d1 b1] p1] o1]. inversion H. subst.
      apply Forall_app. split; [exact (enc_vli_ldh _ _ _ _ _ Hdig)|exact (IH _ _ _ _ _ _ _ _ _ Hst)].
    + exact (IH _ _ _ _ _ _ _ _ _ H).
Qed.

Lemma enc_outer_ldh fuel cfg ext input il bl : forall cp delta bias processed o,
  enc_outer fuel cfg ext input il bl cp delta bias processed = Ok o -> all_ldh o.
Proof.
  induction fuel as [|f IH]; intros cp delta bias processed o H; cbn [enc_outer] in H.
  - destruct (processed <? il); [discriminate|]. inversion H. constructor.
  - destruct (processed <? il); [|inversion H; constructor].
    destruct (min_ge cp input) as [m|]; [|discriminate].
    rbind_inv H product Hp. rbind_inv H delta' Hd. rbind_inv H st Hst.
    destruct st as [[[d1 b1] p1] o1]. rbind_inv H delta'' Hd2. rbind_inv H o2 Ho2. inversion H. subst o.
    apply Forall_app. split; [exact (enc_inner_ldh _ _ _ _ _ _ _ _ _ _ _ _ Hst)|exact (IH _ _ _ _ _ Ho2)].
Qed.

Lemma enc_basic_in input : forall il bl a b o, enc_basic input il bl = Some (a, b, o) ->
  Forall (fun c => In c input /\ c < 128) o.
Proof.
  induction input as [|c r IH]; intros il bl a b o H; cbn [enc_basic] in H.
  - inversion H. constructor.
  - destruct (checked_add il 1) as [il'|]; [|discriminate].
    destruct (c <? 128) eqn:E.
    + destruct (enc_basic r il' (bl + 1)) as [[[a1 b1] o1]|] eqn:E2; [|discriminate].
      inversion H. subst. constructor; [split; [left; reflexivity|lia]|].
      eapply Forall_impl; [|exact (IH _ _ _ _ _ E2)]. cbv beta. intros x [Hx Hl]. split; [right; exact Hx|exact Hl].
    + eapply Forall_impl; [|exact (IH _ _ _ _ _ H)]. cbv beta. intros x [Hx Hl]. split; [right; exact Hx|exact Hl].
Qed.

Theorem encode_into_chars cfg ext s p : encode_into cfg ext s = Ok p ->
  Forall (fun c => (In c s /\ c < 128) \/ ldh c = true) p.
Proof.
  unfold encode_into. intros H.
  destruct (enc_basic s 0 0) as [[[il bl] basic]|] eqn:E; [|discriminate].
  rbind_inv H u Hu. rbind_inv H o Ho. inversion H. subst p.
  apply Forall_app. split.
  { eapply Forall_impl; [|exact (enc_basic_in _ _ _ _ _ _ E)]. cbv beta. intros x Hx. left; exact Hx. }
  apply Forall_app. split.
  { destruct (0 <? bl); [constructor; [right; reflexivity|constructor]|constructor]. }
  eapply Forall_impl; [|exact (enc_outer_ldh _ _ _ _ _ _ _ _ _ _ _ Ho)]. cbv beta. intros x Hx. right; exact Hx.
Qed.

(* what write_punycode_label writes for a label whose ASCII characters are not denied *)
Lemma encode_internal_clean cfg deny label o : LdhFree deny -> Forall (okc deny) label ->
  encode_internal cfg label = Ok o -> Forall (clean deny) o.
Proof.
  intros HL Hl H. unfold encode_internal in H. apply encode_into_chars in H.
  eapply Forall_impl; [|exact H]. cbv beta. intros c [[Hin Hc]|Hc].
  - rewrite Forall_forall in Hl. apply okc_clean; [exact Hc|exact (Hl c Hin)].
  - apply ldh_clean; assumption.
Qed.

(* ---------------------------------------------------------------- decoder *)
Lemma rposition_split l : forall p, rposition_delim l = Some p ->
  l = firstn p l ++ DELIMITER :: skipn (Datatypes.S p) l.
Proof.
  induction l as [|x r IH]; intros p H; [discriminate|]. cbn [rposition_delim] in H.
  destruct (rposition_delim r) as [i|].
  - inversion H. subst p. cbn [firstn skipn app]. f_equal. exact (IH i eq_refl).
  - destruct (x =? DELIMITER) eqn:E; [|discriminate]. inversion H. subst p. apply N.eqb_eq in E. subst x.
    cbn [firstn skipn app]. reflexivity.
Qed.

Lemma split_input_cover input base rest : split_input input = (base, rest) ->
  forall c, In c input -> In c base \/ c = DELIMITER \/ In c rest.
Proof.
  unfold split_input. destruct (rposition_delim input) as [p|] eqn:E.
  - intros H c Hc. inversion H as [[Hb Hr]]. clear H. clear Hb Hr.
    destruct p as [|p].
    + change (0 <? 0)%nat with false. cbv iota. right; right; exact Hc.
    + change (0 <? Datatypes.S p)%nat with true. cbv iota.
      rewrite (rposition_split input _ E) in Hc. apply in_app_or in Hc.
      destruct Hc as [Hc|[Hc|Hc]]; [left; exact Hc|right; left; symmetry; exact Hc|right; right; exact Hc].
  - intros H c Hc. inversion H. subst rest. right; right; exact Hc.
Qed.

Lemma dec_loop_digits cfg it input : forall mid prev w k i length cp bias ins out,
  dec_loop cfg it input mid prev w k i length cp bias ins = Ok out ->
  Forall (fun c => inst_digit it c <> None) input.
Proof.
  induction input as [|byte rest IH]; intros mid prev w k i length cp bias ins out H; [constructor|].
  cbn [dec_loop] in H.
  destruct (inst_digit it byte) as [digit|] eqn:Ed; [|discriminate].
  constructor; [rewrite Ed; discriminate|].
  destruct (checked_mul digit w) as [product|]; [|discriminate].
  destruct (checked_add i product) as [i1|]; [|discriminate].
  destruct (digit <? threshold k bias).
  - destruct (unchecked_add cfg 233 length 1) as [len1| |s]; try discriminate.
    destruct (adapt (i1 - prev) len1 (prev =? 0)) as [bias1| |s]; try discriminate.
    destruct (checked_add cp (i1 / len1)) as [cp1|]; [|discriminate].
    destruct (is_usvb cp1); [|discriminate].
    exact (IH _ _ _ _ _ _ _ _ _ _ H).
  - destruct (checked_mul w (BASE - threshold k bias)) as [w1|]; [|discriminate].
    exact (IH _ _ _ _ _ _ _ _ _ _ H).
Qed.

Lemma rcons_ok {X : Type} (c : X) r out : rcons c r = Ok out -> exists o, r = Ok o /\ out = c :: o.
Proof. destruct r as [o| |s]; cbn [rcons]; intros H; try discriminate. inversion H. exists o. split; reflexivity. Qed.

Lemma collect_base_in it ins : forall base pos out, decode_collect it ins base pos = Ok out ->
  forall b, In b base -> In (inst_base_char it b) out.
Proof.
  induction ins as [|[p c] ins' IHi]; intros base; induction base as [|b0 base' IHb]; intros pos out H b Hb;
    try (destruct Hb; fail); rewrite collect_eq in H.
  - apply rcons_ok in H. destruct H as (o & Ho & ->). destruct Hb as [->|Hb]; [left; reflexivity|].
    right. exact (IHb _ _ Ho b Hb).
  - destruct (p =? pos).
    + apply rcons_ok in H. destruct H as (o & Ho & ->). right. exact (IHi _ _ _ Ho b Hb).
    + apply rcons_ok in H. destruct H as (o & Ho & ->). destruct Hb as [->|Hb]; [left; reflexivity|].
      right. exact (IHb _ _ Ho b Hb).
Qed.

Lemma collect_nil_base it ins : forall pos out, decode_collect it ins [] pos = Ok out -> True.
Proof. intros; exact I. Qed.

Theorem decode_with_chars cfg it p l : inst_external it = false -> decode_with cfg it p = Ok l ->
  Forall (fun c => In (inst_base_char it c) l \/ c = DELIMITER \/ inst_digit it c <> None) p.
Proof.
  intros Hi H. unfold decode_with, decoder_decode in H.
  destruct (split_input p) as [base rest] eqn:Es. rewrite Hi in H. cbn [andb] in H.
  destruct (dec_loop cfg it rest false 0 1 BASE 0 (u32_wrap (N.of_nat (length base))) INITIAL_N INITIAL_BIAS [])
    as [ins| |s] eqn:Ed; try discriminate.
  apply dec_loop_digits in Ed. rewrite Forall_forall in Ed.
  apply Forall_forall. intros c Hc.
  destruct (split_input_cover p base rest Es c Hc) as [Hb|[Hd|Hr]].
  - left. exact (collect_base_in it _ _ _ _ H c Hb).
  - right; left; exact Hd.
  - right; right. exact (Ed c Hr).
Qed.

Lemma digit_u8_lower c : digit_u8 c <> None -> ldh (to_lower c) = true.
Proof.
  rewrite digit_u8_table. unfold digit_u8_spec, ldh, to_lower, is_upper, is_lower, is_digit.
  destruct ((48 <=? c) && (c <=? 57)) eqn:E1.
  { intros _. replace ((65 <=? c) && (c <=? 90)) with false by lia. lia. }
  destruct ((65 <=? c) && (c <=? 90)) eqn:E2.
  { intros _. lia. }
  destruct ((97 <=? c) && (c <=? 122)) eqn:E3.
  { intros _. lia. }
  intros H. contradiction H. reflexivity.
Qed.
