(* Proofs/C08_AbsNonfile.v - the 'absolute wins' law for every URL parsed without a base whose scheme is
   not "file": its own serialization resolves to itself against ANY base (also cannot-be-a-base ones).
   C02's classes (i)-(iv) give the canonical form of the record; the text of each form has abs_shape
   (C08_Absolute.v), so the base is never consulted, and C02's L3 finishes. *)
From RU Require Import Base.Prelude Base.Utf8 Base.Utf8Facts Model.AsciiSet Gen.Tables Model.PercentEncoding
  Model.HostT Model.UrlRecord Model.Parser Model.Setters Model.WF Model.KnownC08
  Proofs.ListN Proofs.C14_Enc Proofs.C02_Enc Proofs.C02_Parts Proofs.C02_Opaque Proofs.C02_Path Proofs.C02_PathL1
  Proofs.C02_Reach Proofs.C02_AuthParts Proofs.C02_Auth Proofs.C02_AuthWf Proofs.C02_PathSp Proofs.C02_AuthSp
  Proofs.C02_AuthMain Proofs.C08_Input Proofs.C08_Absolute.

(* the class of a parse result without base, non-file scheme: C02's four canonical forms *)
Inductive nonfile_form (hp hpo : list N -> result host) (hd : host -> list N) (u : url) : Prop :=
| NF_opaque sch P q f : opaque_ok sch P q f -> u = opaque_url sch P q f -> nonfile_form hp hpo hd u
| NF_noauth sch segs last q f : noauth_ok sch segs last q f -> u = noauth_url sch (path_text segs last) q f ->
    nonfile_form hp hpo hd u
| NF_auth sch ui h pt p q f : auth_ok hp hpo hd STNotSpecial sch ui h pt p q f -> u = auth_url hd sch ui h pt p q f ->
    nonfile_form hp hpo hd u
| NF_special sch ui h pt p q f : auth_ok hp hpo hd STSpecialNotFile sch ui h pt p q f -> pth_ok_sp p ->
    u = auth_url hd sch ui h pt p q f -> nonfile_form hp hpo hd u.

Section AbsNonfile.
Variables (dbg : bool) (hp hpo : list N -> result host) (hd : host -> list N).
Hypothesis HRT : HostRT hp hpo hd.

Theorem nonfile_parse_form input u : host_above hp hpo hd -> usv_list input -> nonfile_input input = true ->
  parse_url dbg hp hpo hd None None input = POk u -> nonfile_form hp hpo hd u.
Proof.
  intros HAb Hu Hc Hp. unfold nonfile_input in Hc.
  destruct (parse_scheme CUrlParser (input_new_trim_c0 input)) as [[sch rem]|] eqn:Hs; [|discriminate].
  destruct (scheme_type_of sch) eqn:Hst; [discriminate| |].
  - destruct (parse_special_out dbg hp hpo hd HRT HAb input sch rem u Hu Hs Hst Hp) as (ui & h & pt & p & q & f & K & Kp & E).
    exact (NF_special hp hpo hd u sch ui h pt p q f K Kp E).
  - destruct (inp_split_prefix_char 47 rem) as [rem'|] eqn:E47.
    + destruct (inp_split_prefix_str s_ss rem) as [rem''|] eqn:Ess.
      * destruct (parse_auth_out dbg hp hpo hd HRT HAb None input sch rem rem'' u Hu Hs Hst Ess Hp) as (ui & h & pt & p & q & f & K & E).
        exact (NF_auth hp hpo hd u sch ui h pt p q f K E).
      * destruct (parse_noauth_out dbg hp hpo hd None input sch rem rem' u Hu Hs Hst Ess E47 Hp) as (segs & last & q & f & K & E).
        exact (NF_noauth hp hpo hd u sch segs last q f K E).
    + destruct (parse_opaque_out dbg hp hpo hd None input sch rem u Hu Hs Hst E47 Hp) as (P & q & f & K & E).
      exact (NF_opaque hp hpo hd u sch P q f K E).
Qed.

(* every canonical form resolves to itself against any base *)
Theorem absolute_form b u : nonfile_form hp hpo hd u ->
  parse_url dbg hp hpo hd None (Some b) (utf8_lossy (ser u)) = POk u.
Proof.
  intros [sch P q f K ->|sch segs last q f K ->|sch ui h pt p q f K ->|sch ui h pt p q f K Kp ->].
  - cbn [ser opaque_url]. rewrite C02_Opaque.utf8_lossy_ascii by exact (opaque_ser_ascii sch P q f K).
    exact (absolute_opaque dbg hp hpo hd None b sch P q f K).
  - destruct (noauth_url_wf sch segs last q f K) as (_ & _ & A).
    cbn [ser noauth_url] in *. rewrite C02_Opaque.utf8_lossy_ascii by exact A.
    exact (absolute_noauth dbg hp hpo hd None b sch segs last q f K).
  - pose proof (okc_ascii _ (auth_ser_okc hp hpo hd HRT _ _ _ _ _ _ _ _ K)) as A.
    cbn [ser auth_url]. rewrite C02_Opaque.utf8_lossy_ascii by exact A.
    rewrite (abs_dispatch dbg hp hpo hd None).
    + exact (reparse_auth_form dbg hp hpo hd HRT None sch ui h pt p q f K).
    + rewrite auth_ser_shape. apply abs_shape_slashes_any. exact (ak_sch _ _ _ _ _ _ _ _ _ _ _ K).
  - pose proof (okc_ascii _ (auth_ser_okc hp hpo hd HRT _ _ _ _ _ _ _ _ K)) as A.
    cbn [ser auth_url]. rewrite C02_Opaque.utf8_lossy_ascii by exact A.
    rewrite (abs_dispatch dbg hp hpo hd None).
    + exact (reparse_special_form dbg hp hpo hd HRT sch ui h pt p q f K Kp).
    + rewrite auth_ser_shape. apply abs_shape_slashes_any. exact (ak_sch _ _ _ _ _ _ _ _ _ _ _ K).
Qed.

Theorem absolute_nonfile b input u : host_above hp hpo hd -> usv_list input -> nonfile_input input = true ->
  parse_url dbg hp hpo hd None None input = POk u ->
  parse_url dbg hp hpo hd None (Some b) (utf8_lossy (ser u)) = POk u.
Proof. intros HAb Hu Hc Hp. apply absolute_form. exact (nonfile_parse_form input u HAb Hu Hc Hp). Qed.

End AbsNonfile.

Theorem absolute_nonfile_HostOK dbg hp hpo hd b input u :
  HostOK hp hpo hd -> host_above hp hpo hd -> usv_list input -> nonfile_input input = true ->
  parse_url dbg hp hpo hd None None input = POk u ->
  parse_url dbg hp hpo hd None (Some b) (utf8_lossy (ser u)) = POk u.
Proof. intros HOK. exact (absolute_nonfile dbg hp hpo hd (HostOK_RT _ _ _ HOK) b input u). Qed.

(* ---------- non-vacuity (host functions ex_hp / ex_hd of C02_AuthMain.v) ---------- *)
From Coq Require Import String.
Open Scope string_scope.

(* u parsed from a non-file input, b any parse result: u's serialization joined to b is u *)
Definition ex_abs (us bs : string) : bool :=
  match ex_parse us, ex_parse bs with
  | POk u, POk b =>
      nonfile_input (B us)
      && match parse_url true ex_hp ex_hp ex_hd None (Some b) (utf8_lossy (ser u)) with POk v => url_eqb v u | _ => false end
  | _, _ => false
  end.

Lemma abs_nonfile_inhabited :
  ex_abs "HTTP:\\u@h.x:80\a\..\b?q'#f" "http://other/dir/file?x#y" = true
  /\ ex_abs "http:h.x" "http://other/dir/file" = true
  /\ ex_abs "a://u:p@h.x:81/a/../b?q#f" "file:///c:/x" = true
  /\ ex_abs "a:/..//x" "about:blank" = true
  /\ ex_abs "mailto:x@y?subject=%41" "ws://h/" = true.
Proof. vm_compute. repeat split. Qed.
