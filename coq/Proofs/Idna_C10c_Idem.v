(* Proofs/Idna_C10c_Idem.v - ToASCII is idempotent (C10), every input, every option combination, outside the class
   Known_C10_long (F-C10-1), relative to sampled facts about idna_adapter.

   C10_idem_statement3: AdapterOK, AdapterUSV, NvNoTrunc, NvIdem, AsciiNoMark, MapPrefix  ==>  whenever to_ascii returns
   Ok (b, r) for a byte string and r has no over-long xn-- label, to_ascii returns r for r, BORROWED.
   It is C10_idem_statement2 of Proofs/Idna_C10b_Stmt.v with two more adapter premises:
     AdapterUSV (the normalizers return scalar values - true by type) and
     MapPrefix  (map_normalize (a ++ c :: r) = lower-cased a ++ map_normalize (c :: r) for ASCII a and ASCII c:
                 uts46.rs feeds map_normalize only the part of a label that starts at the last ASCII character before the
                 first non-ASCII one; the ASCII prefix goes into the buffer directly).
   Without MapPrefix the statement is false for an abstract adapter: c10_idem2_refuted. *)
From RU Require Import Base.Prelude Base.Utf8 Base.U32_c13 Gen.Tables Model.Punycode Model.Uts46
  Proofs.C13_Ascii Proofs.Idna_Sim Proofs.Idna_Api Proofs.Idna_Known Proofs.Idna_Hyp Proofs.Idna_Redisc
  Proofs.Idna_C10_Deny Proofs.Idna_C10_Puny Proofs.Idna_C10_Prefix Proofs.Idna_C10_Inner Proofs.Idna_C10_Walk
  Proofs.Idna_C10b_Long Proofs.Idna_C10b_AsciiInner Proofs.Idna_C10b_AsciiWalk Proofs.Idna_C10b_Stmt
  Proofs.Idna_WalkFun Proofs.Idna_WalkInv Proofs.Idna_WalkApi Proofs.Idna_WalkEnc Proofs.Idna_PunyRT
  Proofs.Idna_C10c_Puny Proofs.Idna_C10c_Start Proofs.Idna_C10c_Drun Proofs.Idna_C10c_Loop Proofs.Idna_C10c_Rerun
  Proofs.Idna_Mark.

Lemma lower_noupper_b m : existsb is_upper (map to_lower m) = false.
Proof.
  induction m as [|x r IH]; [reflexivity|]. cbn [map existsb]. rewrite IH, orb_false_r.
  unfold to_lower, is_upper. destruct ((65 <=? x) && (x <=? 90)) eqn:E; [lia|exact E].
Qed.
Lemma nodot_notin l : nodot l -> ~ In DOT l.
Proof. intros H Hin. unfold nodot in H. rewrite Forall_forall in H. exact (H DOT Hin eq_refl). Qed.
Lemma notin_nodot l : ~ In DOT l -> nodot l.
Proof. intros H. unfold nodot. apply Forall_forall. intros x Hx E. subst x. exact (H Hx). Qed.
Lemma prefix_not_pass o : Forall (fun b => b < 128) o -> has_punycode_prefix o = true -> is_passthrough_ascii_label o = false.
Proof.
  intros Ha Hp. destruct (xn_prefix_spec o Ha Hp) as (a & b & r & -> & _ & _). unfold is_passthrough_ascii_label.
  replace (4 <=? len (a :: b :: 45 :: 45 :: r)) with true; [reflexivity|].
  symmetry. apply N.leb_le. unfold len. cbn [length]. lia.
Qed.
Lemma app_eq_len (a b c e : list N) : a ++ b = c ++ e -> len a = len c -> a = c.
Proof.
  intros H Hl. rewrite <- (firstn_len_app a b), <- (firstn_len_app c e), H, Hl. reflexivity.
Qed.

Section Idem.
Variable A : adapter.
Variable cfg : bool.
Variable deny : N.
Variable hy : hyphens.
Hypothesis HU : DenyUpper deny.
Hypothesis HL : LdhFree deny.
Hypothesis HOK : AdapterOK A.
Hypothesis HUSV : AdapterUSV A.
Hypothesis HNT : NvNoTrunc A.
Hypothesis HNI : NvIdem A.
Hypothesis HNM : AsciiNoMark A.
Hypothesis HMP : MapPrefix A.

Notation PairOK := (PairOK A cfg deny hy).
Notation RT := (RT A cfg deny hy).
Notation dd := (dd deny).

(* ---- what the internal encoder writes for an accepted non-ASCII label ---- *)
Lemma other_enc dbl p : Forall (gc dd) dbl -> chk A cfg hy dbl -> usv_list dbl -> is_ascii_l dbl = false ->
  encode_internal cfg dbl = Ok p ->
  p <> [] /\ last_opt p <> Some DELIMITER /\ nodot p /\ Forall (clean deny) p /\ decode_with cfg U8Internal p = Ok dbl.
Proof.
  intros Hg Hchk Hu Hna He.
  pose proof (chk_len A cfg hy dbl Hchk Hna) as Hlen.
  pose proof (gc_all_noupper deny DOT_MASK dbl HU Hg) as Hup.
  destruct (encode_no_trailing_delim cfg dbl p Hlen Hu Hup Hna He) as [H1 H2].
  split; [exact H1|]. split; [exact H2|]. split.
  - apply notin_nodot. apply (encode_nodot cfg dbl p Hlen Hu Hup); [|exact He]. apply nodot_notin. exact (gc_all_nodot deny dbl Hg).
  - split.
    + apply (encode_internal_clean cfg deny dbl p HL); [|exact He]. eapply Forall_impl; [|exact Hg]. intros c. apply gc_okc.
    + exact (proj2 (punyrt_noupper cfg dbl p Hlen Hu Hup He)).
Qed.

Lemma clean_ascii l : Forall (clean deny) l -> Forall (fun b => b < 128) l.
Proof. intros H. eapply Forall_impl; [|exact H]. intros c [Hc _]. exact Hc. Qed.
Lemma clean_noupper l : Forall (clean deny) l -> existsb is_upper l = false.
Proof.
  induction 1 as [|c r Hc _ IH]; [reflexivity|]. cbn [existsb]. rewrite IH, orb_false_r.
  exact (proj1 (proj2 (clean_final deny c HU Hc))).
Qed.

(* ---- the text written for a pair has no dot ---- *)
Lemma pair_out_nodot dbl e o : PairOK dbl e -> out_label cfg is_ascii_l dbl e = inl o -> nodot o.
Proof.
  intros HP Ho. destruct HP as [m Han Hn Hacc|m dec dbl Ha Hn Hp Hc Hd Hapd Hchk Hna|dbl Hnv Hg Hchk Hu Hpre]; cbn [out_label] in Ho.
  - inversion Ho. apply lower_nodot. exact Hn.
  - rewrite Hna in Ho. inversion Ho. apply lower_nodot. exact Hn.
  - destruct (is_ascii_l dbl) eqn:Easc.
    + inversion Ho. subst o. exact (gc_all_nodot deny dbl Hg).
    + unfold enc_label in Ho. destruct (encode_internal cfg dbl) as [p| |s] eqn:Ee; try discriminate. inversion Ho. subst o.
      destruct (other_enc dbl p Hg Hchk Hu Easc Ee) as (_ & _ & Hnd & _).
      unfold nodot. unfold XN_PREFIX. cbn [app]. repeat (constructor; [unfold DOT; lia|]). exact Hnd.
Qed.

(* ---- the second run rediscovers the label of the buffer from the text written for it ---- *)
Lemma pair_rt dbl e o : PairOK dbl e -> out_label cfg is_ascii_l dbl e = inl o -> long_puny_label o = false ->
  exists e', RT o dbl e'.
Proof.
  intros HP Ho Hlong. pose proof (pair_out_nodot dbl e o HP Ho) as Hndo. pose proof (pairok_nodot A cfg deny hy dbl e HP) as Hndd.
  destruct HP as [m Han Hn Hacc|m dec dbl Ha Hn Hp Hc Hd Hapd Hchk Hna|dbl Hnv Hg Hchk Hu Hpre]; cbn [out_label] in Ho.
  - (* an all-ASCII input label *)
    inversion Ho. subst o. clear Ho. destruct Han as [Ha Hp]. exists (MixedCaseAscii (map to_lower m)).
    assert (Han2 : an_label (map to_lower m)) by (split; [exact (lower_ascii m Ha)|rewrite (hpp_lower m Ha); exact Hp]).
    split; [exact Hndo|]. split; [exact Hndd|]. split; [|split].
    + destruct m as [|b r]; [split; reflexivity|]. cbn [map]. intros db ap.
      change (to_lower b :: map to_lower r) with (map to_lower (b :: r)).
      rewrite (label_nonempty_an A cfg hy deny _ db ap Han2), (lab_acc_lower deny HU HL hy _ Ha), Hacc.
      rewrite (cmap_of_lower deny HU HL _ Ha). reflexivity.
    + cbn [stay_label]. rewrite lower_noupper_b. reflexivity.
    + intros _. unfold lab_acc in Hacc. apply andb_true_iff in Hacc. destruct Hacc as [Hf _]. apply negb_true_iff in Hf.
      rewrite (cmap_lower deny HU m Ha Hf). exact (lower_ascii m Ha).
  - (* an input label xn--... *)
    rewrite Hna in Ho. inversion Ho. subst o. clear Ho. exists (MixedCasePunycode (map to_lower m)).
    pose proof (lower_ascii m Ha) as Ha2. pose proof (hpp_lower m Ha) as Hp2. rewrite Hp in Hp2.
    split; [exact Hndo|]. split; [exact Hndd|]. split; [|split].
    + destruct (xn_prefix_spec m Ha Hp) as (a & b & r & Em & _ & _).
      assert (Hne : exists x y, map to_lower m = x :: y) by (rewrite Em; cbn [map]; eauto).
      destruct Hne as (x & y & Exy). rewrite Exy. rewrite <- Exy. intros db ap.
      rewrite label_nonempty_eq. unfold split_ascii_fast_path_prefix. rewrite (ascii_position _ Ha2). rewrite Hp2.
      assert (Hc2 : negb (match last_opt (map to_lower m) with Some l => l =? HYPHEN | None => false end)
                    && (len (map to_lower m) - 4 <=? PUNYCODE_DECODE_MAX_INPUT_LENGTH) = true).
      { rewrite last_opt_map. unfold len. rewrite map_length. fold (len m). unfold puny_cond in Hc.
        destruct (last_opt m) as [l|]; [|exact Hc]. cbn [option_map]. change HYPHEN with DELIMITER. rewrite to_lower_delim. exact Hc. }
      rewrite Hc2. rewrite skipn_map, decode_u8_lower, Hd. fold dd. rewrite Hapd. cbn [sbind].
      unfold chk in Hchk. rewrite Hchk. reflexivity.
    + cbn [stay_label]. rewrite Hna, lower_noupper_b. reflexivity.
    + intros Hpass. rewrite (prefix_not_pass _ Ha2 Hp2) in Hpass. discriminate.
  - destruct (is_ascii_l dbl) eqn:Easc.
    + (* an ASCII label of the mapped stream *)
      inversion Ho. subst o. clear Ho. exists (MixedCaseAscii dbl).
      pose proof (is_ascii_l_spec dbl Easc) as Ha.
      assert (Hcl : Forall (clean deny) dbl).
      { apply Forall_forall. intros c Hin. rewrite Forall_forall in Ha, Hg. exact (gc_clean deny DOT_MASK c (Ha c Hin) (Hg c Hin)). }
      assert (Han : an_label dbl) by (split; [exact Ha|exact (Hpre eq_refl)]).
      assert (Hacc : lab_acc deny hy dbl = true).
      { unfold lab_acc. rewrite (cmap_clean deny dbl Hcl), (clean_nofffd deny dbl Hcl). exact (chk_hyphens A cfg hy dbl Hchk). }
      split; [exact Hndo|]. split; [exact Hndd|]. split; [|split].
      * destruct dbl as [|b r]; [split; reflexivity|]. intros db ap.
        rewrite (label_nonempty_an A cfg hy deny _ db ap Han), Hacc, (cmap_clean deny _ Hcl). reflexivity.
      * cbn [stay_label]. rewrite (clean_noupper dbl Hcl). reflexivity.
      * intros _. exact Ha.
    + (* a non-ASCII label: xn-- and its Punycode form *)
      unfold enc_label in Ho. destruct (encode_internal cfg dbl) as [p| |s] eqn:Ee; try discriminate. inversion Ho. subst o. clear Ho.
      destruct (other_enc dbl p Hg Hchk Hu Easc Ee) as (Hpne & Hplast & Hpnd & Hpcl & Hpdec).
      exists (MixedCasePunycode (120 :: 110 :: 45 :: 45 :: p)).
      pose proof (clean_ascii p Hpcl) as Hpa.
      assert (Hoa : Forall (fun b => b < 128) (120 :: 110 :: 45 :: 45 :: p)).
      { repeat (constructor; [lia|]). exact Hpa. }
      assert (Hop : has_punycode_prefix (120 :: 110 :: 45 :: 45 :: p) = true) by (apply xn_prefix_conv; left; reflexivity).
      split; [exact Hndo|]. split; [exact Hndd|]. split; [|split].
      * intros db ap.
        rewrite label_nonempty_eq. unfold split_ascii_fast_path_prefix. rewrite (ascii_position _ Hoa).
        rewrite Hop.
        assert (Hc2 : negb (match last_opt (120 :: 110 :: 45 :: 45 :: p) with Some l => l =? HYPHEN | None => false end)
                      && (len (120 :: 110 :: 45 :: 45 :: p) - 4 <=? PUNYCODE_DECODE_MAX_INPUT_LENGTH) = true).
        { apply andb_true_iff. split.
          - destruct p as [|p0 p']; [contradiction Hpne; reflexivity|].
            change (last_opt (120 :: 110 :: 45 :: 45 :: p0 :: p')) with (last_opt (p0 :: p')).
            destruct (last_opt (p0 :: p')) as [l|]; [|reflexivity]. apply negb_true_iff. apply N.eqb_neq. intros E. apply Hplast. rewrite E. reflexivity.
          - unfold long_puny_label in Hlong. rewrite Hop in Hlong. cbn [andb] in Hlong. apply N.leb_le. apply N.ltb_ge in Hlong. exact Hlong. }
        rewrite Hc2. change (skipn 4 (120 :: 110 :: 45 :: 45 :: p)) with p. rewrite Hpdec. fold dd.
        rewrite (apd_stable A deny dbl Hnv Hg). cbn [sbind]. unfold chk in Hchk. rewrite Hchk. reflexivity.
      * cbn [stay_label]. rewrite Easc. cbn [negb andb].
        replace (existsb is_upper (120 :: 110 :: 45 :: 45 :: p)) with false; [reflexivity|]. symmetry.
        cbn [existsb]. rewrite (clean_noupper p Hpcl). reflexivity.
      * intros Hpass. rewrite (prefix_not_pass _ Hoa Hop) in Hpass. discriminate.
Qed.

(* ---- all the pairs ---- *)
Lemma outs_nodot DBL : forall ap os, Forall2 PairOK DBL ap -> outs cfg is_ascii_l DBL ap = inl os ->
  Forall nodot os /\ length os = length DBL.
Proof.
  induction DBL as [|dbl DBL IH]; intros ap os HP Ho.
  - inversion HP; subst. cbn [outs] in Ho. inversion Ho. split; [constructor|reflexivity].
  - inversion HP as [|? e ? ap' H1 H2]; subst. cbn [outs] in Ho.
    destruct (out_label cfg is_ascii_l dbl e) as [o|s] eqn:E1; [|discriminate].
    destruct (outs cfg is_ascii_l DBL ap') as [os'|s] eqn:E2; [|discriminate]. inversion Ho. subst os.
    destruct (IH _ _ H2 E2) as [I1 I2]. split; [constructor; [exact (pair_out_nodot _ _ _ H1 E1)|exact I1]|cbn [length]; lia].
Qed.

Lemma build_T DBL : forall ap os, Forall2 PairOK DBL ap -> outs cfg is_ascii_l DBL ap = inl os ->
  Forall (fun o => long_puny_label o = false) os ->
  exists T, map t_o T = os /\ map t_d T = DBL /\ Forall (RT3 A cfg deny hy) T.
Proof.
  induction DBL as [|dbl DBL IH]; intros ap os HP Ho Hl.
  - inversion HP; subst. cbn [outs] in Ho. inversion Ho. exists []. repeat split. constructor.
  - inversion HP as [|? e ? ap' H1 H2]; subst. cbn [outs] in Ho.
    destruct (out_label cfg is_ascii_l dbl e) as [o|s] eqn:E1; [|discriminate].
    destruct (outs cfg is_ascii_l DBL ap') as [os'|s] eqn:E2; [|discriminate]. inversion Ho. subst os.
    inversion Hl as [|? ? Hl1 Hl2]; subst.
    destruct (IH _ _ H2 E2 Hl2) as (T & T1 & T2 & T3). destruct (pair_rt _ _ _ H1 E1 Hl1) as (e' & Hrt).
    exists ((o, dbl, e') :: T). cbn [map t_o t_d fst snd]. rewrite T1, T2. repeat split. constructor; [exact Hrt|exact T3].
Qed.

(* ---- idempotence, dns length ignored ---- *)
Theorem to_ascii_idem d r : bytes d -> bytes r ->
  to_ascii A cfg d deny hy DIgnore = Ok (false, r) -> Known_C10_long r = false ->
  to_ascii A cfg r deny hy DIgnore = Ok (true, r).
Proof.
  intros Hb Hbr H Hlong.
  destruct (process_inner A cfg true hy deny d) as [ptu bd he db ap|s] eqn:Ei.
  2:{ unfold to_ascii, process in H. rewrite Ei in H. discriminate. }
  destruct (inner_facts A cfg true hy deny d _ _ _ _ _ Hb Ei) as [(_ & -> & -> & Hne)|[(-> & -> & _)|[HB Hm]]].
  - exfalso. unfold to_ascii, process in H. rewrite Ei in H.
    destruct (0 =? len d) eqn:E; [apply len_nil_iff in E; contradiction|]. cbn [andb] in H. discriminate.
  - exfalso. unfold to_ascii, process in H. rewrite Ei, N.eqb_refl, andb_false_r in H. discriminate.
  - assert (Hlt : ptu <> len d) by (destruct HB as [Hx _]; lia).
    destruct he.
    { exfalso. unfold to_ascii, process in H. rewrite Ei in H.
      replace (ptu =? len d) with false in H by (symmetry; apply N.eqb_neq; exact Hlt). cbn [andb] in H. discriminate. }
    pose proof (redisc_of_adapter A cfg deny (ok_nil A HOK) HU) as HR.
    pose proof HB as HB'. destruct HB' as (_ & _ & _ & _ & _ & P & rl & Hd & HP & Hcv & _).
    pose proof (to_ascii_walk A cfg d deny hy ptu bd db ap HR Hm HB P rl Hd HP Hcv) as HW.
    destruct (drun A cfg deny hy HU HL HOK HUSV HNT HNI HNM HMP d ptu bd db ap Hb Ei Hlt)
      as (pl & done & DBL & Hpl & Hdn & Hd2 & Hptu & HD & Hdb & HPK & Hbidi & Hbok).
    assert (HPe : P = ptext pl).
    { apply (app_eq_len P (join_dots rl) (ptext pl) (join_dots done)); [rewrite <- Hd; exact Hd2|rewrite HP; exact Hptu]. }
    pose proof (pairok_all_nodot A cfg deny hy _ _ HPK) as HDn.
    rewrite Hdb, (split_join DBL HD HDn) in HW.
    destruct (outs cfg is_ascii_l DBL ap) as [os|s] eqn:Eo; [|rewrite HW in H; discriminate].
    destruct (stays is_ascii_l DBL ap); [destruct HW as [_ HW]; rewrite HW in H; discriminate|].
    rewrite HW in H. inversion H as [Hr]. clear H HW. rewrite ?Hr.
    destruct (outs_nodot DBL ap os HPK Eo) as [Hosn Hosl].
    assert (Hos : os <> []) by (intros ->; destruct DBL; [contradiction HD; reflexivity|discriminate]).
    assert (Hr2 : r = join_dots (pl ++ os)) by (rewrite <- Hr, HPe; symmetry; apply ptext_join; exact Hos).
    assert (Hsplit : split_on DOT r = pl ++ os).
    { rewrite Hr2. apply split_join; [destruct pl; [exact Hos|discriminate]|].
      apply Forall_app. split; [|exact Hosn]. eapply Forall_impl; [|exact Hpl]. intros l. apply pass_nodot. }
    assert (Hlo : Forall (fun o => long_puny_label o = false) os).
    { unfold Known_C10_long in Hlong. rewrite Hsplit, existsb_app in Hlong. apply orb_false_iff in Hlong. destruct Hlong as [_ Hl2].
      apply Forall_forall. intros o Hin. destruct (long_puny_label o) eqn:E; [|reflexivity]. exfalso.
      assert (Hx : existsb long_puny_label os = true) by (apply existsb_exists; exists o; split; assumption).
      rewrite Hx in Hl2. discriminate. }
    destruct (build_T DBL ap os HPK Eo Hlo) as (T & T1 & T2 & T3).
    apply (rrun A cfg deny hy pl T r bd Hpl); try assumption.
    + intros ->. cbn [map] in T1. symmetry in T1. contradiction.
    + rewrite T1. exact Hr2.
    + rewrite T2, <- Hdb. exact Hbidi.
    + rewrite T2. exact Hbok.
Qed.
End Idem.

(* ---------------------------------------------------------------- the statement *)
Definition C10_idem_statement3 (A : adapter) (cfg : bool) : Prop :=
  AdapterOK A -> AdapterUSV A -> NvNoTrunc A -> NvIdem A -> AsciiNoMark A -> MapPrefix A ->
  forall d deny hy dns b r, bytes d -> valid_deny deny ->
  to_ascii A cfg d deny hy dns = Ok (b, r) -> Known_C10_long r = false ->
  to_ascii A cfg r deny hy dns = Ok (true, r).

Lemma to_ascii_dns_lift A cfg r deny hy dns : to_ascii A cfg r deny hy DIgnore = Ok (true, r) -> is_ascii_l r = true ->
  (dns_is_ignore dns = false -> verify_dns_length r (dns_is_root dns) = true) -> to_ascii A cfg r deny hy dns = Ok (true, r).
Proof.
  unfold to_ascii. destruct (process A cfg true never_unicode r deny hy None None false) as [[st s1] s2].
  destruct st; cbn [dns_is_ignore negb]; intros H Ha Hv; try discriminate.
  destruct (dns_is_ignore dns); cbn [negb]; [reflexivity|]. rewrite Ha, (Hv eq_refl). cbn [negb]. rewrite andb_false_r. reflexivity.
Qed.

Theorem c10_idem3 : forall A cfg, C10_idem_statement3 A cfg.
Proof.
  intros A cfg HOK HUSV HNT HNI HNM HMP d deny hy dns b r Hb Hv H Hlong.
  destruct (valid_deny_facts deny Hv) as [HU HL].
  pose proof (to_ascii_output A cfg d deny hy dns b r HNT Hb Hv H) as Hout.
  assert (Hra : Forall (fun c => c < 128) r) by (eapply Forall_impl; [|exact Hout]; intros c Hc; exact (proj1 Hc)).
  assert (Hbr : bytes r) by (unfold bytes; eapply Forall_impl; [|exact Hra]; unfold is_byte; cbv beta; intros; lia).
  apply to_ascii_dns_lift.
  - pose proof (to_ascii_dns_ignore A cfg d deny hy dns b r H) as H'. destruct b.
    + pose proof (to_ascii_borrow A cfg d deny hy DIgnore r H') as ->. exact H'.
    + exact (to_ascii_idem A cfg deny hy HU HL HOK HUSV HNT HNI HNM HMP d r Hb Hbr H' Hlong).
  - exact (is_ascii_l_intro r Hra).
  - intros Hn. exact (to_ascii_dns A cfg d deny hy dns b r H Hn).
Qed.
