(* Proofs/C01_EqRel.v - C01 equivalence for scheme-less references against a base that is neither
   special nor opaque: the Standard's  no scheme -> relative -> relative slash  states
   (specification side, for ANY such base), the way from parse_url to parse_relative (model side),
   and the class "//authority..." (relative slash state -> authority state; after_double_slash on
   "scheme:" of the base), which reuses the authority machinery of C01_EqAuth*.v. *)
From RU Require Import Base.Prelude Base.Utf8 Base.Utf8Facts Model.AsciiSet Gen.Tables
  Model.PercentEncoding Model.HostT Model.UrlRecord Model.Parser Model.Setters Model.WF Model.KnownC08 Spec.Whatwg
  Proofs.ListN Proofs.C14_Set Proofs.C14_Enc Proofs.C14_Views Proofs.C02_Enc Proofs.C02_Parts
  Proofs.C02_Opaque Proofs.C02_Path Proofs.C02_PathL1 Proofs.C03_WF Proofs.C01_Tables Proofs.C08_Input
  Proofs.C01_EqRun Proofs.C01_EqEnc Proofs.C01_EqApi Proofs.C01_EqOpaque Proofs.C01_EqDots Proofs.C01_EqPathSpec
  Proofs.C06_List Proofs.C06_WFI Proofs.C06_Tail Proofs.C06_Steps Proofs.C08_Simple Proofs.C08_Contain Proofs.C08_NoAuth
  Proofs.C01_EqRef Proofs.C01_EqPath Proofs.C01_EqOverflow Proofs.C01_EqEmpty Proofs.C01_EqClasses
  Proofs.C01_EqAuthSpec Proofs.C01_EqAuthModel Proofs.C01_EqAuth Proofs.C01_EqClasses2.

(* ================= specification side ================= *)
(* what the relative / relative slash states keep of the base when a path follows: everything in front
   of the path; query and fragment are null again *)
Definition rel_keep (sb : spec_url) (P : list (list N)) : spec_url :=
  mkSUrl (su_scheme sb) (su_username sb) (su_password sb) (su_host sb) (su_port sb) (SPList P) None None.

(* the path state started on the segment list P0 (empty buffer), on the text t *)
Definition rel_path_result (sb : spec_url) (P0 : list (list N)) (t : list N) : spec_url :=
  tail_url (rel_keep sb (fst (spath t P0 []))) (snd (spath t P0 [])).

Section SpecRel.
Variable shp : bool -> list N -> option spec_host.
Variable inp : list N.                 (* the cleaned reference *)
Variable sb : spec_url.
Hypothesis Hop : has_opaque_path sb = false.
Hypothesis Hnsp : is_special_scheme (su_scheme sb) = false.

Notation RunsB := (Runs shp inp (Some sb)).

Lemma base_not_file : list_eqb (su_scheme sb) str_file = false.
Proof.
  destruct (list_eqb (su_scheme sb) str_file) eqn:E; [|reflexivity]. apply list_eqb_spec in E.
  rewrite E in Hnsp. discriminate Hnsp.
Qed.

(* no scheme state on a non-empty text: the relative state, at the same code point *)
Lemma runs_to_relative res : spec_scheme inp = None -> inp <> [] ->
  RunsB (at_pos StRelative [] [] false false false empty_url) res -> RunsB m0 res.
Proof.
  intros Hs Hne HR. apply runs_no_scheme; [exact Hs|].
  eapply (runs_step_stay shp inp (Some sb) StNoScheme [] inp) with (st' := StRelative) (buf' := []);
    [reflexivity | exact Hne | | exact HR].
  rewrite (step_unfold shp inp (Some sb) _ [] inp) by reflexivity. cbn zeta.
  unfold st_no_scheme. rewrite Hop, base_not_file. cbn [andb negb]. reflexivity.
Qed.

(* relative state on '/': the relative slash state, after it *)
Lemma runs_relative_slash t res : inp = 47 :: t ->
  RunsB (at_pos StRelativeSlash [47] [] false false false (set_scheme empty_url (su_scheme sb))) res ->
  RunsB (at_pos StRelative [] [] false false false empty_url) res.
Proof.
  intros Hin HR.
  eapply (runs_step_next shp inp (Some sb) StRelative [] 47 t) with (st' := StRelativeSlash) (buf' := []);
    [exact Hin | | exact HR].
  rewrite (step_unfold shp inp (Some sb) _ [] (47 :: t)) by exact Hin. cbn zeta. cbn [hd_error].
  unfold st_relative. cbn [cis]. replace (47 =? 47) with true by reflexivity. reflexivity.
Qed.

(* "//T": relative slash state on the second '/': the authority state on T *)
Theorem runs_rel_authority T : inp = 47 :: 47 :: T -> spec_scheme inp = None ->
  match sauth shp (su_scheme sb) T with
  | Some su => RunsB m0 (BDone su)
  | None => exists uf, RunsB m0 (BFailure uf)
  end.
Proof.
  intros Hin Hs.
  assert (forall res, RunsB (at_pos StAuthority [47; 47] [] false false false (set_scheme empty_url (su_scheme sb))) res ->
                      RunsB m0 res) as K.
  { intros res HR. apply runs_to_relative; [exact Hs | rewrite Hin; discriminate|].
    apply (runs_relative_slash (47 :: T) res Hin).
    eapply (runs_step_next shp inp (Some sb) StRelativeSlash [47] 47 T) with (st' := StAuthority) (buf' := []);
      [exact Hin | | exact HR].
    rewrite (step_unfold shp inp (Some sb) _ [47] (47 :: T)) by exact Hin. cbn zeta. cbn [hd_error].
    unfold st_relative_slash, is_special. cbn [m_url at_pos su_scheme set_scheme empty_url]. rewrite Hnsp.
    cbn [andb cis]. replace (47 =? 47) with true by reflexivity. reflexivity. }
  assert (inp = [47; 47] ++ T) as Hin2 by exact Hin.
  pose proof (runs_authority shp inp (Some sb) [47; 47] T (su_scheme sb) Hin2 Hnsp) as RA.
  destruct (sauth shp (su_scheme sb) T) as [su|].
  - apply K. exact RA.
  - destruct RA as [uf RA]. exists uf. apply K. exact RA.
Qed.

Lemma rel_keep_eq P :
  set_port (set_host (set_password (set_username (set_scheme empty_url (su_scheme sb)) (su_username sb))
                                   (su_password sb)) (su_host sb)) (su_port sb)
  = rel_keep sb [] /\ set_path (rel_keep sb []) (SPList P) = rel_keep sb P.
Proof. split; reflexivity. Qed.

(* "/t", t not starting with '/': relative slash state, then the path state on t with an empty path *)
Theorem runs_rel_abs t : inp = 47 :: t -> starts_with_cp 47 t = false ->
  RunsB m0 (BDone (rel_path_result sb [] t)).
Proof.
  intros Hin H47.
  assert (spec_scheme inp = None) as Hs by (rewrite Hin; reflexivity).
  apply runs_to_relative; [exact Hs | rewrite Hin; discriminate|].
  apply (runs_relative_slash t _ Hin).
  assert (inp = [47] ++ t) as Hin2 by exact Hin.
  eapply (runs_step_back shp inp (Some sb) StRelativeSlash [47] t) with (st' := StPath) (buf' := []) (u' := rel_keep sb []);
    [exact Hin2 | |].
  - rewrite (step_unfold shp inp (Some sb) _ [47] t) by exact Hin2. cbn zeta.
    unfold st_relative_slash, is_special. cbn [m_url at_pos su_scheme set_scheme empty_url]. rewrite Hnsp.
    cbn [andb].
    assert (cis (hd_error t) 47 = false) as -> by (destruct t; [reflexivity | exact H47]).
    reflexivity.
  - pose proof (runs_path shp inp (Some sb) t [47] [] false false false (rel_keep sb []) [] Hin2 eq_refl Hnsp base_not_file) as HR.
    exact HR.
Qed.

(* "c t", c none of '/', '?', '#', no scheme: the base's path without its last segment, then the path state
   on the whole text *)
Theorem runs_rel_path c t : inp = c :: t -> spec_scheme inp = None ->
  (c =? 47) = false -> (c =? 63) = false -> (c =? 35) = false ->
  RunsB m0 (BDone (rel_path_result sb (removelast (path_segments sb)) inp)).
Proof.
  intros Hin Hs E47 E63 E35.
  apply runs_to_relative; [exact Hs | rewrite Hin; discriminate|].
  assert (inp = [] ++ inp) as Hin0 by reflexivity.
  assert (su_path sb = SPList (path_segments sb)) as HP.
  { unfold path_segments. unfold has_opaque_path in Hop. destruct (su_path sb); [discriminate Hop | reflexivity]. }
  eapply (runs_step_stay shp inp (Some sb) StRelative [] inp) with (st' := StPath) (buf' := [])
    (u' := rel_keep sb (removelast (path_segments sb))); [reflexivity | rewrite Hin; discriminate | |].
  - rewrite (step_unfold shp inp (Some sb) _ [] inp) by reflexivity. cbn zeta. rewrite Hin. cbn [hd_error].
    unfold st_relative, is_special. cbn [cis m_url at_pos su_scheme set_scheme empty_url]. rewrite Hnsp, E47, E63, E35.
    cbn [andb is_eof negb].
    unfold shorten_path.
    cbn [su_path su_scheme set_query set_path set_port set_host set_password set_username set_scheme empty_url].
    rewrite HP, base_not_file. cbn [andb]. reflexivity.
  - pose proof (runs_path shp inp (Some sb) inp [] [] false false false (rel_keep sb (removelast (path_segments sb)))
                  (removelast (path_segments sb)) Hin0 eq_refl Hnsp base_not_file) as HR.
    exact HR.
Qed.

End SpecRel.

(* ================= model side: from parse_url to parse_relative ================= *)
Section ModelRel.
Variable dbg : bool.
Variable hp hpo : list N -> result host.
Variable hd : host -> list N.
Variable ovr : option (list N -> list N).

Lemma parse_url_relative b input c t :
  cannot_be_a_base b = Some false -> scheme_type_of (b_scheme b) = STNotSpecial ->
  ntnl (input_new_trim_c0 input) = c :: t -> spec_scheme (c :: t) = None -> (c =? 35) = false ->
  parse_url dbg hp hpo hd ovr (Some b) input
  = parse_relative dbg hp hpo hd ovr CUrlParser STNotSpecial b (input_new_trim_c0 input).
Proof.
  intros Hcb Hst Ht Hs E35. unfold parse_url. set (l := input_new_trim_c0 input) in *.
  pose proof (scheme_state_eq l) as K. rewrite Ht, Hs in K.
  destruct (parse_scheme CUrlParser l) as [[s r]|]; [contradiction|].
  destruct (inp_next_some l c t Ht) as (r & En & _ & _).
  unfold inp_starts_with_char. rewrite En, E35, Hcb, Hst. reflexivity.
Qed.

End ModelRel.

(* facts about a related base *)
Section RelatedFacts.
Variable dbg : bool.
Variable shs : spec_host -> list N.

Lemma related_not_cbb b sb : related dbg shs b sb -> has_opaque_path sb = false -> cannot_be_a_base b = Some false.
Proof. intros R Hop. rewrite (rel_cbb _ _ _ _ R), Hop. reflexivity. Qed.

Lemma related_not_special b sb : related dbg shs b sb -> is_special_scheme (su_scheme sb) = false ->
  scheme_type_of (b_scheme b) = STNotSpecial.
Proof. intros R H. rewrite (rel_sch _ _ _ _ R). apply not_special_type. exact H. Qed.

(* "scheme:" of the base *)
Lemma related_scheme_colon b sb : related dbg shs b sb ->
  nfirstn (scheme_end b + 1) (ser b) = su_scheme sb ++ [58] /\ scheme_end b = nlen (su_scheme sb)
  /\ nnth (ser b) (scheme_end b) = Some 58.
Proof.
  intros R. pose proof (rel_wf _ _ _ _ R) as W. destruct (wf_scheme_facts b W) as (_ & Hc & Hlt).
  apply byte_eqb_nnth in Hc. split; [|split; [|exact Hc]].
  - rewrite (nfirstn_succ _ _ 58 Hc). rewrite <- (rel_sch _ _ _ _ R). reflexivity.
  - rewrite <- (rel_sch _ _ _ _ R). unfold b_scheme. rewrite nlen_nfirstn by lia. reflexivity.
Qed.

End RelatedFacts.

(* ================= class "//authority...": scheme-relative references ================= *)
(* recogniser on the Standard's side: base neither opaque nor special, the cleaned reference starts
   with "//", and the text after it is in the authority class of C01_EqClasses2 (exclusions: authority
   exactly ":@", a port followed by '\', a ".." popping a drive-letter-shaped segment) *)
Definition in_class_rel_authority (sb : spec_url) (input : list N) : bool :=
  negb (has_opaque_path sb) && negb (is_special_scheme (su_scheme sb))
  && match spec_clean input with
     | c1 :: c2 :: T => (c1 =? 47) && (c2 =? 47) && auth_class_ok T
     | _ => false
     end.

Definition rel_host_text (input : list N) : list N :=
  match spec_clean input with
  | _ :: _ :: T => auth_host_text T
  | _ => []
  end.

Section RelAuthority.
Variable dbg : bool.
Variable hp hpo : list N -> result host.
Variable hd : host -> list N.
Variable ovr : option (list N -> list N).
Variable shp : bool -> list N -> option spec_host.
Variable shs : spec_host -> list N.

Theorem spec_rel_authority input sb T : has_opaque_path sb = false -> is_special_scheme (su_scheme sb) = false ->
  spec_clean input = 47 :: 47 :: T ->
  match sauth shp (su_scheme sb) T with
  | Some su => spec_basic_url_parse shp input (Some sb) = BDone su
  | None => exists uf, spec_basic_url_parse shp input (Some sb) = BFailure uf
  end.
Proof.
  intros Hop Hnsp Hc.
  assert (spec_scheme (spec_clean input) = None) as Hs by (rewrite Hc; reflexivity).
  pose proof (runs_rel_authority shp (spec_clean input) sb Hop Hnsp T Hc Hs) as K.
  destruct (sauth shp (su_scheme sb) T) as [su|].
  - apply spec_parse_of_runs. exact K.
  - destruct K as [uf K]. exists uf. apply spec_parse_of_runs. exact K.
Qed.

(* the model on "//T": after_double_slash on "scheme:" of the base *)
Lemma model_rel_authority b sb input T : usv_list input -> related dbg shs b sb ->
  has_opaque_path sb = false -> is_special_scheme (su_scheme sb) = false ->
  spec_clean input = 47 :: 47 :: T ->
  exists l, ntnl l = T /\ usv_list l
    /\ parse_url dbg hp hpo hd ovr (Some b) input
       = after_double_slash dbg hp hpo hd ovr CUrlParser STNotSpecial (nlen (su_scheme sb)) (su_scheme sb ++ [58]) l.
Proof.
  intros Hu R Hop Hnsp Hc. rewrite spec_clean_is_ntnl_trim in Hc.
  set (l0 := input_new_trim_c0 input) in *.
  assert (usv_list l0) as Hul0 by (apply usv_trim; exact Hu).
  destruct (split_ss l0 T Hul0 Hc) as (l & Hss & Hl & Hul).
  exists l. split; [exact Hl|]. split; [exact Hul|].
  rewrite (parse_url_relative dbg hp hpo hd ovr b input 47 (47 :: T)
             (related_not_cbb dbg shs b sb R Hop) (related_not_special dbg shs b sb R Hnsp) Hc eq_refl eq_refl).
  fold l0. unfold parse_relative, inp_split_first.
  destruct (inp_next_some l0 47 (47 :: T) Hc) as (r1 & En & _ & _). rewrite En.
  replace (47 =? 63) with false by reflexivity. replace (47 =? 35) with false by reflexivity.
  replace (47 =? 47) with true by reflexivity. cbn [orb st_is_special andb negb].
  destruct (inp_count_matching (fun d => (d =? 47) || (d =? 92) && false) l0) as [sl rem'] eqn:Ecm.
  assert (2 <= sl) as Hsl.
  { pose proof (inp_count_matching_fst (fun d => (d =? 47) || (d =? 92) && false) l0) as Hf.
    rewrite Ecm in Hf. cbn [fst] in Hf. rewrite Hf, Hc. cbn [count_leading].
    replace (47 =? 47) with true by reflexivity. cbn [orb]. lia. }
  replace (2 <=? sl) with true by lia.
  destruct (related_scheme_colon dbg shs b sb R) as (E1 & E2 & E3).
  rewrite E3. replace (58 =? 58) with true by reflexivity.
  unfold dassert. cbn [negb]. rewrite andb_false_r. cbn [pbind].
  rewrite Hss, E1, E2. reflexivity.
Qed.

Theorem class_rel_authority input b sb : usv_list input -> related dbg shs b sb ->
  scheme_canon (su_scheme sb) = true ->
  in_class_rel_authority sb input = true ->
  host_agree hpo hd shp shs (rel_host_text input) ->
  agree_rel_strict dbg shs (parse_url dbg hp hpo hd ovr (Some b) input) (spec_basic_url_parse shp input (Some sb)).
Proof.
  intros Hu R Hcan Hc HA. unfold in_class_rel_authority, rel_host_text in *.
  apply andb_true_iff in Hc. destruct Hc as [Hc Hok]. apply andb_true_iff in Hc. destruct Hc as [H1 H2].
  assert (has_opaque_path sb = false) as Hop by (destruct (has_opaque_path sb); [discriminate | reflexivity]).
  assert (is_special_scheme (su_scheme sb) = false) as Hnsp
    by (destruct (is_special_scheme (su_scheme sb)); [discriminate | reflexivity]).
  destruct (spec_clean input) as [|c1 [|c2 T]] eqn:Ecl; try discriminate Hok.
  apply andb_true_iff in Hok. destruct Hok as [Hok Hok3]. apply andb_true_iff in Hok. destruct Hok as [E1 E2].
  apply N.eqb_eq in E1, E2. subst c1 c2. rename Hok3 into Hok.
  unfold auth_class_ok in Hok. apply andb_true_iff in Hok. destruct Hok as [Hok Hc3].
  apply andb_true_iff in Hok. destruct Hok as [Hc1 Hc2]. apply negb_true_iff in Hc1, Hc2.
  pose proof (spec_rel_authority input sb T Hop Hnsp Ecl) as HS.
  destruct (model_rel_authority b sb input T Hu R Hop Hnsp Ecl) as (l & Hl & Hul & Epu).
  pose proof (not_special_type _ Hnsp) as Hns.
  assert (match auth_path_text (ntnl l) with c :: r => if c =? 47 then spath_ok r [] [] = true else True | [] => True end) as Hc3'.
  { rewrite Hl. destruct (auth_path_text T) as [|c r]; [exact I|]. destruct (c =? 47); [exact Hc3 | exact I]. }
  rewrite <- Hl in Hc1, Hc2, HA.
  pose proof (model_auth dbg hp hpo hd ovr shp shs (su_scheme sb) l Hul Hcan Hns Hc1 Hc2 Hc3' HA) as HM. cbv zeta in HM.
  rewrite Hl in HM. rewrite Epu.
  destruct (sauth shp (su_scheme sb) T) as [su|].
  - rewrite HS. cbn [agree_rel_strict]. destruct HM as (u & HO & Ru & Hle).
    pose proof (related_href dbg shs u su Ru) as Eh. rewrite <- Eh.
    destruct HO as [[E B]|E]; [left; split; assumption | right; exists u; split; assumption].
  - destruct HS as [uf ->]. cbn [agree_rel_strict]. exact HM.
Qed.

End RelAuthority.
