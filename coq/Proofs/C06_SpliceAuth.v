(* Proofs/C06_SpliceAuth.v - WHOLE-URL parser agreement, part 2: URLs with an authority (both canonical classes:
   non-special scheme, special non-file scheme).  The four parser states behind "scheme://" on canonical text
   with any admissible tail, the composition into Parser::parse_url, and the agreement for set_port. *)
From RU Require Import Base.Prelude Base.Utf8 Base.Utf8Facts Model.AsciiSet Gen.Tables
  Model.PercentEncoding Model.HostT Model.UrlRecord Model.Parser Model.Setters Model.WF
  Proofs.ListN Proofs.C14_Set Proofs.C14_Enc Proofs.C14_Views Proofs.C02_Enc Proofs.C02_Parts
  Proofs.C02_Opaque Proofs.C02_Path Proofs.C02_PathL1 Proofs.C02_Reach Proofs.C16_RT Proofs.C02_AuthParts
  Proofs.C02_Auth Proofs.C02_AuthWf Proofs.C02_PathSp Proofs.C02_AuthSp Proofs.C02_AuthMain Proofs.C02_SetQF
  Proofs.C02_Canon Proofs.C02_SetPort Proofs.C06_List Proofs.C06_Agree Proofs.C06_AgreeUrl Proofs.C06_Splice.
Open Scope N_scope.
Open Scope list_scope.

(* the old serialization with ':' and the decimal text of n in the port position *)
Definition splice_port (u : url) (n : N) : list N :=
  nfirstn (host_end u) (ser u) ++ 58 :: decimal n ++ nskipn (path_start u) (ser u).

Section SpliceAuth.
Variable dbg : bool.
Variable hp hpo : list N -> result host.
Variable hd : host -> list N.
Hypothesis HRT : HostRT hp hpo hd.

Notation auth_ok := (auth_ok hp hpo hd).
Notation auth_url := (auth_url hd).
Notation auth_ser := (auth_ser hd).
Notation auth_front := (auth_front hd).
Notation auth_pre := (auth_pre hd).
Notation host_ok := (host_ok hp hpo hd).

(* the two canonical classes with an authority *)
Definition auth_cls (st : scheme_type) (p : pth) : Prop :=
  (st = STNotSpecial /\ pth_ok p) \/ (st = STSpecialNotFile /\ pth_ok_sp p).

Lemma auth_cls_nf st p : auth_cls st p -> st_is_file st = false.
Proof. intros [[-> _]|[-> _]]; reflexivity. Qed.

(* what must stand at the head of the text behind "scheme://" for parse_url to reach after_double_slash there *)
Definition head_cls (st : scheme_type) (T : list N) : Prop :=
  st = STNotSpecial \/ (st = STSpecialNotFile /\ match T with c :: _ => is_tnl c = false /\ is_slash_or_bslash c = false | [] => False end).

(* composition: the four states write the canonical texts => parse_url returns the canonical record *)
Theorem auth_parse st sch ui h pt p q f T R1 R2 R3 hh :
  auth_ok st sch ui h pt p q f -> head_cls st T -> T <> [] -> first_ok (rev T) ->
  parse_userinfo st ((sch ++ [58]) ++ [47; 47]) T
    = POk (((sch ++ [58]) ++ [47; 47]) ++ ui_text ui, nlen ((sch ++ [58]) ++ [47; 47]) + ui_ulen ui, R1) ->
  parse_host_and_port hp hpo hd CUrlParser st (nlen sch) (((sch ++ [58]) ++ [47; 47]) ++ ui_text ui) R1
    = POk (auth_front sch ui h pt, nlen (((sch ++ [58]) ++ [47; 47]) ++ ui_text ui) + nlen (hd h), hi_of_host h, pt, R2) ->
  parse_path_start dbg CUrlParser st true (auth_front sch ui h pt) R2 = POk (auth_pre sch ui h pt p, hh, R3) ->
  parse_query_and_fragment None CUrlParser st (nlen sch) (auth_pre sch ui h pt p) R3
    = POk (auth_ser sch ui h pt p q f, qf_qs (nlen (auth_pre sch ui h pt p)) q, qf_fs (nlen (auth_pre sch ui h pt p)) q f) ->
  parse_url dbg hp hpo hd None None (sch ++ 58 :: 47 :: 47 :: T) = POk (auth_url sch ui h pt p q f).
Proof.
  intros K Hh Hne Hl H1 H2 H3 H4. pose proof (hi_none_ui hp hpo hd _ _ _ _ _ _ _ _ K) as Hemp.
  pose proof (front_len hd sch ui h pt) as FL.
  assert (edge_ok (sch ++ 58 :: 47 :: 47 :: T)) as He.
  { split; [apply scheme_first_ok; exact (ak_sch _ _ _ _ _ _ _ _ _ _ _ K)|].
    change (sch ++ 58 :: 47 :: 47 :: T) with (sch ++ [58; 47; 47] ++ T). rewrite app_assoc. apply first_ok_rev_app2; assumption. }
  assert (nlen sch <= U32_MAX_P) as Hb by (pose proof (ak_b _ _ _ _ _ _ _ _ _ _ _ K); lia).
  destruct Hh as [->|[-> HT]].
  - rewrite parse_url_ads_nonspecial; [| exact (ak_sch _ _ _ _ _ _ _ _ _ _ _ K) | exact (ak_st _ _ _ _ _ _ _ _ _ _ _ K) | exact Hb | exact He].
    exact (ads_compose dbg hp hpo hd None STNotSpecial sch ui h pt p q f T R1 R2 R3 hh (ak_b _ _ _ _ _ _ _ _ _ _ _ K) Hemp H1 H2 H3 H4).
  - rewrite parse_url_ads_special; [| exact (ak_sch _ _ _ _ _ _ _ _ _ _ _ K) | exact (ak_st _ _ _ _ _ _ _ _ _ _ _ K) | exact Hb | exact He | exact HT].
    exact (ads_compose dbg hp hpo hd None STSpecialNotFile sch ui h pt p q f T R1 R2 R3 hh (ak_b _ _ _ _ _ _ _ _ _ _ _ K) Hemp H1 H2 H3 H4).
Qed.

(* the path state on the canonical path of either class *)
Lemma pps_cls st sch ui h pt p X hh : host_ok st h -> auth_cls st p -> qh_ok X ->
  parse_path_start dbg CUrlParser st hh (auth_front sch ui h pt) (pth_text p ++ X) = POk (auth_pre sch ui h pt p, hh, X).
Proof.
  intros Kh [[-> Kp]|[-> Kp]] HX.
  - apply pps_canon; assumption.
  - destruct p as [[segs last]|]; [|contradiction]. destruct Kp as [Ksg Kla]. unfold C02_Auth.auth_pre. cbn [pth_text].
    apply pps_canon_sp; try assumption. apply (front_not_slash hp hpo hd). exact Kh.
Qed.

Lemma pth_cls_ok st p : auth_cls st p -> pth_ok p.
Proof. intros [[_ H]|[_ H]]; [exact H | apply pth_ok_sp_ok; exact H]. Qed.

Lemma qf_qh_ok q f : qh_ok (qf_text q f).
Proof. unfold qf_text. destruct q; destruct f; cbn; auto. Qed.

(* everything behind the port of a canonical record: above U+0020, and '/'-, '?'- or '#'-led *)
Lemma back_above st p q f : auth_cls st p -> opt_clean (query_set st) q -> opt_clean T_FRAGMENT f ->
  forallb above_space (pth_text p ++ qf_text q f) = true.
Proof.
  intros Hc Hq Hf. rewrite forallb_app. apply andb_true_iff. split; apply okc_above.
  - apply pth_text_okc. exact (pth_cls_ok st p Hc).
  - apply (qf_text_okc st); assumption.
Qed.

(* ---------- set_port on a canonical record, result explicit ---------- *)
Definition norm_pt (sch : list N) (n : N) : option N := if opt_eqb (Some n) (default_port sch) then None else Some n.

Theorem set_port_auth_eq st sch ui h pt p q f n u' : auth_ok st sch ui h pt p q f -> st_is_file st = false ->
  set_port dbg (auth_url sch ui h pt p q f) (Some n) = Some (u', SOk) ->
  h <> HDomain [] /\ u' = auth_url sch ui h (norm_pt sch n) p q f.
Proof.
  intros K Hnf. unfold set_port. rewrite (auth_cannot_port hp hpo hd st sch ui h pt p q f K Hnf). cbn [bindo].
  destruct (match h with HDomain [] => true | _ => false end) eqn:Eh; [discriminate|].
  assert (h <> HDomain []) as Hne by (intros ->; discriminate Eh).
  rewrite auth_scheme. cbn [bindo]. rewrite auth_url_hp. rewrite set_port_internal_frame. cbn [bindo].
  intros E. inversion E; subst u'. clear E. rewrite <- auth_url_hp. split; [exact Hne | reflexivity].
Qed.

(* the host-and-port state on: canonical host, RAW decimal port *)
Lemma phap_raw_port st sch ui h n X : st_is_file st = false -> host_ok st h -> h <> HDomain [] -> n <= 65535 -> tail_ok X ->
  nlen (auth_front sch ui h (norm_pt sch n)) <= U32_MAX_P ->
  parse_host_and_port hp hpo hd CUrlParser st (nlen sch) (((sch ++ [58]) ++ [47; 47]) ++ ui_text ui) (hd h ++ 58 :: decimal n ++ X)
  = POk (auth_front sch ui h (norm_pt sch n), nlen (((sch ++ [58]) ++ [47; 47]) ++ ui_text ui) + nlen (hd h),
         hi_of_host h, norm_pt sch n, X).
Proof.
  intros Hnf Kh Hne Hn HX Kb. pose proof (front_len hd sch ui h (norm_pt sch n)) as FL.
  rewrite phap_unfold. change (hd h ++ 58 :: decimal n ++ X) with (hd h ++ port_text (Some n) ++ X).
  rewrite (parse_host_canon hp hpo hd HRT st Hnf h (Some n) X Kh (fun E => False_ind _ (Hne E)) HX). cbn [pbind port_text app].
  unfold hap_tail. rewrite nlen_app. rewrite to_u32_ok by (clear - Kb FL; llia). cbn [pbind].
  set (chk := match h with HDomain [] => _ | _ => POk tt end).
  assert (chk = POk tt) as -> by (unfold chk; destruct h as [[|d0 d]|a|pcs]; try reflexivity; contradiction).
  cbn [pbind]. unfold inp_split_prefix_char at 1. rewrite inp_next_cons by reflexivity.
  replace (58 =? 58) with true by reflexivity.
  rewrite parse_port_decimal by (try assumption; apply tail_pe; exact HX). cbn [pbind].
  replace (nfirstn (nlen sch) ((((sch ++ [58]) ++ [47; 47]) ++ ui_text ui) ++ hd h)) with sch
    by (rewrite <- !app_assoc; symmetry; apply nfirstn_app_len).
  fold (norm_pt sch n). rewrite <- (front_eq hd sch ui h (norm_pt sch n)).
  destruct (norm_pt sch n) as [m|]; cbn [port_text]; [rewrite <- app_assoc | rewrite app_nil_r]; reflexivity.
Qed.

Lemma norm_pt_ok sch n : n <= 65535 -> port_ok (default_port sch) (norm_pt sch n).
Proof.
  intros Hn. unfold norm_pt. destruct (opt_eqb (Some n) (default_port sch)) eqn:Eo; [exact I|].
  split; [exact Hn | exact (opt_eqb_false _ _ Eo)].
Qed.

Lemma digits_above ds : forallb is_digit ds = true -> forallb above_space ds = true.
Proof. apply forallb_impl. intros c H. unfold is_digit, above_space, is_c0_or_space in *. lia. Qed.

Lemma splice_port_auth sch ui h pt p q f n :
  splice_port (auth_url sch ui h pt p q f) n
  = sch ++ 58 :: 47 :: 47 :: ui_text ui ++ hd h ++ 58 :: decimal n ++ pth_text p ++ qf_text q f.
Proof.
  unfold splice_port. rewrite auth_url_hp. rewrite hp_ser.
  change (host_end (hp_url (auth_A sch ui ++ hd h) pt (pth_text p) (nlen sch) (nlen sch + 3 + ui_ulen ui)
             (nlen sch + 3 + nlen (ui_text ui)) (hi_of_host h) q f)) with (nlen (auth_A sch ui ++ hd h)).
  change (path_start (hp_url (auth_A sch ui ++ hd h) pt (pth_text p) (nlen sch) (nlen sch + 3 + ui_ulen ui)
             (nlen sch + 3 + nlen (ui_text ui)) (hi_of_host h) q f)) with (nlen ((auth_A sch ui ++ hd h) ++ port_text pt)).
  rewrite nfirstn_app_len. rewrite (app_assoc (auth_A sch ui ++ hd h)). rewrite nskipn_app_len.
  unfold auth_A. rewrite <- !app_assoc. reflexivity.
Qed.

Theorem splice_port_auth_parse st sch ui h pt p q f n u' : auth_ok st sch ui h pt p q f -> auth_cls st p -> n <= 65535 ->
  set_port dbg (auth_url sch ui h pt p q f) (Some n) = Some (u', SOk) -> nlen (ser u') <= U32_MAX_P ->
  parse_url dbg hp hpo hd None None (splice_port (auth_url sch ui h pt p q f) n) = POk u'.
Proof.
  intros K Hc Hn E Hb. pose proof (auth_cls_nf st p Hc) as Hnf.
  destruct (set_port_auth_eq st sch ui h pt p q f n u' K Hnf E) as [Hne ->]. cbn [ser C02_Auth.auth_url] in Hb.
  pose proof (auth_ok_port hp hpo hd st sch ui h pt p q f (norm_pt sch n) K Hne (norm_pt_ok sch n Hn) Hb) as K'.
  rewrite splice_port_auth.
  destruct K as [Ksch Kst Kui Kh Kemp Kpt Kp Kq Kf Kb Kbq Kbf].
  set (back := pth_text p ++ qf_text q f).
  assert (tail_ok back) as Htail by (apply pth_tail; apply qf_qh_ok).
  assert (forallb above_space (58 :: decimal n ++ back) = true) as Hab.
  { cbn [forallb]. rewrite forallb_app. rewrite (digits_above _ (proj2 (port_rt n Hn))). exact (back_above st p q f Hc Kq Kf). }
  pose proof (front_len hd sch ui h (norm_pt sch n)) as FL. pose proof (ui_ulen_le ui) as UL.
  pose proof (ak_b _ _ _ _ _ _ _ _ _ _ _ K') as Kb'.
  apply (auth_parse st sch ui h (norm_pt sch n) p q f _ (hd h ++ 58 :: decimal n ++ back) back (qf_text q f) true K').
  - destruct Hc as [[-> _]|[-> _]]; [left; reflexivity | right; split; [reflexivity|]].
    apply (rest_head hp hpo hd); assumption.
  - intros E0. apply (f_equal (@length N)) in E0. rewrite !app_length in E0. cbn [length] in E0. lia.
  - rewrite (app_assoc (ui_text ui)). apply first_ok_rev_app; [discriminate | apply forallb_above; exact Hab].
  - apply parse_userinfo_canon; [exact Kui | | clear - Kb' FL UL; llia].
    apply (auth_scan hp hpo hd HRT st h (Some n) back Kh (fun E0 => False_ind _ (Hne E0)) Hn Htail).
  - apply phap_raw_port; assumption.
  - apply pps_cls; [exact Kh | exact Hc | apply qf_qh_ok].
  - apply pqf_canon; [reflexivity | exact Kq | exact Kf | exact (ak_bq _ _ _ _ _ _ _ _ _ _ _ K') | exact (ak_bf _ _ _ _ _ _ _ _ _ _ _ K')].
Qed.

(* WHOLE-URL agreement for set_port: any u16; no exclusion (a successful call means the URL has a non-empty host) *)
Theorem splice_agreement_set_port u n u' : Canon hp hpo hd u -> n <= 65535 ->
  set_port dbg u (Some n) = Some (u', SOk) -> nlen (ser u') <= U32_MAX_P ->
  parse_url dbg hp hpo hd None None (splice_port u n) = POk u'.
Proof.
  intros C Hn. destruct C as [sch P q f K | sch segs last q f K | sch ui h pt p q f K | sch ui h pt p q f K Kp].
  - unfold set_port, cannot_have_credentials_or_port, has_host. cbn [opaque_url hosti negb bindo]. discriminate.
  - unfold set_port, cannot_have_credentials_or_port, has_host. cbn [noauth_url hosti negb bindo]. discriminate.
  - apply (splice_port_auth_parse STNotSpecial); [exact K | left; split; [reflexivity | exact (ak_p _ _ _ _ _ _ _ _ _ _ _ K)] | exact Hn].
  - apply (splice_port_auth_parse STSpecialNotFile); [exact K | right; split; [reflexivity | exact Kp] | exact Hn].
Qed.

End SpliceAuth.
