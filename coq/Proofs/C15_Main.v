(* Proofs/C15_Main.v - the C15 statements for the String target and the default (UTF-8) encoding. *)
From RU Require Import Base.Prelude Base.Utf8 Base.Utf8Facts Base.Outcome_c15 Model.AsciiSet Gen.Tables
  Model.PercentEncoding Model.FormUrlencoded Proofs.C14_Set Proofs.C14_Enc Proofs.C14_Views Proofs.C15_Table
  Proofs.C15_Parse Proofs.C15_Bser Proofs.C15_Ser.

(* Serializer::for_suffix(target: String, start) . ops . finish() *)
Definition str_session (target : list N) (start : N) (ops : list ser_op) : outcome (list N) :=
  ser_session (list N) (list N) str_get str_set str_fin target start ops.

(* ---------------------------------------------------------------- append-only histories, UTF-8 *)
Definition key_pairs (k : list N) : pairs := match k with [] => [] | _ => [(k, [])] end.

(* the pairs an operation appends: a key without value reads back with the empty value; the empty key
   writes nothing *)
Definition op_appended (op : ser_op) : pairs :=
  match op with
  | OpAppendPair n v => [(n, v)]
  | OpAppendKeyOnly k => key_pairs k
  | OpExtendPairs l => l
  | OpExtendKeysOnly l => flat_map key_pairs l
  | OpClear => []
  | OpEncodingOverride _ => []
  end.

Definition append_only (ops : list ser_op) : bool :=
  forallb (fun op => match op with OpClear => false | OpEncodingOverride _ => false | _ => true end) ops.

Lemma eff_pair_default n v : usv_list n -> usv_list v -> eff_pair None n v = [(n, v)].
Proof. intros Hn Hv. unfold eff_pair. rewrite !dec_of_default by assumption. reflexivity. Qed.

Lemma eff_key_default k : usv_list k -> eff_key None k = key_pairs k.
Proof.
  intros Hk. unfold eff_key, key_pairs. cbn [fu_encode]. destruct k as [|c r]; [reflexivity|].
  destruct (utf8_encode (c :: r)) eqn:E.
  - apply (proj1 (utf8_encode_nil_iff _)) in E. discriminate.
  - cbn [is_empty]. rewrite dec_of_default by exact Hk. reflexivity.
Qed.

Lemma eff_pairs_default l : Forall (fun p => usv_list (fst p) /\ usv_list (snd p)) l ->
  flat_map (fun p => eff_pair None (fst p) (snd p)) l = l.
Proof.
  induction l as [|[n v] r IH]; intros H; [reflexivity|].
  inversion H as [|? ? [Hn Hv] Hr]; subst. cbn [flat_map fst snd] in *.
  rewrite eff_pair_default by assumption. cbn [app]. f_equal. apply IH. exact Hr.
Qed.

Lemma eff_keys_default l : Forall usv_list l -> flat_map (eff_key None) l = flat_map key_pairs l.
Proof.
  induction l as [|k r IH]; intros H; [reflexivity|].
  inversion H as [|? ? Hk Hr]; subst. cbn [flat_map]. rewrite eff_key_default by exact Hk.
  f_equal. apply IH. exact Hr.
Qed.

Lemma ops_effect_append_only ops : forall old, append_only ops = true -> Forall op_ok ops ->
  ops_effect (None, old) ops = (None, old ++ flat_map op_appended ops).
Proof.
  induction ops as [|op r IH]; intros old Ha Ho.
  - cbn. rewrite app_nil_r. reflexivity.
  - cbn [append_only forallb] in Ha. apply andb_true_iff in Ha. destruct Ha as [Ha1 Ha2].
    inversion Ho as [|? ? Ho1 Ho2]; subst. unfold ops_effect in *. cbn [fold_left flat_map].
    destruct op as [n v|k|l|l| |o]; try discriminate; cbn [op_effect op_appended op_ok] in *.
    + destruct Ho1 as [Hn Hv]. rewrite eff_pair_default by assumption.
      rewrite (IH _ Ha2 Ho2). rewrite <- !app_assoc. reflexivity.
    + rewrite eff_key_default by assumption. rewrite (IH _ Ha2 Ho2). rewrite <- !app_assoc. reflexivity.
    + rewrite eff_pairs_default by assumption. rewrite (IH _ Ha2 Ho2). rewrite <- !app_assoc. reflexivity.
    + rewrite eff_keys_default by assumption. rewrite (IH _ Ha2 Ho2). rewrite <- !app_assoc. reflexivity.
Qed.

Lemma append_only_no_clear ops : append_only ops = true -> has_clear ops = false.
Proof.
  induction ops as [|op r IH]; [reflexivity|]. cbn [append_only forallb has_clear existsb].
  intros H. apply andb_true_iff in H. destruct H as [H1 H2].
  destruct op; try discriminate; cbn [orb]; apply IH; exact H2.
Qed.

(* ---------------------------------------------------------------- known class F-C15-1 *)
(* for_suffix accepts a start_position inside a multi-byte character; a later clear() then panics in
   String::truncate *)
Definition Known_C15_1 (target : list N) (start : N) (ops : list ser_op) : Prop :=
  is_char_boundary target start = false /\ has_clear ops = true.

Lemma not_known_C15_1 target start ops : ~ Known_C15_1 target start ops ->
  is_char_boundary target start = true \/ has_clear ops = false.
Proof.
  unfold Known_C15_1. intros H. destruct (is_char_boundary target start); [left; reflexivity|].
  destruct (has_clear ops); [exfalso; apply H; split; reflexivity | right; reflexivity].
Qed.

Theorem C15_1_refuted : exists target start ops,
  Known_C15_1 target start ops /\ start <= nlen target /\ Forall op_ok ops
  /\ str_session target start ops = Panic T_FORM_SITE_CLEAR_TRUNCATE.
Proof.
  exists [195; 169], 1, [OpClear]. split; [split; reflexivity|]. split; [vm_compute; discriminate|].
  split; [repeat constructor|]. vm_compute. reflexivity.
Qed.

(* ---------------------------------------------------------------- the for_suffix theorem, String target *)
Theorem str_session_ok target start ops :
  Forall op_ok ops -> start <= nlen target -> ~ Known_C15_1 target start ops ->
  exists result, str_session target start ops = Ok result
    /\ pre start result = pre start target
    /\ parse (suf start result) = Some (snd (ops_effect (None, parse_spec (suf start target)) ops))
    /\ (Forall (fun c => form_alpha c = true) (suf start target) ->
        Forall (fun c => form_alpha c = true) (suf start result)).
Proof.
  intros Ho Hs Hk. apply not_known_C15_1 in Hk.
  destruct (session_ok (list N) (list N) str_get str_set str_fin
              (fun _ _ => eq_refl) (fun _ _ _ => eq_refl) (fun _ => eq_refl) target start ops Ho Hs Hk)
    as (s' & H1 & H2 & H3 & H4 & H5).
  exists s'. repeat split; assumption.
Qed.

(* append-only histories: what is read back is the old pairs followed by the appended ones *)
Theorem str_session_append target start ops :
  Forall op_ok ops -> append_only ops = true -> start <= nlen target ->
  exists result, str_session target start ops = Ok result
    /\ pre start result = pre start target
    /\ (exists old, parse (suf start target) = Some old
                    /\ parse (suf start result) = Some (old ++ flat_map op_appended ops))
    /\ (Forall (fun c => form_alpha c = true) (suf start target) ->
        Forall (fun c => form_alpha c = true) (suf start result)).
Proof.
  intros Ho Ha Hs.
  assert (Hk : ~ Known_C15_1 target start ops).
  { intros [_ Hc]. rewrite (append_only_no_clear ops Ha) in Hc. discriminate. }
  destruct (str_session_ok target start ops Ho Hs Hk) as (r & H1 & H2 & H3 & H4).
  exists r. split; [exact H1|]. split; [exact H2|]. split; [|exact H4].
  exists (parse_spec (suf start target)). split; [apply parse_is_spec|].
  rewrite H3, ops_effect_append_only by assumption. reflexivity.
Qed.

(* ---------------------------------------------------------------- round trip and alphabet *)
Definition usv_pairs (l : pairs) : Prop := Forall (fun p => usv_list (fst p) /\ usv_list (snd p)) l.

Lemma suf0 s : suf 0 s = s.
Proof. reflexivity. Qed.

Theorem serialize_pairs_rt l : usv_pairs l ->
  exists out, serialize_pairs l = Ok out /\ parse out = Some l
              /\ Forall (fun c => form_alpha c = true) out.
Proof.
  intros Hl.
  destruct (str_session_append [] 0 [OpExtendPairs l]) as (r & H1 & _ & (old & Ho & H3) & H4).
  - constructor; [exact Hl | constructor].
  - reflexivity.
  - unfold nlen. cbn. lia.
  - exists r. split; [exact H1|]. rewrite !suf0 in *. split.
    + rewrite parse_is_spec in Ho. inversion Ho; subst old. rewrite H3. cbn [flat_map op_appended app].
      rewrite app_nil_r. reflexivity.
    + apply H4. constructor.
Qed.

(* the same through a sequence of append_pair calls *)
Theorem append_pairs_rt l : usv_pairs l ->
  exists out, str_session [] 0 (map (fun p => OpAppendPair (fst p) (snd p)) l) = Ok out
              /\ parse out = Some l /\ Forall (fun c => form_alpha c = true) out.
Proof.
  intros Hl.
  destruct (str_session_append [] 0 (map (fun p => OpAppendPair (fst p) (snd p)) l)) as (r & H1 & _ & (old & Ho & H3) & H4).
  - apply Forall_forall. intros op Hin. apply in_map_iff in Hin. destruct Hin as (p & <- & Hp).
    unfold usv_pairs in Hl. rewrite Forall_forall in Hl. exact (Hl p Hp).
  - clear Hl. induction l as [|p r IH]; [reflexivity | exact IH].
  - unfold nlen. cbn. lia.
  - exists r. split; [exact H1|]. rewrite !suf0 in *. split.
    + rewrite parse_is_spec in Ho. inversion Ho; subst old. rewrite H3. rewrite parse_spec_nil. cbn [app]. f_equal.
      clear. induction l as [|[n v] r IH]; [reflexivity|]. cbn [map flat_map op_appended fst snd app].
      f_equal. exact IH.
    + apply H4. constructor.
Qed.

(* every history on an empty String (any mix of operations, any byte-valued overrides) writes only the
   alphabet *)
Theorem str_session_alpha ops : Forall op_ok ops ->
  exists out, str_session [] 0 ops = Ok out /\ Forall (fun c => form_alpha c = true) out.
Proof.
  intros Ho.
  destruct (str_session_ok [] 0 ops Ho) as (r & H1 & _ & _ & H4).
  - unfold nlen. cbn. lia.
  - intros [Hb _]. discriminate.
  - exists r. split; [exact H1|]. rewrite !suf0 in H4. apply H4. constructor.
Qed.

Lemma form_alpha_spec c : form_alpha c = true <->
  (is_alnum c = true \/ In c [42; 45; 46; 95; 43; 37; 38; 61]).
Proof.
  unfold form_alpha, val_alpha, unchanged_spec. cbn [In]. split.
  - intros H. destruct (is_alnum c); [left; reflexivity|]. right. lia.
  - intros [H|H]; [rewrite H; reflexivity|]. destruct (is_alnum c); [reflexivity|]. lia.
Qed.
