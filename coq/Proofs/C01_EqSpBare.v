(* Proofs/C01_EqSpBare.v - the bare same-scheme references against a special non-file base:
   "sch:" followed by nothing, by "?query[#fragment]" or by "#fragment", sch the scheme of the base.
   The Standard: scheme state -> special relative or authority -> relative state at EOF / '?' / '#': the base
   without fragment, resp. with the new query / fragment.  parser.rs: parse_relative on the text after "sch:"
   (the same three arms the scheme-less references "", "?q", "#f" take). *)
From RU Require Import Base.Prelude Base.Utf8 Base.Utf8Facts Model.AsciiSet Gen.Tables
  Model.PercentEncoding Model.HostT Model.UrlRecord Model.Parser Model.Setters Model.WF Model.KnownC08 Spec.Whatwg
  Proofs.ListN Proofs.C14_Enc Proofs.C02_Enc Proofs.C02_Parts Proofs.C02_Opaque
  Proofs.C03_WF Proofs.C06_List Proofs.C06_WFI Proofs.C06_Tail Proofs.C06_Steps Proofs.C06_FragQuery Proofs.C01_Tables
  Proofs.C08_Input Proofs.C08_Simple
  Proofs.C01_EqRun Proofs.C01_EqEnc Proofs.C01_EqApi Proofs.C01_EqOpaque Proofs.C01_EqRef Proofs.C01_EqEmpty
  Proofs.C01_EqPathSpec Proofs.C01_EqPath Proofs.C01_EqOverflow Proofs.C01_EqClasses
  Proofs.C01_EqAuthSpec Proofs.C01_EqAuthModel Proofs.C01_EqAuth Proofs.C01_EqClasses2 Proofs.C01_EqRel Proofs.C01_EqRelPath
  Proofs.C01_EqRelArms Proofs.C01_EqRelBase
  Proofs.C01_EqSpSpec Proofs.C01_EqSpPath Proofs.C01_EqSpModel Proofs.C01_EqSp Proofs.C01_EqSpBase.

(* ================= the relative state at EOF, '?' and '#', at any position ================= *)
Section SpecBare.
Variable shp : bool -> list N -> option spec_host.
Variable inp : list N.
Variable sb : spec_url.
Hypothesis Hsp : is_special_scheme (su_scheme sb) = true.

Notation RunsB := (Runs shp inp (Some sb)).
Notation u0 := (set_scheme empty_url (su_scheme sb)).

Lemma runs_relative_eof pre : inp = pre ++ [] ->
  RunsB (at_pos StRelative pre [] false false false u0) (BDone (set_fragment sb None)).
Proof.
  intros Hin.
  eapply (R_end shp inp (Some sb)) with (m' := at_pos StRelative pre [] false false false (set_fragment sb None)).
  - rewrite (step_unfold shp inp (Some sb) _ pre []) by exact Hin. cbn zeta. cbn [hd_error tl].
    unfold st_relative. cbn [cis andb is_eof negb m_url at_pos]. rewrite andb_false_r.
    unfold set_url, at_pos. cbn [m_state m_ptr m_buf m_at m_br m_pw]. destruct sb; reflexivity.
  - cbn [m_ptr at_pos]. rewrite (len_split shp _ _ _ Hin). cbn [length]. lia.
Qed.

Lemma runs_relative_query pre q : inp = pre ++ 63 :: q ->
  RunsB (at_pos StRelative pre [] false false false u0) (BDone (ref_result sb q)).
Proof.
  intros Hin.
  eapply (runs_step_next shp inp (Some sb) StRelative pre 63 q) with (st' := StQuery) (buf' := []); [exact Hin | |].
  - rewrite (step_unfold shp inp (Some sb) _ pre (63 :: q)) by exact Hin. cbn zeta. cbn [hd_error tl].
    unfold st_relative. cbn [cis andb].
    replace (63 =? 47) with false by reflexivity. replace (63 =? 92) with false by reflexivity.
    replace (63 =? 63) with true by reflexivity. rewrite andb_false_r. reflexivity.
  - match goal with |- Runs _ _ _ (at_pos _ _ _ _ _ _ ?u1) _ =>
      pose proof (runs_query shp inp (Some sb) q (pre ++ [63]) [] false false false u1 [] (snoc_split _ _ _ _ Hin) eq_refl) as HR
    end.
    match type of HR with Runs _ _ _ _ (BDone ?x) => replace (ref_result sb q) with x; [exact HR|] end.
    unfold ref_result, query_final, qset_of, is_special. cbn [su_scheme set_query set_path set_host set_scheme
      set_port set_password set_username app m_url at_pos].
    destruct (after_hash q); destruct sb; reflexivity.
Qed.

Lemma runs_relative_fragment pre f : inp = pre ++ 35 :: f ->
  RunsB (at_pos StRelative pre [] false false false u0) (BDone (set_fragment sb (Some (upe in_fragment_set f)))).
Proof.
  intros Hin.
  eapply (runs_step_next shp inp (Some sb) StRelative pre 35 f) with (st' := StFragment) (buf' := []); [exact Hin | |].
  - rewrite (step_unfold shp inp (Some sb) _ pre (35 :: f)) by exact Hin. cbn zeta. cbn [hd_error tl].
    unfold st_relative. cbn [cis andb].
    replace (35 =? 47) with false by reflexivity. replace (35 =? 92) with false by reflexivity.
    replace (35 =? 63) with false by reflexivity. replace (35 =? 35) with true by reflexivity.
    rewrite andb_false_r. reflexivity.
  - match goal with |- Runs _ _ _ (at_pos _ _ _ _ _ _ ?u1) _ =>
      pose proof (runs_fragment shp inp (Some sb) f (pre ++ [35]) [] false false false u1 [] (snoc_split _ _ _ _ Hin) eq_refl) as HR
    end.
    match type of HR with Runs _ _ _ _ (BDone ?x) =>
      replace (set_fragment sb (Some (upe in_fragment_set f))) with x; [exact HR|]
    end.
    cbn [m_url at_pos]. destruct sb; reflexivity.
Qed.

End SpecBare.

(* ================= the class ================= *)
Definition bare_result (sb : spec_url) (R : list N) : spec_url :=
  match R with
  | [] => set_fragment sb None
  | c :: r => if c =? 63 then ref_result sb r else set_fragment sb (Some (upe in_fragment_set r))
  end.

Definition in_class_same_bare (sb : spec_url) (input : list N) : bool :=
  sp_base_ok sb
  && match spec_scheme (spec_clean input) with
     | Some (sch, R) => list_eqb sch (su_scheme sb) && match R with [] => true | c :: _ => is_qh c end
     | None => false
     end.

Lemma bare_result_base_ok sb R : spec_base_ok (bare_result sb R) = spec_base_ok sb.
Proof.
  unfold bare_result. destruct R as [|c r]; [apply base_ok_set_fragment|].
  destruct (c =? 63); [|apply base_ok_set_fragment].
  unfold ref_result. rewrite base_ok_set_fragment. apply base_ok_set_query.
Qed.

Section BareClass.
Variable dbg : bool.
Variable hp hpo : list N -> result host.
Variable hd : host -> list N.
Variable shp : bool -> list N -> option spec_host.
Variable shs : spec_host -> list N.

Theorem spec_same_bare input sb R : sp_base_ok sb = true ->
  spec_scheme (spec_clean input) = Some (su_scheme sb, R) ->
  match R with [] => True | c :: _ => is_qh c = true end ->
  spec_basic_url_parse shp input (Some sb) = BDone (bare_result sb R).
Proof.
  intros Hb Es HR. destruct (sp_base_ok_facts sb Hb) as (Hop & Hsp & Hnf & h & Eh).
  apply spec_parse_of_runs.
  destruct (runs_scheme shp (spec_clean input) (Some sb) (su_scheme sb) R (BDone (bare_result sb R)) Es) as (pre & Hin & K).
  apply K.
  apply (runs_scheme_colon_same shp _ sb Hsp Hnf pre R _ Hin).
  assert (spec_clean input = (pre ++ [58]) ++ R) as Hin2 by (rewrite Hin, <- app_assoc; reflexivity).
  apply (runs_sroa_relative shp _ sb (pre ++ [58]) R _ Hin2).
  { destruct R as [|c r]; [reflexivity|]. cbn [hd_error cis]. unfold is_qh in HR.
    assert ((c =? 47) = false) as -> by lia. reflexivity. }
  unfold bare_result. destruct R as [|c r].
  - exact (runs_relative_eof shp _ sb Hsp (pre ++ [58]) Hin2).
  - unfold is_qh in HR. destruct (c =? 63) eqn:E63.
    + apply N.eqb_eq in E63. subst c. exact (runs_relative_query shp _ sb Hsp (pre ++ [58]) r Hin2).
    + cbn [orb] in HR. apply N.eqb_eq in HR. subst c. exact (runs_relative_fragment shp _ sb Hsp (pre ++ [58]) r Hin2).
Qed.

Lemma href_ge_scheme su : nlen (su_scheme su) <= nlen (get_href shs su).
Proof. unfold get_href, serialize_url. rewrite nlen_app. lia. Qed.

Lemma bind_u32_strict n (m : pres url) su : agree_rel_strict dbg shs m (BDone su) -> n <= nlen (get_href shs su) ->
  agree_rel_strict dbg shs (' _ <~ to_u32 n ;; m) (BDone su).
Proof.
  intros A Hn. unfold to_u32. destruct (n <=? U32_MAX_P) eqn:E; cbn [pbind]; [exact A|].
  cbn [agree_rel_strict]. left. split; [reflexivity | lia].
Qed.

(* the three arms of parse_relative *)
Lemma model_bare_empty b sb l : related dbg shs b sb -> ntnl l = [] ->
  agree_rel_strict dbg shs (parse_relative dbg hp hpo hd None CUrlParser STSpecialNotFile b l) (BDone (set_fragment sb None)).
Proof.
  intros R He. unfold parse_relative, inp_split_first. rewrite (inp_next_none l He).
  cbn [agree_rel_strict]. right. exists (without_fragment b). split; [reflexivity|].
  exact (related_without_fragment dbg hp hpo shp shs b sb R).
Qed.

Lemma model_bare_fragment b sb l f : related dbg shs b sb -> usv_list l -> ntnl l = 35 :: f ->
  agree_rel_strict dbg shs (parse_relative dbg hp hpo hd None CUrlParser STSpecialNotFile b l)
                   (BDone (set_fragment sb (Some (upe in_fragment_set f)))).
Proof.
  intros R Hl He. destruct (inp_next_some l 35 f He) as (r & En & Er & _).
  unfold parse_relative, inp_split_first. rewrite En. cbn [N.eqb Pos.eqb].
  unfold fragment_only. rewrite En.
  assert (get_href shs (set_fragment sb (Some (upe in_fragment_set f)))
          = serialize_url shs sb true ++ 35 :: upe in_fragment_set f) as EH.
  { unfold get_href, serialize_url.
    cbn [su_scheme su_username su_password su_host su_port su_path su_query su_fragment set_fragment
         includes_credentials serialize_path].
    rewrite !app_nil_r. rewrite <- !app_assoc. reflexivity. }
  destruct (to_u32_cases (nlen (b_before_fragment b))) as [(m & Em & Emn)|[Em B]]; rewrite Em; cbn [pbind].
  - subst m. rewrite parse_fragment_text. rewrite tnl_text_spec by (eapply inp_next_usv; eassumption).
    change (filter not_tnl r) with (ntnl r). rewrite Er.
    cbn [agree_rel_strict]. right. exists (with_fragment b (encode T_FRAGMENT (utf8_encode f))). split.
    + unfold with_fragment, url_with. rewrite <- app_assoc. reflexivity.
    + unfold upe. rewrite <- (enc_bridge T_FRAGMENT in_fragment_set f rel_FRAGMENT).
      apply related_with_fragment. exact R.
  - cbn [agree_rel_strict]. left. split; [reflexivity|]. rewrite EH. rewrite (rel_bf _ _ _ _ R) in B.
    pose proof (nlen_app_le (serialize_url shs sb true) (35 :: upe in_fragment_set f)). lia.
Qed.

Lemma model_bare_query b sb l q : related dbg shs b sb -> has_opaque_path sb = false ->
  is_special_scheme (su_scheme sb) = true -> list_eqb (su_scheme sb) str_file = false ->
  usv_list l -> ntnl l = 63 :: q ->
  agree_rel_strict dbg shs (parse_relative dbg hp hpo hd None CUrlParser STSpecialNotFile b l) (BDone (ref_result sb q)).
Proof.
  intros R Hop Hsp Hnf Hl He. pose proof (rel_wf _ _ _ _ R) as W.
  destruct (inp_next_some l 63 q He) as (r & En & Er & Et).
  pose proof (special_type_related dbg shs b sb R Hsp Hnf) as Hst.
  assert (b_st b = STSpecialNotFile) as Hbst by exact Hst.
  unfold parse_relative, inp_split_first. rewrite En. cbn [N.eqb Pos.eqb].
  rewrite <- Hbst.
  assert (pqf_q (b_st b) l = Some (upe (qset_of sb) (before_hash q))) as Pq.
  { unfold pqf_q. rewrite En. replace (63 =? 63) with true by reflexivity. f_equal.
    unfold query_of, b_st, qset_of, is_special, query_set. rewrite (rel_sch _ _ _ _ R).
    rewrite special_schemes_are_the_standards, before_hash_ntnl, Er.
    destruct (is_special_scheme (su_scheme sb)); apply enc_bridge; [exact rel_SPECIAL_QUERY | exact rel_QUERY]. }
  assert (pqf_f l = option_map (upe in_fragment_set) (after_hash q)) as Pf.
  { unfold pqf_f. rewrite En. replace (63 =? 63) with true by reflexivity. replace (63 =? 35) with false by reflexivity.
    rewrite <- Er, <- after_hash_ntnl.
    destruct (query_rest true r) as [r2|]; cbn [option_map]; [|reflexivity]. rewrite frag_of_upe. reflexivity. }
  assert (get_href shs (ref_result sb q)
          = b_before_query b ++ qf_text (pqf_q (b_st b) l) (pqf_f l)) as EH.
  { rewrite Pq, Pf. unfold ref_result, get_href. rewrite (rel_bq _ _ _ _ R). unfold serialize_url, qf_text.
    cbn [su_scheme su_username su_password su_host su_port su_path su_query su_fragment set_fragment set_query
         includes_credentials serialize_path qf_qtext].
    rewrite !app_nil_r. rewrite <- !app_assoc. cbn [app].
    destruct (after_hash q); reflexivity. }
  destruct (parse_query_and_fragment None CUrlParser (b_st b) (scheme_end b) (b_before_query b) l)
    as [[[s qs] fs]|e|] eqn:Eq; cbn [pbind].
  - destruct (query_arm hp hpo b l q s qs fs W Hl He Eq) as [-> K].
    cbn [agree_rel_strict]. right. eexists. split; [reflexivity|].
    assert (ref_query (b_st b) q = upe (qset_of sb) (before_hash q)) as EQ.
    { unfold ref_query, b_st, qset_of, is_special, query_set. rewrite (rel_sch _ _ _ _ R).
      rewrite special_schemes_are_the_standards, before_hash_same.
      destruct (is_special_scheme (su_scheme sb)); apply enc_bridge; [exact rel_SPECIAL_QUERY | exact rel_QUERY]. }
    assert (ref_fragment q = option_map (upe in_fragment_set) (after_hash q)) as EF.
    { unfold ref_fragment. rewrite after_hash_same. destruct (after_hash q) as [x|]; [|reflexivity].
      cbn [option_map]. f_equal. apply enc_bridge. exact rel_FRAGMENT. }
    unfold ref_result. rewrite <- EQ, <- EF. apply related_with_query; [exact R | exact K].
  - assert (match ntnl l with [] => True | c :: _ => is_qh c = true end) as Hhead by (rewrite He; reflexivity).
    destruct (pqf_oob None True (b_st b) (scheme_end b) (b_before_query b) l Hl eq_refl Hhead (fun _ => I)) as [[E' _]|E'];
      rewrite Eq in E'; [|discriminate E']. injection E' as ->.
    cbn [agree_rel_strict]. left. split; [reflexivity|]. rewrite EH.
    apply (pqf_overflow None (b_st b) (scheme_end b)); [exact Hl | reflexivity | exact Eq].
  - exfalso.
    assert (match ntnl l with [] => True | c :: _ => is_qh c = true end) as Hhead by (rewrite He; reflexivity).
    destruct (pqf_oob None True (b_st b) (scheme_end b) (b_before_query b) l Hl eq_refl Hhead (fun _ => I)) as [[E' _]|E'];
      rewrite Eq in E'; discriminate E'.
Qed.

Lemma bare_result_scheme sb R : su_scheme (bare_result sb R) = su_scheme sb.
Proof.
  unfold bare_result. destruct R as [|c r]; [destruct sb; reflexivity|].
  destruct (c =? 63); [|destruct sb; reflexivity].
  unfold ref_result. destruct (option_map (upe in_fragment_set) (after_hash r)); destruct sb; reflexivity.
Qed.

Lemma same_bare_spec input sb : in_class_same_bare sb input = true ->
  exists R, spec_basic_url_parse shp input (Some sb) = BDone (bare_result sb R).
Proof.
  intros Hc. unfold in_class_same_bare in Hc.
  apply andb_true_iff in Hc. destruct Hc as [Hb Hok].
  destruct (spec_scheme (spec_clean input)) as [[sch R0]|] eqn:Es; [|discriminate Hok].
  apply andb_true_iff in Hok. destruct Hok as [Esch HR]. apply list_eqb_spec in Esch. subst sch.
  assert (match R0 with [] => True | c :: _ => is_qh c = true end) as HR' by (destruct R0; [exact I | exact HR]).
  exists R0. exact (spec_same_bare input sb R0 Hb Es HR').
Qed.

Theorem class_same_bare input b sb : usv_list input -> related dbg shs b sb ->
  in_class_same_bare sb input = true ->
  exists R, spec_basic_url_parse shp input (Some sb) = BDone (bare_result sb R)
    /\ agree_rel_strict dbg shs (parse_url dbg hp hpo hd None (Some b) input) (BDone (bare_result sb R)).
Proof.
  intros Hu Rl Hc. unfold in_class_same_bare in Hc.
  apply andb_true_iff in Hc. destruct Hc as [Hb Hok].
  destruct (sp_base_ok_facts sb Hb) as (Hop & Hsp & Hnf & h & Eh).
  destruct (spec_scheme (spec_clean input)) as [[sch R0]|] eqn:Es; [|discriminate Hok].
  apply andb_true_iff in Hok. destruct Hok as [Esch HR]. apply list_eqb_spec in Esch. subst sch.
  assert (match R0 with [] => True | c :: _ => is_qh c = true end) as HR' by (destruct R0; [exact I | exact HR]).
  exists R0. split; [exact (spec_same_bare input sb R0 Hb Es HR')|].
  rewrite spec_clean_is_ntnl_trim in Es. destruct (spec_scheme_model _ _ _ Es) as (rem & Hps & Hrem).
  destruct (parse_scheme_suffix _ _ _ _ Hps) as [pre0 Hpre].
  assert (usv_list rem) as Hur.
  { pose proof (usv_trim input Hu) as Htr. rewrite Hpre in Htr. apply usv_app in Htr. tauto. }
  rewrite (parse_url_same_scheme dbg hp hpo hd shs b sb input rem Rl Hop Hsp Hnf Hps).
  2:{ rewrite Hrem. destruct R0 as [|c r]; [cbn [count_leading]; lia|]. cbn [count_leading].
      assert (is_sl c = false) as -> by (unfold is_qh in HR'; unfold is_sl; lia). lia. }
  apply bind_u32_strict; [|rewrite <- (bare_result_scheme sb R0); apply href_ge_scheme].
  unfold bare_result. destruct R0 as [|c r].
  - exact (model_bare_empty b sb rem Rl Hrem).
  - unfold is_qh in HR'. destruct (c =? 63) eqn:E63.
    + apply N.eqb_eq in E63. subst c. exact (model_bare_query b sb rem r Rl Hop Hsp Hnf Hur Hrem).
    + cbn [orb] in HR'. apply N.eqb_eq in HR'. subst c. exact (model_bare_fragment b sb rem r Rl Hur Hrem).
Qed.

End BareClass.
