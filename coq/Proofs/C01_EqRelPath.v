(* Proofs/C01_EqRelPath.v - C01 equivalence, scheme-less references against a related base that is
   neither special nor opaque, the two path arms of parse_relative:
     "/x/y?q#f"  (relative slash state -> path state on an empty path; base authority kept) and
     "x/../y"    (relative state: the base path without its last segment, then the path state;
                  pop_path of the model vs "shorten" of the Standard).
   This file: the model's path loop started on the segments of the base, the three shapes of
   with_query_and_fragment behind it (authority / no marker / "/." marker), and the record with a
   replaced path (built from C06_Path.with_path and the elementary edits of C06_Steps). *)
From RU Require Import Base.Prelude Base.Utf8 Base.Utf8Facts Model.AsciiSet Gen.Tables
  Model.PercentEncoding Model.HostT Model.UrlRecord Model.Parser Model.Setters Model.WF Model.KnownC08 Spec.Whatwg
  Proofs.ListN Proofs.C14_Set Proofs.C14_Enc Proofs.C14_Views Proofs.C02_Enc Proofs.C02_Parts
  Proofs.C02_Opaque Proofs.C02_Path Proofs.C02_PathL1 Proofs.C03_WF Proofs.C01_Tables Proofs.C08_Input
  Proofs.C01_EqRun Proofs.C01_EqEnc Proofs.C01_EqApi Proofs.C01_EqOpaque Proofs.C01_EqDots Proofs.C01_EqPathSpec
  Proofs.C06_List Proofs.C06_WFI Proofs.C06_Tail Proofs.C06_Steps Proofs.C06_FragQuery Proofs.C06_PathParser Proofs.C06_Path
  Proofs.C08_Simple Proofs.C08_Contain Proofs.C08_NoAuth
  Proofs.C01_EqRef Proofs.C01_EqPath Proofs.C01_EqOverflow Proofs.C01_EqEmpty Proofs.C01_EqClasses
  Proofs.C01_EqAuthSpec Proofs.C01_EqAuthModel Proofs.C01_EqAuth Proofs.C01_EqClasses2 Proofs.C01_EqRel.

Ltac lenl := unfold nlen in *; repeat rewrite app_length in *; cbn [length] in *; lia.

(* ================= the authority-less canonical record is well-formed (no length bounds needed) ================= *)
Lemma noauth_url_wf2 sch body q f : scheme_canon sch = true ->
  forallb no_qh (47 :: body) = true -> opt_clean T_QUERY q ->
  wf_b (noauth_url sch (47 :: body) q f) = true.
Proof.
  intros Hsch HT Hq.
  unfold scheme_canon in Hsch. apply andb_true_iff in Hsch. destruct Hsch as [Hhead Hall].
  set (T := 47 :: body) in *.
  set (M := marker_of T). set (A := sch ++ [58]).
  assert (nlen A = nlen sch + 1) as EA by (unfold A; rewrite nlen_app; reflexivity).
  assert (noauth_ser sch T q f = ((A ++ M) ++ T) ++ qf_text q f) as Eser.
  { unfold noauth_ser, noauth_pre. fold A M. rewrite <- !app_assoc. reflexivity. }
  assert (starts_with s_ss (M ++ T ++ qf_text q f) = false) as Hno.
  { unfold M, marker_of, T. destruct (starts_with s_ss (47 :: body)) eqn:Ess; [reflexivity|].
    cbn [app]. unfold s_ss in *. cbn [starts_with] in *. replace (47 =? 47) with true in * by reflexivity. cbn [andb] in *.
    destruct body as [|b0 b']; [|cbn [app]; exact Ess].
    cbn [app]. unfold qf_text. destruct q; destruct f; reflexivity. }
  unfold wf_b. apply andb_true_iff. split; [apply andb_true_iff; split|].
  - unfold wf_scheme, noauth_url. cbn [ser scheme_end]. unfold noauth_ser, noauth_pre.
    repeat (apply andb_true_iff; split).
    + destruct sch; [discriminate|]. unfold nlen. cbn [length]. lia.
    + destruct sch as [|c s]; [discriminate|]. cbn [app]. unfold is_alpha. rewrite Hhead. apply orb_true_r.
    + rewrite <- !app_assoc. rewrite nfirstn_app_len.
      apply (forallb_impl scheme_out_char); [exact scheme_out_char_scheme_char | exact Hall].
    + rewrite <- !app_assoc. cbn [app]. apply byte_eqb_app.
  - assert (has_authority_b (noauth_url sch T q f) = false) as Hna.
    { unfold has_authority_b, noauth_url. cbn [ser scheme_end]. unfold noauth_ser, noauth_pre. fold M.
      rewrite <- !app_assoc. rewrite nskipn_app_len. unfold s_css. cbn [app starts_with].
      replace (58 =? 58) with true by reflexivity. cbn [andb]. exact Hno. }
    rewrite Hna. unfold wf_no_authority, noauth_url.
    cbn [ser scheme_end username_end host_start host_end hosti port path_start]. fold A M.
    rewrite Eser. rewrite !nlen_app. cbn [hi_eqb].
    replace (nlen A =? nlen sch + 1) with true by lia.
    replace (nlen A + nlen M <=? nlen A + nlen M + nlen T + nlen (qf_text q f)) with true by lia. cbn [andb].
    unfold M, marker_of, T. destruct (starts_with s_ss (47 :: body)) eqn:Ess.
    + apply orb_true_iff. right. repeat (apply andb_true_iff; split).
      * unfold nlen at 2. cbn [length]. lia.
      * replace (nlen sch + 1) with (nlen A) by lia. rewrite <- !app_assoc. cbn [app]. apply byte_eqb_app.
      * replace (nlen sch + 2) with (nlen (A ++ [47])) by (rewrite nlen_app; unfold nlen at 2; cbn [length]; lia).
        replace (((A ++ [47; 46]) ++ 47 :: body) ++ qf_text q f) with ((A ++ [47]) ++ 46 :: (47 :: body) ++ qf_text q f)
          by (rewrite <- !app_assoc; reflexivity).
        apply byte_eqb_app.
      * replace (nlen A + nlen [47; 46]) with (nlen (A ++ [47; 46])) by (rewrite nlen_app; reflexivity).
        rewrite <- (app_assoc (A ++ [47; 46])). rewrite nskipn_app_len.
        unfold s_ss in *. cbn [app starts_with] in *. replace (47 =? 47) with true in * by reflexivity. cbn [andb] in *.
        destruct body as [|b0 b']; [discriminate|]. cbn [app]. exact Ess.
    + apply orb_true_iff. left. unfold nlen at 2. cbn [length]. lia.
  - apply (wf_qf_generic (A ++ M) T q f).
    + exact Eser.
    + unfold noauth_url. cbn [path_start]. fold A M. rewrite nlen_app. reflexivity.
    + unfold noauth_url. cbn [query_start]. unfold noauth_pre. fold A M. rewrite <- !app_assoc. reflexivity.
    + unfold noauth_url. cbn [fragment_start]. unfold noauth_pre. fold A M. rewrite <- !app_assoc. reflexivity.
    + exact HT.
    + exact Hq.
Qed.

(* ================= the path loop started on segments of the base ================= *)
Lemma segs_text_flat P : 47 :: segs_text P = flat_map (fun s => 47 :: s) P ++ [47].
Proof.
  induction P as [|s P IH]; [reflexivity|]. unfold segs_text in *. cbn [map concat flat_map].
  rewrite <- !app_assoc. cbn [app]. f_equal. f_equal. exact IH.
Qed.

Lemma Bs_flat pre P : Bs pre P = (pre ++ flat_map (fun s => 47 :: s) P) ++ [47].
Proof.
  unfold Bs. rewrite <- !app_assoc. f_equal. cbn [app]. apply segs_text_flat.
Qed.

Lemma spath_fst_nonempty t : forall P B, fst (spath t P B) <> [].
Proof.
  induction t as [|c r IH]; intros P B; cbn [spath].
  - cbn [fst]. apply fin_nonempty.
  - destruct (c =? 47); [apply IH|]. destruct (is_qh c); [cbn [fst]; apply fin_nonempty | apply IH].
Qed.

Section PathArm.
Variable dbg : bool.

(* parse_path on  pre "/" seg "/" ... seg "/" : the Standard's path state started on those segments *)
Lemma loop_from_segments pre r P0 : usv_list r -> forallb no_slash P0 = true ->
  spath_ok (ntnl r) P0 [] = true ->
  forallb no_qh (flat_map (fun s => 47 :: s) P0) = true ->
  let P1 := fst (spath (ntnl r) P0 []) in
  parse_path dbg CUrlParser STNotSpecial true (nlen pre) (Bs pre P0) r
    = POk (pre ++ flat_map (fun s => 47 :: s) P1, true, cbb_rest r)
  /\ snd (spath (ntnl r) P0 []) = ntnl (cbb_rest r)
  /\ forallb no_qh (flat_map (fun s => 47 :: s) P1) = true
  /\ forallb no_slash P1 = true /\ P1 <> [].
Proof.
  intros Hur Hns Hok Hqh P1.
  assert (pend_ok []) as Hp0 by (split; [constructor | reflexivity]).
  destruct (loop_exact pre dbg r P0 [] [] true Hur Hp0 Hns eq_refl Hok) as (segs & last & Hloop & Hfst & Hsnd).
  cbn [app rev utf8_encode flat_map encode] in Hfst, Hsnd.
  rewrite app_nil_r in Hloop.
  assert (Bs pre segs ++ last = pre ++ flat_map (fun s => 47 :: s) P1) as ES.
  { unfold P1. rewrite Hfst, path_text_flat. unfold Bs, path_text. rewrite <- !app_assoc. reflexivity. }
  split; [|split; [exact Hsnd|split; [|split]]].
  - unfold parse_path. rewrite Hloop, ES. reflexivity.
  - (* no '?' / '#' in what the loop leaves *)
    assert (nlen (pre ++ [47]) = nlen pre + 1) as Lpre by (rewrite nlen_app; reflexivity).
    assert (PInv (nlen pre) (nlen pre + 1) (pre ++ [47]) (Bs pre P0)) as I0.
    { split.
      - unfold Bs. rewrite <- Lpre. apply nfirstn_app_len.
      - rewrite Bs_flat, <- app_assoc. rewrite nskipn_app_len. rewrite forallb_app, Hqh. reflexivity. }
    assert (nlen pre + 1 <= nlen (Bs pre P0)) as L0 by apply Bs_len_ge.
    destruct (pinv_loop_url dbg (nlen pre) (nlen pre + 1) (pre ++ [47]) ltac:(lia) ltac:(lia) Lpre STNotSpecial r
                ltac:(discriminate) _ _ _ _ _ _ _ Hloop I0 L0 Hur ltac:(constructor)) as ((x & Ex & Ix) & _ & _).
    cbn [file_path_fixup st_is_file] in Ex. subst x. destruct Ix as [_ Ix].
    rewrite ES in Ix. rewrite nskipn_app_len in Ix. exact Ix.
  - unfold P1. apply spath_no_slash; [exact Hns | reflexivity].
  - unfold P1. apply spath_fst_nonempty.
Qed.

End PathArm.

(* ================= with_query_and_fragment behind the path state ================= *)
Section Wqf.
Variable ovr : option (list N -> list N).

(* the base has an authority: nothing to fix *)
Lemma wqf_plain se ue hs he hi po ps s rest : se + 3 <= ps ->
  starts_with s_css (nskipn se s) = true ->
  with_query_and_fragment ovr CUrlParser STNotSpecial se ue hs he hi po ps s rest
  = (' (s2, qs, fs) <~ parse_query_and_fragment ovr CUrlParser STNotSpecial se s rest ;;
     POk (mkUrl s2 se ue hs he hi po ps qs fs)).
Proof.
  intros H Hc. unfold with_query_and_fragment.
  replace (ps =? se + 1) with false by lia.
  assert ((ps =? se + 3) && list_eqb (nfirstn (ps - se) (nskipn se s)) [58; 47; 46] = false) as ->.
  { destruct (ps =? se + 3) eqn:E; [|reflexivity]. cbn [andb]. apply N.eqb_eq in E. rewrite E.
    replace (se + 3 - se) with 3 by lia. apply starts_with_split in Hc. rewrite Hc. reflexivity. }
  cbn [pbind]. reflexivity.
Qed.

(* the base carries the "/." marker: it is dropped unless the new path starts with "//" again *)
Lemma wqf_noauth_marker sch body rest :
  let a := nlen (sch ++ [58]) in
  let T := 47 :: body in
  with_query_and_fragment ovr CUrlParser STNotSpecial (nlen sch) a a a HI_None None (a + 2) ((sch ++ [58; 47; 46]) ++ T) rest
  = (' (s2, qs, fs) <~ parse_query_and_fragment ovr CUrlParser STNotSpecial (nlen sch) (noauth_pre sch T) rest ;;
     POk (mkUrl s2 (nlen sch) a a a HI_None None (a + nlen (marker_of T)) qs fs)).
Proof.
  intros a T. unfold with_query_and_fragment.
  assert (a = nlen sch + 1) as Ea by (unfold a; rewrite nlen_app; reflexivity).
  set (S := (sch ++ [58; 47; 46]) ++ T).
  assert (S = sch ++ [58; 47; 46] ++ T) as E0 by (unfold S; rewrite <- app_assoc; reflexivity).
  assert (a + 2 = nlen (sch ++ [58; 47; 46])) as Ea2 by (rewrite nlen_app; unfold nlen at 2; cbn [length]; lia).
  replace (a + 2 =? nlen sch + 1) with false by lia.
  assert ((a + 2 =? nlen sch + 3) && list_eqb (nfirstn (a + 2 - nlen sch) (nskipn (nlen sch) S)) [58; 47; 46] = true) as ->.
  { replace (a + 2 =? nlen sch + 3) with true by lia. rewrite E0, nskipn_app_len.
    replace (a + 2 - nlen sch) with 3 by lia. reflexivity. }
  assert (nnth S (a + 2) = Some 47) as ->.
  { unfold S. rewrite Ea2. rewrite nnth_app_ge by lia. rewrite N.sub_diag. reflexivity. }
  assert (nnth S (a + 2 + 1) = nnth body 0) as ->.
  { unfold S. rewrite Ea2. rewrite nnth_app_ge by lia.
    replace (nlen (sch ++ [58; 47; 46]) + 1 - nlen (sch ++ [58; 47; 46])) with 1 by lia. reflexivity. }
  assert (nskipn (a + 2) S = T) as -> by (unfold S; rewrite Ea2; apply nskipn_app_len).
  assert (nfirstn (nlen sch) S = sch) as -> by (rewrite E0; apply nfirstn_app_len).
  replace (a + 2 - 2) with a by lia.
  cbv beta iota. replace (47 =? 47) with true by reflexivity. cbn [passert pbind].
  assert (forall y, starts_with s_css (nskipn (nlen sch) (sch ++ [58; 47; 46] ++ y)) = false) as Hm
    by (intros y; rewrite nskipn_app_len; reflexivity).
  assert (starts_with s_ss T = false ->
          (' (ser1, path_start1) <~
             (' _ <~ passert (negb (starts_with s_css (nskipn (nlen sch) (sch ++ [58] ++ T)))) ;; POk (sch ++ [58] ++ T, a)) ;;
           ' (ser2, qs, fs) <~ parse_query_and_fragment ovr CUrlParser STNotSpecial (nlen sch) ser1 rest ;;
           POk (mkUrl ser2 (nlen sch) a a a HI_None None path_start1 qs fs))
          = (' (s2, qs, fs) <~ parse_query_and_fragment ovr CUrlParser STNotSpecial (nlen sch) (noauth_pre sch T) rest ;;
             POk (mkUrl s2 (nlen sch) a a a HI_None None (a + nlen (marker_of T)) qs fs))) as Hplain.
  { intros Ess. unfold noauth_pre, marker_of. rewrite Ess.
    assert (starts_with s_css (nskipn (nlen sch) (sch ++ [58] ++ T)) = false) as ->.
    { rewrite nskipn_app_len. unfold T, s_css, s_ss in *. cbn [app starts_with] in *.
      replace (58 =? 58) with true by reflexivity. replace (47 =? 47) with true in * by reflexivity.
      cbn [andb] in *. exact Ess. }
    cbn [negb passert pbind]. change (nlen (@nil N)) with 0. rewrite N.add_0_r.
    replace ((sch ++ [58]) ++ [] ++ T) with (sch ++ [58] ++ T) by (rewrite <- app_assoc; reflexivity).
    reflexivity. }
  destruct body as [|b0 b'].
  - change (nnth [] 0) with (@None N). cbv beta iota. apply Hplain. reflexivity.
  - change (nnth (b0 :: b') 0) with (Some b0). cbv beta iota. rewrite match47.
    destruct (b0 =? 47) eqn:E47.
    + unfold S at 1. rewrite <- app_assoc. rewrite Hm. cbn [negb passert pbind].
      assert (marker_of T = [47; 46]) as EM.
      { unfold marker_of, T, s_ss. cbn [starts_with]. replace (47 =? 47) with true by reflexivity.
        rewrite (N.eqb_sym 47 b0), E47. reflexivity. }
      unfold noauth_pre. rewrite EM. change (nlen [47; 46]) with 2.
      replace ((sch ++ [58]) ++ [47; 46] ++ T) with S by (unfold S; rewrite <- !app_assoc; reflexivity).
      reflexivity.
    + apply Hplain. unfold T, s_ss. cbn [starts_with]. replace (47 =? 47) with true by reflexivity.
      rewrite (N.eqb_sym 47 b0), E47. reflexivity.
Qed.

End Wqf.

(* ================= the record with a replaced path, query and fragment (base with authority) ================= *)
Definition auth_path_url (b : url) (T : list N) (q f : option (list N)) : url :=
  let pre := nfirstn (path_start b) (ser b) in
  mkUrl ((pre ++ T) ++ qf_text q f) (scheme_end b) (username_end b) (host_start b) (host_end b) (hosti b) (port b)
        (path_start b) (qf_qs (nlen (pre ++ T)) q) (qf_fs (nlen (pre ++ T)) q f).

Lemma auth_path_record dbg b T q f :
  wf_b b = true -> has_authority_b b = true -> forallb no_qh T = true -> (T = [] \/ exists r, T = 47 :: r) ->
  match q with Some Q => forallb no_h Q = true | None => True end ->
  wf_b (auth_path_url b T q f) = true /\ same_front dbg b (auth_path_url b T q f) /\ path (auth_path_url b T q f) = Some T
  /\ query dbg (auth_path_url b T q f) = Some q /\ fragment dbg (auth_path_url b T q f) = Some f.
Proof.
  intros W Ha HT1 HT2 Hq. set (pre := nfirstn (path_start b) (ser b)).
  destruct (without_query_spec dbg b W) as (W1 & SF1 & SM1 & P1 & Eq1 & Ef1 & Es1 & _).
  set (u1 := without_query b) in *.
  pose proof (wf_auth_facts b W Ha) as F.
  pose proof (af_ue F) as B1. pose proof (af_hs F) as B2. pose proof (af_he F) as B3. pose proof (af_ps F) as B4.
  pose proof (path_start_le_len b W) as B5.
  assert (nfirstn (path_start b) (ser u1) = pre) as Hpre1 by (rewrite Es1; apply before_query_prefix; exact W).
  assert (has_authority_b u1 = true) as Ha1.
  { rewrite <- Ha. apply (has_authority_b_pre (path_start b)); [exact Hpre1 | lia | reflexivity]. }
  pose proof (wp_wf u1 T W1 Ha1 HT1 HT2) as W2. pose proof (wp_front dbg u1 T W1 Ha1 HT1 HT2) as SF2.
  pose proof (wp_path u1 T W1 Ha1 HT1 HT2) as P2.
  set (u2 := with_path u1 T) in *.
  assert (u2 = mkUrl (pre ++ T) (scheme_end b) (username_end b) (host_start b) (host_end b) (hosti b) (port b)
                     (path_start b) None None) as Eu2.
  { unfold u2, with_path. change (path_start u1) with (path_start b). rewrite Hpre1.
    assert (path_end u1 = nlen (ser u1)) as -> by (unfold path_end; rewrite Eq1, Ef1; reflexivity).
    rewrite nskipn_all by lia. rewrite app_nil_r. rewrite Eq1, Ef1. reflexivity. }
  assert (same_front dbg b u2) as SF by (eapply same_front_trans; eassumption).
  assert (query_start u2 = None) as Eq2 by (rewrite Eu2; reflexivity).
  assert (fragment_start u2 = None) as Ef2 by (rewrite Eu2; reflexivity).
  destruct q as [Q|]; destruct f as [x|].
  - destruct (add_query_step dbg u2 Q W2 Ef2 Eq2 Hq) as (W3 & SF3 & SM3 & P3 & Q3 & Ef3).
    destruct (add_fragment_step dbg (add_query u2 Q) x W3 Ef3) as (W4 & SF4 & SM4 & P4 & Q4 & Qs4 & F4).
    assert (auth_path_url b T _ _ = add_fragment (add_query u2 Q) x) as ->.
    { rewrite Eu2. unfold auth_path_url, add_fragment, add_query, set_fragment_start, set_query_start, set_ser, qf_text, qf_qs, qf_fs, qf_qtext, qf_ftext.
      cbn [ser scheme_end username_end host_start host_end hosti port path_start query_start fragment_start].
      f_equal; [rewrite <- !app_assoc; reflexivity|]. f_equal. symmetry. apply nlen_app. }
    split; [exact W4|]. split; [eapply same_front_trans; [exact SF|]; eapply same_front_trans; eassumption|].
    split; [congruence|]. split; [congruence | exact F4].
  - destruct (add_query_step dbg u2 Q W2 Ef2 Eq2 Hq) as (W3 & SF3 & SM3 & P3 & Q3 & Ef3).
    assert (auth_path_url b T _ _ = add_query u2 Q) as ->.
    { rewrite Eu2. unfold auth_path_url, add_query, set_query_start, set_ser, qf_text, qf_qs, qf_fs, qf_qtext, qf_ftext.
      cbn [ser scheme_end username_end host_start host_end hosti port path_start query_start fragment_start].
      rewrite app_nil_r. reflexivity. }
    split; [exact W3|]. split; [eapply same_front_trans; eassumption|].
    split; [congruence|]. split; [exact Q3|]. rewrite (fragment_eval dbg _ W3), Ef3. reflexivity.
  - destruct (add_fragment_step dbg u2 x W2 Ef2) as (W4 & SF4 & SM4 & P4 & Q4 & Qs4 & F4).
    assert (auth_path_url b T _ _ = add_fragment u2 x) as ->.
    { rewrite Eu2. unfold auth_path_url, add_fragment, set_fragment_start, set_ser, qf_text, qf_qs, qf_fs, qf_qtext, qf_ftext.
      cbn [ser scheme_end username_end host_start host_end hosti port path_start query_start fragment_start app].
      change (nlen (@nil N)) with 0. rewrite N.add_0_r. reflexivity. }
    split; [exact W4|]. split; [eapply same_front_trans; eassumption|].
    split; [congruence|]. split; [|exact F4]. rewrite Q4. rewrite (query_eval dbg _ W2), Eq2. reflexivity.
  - assert (auth_path_url b T _ _ = u2) as ->.
    { rewrite Eu2. unfold auth_path_url, qf_text, qf_qs, qf_fs, qf_qtext, qf_ftext. cbn [app]. rewrite app_nil_r. reflexivity. }
    split; [exact W2|]. split; [exact SF|]. split; [exact P2|].
    split; [rewrite (query_eval dbg _ W2), Eq2; reflexivity | rewrite (fragment_eval dbg _ W2), Ef2; reflexivity].
Qed.

(* ================= the Standard's serializer, split at the path ================= *)
(* the URL record the path arms end with: everything in front of the path from the base *)
Definition rel_url (sb : spec_url) (P : list (list N)) (q f : option (list N)) : spec_url :=
  mkSUrl (su_scheme sb) (su_username sb) (su_password sb) (su_host sb) (su_port sb) (SPList P) q f.

Section Front.
Variable dbg : bool.
Variable shs : spec_host -> list N.

Definition spec_front (u : spec_url) : list N :=
  su_scheme u ++ [58]
  ++ match su_host u with
     | Some h =>
         [47; 47]
         ++ (if includes_credentials u then
               su_username u
               ++ (if negb (list_eqb (su_password u) []) then 58 :: su_password u else [])
               ++ [64]
             else [])
         ++ shs h
         ++ match su_port u with Some p => 58 :: serialize_integer p | None => [] end
     | None =>
         match su_path u with
         | SPList (p0 :: _ :: _) => if list_eqb p0 [] then [47; 46] else []
         | _ => []
         end
     end.

Lemma serialize_url_front u excl :
  serialize_url shs u excl
  = spec_front u ++ serialize_path u ++ qf_qtext (su_query u)
    ++ (if excl then [] else qf_ftext (su_fragment u)).
Proof. unfold serialize_url, spec_front, qf_qtext, qf_ftext. rewrite <- !app_assoc. reflexivity. Qed.

Lemma before_query_path_end b : wf_b b = true -> b_before_query b = nfirstn (path_end b) (ser b).
Proof.
  intros W. unfold b_before_query, path_end.
  destruct (query_start b); [reflexivity|]. destruct (fragment_start b); [reflexivity|].
  symmetry. apply nfirstn_all. lia.
Qed.

(* the serialization of a related base in front of its path is the Standard's *)
Lemma related_pre b sb : related dbg shs b sb ->
  b_before_query b = nfirstn (path_start b) (ser b) ++ serialize_path sb
  /\ nfirstn (path_start b) (ser b) = spec_front sb.
Proof.
  intros R. pose proof (rel_wf _ _ _ _ R) as W. pose proof (rel_api _ _ _ _ R) as A.
  rewrite (api_of_model_eval dbg b W) in A. unfold spec_api_list in A.
  injection A as _ _ _ _ _ _ _ E8 _ _. cbn [pidx] in E8. fold (path_end b) in E8.
  destruct (wf_ps_le_path_end b W) as [L1 L2].
  assert (forall k, piece b 0 k = nfirstn k (ser b)) as P0.
  { intros k. unfold piece. rewrite N.sub_0_r, nskipn_0. reflexivity. }
  assert (b_before_query b = nfirstn (path_start b) (ser b) ++ serialize_path sb) as E.
  { rewrite (before_query_path_end b W). rewrite <- !P0.
    rewrite <- (piece_cat b 0 (path_start b) (path_end b)) by lia. rewrite E8. reflexivity. }
  split; [exact E|].
  pose proof (rel_bq _ _ _ _ R) as Bq. rewrite serialize_url_front in Bq.
  assert (spec_front (set_query sb None) = spec_front sb) as E1 by (destruct sb; reflexivity).
  assert (serialize_path (set_query sb None) = serialize_path sb) as E2 by (destruct sb; reflexivity).
  assert (su_query (set_query sb None) = None) as E3 by (destruct sb; reflexivity).
  rewrite E1, E2, E3 in Bq. cbn [qf_qtext app] in Bq. rewrite app_nil_r in Bq.
  rewrite E in Bq. apply app_inv_tail in Bq. exact Bq.
Qed.

Lemma nnth_nfirstn_lt l k i : i < k -> nnth (nfirstn k l) i = nnth l i.
Proof.
  intros H. apply (pre_nnth k l (nfirstn k l) i); [apply agree_pre_trunc | exact H].
Qed.

(* a base with authority has a host in the Standard's record, and conversely *)
Lemma related_host_iff b sb : related dbg shs b sb ->
  has_authority_b b = match su_host sb with Some _ => true | None => false end.
Proof.
  intros R. pose proof (rel_wf _ _ _ _ R) as W. destruct (related_pre b sb R) as [_ Epre].
  destruct (related_scheme_colon dbg shs b sb R) as (_ & Ese & _).
  pose proof (path_start_le_len b W) as Lps.
  assert (nlen (spec_front sb) = path_start b) as Lf by (rewrite <- Epre; apply nlen_nfirstn; exact Lps).
  destruct (has_authority_b b) eqn:Ha.
  - destruct (su_host sb) as [h|] eqn:Eh; [reflexivity|]. exfalso.
    pose proof (wf_auth_facts b W Ha) as F.
    pose proof (af_ue F) as B1. pose proof (af_hs F) as B2. pose proof (af_he F) as B3. pose proof (af_ps F) as B4.
    unfold has_authority_b in Ha. destruct (css_bytes _ _ Ha) as (_ & _ & C3).
    rewrite <- (nnth_nfirstn_lt (ser b) (path_start b)) in C3 by lia. rewrite Epre in C3.
    unfold spec_front in C3, Lf. rewrite Eh in C3, Lf. rewrite Ese in *.
    destruct (su_path sb) as [o|[|p0 [|p1 pr]]]; try (rewrite nlen_app in Lf; unfold nlen in Lf at 2; cbn [length app] in Lf; lia).
    destruct (list_eqb p0 []); [|rewrite nlen_app in Lf; unfold nlen in Lf at 2; cbn [length app] in Lf; lia].
    rewrite nnth_app_ge in C3 by lia. replace (nlen (su_scheme sb) + 2 - nlen (su_scheme sb)) with 2 in C3 by lia.
    discriminate C3.
  - destruct (su_host sb) as [h|] eqn:Eh; [|reflexivity]. exfalso.
    assert (exists X, spec_front sb = su_scheme sb ++ [58; 47; 47] ++ X) as [X EX].
    { unfold spec_front. rewrite Eh. eexists. cbn [app]. reflexivity. }
    assert (scheme_end b + 3 <= path_start b) as L3 by (rewrite <- Lf, EX, Ese; lenl).
    assert (has_authority_b b = true) as Ha'; [|congruence].
    unfold has_authority_b.
    rewrite (pre_starts_with (path_start b) (nfirstn (path_start b) (ser b)) (ser b) s_css (scheme_end b)).
    + rewrite Epre, EX, Ese, nskipn_app_len. reflexivity.
    + apply agree_pre_sym. apply agree_pre_trunc.
    + change (nlen s_css) with 3. exact L3.
Qed.

End Front.

(* ================= the two result shapes are related to the Standard's record ================= *)
Section Transport.
Variable dbg : bool.
Variable shs : spec_host -> list N.

(* base with authority: the record with the replaced path *)
Theorem related_auth_path_g b sb h Pn q f :
  related dbg shs b sb -> su_scheme sb <> str_file -> su_host sb = Some h ->
  forallb no_qh (flat_map (fun s => 47 :: s) Pn) = true -> Pn <> [] ->
  match q with Some Q => forallb no_h Q = true | None => True end ->
  related dbg shs (auth_path_url b (flat_map (fun s => 47 :: s) Pn) q f) (rel_url sb Pn q f).
Proof.
  intros R Hnsp Eh HT HPn Hq'.
  pose proof (rel_wf _ _ _ _ R) as W.
  assert (has_authority_b b = true) as Ha by (rewrite (related_host_iff dbg shs b sb R), Eh; reflexivity).
  set (T := flat_map (fun s => 47 :: s) Pn) in *.
  assert (T = [] \/ exists r, T = 47 :: r) as HT2.
  { right. unfold T. destruct Pn as [|p0 Pr]; [contradiction|]. eexists. reflexivity. }
  destruct (auth_path_record dbg b T q f W Ha HT HT2 Hq') as (W' & SF & Pth & Qy & Fr).
  assert (ser (auth_path_url b T q f) = (nfirstn (path_start b) (ser b) ++ T) ++ qf_text q f) as EsU by reflexivity.
  assert (query_start (auth_path_url b T q f) = qf_qs (nlen (nfirstn (path_start b) (ser b) ++ T)) q) as EqU by reflexivity.
  assert (fragment_start (auth_path_url b T q f) = qf_fs (nlen (nfirstn (path_start b) (ser b) ++ T)) q f) as EfU by reflexivity.
  assert (scheme_end (auth_path_url b T q f) = scheme_end b) as EseU by reflexivity.
  set (U := auth_path_url b T q f) in *.
  destruct SF as (S1 & S2 & S3 & S4 & S5).
  destruct (accessors_reconcatenate dbg b W)
    as (sch & un & pw & hs & pth & qb & fb & Es1 & Eun & Epw & Ehs & Ept & Eq & Ef & _).
  pose proof (api_by_accessors dbg b W sch un pw hs pth qb fb Es1 Eun Epw Ehs Ept Eq Ef) as Ab.
  assert (api_of_model dbg U = Some (api_of_parts (ser U) sch un pw hs (port U) T q f)) as Ab'.
  { apply (api_by_accessors dbg _ W'); congruence. }
  rewrite (rel_api _ _ _ _ R) in Ab. unfold api_of_parts, spec_api_list in Ab.
  injection Ab as E1 E2 E3 E4 E5 E6 E7 E8 E9 E10.
  destruct (related_pre dbg shs b sb R) as [_ Epre].
  pose proof (path_start_le_len b W) as Lps.
  set (pre := nfirstn (path_start b) (ser b)) in *.
  assert (nlen pre = path_start b) as Lpre by (apply nlen_nfirstn; exact Lps).
  assert (forall q' f', spec_front shs (rel_url sb Pn q' f') = pre) as EF.
  { intros q' f'. rewrite Epre. unfold spec_front, includes_credentials, rel_url.
    cbn [su_scheme su_host su_username su_password su_port]. rewrite Eh. reflexivity. }
  pose proof (wf_auth_facts b W Ha) as F.
  pose proof (af_ue F) as B1. pose proof (af_hs F) as B2. pose proof (af_he F) as B3. pose proof (af_ps F) as B4.
  assert (agree_pre (path_start b) (ser b) (ser U)) as Pre.
  { rewrite EsU, <- app_assoc. apply agree_pre_nfirstn. exact Lps. }
  constructor.
  - exact W'.
  - rewrite Ab'. f_equal. unfold api_of_parts, spec_api_list. rewrite S5.
    apply list10_eq; [ | symmetry; exact E2 | symmetry; exact E3 | symmetry; exact E4 | symmetry; exact E5
                       | symmetry; exact E6 | symmetry; exact E7 | reflexivity | | ].
    + rewrite EsU. unfold get_href. rewrite serialize_url_front, EF.
      unfold rel_url, serialize_path. cbn [su_path su_query su_fragment]. fold T. unfold qf_text.
      rewrite <- !app_assoc. reflexivity.
    + destruct q as [[|a r]|]; reflexivity.
    + destruct f as [[|a r]|]; reflexivity.
  - (* before the fragment *)
    rewrite serialize_url_front, EF. unfold rel_url, serialize_path. cbn [su_path su_query su_fragment]. fold T.
    rewrite app_nil_r. unfold b_before_fragment. rewrite EfU, EsU. unfold qf_text.
    destruct f as [y|]; cbn [qf_fs qf_ftext].
    + rewrite <- nlen_app. rewrite app_assoc. rewrite nfirstn_app_exact. rewrite <- app_assoc. reflexivity.
    + rewrite app_nil_r, <- app_assoc. reflexivity.
  - (* before the query *)
    rewrite serialize_url_front.
    assert (set_query (rel_url sb Pn q f) None = rel_url sb Pn None f) as -> by reflexivity.
    rewrite EF. unfold rel_url, serialize_path. cbn [su_path su_query su_fragment qf_qtext app]. fold T.
    rewrite app_nil_r. unfold b_before_query. rewrite EqU, EfU, EsU. unfold qf_text.
    destruct q as [x|]; destruct f as [y|]; cbn [qf_qs qf_fs qf_qtext qf_ftext].
    + apply nfirstn_app_exact.
    + apply nfirstn_app_exact.
    + cbn [app]. rewrite nlen_nil, N.add_0_r. apply nfirstn_app_exact.
    + cbn [app]. apply app_nil_r.
  - (* cannot be a base *)
    rewrite (cannot_be_a_base_eval _ W'). cbn [has_opaque_path su_path rel_url]. f_equal.
    rewrite EseU. rewrite (pre_byte_eqb (path_start b) _ _ _ _ Pre) by lia.
    unfold has_authority_b in Ha. destruct (css_bytes _ _ Ha) as (_ & C2 & _).
    assert (byte_eqb (ser b) (scheme_end b + 1) 47 = true) as -> by (apply byte_eqb_true_iff; exact C2). reflexivity.
  - (* scheme *)
    transitivity (b_scheme b); [|exact (rel_sch _ _ _ _ R)]. unfold b_scheme. rewrite EseU.
    apply (pre_firstn _ _ _ _ Pre). lia.
  - split; [intros H; discriminate H|]. cbn [su_scheme rel_url]. intros H. contradiction.
Qed.

Theorem related_auth_path b sb h Pn q f :
  related dbg shs b sb -> is_special_scheme (su_scheme sb) = false -> su_host sb = Some h ->
  forallb no_qh (flat_map (fun s => 47 :: s) Pn) = true -> Pn <> [] -> opt_clean T_QUERY q ->
  related dbg shs (auth_path_url b (flat_map (fun s => 47 :: s) Pn) q f) (rel_url sb Pn q f).
Proof.
  intros R Hnsp Eh HT HPn Hq. apply (related_auth_path_g b sb h Pn q f R); try assumption.
  - intros H. rewrite H in Hnsp. discriminate Hnsp.
  - destruct q as [Q|]; [|exact I]. exact (clean_query_no_h STNotSpecial Q Hq).
Qed.

End Transport.
