(* Proofs/C01_EqRelPath.v - C01 equivalence, scheme-less references against a related base that is
   neither special nor opaque, the two path arms of parse_relative:
     "/x/y?q#f"  (relative slash state -> path state on an empty path; base authority kept) and
     "x/../y"    (relative state: the base path without its last segment, then the path state;
                  pop_path of the model vs "shorten" of the Standard).
   This file: the model's path loop started on the segments of the base, the three shapes of
   with_query_and_fragment behind it (authority / no marker / "/." marker), and the record with a
   replaced path (built from C06_Path.with_path and the elementary edits of C06_Steps). *)
From RU Require Import Base.Prelude Base.Utf8 Base.Utf8Facts Model.AsciiSet Gen.Tables
  Model.PercentEncoding Model.HostT Model.UrlRecord Model.Parser Model.Setters Model.WF Model.KnownC08 Spec.Whatwg
  Proofs.ListN Proofs.C14_Set Proofs.C14_Enc Proofs.C14_Views Proofs.C02_Enc Proofs.C02_Parts
  Proofs.C02_Opaque Proofs.C02_Path Proofs.C02_PathL1 Proofs.C03_WF Proofs.C01_Tables Proofs.C08_Input
  Proofs.C01_EqRun Proofs.C01_EqEnc Proofs.C01_EqApi Proofs.C01_EqOpaque Proofs.C01_EqDots Proofs.C01_EqPathSpec
  Proofs.C06_List Proofs.C06_WFI Proofs.C06_Tail Proofs.C06_Steps Proofs.C06_FragQuery Proofs.C06_PathParser Proofs.C06_Path
  Proofs.C08_Simple Proofs.C08_Contain Proofs.C08_NoAuth
  Proofs.C01_EqRef Proofs.C01_EqPath Proofs.C01_EqOverflow Proofs.C01_EqEmpty Proofs.C01_EqClasses
  Proofs.C01_EqAuthSpec Proofs.C01_EqAuthModel Proofs.C01_EqAuth Proofs.C01_EqClasses2 Proofs.C01_EqRel.

Ltac lenl := unfold nlen in *; repeat rewrite app_length in *; cbn [length] in *; lia.

(* ================= the authority-less canonical record is well-formed (no length bounds needed) ================= *)
Lemma noauth_url_wf2 sch body q f : scheme_canon sch = true ->
  forallb no_qh (47 :: body) = true -> opt_clean T_QUERY q ->
  wf_b (noauth_url sch (47 :: body) q f) = true.
Proof.
  intros Hsch HT Hq.
  unfold scheme_canon in Hsch. apply andb_true_iff in Hsch. destruct Hsch as [Hhead Hall].
  set (T := 47 :: body) in *.
  set (M := marker_of T). set (A := sch ++ [58]).
  assert (nlen A = nlen sch + 1) as EA by (unfold A; rewrite nlen_app; reflexivity).
  assert (noauth_ser sch T q f = ((A ++ M) ++ T) ++ qf_text q f) as Eser.
  { unfold noauth_ser, noauth_pre. fold A M. rewrite <- !app_assoc. reflexivity. }
  assert (starts_with s_ss (M ++ T ++ qf_text q f) = false) as Hno.
  { unfold M, marker_of, T. destruct (starts_with s_ss (47 :: body)) eqn:Ess; [reflexivity|].
    cbn [app]. unfold s_ss in *. cbn [starts_with] in *. replace (47 =? 47) with true in * by reflexivity. cbn [andb] in *.
    destruct body as [|b0 b']; [|cbn [app]; exact Ess].
    cbn [app]. unfold qf_text. destruct q; destruct f; reflexivity. }
  unfold wf_b. apply andb_true_iff. split; [apply andb_true_iff; split|].
  - unfold wf_scheme, noauth_url. cbn [ser scheme_end]. unfold noauth_ser, noauth_pre.
    repeat (apply andb_true_iff; split).
    + destruct sch; [discriminate|]. unfold nlen. cbn [length]. lia.
    + destruct sch as [|c s]; [discriminate|]. cbn [app]. unfold is_alpha. rewrite Hhead. apply orb_true_r.
    + rewrite <- !app_assoc. rewrite nfirstn_app_len.
      apply (forallb_impl scheme_out_char); [exact scheme_out_char_scheme_char | exact Hall].
    + rewrite <- !app_assoc. cbn [app]. apply byte_eqb_app.
  - assert (has_authority_b (noauth_url sch T q f) = false) as Hna.
    { unfold has_authority_b, noauth_url. cbn [ser scheme_end]. unfold noauth_ser, noauth_pre. fold M.
      rewrite <- !app_assoc. rewrite nskipn_app_len. unfold s_css. cbn [app starts_with].
      replace (58 =? 58) with true by reflexivity. cbn [andb]. exact Hno. }
    rewrite Hna. unfold wf_no_authority, noauth_url.
    cbn [ser scheme_end username_end host_start host_end hosti port path_start]. fold A M.
    rewrite Eser. rewrite !nlen_app. cbn [hi_eqb].
    replace (nlen A =? nlen sch + 1) with true by lia.
    replace (nlen A + nlen M <=? nlen A + nlen M + nlen T + nlen (qf_text q f)) with true by lia. cbn [andb].
    unfold M, marker_of, T. destruct (starts_with s_ss (47 :: body)) eqn:Ess.
    + apply orb_true_iff. right. repeat (apply andb_true_iff; split).
      * unfold nlen at 2. cbn [length]. lia.
      * replace (nlen sch + 1) with (nlen A) by lia. rewrite <- !app_assoc. cbn [app]. apply byte_eqb_app.
      * replace (nlen sch + 2) with (nlen (A ++ [47])) by (rewrite nlen_app; unfold nlen at 2; cbn [length]; lia).
        replace (((A ++ [47; 46]) ++ 47 :: body) ++ qf_text q f) with ((A ++ [47]) ++ 46 :: (47 :: body) ++ qf_text q f)
          by (rewrite <- !app_assoc; reflexivity).
        apply byte_eqb_app.
      * replace (nlen A + nlen [47; 46]) with (nlen (A ++ [47; 46])) by (rewrite nlen_app; reflexivity).
        rewrite <- (app_assoc (A ++ [47; 46])). rewrite nskipn_app_len.
        unfold s_ss in *. cbn [app starts_with] in *. replace (47 =? 47) with true in * by reflexivity. cbn [andb] in *.
        destruct body as [|b0 b']; [discriminate|]. cbn [app]. exact Ess.
    + apply orb_true_iff. left. unfold nlen at 2. cbn [length]. lia.
  - apply (wf_qf_generic (A ++ M) T q f).
    + exact Eser.
    + unfold noauth_url. cbn [path_start]. fold A M. rewrite nlen_app. reflexivity.
    + unfold noauth_url. cbn [query_start]. unfold noauth_pre. fold A M. rewrite <- !app_assoc. reflexivity.
    + unfold noauth_url. cbn [fragment_start]. unfold noauth_pre. fold A M. rewrite <- !app_assoc. reflexivity.
    + exact HT.
    + exact Hq.
Qed.

(* ================= the path loop started on segments of the base ================= *)
Lemma segs_text_flat P : 47 :: segs_text P = flat_map (fun s => 47 :: s) P ++ [47].
Proof.
  induction P as [|s P IH]; [reflexivity|]. unfold segs_text in *. cbn [map concat flat_map].
  rewrite <- !app_assoc. cbn [app]. f_equal. f_equal. exact IH.
Qed.

Lemma Bs_flat pre P : Bs pre P = (pre ++ flat_map (fun s => 47 :: s) P) ++ [47].
Proof.
  unfold Bs. rewrite <- !app_assoc. f_equal. cbn [app]. apply segs_text_flat.
Qed.

Lemma spath_fst_nonempty t : forall P B, fst (spath t P B) <> [].
Proof.
  induction t as [|c r IH]; intros P B; cbn [spath].
  - cbn [fst]. apply fin_nonempty.
  - destruct (c =? 47); [apply IH|]. destruct (is_qh c); [cbn [fst]; apply fin_nonempty | apply IH].
Qed.

Section PathArm.
Variable dbg : bool.

(* parse_path on  pre "/" seg "/" ... seg "/" : the Standard's path state started on those segments *)
Lemma loop_from_segments pre r P0 : usv_list r -> forallb no_slash P0 = true ->
  spath_ok (ntnl r) P0 [] = true ->
  forallb no_qh (flat_map (fun s => 47 :: s) P0) = true ->
  let P1 := fst (spath (ntnl r) P0 []) in
  parse_path dbg CUrlParser STNotSpecial true (nlen pre) (Bs pre P0) r
    = POk (pre ++ flat_map (fun s => 47 :: s) P1, true, cbb_rest r)
  /\ snd (spath (ntnl r) P0 []) = ntnl (cbb_rest r)
  /\ forallb no_qh (flat_map (fun s => 47 :: s) P1) = true
  /\ forallb no_slash P1 = true /\ P1 <> [].
Proof.
  intros Hur Hns Hok Hqh P1.
  assert (pend_ok []) as Hp0 by (split; [constructor | reflexivity]).
  destruct (loop_exact pre dbg r P0 [] [] true Hur Hp0 Hns eq_refl Hok) as (segs & last & Hloop & Hfst & Hsnd).
  cbn [app rev utf8_encode flat_map encode] in Hfst, Hsnd.
  rewrite app_nil_r in Hloop.
  assert (Bs pre segs ++ last = pre ++ flat_map (fun s => 47 :: s) P1) as ES.
  { unfold P1. rewrite Hfst, path_text_flat. unfold Bs, path_text. rewrite <- !app_assoc. reflexivity. }
  split; [|split; [exact Hsnd|split; [|split]]].
  - unfold parse_path. rewrite Hloop, ES. reflexivity.
  - (* no '?' / '#' in what the loop leaves *)
    assert (nlen (pre ++ [47]) = nlen pre + 1) as Lpre by (rewrite nlen_app; reflexivity).
    assert (PInv (nlen pre) (nlen pre + 1) (pre ++ [47]) (Bs pre P0)) as I0.
    { split.
      - unfold Bs. rewrite <- Lpre. apply nfirstn_app_len.
      - rewrite Bs_flat, <- app_assoc. rewrite nskipn_app_len. rewrite forallb_app, Hqh. reflexivity. }
    assert (nlen pre + 1 <= nlen (Bs pre P0)) as L0 by apply Bs_len_ge.
    destruct (pinv_loop_url dbg (nlen pre) (nlen pre + 1) (pre ++ [47]) ltac:(lia) ltac:(lia) Lpre STNotSpecial r
                ltac:(discriminate) _ _ _ _ _ _ _ Hloop I0 L0 Hur ltac:(constructor)) as ((x & Ex & Ix) & _ & _).
    cbn [file_path_fixup st_is_file] in Ex. subst x. destruct Ix as [_ Ix].
    rewrite ES in Ix. rewrite nskipn_app_len in Ix. exact Ix.
  - unfold P1. apply spath_no_slash; [exact Hns | reflexivity].
  - unfold P1. apply spath_fst_nonempty.
Qed.

End PathArm.

(* ================= with_query_and_fragment behind the path state ================= *)
Section Wqf.
Variable ovr : option (list N -> list N).

(* the base has an authority: nothing to fix *)
Lemma wqf_plain se ue hs he hi po ps s rest : se + 3 <= ps ->
  starts_with s_css (nskipn se s) = true ->
  with_query_and_fragment ovr CUrlParser STNotSpecial se ue hs he hi po ps s rest
  = (' (s2, qs, fs) <~ parse_query_and_fragment ovr CUrlParser STNotSpecial se s rest ;;
     POk (mkUrl s2 se ue hs he hi po ps qs fs)).
Proof.
  intros H Hc. unfold with_query_and_fragment.
  replace (ps =? se + 1) with false by lia.
  assert ((ps =? se + 3) && list_eqb (nfirstn (ps - se) (nskipn se s)) [58; 47; 46] = false) as ->.
  { destruct (ps =? se + 3) eqn:E; [|reflexivity]. cbn [andb]. apply N.eqb_eq in E. rewrite E.
    replace (se + 3 - se) with 3 by lia. apply starts_with_split in Hc. rewrite Hc. reflexivity. }
  cbn [pbind]. reflexivity.
Qed.

(* the base carries the "/." marker: it is dropped unless the new path starts with "//" again *)
Lemma wqf_noauth_marker sch body rest :
  let a := nlen (sch ++ [58]) in
  let T := 47 :: body in
  with_query_and_fragment ovr CUrlParser STNotSpecial (nlen sch) a a a HI_None None (a + 2) ((sch ++ [58; 47; 46]) ++ T) rest
  = (' (s2, qs, fs) <~ parse_query_and_fragment ovr CUrlParser STNotSpecial (nlen sch) (noauth_pre sch T) rest ;;
     POk (mkUrl s2 (nlen sch) a a a HI_None None (a + nlen (marker_of T)) qs fs)).
Proof.
  intros a T. unfold with_query_and_fragment.
  assert (a = nlen sch + 1) as Ea by (unfold a; rewrite nlen_app; reflexivity).
  set (S := (sch ++ [58; 47; 46]) ++ T).
  assert (S = sch ++ [58; 47; 46] ++ T) as E0 by (unfold S; rewrite <- app_assoc; reflexivity).
  assert (a + 2 = nlen (sch ++ [58; 47; 46])) as Ea2 by (rewrite nlen_app; unfold nlen at 2; cbn [length]; lia).
  replace (a + 2 =? nlen sch + 1) with false by lia.
  assert ((a + 2 =? nlen sch + 3) && list_eqb (nfirstn (a + 2 - nlen sch) (nskipn (nlen sch) S)) [58; 47; 46] = true) as ->.
  { replace (a + 2 =? nlen sch + 3) with true by lia. rewrite E0, nskipn_app_len.
    replace (a + 2 - nlen sch) with 3 by lia. reflexivity. }
  assert (nnth S (a + 2) = Some 47) as ->.
  { unfold S. rewrite Ea2. rewrite nnth_app_ge by lia. rewrite N.sub_diag. reflexivity. }
  assert (nnth S (a + 2 + 1) = nnth body 0) as ->.
  { unfold S. rewrite Ea2. rewrite nnth_app_ge by lia.
    replace (nlen (sch ++ [58; 47; 46]) + 1 - nlen (sch ++ [58; 47; 46])) with 1 by lia. reflexivity. }
  assert (nskipn (a + 2) S = T) as -> by (unfold S; rewrite Ea2; apply nskipn_app_len).
  assert (nfirstn (nlen sch) S = sch) as -> by (rewrite E0; apply nfirstn_app_len).
  replace (a + 2 - 2) with a by lia.
  cbv beta iota. replace (47 =? 47) with true by reflexivity. cbn [passert pbind].
  assert (forall y, starts_with s_css (nskipn (nlen sch) (sch ++ [58; 47; 46] ++ y)) = false) as Hm
    by (intros y; rewrite nskipn_app_len; reflexivity).
  assert (starts_with s_ss T = false ->
          (' (ser1, path_start1) <~
             (' _ <~ passert (negb (starts_with s_css (nskipn (nlen sch) (sch ++ [58] ++ T)))) ;; POk (sch ++ [58] ++ T, a)) ;;
           ' (ser2, qs, fs) <~ parse_query_and_fragment ovr CUrlParser STNotSpecial (nlen sch) ser1 rest ;;
           POk (mkUrl ser2 (nlen sch) a a a HI_None None path_start1 qs fs))
          = (' (s2, qs, fs) <~ parse_query_and_fragment ovr CUrlParser STNotSpecial (nlen sch) (noauth_pre sch T) rest ;;
             POk (mkUrl s2 (nlen sch) a a a HI_None None (a + nlen (marker_of T)) qs fs))) as Hplain.
  { intros Ess. unfold noauth_pre, marker_of. rewrite Ess.
    assert (starts_with s_css (nskipn (nlen sch) (sch ++ [58] ++ T)) = false) as ->.
    { rewrite nskipn_app_len. unfold T, s_css, s_ss in *. cbn [app starts_with] in *.
      replace (58 =? 58) with true by reflexivity. replace (47 =? 47) with true in * by reflexivity.
      cbn [andb] in *. exact Ess. }
    cbn [negb passert pbind]. change (nlen (@nil N)) with 0. rewrite N.add_0_r.
    replace ((sch ++ [58]) ++ [] ++ T) with (sch ++ [58] ++ T) by (rewrite <- app_assoc; reflexivity).
    reflexivity. }
  destruct body as [|b0 b'].
  - change (nnth [] 0) with (@None N). cbv beta iota. apply Hplain. reflexivity.
  - change (nnth (b0 :: b') 0) with (Some b0). cbv beta iota. rewrite match47.
    destruct (b0 =? 47) eqn:E47.
    + unfold S at 1. rewrite <- app_assoc. rewrite Hm. cbn [negb passert pbind].
      assert (marker_of T = [47; 46]) as EM.
      { unfold marker_of, T, s_ss. cbn [starts_with]. replace (47 =? 47) with true by reflexivity.
        rewrite (N.eqb_sym 47 b0), E47. reflexivity. }
      unfold noauth_pre. rewrite EM. change (nlen [47; 46]) with 2.
      replace ((sch ++ [58]) ++ [47; 46] ++ T) with S by (unfold S; rewrite <- !app_assoc; reflexivity).
      reflexivity.
    + apply Hplain. unfold T, s_ss. cbn [starts_with]. replace (47 =? 47) with true by reflexivity.
      rewrite (N.eqb_sym 47 b0), E47. reflexivity.
Qed.

End Wqf.
