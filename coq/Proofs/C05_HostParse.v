(* Proofs/C05_HostParse.v - where the host text of a parse result comes from, for every arm of the URL parser.
   ht u = the stored host text (the slice [host_start, host_end) of the serialization).
   For every record parse_url returns (any input numbers, any override, base: well formed with host_text_ok and bk):
     hosti u = HI_None,
     or ht u is the Display of a non-empty host that the host parser OF THE SCHEME CLASS of u returned
        (Host::parse for special schemes, Host::parse_opaque otherwise)             [after "//", file host state],
     or the base has a host, ht u = ht b and u has the scheme class of b           [relative references, file arms].
   Hence HC Q (special scheme => host_str satisfies Q) holds for parse results, from HostSpQ and HC Q of the base. *)
From RU Require Import Base.Prelude Base.Utf8 Model.AsciiSet Gen.Tables Model.PercentEncoding
  Model.HostT Model.UrlRecord Model.Parser Model.Setters Model.WF
  Proofs.ListN Proofs.C06_List Proofs.C02_Parts Proofs.C03_WF Proofs.C06_WFI Proofs.C06_Tail Proofs.C06_Steps
  Proofs.C06_Suffix Proofs.C06_PathParser Proofs.C06_FragQuery Proofs.C06_Front Proofs.C06_Host Proofs.C04_Parse Proofs.C04_PathTotal Proofs.C04_ParseTotal
  Proofs.C03_ReachParts Proofs.C03_Reach Proofs.C03_ReachFile
  Proofs.C05_Enc Proofs.C05_Parser Proofs.C05_Sharp Proofs.C05_Frag Proofs.C05_PathClean Proofs.C05_ParseUI Proofs.C05_ParseArms Proofs.C05_ParseAll
  Proofs.C05_BaseOk Proofs.C05_CompSteps3 Proofs.C05_AuthOfs Proofs.C05_AuthParse Proofs.C05_HostText.

Definition ht (u : url) : list N := piece u (host_start u) (host_end u).

Lemma piece_mid u X t Y : ser u = X ++ t ++ Y -> host_start u = nlen X -> host_end u = nlen X + nlen t -> ht u = t.
Proof.
  intros E E1 E2. unfold ht, piece. rewrite E, E1, E2. rewrite nskipn_app_exact.
  replace (nlen X + nlen t - nlen X) with (nlen t) by lia. apply nfirstn_app_exact.
Qed.

Lemma host_str_ht u : wf_b u = true -> host_str u = Some (if has_host u then Some (ht u) else None).
Proof. intros W. exact (host_str_eval u W). Qed.

(* the record keeps the front of the base: offsets of scheme and host, and every byte in front of the path *)
Definition CopyB (b u : url) : Prop :=
  scheme_end u = scheme_end b /\ host_start u = host_start b /\ host_end u = host_end b
  /\ agree_pre (path_start b) (ser b) (ser u).

Lemma has_host_bounds b : wf_b b = true -> host_text_ok b -> hosti b <> HI_None ->
  scheme_end b + 3 <= host_start b /\ host_start b < host_end b /\ host_end b <= path_start b /\ path_start b <= nlen (ser b).
Proof.
  intros W HT Hn. assert (has_host b = true) as Hh by (unfold has_host; destruct (hosti b); [contradiction | reflexivity ..]).
  pose proof (has_host_authority b W Hh) as Ha. pose proof (wf_auth_facts b W Ha) as F.
  pose proof (af_ue F); pose proof (af_hs F); pose proof (af_he F); pose proof (af_ps F); pose proof (af_len F).
  destruct (HT Hh) as (T1 & _). lia.
Qed.

Lemma copyb_ht b u : wf_b b = true -> host_text_ok b -> hosti b <> HI_None -> CopyB b u ->
  ht u = ht b /\ b_scheme u = b_scheme b.
Proof.
  intros W HT Hn (E1 & E2 & E3 & Hpre). destruct (has_host_bounds b W HT Hn) as (B1 & B2 & B3 & B4). split.
  - unfold ht, piece. rewrite E2, E3. apply (pre_piece (path_start b) _ _ _ _ Hpre). exact B3.
  - unfold b_scheme. rewrite E1. apply (pre_firstn (path_start b) _ _ _ Hpre). lia.
Qed.

Section Arms.
Variable dbg : bool.
Variable hp hpo : list N -> result host.
Variable hd : host -> list N.
Variable ovr : option (list N -> list N).
Hypothesis HW : HostWf hp hpo hd.

(* the host text is the Display of a non-empty host returned by the parser of class sp *)
Definition Fresh (sp : bool) (u : url) : Prop :=
  exists h, h <> HDomain [] /\ origin_st hp hpo sp h /\ ht u = hd h.

Lemma origin_nonempty sp h : h <> HDomain [] -> origin_st hp hpo sp h -> hd h <> [].
Proof.
  intros Hne Ho. destruct HW as (W1 & W2 & _).
  destruct sp; destruct Ho as [s E]; [exact (proj1 (W1 s h E Hne)) | exact (proj1 (W2 s h E Hne))].
Qed.

(* ---------- with_query_and_fragment behind an authority with a host ---------- *)
Lemma wqf_pre ctx st se ue hs he hi pt ps s rem u :
  with_query_and_fragment ovr ctx st se ue hs he hi pt ps s rem = POk u -> se + 3 < ps ->
  scheme_end u = se /\ host_start u = hs /\ host_end u = he /\ hosti u = hi /\ exists t, ser u = s ++ t.
Proof.
  unfold with_query_and_fragment. intros H L.
  replace (ps =? se + 1) with false in H by lia. replace (ps =? se + 3) with false in H by lia.
  cbn [andb pbind] in H. pb H b Hb. destruct b as [[s2 qs] fs]. inversion H; subst u.
  destruct (parse_query_and_fragment_app _ _ _ _ _ _ _ _ _ Hb) as (t & -> & _).
  repeat split. exists t. reflexivity.
Qed.

(* ---------- host and port ---------- *)
Lemma phap_origin ctx st se ser l ser2 he hi pt rem :
  parse_host_and_port hp hpo hd ctx st se ser l = POk (ser2, he, hi, pt, rem) ->
  exists h, ser2 = ser ++ hd h ++ ptext pt /\ he = nlen ser + nlen (hd h) /\ hi = hi_of_host h
    /\ (h = HDomain [] \/ origin_st hp hpo (st_is_special st) h).
Proof.
  unfold parse_host_and_port. intros H. pb H a Ha. destruct a as [h remaining]. cbv zeta in H.
  pose proof (parse_host_origin_st hp hpo _ _ _ _ Ha) as Ho.
  pb H he0 Hhe. apply to_u32_eq in Hhe. subst he0. pb H x Hx.
  exists h. destruct (inp_split_prefix_char 58 remaining) as [rm|].
  - pb H b Hb. destruct b as [port rem2]. inversion H; subst. split; [|split; [apply nlen_app | split; [reflexivity | exact Ho]]].
    destruct pt as [p|]; cbn [ptext]; [|rewrite app_nil_r; reflexivity]. rewrite <- app_assoc. reflexivity.
  - inversion H; subst. cbn [ptext]. rewrite app_nil_r. split; [reflexivity|]. split; [apply nlen_app|]. split; [reflexivity | exact Ho].
Qed.

(* ---------- after "//" ---------- *)
Theorem ads_host ctx st se ser0 l u : nlen ser0 = se + 1 ->
  after_double_slash dbg hp hpo hd ovr ctx st se ser0 l = POk u ->
  hosti u = HI_None \/ Fresh (st_is_special st) u.
Proof.
  intros L0. unfold after_double_slash. cbv zeta. intros H.
  pb H a Ha. destruct a as [[ser1 ue] rm]. destruct (parse_userinfo_shape _ _ _ _ _ _ Ha) as (x & -> & _).
  pb H hs Hhs. apply to_u32_eq in Hhs. subst hs.
  pb H b Hb. destruct b as [[[[ser2 he] hi] pt] rm2].
  destruct (phap_origin _ _ _ _ _ _ _ _ _ _ Hb) as (h & -> & -> & -> & Ho).
  match type of H with (if ?c then _ else _) = _ => destruct c; [discriminate|] end.
  pb H ps Hps. apply to_u32_eq in Hps. subst ps.
  pb H c Hc. destruct c as [[s3 hh] rm3].
  destruct (parse_path_start_clean dbg ctx st true _ rm2 s3 hh rm3 Hc) as (P & -> & _).
  destruct (host_eq_dec_empty h) as [->|Hne].
  { left. apply wqf_fields in H. exact (proj2 (proj2 H)). }
  right. destruct Ho as [Ho|Ho]; [contradiction|].
  pose proof (origin_nonempty _ h Hne Ho) as Hnn.
  assert (1 <= nlen (hd h)) as Lh by (destruct (hd h); [contradiction | rewrite nlen_cons; lia]).
  destruct (wqf_pre _ _ _ _ _ _ _ _ _ _ _ _ H) as (_ & E2 & E3 & _ & (t & E)).
  { rewrite !nlen_app, L0. change (nlen [47; 47]) with 2. lia. }
  exists h. split; [exact Hne|]. split; [exact Ho|].
  apply (piece_mid u ((ser0 ++ [47; 47]) ++ x) (hd h) (ptext pt ++ P ++ t)); [|exact E2 | exact E3].
  rewrite E, <- !app_assoc. reflexivity.
Qed.

(* ---------- fields of the copying arms ---------- *)
Lemma fragment_only_copy b l u : wf_b b = true -> fragment_only b l = POk u -> hosti u = hosti b /\ CopyB b u.
Proof.
  intros W. unfold fragment_only. cbv zeta. intros H. pb H fs Hfs. inversion H; subst u.
  split; [reflexivity|]. split; [reflexivity|]. split; [reflexivity|]. split; [reflexivity|]. cbn [ser].
  rewrite parse_fragment_text, <- app_assoc.
  eapply agree_pre_trans; [apply (bf_pre b W)|]. apply agree_pre_app_le.
  exact (pre_len _ _ _ (bf_pre b W) (path_start_le_len b W)).
Qed.

Lemma wqf_copy st b s rem u : wf_b b = true -> agree_pre (path_start b) (ser b) s -> path_start b <= nlen s ->
  with_query_and_fragment ovr CUrlParser st (scheme_end b) (username_end b) (host_start b) (host_end b)
    (hosti b) (port b) (path_start b) s rem = POk u ->
  hosti u = hosti b /\ (scheme_end b + 3 < path_start b -> CopyB b u).
Proof.
  intros W Hpre Hl H. split; [exact (proj2 (proj2 (wqf_fields _ _ _ _ _ _ _ _ _ _ _ _ _ H)))|].
  intros L. destruct (wqf_pre _ _ _ _ _ _ _ _ _ _ _ _ H L) as (E1 & E2 & E3 & _ & (t & E)).
  split; [exact E1|]. split; [exact E2|]. split; [exact E3|]. rewrite E.
  eapply agree_pre_trans; [exact Hpre | apply agree_pre_app_le; exact Hl].
Qed.

(* ---------- relative references ---------- *)
Theorem parse_relative_host st b l u : wf_b b = true -> host_text_ok b -> st_is_file st = false ->
  nnth (ser b) (scheme_end b + 1) = Some 47 ->
  parse_relative dbg hp hpo hd ovr CUrlParser st b l = POk u ->
  hosti u = HI_None \/ Fresh (st_is_special st) u \/ (hosti b <> HI_None /\ CopyB b u).
Proof.
  intros W HT Hnf Hs.
  assert (forall u0, hosti u0 = hosti b /\ (scheme_end b + 3 < path_start b -> CopyB b u0) ->
            hosti u0 = HI_None \/ Fresh (st_is_special st) u0 \/ (hosti b <> HI_None /\ CopyB b u0)) as Hcopy.
  { intros u0 [E C]. destruct (hosti b) eqn:Eh; [left; exact E | right; right ..];
      (split; [discriminate|]); apply C;
      (assert (hosti b <> HI_None) as Hn by (rewrite Eh; discriminate));
      destruct (has_host_bounds b W HT Hn) as (B1 & B2 & B3 & B4); lia. }
  destruct (wf_scheme_facts b W) as (S1 & S2 & S3).
  pose proof (path_start_le_len b W) as PL.
  assert (nlen (nfirstn (path_start b) (ser b)) = path_start b) as La by (apply nlen_nfirstn; exact PL).
  unfold parse_relative, inp_split_first. destruct (inp_next l) as [[c r]|] eqn:En.
  2:{ intros H. inversion H; subst u. apply Hcopy. split; [reflexivity|]. intros _.
      split; [reflexivity|]. split; [reflexivity|]. split; [reflexivity|]. exact (bf_pre b W). }
  assert (inp_is_empty l = false) as He by (unfold inp_is_empty; rewrite En; reflexivity).
  destruct (c =? 63).
  { intros H. pb H a Ha. destruct a as [[s qs] fs]. inversion H; subst u. apply Hcopy. split; [reflexivity|]. intros _.
    split; [reflexivity|]. split; [reflexivity|]. split; [reflexivity|]. cbn [ser url_with].
    destruct (parse_query_and_fragment_app _ _ _ _ _ _ _ _ _ Ha) as (t & -> & _).
    eapply agree_pre_trans; [apply (bq_pre b W)|]. apply agree_pre_app_le.
    exact (pre_len _ _ _ (bq_pre b W) PL). }
  destruct (c =? 35).
  { intros H. apply Hcopy. destruct (fragment_only_copy b l u W H) as [E C]. split; [exact E | intros _; exact C]. }
  destruct ((c =? 47) || (c =? 92) && st_is_special st).
  - destruct (inp_count_matching (fun d => (d =? 47) || (d =? 92) && st_is_special st) l) as [slashes remaining].
    destruct (2 <=? slashes).
    + cbv zeta. intros H. pb H x Hx.
      assert (nlen (nfirstn (scheme_end b + 1) (ser b)) = scheme_end b + 1) as L1 by (apply nlen_nfirstn; lia).
      assert (forall X, after_double_slash dbg hp hpo hd ovr CUrlParser st (scheme_end b) (nfirstn (scheme_end b + 1) (ser b)) X = POk u ->
                hosti u = HI_None \/ Fresh (st_is_special st) u \/ (hosti b <> HI_None /\ CopyB b u)) as Hads.
      { intros X HX. destruct (ads_host _ st _ _ X u L1 HX) as [A|A]; [left; exact A | right; left; exact A]. }
      destruct (negb (st_is_special st)); [destruct (inp_split_prefix_str s_ss l)|]; exact (Hads _ H).
    + cbv zeta. intros H. pb H a Ha. destruct a as [[s hh] rem].
      set (P0 := nfirstn (path_start b) (ser b)) in *.
      assert (path_start b + 1 <= nlen (P0 ++ [47])) as G1 by (rewrite nlen_app, La; change (nlen [47]) with 1; lia).
      assert (nnth (P0 ++ [47]) (path_start b) = Some 47) as G2 by (rewrite <- La; apply nnth_last).
      assert (forallb no_qh (nskipn (path_start b) (P0 ++ [47])) = true) as G3
        by (rewrite <- La; rewrite nskipn_app_exact; reflexivity).
      destruct (parse_path_shape dbg st true (path_start b) (P0 ++ [47]) r s hh rem Hnf G1 G2 G3 Ha) as (A & B & C & _).
      apply Hcopy. apply (wqf_copy st b s rem u W); [|lia|exact H].
      eapply agree_pre_trans; [apply agree_pre_nfirstn; exact PL | eapply agree_pre_le; [exact A | lia]].
  - cbv zeta. intros H. pb H s1 Hs1.
    destruct (pop_base_shape hp hpo st b l s1 W Hnf Hs He Hs1) as (J1 & J2 & J3 & J4).
    set (s2 := if (nlen s1 =? path_start b) && (st_is_special (scheme_type_of (b_scheme b)) || negb (inp_is_empty l))
               then s1 ++ [47] else s1) in *.
    pb H a Ha. destruct a as [[s3 hh] rem].
    assert (exists X, parse_path dbg CUrlParser st true (path_start b) s2 X = POk (s3, hh, rem)) as [X EX].
    { destruct (N.eq_dec c 47) as [->|Hc]; [exists r; exact Ha|]. exists l.
      destruct c as [|p]; [exact Ha|]. do 6 (destruct p as [p|p|]; try exact Ha). congruence. }
    destruct (parse_path_shape dbg st true (path_start b) s2 X s3 hh rem Hnf J2 J3 J4 EX) as (A & B & C & _).
    apply Hcopy. apply (wqf_copy st b s3 rem u W); [|lia|exact H].
    eapply agree_pre_trans; [exact J1 | eapply agree_pre_le; [exact A | lia]].
Qed.


(* ---------- the file states ---------- *)
Lemma pfh_origin ser l ser1 flag hi rem :
  parse_file_host hp hd ser l = POk (ser1, flag, hi, rem) ->
  (ser1 = ser /\ hi = HI_None)
  \/ (exists h s, hp s = Ok h /\ ser1 = ser ++ hd h /\ hi = hi_of_host h /\ flag = true).
Proof.
  unfold parse_file_host. destruct (file_host l) as [t rm].
  destruct t as [|c t']; [intros H; inversion H; subst; left; split; reflexivity|].
  intros H. pb H h Hh. apply of_result_ok in Hh.
  assert (POk (ser ++ hd h, true, hi_of_host h, rm) = POk (ser1, flag, hi, rem) ->
          (ser1 = ser /\ hi = HI_None)
          \/ (exists h0 s, hp s = Ok h0 /\ ser1 = ser ++ hd h0 /\ hi = hi_of_host h0 /\ flag = true)) as Hgen.
  { intros X. inversion X; subst. right. exists h, (c :: t'). split; [exact Hh|]. repeat split. }
  destruct h as [d|a|q]; try exact (Hgen H).
  destruct (list_eqb d s_localhost); [inversion H; subst; left; split; reflexivity | exact (Hgen H)].
Qed.

Lemma fresh_true_of_hp u h s0 Z : hp s0 = Ok h -> ser u = (s_file_css ++ hd h) ++ Z ->
  host_start u = 7 -> host_end u = nlen (s_file_css ++ hd h) -> hosti u = hi_of_host h ->
  hosti u = HI_None \/ Fresh true u.
Proof.
  intros Eh E E1 E2 E3. destruct (host_eq_dec_empty h) as [->|Hne]; [left; rewrite E3; reflexivity|].
  right. exists h. split; [exact Hne|]. split; [exists s0; exact Eh|].
  apply (piece_mid u s_file_css (hd h) Z); [rewrite E, <- !app_assoc; reflexivity | exact E1|].
  rewrite E2, nlen_app. reflexivity.
Qed.

Definition FileRes (base_file : option url) (u : url) : Prop :=
  hosti u = HI_None
  \/ (b_scheme u = s_file
      /\ (Fresh true u \/ exists b, base_file = Some b /\ hosti b <> HI_None /\ ht u = ht b)).

Theorem parse_file_host_origin st base_file l u :
  match base_file with Some b => wf_b b = true /\ host_text_ok b /\ b_scheme b = s_file | None => True end ->
  parse_file dbg hp hd ovr CUrlParser st base_file l = POk u -> FileRes base_file u.
Proof.
  intros Hb. unfold parse_file. destruct (inp_split_first l) as [first_char after_first] eqn:Esf.
  assert (forall hh X,
    (' (s2, _, rem) <~ parse_path dbg CUrlParser STFile hh 7 (s_file_css ++ [47]) X ;;
     ' (s3, qs, fs) <~ parse_query_and_fragment ovr CUrlParser STFile 4 s2 rem ;;
     POk (file_url s3 7 7 HI_None qs fs)) = POk u -> FileRes base_file u) as Hfresh.
  { intros hh X H. pb H a Ha. destruct a as [[s2 h2] rem]. pb H c Hc. destruct c as [[s3 qs] fs]. inversion H; subst u.
    left. reflexivity. }
  assert (forall b u0, base_file = Some b -> hosti u0 = hosti b /\ (scheme_end b + 3 < path_start b -> CopyB b u0) ->
            FileRes base_file u0) as Hcopy.
  { intros b u0 Eb [E C]. rewrite Eb in Hb. destruct Hb as (W & HT & Es).
    destruct (hosti b) eqn:Eh; [left; exact E | right ..];
      (assert (hosti b <> HI_None) as Hn by (rewrite Eh; discriminate));
      destruct (has_host_bounds b W HT Hn) as (B1 & B2 & B3 & B4);
      destruct (copyb_ht b u0 W HT Hn (C ltac:(lia))) as [H1 H2];
      (split; [rewrite H2; exact Es | right; exists b; split; [exact Eb | split; [exact Hn | exact H1]]]). }
  destruct (match first_char with Some c => is_slash_or_bslash c | None => false end) eqn:Efs.
  - destruct (inp_split_first after_first) as [next_char after_next].
    destruct (match next_char with Some c => is_slash_or_bslash c | None => false end).
    + (* "//" : file host *)
      intros H. pb H a Ha. destruct a as [[[ser1 flag] hi] remaining].
      destruct (pfh_origin _ _ _ _ _ _ Ha) as [(-> & ->)|(h & s0 & Eh & -> & -> & ->)].
      * left. pb H he Hhe. cbv zeta in H. pb H b Hb2. destruct b as [[ser2 hh] rem2].
        destruct (negb hh); cbv beta iota zeta in H; pb H c Hc; destruct c as [[ser4 qs] fs]; inversion H; subst u; reflexivity.
      * pb H he Hhe. apply to_u32_eq in Hhe. subst he. cbv beta iota zeta in H. pb H b Hb2. destruct b as [[ser2 hh] rem2].
        destruct (parse_path_start_clean dbg CUrlParser STFile _ _ _ _ _ _ Hb2) as (P & -> & _).
        destruct (negb hh); cbv beta iota zeta in H; pb H c Hc; destruct c as [[ser4 qs] fs]; inversion H; subst u;
          [left; reflexivity|].
        destruct (parse_query_and_fragment_app _ _ _ _ _ _ _ _ _ Hc) as (t & -> & _).
        destruct (fresh_true_of_hp (file_url (((s_file_css ++ hd h) ++ P) ++ t) 7 (nlen (s_file_css ++ hd h)) (hi_of_host h) qs fs)
                    h s0 (P ++ t) Eh) as [A|A]; try reflexivity.
        { cbn [ser file_url]. rewrite <- !app_assoc. reflexivity. }
        { left. exact A. }
        right. split; [|left; exact A]. unfold b_scheme, file_url. cbn [ser scheme_end]. rewrite <- !app_assoc. reflexivity.
    + (* a single slash *)
      match goal with |- context [if negb (starts_with_wdl_segment after_first) then ?a else ?b] =>
        set (T := if negb (starts_with_wdl_segment after_first) then a else b) end.
      assert (snd T = HI_None
              \/ exists b hs, base_file = Some b /\ host_str b = Some (Some hs) /\ fst (fst T) = s_file_css ++ hs
                   /\ snd (fst T) = nlen (fst (fst T)) /\ snd T = hosti b) as HT.
      { subst T. destruct (negb (starts_with_wdl_segment after_first)); [|left; reflexivity].
        destruct base_file as [base|]; [|left; reflexivity].
        destruct (base_first_segment base) as [seg|]; [|left; reflexivity].
        destruct (is_normalized_wdl seg); [left; reflexivity|].
        destruct (host_str base) as [[hs|]|] eqn:Ehs; try (left; reflexivity).
        right. exists base, hs. cbn [fst snd]. split; [reflexivity|]. split; [exact Ehs|]. split; [reflexivity|].
        split; reflexivity. }
      destruct T as [[ser1 he] hi]. cbn [fst snd] in HT.
      intros H. pb H a Ha. destruct a as [[ser2 hh] remaining]. pb H c Hc. destruct c as [[ser3 qs] fs].
      inversion H; subst u. clear H.
      destruct HT as [->|(b & hs & Eb & Ehs & -> & -> & ->)]; [left; reflexivity|].
      rewrite Eb in Hb. destruct Hb as (W & HT & Es).
      rewrite (host_str_ht b W) in Ehs.
      destruct (has_host b) eqn:Ehh; [|discriminate Ehs]. inversion Ehs as [Ehs1].
      pose proof (pinvq_parse_path dbg (nlen (s_file_css ++ hs)) (s_file_css ++ hs) eq_refl _ _ _ _ _ _ _ _ Ha
                    (pinvq_start (s_file_css ++ hs))) as I2.
      destruct (pinvq_split _ _ I2) as (P & -> & _).
      destruct (parse_query_and_fragment_app _ _ _ _ _ _ _ _ _ Hc) as (t & -> & _).
      right. split; [unfold b_scheme, file_url; cbn [ser scheme_end]; rewrite <- !app_assoc; reflexivity|].
      right. exists b. split; [exact Eb|]. split; [unfold has_host in Ehh; intros X; rewrite X in Ehh; discriminate|].
      rewrite Ehs1.
      apply (piece_mid _ s_file_css hs (P ++ t)); [cbn [ser file_url]; rewrite <- !app_assoc; reflexivity | reflexivity|].
      cbn [host_end file_url]. rewrite nlen_app. reflexivity.
  - destruct base_file as [base|] eqn:Ebf; [|apply Hfresh].
    pose proof Hb as (W & HT & Es).
    destruct first_char as [c|].
    2:{ intros H. inversion H; subst u. apply (Hcopy base _ eq_refl). split; [reflexivity|]. intros _.
        split; [reflexivity|]. split; [reflexivity|]. split; [reflexivity|]. exact (bf_pre base W). }
    destruct (c =? 63).
    { intros H. pb H a Ha. destruct a as [[s qs] fs]. inversion H; subst u. apply (Hcopy base _ eq_refl).
      split; [reflexivity|]. intros _.
      split; [reflexivity|]. split; [reflexivity|]. split; [reflexivity|]. cbn [ser url_with].
      destruct (parse_query_and_fragment_app _ _ _ _ _ _ _ _ _ Ha) as (t & -> & _).
      eapply agree_pre_trans; [apply (bq_pre base W)|]. apply agree_pre_app_le.
      exact (pre_len _ _ _ (bq_pre base W) (path_start_le_len base W)). }
    destruct (c =? 35).
    { intros H. apply (Hcopy base _ eq_refl). destruct (fragment_only_copy base l u W H) as [E C]. split; [exact E | intros _; exact C]. }
    destruct (negb (starts_with_wdl_segment l)); [|apply Hfresh].
    intros H. pb H s1 Hs1. pb H a Ha. destruct a as [[s2 hh] rem].
    destruct (bq_shape base W) as (Ebq & P1 & P2). pose proof (path_start_le_len base W) as PL.
    pose proof (qf_facts_of base W) as (_ & _ & _ & Q4 & _).
    assert (nlen (nfirstn (path_start base) (ser base)) = path_start base) as Lp by (apply nlen_nfirstn; exact PL).
    assert (PInv (path_start base) (path_start base) (nfirstn (path_start base) (ser base)) (b_before_query base)) as I0.
    { rewrite Ebq. split; [apply nfirstn_nfirstn; exact P1|].
      replace (path_end base) with (path_start base + (path_end base - path_start base)) by lia.
      rewrite nskipn_nfirstn_comm. exact Q4. }
    pose proof (pinv_shorten_path (path_start base) (path_start base) (nfirstn (path_start base) (ser base))
                  (N.le_refl _) ltac:(lia) Lp STFile _ _ Hs1 I0) as I1.
    pose proof (pinv_len _ _ _ (N.le_refl _) ltac:(lia) Lp s1 I1) as L1. destruct I1 as [J1 J2].
    destruct (parse_path_shape_file dbg true (path_start base) s1 l s2 hh rem L1 J2 Ha) as (A & B & C & _).
    apply (Hcopy base _ eq_refl). apply (wqf_copy STFile base s2 rem u W); [|lia|exact H].
    eapply agree_pre_trans; [exact J1 | exact A].
Qed.

End Arms.

(* ---------- top level ---------- *)
Lemma scheme_type_file s : scheme_type_of s = STFile -> s = s_file.
Proof.
  unfold scheme_type_of.
  destruct (list_eqb s s_http || list_eqb s s_https || list_eqb s s_ws || list_eqb s s_wss || list_eqb s s_ftp); [discriminate|].
  destruct (list_eqb s s_file) eqn:E; [|discriminate]. intros _. apply list_eqb_spec. exact E.
Qed.

Section Top.
Variable dbg : bool.
Variable hp hpo : list N -> result host.
Variable hd : host -> list N.
Variable ovr : option (list N -> list N).
Hypothesis HW : HostWf hp hpo hd.

Definition HostRes (base : option url) (u : url) : Prop :=
  hosti u = HI_None \/ Fresh hp hpo hd (spb u) u
  \/ exists b, base = Some b /\ hosti b <> HI_None /\ ht u = ht b /\ spb u = spb b.

Lemma copy_res b u : wf_b b = true -> host_text_ok b -> hosti u = hosti b /\ CopyB b u -> HostRes (Some b) u.
Proof.
  intros W HT [E C]. destruct (hosti b) eqn:Eh; [left; exact E | right; right ..];
    (assert (hosti b <> HI_None) as Hn by (rewrite Eh; discriminate));
    destruct (copyb_ht b u W HT Hn C) as [H1 H2];
    (exists b; split; [reflexivity | split; [exact Hn | split; [exact H1 | unfold spb; rewrite H2; reflexivity]]]).
Qed.

Lemma relative_res st b l u : wf_b b = true -> host_text_ok b -> st_is_file st = false ->
  nnth (ser b) (scheme_end b + 1) = Some 47 -> st_is_special st = spb b ->
  parse_relative dbg hp hpo hd ovr CUrlParser st b l = POk u -> HostRes (Some b) u.
Proof.
  intros W HT Hnf Hs Est H.
  destruct (parse_relative_bk dbg hp hpo hd ovr st b l u W Hs Hnf H) as (K1 & K2 & _).
  assert (spb u = spb b) as Esp by (unfold spb, b_scheme; rewrite K1, K2; reflexivity).
  destruct (parse_relative_host dbg hp hpo hd ovr HW st b l u W HT Hnf Hs H) as [A|[A|[Hn C]]].
  - left. exact A.
  - right. left. rewrite Esp, <- Est. exact A.
  - right. right. destruct (copyb_ht b u W HT Hn C) as [H1 _].
    exists b. split; [reflexivity|]. split; [exact Hn|]. split; [exact H1 | exact Esp].
Qed.

Lemma file_res (base : option url) base_file l st u :
  match base with Some b => wf_b b = true /\ host_text_ok b | None => True end ->
  (base_file = None \/ exists b, base = Some b /\ base_file = Some b /\ b_scheme b = s_file) ->
  parse_file dbg hp hd ovr CUrlParser st base_file l = POk u -> HostRes base u.
Proof.
  intros Hb Hbf H.
  assert (match base_file with Some b => wf_b b = true /\ host_text_ok b /\ b_scheme b = s_file | None => True end) as Hbf2.
  { destruct Hbf as [->|(b & E1 & -> & E3)]; [exact I|]. rewrite E1 in Hb. destruct Hb as [W HT]. split; [exact W|]. split; [exact HT | exact E3]. }
  destruct (parse_file_host_origin dbg hp hpo hd ovr st base_file l u Hbf2 H) as [A|(Es & [A|(b & Eb & Hn & Eh)])].
  - left. exact A.
  - right. left. assert (spb u = true) as -> by (unfold spb; rewrite Es; reflexivity). exact A.
  - right. right. destruct Hbf as [E0|(b0 & E1 & E2 & E3)]; [rewrite E0 in Eb; discriminate|].
    rewrite E2 in Eb. inversion Eb; subst b0. exists b. split; [exact E1|]. split; [exact Hn|]. split; [exact Eh|].
    unfold spb. rewrite Es, E3. reflexivity.
Qed.

Theorem parse_with_scheme_host base sch l u :
  match base with Some b => wf_b b = true /\ host_text_ok b /\ bk b | None => True end ->
  parse_with_scheme dbg hp hpo hd ovr base sch l = POk u -> HostRes base u.
Proof.
  intros Hb. unfold parse_with_scheme. intros H. pb H se Hse. apply to_u32_eq in Hse. subst se. cbv zeta in H.
  assert (nlen (sch ++ [58]) = nlen sch + 1) as L0 by (rewrite nlen_app; reflexivity).
  destruct (scheme_type_of sch) eqn:Est.
  - eapply (file_res base); [destruct base as [b|]; [tauto | exact I] | | exact H].
    destruct base as [b|]; [|left; reflexivity].
    destruct (list_eqb (b_scheme b) s_file) eqn:Eb; [|left; reflexivity].
    right. exists b. split; [reflexivity|]. split; [reflexivity|]. apply list_eqb_spec. exact Eb.
  - destruct (inp_count_matching is_slash_or_bslash l) as [slashes remaining].
    assert (forall X, after_double_slash dbg hp hpo hd ovr CUrlParser STSpecialNotFile (nlen sch) (sch ++ [58]) X = POk u ->
              HostRes base u) as Hads.
    { intros X HX. destruct (ads_bk dbg hp hpo hd ovr _ _ _ X u L0 HX) as (A & B & _).
      assert (spb u = true) as Esp.
      { unfold spb, b_scheme. rewrite A, B, nfirstn_app_exact, Est. reflexivity. }
      destruct (ads_host dbg hp hpo hd ovr HW _ _ _ _ X u L0 HX) as [C|C]; [left; exact C|].
      right. left. rewrite Esp. exact C. }
    destruct base as [b|]; [|exact (Hads _ H)].
    destruct ((slashes <? 2) && list_eqb (b_scheme b) sch) eqn:Ec; [|exact (Hads _ H)].
    apply andb_true_iff in Ec. destruct Ec as [_ Ec]. apply list_eqb_spec in Ec.
    pb H x Hx. destruct Hb as (W & HT & K).
    assert (spb b = true) as Esb by (unfold spb; rewrite Ec, Est; reflexivity).
    apply (relative_res STSpecialNotFile b l u W HT eq_refl (K Esb)); [rewrite Esb; reflexivity | exact H].
  - destruct (pns_bk dbg hp hpo hd ovr _ _ _ _ u L0 H) as (K1 & K2).
    assert (spb u = false) as Esp.
    { unfold spb, b_scheme. rewrite K1, K2, nfirstn_app_exact, Est. reflexivity. }
    unfold parse_non_special in H. destruct (inp_split_prefix_str s_ss l) as [rm|].
    + destruct (ads_host dbg hp hpo hd ovr HW _ _ _ _ rm u L0 H) as [C|C]; [left; exact C|].
      right. left. rewrite Esp. exact C.
    + left. pb H ps Hps. pb H a Ha. destruct a as [s1 rem]. apply wqf_fields in H. exact (proj2 (proj2 H)).
Qed.

Theorem parse_url_host base input u :
  match base with Some b => wf_b b = true /\ host_text_ok b /\ bk b | None => True end ->
  parse_url dbg hp hpo hd ovr base input = POk u -> HostRes base u.
Proof.
  intros Hb. unfold parse_url. cbv zeta.
  destruct (parse_scheme CUrlParser (input_new_trim_c0 input)) as [[sch rem]|].
  - apply parse_with_scheme_host. exact Hb.
  - destruct base as [b|]; [|discriminate]. destruct Hb as (W & HT & K).
    destruct (inp_starts_with_char 35 (input_new_trim_c0 input)).
    { intros H. exact (copy_res b u W HT (fragment_only_copy b _ u W H)). }
    rewrite (cannot_be_a_base_eval b W).
    destruct (byte_eqb (ser b) (scheme_end b + 1) 47) eqn:Eb; cbn [negb]; [|discriminate].
    apply byte_eqb_nnth in Eb.
    destruct (st_is_file (scheme_type_of (b_scheme b))) eqn:Ef.
    + intros H. eapply (file_res (Some b) (Some b)); [exact (conj W HT) | | exact H].
      right. exists b. split; [reflexivity|]. split; [reflexivity|]. apply scheme_type_file.
      destruct (scheme_type_of (b_scheme b)); try discriminate Ef; reflexivity.
    + intros H. eapply (relative_res _ b); [exact W | exact HT | exact Ef | exact Eb | reflexivity | exact H].
Qed.

End Top.
