(* Proofs/C02_Form.v - the link between the form_urlencoded serializer and the query state of the URL parser.
   Url::query_pairs_mut / Url::parse_with_params write the output of form_urlencoded::Serializer straight into
   the URL's serialization, without passing it through the parser's query state.  The result is a fixpoint of
   re-parsing only if the query state leaves every byte the serializer can emit alone.  Both sides are tables
   regenerated from the Rust sources (T_FORM_UNCHANGED, T_FORM_SPACE_OUT, T_ENC_TABLE, the separators; T_QUERY,
   T_SPECIAL_QUERY), so a change of either side alone breaks the sweep below.
   (1) form_query_clean: the sweep.
   (2) qpm_Canon: a query_pairs_mut session on a record of one of the four canonical forms yields a record of a
       canonical form (L2 for query_pairs_mut). *)
From RU Require Import Proofs.C15_Table Proofs.C15_Bser Proofs.C15_Ser Proofs.C15_Url.
From RU Require Import Base.Prelude Base.Utf8 Base.Utf8Facts Base.Outcome_c15 Model.AsciiSet Gen.Tables
  Model.PercentEncoding Model.HostT Model.UrlRecord Model.Parser Model.Setters Model.WF Model.FormUrlencoded
  Model.QueryPairs
  Proofs.ListN Proofs.C14_Set Proofs.C14_Enc Proofs.C02_Enc Proofs.C02_Parts Proofs.C02_Opaque Proofs.C02_Path
  Proofs.C02_PathL1 Proofs.C02_Reach Proofs.C02_AuthParts Proofs.C02_Auth Proofs.C02_AuthWf Proofs.C02_PathSp
  Proofs.C02_AuthSp Proofs.C02_AuthMain Proofs.C02_SetQF Proofs.C02_Canon.
Open Scope N_scope.
Open Scope list_scope.

(* ================= 1. the sweep ================= *)
(* every byte the serializer code can push into its String: a byte of the unchanged class as it is, the
   replacement of a space, the three bytes percent_encode_byte cuts out of its table, the two separators *)
Definition form_emits (c : N) : bool :=
  byte_serialized_unchanged c || memb c T_FORM_SPACE_OUT || memb c T_ENC_TABLE
  || (c =? T_FORM_PUSH_SEP) || (c =? T_FORM_PUSH_EQ).

(* what the query state of the URL parser does with a byte of its input: it is stored as it is (in neither
   percent-encode set, for the setter context also not '#'), it is not removed on the way in (tab / LF / CR),
   and it is printable ASCII *)
Definition query_leaves_alone (c : N) : bool :=
  kept T_QUERY c && kept T_SPECIAL_QUERY c && negb (c =? 35) && negb (is_tnl c) && (32 <? c) && (c <? 127).

Lemma form_emits_small :
  forallb (fun x => x <? 256) T_FORM_UNCHANGED && forallb (fun x => x <? 256) T_FORM_SPACE_OUT
  && forallb (fun x => x <? 256) T_ENC_TABLE && (T_FORM_PUSH_SEP <? 256) && (T_FORM_PUSH_EQ <? 256) = true.
Proof. vm_compute. reflexivity. Qed.

Lemma form_emits_lt c : form_emits c = true -> c < 256.
Proof.
  pose proof form_emits_small as S.
  apply andb_true_iff in S. destruct S as [S S5]. apply andb_true_iff in S. destruct S as [S S4].
  apply andb_true_iff in S. destruct S as [S S3]. apply andb_true_iff in S. destruct S as [S1 S2].
  rewrite forallb_forall in S1, S2, S3.
  unfold form_emits, byte_serialized_unchanged. intros H.
  destruct (memb c T_FORM_UNCHANGED) eqn:E1; [apply memb_spec in E1; apply S1 in E1; lia|].
  destruct (memb c T_FORM_SPACE_OUT) eqn:E2; [apply memb_spec in E2; apply S2 in E2; lia|].
  destruct (memb c T_ENC_TABLE) eqn:E3; [apply memb_spec in E3; apply S3 in E3; lia|].
  cbn [orb] in H. lia.
Qed.

Lemma form_query_sweep : all_below 256 (fun c => implb (form_emits c) (query_leaves_alone c)) = true.
Proof. vm_compute. reflexivity. Qed.

Theorem form_query_clean c : form_emits c = true -> query_leaves_alone c = true.
Proof.
  intros H. pose proof (all_below_spec 256 _ form_query_sweep c (form_emits_lt c H)) as K. cbv beta in K.
  rewrite H in K. exact K.
Qed.

(* the explicit reading of the class: the byte_serialized_unchanged set, '+', '%', the upper-case hex digits,
   '&', '=' *)
Definition is_hex_upper (c : N) : bool := ((48 <=? c) && (c <=? 57)) || ((65 <=? c) && (c <=? 70)).
Lemma form_emits_explicit_sweep : all_below 256 (fun c => Bool.eqb (form_emits c)
    (byte_serialized_unchanged c || (c =? 43) || (c =? 37) || is_hex_upper c || (c =? 38) || (c =? 61))) = true.
Proof. vm_compute. reflexivity. Qed.

Theorem form_query_clean_explicit c :
  byte_serialized_unchanged c = true \/ c = 43 \/ c = 37 \/ is_hex_upper c = true \/ c = 38 \/ c = 61 ->
  should_encode T_QUERY c = false /\ should_encode T_SPECIAL_QUERY c = false /\ c <> 35 /\ is_tnl c = false
  /\ 32 < c /\ c < 127.
Proof.
  intros H.
  assert (c < 256) as Hc.
  { destruct H as [H|H].
    - apply form_emits_lt. unfold form_emits. rewrite H. reflexivity.
    - unfold is_hex_upper in H. lia. }
  assert (form_emits c = true) as He.
  { pose proof (all_below_spec 256 _ form_emits_explicit_sweep c Hc) as K. cbv beta in K. apply Bool.eqb_prop in K.
    rewrite K. unfold is_hex_upper in *.
    destruct H as [->|[->|[->|[H|[->| ->]]]]]; try reflexivity.
    rewrite H. rewrite !orb_true_r. reflexivity. }
  pose proof (form_query_clean c He) as Q. unfold query_leaves_alone, kept in Q.
  repeat (apply andb_true_iff in Q; destruct Q as [Q ?]).
  repeat match goal with X : negb _ = true |- _ => apply negb_true_iff in X end.
  repeat split; try assumption; lia.
Qed.

(* the alphabet in which C15 states the output of the serializer is inside the class *)
Lemma form_alpha_emits c : form_alpha c = true -> form_emits c = true.
Proof.
  unfold form_alpha, val_alpha. rewrite <- unchanged_is_spec. intros H. unfold form_emits.
  destruct (byte_serialized_unchanged c) eqn:E1; [reflexivity|]. cbn [orb] in H.
  assert (c = 43 \/ c = 37 \/ c = 38 \/ c = 61) as D by lia.
  destruct D as [->|[->|[->| ->]]]; vm_compute; reflexivity.
Qed.

Lemma form_alpha_kept st c : form_alpha c = true -> kept (query_set st) c = true.
Proof.
  intros H. pose proof (form_query_clean c (form_alpha_emits c H)) as Q. unfold query_leaves_alone in Q.
  repeat (apply andb_true_iff in Q; destruct Q as [Q ?]).
  unfold query_set. destruct (st_is_special st); assumption.
Qed.

(* ================= 2. a query_pairs_mut session on the common shape ================= *)
Lemma Forall_kept_clean S l : Forall (fun c => kept S c = true) l <-> clean S l = true.
Proof. unfold clean. rewrite forallb_forall, Forall_forall. tauto. Qed.

Section QpmShape.
Variable dbg : bool.
Variables (pre : list N) (se ue hs he : N) (hi : host_internal) (pt : option N) (ps : N).
Notation U := (qf_url pre se ue hs he hi pt ps).

Lemma path_end_qf q f : path_end (U q f) = nlen pre.
Proof.
  unfold path_end, qf_url. cbn [query_start fragment_start ser].
  destruct q as [x|]; cbn [qf_qs]; [reflexivity|].
  destruct f as [y|]; cbn [qf_fs qf_qtext]; [change (nlen (@nil N)) with 0; apply N.add_0_r|].
  unfold qf_text. cbn [qf_qtext qf_ftext app]. rewrite app_nil_r. reflexivity.
Qed.

Lemma frag_tail_qf q f : frag_tail (U q f) = qf_ftext f.
Proof.
  unfold frag_tail, qf_url. cbn [fragment_start ser]. destruct f as [y|]; cbn [qf_fs qf_ftext]; [|reflexivity].
  f_equal. rewrite <- nlen_app. unfold qf_text. cbn [qf_ftext]. rewrite app_assoc.
  rewrite nskipn_app_add. reflexivity.
Qed.

Lemma old_query_qf q f : old_query (U q f) = match q with Some x => x | None => [] end.
Proof.
  unfold old_query, body_end, qf_url. cbn [query_start fragment_start ser]. destruct q as [x|]; cbn [qf_qs]; [|reflexivity].
  unfold qf_text. cbn [qf_qtext].
  replace (pre ++ (63 :: x) ++ qf_ftext f) with (pre ++ 63 :: (x ++ qf_ftext f)) by reflexivity.
  rewrite nskipn_app_add.
  destruct f as [y|]; cbn [qf_fs qf_ftext qf_qtext].
  - replace (nlen pre + nlen (63 :: x) - (nlen pre + 1)) with (nlen x) by (rewrite nlen_cons; lia).
    apply nfirstn_app_len.
  - rewrite app_nil_r.
    replace (nlen (pre ++ 63 :: x) - (nlen pre + 1)) with (nlen x) by (rewrite nlen_app, nlen_cons; lia).
    apply nfirstn_all. lia.
Qed.

Lemma edited_qf q f nq : edited (U q f) (pre ++ 63 :: nq) = U (Some nq) f.
Proof.
  unfold edited. rewrite path_end_qf, frag_tail_qf. unfold qf_url.
  cbn [scheme_end username_end host_start host_end hosti port path_start fragment_start ser qf_qs].
  f_equal.
  - unfold qf_text. cbn [qf_qtext]. rewrite <- app_assoc. reflexivity.
  - destruct f as [y|]; cbn [qf_fs]; [|reflexivity]. f_equal. cbn [qf_qtext]. apply nlen_app.
Qed.

(* a text that agrees with pre ++ ... on the first |pre| bytes, has '?' next and is at least that long *)
Lemma split_at_qmark str' X : nlen pre + 1 <= nlen str' -> nfirstn (nlen pre) str' = nfirstn (nlen pre) (pre ++ X) ->
  nnth str' (nlen pre) = Some 63 -> str' = pre ++ 63 :: nskipn (nlen pre + 1) str'.
Proof.
  intros Hl Hp Hq. rewrite nfirstn_app_len in Hp.
  rewrite <- (nfirstn_nskipn (nlen pre) str') at 1. rewrite Hp. f_equal.
  replace (nlen pre + 1) with (1 + nlen pre) by lia. rewrite <- (nskipn_nskipn 1 (nlen pre) str').
  rewrite <- (nfirstn_nskipn (nlen pre) str') in Hq. rewrite Hp in Hq.
  destruct (nskipn (nlen pre) str') as [|c r] eqn:E.
  - exfalso. assert (nlen (nskipn (nlen pre) str') = nlen str' - nlen pre) as L by (apply nlen_nskipn).
    rewrite E in L. unfold nlen at 1 in L. cbn [length] in L. lia.
  - rewrite nnth_app_at in Hq. inversion Hq; subst c. reflexivity.
Qed.

Theorem qpm_session_qf q f ops : wf_b (U q f) = true -> ascii (ser (U q f)) -> Forall op_ok ops ->
  exists nq, query_pairs_session dbg (U q f) ops = Some (U (Some nq) f)
    /\ (forall P : N -> Prop, (forall c, form_alpha c = true -> P c) ->
        Forall P (match q with Some x => x | None => [] end) -> Forall P nq).
Proof.
  intros Hwf Ha Hops.
  destruct (session_shape dbg (U q f) Hwf Ha ops Hops) as (str' & H1 & F1 & F2 & F3 & _ & F5).
  rewrite path_end_qf in *. rewrite old_query_qf in F5.
  exists (nskipn (nlen pre + 1) str'). split; [|exact F5].
  rewrite H1. f_equal.
  rewrite (split_at_qmark str' (qf_text q f) F1 F2 F3) at 1. apply edited_qf.
Qed.
End QpmShape.

(* ================= 3. L2 for query_pairs_mut on the four canonical forms ================= *)
Section QpmCanon.
Variable dbg : bool.
Variable hp hpo : list N -> result host.
Variable hd : host -> list N.
Hypothesis HRT : HostRT hp hpo hd.

Lemma new_query_clean st q nq : opt_clean (query_set st) q ->
  (forall P : N -> Prop, (forall c, form_alpha c = true -> P c) ->
     Forall P (match q with Some x => x | None => [] end) -> Forall P nq) ->
  opt_clean (query_set st) (Some nq).
Proof.
  intros Hq HP. cbn [opt_clean]. apply Forall_kept_clean. apply HP; [exact (form_alpha_kept st)|].
  destruct q as [x|]; [apply Forall_kept_clean; exact Hq | constructor].
Qed.

Theorem qpm_Canon u ops u' : Canon hp hpo hd u -> Forall op_ok ops ->
  query_pairs_session dbg u ops = Some u' -> nlen (ser u') <= U32_MAX_P -> Canon hp hpo hd u'.
Proof.
  intros C Hops. destruct (Canon_fixpoint dbg hp hpo hd HRT u C) as (_ & Hwf & Ha).
  destruct C as [sch P q f K | sch segs last q f K | sch ui h pt p q f K | sch ui h pt p q f K Kp].
  - rewrite opaque_url_qf in *.
    destruct (qpm_session_qf dbg _ _ _ _ _ _ _ _ q f ops Hwf Ha Hops) as (nq & E & HP). rewrite E.
    intros E' Hb. inversion E'; subst u'. clear E'. rewrite <- opaque_url_qf in *.
    apply Canon_opaque. apply (opaque_ok_qf sch P q f); try assumption.
    + exact (new_query_clean STNotSpecial q nq (ok_q _ _ _ _ K) HP).
    + exact (ok_f _ _ _ _ K).
    + intros E0. discriminate E0.
  - rewrite noauth_url_qf in *.
    destruct (qpm_session_qf dbg _ _ _ _ _ _ _ _ q f ops Hwf Ha Hops) as (nq & E & HP). rewrite E.
    intros E' Hb. inversion E'; subst u'. clear E'. rewrite <- noauth_url_qf in *.
    apply Canon_noauth. apply (noauth_ok_qf sch segs last q f); try assumption.
    + exact (new_query_clean STNotSpecial q nq (nk_q _ _ _ _ _ K) HP).
    + exact (nk_f _ _ _ _ _ K).
  - rewrite auth_url_qf in *.
    destruct (qpm_session_qf dbg _ _ _ _ _ _ _ _ q f ops Hwf Ha Hops) as (nq & E & HP). rewrite E.
    intros E' Hb. inversion E'; subst u'. clear E'. rewrite <- auth_url_qf in *.
    apply Canon_auth. apply (auth_ok_qf hp hpo hd STNotSpecial sch ui h pt p q f); try assumption.
    + apply (new_query_clean _ q nq); [exact (ak_q _ _ _ _ _ _ _ _ _ _ _ K) | exact HP].
    + exact (ak_f _ _ _ _ _ _ _ _ _ _ _ K).
  - rewrite auth_url_qf in *.
    destruct (qpm_session_qf dbg _ _ _ _ _ _ _ _ q f ops Hwf Ha Hops) as (nq & E & HP). rewrite E.
    intros E' Hb. inversion E'; subst u'. clear E'. rewrite <- auth_url_qf in *.
    apply Canon_special; [|exact Kp]. apply (auth_ok_qf hp hpo hd STSpecialNotFile sch ui h pt p q f); try assumption.
    + apply (new_query_clean _ q nq); [exact (ak_q _ _ _ _ _ _ _ _ _ _ _ K) | exact HP].
    + exact (ak_f _ _ _ _ _ _ _ _ _ _ _ K).
Qed.
End QpmCanon.
