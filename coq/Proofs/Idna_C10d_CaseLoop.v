(* Proofs/Idna_C10d_CaseLoop.v - the fail-fast process_inner in closed form (C10, case-insensitivity).
   pres l       what the label step appends for an input label l that is not passed through: (buffer text, flag, entries);
   proc_all ls  the same for a list of labels;
   inner_closed process_inner(fail_fast) d = the leading pass-through labels of d are skipped (ptake / pdrop), the others
                are processed one by one (proc_all), then the bidi pass (finish).
   A pass-through label that is processed anyway yields itself with the entry MixedCaseAscii (pres_pass): the run can be
   compared with the VIRTUAL run proc_all (split_on DOT d) that passes nothing through; the virtual runs of two ASCII case
   variants return the same buffer texts and entries that differ by the case of their labels (proc_all_cv). *)
From RU Require Import Base.Prelude Base.Utf8 Base.U32_c13 Gen.Tables Model.Punycode Model.Uts46
  Proofs.Idna_Sim Proofs.Idna_Api Proofs.Idna_Known Proofs.Idna_Hyp Proofs.Idna_Redisc
  Proofs.Idna_C10_Deny Proofs.Idna_C10_Prefix Proofs.Idna_C10_Inner Proofs.Idna_C10_Walk
  Proofs.Idna_C10b_AsciiInner Proofs.Idna_C10b_AsciiWalk Proofs.Idna_WalkInv Proofs.Idna_WalkEnc Proofs.Idna_WalkFun
  Proofs.Idna_C10c_Puny Proofs.Idna_C10c_Start Proofs.Idna_C10c_Drun Proofs.Idna_C10c_Loop Proofs.Idna_C10c_Rerun
  Proofs.Idna_C10c_Idem Proofs.Idna_Mark Proofs.Idna_C10d_CaseLabel.

(* ---------------------------------------------------------------- the leading pass-through labels *)
Fixpoint ptake (ls : list (list N)) : list (list N) :=
  match ls with [] => [] | l :: r => if is_passthrough_ascii_label l then l :: ptake r else [] end.
Fixpoint pdrop (ls : list (list N)) : list (list N) :=
  match ls with [] => [] | l :: r => if is_passthrough_ascii_label l then pdrop r else l :: r end.
Lemma ptake_pdrop ls : ptake ls ++ pdrop ls = ls.
Proof. induction ls as [|l r IH]; [reflexivity|]. cbn [ptake pdrop]. destruct (is_passthrough_ascii_label l); [cbn [app]; rewrite IH|]; reflexivity. Qed.
Lemma ptake_pass ls : Forall (fun l => is_passthrough_ascii_label l = true) (ptake ls).
Proof. induction ls as [|l r IH]; [constructor|]. cbn [ptake]. destruct (is_passthrough_ascii_label l) eqn:E; constructor; assumption. Qed.
Lemma pdrop_head ls l r : pdrop ls = l :: r -> is_passthrough_ascii_label l = false.
Proof.
  induction ls as [|x xs IH]; [discriminate|]. cbn [pdrop]. destruct (is_passthrough_ascii_label x) eqn:E; [exact IH|].
  intros H. inversion H. subst. exact E.
Qed.

Lemma pass_lower deny l : DenyUpper deny -> LdhFree deny -> PassL l -> map to_lower l = l.
Proof.
  intros HU HL [Hb Hp]. apply Idna_WalkFun.lower_noupper. pose proof (passthrough_clean deny l HL Hb Hp) as Hc.
  eapply Forall_impl; [|exact Hc]. intros c Hcc. exact (proj1 (proj2 (clean_final deny c HU Hcc))).
Qed.

(* ---------------------------------------------------------------- labels and flat texts *)
Definition VL (Xs : list (list N)) : list (list N) := concat (map (split_on DOT) Xs).
Lemma split_join_gen Xs : Xs <> [] -> split_on DOT (join_dots Xs) = VL Xs.
Proof.
  induction Xs as [|X r IH]; [congruence|]. intros _. destruct r as [|Y r'].
  - unfold VL. cbn [join_dots map concat]. rewrite app_nil_r. reflexivity.
  - rewrite join_dots_cons2, split_on_app_dot, IH by discriminate. reflexivity.
Qed.
Lemma VL_app a b : VL (a ++ b) = VL a ++ VL b.
Proof. unfold VL. rewrite map_app, concat_app. reflexivity. Qed.
Lemma VL_nodot pl : Forall nodot pl -> VL pl = pl.
Proof.
  induction 1 as [|l r Hl _ IH]; [reflexivity|]. unfold VL in *. cbn [map concat]. rewrite IH.
  pose proof (Idna_Mark.split_join [l] ltac:(discriminate) ltac:(constructor; [exact Hl|constructor])) as E. cbn [join_dots] in E. rewrite E. reflexivity.
Qed.
Lemma VL_ne X Xs : VL (X :: Xs) <> [].
Proof. unfold VL. cbn [map concat]. pose proof (Idna_WalkApi.split_on_ne X). destruct (split_on DOT X); [congruence|discriminate]. Qed.

(* ---------------------------------------------------------------- entries that differ by the case of their label *)
Definition ecase (e e' : aal) : Prop :=
  match e, e' with
  | MixedCaseAscii m, MixedCaseAscii m' => cv m m'
  | MixedCasePunycode m, MixedCasePunycode m' => cv m m'
  | AalOther, AalOther => True
  | _, _ => False
  end.
Definition ent (l : list N) (e : aal) : Prop := e = MixedCaseAscii l \/ e = MixedCasePunycode l \/ e = AalOther.
Lemma ent_recase l l' e : cv l l' -> ent l e -> ecase e (recase l' e).
Proof. intros H [->|[->| ->]]; cbn [recase ecase]; [exact H|exact H|exact I]. Qed.

Lemma outs_ecase cfg uni labels : forall ap ap', Forall2 ecase ap ap' -> outs cfg uni labels ap' = outs cfg uni labels ap.
Proof.
  induction labels as [|l r IH]; intros ap ap' H; [reflexivity|]. destruct H as [|e e' ap ap' He Hr]; [reflexivity|].
  cbn [outs]. rewrite (IH _ _ Hr).
  destruct e as [m|m|], e' as [m'|m'|]; cbn [ecase] in He; try contradiction; cbn [out_label]; unfold cv in He; rewrite ?He; reflexivity.
Qed.
Lemma outs_mca cfg uni L ap : forall qs ms, length qs = length ms ->
  outs cfg uni (qs ++ L) (map MixedCaseAscii ms ++ ap) =
  match outs cfg uni L ap with inl os => inl (map (map to_lower) ms ++ os) | inr s => inr s end.
Proof.
  induction qs as [|q qs IH]; intros [|m ms] Hl; try discriminate.
  - cbn [app map]. destruct (outs cfg uni L ap); reflexivity.
  - cbn [app map outs out_label]. rewrite (IH ms ltac:(cbn [length] in Hl; lia)). destruct (outs cfg uni L ap); reflexivity.
Qed.
Lemma outs_len cfg uni labels : forall ap os, outs cfg uni labels ap = inl os -> length labels = length ap -> length os = length labels.
Proof.
  induction labels as [|l r IH]; intros ap os H Hl.
  - cbn [outs] in H. inversion H. reflexivity.
  - destruct ap as [|e ap]; [discriminate|]. cbn [outs] in H. destruct (out_label cfg uni l e); [|discriminate].
    destruct (outs cfg uni r ap) as [os'|] eqn:E; [|discriminate]. inversion H. cbn [length] in *. rewrite (IH ap os' E); lia.
Qed.

Section Loop.
Variable A : adapter.
Variable cfg : bool.
Variable deny : N.
Variable hy : hyphens.
Hypothesis HU : DenyUpper deny.
Hypothesis HL : LdhFree deny.
Hypothesis HR : Redisc A cfg deny.

Definition pres (l : list N) : step (list N * bool * list aal) :=
  match l with [] => SOk ([], false, [MixedCaseAscii []]) | _ => label_nonempty A cfg true hy deny l [] false [] end.

Lemma pres_he l X h E : pres l = SOk (X, h, E) -> h = false.
Proof.
  destruct l as [|b r]; cbn [pres]; intros H; [inversion H; reflexivity|].
  pose proof (label_nonempty_R A cfg hy deny (b :: r) [] [] HR) as HRl. rewrite H in HRl.
  destruct (label_nonempty A cfg false hy deny (b :: r) [] false []) as [[[x h'] e]| |s]; cbn [R] in HRl.
  - destruct (heT (x, h', e)) eqn:Eh; [discriminate|]. inversion HRl. subst. exact Eh.
  - contradiction.
  - destruct HRl; discriminate.
Qed.

Fixpoint proc_all (ls : list (list N)) : step (list (list N) * list (list aal)) :=
  match ls with
  | [] => SOk ([], [])
  | l :: r => match pres l with
              | SOk (X, _, E) => match proc_all r with
                                 | SOk (Xs, Ess) => SOk (X :: Xs, E :: Ess)
                                 | SExit => SExit | SPanic p => SPanic p end
              | SExit => SExit | SPanic p => SPanic p end
  end.

Lemma proc_all_app a : forall b, proc_all (a ++ b) =
  match proc_all a with
  | SOk (Xa, Ea) => match proc_all b with SOk (Xb, Eb) => SOk (Xa ++ Xb, Ea ++ Eb) | SExit => SExit | SPanic p => SPanic p end
  | SExit => SExit | SPanic p => SPanic p end.
Proof.
  induction a as [|l r IH]; intros b; cbn [app proc_all].
  - destruct (proc_all b) as [[Xb Eb]| |p]; reflexivity.
  - destruct (pres l) as [[[X h] E]| |p]; [|reflexivity|reflexivity]. rewrite IH.
    destruct (proc_all r) as [[Xa Ea]| |p]; [|reflexivity|reflexivity]. destruct (proc_all b) as [[Xb Eb]| |p]; reflexivity.
Qed.
Lemma proc_all_len ls : forall Xs Ess, proc_all ls = SOk (Xs, Ess) -> length Xs = length ls /\ length Ess = length ls.
Proof.
  induction ls as [|l r IH]; intros Xs Ess H; cbn [proc_all] in H; [inversion H; split; reflexivity|].
  destruct (pres l) as [[[X h] E]| |p]; try discriminate. destruct (proc_all r) as [[Xa Ea]| |p]; try discriminate.
  inversion H. destruct (IH _ _ eq_refl). cbn [length]. split; lia.
Qed.

(* ---- the label step outside the pass-through prefix ---- *)
Lemma label_step_np l s : i_inpre s && is_passthrough_ascii_label l = false -> i_he s = false ->
  label_step A cfg true hy deny l s =
  match pres l with
  | SOk (X, h, E) => SOk {| i_ptu := if i_seen s && i_inpre s then i_ptu s + 1 else i_ptu s; i_seen := true; i_inpre := false;
                            i_db := (if i_seen s && negb (i_inpre s) then i_db s ++ [DOT] else i_db s) ++ X; i_he := h;
                            i_ap := i_ap s ++ E |}
  | SExit => SExit | SPanic p => SPanic p end.
Proof.
  intros Hc Hhe. unfold label_step. rewrite Hc. destruct l as [|b r].
  - cbn [pres]. rewrite app_nil_r, Hhe. reflexivity.
  - cbn [pres]. rewrite (label_nonempty_from_nil A cfg true hy deny (b :: r)), Hhe.
    destruct (label_nonempty A cfg true hy deny (b :: r) [] false []) as [[[X h] E]| |p]; reflexivity.
Qed.

Lemma loop_np ls : forall s, i_inpre s = false -> i_seen s = true -> i_he s = false ->
  labels_loop A cfg true hy deny ls s =
  match proc_all ls with
  | SOk (Xs, Ess) => SOk {| i_ptu := i_ptu s; i_seen := true; i_inpre := false;
                            i_db := i_db s ++ concat (map (cons DOT) Xs); i_he := false; i_ap := i_ap s ++ concat Ess |}
  | SExit => SExit | SPanic p => SPanic p end.
Proof.
  induction ls as [|l r IH]; intros s Hin Hse Hhe; cbn [labels_loop proc_all].
  - cbn [map concat]. rewrite !app_nil_r. destruct s as [p se ip db he ap]. cbn [i_ptu i_seen i_inpre i_db i_he i_ap] in *. subst. reflexivity.
  - rewrite (label_step_np l s) by (try rewrite Hin; try reflexivity; exact Hhe).
    destruct (pres l) as [[[X h] E]| |p] eqn:Ep; cbn [sbind]; [|reflexivity|reflexivity].
    pose proof (pres_he l X h E Ep) as ->. rewrite IH by reflexivity. cbn [i_ptu i_seen i_inpre i_db i_he i_ap].
    rewrite Hin, Hse. cbn [andb negb].
    destruct (proc_all r) as [[Xs Ess]| |p]; [|reflexivity|reflexivity]. cbn [map concat]. rewrite <- !app_assoc. reflexivity.
Qed.

Lemma loop_start ls :
  labels_loop A cfg true hy deny ls s_start =
  match pdrop ls with
  | [] => SOk (pass_end s_start (ptake ls))
  | rest => match proc_all rest with
            | SOk (Xs, Ess) => SOk {| i_ptu := len (ptext (ptake ls)); i_seen := true; i_inpre := false;
                                      i_db := join_dots Xs; i_he := false; i_ap := concat Ess |}
            | SExit => SExit | SPanic p => SPanic p end
  end.
Proof.
  rewrite <- (ptake_pdrop ls) at 1. rewrite labels_loop_app.
  rewrite (pass_loop A cfg true hy deny (ptake ls) s_start eq_refl (ptake_pass ls)). cbn [sbind].
  destruct (pdrop ls) as [|l rest] eqn:Ed; [reflexivity|].
  set (sp := pass_end s_start (ptake ls)).
  assert (HS : i_he sp = false /\ i_inpre sp = true /\ i_db sp = [] /\ i_ap sp = [] /\
               (if i_seen sp && i_inpre sp then i_ptu sp + 1 else i_ptu sp) = len (ptext (ptake ls))).
  { unfold sp, pass_end. destruct (ptake ls) as [|x xs]; [repeat split|].
    cbn [i_he i_inpre i_db i_ap i_seen i_ptu s_start andb]. repeat split. unfold ptext. rewrite len_app. unfold len at 3. cbn [length]. lia. }
  destruct HS as (S1 & S2 & S3 & S4 & S5).
  cbn [labels_loop proc_all]. rewrite (label_step_np l sp) by (try rewrite (pdrop_head ls l rest Ed), andb_false_r; try reflexivity; exact S1).
  destruct (pres l) as [[[X h] E]| |p] eqn:Ep; cbn [sbind]; [|reflexivity|reflexivity].
  pose proof (pres_he l X h E Ep) as ->. rewrite loop_np by reflexivity. cbn [i_ptu i_seen i_inpre i_db i_he i_ap].
  rewrite S5, S2, S3, S4. rewrite andb_false_r. cbn [app].
  destruct (proc_all rest) as [[Xs Ess]| |p]; [|reflexivity|reflexivity]. rewrite join_concat. reflexivity.
Qed.

(* ---- process_inner ---- *)
Definition finish (ptu : N) (db : list N) (ap : list aal) : inner_res :=
  match is_bidi A cfg db with
  | Panic p => IPanic p
  | Err => IPanic 0
  | Ok false => IRes ptu false false db ap
  | Ok true => match bidi_labels A true (split_on DOT db) false with
               | SExit => I_EXIT
               | SPanic p => IPanic p
               | SOk (ls, he) => IRes ptu true he (join_dots ls) ap
               end
  end.

Theorem inner_closed d : bytes d ->
  process_inner A cfg true hy deny d =
  match pdrop (split_on DOT d) with
  | [] => IRes (len d) false false [] []
  | rest => match proc_all rest with
            | SOk (Xs, Ess) => finish (len (ptext (ptake (split_on DOT d)))) (join_dots Xs) (concat Ess)
            | SExit => I_EXIT | SPanic p => IPanic p end
  end.
Proof.
  intros Hb. rewrite (inner_from_start A cfg true hy deny d Hb). unfold process_innermost. rewrite N.sub_diag. fold s_start.
  rewrite loop_start. destruct (pdrop (split_on DOT d)) as [|l rest] eqn:Ed.
  - pose proof (ptake_pdrop (split_on DOT d)) as E. rewrite Ed, app_nil_r in E. rewrite E.
    unfold pass_end. destruct (split_on DOT d) as [|x xs] eqn:Es; [exfalso; exact (Idna_WalkApi.split_on_ne d Es)|].
    cbn [i_db i_ptu i_he i_ap is_bidi s_start i_seen]. rewrite <- Es, join_split. f_equal.
  - destruct (proc_all (l :: rest)) as [[Xs Ess]| |p]; reflexivity.
Qed.

(* ---- a pass-through label that is processed ---- *)
Lemma pres_pass l : PassL l -> pres l = SOk (l, false, [MixedCaseAscii l]).
Proof.
  intros [Hb Hp]. destruct l as [|b r]; [reflexivity|]. cbn [pres].
  pose proof (passthrough_ascii _ Hb Hp) as Ha.
  assert (Han : an_label (b :: r)).
  { split; [exact Ha|]. destruct (has_punycode_prefix (b :: r)) eqn:E; [|reflexivity]. rewrite (prefix_not_pass _ Ha E) in Hp. discriminate. }
  rewrite (label_nonempty_an A cfg hy deny _ [] [] Han), (passthrough_acc deny HL hy _ Hb Hp).
  rewrite (cmap_clean deny _ (passthrough_clean deny _ HL Hb Hp)). reflexivity.
Qed.
Lemma proc_all_pass pl : Forall PassL pl -> proc_all pl = SOk (pl, map (fun l => [MixedCaseAscii l]) pl).
Proof. induction 1 as [|l r Hl _ IH]; [reflexivity|]. cbn [proc_all map]. rewrite (pres_pass l Hl), IH. reflexivity. Qed.
Lemma concat_mca pl : concat (map (fun l => [MixedCaseAscii l]) pl) = map MixedCaseAscii pl.
Proof. induction pl as [|l r IH]; [reflexivity|]. cbn [map concat app]. rewrite IH. reflexivity. Qed.

(* ---- the entries of a label mention the label ---- *)
Lemma pres_ent l X h E : pres l = SOk (X, h, E) -> Forall (ent l) E.
Proof.
  destruct l as [|b r]; cbn [pres]; intros H.
  { inversion H. constructor; [left; reflexivity|constructor]. }
  set (l := b :: r) in *. rewrite (label_nonempty_eq A cfg) in H.
  destruct (split_ascii_fast_path_prefix l) as [asc non_ascii] eqn:Es.
  assert (HF : forall a n, complexF A cfg true hy deny [] false [] a n = SOk (X, h, E) -> Forall (ent l) E).
  { intros a n H0. unfold complexF in H0. apply sbind_ok in H0. destruct H0 as ([c1 h1] & _ & H0).
    destruct (split1 DOT (map (apply_lower deny) (map_normalize A (utf8_lossy n)))) as [s rest].
    apply (sublabels_ap A cfg) in H0. destruct H0 as (k & ->). cbn [app].
    constructor; [right; right; reflexivity|]. clear. induction k; cbn [repeat]; constructor; [right; right; reflexivity|assumption]. }
  destruct non_ascii as [|na nr]; [|exact (HF _ _ H)].
  pose proof (split_ascii_app _ _ _ Es) as Hlab. rewrite app_nil_r in Hlab. subst asc.
  destruct (has_punycode_prefix l).
  - destruct (negb match last_opt l with Some c => c =? HYPHEN | None => false end && (len l - 4 <=? PUNYCODE_DECODE_MAX_INPUT_LENGTH)); [|discriminate].
    destruct (decode_with cfg U8Internal (skipn 4 l)) as [decoded| |s]; try discriminate.
    apply sbind_ok in H. destruct H as ([c1 h1] & _ & H). apply sbind_ok in H. destruct H as ([c2 h2] & _ & H).
    inversion H. constructor; [right; left; reflexivity|constructor].
  - unfold complexT in H. apply sbind_ok in H. destruct H as ([c1 h1] & _ & H).
    apply sbind_ok in H. destruct H as ([c2 h2] & _ & H).
    destruct h2; inversion H; (constructor; [|constructor]); [right; right; reflexivity|left; reflexivity].
Qed.

(* ---- two spellings ---- *)
Hypothesis Hcase : forall l l', ascii_case_variant l l' -> map_normalize A l = map_normalize A l'.

Lemma pres_cv l l' : cv l l' -> bytes l -> pres l' = relab l' (pres l).
Proof.
  intros H Hb. destruct l as [|b r].
  - apply cv_nil in H. subst l'. reflexivity.
  - destruct l' as [|b' r']; [apply cv_len in H; discriminate|]. cbn [pres].
    exact (label_nonempty_case A cfg deny HU HL Hcase true hy false _ _ H Hb).
Qed.

Theorem proc_all_cv ls ls' : Forall2 cv ls ls' -> Forall bytes ls -> forall Xs Ess, proc_all ls = SOk (Xs, Ess) ->
  exists Ess', proc_all ls' = SOk (Xs, Ess') /\ Forall2 ecase (concat Ess) (concat Ess').
Proof.
  induction 1 as [|l l' r r' Hl _ IH]; intros Hb Xs Ess H.
  - cbn [proc_all] in H. inversion H. exists []. split; [reflexivity|constructor].
  - inversion Hb as [|? ? Hb1 Hb2]; subst. cbn [proc_all] in H |- *.
    rewrite (pres_cv l l' Hl Hb1). destruct (pres l) as [[[X h] E]| |p] eqn:Ep; try discriminate.
    destruct (proc_all r) as [[Xa Ea]| |p] eqn:Er; try discriminate. inversion H. subst Xs Ess.
    destruct (IH Hb2 _ _ eq_refl) as (Ea' & E1 & E2). cbn [relab]. rewrite E1.
    exists (map (recase l') E :: Ea'). split; [reflexivity|]. cbn [concat]. apply Forall2_app; [|exact E2].
    pose proof (pres_ent l X h E Ep) as He. clear -He Hl. induction He as [|e es He1 _ IHe]; [constructor|].
    cbn [map]. constructor; [exact (ent_recase l l' e Hl He1)|exact IHe].
Qed.
End Loop.
