(* Proofs/C04_PathCtx.v - the path state in EVERY context (Context::UrlParser, Context::Setter,
   Context::PathSegmentSetter), any scheme type: C04_PathFile.loop_any with the context as a parameter.
   In the setter contexts '?' / '#' are ordinary characters (they are percent-encoded), in the
   path-segment-setter context '/' and '\' are too; the panic sites (pop_path's unwrap, the debug assertion
   and the slice of finish_segment) do not depend on the context, so the invariant path_inv
   (seg_inv or bad_seg) is the same. *)
From RU Require Import Base.Prelude Base.Utf8 Model.AsciiSet Gen.Tables Model.PercentEncoding
  Model.HostT Model.UrlRecord Model.Parser
  Proofs.ListN Proofs.C06_List Proofs.C02_Parts Proofs.C06_PathParser Proofs.C04_PathTotal Proofs.C04_ParseTotal
  Proofs.C04_PathFile.

Section PathCtx.
Variables (dbg : bool) (ctx : context) (st : scheme_type) (ps k : N).
Hypothesis Hk : k <= ps + 1.

Notation loop := (parse_path_loop dbg ctx st ps).
Notation pinv := (path_inv ps k).
Notation pres_ok := (path_res st ps k).

Theorem loop_ctx l : forall ser ss pend hh, pinv ser ss -> pres_ok ser (loop l ser ss pend hh).
Proof using Hk.
  assert (forall l0 ser ss pend hh, pinv ser ss -> rem_ok l0 ->
            pres_ok ser (' (s2, hh0) <~ finish_segment dbg st ps (push_pending ctx st ser pend) ss false hh ;;
                         POk (file_path_fixup st ps s2, hh0, l0))) as Hend.
  { intros l0 ser ss pend hh I Hr. destruct (push_pending_app st ctx pend ser) as [x Ex]. rewrite Ex.
    destruct (finish_inv_any dbg st ps k Hk (ser ++ x) ss false hh (path_inv_app ps k ser ss x I)) as (s' & hh' & Ef & Ha & _).
    cbv zeta iota in Ef, Ha. rewrite Ef. cbn [pbind]. exists s', hh', l0. split; [reflexivity|].
    split; [|exact Hr]. pose proof (path_inv_k ps k ser ss I).
    eapply agree_pre_trans; [apply agree_pre_app_le; lia | exact Ha]. }
  induction l as [|c r IH]; intros ser ss pend hh I.
  - cbn [parse_path_loop]. apply Hend; [exact I | exact rem_ok_nil].
  - cbn [parse_path_loop]. pose proof (path_inv_k ps k ser ss I) as Lk.
    destruct (push_pending_app st ctx pend ser) as [x Ex].
    destruct (is_tnl c) eqn:Et.
    { rewrite Ex. eapply path_res_pre; [apply agree_pre_app_le; exact Lk|].
      apply IH. apply path_inv_app. exact I. }
    destruct (negb (ctx_eqb ctx CPathSegmentSetter) && ((c =? 47) || (c =? 92) && st_is_special st)).
    { rewrite Ex.
      destruct (finish_inv_any dbg st ps k Hk (ser ++ x) ss true hh (path_inv_app ps k ser ss x I)) as (s2 & hh2 & Ef & Ha & I3).
      cbv zeta iota in Ef, Ha. rewrite Ef. cbn [pbind].
      eapply path_res_pre; [|apply IH; left; exact (I3 eq_refl)].
      eapply agree_pre_trans; [apply agree_pre_app_le; exact Lk|].
      eapply agree_pre_trans; [apply agree_pre_app_le; rewrite nlen_app; lia | exact Ha]. }
    destruct (((c =? 63) || (c =? 35)) && ctx_eqb ctx CUrlParser) eqn:Eq.
    { apply andb_true_iff in Eq. destruct Eq as [Eq _].
      apply Hend; [exact I | apply rem_ok_cons; [exact Et | exact Eq]]. }
    destruct (st_is_file st && (ps <? nlen ser) && is_normalized_wdl (nskipn (ps + 1) ser)) eqn:Ew; [|apply IH; exact I].
    (* the drive-letter arm: the path is exactly "/C:" *)
    apply andb_true_iff in Ew. destruct Ew as [Ew Ew3]. apply andb_true_iff in Ew. destruct Ew as [_ Ew2].
    destruct (nwdl_inv _ Ew3) as (a & Ea & Hal).
    assert (nlen ser = ps + 3) as Ls.
    { pose proof (nlen_nskipn (ps + 1) ser) as Hl. rewrite Ea in Hl. change (nlen [a; 58]) with 2 in Hl. lia. }
    assert (nnth ser (ps + 1) = Some a) as Ha1.
    { pose proof (nnth_nskipn ser (ps + 1) 0) as Hn. rewrite Ea, N.add_0_r in Hn. symmetry. exact Hn. }
    assert (nnth ser (ps + 2) = Some 58) as Ha2.
    { pose proof (nnth_nskipn ser (ps + 1) 1) as Hn. rewrite Ea in Hn. replace (ps + 1 + 1) with (ps + 2) in Hn by lia.
      symmetry. exact Hn. }
    assert (a <> 47 /\ a <> 46 /\ a <> 37) as Hane by (unfold is_alpha, is_upper, is_lower in Hal; lia).
    rewrite Ex. eapply path_res_pre; [|apply IH].
    { eapply agree_pre_trans; [apply agree_pre_app_le; exact Lk | apply agree_pre_app_le; rewrite nlen_app; lia]. }
    right. destruct I as [(I1 & I2 & I3 & I4 & I5)|(_ & _ & B3 & _)]; [|lia].
    assert (ss = ps \/ ss = ps + 1) as Hss.
    { destruct (N.eq_dec ss (ps + 2)) as [E|E]; [subst ss; replace (ps + 2 - 1) with (ps + 1) in I5 by lia; rewrite Ha1 in I5; inversion I5; lia|].
      destruct (N.eq_dec ss (ps + 3)) as [E'|E']; [subst ss; replace (ps + 3 - 1) with (ps + 2) in I5 by lia; rewrite Ha2 in I5; discriminate|].
      lia. }
    unfold bad_seg. rewrite !nlen_app. change (nlen [47]) with 1.
    split; [lia|]. split; [lia|]. split; [lia|].
    destruct Hss as [->| ->].
    + exists a. rewrite !nnth_app_lt by (rewrite ?nlen_app; lia). repeat split; try tauto. intros _. lia.
    + exists 58. replace (ps + 1 + 1) with (ps + 2) by lia. rewrite !nnth_app_lt by (rewrite ?nlen_app; lia).
      repeat split; try assumption; try lia. discriminate.
Qed.

Theorem parse_path_ctx hh ser l : seg_inv ps k ser (nlen ser) ->
  pres_ok ser (parse_path dbg ctx st hh ps ser l).
Proof using Hk. intros I. unfold parse_path. apply loop_ctx. left. exact I. Qed.

(* the result keeps has_host's type and is never a panic *)
Corollary parse_path_ctx_ok hh ser l : seg_inv ps k ser (nlen ser) ->
  exists s2 hh' rem, parse_path dbg ctx st hh ps ser l = POk (file_path_fixup st ps s2, hh', rem)
                     /\ agree_pre k ser s2 /\ rem_ok rem.
Proof using Hk. intros I. exact (parse_path_ctx hh ser l I). Qed.

End PathCtx.

(* ---------- the path state entered with an empty segment and nothing (or a separator) to read ---------- *)
Lemma loop_ctx_drop_tnl dbg ctx st ps l ser ss hh :
  parse_path_loop dbg ctx st ps l ser ss [] hh = parse_path_loop dbg ctx st ps (drop_while is_tnl l) ser ss [] hh.
Proof.
  induction l as [|c r IH]; [reflexivity|]. cbn [drop_while]. destruct (is_tnl c) eqn:E; [|reflexivity].
  cbn [parse_path_loop]. rewrite E. cbn [push_pending]. exact IH.
Qed.

Lemma finish_empty_any dbg st ps (ser : list N) (ews : bool) hh :
  finish_segment dbg st ps (if ews then ser ++ [47] else ser) (nlen ser) ews hh
  = POk (if ews then ser ++ [47] else ser, hh).
Proof.
  unfold finish_segment.
  assert ((if ews then nlen (if ews then ser ++ [47] else ser) - 1 else nlen (if ews then ser ++ [47] else ser)) = nlen ser) as E.
  { destruct ews; [rewrite nlen_app; change (nlen [47]) with 1; lia | reflexivity]. }
  rewrite E. rewrite slice_o_some by (destruct ews; rewrite ?nlen_app; lia). rewrite N.sub_diag.
  cbn [of_option pbind nfirstn N.to_nat firstn is_double_dot is_single_dot].
  replace (is_wdl []) with false by reflexivity. rewrite andb_false_r. reflexivity.
Qed.
