(* Proofs/C01_EqOpaque.v - C01 equivalence, first full class: absolute URLs with a non-special
   scheme whose text after "scheme:" does not start with '/', no base (opaque path, then optional
   query and fragment).  For every input of the class (any scalar values, tab / LF / CR anywhere,
   leading / trailing C0-or-space) the model of parser.rs and the specification model of the
   Standard produce the same ten API strings. *)
From RU Require Import Base.Prelude Base.Utf8 Base.Utf8Facts Model.AsciiSet Gen.Tables
  Model.PercentEncoding Model.HostT Model.UrlRecord Model.Parser Model.Setters Model.WF Spec.Whatwg
  Proofs.ListN Proofs.C14_Enc Proofs.C14_Views Proofs.C02_Enc Proofs.C02_Parts Proofs.C02_Opaque
  Proofs.C03_WF Proofs.C01_Tables Proofs.C08_Input
  Proofs.C01_EqRun Proofs.C01_EqEnc Proofs.C01_EqApi.

(* ================= the ten strings of the canonical opaque record ================= *)
Definition spec_opaque_url (sch P : list N) (q f : option (list N)) : spec_url :=
  mkSUrl sch [] [] None None (SPOpaque P) q f.

Lemma q_trim_qtext q : q_trim (qf_qtext q) = match q with None | Some [] => [] | Some x => 63 :: x end.
Proof. destruct q as [[|a r]|]; reflexivity. Qed.
Lemma q_trim_ftext f : q_trim (qf_ftext f) = match f with None | Some [] => [] | Some x => 35 :: x end.
Proof. destruct f as [[|a r]|]; reflexivity. Qed.

Lemma opaque_no_authority sch P q f : opaque_ok sch P q f -> has_authority_b (opaque_url sch P q f) = false.
Proof.
  intros K. destruct K.
  assert (starts_with [47] (P ++ qf_text q f) = false) as Hno.
  { destruct P as [|c r]; [|cbn [app starts_with] in *; rewrite ok_Ph; reflexivity].
    cbn [app]. unfold qf_text. destruct q; destruct f; reflexivity. }
  unfold has_authority_b, opaque_url. cbn [ser scheme_end]. unfold opaque_ser, opaque_pre.
  rewrite <- !app_assoc. rewrite nskipn_app_len. unfold s_css. cbn [app starts_with].
  replace (58 =? 58) with true by reflexivity. cbn [andb].
  apply starts_with_ss_of_s. exact Hno.
Qed.

Theorem api_opaque dbg shs sch P q f : opaque_ok sch P q f ->
  api_of_model dbg (opaque_url sch P q f) = Some (spec_api_list shs (spec_opaque_url sch P q f)).
Proof.
  intros K. pose proof (opaque_url_wf _ _ _ _ K) as W. pose proof (opaque_no_authority _ _ _ _ K) as Hna.
  rewrite (api_of_model_eval dbg _ W). f_equal.
  unfold has_password_b. cbn [pidx]. rewrite Hna. cbn [andb].
  set (A := sch ++ [58]).
  assert (nlen A = nlen sch + 1) as EA by (unfold A; rewrite nlen_app; reflexivity).
  unfold piece, opaque_url.
  cbn [pidx ser scheme_end username_end host_start host_end hosti port path_start query_start
       fragment_start has_host].
  fold A.
  unfold spec_api_list, get_href, get_protocol, get_username, get_password, get_host, get_hostname,
    get_port, get_pathname, get_search, get_hash, serialize_url, serialize_path, serialize_host_opt,
    spec_opaque_url.
  cbn [su_scheme su_username su_password su_host su_port su_path su_query su_fragment].
  rewrite <- EA, !N.sub_diag.
  change (nfirstn 0 ?x) with (@nil N).
  unfold opaque_ser, opaque_pre. fold A.
  (* AfterPath and AfterQuery *)
  assert (match qf_qs (nlen (A ++ P)) q with
          | Some x => x
          | None => match qf_fs (nlen (A ++ P)) q f with Some y => y | None => nlen ((A ++ P) ++ qf_text q f) end
          end = nlen (A ++ P)) as EAP.
  { destruct q as [x|]; [reflexivity|]. destruct f as [y|]; cbn [qf_qs qf_fs qf_qtext].
    - unfold nlen at 2. cbn [length]. lia.
    - unfold qf_text. cbn [qf_qtext qf_ftext app]. rewrite app_nil_r. reflexivity. }
  assert (match qf_fs (nlen (A ++ P)) q f with Some y => y | None => nlen ((A ++ P) ++ qf_text q f) end
          = nlen ((A ++ P) ++ qf_qtext q)) as EAQ.
  { destruct f as [y|]; cbn [qf_fs]; [symmetry; apply nlen_app|].
    unfold qf_text. cbn [qf_ftext]. rewrite app_nil_r. reflexivity. }
  rewrite EAP, EAQ.
  apply list10_eq; try reflexivity.
  - (* href *)
    unfold qf_text, qf_qtext, qf_ftext. unfold A. rewrite <- !app_assoc. cbn [app].
    destruct q; destruct f; reflexivity.
  - (* protocol *)
    rewrite <- !app_assoc. apply nfirstn_app_len.
  - (* pathname *)
    rewrite nlen_app. replace (nlen A + nlen P - nlen A) with (nlen P) by lia.
    rewrite <- !app_assoc. rewrite nskipn_app_len. apply nfirstn_app_len.
  - (* search *)
    rewrite (nlen_app (A ++ P)). replace (nlen (A ++ P) + nlen (qf_qtext q) - nlen (A ++ P)) with (nlen (qf_qtext q)) by lia.
    rewrite nskipn_app_len. unfold qf_text. rewrite nfirstn_app_len. apply q_trim_qtext.
  - (* hash *)
    unfold qf_text. rewrite app_assoc. rewrite nskipn_app_len. apply q_trim_ftext.
Qed.

(* ================= the text after the scheme, as both sides cut it ================= *)
Lemma before_hash_ntnl r : query_chars true r = before_hash (ntnl r).
Proof.
  induction r as [|c t IH]; [reflexivity|]. cbn [query_chars]. destruct (is_tnl c) eqn:Et.
  - rewrite ntnl_cons_tnl by exact Et. exact IH.
  - rewrite ntnl_cons by exact Et. cbn [before_hash]. rewrite andb_true_r. destruct (c =? 35); [reflexivity|].
    f_equal. exact IH.
Qed.

Lemma after_hash_ntnl r : option_map ntnl (query_rest true r) = after_hash (ntnl r).
Proof.
  induction r as [|c t IH]; [reflexivity|]. cbn [query_rest]. destruct (is_tnl c) eqn:Et.
  - rewrite ntnl_cons_tnl by exact Et. exact IH.
  - rewrite ntnl_cons by exact Et. cbn [after_hash]. rewrite andb_true_r. destruct (c =? 35); [reflexivity|]. exact IH.
Qed.

Lemma o_path_ntnl l : cbb_chars l = o_path (ntnl l).
Proof.
  induction l as [|c r IH]; [reflexivity|]. cbn [cbb_chars]. destruct (is_tnl c) eqn:Et.
  - rewrite ntnl_cons_tnl by exact Et. exact IH.
  - rewrite ntnl_cons by exact Et. cbn [o_path]. change (C02_Parts.is_qh c) with (is_qh c).
    destruct (is_qh c); [reflexivity|]. f_equal. exact IH.
Qed.

Lemma o_rest_ntnl l : ntnl (cbb_rest l) = o_rest (ntnl l).
Proof.
  induction l as [|c r IH]; [reflexivity|]. cbn [cbb_rest]. destruct (is_tnl c) eqn:Et.
  - rewrite ntnl_cons_tnl by exact Et. exact IH.
  - rewrite (ntnl_cons c r) by exact Et. cbn [o_rest]. change (C02_Parts.is_qh c) with (is_qh c).
    destruct (is_qh c); [rewrite ntnl_cons by exact Et; reflexivity | exact IH].
Qed.

(* the fragment / query texts of the model in the Standard's terms *)
Lemma frag_of_upe r : frag_of r = upe in_fragment_set (ntnl r).
Proof. unfold frag_of, upe. apply enc_bridge. exact rel_FRAGMENT. Qed.

Lemma query_of_upe_ns r : query_of STNotSpecial r = upe in_query_set (before_hash (ntnl r)).
Proof. unfold query_of, upe. rewrite before_hash_ntnl. apply enc_bridge. exact rel_QUERY. Qed.

Lemma query_of_upe_sp st r : st_is_special st = true ->
  query_of st r = upe in_special_query_set (before_hash (ntnl r)).
Proof.
  intros H. unfold query_of, upe, query_set. rewrite H, before_hash_ntnl. apply enc_bridge. exact rel_SPECIAL_QUERY.
Qed.

(* what follows the path: the model's (query, fragment) pair is the Standard's tail *)
Lemma tail_url_ns u l :
  is_special u = false -> su_query u = None -> su_fragment u = None ->
  match l with [] => True | c :: _ => C02_Parts.is_qh c = true /\ is_tnl c = false end ->
  tail_url u (ntnl l)
  = set_fragment (set_query u (pqf_q STNotSpecial l)) (pqf_f l).
Proof.
  intros Hns Hq Hf Hh. unfold pqf_q, pqf_f.
  destruct l as [|c r].
  - cbn. destruct u; cbn in *. subst. reflexivity.
  - destruct Hh as [Hqh Ht]. rewrite inp_next_cons by exact Ht. rewrite ntnl_cons by exact Ht.
    cbn [tail_url]. destruct (c =? 63) eqn:E63.
    + assert ((c =? 35) = false) as E35 by lia. rewrite E35.
      unfold query_final, qset_of, is_special. cbn [su_scheme set_query app]. fold (is_special u). rewrite Hns.
      rewrite query_of_upe_ns. rewrite <- after_hash_ntnl.
      destruct (query_rest true r) as [r2|]; cbn [option_map frag_opt].
      * rewrite frag_of_upe. destruct u; reflexivity.
      * destruct u; cbn in *; subst; reflexivity.
    + unfold C02_Parts.is_qh in Hqh. rewrite E63 in Hqh. cbn [orb] in Hqh. rewrite Hqh.
      rewrite frag_of_upe. destruct u; cbn in *; subst; reflexivity.
Qed.

Section OpaqueClass.
Variable dbg : bool.
Variable hp hpo : list N -> result host.
Variable hd : host -> list N.
Variable ovr : option (list N -> list N).
Variable shp : bool -> list N -> option spec_host.
Variable shs : spec_host -> list N.

(* ---------- model side ---------- *)
Lemma pqf_total st se s l :
  match l with [] => True | c :: _ => C02_Parts.is_qh c = true /\ is_tnl c = false end ->
  parse_query_and_fragment ovr CUrlParser st se s l = PErr Overflow
  \/ exists r, parse_query_and_fragment ovr CUrlParser st se s l = POk r.
Proof.
  intros Hh. unfold parse_query_and_fragment. destruct l as [|c r]; [right; eexists; reflexivity|].
  destruct Hh as [Hq Ht]. rewrite inp_next_cons by exact Ht.
  unfold to_u32. destruct (nlen s <=? U32_MAX_P); cbn [pbind].
  2:{ destruct (c =? 35) eqn:E35; [left; reflexivity|]. destruct (c =? 63) eqn:E63; [left; reflexivity|].
      unfold C02_Parts.is_qh in Hq. rewrite E63, E35 in Hq. discriminate. }
  destruct (c =? 35) eqn:E35; [right; eexists; reflexivity|].
  destruct (c =? 63) eqn:E63.
  2:{ unfold C02_Parts.is_qh in Hq. rewrite E63, E35 in Hq. discriminate. }
  destruct (parse_query _ _ _ _ _ _) as [s1 [r2|]]; [|right; eexists; reflexivity].
  destruct (nlen s1 <=? U32_MAX_P); cbn [pbind]; [right; eexists; reflexivity | left; reflexivity].
Qed.

Theorem model_opaque input sch rem : usv_list input ->
  parse_scheme CUrlParser (input_new_trim_c0 input) = Some (sch, rem) ->
  scheme_type_of sch = STNotSpecial -> inp_split_prefix_char 47 rem = None ->
  parse_url dbg hp hpo hd ovr None input = PErr Overflow
  \/ (parse_url dbg hp hpo hd ovr None input
        = POk (opaque_url sch (opaque_of rem) (pqf_q STNotSpecial (cbb_rest rem)) (pqf_f (cbb_rest rem)))
      /\ opaque_ok sch (opaque_of rem) (pqf_q STNotSpecial (cbb_rest rem)) (pqf_f (cbb_rest rem))).
Proof.
  intros Hu Hs Hns H47.
  destruct (parse_url dbg hp hpo hd ovr None input) as [u|e|] eqn:E.
  - right.
    unfold parse_url in E. rewrite Hs in E. unfold parse_with_scheme in E. rewrite Hns in E.
    destruct (to_u32 (nlen sch)) as [se| |] eqn:Eu; cbn [pbind] in E; try discriminate.
    apply to_u32_inv in Eu. destruct Eu as [-> Hb0].
    destruct (parse_scheme_suffix _ _ _ _ Hs) as [pre Hpre].
    assert (usv_list rem) as Hur.
    { pose proof (usv_trim input Hu) as Ht. rewrite Hpre in Ht. apply usv_app in Ht. tauto. }
    rewrite pns_opaque_eval in E by assumption.
    destruct (to_u32 (nlen (sch ++ [58]))) as [ps| |] eqn:Eu; cbn [pbind] in E; try discriminate.
    apply to_u32_inv in Eu. destruct Eu as [-> Hb1].
    destruct (parse_query_and_fragment ovr CUrlParser STNotSpecial (nlen sch) (opaque_pre sch (opaque_of rem)) (cbb_rest rem))
      as [[[s2 qs] fs]| |] eqn:Eq; cbn [pbind] in E; try discriminate.
    apply pqf_out in Eq; [|apply usv_cbb_rest; exact Hur|].
    2:{ unfold opaque_pre. rewrite <- !app_assoc. rewrite nfirstn_app_len. apply query_enc_nonspecial. exact Hns. }
    destruct Eq as (-> & -> & -> & Bq & Bf & Cq & Cf).
    split; [rewrite <- E; reflexivity|].
    constructor; try assumption.
    + exact (parse_scheme_out _ _ _ Hs).
    + apply opaque_of_clean. exact Hur.
    + apply opaque_of_no_qh. exact Hur.
    + apply opaque_of_head; assumption.
    + intros Hq Hf. apply opaque_of_last; [exact Hur | |].
      * pose proof (cbb_rest_head rem) as Hh. unfold pqf_q, pqf_f in Hq, Hf.
        destruct (cbb_rest rem) as [|c r]; [reflexivity|]. destruct Hh as [Hh1 Hh2].
        rewrite inp_next_cons in Hq, Hf by exact Hh2. exfalso.
        unfold C02_Parts.is_qh in Hh1. destruct (c =? 63); [discriminate|]. destruct (c =? 35); discriminate.
      * pose proof (trim_c0_edge_ok input) as [_ He]. rewrite Hpre in He.
        exact (first_ok_rev_suffix _ _ He).
  - left. f_equal.
    unfold parse_url in E. rewrite Hs in E. unfold parse_with_scheme in E. rewrite Hns in E.
    unfold to_u32 in E at 1. destruct (nlen sch <=? U32_MAX_P); cbn [pbind] in E; [|inversion E; reflexivity].
    assert (usv_list rem) as Hur.
    { destruct (parse_scheme_suffix _ _ _ _ Hs) as [pre Hpre].
      pose proof (usv_trim input Hu) as Ht. rewrite Hpre in Ht. apply usv_app in Ht. tauto. }
    rewrite pns_opaque_eval in E by assumption.
    unfold to_u32 in E at 1. destruct (nlen (sch ++ [58]) <=? U32_MAX_P); cbn [pbind] in E; [|inversion E; reflexivity].
    destruct (pqf_total STNotSpecial (nlen sch) (opaque_pre sch (opaque_of rem)) (cbb_rest rem) (cbb_rest_head rem))
      as [K|[[[s2 qs] fs] K]]; rewrite K in E; cbn [pbind] in E; [inversion E; reflexivity | discriminate].
  - exfalso.
    unfold parse_url in E. rewrite Hs in E. unfold parse_with_scheme in E. rewrite Hns in E.
    unfold to_u32 in E at 1. destruct (nlen sch <=? U32_MAX_P); cbn [pbind] in E; [|discriminate].
    assert (usv_list rem) as Hur.
    { destruct (parse_scheme_suffix _ _ _ _ Hs) as [pre Hpre].
      pose proof (usv_trim input Hu) as Ht. rewrite Hpre in Ht. apply usv_app in Ht. tauto. }
    rewrite pns_opaque_eval in E by assumption.
    unfold to_u32 in E at 1. destruct (nlen (sch ++ [58]) <=? U32_MAX_P); cbn [pbind] in E; [|discriminate].
    destruct (pqf_total STNotSpecial (nlen sch) (opaque_pre sch (opaque_of rem)) (cbb_rest rem) (cbb_rest_head rem))
      as [K|[[[s2 qs] fs] K]]; rewrite K in E; cbn [pbind] in E; discriminate.
Qed.

(* ---------- specification side ---------- *)
Lemma starts_with_cp_of_split rem : inp_split_prefix_char 47 rem = None -> starts_with_cp 47 (ntnl rem) = false.
Proof.
  unfold inp_split_prefix_char. destruct (inp_next rem) as [[c r]|] eqn:En.
  - destruct (inp_next_ntnl rem c r En) as [-> _]. cbn [starts_with_cp]. destruct (c =? 47); [discriminate | reflexivity].
  - rewrite (inp_next_none_ntnl rem En). reflexivity.
Qed.

Theorem spec_opaque input sch rem :
  parse_scheme CUrlParser (input_new_trim_c0 input) = Some (sch, rem) ->
  scheme_type_of sch = STNotSpecial -> inp_split_prefix_char 47 rem = None ->
  spec_basic_url_parse shp input None
  = BDone (spec_opaque_url sch (opaque_of rem) (pqf_q STNotSpecial (cbb_rest rem)) (pqf_f (cbb_rest rem))).
Proof.
  intros Hs Hns H47. apply spec_parse_of_runs. rewrite spec_clean_is_ntnl_trim.
  set (inp := ntnl (input_new_trim_c0 input)).
  pose proof (scheme_state_some _ _ _ Hs) as Hss. fold inp in Hss.
  assert (is_special_scheme sch = false) as Hnsp.
  { rewrite <- special_schemes_are_the_standards, Hns. reflexivity. }
  destruct (runs_scheme shp inp None sch (ntnl rem)
              (BDone (spec_opaque_url sch (opaque_of rem) (pqf_q STNotSpecial (cbb_rest rem)) (pqf_f (cbb_rest rem)))) Hss)
    as (pre & Hin & K).
  apply K. clear K.
  apply (runs_scheme_colon_opaque shp inp None pre sch (ntnl rem) _ Hin Hnsp (starts_with_cp_of_split rem H47)).
  pose proof (runs_opaque_path shp inp None (ntnl rem) (pre ++ [58]) false false false
                (set_path (set_scheme empty_url sch) (SPOpaque [])) [] (snoc_split _ _ _ _ Hin) eq_refl) as HR.
  cbn [app] in HR.
  replace (spec_opaque_url sch (opaque_of rem) (pqf_q STNotSpecial (cbb_rest rem)) (pqf_f (cbb_rest rem)))
    with (tail_url (set_path (set_path (set_scheme empty_url sch) (SPOpaque []))
                             (SPOpaque (upe in_c0_control_set (o_path (ntnl rem))))) (o_rest (ntnl rem)));
    [exact HR|].
  rewrite <- o_rest_ntnl, <- o_path_ntnl.
  rewrite tail_url_ns; [| | reflexivity | reflexivity | apply cbb_rest_head].
  - unfold opaque_of, spec_opaque_url, upe. rewrite (enc_bridge T_CONTROLS in_c0_control_set _ rel_CONTROLS).
    reflexivity.
  - unfold is_special. cbn [su_scheme set_path set_scheme empty_url]. exact Hnsp.
Qed.

(* ---------- the class theorem ---------- *)
Theorem eq_opaque input sch rem : usv_list input ->
  parse_scheme CUrlParser (input_new_trim_c0 input) = Some (sch, rem) ->
  scheme_type_of sch = STNotSpecial -> inp_split_prefix_char 47 rem = None ->
  exists su, spec_basic_url_parse shp input None = BDone su
    /\ (parse_url dbg hp hpo hd ovr None input = PErr Overflow
        \/ exists u, parse_url dbg hp hpo hd ovr None input = POk u
                     /\ api_of_model dbg u = Some (spec_api_list shs su)).
Proof.
  intros Hu Hs Hns H47. eexists. split; [exact (spec_opaque input sch rem Hs Hns H47)|].
  destruct (model_opaque input sch rem Hu Hs Hns H47) as [E|[E K]]; [left; exact E|].
  right. eexists. split; [exact E|]. apply api_opaque. exact K.
Qed.

End OpaqueClass.
