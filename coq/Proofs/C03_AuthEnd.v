(* Proofs/C03_AuthEnd.v - auth_end_ok (the text in front of the path of a special non-file URL does not end in
   '/'), the one member of excl03 that is not a known finding, as a consequence of an invariant of histories:
     HE u : (1) if the scheme is special, a host text does not end in '/';
            (2) if the scheme is special and not file, there is a host.
   he_auth_end : wfh u -> HE u -> auth_end_ok u.
   HE holds for the parse results of C02's closed-form classes (no base, scheme other than file), for the file
   records, and is preserved by every mutator step (he_step) - under hypotheses on the host functions that
   url::Host meets: HostWf, IpWf (the display of an IpAddr is a host text) and NoEmpty (Host::parse never returns
   the empty host; it fails with EmptyHost instead). *)
From RU Require Import Base.Prelude Base.Utf8 Model.AsciiSet Gen.Tables Model.PercentEncoding
  Model.HostT Model.UrlRecord Model.Parser Model.Setters Model.WF Model.FilePath
  Proofs.ListN Proofs.C02_Reach Proofs.C02_AuthParts
  Proofs.C03_WF Proofs.C06_List Proofs.C06_WFI Proofs.C06_Tail Proofs.C06_Steps Proofs.C06_Suffix Proofs.C06_Front Proofs.C06_Atomic Proofs.C06_FragQuery
  Proofs.C06_Port Proofs.C06_Cred Proofs.C06_Scheme Proofs.C06_HostNone Proofs.C06_Host Proofs.C06_Segments Proofs.C06_Path Proofs.C06_PathNoAuth Proofs.C06_Main
  Proofs.C06_PathMore Proofs.C06_Quirks Proofs.C05_CompSteps
  Proofs.C04_ParseTotal Proofs.C03_ReachParts Proofs.C03_Reach Proofs.C03_ReachAll Proofs.C03_Reachability Proofs.C03_PortInv.
Open Scope N_scope.
Open Scope list_scope.

Definition HE (u : url) : Prop :=
  forall sch, scheme u = Some sch -> st_is_special (scheme_type_of sch) = true ->
    (forall t, host_str u = Some (Some t) -> ends_with_byte 47 t = false)
    /\ (st_is_file (scheme_type_of sch) = false -> exists t, host_str u = Some (Some t)).

Lemma he_same u u' : scheme u' = scheme u -> host_str u' = host_str u -> HE u -> HE u'.
Proof. intros Es Eh H sch Hs Hsp. rewrite Es in Hs. rewrite Eh. exact (H sch Hs Hsp). Qed.

Lemma scheme_text03 u : wf_b u = true -> scheme u = Some (nfirstn (scheme_end u) (ser u)).
Proof. intros W. rewrite (scheme_eval u W). unfold piece. cbn [pidx]. rewrite N.sub_0_r. reflexivity. Qed.

Lemma piece0 u x : piece u 0 x = nfirstn x (ser u).
Proof. unfold piece. rewrite N.sub_0_r. reflexivity. Qed.

Theorem he_auth_end u : wfh u -> HE u -> auth_end_ok u.
Proof.
  intros [W HT] H. unfold auth_end_ok. cbv zeta. intros Hsp Hnf.
  destruct (H _ (scheme_text03 u W) Hsp) as [H1 H2]. destruct (H2 Hnf) as (t & Et).
  assert (has_host u = true) as Hh.
  { unfold host_str in Et. destruct (has_host u); [reflexivity | discriminate]. }
  pose proof (has_host_authority u W Hh) as Ha. destruct (HT Hh) as (T1 & _).
  rewrite (host_str_eval u W), Hh in Et. cbn [pidx] in Et. inversion Et as [Et']. clear Et.
  pose proof (H1 t ltac:(rewrite (host_str_eval u W), Hh; cbn [pidx]; rewrite Et'; reflexivity)) as Hlast.
  pose proof (wf_auth_facts u W Ha) as F.
  pose proof (af_ue F); pose proof (af_hs F); pose proof (af_he F); pose proof (af_ps F); pose proof (af_len F).
  pose proof (af_port F) as Po.
  assert (t <> []) as Hne.
  { intros E. rewrite E in Et'. apply (f_equal nlen) in Et'. unfold piece in Et'.
    rewrite nlen_nfirstn in Et' by (rewrite nlen_nskipn; lia). rewrite nlen_nil in Et'. lia. }
  rewrite <- piece0.
  destruct (port u) as [p|].
  - destruct Po as (B58 & Eps & Hp & Ed).
    rewrite <- (piece_cat u 0 (host_end u) (path_start u)) by lia.
    rewrite <- (piece_cat u (host_end u) (host_end u + 1) (path_start u)) by lia.
    apply byte_eqb_nnth in B58. rewrite (piece_byte u _ _ B58).
    unfold piece at 2. rewrite Ed. cbn [app]. apply port_text_last.
  - rewrite Po. rewrite <- (piece_cat u 0 (host_start u) (host_end u)) by lia. rewrite Et'.
    rewrite ends_with_byte_app by exact Hne. exact Hlast.
Qed.

(* ---------- hypotheses on the host functions ---------- *)
Definition NoEmpty (hp : list N -> result host) : Prop := forall s, hp s <> Ok (HDomain []).
Definition IpWf (hd : host -> list N) : Prop := forall h, op_args_ok (OSetIpHost h) -> host_text_wf (hd h).

Lemma IpWf_IpDisp hd : IpWf hd -> IpDisp hd.
Proof.
  intros H h Hh. destruct (H h Hh) as (T1 & T2 & T3 & _).
  assert (exists c r, hd h = c :: r /\ c <> 58 /\ c <> 64) as X.
  { destruct (hd h) as [|c r]; [contradiction|]. exists c, r. cbn in T2, T3. split; [reflexivity|]. split; congruence. }
  unfold host_disp_ok. destruct h as [d|a|p]; cbn in Hh; [contradiction | exact X | exact X].
Qed.

Section Steps.
Variable dbg : bool.
Variable hp hpo : list N -> result host.
Variable hd : host -> list N.
Hypothesis HW : HostWf hp hpo hd.
Hypothesis HNE : NoEmpty hp.

Let HF : host_fns_ok hp hpo hd := HostWf_fns_ok hp hpo hd HW.

(* what is known about a host the parser's host state returns *)
Definition host_he (sp_nonfile : bool) (h : host) : Prop :=
  (h = HDomain [] \/ host_text_wf (hd h)) /\ (sp_nonfile = true -> h <> HDomain []).

Lemma hp_he b s h : hp s = Ok h -> host_he b h.
Proof using HW HNE.
  intros E. pose proof HW as (W1 & _ & _). split.
  - destruct (host_eq_dec_empty h) as [->|Hne]; [left; reflexivity | right; exact (W1 s h E Hne)].
  - intros _ ->. exact (HNE s E).
Qed.

Lemma hpo_he s h : hpo s = Ok h -> host_he false h.
Proof using HW.
  intros E. pose proof HW as (_ & W2 & _). split; [|discriminate].
  destruct (host_eq_dec_empty h) as [->|Hne]; [left; reflexivity | right; exact (W2 s h E Hne)].
Qed.

Lemma parse_host_he st l h rem : parse_host hp hpo st l = POk (h, rem) ->
  host_he (scheme_type_eqb st STSpecialNotFile) h.
Proof using HW HNE.
  unfold parse_host. destruct (st_is_file st) eqn:Ef.
  - assert (scheme_type_eqb st STSpecialNotFile = false) as -> by (destruct st; try discriminate; reflexivity).
    unfold get_file_host. destruct (file_host l) as [t rm].
    destruct (hp t) as [h0|e] eqn:Ep; cbn [of_result pbind]; [|discriminate].
    intros H. inversion H; subst. pose proof (hp_he false t h0 Ep) as X.
    destruct h0 as [d|a|p]; try exact X.
    destruct (list_eqb d s_localhost); [split; [left; reflexivity | discriminate] | exact X].
  - destruct (host_scan (st_is_special st) false [] l) as [t rm].
    destruct (scheme_type_eqb st STSpecialNotFile && match t with [] => true | _ => false end); [discriminate|].
    destruct (negb (st_is_special st)) eqn:Esp.
    + assert (scheme_type_eqb st STSpecialNotFile = false) as -> by (destruct st; try discriminate; reflexivity).
      destruct (hpo t) as [h0|e] eqn:Ep; cbn [of_result pbind]; [|discriminate].
      intros H. inversion H; subst. exact (hpo_he t _ Ep).
    + destruct (hp t) as [h0|e] eqn:Ep; cbn [of_result pbind]; [|discriminate].
      intros H. inversion H; subst. exact (hp_he _ t _ Ep).
Qed.

(* a host setter's post-condition carries HE *)
Lemma host_post_he u u' h sch : wf_b u = true -> scheme u = Some sch ->
  scheme u' = scheme u -> host_str u' = Some (if hi_some (hi_of_host h) then Some (hd h) else None) ->
  host_he (scheme_type_eqb (scheme_type_of sch) STSpecialNotFile) h -> HE u'.
Proof using.
  intros W Hs Es Eh [X1 X2] sch' Hs' Hsp. rewrite Es, Hs in Hs'. inversion Hs'; subst sch'. rewrite Eh. split.
  - intros t Et. destruct (hi_some (hi_of_host h)) eqn:Ehi; [|discriminate]. inversion Et; subst t.
    destruct X1 as [->|(_ & _ & _ & X)]; [cbn in Ehi; discriminate | exact X].
  - intros Hnf. assert (scheme_type_eqb (scheme_type_of sch) STSpecialNotFile = true) as E
      by (destruct (scheme_type_of sch); try discriminate; reflexivity).
    specialize (X2 E). destruct h as [[|c d]|a|p]; [contradiction | | |]; eexists; reflexivity.
Qed.

Lemma host_set_post_he u u' h sch : wf_b u = true -> scheme u = Some sch -> host_set_post dbg hd u u' h ->
  host_he (scheme_type_eqb (scheme_type_of sch) STSpecialNotFile) h -> HE u'.
Proof using.
  intros W Hs (_ & _ & Es & _ & _ & _ & _ & Eh & _). exact (host_post_he u u' h sch W Hs Es Eh).
Qed.

Lemma set_host_some_he u x u' st : wfh u -> host_bad u u' = false ->
  set_host dbg hp hpo hd u (Some x) = Some (u', st) -> HE u -> HE u'.
Proof using HW HNE.
  intros [W HT] G H K. destruct (host_bad_premises u u' W G) as [X2 X1].
  destruct st; [|rewrite (set_host_atomic dbg hp hpo hd u (Some x) u' _ H) by discriminate; exact K ..].
  unfold set_host in H. rewrite (cannot_be_a_base_eval u W) in H. cbn [bindo] in H.
  destruct (byte_eqb (ser u) (scheme_end u + 1) 47) eqn:Hsl; cbn [negb] in H; [|discriminate].
  unfold u_scheme_type in H. rewrite (scheme_eval u W) in H. cbn [bindo] in H.
  set (sch := piece u (pidx u BeforeScheme) (pidx u AfterScheme)) in *.
  match type of H with (if ?c then _ else _) = _ => destruct c end; [discriminate|].
  match type of H with (match ?sub with Some _ => _ | None => _ end) = _ => destruct sub as [hsub|] end; [|discriminate].
  match type of H with (match ?r with Ok _ => _ | Err _ => _ end) = _ => destruct r as [host|e] eqn:Er end; [|discriminate].
  assert (host_disp_ok hd host /\ host_he (scheme_type_eqb (scheme_type_of sch) STSpecialNotFile) host) as [Hd Hhe].
  { destruct HF as (F1 & F2 & _). destruct (st_is_special (scheme_type_of sch)) eqn:Esp.
    - split; [exact (F1 _ _ Er) | exact (hp_he _ _ _ Er)].
    - split; [exact (F2 _ _ Er)|].
      assert (scheme_type_eqb (scheme_type_of sch) STSpecialNotFile = false) as -> by (destruct (scheme_type_of sch); try discriminate; reflexivity).
      exact (hpo_he _ _ Er). }
  destruct (set_host_internal dbg hd u host None) as [u0|] eqn:E; cbn [bindo] in H; [|discriminate].
  inversion H; subst u0. pose proof (set_host_internal_hosti dbg hd u host None u' E) as Hi.
  apply (host_set_post_he u u' host sch W (scheme_eval u W)); [|exact Hhe].
  apply (set_host_internal_post dbg hd u host u' W Hd); [|exact X2 | exact Hsl | exact E].
  intros Ha Hn. apply X1; [exact Ha | rewrite Hi; exact Hn].
Qed.

Lemma set_ip_host_he u h u' st : wfh u -> host_text_wf (hd h) -> host_disp_ok hd h -> hi_of_host h <> HI_None ->
  host_bad u u' = false -> set_ip_host dbg hd u h = Some (u', st) -> HE u -> HE u'.
Proof using.
  intros [W HT] Hwf Hd Hip G H K. destruct (host_bad_premises u u' W G) as [X2 X1].
  destruct st; [|rewrite (set_ip_host_atomic dbg hd u h u' _ H) by discriminate; exact K ..].
  pose proof H as H0. unfold set_ip_host in H0. rewrite (cannot_be_a_base_eval u W) in H0. cbn [bindo] in H0.
  destruct (byte_eqb (ser u) (scheme_end u + 1) 47) eqn:Hsl; cbn [negb] in H0; [|discriminate].
  destruct (set_host_internal dbg hd u h None) as [u0|] eqn:E; cbn [bindo] in H0; [|discriminate].
  inversion H0; subst u0. pose proof (set_host_internal_hosti dbg hd u h None u' E) as Hi.
  apply (host_set_post_he u u' h _ W (scheme_eval u W)).
  - apply (set_host_internal_post dbg hd u h u' W Hd); [|exact X2 | exact Hsl | exact E].
    intros Ha Hn. apply X1; [exact Ha | rewrite Hi; exact Hn].
  - split; [right; exact Hwf|]. intros _ ->. apply Hip. reflexivity.
Qed.

Lemma q_set_host_he u v u' st : wfh u -> host_bad u u' = false ->
  q_set_host dbg hp hpo hd u v = Some (u', st) -> HE u -> HE u'.
Proof using HW HNE.
  intros [W HT] G H K. destruct (host_bad_premises u u' W G) as [X2 X1].
  destruct st; [|rewrite (q_set_host_atomic dbg hp hpo hd u v u' _ H) by discriminate; exact K ..].
  destruct (q_set_host_post dbg hp hpo hd HF u v u' W X2 H) as (sch & h & Hs & [(Hf & -> & -> & P)|(rem & Hph & P)]).
  - pose proof (q_set_host_shortcut dbg hp hpo hd u sch u' W Hs Hf H) as E.
    pose proof (set_host_internal_hosti dbg hd u (HDomain []) None u' E) as Hi. cbn [hi_of_host] in Hi.
    apply (host_set_post_he u u' (HDomain []) sch W Hs); [apply P; intros Ha; exact (X1 Ha Hi)|].
    rewrite Hf. split; [left; reflexivity | discriminate].
  - pose proof (parse_host_he _ _ _ _ Hph) as Hhe.
    destruct (q_host_port sch rem) as [np|].
    + destruct P as (_ & _ & Es & _ & _ & _ & _ & Eh & _). exact (host_post_he u u' h sch W Hs Es Eh Hhe).
    + exact (host_set_post_he u u' h sch W Hs P Hhe).
Qed.

Lemma q_set_hostname_he u v u' st : wfh u -> host_bad u u' = false ->
  q_set_hostname dbg hp hpo hd u v = Some (u', st) -> HE u -> HE u'.
Proof using HW HNE.
  intros [W HT] G H K. destruct (host_bad_premises u u' W G) as [X2 X1].
  destruct st; [|rewrite (q_set_hostname_atomic dbg hp hpo hd u v u' _ H) by discriminate; exact K ..].
  destruct (q_set_hostname_post dbg hp hpo hd HF u v u' W X2 H) as (sch & h & Hs & [(Hf & -> & -> & P)|((rem & Hph) & P)]).
  - pose proof (q_set_hostname_shortcut dbg hp hpo hd u sch u' W Hs Hf H) as E.
    pose proof (set_host_internal_hosti dbg hd u (HDomain []) None u' E) as Hi. cbn [hi_of_host] in Hi.
    apply (host_set_post_he u u' (HDomain []) sch W Hs); [apply P; intros Ha; exact (X1 Ha Hi)|].
    rewrite Hf. split; [left; reflexivity | discriminate].
  - exact (host_set_post_he u u' h sch W Hs P (parse_host_he _ _ _ _ Hph)).
Qed.

End Steps.

(* ---------- set_scheme: special <-> special only, and a special target needs a host ---------- *)
Lemma set_scheme_facts dbg u s u' : wf_b u = true -> set_scheme dbg u s = Some (u', SOk) ->
  exists new rem, parse_scheme CSetter s = Some (new, rem)
    /\ st_is_special (scheme_type_of new) = st_is_special (scheme_type_of (nfirstn (scheme_end u) (ser u)))
    /\ (st_is_special (scheme_type_of new) = true -> has_host u = true).
Proof.
  intros W H. unfold set_scheme, input_new_no_trim in H.
  destruct (parse_scheme CSetter s) as [[new rem]|] eqn:Eps; [|discriminate].
  exists new, rem. split; [reflexivity|].
  unfold u_scheme_type in H. rewrite (scheme_text03 u W) in H. cbn [bindo] in H.
  rewrite (has_authority_eval dbg u W) in H. cbn [bindo] in H.
  set (nst := scheme_type_of new) in *. set (ost := scheme_type_of (nfirstn (scheme_end u) (ser u))) in *.
  match type of H with (if ?c then _ else _) = _ => destruct c eqn:C1 end; [discriminate|].
  match type of H with (if ?c then _ else _) = _ => destruct c eqn:C2 end; [discriminate|].
  apply orb_false_iff in C1. destruct C1 as [C1 _]. apply orb_false_iff in C1. destruct C1 as [C1a C1b].
  apply orb_false_iff in C2. destruct C2 as [_ C2].
  split.
  - destruct (st_is_special nst), (st_is_special ost); cbn in C1a, C1b; try reflexivity; discriminate.
  - intros Hsp. rewrite Hsp in C2. destruct (has_host u); [reflexivity | discriminate].
Qed.

Section Steps2.
Variable dbg : bool.
Variable hp hpo : list N -> result host.
Variable hd : host -> list N.
Hypothesis HW : HostWf hp hpo hd.
Hypothesis HNE : NoEmpty hp.
Hypothesis HIP : IpWf hd.

Lemma set_scheme_he u s u' st : wfh u -> set_scheme dbg u s = Some (u', st) -> HE u -> HE u'.
Proof using.
  intros [W HT] H K. destruct st; [|rewrite (set_scheme_atomic dbg u s u' _ H) by discriminate; exact K ..].
  destruct (set_scheme_ok dbg u s W HT) as (u2 & st2 & E & _ & Hok). rewrite H in E. inversion E; subst u2 st2.
  destruct (Hok eq_refl) as (new & rem & Eps & _ & _ & Es & _ & _ & Eh & _).
  destruct (set_scheme_facts dbg u s u' W H) as (new2 & rem2 & Eps2 & Hsp & Hh).
  rewrite Eps in Eps2. inversion Eps2; subst new2 rem2.
  intros sch Hs Hsp'. rewrite Es in Hs. inversion Hs; subst sch. rewrite Eh.
  rewrite Hsp' in Hsp. destruct (K _ (scheme_text03 u W) (eq_sym Hsp)) as [K1 _]. split; [exact K1|].
  intros _. rewrite (host_str_eval u W), (Hh Hsp'). eexists. reflexivity.
Qed.

Lemma set_host_none_he u u' st : wfh u -> (has_host u && path_starts_with_2slash u = false) ->
  set_host dbg hp hpo hd u None = Some (u', st) -> HE u -> HE u'.
Proof using.
  intros [W HT] G H K.
  destruct (set_host_none_ok dbg hp hpo hd u u' st W H) as (Herr & Hno & Hok).
  destruct st; [|rewrite Herr by discriminate; exact K ..].
  destruct (has_host u) eqn:Hh; [|rewrite (Hno eq_refl eq_refl); exact K].
  cbn [andb] in G.
  (* a success on a record with a host: the scheme is not special-non-file; the host is gone *)
  assert (scheme u' = scheme u /\ host_str u' = Some None) as [Es Eh].
  { destruct (path_empty_at_end u) eqn:He.
    - destruct (set_host_none_slash dbg hp hpo hd u u' W Hh He H) as [W' H'].
      destruct (set_host_none_ok dbg hp hpo hd (set_ser u (ser u ++ [47])) u' SOk W' H') as (_ & _ & Hok').
      assert (path_empty_at_end (set_ser u (ser u ++ [47])) = false) as X1.
      { unfold path_empty_at_end in He |- *. apply N.eqb_eq in He. cbn [ser set_ser path_start].
        apply N.eqb_neq. rewrite nlen_app. change (nlen [47]) with 1. lia. }
      assert (path_starts_with_2slash (set_ser u (ser u ++ [47])) = false) as X2.
      { unfold path_empty_at_end in He. apply N.eqb_eq in He. unfold path_starts_with_2slash. cbn [ser set_ser path_start].
        rewrite <- He. rewrite nskipn_app_exact. reflexivity. }
      destruct (Hok' eq_refl Hh X1 X2) as (_ & _ & Es & _ & _ & _ & Eh & _). split; [|exact Eh].
      rewrite Es. rewrite (scheme_text03 u W), (scheme_text03 _ W'). cbn [ser set_ser scheme_end].
      pose proof (wf_auth_facts u W (has_host_authority u W Hh)) as F. pose proof (af_ue F); pose proof (af_hs F); pose proof (af_he F); pose proof (af_ps F); pose proof (af_len F).
      rewrite nfirstn_app_le by lia. reflexivity.
    - destruct (Hok eq_refl eq_refl eq_refl G) as (_ & _ & Es & _ & _ & _ & Eh & _). split; assumption. }
  intros sch Hs Hsp. rewrite Eh. split; [intros t Et; discriminate|]. intros Hnf. exfalso.
  (* special and not file: the setter refuses *)
  rewrite Es in Hs. unfold set_host in H. rewrite (cannot_be_a_base_eval u W) in H. cbn [bindo] in H.
  destruct (negb (byte_eqb (ser u) (scheme_end u + 1) 47)); [discriminate|].
  unfold u_scheme_type in H. rewrite Hs in H. cbn [bindo] in H. rewrite Hh, Hsp, Hnf in H. cbn [negb andb] in H. discriminate.
Qed.

Theorem he_step u o u' : wfh u -> op_args_ok o -> excl03 u o u' = false ->
  apply_op dbg hp hpo hd u o = Some u' -> HE u -> HE u'.
Proof using HW HNE HIP.
  intros K Ha G H K0.
  destruct (frame_all dbg hp hpo hd u K) as (F1 & F2 & F3 & F4 & F5 & _).
  assert (forall v, same_front dbg u v -> HE v) as SF.
  { intros v (Es & _ & _ & Eh & _). exact (he_same u v Es Eh K0). }
  destruct o; cbn [apply_op excl03 op_args_ok] in H, G, Ha; try (apply omf_some in H; destruct H as [st H]).
  - destruct (F1 _ _ H) as [[S _] _]. exact (SF _ S).
  - destruct (F2 _ _ Ha H) as [[S _] _]. exact (SF _ S).
  - apply orb_false_iff in G. destruct G as [G G3]. apply orb_false_iff in G. destruct G as [G1 G2].
    apply negb_false_iff in G1. apply auth_end_b_ok in G1.
    assert (is_opaque_b u = true -> forallb no_qh p = true) as Hq.
    { intros Ho. rewrite Ho in G2. cbn [andb] in G2. apply negb_false_iff in G2. exact G2. }
    apply SF. destruct K as [W HT].
    destruct (path_layouts u W) as [Hau|[NA|[Ho|M]]].
    + destruct (set_path_ok dbg u p u' W HT Hau Ha G1 H) as (_ & _ & F & _). exact F.
    + destruct (set_path_noauth_ok dbg u p u' W NA Ha H (path_bad_noauth u u' G3 NA)) as (_ & _ & F & _). exact F.
    + destruct (set_path_opaque_ok dbg u p u' W Ho Ha (Hq Ho) H) as (_ & _ & F & _). exact F.
    + destruct (set_path_marker_ok dbg u p u' W M Ha H) as [R _].
      destruct (R (path_bad_marker u u' W G3 M)) as (_ & _ & F & _). exact F.
  - destruct st; [|rewrite (set_port_atomic dbg u p u' _ H) by discriminate; exact K0 ..].
    destruct (F3 _ _ Ha H) as [(Es & _ & _ & Eh) _]. exact (he_same u u' Es Eh K0).
  - destruct h as [x|].
    + exact (set_host_some_he dbg hp hpo hd HW HNE u x u' st K G H K0).
    + exact (set_host_none_he u u' st K G H K0).
  - assert (hi_of_host h <> HI_None) as Hne by (destruct h as [d|a|p]; cbn in Ha |- *; [contradiction | discriminate | discriminate]).
    exact (set_ip_host_he dbg hd u h u' st K (HIP h Ha) (IpWf_IpDisp hd HIP h Ha) Hne G H K0).
  - destruct st; [|rewrite (set_password_atomic dbg u p u' _ H) by discriminate; exact K0 ..].
    destruct (F4 _ _ H) as (Es & _ & Eh & _). exact (he_same u u' Es Eh K0).
  - destruct st; [|rewrite (set_username_atomic dbg u s u' _ H) by discriminate; exact K0 ..].
    destruct (F5 _ _ H) as (Es & _ & Eh & _). exact (he_same u u' Es Eh K0).
  - exact (set_scheme_he u s u' st K H K0).
  - destruct st; [|rewrite (path_segments_session_atomic dbg u ops u' _ H) by discriminate; exact K0 ..].
    apply SF. destruct K as [W HT].
    destruct (path_layouts u W) as [Hau|[NA|[Ho|M]]].
    + destruct (path_segments_session_ok dbg u ops u' W HT Hau Ha H) as (_ & _ & F & _). exact F.
    + destruct (path_segments_session_noauth_ok dbg u ops u' W NA Ha H (path_bad_noauth u u' G NA)) as (_ & _ & F & _). exact F.
    + exfalso. unfold path_segments_session, path_segments_mut in H. rewrite (cannot_be_a_base_eval u W) in H.
      unfold is_opaque_b in Ho. rewrite Ho in H. cbn [bindo] in H. discriminate.
    + destruct (path_segments_session_marker_ok dbg u ops u' W M Ha H) as [R _].
      destruct (R (path_bad_marker u u' W G M)) as (_ & _ & F & _). exact F.
  - unfold q_set_protocol in H. cbv zeta in H. exact (set_scheme_he u _ u' st K H K0).
  - destruct st; [|rewrite (set_username_atomic dbg u s u' _ H) by discriminate; exact K0 ..].
    destruct (F5 _ _ H) as (Es & _ & Eh & _). exact (he_same u u' Es Eh K0).
  - unfold q_set_password in H.
    destruct st; [|rewrite (set_password_atomic dbg u _ u' _ H) by discriminate; exact K0 ..].
    destruct (F4 _ _ H) as (Es & _ & Eh & _). exact (he_same u u' Es Eh K0).
  - exact (q_set_host_he dbg hp hpo hd HW HNE u s u' st K G H K0).
  - exact (q_set_hostname_he dbg hp hpo hd HW HNE u s u' st K G H K0).
  - destruct K as [W HT]. destruct (q_set_port_ok dbg u s W HT) as (u2 & st2 & E & Herr & Hok).
    rewrite H in E. inversion E; subst u2 st2.
    destruct st; [|rewrite Herr by discriminate; exact K0 ..].
    destruct (Hok eq_refl) as (_ & _ & (Es & _ & _ & Eh) & _). exact (he_same u u' Es Eh K0).
  - apply orb_false_iff in G. destruct G as [G1 G3]. apply negb_false_iff in G1. apply auth_end_b_ok in G1.
    pose proof K as [W HT].
    destruct (q_set_pathname_eval dbg u s W) as (sch & _ & E). rewrite E in H. clear E.
    destruct (byte_eqb (ser u) (scheme_end u + 1) 47) eqn:Hsl; cbn [negb] in H; [|inversion H; subst; exact K0].
    pose proof (q_pathname_arg_usv (scheme_type_of sch) (has_host u) s Ha) as Hp.
    set (p := q_pathname_arg (scheme_type_of sch) (has_host u) s) in *.
    apply SF.
    destruct (path_layouts u W) as [Hau|[NA|[Ho|M]]].
    + destruct (set_path_ok dbg u p u' W HT Hau Hp G1 H) as (_ & _ & F & _). exact F.
    + destruct (set_path_noauth_ok dbg u p u' W NA Hp H (path_bad_noauth u u' G3 NA)) as (_ & _ & F & _). exact F.
    + unfold is_opaque_b in Ho. rewrite Hsl in Ho. discriminate.
    + destruct (set_path_marker_ok dbg u p u' W M Hp H) as [R _].
      destruct (R (path_bad_marker u u' W G3 M)) as (_ & _ & F & _). exact F.
  - unfold q_set_search in H.
    assert (str_arg_ok (match s with [] => None | 63 :: r => Some r | _ => Some s end)) as Hq.
    { destruct s as [|c r]; [exact I|]. destruct (N.eq_dec c 63) as [->|Hc].
      - exact (usv_tail03 _ _ Ha).
      - unfold str_arg_ok. destruct c as [|q]; [exact Ha|]. do 6 (destruct q as [q|q|]; try exact Ha). contradiction. }
    destruct (F2 _ _ Hq H) as [[S _] _]. exact (SF _ S).
  - unfold q_set_hash in H. destruct (F1 _ _ H) as [[S _] _]. exact (SF _ S).
Qed.

End Steps2.
