(* Proofs/C06_SpliceScheme.v - WHOLE-URL parser agreement, part 9: set_scheme.
   Changing the scheme changes how the rest is parsed, so it is a splice only within one scheme class - which is all
   the setter allows (non-special -> non-special, special non-file -> special non-file on canonical records).  For a
   raw argument made of scheme characters only (any case, first a letter; no ':' and no TAB/LF/CR) and a call that
   keeps the port (the coupling "a port equal to the new default is dropped" changes the text behind the scheme:
   excluded by port u' = port u), Parser::parse_url on  argument ++ old text from the ':' on  returns exactly the
   setter's record: the scheme state lower-cases the argument on both sides. *)
From RU Require Import Base.Prelude Base.Utf8 Base.Utf8Facts Model.AsciiSet Gen.Tables
  Model.PercentEncoding Model.HostT Model.UrlRecord Model.Parser Model.Setters Model.WF
  Proofs.ListN Proofs.C03_WF Proofs.C06_List Proofs.C06_WFI Proofs.C06_Tail Proofs.C06_Steps Proofs.C06_Suffix
  Proofs.C06_Front Proofs.C06_Port Proofs.C06_FragQuery Proofs.C06_Scheme Proofs.C06_Main
  Proofs.C14_Set Proofs.C14_Enc Proofs.C14_Views Proofs.C02_Enc Proofs.C02_Parts
  Proofs.C02_Opaque Proofs.C02_Path Proofs.C02_PathL1 Proofs.C02_Reach Proofs.C16_RT Proofs.C02_AuthParts
  Proofs.C02_Auth Proofs.C02_AuthWf Proofs.C02_PathSp Proofs.C02_AuthSp Proofs.C02_AuthMain Proofs.C02_SetQF
  Proofs.C02_Canon Proofs.C02_SetPort Proofs.C02_SetScheme Proofs.C06_Agree Proofs.C06_AgreeUrl Proofs.C06_Splice Proofs.C06_SpliceAuth
  Proofs.C06_SpliceCred Proofs.C06_SplicePath Proofs.C06_SpliceNone Proofs.C06_All.
Open Scope N_scope.
Open Scope list_scope.

(* the argument class: a letter, then letters / digits / '+' '-' '.' in any case *)
Definition scheme_arg (x : list N) : bool :=
  match x with c :: _ => is_alpha c | [] => false end && forallb scheme_char x.

(* the old serialization with the raw argument in the scheme position *)
Definition splice_scheme (u : url) (x : list N) : list N := x ++ nskipn (scheme_end u) (ser u).

Definition lower_text (x : list N) : list N := map to_lower x.

(* ---------- the scheme state on an argument of the class ---------- *)
Lemma psl_arg ctx x : forallb scheme_char x = true -> forall acc T,
  parse_scheme_loop ctx acc (x ++ T) = parse_scheme_loop ctx (rev (lower_text x) ++ acc) T.
Proof.
  induction x as [|c r IH]; intros H acc T; [reflexivity|].
  cbn [forallb] in H. apply andb_true_iff in H. destruct H as [Hc Hr].
  cbn [app parse_scheme_loop lower_text map rev]. fold (lower_text r).
  assert (is_tnl c = false) as Ht by (unfold scheme_char, is_alnum, is_alpha, is_upper, is_lower, is_digit, is_tnl in *; lia).
  rewrite Ht. unfold to_lower.
  destruct (is_lower c || is_digit c || (c =? 43) || (c =? 45) || (c =? 46)) eqn:E1.
  - assert (is_upper c = false) as Hu by (unfold is_upper, is_lower, is_digit in *; lia). rewrite Hu.
    rewrite IH by exact Hr. rewrite <- app_assoc. reflexivity.
  - assert (is_upper c = true) as Hu by (unfold scheme_char, is_alnum, is_alpha, is_upper, is_lower, is_digit in *; lia).
    rewrite Hu. rewrite IH by exact Hr. rewrite <- app_assoc. reflexivity.
Qed.

Lemma scheme_arg_setter x : scheme_arg x = true -> parse_scheme CSetter (input_new_no_trim x) = Some (lower_text x, []).
Proof.
  intros H. unfold scheme_arg in H. apply andb_true_iff in H. destruct H as [Hh Hc].
  unfold parse_scheme, input_new_no_trim. destruct x as [|c r]; [discriminate|].
  assert (is_tnl c = false) as Ht by (unfold is_alpha, is_upper, is_lower, is_tnl in *; lia).
  unfold inp_starts_with_pred, inp_next. cbn [drop_while]. rewrite Ht, Hh.
  replace (parse_scheme_loop CSetter [] (c :: r)) with (parse_scheme_loop CSetter [] ((c :: r) ++ [])) by (rewrite app_nil_r; reflexivity).
  rewrite (psl_arg CSetter (c :: r) Hc [] []). cbn [parse_scheme_loop ctx_eqb].
  rewrite app_nil_r, rev_involutive. reflexivity.
Qed.

Lemma scheme_arg_parser x T : scheme_arg x = true ->
  parse_scheme CUrlParser (x ++ 58 :: T) = Some (lower_text x, T).
Proof.
  intros H. unfold scheme_arg in H. apply andb_true_iff in H. destruct H as [Hh Hc].
  unfold parse_scheme. destruct x as [|c r]; [discriminate|].
  assert (is_tnl c = false) as Ht by (unfold is_alpha, is_upper, is_lower, is_tnl in *; lia).
  unfold inp_starts_with_pred, inp_next. cbn [app drop_while]. rewrite Ht, Hh.
  change (c :: r ++ 58 :: T) with ((c :: r) ++ 58 :: T). rewrite (psl_arg CUrlParser (c :: r) Hc [] (58 :: T)).
  cbn [parse_scheme_loop]. rewrite app_nil_r, rev_involutive. reflexivity.
Qed.

Lemma lower_text_chars l : forallb scheme_char l = true -> forallb scheme_char (lower_text l) = true.
Proof.
  induction l as [|d t IH]; intros H; [reflexivity|].
  cbn [forallb lower_text map] in *. apply andb_true_iff in H. destruct H as [H1 H2]. fold (lower_text t). rewrite (IH H2), andb_true_r.
  unfold to_lower, scheme_char, is_alnum, is_alpha, is_upper, is_lower, is_digit in *. destruct ((65 <=? d) && (d <=? 90)) eqn:E; lia.
Qed.

Lemma lower_text_arg x : scheme_arg x = true -> scheme_arg (lower_text x) = true.
Proof.
  intros H. unfold scheme_arg in *. apply andb_true_iff in H. destruct H as [Hh Hc].
  rewrite (lower_text_chars x Hc), andb_true_r.
  destruct x as [|c r]; [discriminate|]. cbn [lower_text map].
  unfold to_lower, is_alpha, is_upper, is_lower in *. destruct ((65 <=? c) && (c <=? 90)) eqn:E; lia.
Qed.

Lemma lower_text_idem x : lower_text (lower_text x) = lower_text x.
Proof.
  unfold lower_text. rewrite map_map. apply map_ext. intros c. unfold to_lower, is_upper.
  destruct ((65 <=? c) && (c <=? 90)) eqn:E; [|rewrite E; reflexivity].
  replace ((65 <=? c + 32) && (c + 32 <=? 90)) with false by lia. reflexivity.
Qed.

(* ---------- trimming leaves a text that starts with a letter and contains a ':' alone at the front ---------- *)
Lemma drop_while_app_stop (g : N -> bool) l1 c l2 : g c = false -> drop_while g (l1 ++ c :: l2) = drop_while g l1 ++ c :: l2.
Proof.
  intros Hc. induction l1 as [|d r IH]; cbn [app drop_while]; [rewrite Hc; reflexivity|].
  destruct (g d); [exact IH | reflexivity].
Qed.

Lemma trim_front_kept x T : scheme_arg x = true ->
  input_new_trim_c0 (x ++ 58 :: T) = x ++ 58 :: rev (drop_while is_c0_or_space (rev T)).
Proof.
  intros H. unfold scheme_arg in H. apply andb_true_iff in H. destruct H as [Hh _].
  destruct x as [|c r]; [discriminate|].
  assert (is_c0_or_space c = false) as Hc by (unfold is_alpha, is_upper, is_lower, is_c0_or_space in *; lia).
  unfold input_new_trim_c0, trim_matches. cbn [app drop_while]. rewrite Hc.
  change (c :: r ++ 58 :: T) with ((c :: r) ++ 58 :: T). rewrite rev_app_distr. cbn [rev]. rewrite <- app_assoc. cbn [app].
  rewrite (drop_while_app_stop is_c0_or_space (rev T) 58 (rev r ++ [c])) by reflexivity.
  rewrite rev_app_distr. cbn [rev]. rewrite rev_app_distr. rewrite !rev_involutive. cbn [rev app]. rewrite <- !app_assoc. reflexivity.
Qed.

Section SchemeSplice.
Variable dbg : bool.
Variable hp hpo : list N -> result host.
Variable hd : host -> list N.
Hypothesis HRT : HostRT hp hpo hd.

Notation Canon := (Canon hp hpo hd).

(* parse_url reads its input through the scheme state only *)
Lemma parse_url_scheme_arg x T : scheme_arg x = true ->
  parse_url dbg hp hpo hd None None (x ++ 58 :: T) = parse_url dbg hp hpo hd None None (lower_text x ++ 58 :: T).
Proof.
  intros H. unfold parse_url. rewrite (trim_front_kept x T H), (trim_front_kept (lower_text x) T (lower_text_arg x H)).
  rewrite (scheme_arg_parser x _ H), (scheme_arg_parser (lower_text x) _ (lower_text_arg x H)). rewrite lower_text_idem. reflexivity.
Qed.

(* the scheme a successful set_scheme stores for an argument of the class *)
Lemma set_scheme_new u x u' : wf_b u = true -> C06_Suffix.host_text_ok u -> scheme_arg x = true ->
  set_scheme dbg u x = Some (u', SOk) -> scheme u' = Some (lower_text x).
Proof.
  intros W HT Hx E. destruct (set_scheme_ok dbg u x W HT) as (u2 & st2 & E2 & _ & H).
  rewrite E in E2. inversion E2; subst u2 st2. destruct (H eq_refl) as (new & rem & Ep & _ & _ & Hs & _).
  pose proof (scheme_arg_setter x Hx) as Ea. unfold input_new_no_trim in Ea. rewrite Ea in Ep. inversion Ep; subst. exact Hs.
Qed.

Lemma set_scheme_ser u x u' : Canon u -> scheme_arg x = true -> set_scheme dbg u x = Some (u', SOk) ->
  nlen (ser u') <= U32_MAX_P -> port u' = port u ->
  exists T, nskipn (scheme_end u) (ser u) = 58 :: T /\ ser u' = lower_text x ++ 58 :: T.
Proof.
  intros C Hx E Hb Hp. destruct (Canon_wfh dbg hp hpo hd HRT u C) as [W HT].
  pose proof (set_scheme_new u x u' W HT Hx E) as Hs.
  destruct C as [sch P q f K | sch segs last q f K | sch ui h pt p q f K | sch ui h pt p q f K Kp].
  - destruct (set_scheme_opaque dbg sch P q f x u' SOk K E Hb) as (ns & _ & ->).
    rewrite opaque_url_sf, sf_scheme in Hs. inversion Hs; subst ns.
    exists (P ++ qf_text q f). cbn [ser scheme_end opaque_url]. unfold opaque_ser, opaque_pre. split.
    + rewrite <- !app_assoc. rewrite nskipn_app_len. reflexivity.
    + rewrite <- !app_assoc. reflexivity.
  - destruct (set_scheme_noauth dbg sch segs last q f x u' SOk K E Hb) as (ns & _ & ->).
    rewrite noauth_url_sf, sf_scheme in Hs. inversion Hs; subst ns.
    exists (marker_of (C02_Path.path_text segs last) ++ C02_Path.path_text segs last ++ qf_text q f).
    cbn [ser scheme_end noauth_url]. unfold noauth_ser, noauth_pre. split.
    + rewrite <- !app_assoc. rewrite nskipn_app_len. reflexivity.
    + rewrite <- !app_assoc. reflexivity.
  - destruct (set_scheme_auth dbg hp hpo hd STNotSpecial sch ui h pt p q f x u' SOk K eq_refl E Hb) as (ns & pt' & _ & ->).
    rewrite (auth_scheme hd) in Hs. inversion Hs; subst ns. cbn [port C02_Auth.auth_url] in Hp. subst pt'.
    exists (47 :: 47 :: ui_text ui ++ hd h ++ port_text pt ++ pth_text p ++ qf_text q f).
    cbn [ser scheme_end C02_Auth.auth_url]. rewrite !(auth_ser_shape hd). split; [apply nskipn_app_len | reflexivity].
  - destruct (set_scheme_auth dbg hp hpo hd STSpecialNotFile sch ui h pt p q f x u' SOk K eq_refl E Hb) as (ns & pt' & _ & ->).
    rewrite (auth_scheme hd) in Hs. inversion Hs; subst ns. cbn [port C02_Auth.auth_url] in Hp. subst pt'.
    exists (47 :: 47 :: ui_text ui ++ hd h ++ port_text pt ++ pth_text p ++ qf_text q f).
    cbn [ser scheme_end C02_Auth.auth_url]. rewrite !(auth_ser_shape hd). split; [apply nskipn_app_len | reflexivity].
Qed.

Theorem splice_agreement_set_scheme u x u' : Canon u -> scheme_arg x = true ->
  set_scheme dbg u x = Some (u', SOk) -> nlen (ser u') <= U32_MAX_P -> port u' = port u ->
  Canon u' /\ scheme u' = Some (lower_text x)
  /\ parse_url dbg hp hpo hd None None (splice_scheme u x) = POk u'.
Proof.
  intros C Hx E Hb Hp. pose proof (set_scheme_Canon dbg hp hpo hd u x u' SOk C E Hb) as C'.
  destruct (Canon_wfh dbg hp hpo hd HRT u C) as [W HT].
  split; [exact C'|]. split; [exact (set_scheme_new u x u' W HT Hx E)|].
  destruct (set_scheme_ser u x u' C Hx E Hb Hp) as (T & ER & ES).
  unfold splice_scheme. rewrite ER. rewrite (parse_url_scheme_arg x T Hx). rewrite <- ES.
  exact (Canon_reparse dbg hp hpo hd HRT u' C').
Qed.
End SchemeSplice.
