(* Proofs/C04_SetHost.v - Url::set_host / set_ip_host on a well-formed record (wf_b), any host functions,
   both configurations:
   - set_host_internal (with or without new port information) reaches no panic site;
   - set_ip_host never panics;
   - set_host panics EXACTLY in the class of finding F-C04-1: debug assertions on, argument None, the URL has a
     host, is not special-not-file, and the byte at path_start exists and is not '/' (known_c04_1: the path is
     empty and followed by '?' or '#'; debug_assert!(self.byte_at(self.path_start) == b'/')). *)
From RU Require Import Base.Prelude Base.Utf8 Model.AsciiSet Gen.Tables Model.PercentEncoding
  Model.HostT Model.UrlRecord Model.Parser Model.WF Model.Setters
  Proofs.ListN Proofs.C06_List Proofs.C02_Parts Proofs.C03_WF Proofs.C06_WFI Proofs.C06_Tail Proofs.C06_Steps
  Proofs.C06_Suffix Proofs.C06_Front Proofs.C06_Host Proofs.C04_PathTotal Proofs.C04_ParseTotal.

Definition known_c04_1 (u : url) : bool :=
  byte_eqb (ser u) (scheme_end u + 1) 47 && has_host u
  && negb (st_is_special (scheme_type_of (b_scheme u)) && negb (st_is_file (scheme_type_of (b_scheme u))))
  && negb (nlen (ser u) =? path_start u) && negb (byte_eqb (ser u) (path_start u) 47).

Section SetHost.
Variable dbg : bool.
Variable host_parse host_parse_opaque : list N -> result host.
Variable host_display : host -> list N.

Theorem set_host_internal_total u h op : wf_b u = true ->
  exists u', set_host_internal dbg host_display u h op = Some u'.
Proof.
  intros W. unfold set_host_internal.
  destruct (wf_scheme_facts u W) as (Hse & Hc & Hlt).
  set (osp := match op with Some _ => path_start u | None => host_end u end).
  assert (osp <= path_start u /\ path_start u <= nlen (ser u) /\ scheme_end u < host_start u /\ host_start u <= nlen (ser u)) as (O1 & O2 & O3 & O4).
  { subst osp. destruct (has_authority_b u) eqn:Ha.
    - pose proof (wf_auth_facts u W Ha) as F.
      pose proof (af_ue F); pose proof (af_hs F); pose proof (af_he F); pose proof (af_ps F); pose proof (af_len F).
      destruct op; lia.
    - pose proof (wf_noauth_facts u W Ha) as F. pose proof (nf_hs F); pose proof (nf_he F); pose proof (nf_len F).
      pose proof (wf_se_lt_ps u W). destruct op; lia. }
  destruct (wf_tail_offsets_ge u (path_start u) W ltac:(lia)) as [Gq Gf].
  unfold u_slice_from. rewrite slice_from_o_some by lia. cbn [bindo].
  rewrite (has_authority_trunc dbg u W). cbn [bindo].
  assert (forall X : option (list N * N * N), (exists y, X = Some y) ->
            exists u', (' (s1, ue, hs) <- X ;;
                        (let s2 := s1 ++ host_display h in
                         let he := nlen s2 in
                         let '(s3, port') := match op with
                                             | Some np => (match np with Some p => s2 ++ [58] ++ decimal p | None => s2 end, np)
                                             | None => (s2, port u)
                                             end in
                         let new_suffix_pos := nlen s3 in
                         ps <- adjust dbg (path_start u) osp new_suffix_pos ;;
                         qs <- adjust_opt dbg (query_start u) osp new_suffix_pos ;;
                         fs <- adjust_opt dbg (fragment_start u) osp new_suffix_pos ;;
                         Some (mkUrl (s3 ++ nskipn osp (ser u)) (scheme_end u) ue hs he (hi_of_host h) port' ps qs fs))) = Some u') as Hrest.
  { intros X [[[s1 ue] hs] ->]. cbn [bindo]. cbv zeta.
    destruct (match op with
              | Some np => (match np with Some p => (s1 ++ host_display h) ++ [58] ++ decimal p | None => s1 ++ host_display h end, np)
              | None => (s1 ++ host_display h, port u)
              end) as [s3 port'].
    rewrite adjust_ok by lia.
    rewrite !adjust_opt_ok by (destruct (query_start u), (fragment_start u); try exact I; lia).
    cbn [bindo]. eexists. reflexivity. }
  apply Hrest.
  destruct (has_authority_b u) eqn:Ha; cbn [negb]; [eexists; reflexivity|].
  pose proof (wf_noauth_facts u W Ha) as F. pose proof (nf_ue F) as Eue. pose proof (nf_hs F) as Ehs.
  unfold truncate. rewrite Ehs, Eue.
  assert ((if dbg then x <- slice_o (nfirstn (scheme_end u + 1) (ser u)) (scheme_end u) (scheme_end u + 1);;
                        assert_o (list_eqb x [58]);;; assert_o (scheme_end u + 1 =? scheme_end u + 1) else Some tt) = Some tt) as Ed.
  { destruct dbg; [|reflexivity]. rewrite slice_o_some by (rewrite ?nlen_nfirstn; lia). cbn [bindo].
    replace (scheme_end u + 1 - scheme_end u) with 1 by lia. rewrite nskipn_nfirstn_comm.
    rewrite nfirstn_nfirstn by lia. rewrite (piece_one _ _ _ (byte_eqb_nnth _ _ _ Hc)).
    cbn [list_eqb]. rewrite !N.eqb_refl. reflexivity. }
  rewrite Ed. cbn [bindo]. eexists. reflexivity.
Qed.

Theorem set_ip_host_total u h : wf_b u = true -> exists r, set_ip_host dbg host_display u h = Some r.
Proof.
  intros W. unfold set_ip_host. rewrite (cannot_be_a_base_eval u W). cbn [bindo].
  destruct (negb (byte_eqb (ser u) (scheme_end u + 1) 47)); [eexists; reflexivity|].
  destruct (set_host_internal_total u h None W) as (u' & E). rewrite E. cbn [bindo]. eexists. reflexivity.
Qed.

Theorem set_host_some_total u hs : wf_b u = true ->
  exists r, set_host dbg host_parse host_parse_opaque host_display u (Some hs) = Some r.
Proof.
  intros W. unfold set_host. rewrite (cannot_be_a_base_eval u W). cbn [bindo].
  destruct (negb (byte_eqb (ser u) (scheme_end u + 1) 47)); [eexists; reflexivity|].
  unfold u_scheme_type. rewrite (scheme_eval u W). cbn [bindo].
  set (st := scheme_type_of _).
  destruct ((match hs with [] => true | _ => false end) && st_is_special st && negb (st_is_file st)); [eexists; reflexivity|].
  cbv zeta.
  destruct (if (match hs with 91 :: _ => true | _ => false end) && ends_with_byte 93 hs then Some hs
            else match find_byte 58 hs with Some 0 => None | Some i => Some (nfirstn i hs) | None => Some hs end) as [hsub|];
    [|eexists; reflexivity].
  destruct (if st_is_special st then host_parse hsub else host_parse_opaque hsub) as [host|e]; [|eexists; reflexivity].
  destruct (set_host_internal_total u host None W) as (u' & E). rewrite E. cbn [bindo]. eexists. reflexivity.
Qed.

Theorem set_host_none_panics_iff u : wf_b u = true ->
  (set_host dbg host_parse host_parse_opaque host_display u None = None <-> dbg = true /\ known_c04_1 u = true).
Proof.
  intros W. unfold set_host, known_c04_1. rewrite (cannot_be_a_base_eval u W). cbn [bindo].
  destruct (byte_eqb (ser u) (scheme_end u + 1) 47) eqn:Ecbb; cbn [negb andb].
  2:{ split; [discriminate | intros [_ X]; discriminate]. }
  unfold u_scheme_type. rewrite (scheme_eval u W). cbn [bindo].
  unfold b_scheme, piece. cbn [pidx]. rewrite N.sub_0_r, nskipn_0.
  set (st := scheme_type_of (nfirstn (scheme_end u) (ser u))).
  destruct (has_host u) eqn:Hh; cbn [andb].
  2:{ split; [discriminate | intros [_ X]; discriminate]. }
  destruct (st_is_special st && negb (st_is_file st)) eqn:Esp; cbn [negb andb].
  { split; [discriminate | intros [_ X]; discriminate]. }
  pose proof (has_host_authority u W Hh) as Ha. pose proof (wf_auth_facts u W Ha) as F.
  pose proof (af_ue F); pose proof (af_hs F); pose proof (af_he F); pose proof (af_ps F); pose proof (af_len F).
  destruct (wf_scheme_facts u W) as (Hse & Hc & Hlt).
  destruct (wf_tail_offsets_ge u (path_start u) W ltac:(lia)) as [Gq Gf].
  set (s0 := if nlen (ser u) =? path_start u then ser u ++ [47] else ser u).
  assert (nlen (ser u) <= nlen s0) as L0 by (subst s0; destruct (nlen (ser u) =? path_start u); rewrite ?nlen_app; lia).
  assert (dbg_byte_is dbg (set_ser u s0) (scheme_end u) 58 = Some tt) as E1.
  { unfold dbg_byte_is. destruct dbg; [|reflexivity]. unfold byte_is, byte_at. cbn [ser set_ser].
    assert (nnth s0 (scheme_end u) = Some 58) as En.
    { subst s0. destruct (nlen (ser u) =? path_start u); [rewrite nnth_app_lt by lia|]; apply byte_eqb_nnth; exact Hc. }
    rewrite En. cbn [bindo]. reflexivity. }
  rewrite E1. cbn [bindo].
  (* what is left after the second assertion never fails *)
  assert (forall X : option unit, X = Some tt ->
            (X ;;; assert_o (((if st_is_file st then scheme_end u + 3 else scheme_end u + 1) <=? path_start u) && (path_start u <=? nlen s0)) ;;;
             qs <- sub_off_opt dbg (query_start u) (path_start u - (if st_is_file st then scheme_end u + 3 else scheme_end u + 1)) ;;
             fs <- sub_off_opt dbg (fragment_start u) (path_start u - (if st_is_file st then scheme_end u + 3 else scheme_end u + 1)) ;;
             Some (mkUrl (nfirstn (if st_is_file st then scheme_end u + 3 else scheme_end u + 1) s0 ++ nskipn (path_start u) s0)
                         (scheme_end u) (if st_is_file st then scheme_end u + 3 else scheme_end u + 1)
                         (if st_is_file st then scheme_end u + 3 else scheme_end u + 1)
                         (if st_is_file st then scheme_end u + 3 else scheme_end u + 1) HI_None None
                         (if st_is_file st then scheme_end u + 3 else scheme_end u + 1) qs fs, SOk)) <> None) as Hrest.
  { intros X ->. cbn [bindo].
    replace (((if st_is_file st then scheme_end u + 3 else scheme_end u + 1) <=? path_start u) && (path_start u <=? nlen s0))
      with true by (destruct (st_is_file st); lia).
    cbn [assert_o bindo]. unfold sub_off_opt.
    rewrite !adjust_opt_ok by (destruct (query_start u), (fragment_start u), (st_is_file st); try exact I; lia).
    cbn [bindo]. discriminate. }
  cbv zeta. fold s0.
  destruct dbg.
  - unfold dbg_byte_is at 1. unfold byte_is, byte_at. cbn [ser set_ser].
    destruct (nlen (ser u) =? path_start u) eqn:Ee; cbn [negb andb].
    + assert (nnth s0 (path_start u) = Some 47) as En.
      { subst s0. rewrite nnth_app_ge by lia. replace (path_start u - nlen (ser u)) with 0 by lia. reflexivity. }
      rewrite En. cbn [bindo]. rewrite N.eqb_refl. cbn [assert_o].
      split; [intros X; exfalso; revert X; apply (Hrest (Some tt)); reflexivity | intros [_ X]; discriminate].
    + assert (path_start u < nlen (ser u)) as Lp by lia.
      assert (s0 = ser u) as Es0 by (subst s0; reflexivity). rewrite Es0 in *.
      destruct (nnth (ser u) (path_start u)) as [x|] eqn:En.
      2:{ exfalso. unfold nnth in En. apply nth_error_None in En. unfold nlen in Lp. lia. }
      cbn [bindo]. unfold byte_eqb. rewrite En.
      destruct (x =? 47); cbn [assert_o negb].
      * split; [intros X; exfalso; revert X; apply (Hrest (Some tt)); reflexivity | intros [_ X]; discriminate].
      * cbn [bindo]. split; [intros _; split; reflexivity | reflexivity].
  - cbn [dbg_byte_is]. split; [intros X; exfalso; revert X; apply (Hrest (Some tt)); reflexivity | intros [X _]; discriminate].
Qed.

Theorem set_host_panics_iff u h : wf_b u = true ->
  (set_host dbg host_parse host_parse_opaque host_display u h = None <-> dbg = true /\ h = None /\ known_c04_1 u = true).
Proof.
  intros W. destruct h as [hs|].
  - destruct (set_host_some_total u hs W) as (r & E). rewrite E.
    split; [discriminate | intros (_ & X & _); discriminate].
  - rewrite (set_host_none_panics_iff u W). tauto.
Qed.

End SetHost.

(* in the class of F-C04-1 the path is empty and a query or fragment follows *)
Lemma known_c04_1_shape u : wf_b u = true -> known_c04_1 u = true ->
  path_start u = path_end u /\ (query_start u <> None \/ fragment_start u <> None).
Proof.
  intros W H. unfold known_c04_1 in H.
  repeat match type of H with (_ && _) = true => apply andb_true_iff in H; let H' := fresh "K" in destruct H as [H H'] end.
  apply negb_true_iff in K, K0. apply N.eqb_neq in K0.
  destruct (wf_ps_le_path_end u W) as [B5 B6]. pose proof (path_start_le_len u W) as PL.
  assert (path_start u < nlen (ser u)) as Lp by lia.
  destruct (N.eq_dec (path_start u) (path_end u)) as [E|E].
  - split; [exact E|]. unfold path_end in E.
    destruct (query_start u); [left; discriminate|]. destruct (fragment_start u); [right; discriminate | lia].
  - exfalso. assert (nnth (ser u) (path_start u) = Some 47) as E47.
    { apply base_path_slash; [exact W | apply byte_eqb_true_iff; exact H | lia]. }
    apply byte_eqb_true_iff in E47. congruence.
Qed.

(* finding F-C04-1: "a://h?q" *)
Definition w_c04_1 : url := mkUrl [97; 58; 47; 47; 104; 63; 113] 1 4 4 5 HI_Domain None 5 (Some 5) None.
Lemma c04_1_witness :
  wf_b w_c04_1 = true /\ known_c04_1 w_c04_1 = true
  /\ set_host true hs_hp hs_hp hs_hd w_c04_1 None = None
  /\ set_host false hs_hp hs_hp hs_hd w_c04_1 None
     = Some (mkUrl [97; 58; 63; 113] 1 2 2 2 HI_None None 2 (Some 2) None, SOk).
Proof. vm_compute. repeat split; reflexivity. Qed.

(* finding F-C04-3 (with F-C02-4): set_host never panics on "a://h:80/", but set_host(Some "") leaves "a://:80/",
   a record outside wf_b, on which password() panics in both configurations *)
Lemma c04_3_witness :
  wf_b hs_w1 = true /\ known_c04_1 hs_w1 = false
  /\ exists u', set_host true hs_hp hs_hp hs_hd hs_w1 (Some []) = Some (u', SOk)
     /\ ser u' = [97; 58; 47; 47; 58; 56; 48; 47] /\ wf_b u' = false
     /\ password true u' = None /\ password false u' = None.
Proof.
  split; [vm_compute; reflexivity|]. split; [vm_compute; reflexivity|]. eexists. split; [vm_compute; reflexivity|].
  vm_compute. repeat split; reflexivity.
Qed.
