(* Proofs/C09_RealC01.v - the *_model theorems of C01 (parser model + host model against the Standard's parser + the
   Standard's host parser over the same oracle) for the REAL oracle.

   They are stated relative to IdnaOK idna, which is false of the real idna crate (F-C10-1: outputs inside
   Known_C10_long are no fixed points).  Their proofs use the FIRST clause of IdnaOK only - every oracle output is ASCII
   outside the deny list (idna_out) - because both sides ask the SAME oracle for the same host text once and compare the
   answers; idempotence is never needed.  So they hold under IdnaOK2 (whose first clause is the same), with no premise
   about the class at all: C01 is not affected by F-C10-1. *)
From Coq Require Import ZifyBool ZifyN.
From RU Require Import Base.Prelude Base.Utf8 Base.Utf8Facts Model.AsciiSet Gen.Tables
  Model.PercentEncoding Model.HostT Model.UrlRecord Model.Parser Model.Setters Model.WF Model.Host Model.KnownC01
  Spec.Whatwg Spec.WhatwgHost Spec.WhatwgHostParse
  Proofs.C02_Parts Proofs.C02_Path Proofs.C03_WF Proofs.C01_Tables Proofs.C08_Input Proofs.C09_Host
  Proofs.C01_EqRun Proofs.C01_EqEnc Proofs.C01_EqApi Proofs.C01_EqOpaque Proofs.C01_EqRef Proofs.C01_EqDots
  Proofs.C01_EqPathSpec Proofs.C01_EqPath Proofs.C01_EqOverflow Proofs.C01_EqEmpty
  Proofs.C01_EqClasses Proofs.C01_EqAuthSpec Proofs.C01_EqAuthModel Proofs.C01_EqAuth Proofs.C01_EqAuthHost
  Proofs.C01_EqClasses2 Proofs.C01_EqRel Proofs.C01_EqRelPath Proofs.C01_EqRelArms Proofs.C01_EqRelBase
  Proofs.C01_EqSpSpec Proofs.C01_EqSpPath Proofs.C01_EqSpModel Proofs.C01_EqSp Proofs.C01_EqSpHost
  Proofs.C01_KnownExact Proofs.C01_EqSpKnown
  Proofs.C01_EqAbs Proofs.C01_EqSpBase Proofs.C01_EqSpBare Proofs.C01_Override Proofs.C01_EqAsm Proofs.C01_EqShape
  Proofs.C01_EqCover
  Proofs.C01_EqFileSpec Proofs.C01_EqFilePath Proofs.C01_EqFileRel Proofs.C01_EqFile Proofs.C01_EqFileHost
  Proofs.C01_EqFileAsm Proofs.C01_EqFileCover Proofs.C01_EqFileTwo Proofs.C01_EqFileRel2 Proofs.C09_Long.


Definition IdnaOut (idna : list N -> option (list N)) : Prop := forall bs d, idna bs = Some d -> Forall dom_char_ok d.

Lemma IdnaOK2_out idna : IdnaOK2 idna -> IdnaOut idna.
Proof. intros OK. exact (idna2_out idna OK). Qed.

Lemma IdnaOK_out idna : IdnaOK idna -> IdnaOut idna.
Proof. intros OK. exact (idna_out idna OK). Qed.

(* C01_statement_all2_model *)
Theorem statement_all4_out dbg idna : IdnaOut idna -> forall input base sbase,
  usv_list input -> full_rel dbg spec_host_serializer base sbase -> known_c01_v2 base input = 0 ->
  agree_good dbg spec_host_serializer
    (parse_url dbg (host_parse idna) host_parse_opaque host_display None base input)
    (spec_basic_url_parse (spec_host_parser idna) input sbase)
  /\ (forall su u, spec_basic_url_parse (spec_host_parser idna) input sbase = BDone su ->
        parse_url dbg (host_parse idna) host_parse_opaque host_display None base input = POk u ->
        full_base dbg spec_host_serializer u su).
Proof.
  intros HI input base sbase Hu Hb Hk. apply statement_all4; try assumption.
  apply host_hyp4_model; [exact HI | exact Hu].
Qed.

(* C01_statement_all2_model_utf8 *)
Theorem statement_all4_out_utf8 dbg idna : IdnaOut idna -> forall input base sbase,
  usv_list input -> full_rel dbg spec_host_serializer base sbase -> known_c01_v2 base input = 0 ->
  agree_good dbg spec_host_serializer
    (parse_url dbg (host_parse idna) host_parse_opaque host_display (Some utf8_encode) base input)
    (spec_basic_url_parse (spec_host_parser idna) input sbase).
Proof.
  intros HI input base sbase Hu Hb Hk. rewrite parse_url_utf8_override.
  exact (proj1 (statement_all4_out dbg idna HI input base sbase Hu Hb Hk)).
Qed.

(* C01_statement_instance2 *)
Theorem statement_instance4_out dbg idna : IdnaOut idna -> forall input base sbase,
  usv_list input -> full_rel dbg spec_host_serializer base sbase -> known_c01_v2 base input = 0 ->
  statement_shape dbg spec_host_serializer
    (parse_url dbg (host_parse idna) host_parse_opaque host_display None base input)
    (spec_basic_url_parse (spec_host_parser idna) input sbase).
Proof.
  intros HI input base sbase Hu Hb Hk. apply agree_good_shape.
  exact (proj1 (statement_all4_out dbg idna HI input base sbase Hu Hb Hk)).
Qed.

(* C01_statement_file_two_slashes_model *)
Theorem class_file_two_out dbg idna : IdnaOut idna -> forall input base sbase,
  usv_list input -> full_rel dbg spec_host_serializer base sbase ->
  in_class_file input = true -> two_sl_file input = true ->
  agree_good dbg spec_host_serializer
    (parse_url dbg (host_parse idna) host_parse_opaque host_display None base input)
    (spec_basic_url_parse (spec_host_parser idna) input sbase)
  /\ (forall su u, spec_basic_url_parse (spec_host_parser idna) input sbase = BDone su ->
        parse_url dbg (host_parse idna) host_parse_opaque host_display None base input = POk u ->
        full_base dbg spec_host_serializer u su).
Proof.
  intros HI input base sbase Hu Hb Hc H2.
  apply class_file_two_good; [exact Hu | exact Hc | exact H2 | exact (full_rel_sch _ _ _ _ Hb)|].
  apply host_agree_file_real; [exact HI | apply class_host_text_f_usv; exact Hu].
Qed.

(* C01_statement_file_rel_two_slashes_model *)
Theorem class_file_rel2_out dbg idna : IdnaOut idna -> forall input b sb,
  usv_list input -> related dbg spec_host_serializer b sb -> in_class_file_rel2 sb input = true ->
  agree_good dbg spec_host_serializer
    (parse_url dbg (host_parse idna) host_parse_opaque host_display None (Some b) input)
    (spec_basic_url_parse (spec_host_parser idna) input (Some sb))
  /\ (forall su u, spec_basic_url_parse (spec_host_parser idna) input (Some sb) = BDone su ->
        parse_url dbg (host_parse idna) host_parse_opaque host_display None (Some b) input = POk u ->
        full_base dbg spec_host_serializer u su).
Proof.
  intros HI input b sb Hu Rl Hc. apply class_file_rel2; [exact Hu | exact Rl | exact Hc|].
  apply host_agree_file_real; [exact HI|].
  pose proof (usv_spec_clean input Hu) as Hcl. unfold file_host_of.
  destruct (spec_clean input) as [|c1 [|c2 T]]; try constructor.
  destruct (is_sl c1 && is_sl c2); [|constructor].
  apply (usv_of_in _ T); [exact (as_part_in T) | apply usv_cons in Hcl; destruct Hcl as [_ Hcl]; apply usv_cons in Hcl; tauto].
Qed.
