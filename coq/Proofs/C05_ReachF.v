(* Proofs/C05_ReachF.v - the final reachability relation of C05 and its invariant.
   CReachF dbg hp hpo hd : parse; parse against ANY reached record (no premise on the base); a step_gate3 step of any
   of the 19 mutators; a Url::query_pairs_mut session with &str arguments.
   Invariant (creachF_inv): CInv (C06's wfh + the five component clauses)
                            /\ AS (a special scheme is followed by "://" - hence base_ok, the former join premise)
                            /\ every byte inside 0x20..0x7E
                            /\ the stored host text has no space.
   Consequences: the component clauses, base_ok, alphabet_ok and `sharp` (C05_history_sharp_statement) for EVERY record
   of CReachF, with hypotheses on the host functions only. *)
From RU Require Import Base.Prelude Base.Utf8 Base.Utf8Facts Model.AsciiSet Gen.Tables Model.PercentEncoding
  Model.HostT Model.UrlRecord Model.Parser Model.Setters Model.WF Model.FormUrlencoded Model.QueryPairs
  Proofs.ListN Proofs.C03_WF Proofs.C05_Enc Proofs.C05_Parser Proofs.C05_Setters Proofs.C05_History Proofs.C05_Sharp
  Proofs.C05_Comp Proofs.C05_CompSteps Proofs.C05_CompHist
  Proofs.C06_List Proofs.C06_WFI Proofs.C06_Tail Proofs.C06_Steps Proofs.C06_Suffix Proofs.C06_FragQuery Proofs.C06_Host Proofs.C06_Main
  Proofs.C04_ParseTotal Proofs.C03_ReachParts Proofs.C05_ParseAll Proofs.C05_CompSteps2 Proofs.C05_CompReach Proofs.C05_BaseOk
  Proofs.C05_CompSteps3 Proofs.C05_Alphabet Proofs.C05_AuthOfs Proofs.C05_AuthParse Proofs.C05_HostText Proofs.C15_Ser Proofs.C05_Qpm.

Lemma firstn_S_snoc (l : list N) : forall n x, nth_error l n = Some x -> firstn (S n) l = firstn n l ++ [x].
Proof.
  induction l as [|a l IH]; intros n x H; [destruct n; discriminate|].
  destruct n as [|n]; cbn in H |- *; [inversion H; reflexivity|]. f_equal. exact (IH n x H).
Qed.

Lemma nfirstn_succ_snoc l n x : nnth l n = Some x -> nfirstn (n + 1) l = nfirstn n l ++ [x].
Proof.
  intros H. unfold nfirstn, nnth in *. replace (N.to_nat (n + 1)) with (S (N.to_nat n)) by lia.
  exact (firstn_S_snoc l _ x H).
Qed.

(* "scheme:" lies inside 0x21..0x7E *)
Lemma scheme_colon_ok u : wf_b u = true -> Forall ok_or_space (ser u) -> Forall ok_byte (nfirstn (scheme_end u + 1) (ser u)).
Proof.
  intros W Hoks. destruct (wf_scheme_facts u W) as (_ & Hc & _). apply byte_eqb_nnth in Hc.
  rewrite (nfirstn_succ_snoc _ _ _ Hc). apply Forall_app. split; [|repeat constructor; unfold ok_byte; lia].
  apply nosp_ok; [unfold nfirstn; apply Forall_firstn; exact Hoks|].
  pose proof (scheme_nosp u W) as Hn. unfold piece in Hn. rewrite N.sub_0_r in Hn. exact Hn.
Qed.

Section ReachF.
Variable dbg : bool.
Variable hp hpo : list N -> result host.
Variable hd : host -> list N.

Inductive CReachF : url -> Prop :=
| CRF_parse ovr input u : parse_url dbg hp hpo hd ovr None input = POk u -> CReachF u
| CRF_join ovr b input u : CReachF b -> parse_url dbg hp hpo hd ovr (Some b) input = POk u -> CReachF u
| CRF_step u o u' : CReachF u -> step_gate3 hp hpo hd u o u' -> apply_op dbg hp hpo hd u o = Some u' -> CReachF u'
| CRF_qpm u ops u' : CReachF u -> Forall op_ok ops -> query_pairs_session dbg u ops = Some u' -> CReachF u'.

(* the unrestricted quantifier with query_pairs_mut: C05's Reachable plus sessions with arbitrary operations *)
Inductive ReachableQ : url -> Prop :=
| RQ_parse ovr input u : parse_url dbg hp hpo hd ovr None input = POk u -> ReachableQ u
| RQ_join ovr b input u : ReachableQ b -> parse_url dbg hp hpo hd ovr (Some b) input = POk u -> ReachableQ u
| RQ_step u o u' : ReachableQ u -> op_valid o -> apply_op dbg hp hpo hd u o = Some u' -> ReachableQ u'
| RQ_qpm u ops u' : ReachableQ u -> query_pairs_session dbg u ops = Some u' -> ReachableQ u'.

Theorem reachable_Q u : Reachable dbg hp hpo hd u -> ReachableQ u.
Proof.
  induction 1 as [ovr input u Hp | ovr b input u Rb IHb Hp | u o u' R IH Hv H].
  - exact (RQ_parse ovr input u Hp).
  - exact (RQ_join ovr b input u IHb Hp).
  - exact (RQ_step u o u' IH Hv H).
Qed.

Theorem creachF_Q u : CReachF u -> ReachableQ u.
Proof.
  induction 1 as [ovr input u Hp | ovr b input u Rb IHb Hp | u o u' R IH G H | u ops u' R IH Hops H].
  - exact (RQ_parse ovr input u Hp).
  - exact (RQ_join ovr b input u IHb Hp).
  - exact (RQ_step u o u' IH (step_gate3_valid hp hpo hd u o u' G) H).
  - exact (RQ_qpm u ops u' IH H).
Qed.

Theorem creach3_F u : CReach3 dbg hp hpo hd u -> CReachF u.
Proof.
  induction 1 as [ovr input u Hp | ovr b input u Rb IHb Hb Hp | u o u' R IH G H].
  - exact (CRF_parse ovr input u Hp).
  - exact (CRF_join ovr b input u IHb Hp).
  - exact (CRF_step u o u' IH G H).
Qed.

Hypothesis HW : HostWf hp hpo hd.
Hypothesis HOK : HostOK hp hpo hd.
Hypothesis HI : IpDisp hd.
Hypothesis HV : IpOKv hd.

Definition nosp (s : list N) : Prop := ~ In 32 s.

Definition FInv (u : url) : Prop :=
  CInv dbg u /\ AS u /\ Forall ok_or_space (ser u) /\ HTx nosp u.

Lemma finv_base u : FInv u ->
  CInv dbg u /\ base_ok u = true /\ Forall ok_or_space (ser u) /\ bk u /\ HTx (fun s => ~ In 32 s) u.
Proof.
  intros (K & A & O & Hh). pose proof K as [[W _] _].
  split; [exact K|]. split; [exact (as_base_ok u W A)|]. split; [exact O|]. split; [exact (as_bk u W A) | exact Hh].
Qed.

Lemma finv_parse ovr base input u : match base with Some b => FInv b | None => True end ->
  parse_url dbg hp hpo hd ovr base input = POk u -> FInv u.
Proof.
  intros Hb Hp.
  assert (CInv dbg u) as K.
  { apply (parse_url_cinv dbg dbg hp hpo hd ovr base input u HW); [|exact Hp].
    destruct base as [b|]; [|exact I]. destruct (finv_base b Hb) as (Kb & Bb & _). split; assumption. }
  pose proof K as [[W _] _].
  split; [exact K|]. split; [|split].
  - apply (parse_url_as dbg hp hpo hd ovr base input u); [|exact Hp].
    destruct base as [b|]; [|exact I]. destruct Hb as ([[Wb _] _] & Ab & _). split; assumption.
  - apply (parse_url_okl ok_or_space ok_byte_or_space dbg hp hpo hd ovr HOK base input u (fun _ => ok_or_space_32) Hp).
    destruct base as [b|]; [|exact I]. exact (proj1 (proj2 (proj2 Hb))).
  - apply (parse_url_host_nosp dbg hp hpo hd ovr HOK dbg base input u W); [|exact Hp].
    destruct base as [b|]; [|exact I]. destruct (finv_base b Hb) as (Kb & _ & Ob & Bkb & Hhb). tauto.
Qed.

Lemma finv_step u o u' : FInv u -> step_gate3 hp hpo hd u o u' -> apply_op dbg hp hpo hd u o = Some u' -> FInv u'.
Proof.
  intros (K & A & O & Hh) G H. pose proof K as [[W _] _].
  pose proof (cinv_step3 dbg hp hpo hd HW u o u' HI K G H) as K'.
  destruct (frame_step3 dbg hp hpo hd HW u o u' HI K G H) as [Fs Fh].
  split; [exact K'|]. split; [|split].
  - intros Hs'. pose proof (Fs Hs') as Hs. specialize (A Hs).
    destruct (apply_op_ao dbg hp hpo hd u o u' H A) as [A'|(sty & Est & Hns)]; [exact A'|].
    exfalso. rewrite (u_scheme_type_spb u sty W Est) in Hns. rewrite Hs in Hns. discriminate Hns.
  - exact (apply_op_oks3 dbg hp hpo hd HOK HV u o u' G H O).
  - intros s Hs. destruct Fh as [E|[E|(h & E & _ & Ho)]].
    + rewrite E in Hs. exact (Hh s Hs).
    + rewrite E in Hs. discriminate.
    + rewrite E in Hs. inversion Hs; subst s. apply ok_nosp.
      destruct Ho as [Ho|Ho]; [exact (HV h Ho) | exact (HOK h (origin_st_origin hp hpo _ h Ho))].
Qed.

Lemma finv_qpm u ops u' : FInv u -> Forall op_ok ops -> query_pairs_session dbg u ops = Some u' -> FInv u'.
Proof.
  intros (K & A & O & Hh) Hops H. pose proof K as [[W _] _].
  destruct (qpm_inv dbg u ops u' K O Hops H) as (K' & O' & S & Es & Eh). pose proof K' as [[W' _] _].
  split; [exact K'|]. split; [|split; [exact O'|]].
  - intros Hs'. apply (sf_ao u u' S). apply A. pose proof (spb_same u u' W W' Es) as E. unfold spb in E. rewrite <- E. exact Hs'.
  - intros s Hs. rewrite Eh in Hs. exact (Hh s Hs).
Qed.

Theorem creachF_inv u : CReachF u -> FInv u.
Proof.
  induction 1 as [ovr input u Hp | ovr b input u Rb IHb Hp | u o u' R IH G H | u ops u' R IH Hops H].
  - exact (finv_parse ovr None input u I Hp).
  - exact (finv_parse ovr (Some b) input u IHb Hp).
  - exact (finv_step u o u' IH G H).
  - exact (finv_qpm u ops u' IH Hops H).
Qed.

(* ---------- the consequences ---------- *)
Theorem creachF_components u : CReachF u -> wfh u /\ components_clean dbg u.
Proof.
  intros R. destruct (creachF_inv u R) as ([[W HT] C] & _). split; [split; assumption|].
  exact (comp_ok_components dbg u W C).
Qed.

(* every reached record is a possible base: the join step needs no premise *)
Theorem creachF_base_ok u : CReachF u -> base_ok u = true /\ host_text_ok u.
Proof.
  intros R. destruct (creachF_inv u R) as ([[W HT] _] & A & _). split; [exact (as_base_ok u W A) | exact HT].
Qed.

Theorem creachF_host_nosp u : CReachF u -> has_host u = true -> ~ In 32 (piece u (host_start u) (host_end u)).
Proof.
  intros R Hh. destruct (creachF_inv u R) as ([[W _] _] & _ & _ & Hx). exact (htx_piece nosp u W Hx Hh).
Qed.

(* the first sentence of the property text: only 0x21..0x7E, U+0020 solely inside an opaque path *)
Theorem creachF_alphabet u : CReachF u -> alphabet_ok u.
Proof.
  intros R. destruct (creachF_inv u R) as (K & _ & O & _).
  exact (cinv_alphabet dbg u K O (creachF_host_nosp u R)).
Qed.

Theorem creachF_sharp u : CReachF u -> sharp u.
Proof.
  intros R. destruct (creachF_inv u R) as (K & A & O & _). pose proof K as [[W _] _].
  pose proof (cannot_be_a_base_eval u W) as Ec.
  destruct (byte_eqb (ser u) (scheme_end u + 1) 47) eqn:Esl; cbn [negb] in Ec.
  - left. exact (cinv_hier_ok_byte dbg u K O (creachF_host_nosp u R) Ec).
  - right. split; [exact O|]. split; [exact (scheme_colon_ok u W O)|]. split; [exact Ec|].
    destruct (st_is_special (scheme_type_of (nfirstn (scheme_end u) (ser u)))) eqn:Es; [|reflexivity]. exfalso.
    pose proof (as_bk u W A Es) as Hs. unfold sl1 in Hs. unfold byte_eqb in Esl. rewrite Hs in Esl. discriminate.
Qed.

End ReachF.
