(* Proofs/C09_V6total.v - no panic and no fuel exhaustion of the '['-led branch of Host::parse and
   Host::parse_opaque, hence of both entry points on every input; what the two entry points return on
   '['-led inputs, in terms of the Standard's IPv6 parser. *)
From RU Require Import Base.Prelude Base.Utf8 Model.AsciiSet Gen.Tables Model.PercentEncoding Model.HostT Model.Host
  Spec.WhatwgHost Proofs.C09_V6 Proofs.C09_Wf Proofs.C09_V4spec Proofs.C09_V6spec Proofs.C09_Host Proofs.C09_Reject
  Proofs.C09_V6sim.

(* ------------------------------------------------------------------ totality of the IPv6 literal branch *)

Lemma parse_ipv6addr_no_panic m : no_panic (parse_ipv6addr m).
Proof. rewrite ipv6_parse_spec_bytes. destruct (Spec.ipv6_parse m); exact I. Qed.

Lemma bracketed_no_panic input : no_panic (bracketed input).
Proof.
  unfold bracketed. destruct (negb (ends_with 93 input)); [exact I|].
  pose proof (parse_ipv6addr_no_panic (utf8_encode (removelast (tl input)))) as H.
  destruct (parse_ipv6addr (utf8_encode (removelast (tl input)))); exact H.
Qed.

Theorem total_full : total_statement.
Proof.
  destruct total_partial as [T1 T2]. split.
  - intros idna input. destruct (starts_with 91 input) eqn:E; [|exact (T1 idna input E)].
    unfold host_parse_x. rewrite E. apply bracketed_no_panic.
  - intros input. destruct (starts_with 91 input) eqn:E; [|exact (T2 input E)].
    unfold host_parse_opaque_x. rewrite E. apply bracketed_no_panic.
Qed.

(* ------------------------------------------------------------------ what '['-led inputs return *)

Definition literal_result (input : list N) : result host :=
  if ends_with 93 input then
    match Spec.ipv6_parse (removelast (tl input)) with
    | Some a => Ok (HIpv6 a)
    | None => Err InvalidIpv6Address
    end
  else Err InvalidIpv6Address.

Lemma bracketed_spec input : xr_result (bracketed input) = literal_result input.
Proof.
  unfold bracketed, literal_result. destruct (ends_with 93 input); [|reflexivity]. cbn [negb].
  rewrite ipv6_parse_spec_str. destruct (Spec.ipv6_parse (removelast (tl input))); reflexivity.
Qed.

(* both entry points, every input that starts with '[' (no hypothesis on the IDNA oracle: it is not asked) *)
Theorem literal_spec idna input : starts_with 91 input = true ->
  host_parse idna input = literal_result input /\ host_parse_opaque input = literal_result input.
Proof.
  intros H. unfold host_parse, host_parse_opaque, host_parse_x, host_parse_opaque_x. rewrite H.
  split; apply bracketed_spec.
Qed.

(* "[::1.2.3.4]", "[1::e-acute]" (a non-ASCII code point fails on both sides), "[1:2:3:4:5:6:7:8" *)
Example literal_examples :
  starts_with 91 [91; 58; 58; 49; 46; 50; 46; 51; 46; 52; 93] = true
  /\ literal_result [91; 58; 58; 49; 46; 50; 46; 51; 46; 52; 93] = Ok (HIpv6 [0; 0; 0; 0; 0; 0; 258; 772])
  /\ literal_result [91; 49; 58; 58; 233; 93] = Err InvalidIpv6Address
  /\ parse_ipv6addr (utf8_encode [49; 58; 58; 233]) = XErr InvalidIpv6Address
  /\ literal_result [91; 49; 58; 50; 58; 51; 58; 52; 58; 53; 58; 54; 58; 55; 58; 56] = Err InvalidIpv6Address.
Proof. vm_compute. repeat split. Qed.
