(* Proofs/Idna_C10_Config.v - the deprecated entry point Config::to_ascii (idna/src/deprecated.rs) agrees with
   Uts46::to_ascii: after map_transitional, same verdict and same text, with deny list STD3 / EMPTY, hyphen mode
   CheckFirstLast / Allow, DNS length mode VerifyAllowRootDot / Ignore.  The Passthrough branch of the
   deprecated code returns the characters where to_ascii returns the bytes; they are equal because a borrowed
   result is ASCII (the C10 output theorem, hence the premise NvNoTrunc). *)
From RU Require Import Base.Prelude Base.Utf8 Base.Utf8Facts Base.U32_c13 Gen.Tables Model.Punycode Model.Uts46
  Proofs.Idna_Sim Proofs.Idna_Api Proofs.Idna_Known Proofs.Idna_Hyp Proofs.Idna_Redisc
  Proofs.Idna_C10_Deny Proofs.Idna_C10_Inner Proofs.Idna_C10_Walk.

Lemma utf8_encode1_ascii_inv c : Forall (fun b => b < 128) (utf8_encode1 c) -> utf8_encode1 c = [c].
Proof.
  unfold utf8_encode1. destruct (c <? 128) eqn:E1; [reflexivity|].
  destruct (c <? 2048) eqn:E2.
  { intros H. inversion H as [|? ? _ H1]; subst. inversion H1 as [|? ? Hx _]; subst. lia. }
  destruct (c <? 65536) eqn:E3.
  { intros H. inversion H as [|? ? _ H1]; subst. inversion H1 as [|? ? _ H2]; subst. inversion H2 as [|? ? Hx _]; subst. lia. }
  intros H. inversion H as [|? ? _ H1]; subst. inversion H1 as [|? ? _ H2]; subst. inversion H2 as [|? ? _ H3]; subst.
  inversion H3 as [|? ? Hx _]; subst. lia.
Qed.
Lemma utf8_encode_ascii_inv l : Forall (fun b => b < 128) (utf8_encode l) -> utf8_encode l = l.
Proof.
  induction l as [|c r IH]; [reflexivity|]. unfold utf8_encode in *. cbn [flat_map]. intros H.
  apply Forall_app in H. destruct H as [H1 H2]. rewrite (utf8_encode1_ascii_inv c H1), (IH H2). reflexivity.
Qed.
Lemma utf8_encode_of_ascii (l : list N) : Forall (fun b => b < 128) l -> utf8_encode l = l.
Proof.
  induction 1 as [|b r Hb Hr IH]; [reflexivity|].
  unfold utf8_encode in *. cbn [flat_map]. rewrite IH. unfold utf8_encode1.
  replace (b <? 128) with true by lia. reflexivity.
Qed.
Lemma clean_lt deny l : Forall (clean deny) l -> Forall (fun b => b < 128) l.
Proof. intros H. eapply Forall_impl; [|exact H]. intros c [Hc _]. exact Hc. Qed.
Lemma is_ascii_l_true l : Forall (fun b => b < 128) l -> is_ascii_l l = true.
Proof.
  intros H. unfold is_ascii_l. apply forallb_forall. intros x Hx. rewrite Forall_forall in H.
  specialize (H x Hx). unfold is_ascii_cp. lia.
Qed.

(* map_transitional keeps scalar values *)
Lemma trans_table_usv : Forall (fun e => usv_list (snd e)) T_IDNA_TRANS.
Proof. unfold T_IDNA_TRANS. repeat constructor; unfold is_usv; lia. Qed.
Lemma trans_lookup_usv c t v : Forall (fun e => usv_list (snd e)) t -> trans_lookup c t = Some v -> usv_list v.
Proof.
  induction t as [|[k w] r IH]; intros Ht H; [discriminate|]. inversion Ht as [|? ? Hw Hr]; subst.
  cbn [trans_lookup] in H. destruct (c =? k); [inversion H; subst; exact Hw|exact (IH Hr H)].
Qed.
Lemma trans_char_usv c : is_usv c -> usv_list (trans_char c).
Proof.
  intros Hc. unfold trans_char. destruct (trans_lookup c T_IDNA_TRANS) as [v|] eqn:E.
  - exact (trans_lookup_usv c _ v trans_table_usv E).
  - constructor; [exact Hc|constructor].
Qed.
Lemma flat_trans_usv l : usv_list l -> usv_list (flat_map trans_char l).
Proof.
  induction 1 as [|c r Hc Hr IH]; [constructor|]. cbn [flat_map]. unfold usv_list. apply Forall_app.
  split; [exact (trans_char_usv c Hc)|exact IH].
Qed.
Lemma map_transitional_usv l t : usv_list l -> usv_list (map_transitional l t).
Proof.
  unfold map_transitional. destruct t; [|auto]. induction 1 as [|c r Hc Hr IH]; [constructor|].
  cbn [map_transitional_on]. destruct (trans_lookup c T_IDNA_TRANS).
  - apply flat_trans_usv. constructor; assumption.
  - constructor; assumption.
Qed.

Lemma config_deny_valid c : valid_deny (config_deny_list c).
Proof.
  unfold config_deny_list. destruct (use_std3_ascii_rules c); [left; reflexivity|].
  right. exists T_IDNA_EMPTY_GLYPHLESS, T_IDNA_EMPTY_LIST. reflexivity.
Qed.

Section Config.
Variable A : adapter.
Variable cfg : bool.

(* with sinks that never fail, process never reports a sink error *)
Lemma process_no_sink_error ff p d deny hy w st s a :
  process A cfg ff p d deny hy None None w = (st, s, a) -> st <> PSinkError.
Proof.
  unfold process. destruct (process_inner A cfg ff hy deny d) as [ptu bd he db ap|x]; [|intros H; inversion H; discriminate].
  destruct (ptu =? len d).
  { destruct (cfg && he); intros H; inversion H; discriminate. }
  destruct (ff && he); [intros H; inversion H; discriminate|].
  destruct (cfg && negb (Bool.eqb he (existsb is_fffd db))); [intros H; inversion H; discriminate|].
  destruct (walk1 cfg ff p d _ bd he (split_on DOT db) ap false ptu false false) as [ws we].
  cbn [fst snd run_sink negb].
  destruct we as [|huo|x]; try (intros H; inversion H; discriminate).
  destruct he; [intros H; inversion H; discriminate|].
  destruct (huo && w); [|intros H; inversion H; discriminate].
  destruct (walk2 cfg d false (split_on DOT db) ap false ptu false) as [ws2 we2].
  cbn [fst snd run_sink negb]. destruct we2; intros H; inversion H; discriminate.
Qed.

Theorem config_to_ascii_agrees c domain : NvNoTrunc A -> usv_list domain ->
  config_to_ascii A cfg c domain =
  match to_ascii A cfg (utf8_encode (map_transitional domain (transitional_processing c)))
          (config_deny_list c) (config_hyphens c)
          (if cfg_verify_dns_length c then DVerifyAllowRootDot else DIgnore) with
  | Ok (_, r) => Ok r | Err => Err | Panic p => Panic p end.
Proof.
  intros HN Hu. unfold config_to_ascii, idna_to_ascii.
  set (mapped := map_transitional domain (transitional_processing c)).
  assert (Hbm : bytes (utf8_encode mapped)) by (apply utf8_encode_bytes, map_transitional_usv; exact Hu).
  pose proof (config_deny_valid c) as Hv. destruct (valid_deny_facts _ Hv) as [HU HL].
  pose proof (fun b r => to_ascii_clean A cfg (utf8_encode mapped) (config_deny_list c) (config_hyphens c) DIgnore b r HN Hbm HU HL) as HC.
  unfold to_ascii in *.
  destruct (process A cfg true never_unicode (utf8_encode mapped) (config_deny_list c) (config_hyphens c) None None false)
    as [[st s] a] eqn:Ep.
  pose proof (process_no_sink_error _ _ _ _ _ _ _ _ _ Ep) as Hns.
  destruct st as [| | | |p]; try reflexivity; [| |contradiction Hns; reflexivity].
  - (* Passthrough: the characters are the bytes *)
    cbn [dns_is_ignore negb] in HC. specialize (HC true (utf8_encode mapped) eq_refl).
    pose proof (clean_lt _ _ HC) as Hlt. pose proof (utf8_encode_ascii_inv mapped Hlt) as He.
    rewrite He in *. cbn [app].
    destruct (cfg_verify_dns_length c); [|reflexivity].
    cbn [dns_is_ignore dns_is_root negb]. unfold verify_dns_length_pub.
    rewrite (is_ascii_l_true mapped Hlt). rewrite andb_false_r.
    destruct (verify_dns_length mapped true); reflexivity.
  - (* WroteToSink *)
    cbn [dns_is_ignore negb] in HC. specialize (HC false s eq_refl).
    pose proof (clean_lt _ _ HC) as Hlt. cbn [app].
    destruct (cfg_verify_dns_length c); [|reflexivity].
    cbn [dns_is_ignore dns_is_root negb]. unfold verify_dns_length_pub.
    rewrite (utf8_encode_of_ascii s Hlt).
    rewrite (is_ascii_l_true s Hlt). rewrite andb_false_r.
    destruct (verify_dns_length s true); reflexivity.
Qed.
End Config.

(* ---- the output clause at every entry point ---- *)
Definition out_ok (deny : N) (r : list N) : Prop :=
  Forall (fun c => c < 128 /\ is_upper c = false /\ deny_member deny c = false) r.

Lemma deny_empty_valid : valid_deny DENY_EMPTY.
Proof. right. exists T_IDNA_EMPTY_GLYPHLESS, T_IDNA_EMPTY_LIST. reflexivity. Qed.

Theorem entry_points_output A cfg : NvNoTrunc A ->
  (forall d deny b r, bytes d -> valid_deny deny -> domain_to_ascii_cow A cfg d deny = Ok (b, r) -> out_ok deny r) /\
  (forall s r, usv_list s -> domain_to_ascii A cfg s = Ok r -> out_ok DENY_EMPTY r) /\
  (forall s r, usv_list s -> domain_to_ascii_strict A cfg s = Ok r -> out_ok DENY_STD3 r) /\
  (forall c s r, usv_list s -> config_to_ascii A cfg c s = Ok r -> out_ok (config_deny_list c) r).
Proof.
  intros HN. repeat split.
  - intros d deny b r Hb Hv H. exact (to_ascii_output A cfg d deny HAllow DIgnore b r HN Hb Hv H).
  - intros s r Hs H. unfold domain_to_ascii, domain_to_ascii_cow in H.
    destruct (to_ascii A cfg (utf8_encode s) DENY_EMPTY HAllow DIgnore) as [[b r0]| |p] eqn:E; try discriminate.
    inversion H. subst r0.
    exact (to_ascii_output A cfg _ _ _ _ b r HN (utf8_encode_bytes s Hs) deny_empty_valid E).
  - intros s r Hs H. unfold domain_to_ascii_strict in H.
    destruct (to_ascii A cfg (utf8_encode s) DENY_STD3 HCheck DVerify) as [[b r0]| |p] eqn:E; try discriminate.
    inversion H. subst r0.
    exact (to_ascii_output A cfg _ _ _ _ b r HN (utf8_encode_bytes s Hs) (or_introl eq_refl) E).
  - intros c s r Hs H. rewrite (config_to_ascii_agrees A cfg c s HN Hs) in H.
    match type of H with match ?t with _ => _ end = _ => destruct t as [[b r0]| |p] eqn:E end; try discriminate.
    inversion H. subst r0.
    exact (to_ascii_output A cfg _ _ _ _ b r HN
             (utf8_encode_bytes _ (map_transitional_usv s _ Hs)) (config_deny_valid c) E).
Qed.
