(* Proofs/C15_Bser.v - the urlencoded byte serializer: chunk iterator = per-byte map, alphabet,
   and decode . replace_plus inverts it. *)
From RU Require Import Base.Prelude Base.Utf8 Base.Utf8Facts Base.Outcome_c15 Model.AsciiSet Gen.Tables
  Model.PercentEncoding Model.FormUrlencoded Proofs.C14_Set Proofs.C14_Enc Proofs.C14_Views Proofs.C15_Table
  Proofs.C15_Parse.

(* ---------------------------------------------------------------- the iterator *)
(* table-based per-byte serialization, as the iterator produces it *)
Definition bser1_t (b : N) : list N :=
  if byte_serialized_unchanged b then [b]
  else if b =? T_FORM_SPACE then T_FORM_SPACE_OUT else enc_byte b.
Definition bser_t (bs : list N) : list N := flat_map bser1_t bs.

Lemma bser_t_is_bser bs : bytes bs -> bser_t bs = bser bs.
Proof.
  induction bs as [|b r IH]; intros H; [reflexivity|].
  inversion H as [|? ? Hb Hr]; subst. unfold bser_t, bser. cbn [flat_map].
  unfold bser1_t, bser1. rewrite enc_byte_is_spec by exact Hb. f_equal. apply IH. exact Hr.
Qed.

Lemma bser_t_cons b r : bser_t (b :: r) = bser1_t b ++ bser_t r.
Proof. reflexivity. Qed.

Lemma bser_t_app x y : bser_t (x ++ y) = bser_t x ++ bser_t y.
Proof. unfold bser_t. apply flat_map_app. Qed.

Lemma bser_t_unchanged u : Forall (fun b => negb (byte_serialized_unchanged b) = false) u -> bser_t u = u.
Proof.
  induction u as [|b r IH]; intros H; [reflexivity|].
  inversion H as [|? ? Hb Hr]; subst. rewrite bser_t_cons. unfold bser1_t.
  destruct (byte_serialized_unchanged b); [|discriminate]. cbn [app]. f_equal. apply IH. exact Hr.
Qed.

Lemma position_prefix p l i : position p l = Some i ->
  Forall (fun b => p b = false) (firstn i l) /\ (i < length l)%nat.
Proof.
  revert i. induction l as [|b r IH]; intros i H; cbn [position] in H; [discriminate|].
  destruct (p b) eqn:E.
  - inversion H; subst. cbn [firstn length]. split; [constructor | lia].
  - destruct (position p r) as [j|]; [|discriminate]. inversion H; subst.
    destruct (IH j eq_refl) as [H1 H2]. cbn [firstn length]. split; [constructor; assumption | lia].
Qed.

Lemma enc_byte_nonempty b : b < 256 -> enc_byte b <> [].
Proof. intros Hb. rewrite enc_byte_is_spec by exact Hb. discriminate. Qed.

Lemma bser_next_spec bs c rest : bser_next bs = Some (c, rest) ->
  bser_t bs = c ++ bser_t rest /\ (length rest < length bs)%nat /\ (bytes bs -> c <> [] /\ bytes rest).
Proof.
  destruct bs as [|b r]; cbn [bser_next]; [discriminate|].
  destruct (byte_serialized_unchanged b) eqn:E; cbn [negb].
  - destruct (position (fun b0 => negb (byte_serialized_unchanged b0)) r) as [i|] eqn:Ep.
    + intros H. inversion H; subst. clear H. destruct (position_prefix _ _ _ Ep) as [Hp Hi].
      cbn [plus firstn skipn].
      split; [|split].
      * rewrite <- (firstn_skipn i r) at 1. rewrite bser_t_cons, bser_t_app.
        rewrite (bser_t_unchanged _ Hp). unfold bser1_t. rewrite E. reflexivity.
      * rewrite skipn_length. cbn [length]. lia.
      * intros Hby. split; [discriminate|].
        inversion Hby as [|? ? _ Hr]; subst.
        rewrite <- (firstn_skipn i r) in Hr. apply bytes_app in Hr. tauto.
    + intros H. inversion H; subst. clear H. apply position_none in Ep.
      split; [|split].
      * change (bser_t []) with (@nil N). rewrite app_nil_r.
        rewrite bser_t_cons, (bser_t_unchanged _ Ep). unfold bser1_t. rewrite E. reflexivity.
      * cbn [length]. lia.
      * intros _. split; [discriminate | constructor].
  - intros H. inversion H; subst. clear H.
    split; [|split].
    + rewrite bser_t_cons. unfold bser1_t. rewrite E. reflexivity.
    + cbn [length]. lia.
    + intros Hby. inversion Hby as [|? ? Hb Hr]; subst. split; [|exact Hr].
      destruct (b =? T_FORM_SPACE); [discriminate | apply enc_byte_nonempty; exact Hb].
Qed.

Lemma bser_next_none bs : bser_next bs = None <-> bs = [].
Proof.
  destruct bs as [|b r]; cbn [bser_next]; [tauto|].
  destruct (negb (byte_serialized_unchanged b)); [split; discriminate|].
  destruct (position _ r); split; discriminate.
Qed.

(* with enough fuel the chunk loop terminates normally, and its chunks concatenate to the per-byte map *)
Lemma bser_chunks_f_spec n : forall bs, (length bs < n)%nat ->
  exists cs, bser_chunks_f n bs = Ok cs /\ concat cs = bser_t bs
             /\ (length cs <= length bs)%nat /\ (bs <> [] -> (1 <= length cs)%nat)
             /\ (bytes bs -> Forall (fun c => c <> []) cs).
Proof.
  induction n as [|n IH]; intros bs Hlen; [lia|].
  cbn [bser_chunks_f]. destruct (bser_next bs) as [[c rest]|] eqn:En.
  - destruct (bser_next_spec _ _ _ En) as (H1 & H2 & H3).
    destruct (IH rest ltac:(lia)) as (cs & I1 & I2 & I3 & I4 & I5). rewrite I1. cbn [omap].
    exists (c :: cs). split; [reflexivity|]. cbn [concat length].
    split; [rewrite I2; symmetry; exact H1|]. split; [lia|]. split; [intros _; lia|].
    intros Hby. destruct (H3 Hby) as [Hc Hr]. constructor; [exact Hc | exact (I5 Hr)].
  - apply bser_next_none in En. subst. exists []. cbn. repeat split; try lia; try congruence. constructor.
Qed.

Theorem bser_chunks_ok bs :
  exists cs, bser_chunks bs = Ok cs /\ concat cs = bser_t bs
             /\ (length cs <= length bs)%nat /\ (bs <> [] -> (1 <= length cs)%nat)
             /\ (bytes bs -> Forall (fun c => c <> []) cs).
Proof. unfold bser_chunks. apply bser_chunks_f_spec. lia. Qed.

Lemma extend_chunks_concat cs : forall s, extend_chunks s cs = s ++ concat cs.
Proof.
  unfold extend_chunks. induction cs as [|c r IH]; intros s; cbn [fold_left concat].
  - rewrite app_nil_r. reflexivity.
  - rewrite IH, app_assoc. reflexivity.
Qed.

Theorem bser_size_hint_ok bs cs : bser_chunks bs = Ok cs ->
  let n := N.of_nat (length cs) in
  fst (bser_size_hint bs) <= n /\ match snd (bser_size_hint bs) with Some hi => n <= hi | None => True end.
Proof.
  intros H. destruct (bser_chunks_ok bs) as (cs' & H1 & _ & H3 & H4 & _).
  rewrite H1 in H. inversion H; subst cs'. cbv zeta.
  destruct bs as [|b r].
  - cbn in *. lia.
  - cbn [bser_size_hint fst snd]. specialize (H4 ltac:(discriminate)). lia.
Qed.

(* ---------------------------------------------------------------- alphabet *)
(* [A-Za-z0-9*-._+%] : what a serialized name or value consists of *)
Definition val_alpha (c : N) : bool := unchanged_spec c || (c =? 43) || (c =? 37).
(* [A-Za-z0-9*-._+%&=] : the alphabet of the property *)
Definition form_alpha (c : N) : bool := val_alpha c || (c =? 38) || (c =? 61).

Lemma hex_upper_alnum d : d < 16 -> is_alnum (hex_upper d) = true.
Proof. intros H. unfold is_alnum, is_alpha, is_upper, is_lower, is_digit, hex_upper. destruct (d <? 10) eqn:E; lia. Qed.

Lemma bser1_alpha b : b < 256 -> Forall (fun c => val_alpha c = true) (bser1 b).
Proof.
  intros Hb. unfold bser1. destruct (byte_serialized_unchanged b) eqn:E.
  - constructor; [|constructor]. unfold val_alpha. rewrite <- unchanged_is_spec, E. reflexivity.
  - destruct (b =? 32); [repeat constructor|].
    unfold enc_byte_spec. pose proof (hex_upper_alnum (b / 16) ltac:(lia)) as H1.
    pose proof (hex_upper_alnum (b mod 16) ltac:(lia)) as H2.
    repeat constructor; unfold val_alpha, unchanged_spec; rewrite ?H1, ?H2; reflexivity.
Qed.

Theorem bser_alpha bs : bytes bs -> Forall (fun c => val_alpha c = true) (bser bs).
Proof.
  induction bs as [|b r IH]; intros H; [constructor|].
  inversion H as [|? ? Hb Hr]; subst. unfold bser. cbn [flat_map]. apply Forall_app. split.
  - apply bser1_alpha. exact Hb.
  - apply IH. exact Hr.
Qed.

Lemma val_alpha_not_sep c : val_alpha c = true -> c <> 38 /\ c <> 61.
Proof. unfold val_alpha, unchanged_spec, is_alnum, is_alpha, is_upper, is_lower, is_digit. lia. Qed.

Lemma val_alpha_form c : val_alpha c = true -> form_alpha c = true.
Proof. unfold form_alpha. intros ->. reflexivity. Qed.

Lemma form_alpha_ascii c : form_alpha c = true -> c < 128.
Proof. unfold form_alpha, val_alpha, unchanged_spec, is_alnum, is_alpha, is_upper, is_lower, is_digit. lia. Qed.

Lemma bser_no_amp bs : bytes bs -> Forall (fun c => c <> 38) (bser bs).
Proof. intros H. eapply Forall_impl; [|exact (bser_alpha bs H)]. cbv beta. intros c Hc. apply val_alpha_not_sep in Hc. tauto. Qed.
Lemma bser_no_eq bs : bytes bs -> Forall (fun c => c <> 61) (bser bs).
Proof. intros H. eapply Forall_impl; [|exact (bser_alpha bs H)]. cbv beta. intros c Hc. apply val_alpha_not_sep in Hc. tauto. Qed.

(* ---------------------------------------------------------------- decode . replace_plus inverts bser *)
Lemma unchanged_plain b : byte_serialized_unchanged b = true -> b <> 37 /\ b <> 43.
Proof.
  rewrite unchanged_is_spec. unfold unchanged_spec, is_alnum, is_alpha, is_upper, is_lower, is_digit. lia.
Qed.

Lemma hex_upper_plain d : d < 16 -> hex_upper d <> 43.
Proof. intros H. unfold hex_upper. destruct (d <? 10); lia. Qed.

Lemma bser_inverse bs : bytes bs -> forall rest,
  decode (map plus_to_space (bser bs ++ rest)) = bs ++ decode (map plus_to_space rest).
Proof.
  induction bs as [|b r IH]; intros H rest; [reflexivity|].
  inversion H as [|? ? Hb Hr]; subst. unfold is_byte in Hb.
  unfold bser. cbn [flat_map]. fold (bser r). rewrite <- app_assoc. unfold bser1.
  destruct (byte_serialized_unchanged b) eqn:E.
  - destruct (unchanged_plain b E) as [H37 H43]. cbn [app map].
    rewrite plus_to_space_eq. replace (b =? 43) with false by lia.
    rewrite decode_other by exact H37. cbn [app]. f_equal. apply IH. exact Hr.
  - destruct (N.eqb_spec b 32) as [->|Hne].
    + cbn [app map]. rewrite plus_to_space_eq. cbn [N.eqb]. change (43 =? 43) with true. cbv iota.
      rewrite decode_other by lia. cbn [app]. f_equal. apply IH. exact Hr.
    + unfold enc_byte_spec. cbn [app map]. rewrite !plus_to_space_eq.
      change (37 =? 43) with false. cbv iota.
      pose proof (hex_upper_plain (b / 16) ltac:(lia)) as H1.
      pose proof (hex_upper_plain (b mod 16) ltac:(lia)) as H2.
      replace (hex_upper (b / 16) =? 43) with false by lia.
      replace (hex_upper (b mod 16) =? 43) with false by lia.
      rewrite decode_pct3, after_percent_hex by exact Hb. cbn [app]. f_equal. apply IH. exact Hr.
Qed.

Theorem fdec_bser bs : bytes bs -> fdec (bser bs) = utf8_lossy bs.
Proof.
  intros H. unfold fdec. rewrite <- (app_nil_r (bser bs)), bser_inverse by exact H.
  cbn [map]. rewrite decode_nil, app_nil_r. reflexivity.
Qed.

Lemma bser_nil_iff bs : bser bs = [] <-> bs = [].
Proof.
  split; [|intros ->; reflexivity]. destruct bs as [|b r]; [reflexivity|].
  unfold bser. cbn [flat_map]. unfold bser1.
  destruct (byte_serialized_unchanged b); [discriminate|].
  destruct (b =? 32); discriminate.
Qed.

Lemma utf8_encode_nil_iff s : utf8_encode s = [] <-> s = [].
Proof.
  split; [|intros ->; reflexivity]. destruct s as [|c r]; [reflexivity|].
  unfold utf8_encode. cbn [flat_map]. unfold utf8_encode1.
  destruct (c <? 128); [discriminate|]. destruct (c <? 2048); [discriminate|].
  destruct (c <? 65536); discriminate.
Qed.
