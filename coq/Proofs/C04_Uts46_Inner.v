(* Proofs/C04_Uts46_Inner.v - Uts46::process_inner (the whole label pipeline of idna/src/uts46.rs: ASCII
   fast paths, mapping + normalization, Punycode decoding and re-validation, check_label with ContextJ,
   the bidi rule) reaches NONE of its panic sites, in both configurations and both error modes, for every
   byte input and every adapter whose two normalizer functions return code points below 2^32 other than
   U+200F (AdapterNP: true of ICU4X, where U+200F is disallowed and mapped to U+FFFD; the hypothesis is
   necessary: np_needed).  Sites covered: the Punycode decoder's overflow panics (its input is capped at
   2000 code units), 1275 (`last().unwrap()` on "xn--..."), 1618 (index at the encoder cap), 1590
   (debug_assert_eq!(c, ZWNJ) in ContextJ), 1650 (debug_assert_ne!(c, RLM) in is_bidi).
   The invariant: every code point of domain_buffer is below 2^32 and is not U+200F. *)
From RU Require Import Base.Prelude Base.Utf8 Base.U32_c13 Gen.Tables Model.Punycode Model.Uts46
  Proofs.C13_Known Proofs.C13_Main.

Definition okc (c : N) : Prop := c < U32_MOD /\ c <> 8207.
Record AdapterNP (A : adapter) : Prop := {
  np_map : forall l, Forall okc (map_normalize A l);
  np_norm : forall l, Forall okc (normalize_validate A l) }.

Lemma okc_fffd : okc FFFD.
Proof. unfold okc, FFFD, REPLACEMENT, U32_MOD. split; [lia | discriminate]. Qed.
Lemma okc_byte b : b < 256 -> okc b.
Proof. unfold okc, U32_MOD. lia. Qed.

(* ---------- Forall and the list helpers of the model ---------- *)
Lemma Forall_firstn {P : N -> Prop} n l : Forall P l -> Forall P (firstn n l).
Proof. revert n. induction l as [|x r IH]; intros [|n] H; cbn; try constructor; inversion H; subst; auto. Qed.
Lemma Forall_skipn {P : N -> Prop} n l : Forall P l -> Forall P (skipn n l).
Proof. revert n. induction l as [|x r IH]; intros [|n] H; cbn; auto. inversion H; subst; auto. Qed.
Lemma Forall_set_nth {P : N -> Prop} n v l : P v -> Forall P l -> Forall P (set_nth n v l).
Proof. intros Hv. revert n. induction l as [|x r IH]; intros n H; destruct n; cbn; try constructor; inversion H; subst; auto. Qed.
Lemma Forall_set_last {P : N -> Prop} v l : P v -> Forall P l -> Forall P (set_last v l).
Proof.
  intros Hv. induction l as [|x r IH]; intros H; cbn [set_last]; [constructor|]. inversion H; subst.
  destruct r as [|y r']; [constructor; [exact Hv | constructor] | constructor; [assumption | apply IH; assumption]].
Qed.
Lemma Forall_tl {P : N -> Prop} l : Forall P l -> Forall P (tl l).
Proof. destruct l; cbn; intros H; [constructor | inversion H; assumption]. Qed.
Lemma Forall_split1 {P : N -> Prop} sep l : Forall P l ->
  Forall P (fst (split1 sep l)) /\ Forall (Forall P) (snd (split1 sep l)).
Proof.
  induction l as [|x r IH]; intros H; cbn [split1]; [split; constructor|]. inversion H; subst.
  destruct (IH H3) as [I1 I2]. destruct (split1 sep r) as [h t]. cbn [fst snd] in *.
  destruct (x =? sep); cbn [fst snd]; split; auto.
Qed.
Lemma Forall_split_on {P : N -> Prop} sep l : Forall P l -> Forall (Forall P) (split_on sep l).
Proof. intros H. unfold split_on. destruct (Forall_split1 sep l H) as [I1 I2]. destruct (split1 sep l). constructor; assumption. Qed.
Lemma Forall_join_dots {P : N -> Prop} ls : P DOT -> Forall (Forall P) ls -> Forall P (join_dots ls).
Proof.
  intros Hd. induction ls as [|l r IH]; intros H; cbn [join_dots]; [constructor|]. inversion H; subst.
  destruct r as [|l2 r']; [assumption|]. apply Forall_app. split; [assumption|]. constructor; [exact Hd | apply IH; assumption].
Qed.
Lemma Forall_rev' {P : N -> Prop} l : Forall P l -> Forall P (rev l).
Proof. intros H. apply Forall_forall. intros x Hx. apply in_rev in Hx. revert x Hx. apply Forall_forall. exact H. Qed.
Lemma len_skipn n (l : list N) : len (skipn n l) = len l - N.of_nat n.
Proof. unfold len. rewrite skipn_length. lia. Qed.

Lemma last_opt_cons (l : list N) : forall x, exists y, last_opt (x :: l) = Some y.
Proof.
  induction l as [|z r IH]; intros x; [exists x; reflexivity|]. destruct (IH z) as [y Ey]. exists y.
  change (last_opt (x :: z :: r)) with (last_opt (z :: r)). exact Ey.
Qed.

(* ---------- steps that do not panic and keep a property of the result ---------- *)
Definition sok {X : Type} (P : X -> Prop) (r : step X) : Prop :=
  match r with SOk x => P x | SExit => True | SPanic _ => False end.
Lemma sok_bind {X Y} (P : X -> Prop) (Q : Y -> Prop) r (k : X -> step Y) :
  sok P r -> (forall x, P x -> sok Q (k x)) -> sok Q (sbind r k).
Proof. destruct r as [x| |s]; cbn [sok sbind]; auto. Qed.
Lemma sok_np {X} (P : X -> Prop) r : sok P r -> forall s, r <> SPanic s.
Proof. destruct r; cbn [sok]; intros H s; [discriminate | discriminate | contradiction]. Qed.

Definition PL (x : list N * bool) : Prop := Forall okc (fst x).
Definition PT (x : list N * bool * list aal) : Prop := Forall okc (fst (fst x)).

Lemma sok_lcons c r : okc c -> sok PL r -> sok PL (lcons c r).
Proof. intros Hc. destruct r as [[l h]| |s]; cbn [sok lcons PL fst]; intros H; [constructor; assumption | exact I | exact H]. Qed.

Lemma scan_mark_ok ff bad l : forall he, Forall okc l -> sok PL (scan_mark ff bad l he).
Proof.
  induction l as [|c r IH]; intros he H; cbn [scan_mark]; [constructor|]. inversion H; subst.
  destruct (bad c); [destruct ff; [exact I | apply sok_lcons; [exact okc_fffd | apply IH; assumption]]|].
  apply sok_lcons; [assumption | apply IH; assumption].
Qed.

Lemma check_hyphens_ok ff a lab he : Forall okc lab -> sok PL (check_hyphens ff a lab he).
Proof.
  intros H. unfold check_hyphens.
  apply (sok_bind PL).
  { destruct lab as [|first r]; [exact H|]. inversion H; subst.
    destruct (first =? HYPHEN); [destruct ff; [exact I | constructor; [exact okc_fffd | assumption]] | exact H]. }
  intros [lab1 he1] H1. unfold PL in H1. cbn [fst] in H1.
  apply (sok_bind PL).
  { destruct (last_opt lab1) as [l|]; [|exact H1].
    destruct (l =? HYPHEN); [destruct ff; [exact I | apply Forall_set_last; [exact okc_fffd | exact H1]] | exact H1]. }
  intros [lab2 he2] H2. unfold PL in H2. cbn [fst] in H2.
  destruct a; [exact H2|].
  destruct ((4 <=? len lab2) && (nth 2 lab2 0 =? HYPHEN) && (nth 3 lab2 0 =? HYPHEN)); [|exact H2].
  destruct ff; [exact I|]. cbn [sok PL fst]. apply Forall_set_nth; [exact okc_fffd|]. apply Forall_set_nth; [exact okc_fffd | exact H2].
Qed.

(* a joiner below 2^32 is ZWNJ or ZWJ *)
Lemma joiner_cases c : c < U32_MOD -> in_inclusive_range32 c T_IDNA_JOINER_LO T_IDNA_JOINER_HI = true ->
  c = 8204 \/ c = 8205.
Proof.
  unfold in_inclusive_range32, T_IDNA_JOINER_LO, T_IDNA_JOINER_HI, U32_MOD. intros Hc H.
  destruct (N.lt_ge_cases c 8204) as [L|L].
  - rewrite N.mod_small in H by lia. lia.
  - replace (c + 4294967296 - 8204) with ((c - 8204) + 1 * 4294967296) in H by lia.
    rewrite N.mod_add in H by discriminate. rewrite N.mod_small in H by lia. lia.
Qed.

Section WithAdapter.
Variable A : adapter.
Variable cfg : bool.
Hypothesis HA : AdapterNP A.

Lemma contextj_ok ff rest : forall rhead he, Forall okc rhead -> Forall okc rest -> sok PL (contextj A cfg ff rhead rest he).
Proof using.
  induction rest as [|c tail IH]; intros rhead he Hh Hr; cbn [contextj].
  - cbn [sok PL fst]. apply Forall_rev'. exact Hh.
  - inversion Hr; subst.
    assert (forall he', sok PL (contextj A cfg ff (c :: rhead) tail he')) as Hkeep by (intros; apply IH; [constructor|]; assumption).
    assert (forall he', sok PL (if ff then SExit else contextj A cfg ff (FFFD :: rhead) tail he')) as Hmark.
    { intros. destruct ff; [exact I|]. apply IH; [constructor; [exact okc_fffd | assumption] | assumption]. }
    destruct (negb (in_inclusive_range32 c T_IDNA_JOINER_LO T_IDNA_JOINER_HI)) eqn:Ej; [apply Hkeep|].
    apply negb_false_iff in Ej. destruct H1 as [Hc _]. destruct (joiner_cases c Hc Ej) as [-> | ->].
    + destruct rhead as [|previous rh]; [apply Hmark|].
      destruct (is_virama A previous); [apply Hkeep|]. change (8204 =? 8205) with false. cbv iota.
      change (8204 =? 8204) with true. cbn [negb]. rewrite andb_false_r.
      destruct (negb (has_appropriately_joining_char A false (previous :: rh)) || negb (has_appropriately_joining_char A true tail));
        [apply Hmark | apply Hkeep].
    + destruct rhead as [|previous rh]; [apply Hmark|].
      destruct (is_virama A previous); [apply Hkeep|]. change (8205 =? 8205) with true. cbv iota. apply Hmark.
Qed.

Lemma check_label_ok ff hy lab he fcm ncj : Forall okc lab -> sok PL (check_label A cfg ff hy lab he fcm ncj).
Proof using.
  intros H. unfold check_label.
  apply (sok_bind PL).
  { destruct (negb (hy_is_allow hy)); [apply check_hyphens_ok; exact H | exact H]. }
  intros [lab1 he1] H1. unfold PL in H1. cbn [fst] in H1.
  apply (sok_bind PL).
  { destruct fcm; [|exact H1]. destruct lab1 as [|first r]; [exact H1|]. inversion H1; subst.
    destruct (is_mark A first); [destruct ff; [exact I | constructor; [exact okc_fffd | assumption]] | exact H1]. }
  intros [lab2 he2] H2. unfold PL in H2. cbn [fst] in H2.
  apply (sok_bind PL).
  { destruct ncj; [apply contextj_ok; [constructor | exact H2] | exact H2]. }
  intros [lab3 he3] H3. unfold PL in H3. cbn [fst] in H3.
  destruct (negb (is_ascii_l lab3) && (PUNYCODE_ENCODE_MAX_INPUT_LENGTH <? len lab3)) eqn:E; [|exact H3].
  destruct ff; [exact I|]. apply andb_true_iff in E. destruct E as [_ E].
  replace (len lab3 <=? PUNYCODE_ENCODE_MAX_INPUT_LENGTH) with false by lia.
  cbn [sok PL fst]. apply Forall_set_nth; [exact okc_fffd | exact H3].
Qed.

Lemma zip_mark_ok norm : forall dec m, Forall okc norm -> zip_mark norm dec = Some m -> Forall okc m.
Proof using.
  induction norm as [|n nr IH]; intros dec m H E; cbn [zip_mark] in E; [discriminate|].
  destruct dec as [|d dr]; [discriminate|]. inversion H; subst.
  destruct (n =? d).
  - destruct (zip_mark nr dr) as [m'|] eqn:Ez; cbn [option_map] in E; [|discriminate]. inversion E; subst.
    constructor; [assumption | eapply IH; eassumption].
  - inversion E; subst. constructor; [exact okc_fffd | assumption].
Qed.

Lemma apply_lower_ok deny c : okc c -> okc (apply_lower deny c).
Proof using. intros H. unfold apply_lower. destruct (c <? 128); [destruct (N.land deny (N.shiftl 1 c) =? 0); [exact H | exact okc_fffd] | exact H]. Qed.
Lemma apply_upper_ok deny b : b < 256 -> okc (apply_upper deny b).
Proof using.
  intros H. unfold apply_upper. destruct (N.land deny (N.shiftl 1 b) =? 0); [apply okc_byte; exact H|].
  destruct (in_inclusive_range8 b 65 90); [unfold okc, U32_MOD; lia | exact okc_fffd].
Qed.
Lemma Forall_map_ok {P Q : N -> Prop} (f : N -> N) l : (forall x, P x -> Q (f x)) -> Forall P l -> Forall Q (map f l).
Proof using. intros Hf H. induction H; cbn; constructor; auto. Qed.

Lemma after_punycode_decode_ok ff dd lb he : sok PL (after_punycode_decode A ff dd lb he).
Proof using HA.
  unfold after_punycode_decode. apply (sok_bind PL).
  { apply scan_mark_ok. apply (Forall_map_ok (P := okc)); [apply apply_lower_ok | apply (np_norm A HA)]. }
  intros [normalized he1] H1. unfold PL in H1. cbn [fst] in H1.
  destruct (zip_mark normalized lb) as [m|] eqn:Ez; [|exact H1].
  destruct ff; [exact I|]. cbn [sok PL fst]. eapply zip_mark_ok; eassumption.
Qed.

Lemma decode_capped it p : len p <= PUNYCODE_DECODE_MAX_INPUT_LENGTH -> forall s, decode_with cfg it p <> Panic s.
Proof using.
  intros H. apply internal_decoder_no_panic. unfold Known_C13_2, C13_Enc.len. unfold len in H.
  unfold PUNYCODE_DECODE_MAX_INPUT_LENGTH, T_IDNA_DECODE_MAX in H. unfold U32_MAX. lia.
Qed.

Lemma starts_with_xn cur : starts_with cur XN_PREFIX = true -> exists a b c d r, cur = a :: b :: c :: d :: r.
Proof using.
  unfold XN_PREFIX. destruct cur as [|a [|b [|c [|d r]]]]; cbn [starts_with]; rewrite ?andb_false_r; try discriminate.
  intros _. exists a, b, c, d, r. reflexivity.
Qed.

Lemma end_sublabel_ok ff hy dd cur he fcm ncj : Forall okc cur -> sok PL (end_sublabel A cfg ff hy dd cur he fcm ncj).
Proof using HA.
  intros H. unfold end_sublabel. destruct (starts_with cur XN_PREFIX) eqn:Ex; [|apply check_label_ok; exact H].
  destruct (starts_with_xn cur Ex) as (a & b & c & d & r & ->). clear Ex.
  change (skipn 4 (a :: b :: c :: d :: r)) with r. change (firstn 4 (a :: b :: c :: d :: r)) with [a; b; c; d].
  assert (Forall okc [a; b; c; d] /\ Forall okc r) as [H4 Hr].
  { inversion H as [|? ? Ha H']; subst. inversion H' as [|? ? Hb H'']; subst. inversion H'' as [|? ? Hc H''']; subst.
    inversion H''' as [|? ? Hd Hr]; subst. split; [repeat (apply Forall_cons; [assumption|]); apply Forall_nil | exact Hr]. }
  apply (sok_bind PL); [apply scan_mark_ok; exact Hr|].
  intros [t he1] Ht. unfold PL in Ht. cbn [fst] in Ht.
  set (cur1 := [a; b; c; d] ++ t).
  assert (Forall okc cur1) as Hc1 by (apply Forall_app; split; assumption).
  assert (exists l, last_opt cur1 = Some l) as [l El] by (subst cur1; cbn [app]; apply last_opt_cons).
  rewrite El.
  set (P3 := fun x : list N * bool * bool => Forall okc (fst (fst x))).
  apply (sok_bind P3).
  { destruct (l =? HYPHEN); [destruct ff; [exact I | cbn [sok]; unfold P3; cbn [fst]; apply Forall_set_last; [exact okc_fffd | exact Hc1]] | exact Hc1]. }
  intros [[cur2 he2] ppf2] H2. unfold P3 in H2. cbn [fst] in H2.
  apply (sok_bind (fun x : list N * bool * bool => Forall okc (fst (fst x))
                     /\ (snd x = false -> len (fst (fst x)) - 4 <= PUNYCODE_DECODE_MAX_INPUT_LENGTH))).
  { destruct (PUNYCODE_DECODE_MAX_INPUT_LENGTH <? len cur2 - 4) eqn:El2.
    - destruct ff; [exact I|]. cbn [sok fst snd]. split; [apply Forall_set_nth; [exact okc_fffd | exact H2] | discriminate].
    - cbn [sok fst snd]. split; [exact H2 | intros _; lia]. }
  intros [[cur3 he3] ppf3] [H3 L3]. cbn [fst snd] in H3, L3.
  destruct ppf3; cbn [negb]; [apply check_label_ok; exact H3|].
  pose proof (decode_capped CharInternal (skipn 4 cur3)) as Hd. rewrite len_skipn in Hd. specialize (Hd (L3 eq_refl)).
  destruct (decode_with cfg CharInternal (skipn 4 cur3)) as [decoded| |s].
  - apply (sok_bind PL); [apply after_punycode_decode_ok|]. intros [cur4 he4] H4'. apply check_label_ok. exact H4'.
  - destruct ff; [exact I|]. apply check_label_ok. apply Forall_set_nth; [exact okc_fffd | exact H3].
  - exfalso. exact (Hd s eq_refl).
Qed.

Lemma sublabels_ok ff hy dd rest : forall s db cur he ap fcm ncj,
  Forall okc s -> Forall (Forall okc) rest -> Forall okc db -> Forall okc cur ->
  sok PT (sublabels A cfg ff hy dd s rest db cur he ap fcm ncj).
Proof using HA.
  induction rest as [|s2 rest' IH]; intros s db cur he ap fcm ncj Hs Hrest Hdb Hcur; cbn [sublabels].
  - apply (sok_bind PL); [apply scan_mark_ok; exact Hs|]. intros [s' he1] H1. unfold PL in H1. cbn [fst] in H1.
    apply (sok_bind PL); [apply end_sublabel_ok; apply Forall_app; split; assumption|].
    intros [lab he2] H2. unfold PL in H2. cbn [fst] in H2. cbn [sok PT fst]. apply Forall_app; split; assumption.
  - inversion Hrest; subst.
    apply (sok_bind PL); [apply scan_mark_ok; exact Hs|]. intros [s' he1] H1'. unfold PL in H1'. cbn [fst] in H1'.
    apply (sok_bind PL); [apply end_sublabel_ok; apply Forall_app; split; assumption|].
    intros [lab he2] H2'. unfold PL in H2'. cbn [fst] in H2'.
    apply IH; try assumption; [|constructor].
    apply Forall_app; split; [assumption|]. apply Forall_app; split; [assumption|]. constructor; [apply okc_byte; unfold DOT; lia | constructor].
Qed.

Lemma split_ascii_bytes label : Forall (fun b => b < 256) label ->
  Forall (fun b => b < 256) (fst (split_ascii_fast_path_prefix label)).
Proof using.
  intros H. unfold split_ascii_fast_path_prefix. destruct (position (fun b => negb (is_ascii_cp b)) label) as [[|p]|]; cbn [fst];
    [constructor | apply Forall_firstn; exact H | exact H].
Qed.

Lemma label_nonempty_ok ff hy deny label db he ap : Forall (fun b => b < 256) label -> Forall okc db ->
  sok PT (label_nonempty A cfg ff hy deny label db he ap).
Proof using HA.
  intros Hl Hdb. unfold label_nonempty.
  pose proof (split_ascii_bytes label Hl) as Hasc.
  destruct (split_ascii_fast_path_prefix label) as [ascii non_ascii]. cbn [fst] in Hasc.
  assert (Forall okc (map (apply_upper deny) ascii)) as Hup.
  { apply (Forall_map_ok (P := fun b => b < 256)); [apply apply_upper_ok | exact Hasc]. }
  (* the general arm *)
  assert (forall npal, sok PT
    (sbind (scan_mark ff is_fffd (map (apply_upper deny) ascii) he) (fun x => let (cur, he) := x in
     if (npal : bool) then
       sbind (if negb (hy_is_allow hy) then check_hyphens ff (hy_is_cfl hy) cur he else SOk (cur, he))
         (fun x => let (cur, he) := x in
       SOk (db ++ cur, he, ap ++ [if he then AalOther else MixedCaseAscii label]))
     else
       let mapping := map (apply_lower deny) (map_normalize A (utf8_lossy non_ascii)) in
       let (s, rest) := split1 DOT mapping in
       sublabels A cfg ff hy (N.lor deny DOT_MASK) s rest db cur he (ap ++ [AalOther])
                 (match ascii with [] => true | _ => false end)
                 (match non_ascii with [] => false | _ => true end)))) as Hcomplex.
  { intros npal. apply (sok_bind PL); [apply scan_mark_ok; exact Hup|].
    intros [cur he1] H1. unfold PL in H1. cbn [fst] in H1. destruct npal.
    - apply (sok_bind PL).
      { destruct (negb (hy_is_allow hy)); [apply check_hyphens_ok; exact H1 | exact H1]. }
      intros [cur2 he2] H2. unfold PL in H2. cbn [fst] in H2. cbn [sok PT fst]. apply Forall_app; split; assumption.
    - cbv zeta.
      assert (Forall okc (map (apply_lower deny) (map_normalize A (utf8_lossy non_ascii)))) as Hm.
      { apply (Forall_map_ok (P := okc)); [apply apply_lower_ok | apply (np_map A HA)]. }
      destruct (Forall_split1 DOT _ Hm) as [S1 S2].
      destruct (split1 DOT (map (apply_lower deny) (map_normalize A (utf8_lossy non_ascii)))) as [s rest]. cbn [fst snd] in S1, S2.
      apply sublabels_ok; assumption. }
  destruct non_ascii as [|na nar]; [|apply (Hcomplex false)].
  destruct (has_punycode_prefix ascii); [|apply (Hcomplex true)].
  destruct (negb (match last_opt ascii with Some l => l =? HYPHEN | None => false end)
            && (len ascii - 4 <=? PUNYCODE_DECODE_MAX_INPUT_LENGTH)) eqn:Eg.
  - apply andb_true_iff in Eg. destruct Eg as [_ Eg].
    pose proof (decode_capped U8Internal (skipn 4 ascii)) as Hd. rewrite len_skipn in Hd. specialize (Hd ltac:(lia)).
    destruct (decode_with cfg U8Internal (skipn 4 ascii)) as [decoded| |s].
    + apply (sok_bind PL); [apply after_punycode_decode_ok|]. intros [cur he1] H1.
      apply (sok_bind PL); [apply check_label_ok; exact H1|]. intros [cur2 he2] H2. unfold PL in H2. cbn [fst] in H2.
      cbn [sok PT fst]. apply Forall_app; split; assumption.
    + destruct ff; [exact I|]. cbn [sok PT fst]. apply Forall_app; split; [assumption|].
      constructor; [exact okc_fffd|]. apply (Forall_map_ok (P := fun b => b < 256)); [apply apply_upper_ok | apply Forall_tl; exact Hasc].
    + exfalso. exact (Hd s eq_refl).
  - destruct ff; [exact I | apply (Hcomplex false)].
Qed.

Definition PS (s : ist) : Prop := Forall okc (i_db s).

Lemma label_step_ok ff hy deny label s : Forall (fun b => b < 256) label -> PS s -> sok PS (label_step A cfg ff hy deny label s).
Proof using HA.
  intros Hl Hs. unfold label_step. destruct (i_inpre s && is_passthrough_ascii_label label); [exact Hs|].
  assert (Forall okc (if i_seen s && negb (i_inpre s) then i_db s ++ [DOT] else i_db s)) as Hdb.
  { destruct (i_seen s && negb (i_inpre s)); [|exact Hs]. apply Forall_app; split; [exact Hs|].
    constructor; [apply okc_byte; unfold DOT; lia | constructor]. }
  destruct label as [|b r]; [exact Hdb|].
  apply (sok_bind PT); [apply label_nonempty_ok; assumption|].
  intros [[db he] ap] H. exact H.
Qed.

Lemma labels_loop_ok ff hy deny labels : forall s, Forall (Forall (fun b => b < 256)) labels -> PS s ->
  sok PS (labels_loop A cfg ff hy deny labels s).
Proof using HA.
  induction labels as [|l r IH]; intros s Hl Hs; cbn [labels_loop]; [exact Hs|]. inversion Hl; subst.
  apply (sok_bind PS); [apply label_step_ok; assumption|]. intros s' Hs'. apply IH; assumption.
Qed.

(* ---- the bidi rule has no panic site besides is_bidi's ---- *)
Lemma is_bidi_ok buffer : Forall okc buffer -> exists b, is_bidi A cfg buffer = Ok b.
Proof using.
  induction buffer as [|c r IH]; intros H; cbn [is_bidi]; [exists false; reflexivity|]. inversion H; subst.
  specialize (IH H3). destruct H2 as [_ Hne].
  destruct (c <? T_IDNA_BIDI_BELOW); [exact IH|].
  unfold T_IDNA_BIDI_SKIP.
  assert ((c =? 8207) = false) as E by (apply N.eqb_neq; exact Hne). rewrite E, andb_false_r.
  destruct (in_inclusive_range32 c 2304 64284); [exact IH|].
  destruct (existsb _ _); [exact IH|].
  destruct (bc_rtl (bidi_class A c)); [exists true; reflexivity | exact IH].
Qed.

Lemma cons3_np c r : (forall s, r <> SPanic s) -> forall s, cons3 c r <> SPanic s.
Proof using. destruct r as [[[l h] n]| |s0]; cbn [cons3]; intros H s; try discriminate. exfalso. exact (H s0 eq_refl). Qed.
Lemma rtl_middle_np ff prior : forall ns he s, rtl_middle A ff prior ns he <> SPanic s.
Proof using.
  induction prior as [|c r IH]; intros ns he s; cbn [rtl_middle]; [discriminate|].
  destruct (negb (bc_mid_rtl (bidi_class A c))); [destruct ff; [discriminate | apply cons3_np; intros; apply IH]|].
  destruct ns.
  - apply cons3_np; intros; apply IH.
  - destruct (bc_an (bidi_class A c)); [destruct ff; [discriminate|]|]; apply cons3_np; intros; apply IH.
  - destruct (bc_en (bidi_class A c)); [destruct ff; [discriminate|]|]; apply cons3_np; intros; apply IH.
Qed.
Lemma lcons_np c r : (forall s, r <> SPanic s) -> forall s, lcons c r <> SPanic s.
Proof using. destruct r as [[l h]| |s0]; cbn [lcons]; intros H s; try discriminate. exfalso. exact (H s0 eq_refl). Qed.
Lemma scan_mark_np ff bad l : forall he s, scan_mark ff bad l he <> SPanic s.
Proof using.
  induction l as [|c r IH]; intros he s; cbn [scan_mark]; [discriminate|].
  destruct (bad c); [destruct ff; [discriminate | apply lcons_np; intros; apply IH] | apply lcons_np; intros; apply IH].
Qed.
Lemma bidi_label_np ff label he s : bidi_label A ff label he <> SPanic s.
Proof using.
  unfold bidi_label. destruct label as [|first tail]; [discriminate|].
  destruct (trim_nsm A tail) as [[[prior last] nsms]|].
  all: repeat first
    [ discriminate
    | match goal with
      | |- sbind (SOk _) _ <> _ => cbn [sbind]
      | |- sbind SExit _ <> _ => cbn [sbind]
      | |- sbind (scan_mark ?f ?b ?l ?h) _ <> _ =>
          let Hn := fresh "Hn" in
          pose proof (scan_mark_np f b l h) as Hn; destruct (scan_mark f b l h) as [[? ?]| |?]; cbn [sbind];
          [| discriminate | exfalso; eapply Hn; reflexivity]
      | |- sbind (rtl_middle A ?f ?p ?n ?h) _ <> _ =>
          let Hn := fresh "Hn" in
          pose proof (rtl_middle_np f p n h) as Hn; destruct (rtl_middle A f p n h) as [[[? ?] ?]| |?]; cbn [sbind];
          [| discriminate | exfalso; eapply Hn; reflexivity]
      | |- sbind (if ?c then _ else _) _ <> _ => destruct c
      | |- (if ?c then _ else _) <> _ => destruct c
      | |- (match ?c with Undecided => _ | European => _ | Arabic => _ end) <> _ => destruct c
      end ].
Qed.
Lemma bidi_labels_np ff labels : forall he s, bidi_labels A ff labels he <> SPanic s.
Proof using.
  induction labels as [|l r IH]; intros he s; cbn [bidi_labels]; [discriminate|].
  pose proof (bidi_label_np ff l he) as Hn. destruct (bidi_label A ff l he) as [[l' he1]| |s0]; cbn [sbind];
    [|discriminate | exfalso; exact (Hn s0 eq_refl)].
  specialize (IH he1). destruct (bidi_labels A ff r he1) as [[r' he2]| |s0]; cbn [sbind];
    [discriminate | discriminate | exfalso; exact (IH s0 eq_refl)].
Qed.

Theorem process_innermost_np ff hy deny d tail : Forall (fun b => b < 256) tail ->
  forall s, process_innermost A cfg ff hy deny d tail <> IPanic s.
Proof using HA.
  intros Ht s. unfold process_innermost.
  set (s0 := {| i_ptu := len d - len tail; i_seen := false; i_inpre := true; i_db := []; i_he := false; i_ap := [] |}).
  pose proof (labels_loop_ok ff hy deny (split_on DOT tail) s0 (Forall_split_on DOT tail Ht) ltac:(constructor)) as Hl.
  destruct (labels_loop A cfg ff hy deny (split_on DOT tail) s0) as [st| |s1]; cbn [sok] in Hl; [|discriminate | contradiction].
  destruct (is_bidi_ok (i_db st) Hl) as [b Eb]. rewrite Eb. destruct b; [|discriminate].
  pose proof (bidi_labels_np ff (split_on DOT (i_db st)) (i_he st)) as Hn.
  destruct (bidi_labels A ff (split_on DOT (i_db st)) (i_he st)) as [[ls he]| |s1]; [discriminate | discriminate|].
  exfalso. exact (Hn s1 eq_refl).
Qed.

Lemma fast_tier_suffix iter : forall mrls t, Forall (fun b => b < 256) mrls -> Forall (fun b => b < 256) iter ->
  fast_tier iter mrls = Some t -> Forall (fun b => b < 256) t.
Proof using.
  induction iter as [|b r IH]; intros mrls t Hm Hi E; cbn [fast_tier] in E; [discriminate|]. inversion Hi as [|? ? Hb Hr]; subst.
  destruct (in_inclusive_range8 b 97 122); [exact (IH mrls t Hm Hr E)|].
  destruct (b =? DOT); [exact (IH r t Hr Hr E)|]. inversion E; subst. exact Hm.
Qed.

Theorem process_inner_np ff hy deny d : Forall (fun b => b < 256) d -> forall s, process_inner A cfg ff hy deny d <> IPanic s.
Proof using HA.
  intros Hd s. unfold process_inner. destruct (fast_tier d d) as [tail|] eqn:E; [|discriminate].
  apply process_innermost_np. eapply fast_tier_suffix; [exact Hd | exact Hd | exact E].
Qed.
End WithAdapter.

(* the hypothesis is needed: with the identity adapter U+200F reaches is_bidi and fails its debug assertion *)
Definition id_adapter : adapter :=
  {| map_normalize := fun l => l; normalize_validate := fun l => l; joining_type := fun _ => 0; bidi_class := fun _ => 0;
     is_mark := fun _ => false; is_virama := fun _ => false |}.
Lemma np_needed : process_inner id_adapter true false HAllow DENY_EMPTY [226; 128; 143] = IPanic 1650.
Proof. vm_compute. reflexivity. Qed.
