(* Proofs/C17_Total.v - no byte-indexed slice of the data: URL header processing can panic on the
   UTF-8 encoding of a string: every slice index is the index of an ASCII byte, or the index just
   after one, and in valid UTF-8 the byte after an ASCII byte starts a character. *)
From RU Require Import Base.Prelude Base.Utf8 Base.Utf8Facts Model.AsciiSet Gen.Tables Model.Mime Model.Base64 Model.DataUrl
  Proofs.C19_Pure Proofs.C17_Tables.

(* ---- the fact about valid UTF-8 that is needed ---- *)
Fixpoint after_ascii_ok (l : list N) : Prop :=
  match l with
  | [] => True
  | a :: r => (a < 128 -> match r with [] => True | b :: _ => is_utf8_char_boundary b = true end)
              /\ after_ascii_ok r
  end.

Lemma after_ascii_ok_app_r p m : after_ascii_ok (p ++ m) -> after_ascii_ok m.
Proof. induction p as [|a p IH]; cbn [app after_ascii_ok]; [tauto|]. intros [_ H]. exact (IH H). Qed.

Lemma after_ascii_ok_app_l m q : after_ascii_ok (m ++ q) -> after_ascii_ok m.
Proof.
  induction m as [|a m IH]; cbn [app after_ascii_ok]; [tauto|]. intros [H1 H2]. split; [|exact (IH H2)].
  intros Ha. specialize (H1 Ha). destruct m as [|b m]; [exact I|exact H1].
Qed.

Lemma encode1_shape c : is_usv c ->
  (c < 128 /\ utf8_encode1 c = [c])
  \/ (exists b r, utf8_encode1 c = b :: r /\ 192 <= b /\ Forall (fun x => 128 <= x) r).
Proof.
  intros Hc. unfold utf8_encode1, is_usv in *.
  destruct (c <? 128) eqn:E1; [left; split; [lia|reflexivity]|]. right.
  destruct (c <? 2048) eqn:E2; [eexists; eexists; split; [reflexivity|]; split; [lia|repeat constructor; lia]|].
  destruct (c <? 65536) eqn:E3; eexists; eexists; (split; [reflexivity|]); (split; [lia|repeat constructor; lia]).
Qed.

Lemma hd_encode_boundary s : usv_list s ->
  match utf8_encode s with [] => True | b :: _ => is_utf8_char_boundary b = true end.
Proof.
  destruct s as [|c s]; [intros; exact I|]. intros H. inversion H as [|? ? Hc _]; subst.
  unfold utf8_encode. cbn [flat_map]. unfold is_utf8_char_boundary.
  destruct (encode1_shape c Hc) as [[H1 H2]|[b [r [H2 [H3 _]]]]]; rewrite H2; cbn [app]; lia.
Qed.

Lemma high_then_ok r l : Forall (fun x => 128 <= x) r -> after_ascii_ok l -> after_ascii_ok (r ++ l).
Proof.
  induction 1 as [|x r Hx _ IH]; intros Hl; cbn [app after_ascii_ok]; [exact Hl|].
  split; [intros; lia|exact (IH Hl)].
Qed.

Lemma utf8_encode_after_ascii s : usv_list s -> after_ascii_ok (utf8_encode s).
Proof.
  induction s as [|c s IH]; intros H; [exact I|]. inversion H as [|? ? Hc Hs]; subst.
  specialize (IH Hs). pose proof (hd_encode_boundary s Hs) as Hhd.
  unfold utf8_encode in *. cbn [flat_map].
  destruct (encode1_shape c Hc) as [[H1 H2]|[b [r [H2 [H3 H4]]]]]; rewrite H2; cbn [app after_ascii_ok].
  - split; [intros _; exact Hhd|exact IH].
  - split; [intros; lia|]. apply high_then_ok; assumption.
Qed.

(* ---- char boundaries ---- *)
Lemma boundary_at_ascii p a r : a < 128 -> is_char_boundary (p ++ a :: r) (length p) = true.
Proof.
  intros Ha. unfold is_char_boundary.
  destruct (length p =? 0)%nat eqn:E0; [reflexivity|].
  rewrite app_length. cbn [length].
  destruct (length p + S (length r) <=? length p)%nat eqn:E1; [apply Nat.leb_le in E1; lia|].
  rewrite app_nth2 by lia. rewrite Nat.sub_diag. cbn [nth]. unfold is_utf8_char_boundary. lia.
Qed.

Lemma boundary_after_ascii p a r :
  after_ascii_ok (p ++ a :: r) -> a < 128 -> is_char_boundary (p ++ a :: r) (S (length p)) = true.
Proof.
  intros Hok Ha. apply after_ascii_ok_app_r in Hok. cbn [after_ascii_ok] in Hok. destruct Hok as [H1 _].
  specialize (H1 Ha). unfold is_char_boundary.
  destruct (S (length p) =? 0)%nat eqn:E0; [reflexivity|].
  rewrite app_length. cbn [length].
  destruct r as [|b r].
  - cbn [length]. destruct (length p + 1 <=? S (length p))%nat eqn:E1; [|apply Nat.leb_gt in E1; lia].
    apply Nat.eqb_eq. lia.
  - cbn [length]. destruct (length p + S (S (length r)) <=? S (length p))%nat eqn:E1; [apply Nat.leb_le in E1; lia|].
    rewrite app_nth2 by lia. replace (S (length p) - length p)%nat with 1%nat by lia. cbn [nth]. exact H1.
Qed.

(* ---- the iterators only move forward ---- *)
Lemma filter_next_split l b r : filter_next l = Some (b, r) -> exists pre, l = pre ++ b :: r.
Proof.
  induction l as [|x l IH]; cbn [filter_next]; [discriminate|].
  destruct (is_skipped x).
  - intros H. destruct (IH H) as [pre Hp]. exists (x :: pre). rewrite Hp. reflexivity.
  - intros H. inversion H; subst. exists []. reflexivity.
Qed.

Lemma require_scheme_split ls : forall l r, require_scheme ls l = Some r -> exists pre, l = pre ++ r.
Proof.
  induction ls as [|x ls IH]; intros l r; cbn [require_scheme].
  - intros H. inversion H; subst. exists []. reflexivity.
  - destruct (filter_next l) as [[b r1]|] eqn:Ef; [|discriminate].
    destruct (byte_eq_ignore_ascii_case b x); [|discriminate]. intros H.
    destruct (filter_next_split _ _ _ Ef) as [p1 H1]. destruct (IH _ _ H) as [p2 H2].
    exists (p1 ++ b :: p2). subst. rewrite <- app_assoc. reflexivity.
Qed.

Lemma require_exact_split ls : forall l r, require_exact ls l = Some r -> exists pre, l = pre ++ r.
Proof.
  induction ls as [|x ls IH]; intros l r; cbn [require_exact].
  - intros H. inversion H; subst. exists []. reflexivity.
  - destruct (filter_next l) as [[b r1]|] eqn:Ef; [|discriminate].
    destruct (b =? x); [|discriminate]. intros H.
    destruct (filter_next_split _ _ _ Ef) as [p1 H1]. destruct (IH _ _ H) as [p2 H2].
    exists (p1 ++ b :: p2). subst. rewrite <- app_assoc. reflexivity.
Qed.

Lemma require_nocase_split ls : forall l r, require_nocase ls l = Some r -> exists pre, l = pre ++ r.
Proof.
  induction ls as [|x ls IH]; intros l r; cbn [require_nocase].
  - intros H. inversion H; subst. exists []. reflexivity.
  - destruct (filter_next l) as [[b r1]|] eqn:Ef; [|discriminate].
    destruct (byte_eq_ignore_ascii_case b x); [|discriminate]. intros H.
    destruct (filter_next_split _ _ _ Ef) as [p1 H1]. destruct (IH _ _ H) as [p2 H2].
    exists (p1 ++ b :: p2). subst. rewrite <- app_assoc. reflexivity.
Qed.

Lemma skip_while_next_split l b r : skip_while_next l = Some (b, r) -> exists pre, l = pre ++ b :: r.
Proof.
  induction l as [|x l IH]; cbn [skip_while_next]; [discriminate|].
  destruct (is_skipped x).
  - intros H. destruct (IH H) as [pre Hp]. exists (x :: pre). rewrite Hp. reflexivity.
  - destruct (x =? T_DU_B64_SKIP).
    + intros H. destruct (IH H) as [pre Hp]. exists (x :: pre). rewrite Hp. reflexivity.
    + intros H. inversion H; subst. exists []. reflexivity.
Qed.

(* drop_while / drop_while_end return a suffix / a prefix *)
Lemma drop_while_suffix f l : exists pre, l = pre ++ drop_while f l.
Proof.
  induction l as [|x l [pre IH]]; cbn [drop_while]; [exists []; reflexivity|].
  destruct (f x); [exists (x :: pre); cbn [app]; f_equal; exact IH | exists []; reflexivity].
Qed.

Lemma drop_while_end_prefix f l : exists post, l = drop_while_end f l ++ post.
Proof.
  unfold drop_while_end. destruct (drop_while_suffix f (rev l)) as [pre H].
  exists (rev pre). rewrite <- rev_app_distr, <- H, rev_involutive. reflexivity.
Qed.

(* ---- pretend_parse_data_url ---- *)
Lemma pretend_parse_total input : after_ascii_ok input ->
  exists r, pretend_parse_data_url input = Ok r
            /\ match r with Some a => after_ascii_ok a | None => True end.
Proof.
  intros Hok. unfold pretend_parse_data_url.
  destruct (drop_while_suffix is_c0_or_space input) as [p0 H0].
  set (lt := drop_while is_c0_or_space input) in *.
  assert (Hlt : after_ascii_ok lt) by (rewrite H0 in Hok; exact (after_ascii_ok_app_r _ _ Hok)).
  clearbody lt.
  destruct (require_scheme T_DU_SCHEME lt) as [b1|] eqn:E1; [|exists None; split; [reflexivity|exact I]].
  destruct (filter_next b1) as [[b bytes]|] eqn:E2; [|exists None; split; [reflexivity|exact I]].
  destruct (b =? T_DU_COLON) eqn:E3; cbn [negb]; [|exists None; split; [reflexivity|exact I]].
  apply N.eqb_eq in E3. subst b.
  destruct (require_scheme_split _ _ _ E1) as [p1 H1]. destruct (filter_next_split _ _ _ E2) as [p2 H2].
  assert (Hsplit : lt = (p1 ++ p2) ++ T_DU_COLON :: bytes) by (rewrite H1, H2, <- app_assoc; reflexivity).
  assert (Hidx : (length lt - length bytes)%nat = S (length (p1 ++ p2))).
  { assert (Hl : length lt = (length (p1 ++ p2) + S (length bytes))%nat) by (rewrite Hsplit, app_length; reflexivity).
    lia. }
  rewrite Hidx. unfold slice_from.
  assert (Hb : is_char_boundary lt (S (length (p1 ++ p2))) = true).
  { rewrite Hsplit. apply boundary_after_ascii; [rewrite <- Hsplit; exact Hlt|reflexivity]. }
  rewrite Hb. cbn [bind]. eexists. split; [reflexivity|]. cbv beta.
  assert (Hsk : skipn (S (length (p1 ++ p2))) lt = bytes).
  { rewrite Hsplit. replace (S (length (p1 ++ p2))) with (length ((p1 ++ p2) ++ [T_DU_COLON])) by (rewrite app_length; cbn [length]; lia).
    replace ((p1 ++ p2) ++ T_DU_COLON :: bytes) with (((p1 ++ p2) ++ [T_DU_COLON]) ++ bytes) by (rewrite <- app_assoc; reflexivity).
    rewrite skipn_app, skipn_all, Nat.sub_diag. reflexivity. }
  rewrite Hsk. destruct (drop_while_end_prefix is_c0_or_space bytes) as [post Hp].
  apply (after_ascii_ok_app_l _ post). rewrite <- Hp.
  rewrite Hsplit in Hlt. apply after_ascii_ok_app_r in Hlt. cbn [after_ascii_ok] in Hlt. tauto.
Qed.

(* ---- find_comma_before_fragment ---- *)
Lemma fcbf_loop_total s : after_ascii_ok s -> forall rest pre, s = pre ++ rest ->
  exists r, fcbf_loop s (length pre) rest = Ok r
            /\ match r with Some (a, b) => after_ascii_ok a /\ after_ascii_ok b | None => True end.
Proof.
  intros Hok. induction rest as [|byte rest IH]; intros pre Hs; cbn [fcbf_loop].
  - exists None. split; [reflexivity|exact I].
  - destruct (byte =? T_DU_COMMA) eqn:E1.
    + apply N.eqb_eq in E1. subst byte. unfold slice_to, slice_from.
      assert (B1 : is_char_boundary s (length pre) = true) by (rewrite Hs; apply boundary_at_ascii; reflexivity).
      assert (B2 : is_char_boundary s (length pre + 1) = true).
      { rewrite Nat.add_1_r, Hs. apply boundary_after_ascii; [rewrite <- Hs; exact Hok|reflexivity]. }
      rewrite B1. cbn [bind]. rewrite B2. cbn [bind]. rewrite Nat.add_1_r. eexists. split; [reflexivity|]. cbv beta. split.
      * apply (after_ascii_ok_app_l _ (skipn (length pre) s)). rewrite firstn_skipn. exact Hok.
      * apply (after_ascii_ok_app_r (firstn (S (length pre)) s)). rewrite firstn_skipn. exact Hok.
    + destruct (byte =? T_DU_HASH); [exists None; split; [reflexivity|exact I]|].
      replace (S (length pre)) with (length (pre ++ [byte])) by (rewrite app_length; cbn [length]; lia).
      apply IH. rewrite <- app_assoc. exact Hs.
Qed.

Lemma find_comma_total s : after_ascii_ok s ->
  exists r, find_comma_before_fragment s = Ok r
            /\ match r with Some (a, b) => after_ascii_ok a /\ after_ascii_ok b | None => True end.
Proof. intros H. exact (fcbf_loop_total s H s [] eq_refl). Qed.

(* ---- remove_base64_suffix: the index is the index of the ';' byte - no validity needed ---- *)
Lemma remove_base64_suffix_total s : exists r, remove_base64_suffix s = Ok r.
Proof.
  unfold remove_base64_suffix.
  destruct (require_exact T_DU_B64_EXACT (rev s)) as [r1|] eqn:E1; [|eexists; reflexivity].
  destruct (require_nocase T_DU_B64_NOCASE r1) as [r2|] eqn:E2; [|eexists; reflexivity].
  destruct (skip_while_next r2) as [[b bytes]|] eqn:E3; [|eexists; reflexivity].
  destruct (b =? T_DU_B64_SEP) eqn:E4; cbn [negb]; [|eexists; reflexivity].
  apply N.eqb_eq in E4. subst b.
  destruct (require_exact_split _ _ _ E1) as [p1 H1]. destruct (require_nocase_split _ _ _ E2) as [p2 H2].
  destruct (skip_while_next_split _ _ _ E3) as [p3 H3].
  assert (Hs : s = rev bytes ++ T_DU_B64_SEP :: rev (p1 ++ p2 ++ p3)).
  { rewrite <- (rev_involutive s), H1, H2, H3. rewrite !app_assoc, rev_app_distr. cbn [rev].
    rewrite <- app_assoc. reflexivity. }
  unfold slice_to.
  assert (B : is_char_boundary s (length bytes) = true).
  { rewrite <- (rev_length bytes), Hs. apply boundary_at_ascii. reflexivity. }
  rewrite B. cbn [bind]. eexists. reflexivity.
Qed.

(* ---- parse_header: the String handed to the MIME parser is ASCII ---- *)
Lemma percent_encode_ascii b : Forall (fun x => x < 128) (DataUrl.percent_encode b).
Proof.
  unfold DataUrl.percent_encode. constructor; [lia|].
  assert (H : forall i, nth i T_DU_HEX_UPPER 0 < 128).
  { intros i. do 17 (destruct i as [|i]; [cbn; lia|]). cbn. destruct i; lia. }
  constructor; [apply H|]. constructor; [apply H|constructor].
Qed.

Lemma header_loop_ascii : forall l q, bytes l -> Forall (fun x => x < 128) (header_loop q l).
Proof.
  induction l as [|b l IH]; intros q Hb; cbn [header_loop]; [constructor|].
  inversion Hb as [|? ? Hb1 Hb2]; subst. unfold is_byte in Hb1.
  destruct (is_skipped b); [apply IH; exact Hb2|].
  destruct (in_ranges b T_DU_HDR_ENC) eqn:E1.
  { apply Forall_app. split; [apply percent_encode_ascii|apply IH; exact Hb2]. }
  destruct (memb b T_DU_HDR_QENC && q).
  { apply Forall_app. split; [apply percent_encode_ascii|apply IH; exact Hb2]. }
  assert (Hlt : b < 128).
  { rewrite hdr_enc_is_controls in E1 by exact Hb1. unfold should_encode in E1.
    destruct (128 <=? b) eqn:E; [discriminate|lia]. }
  destruct (b =? T_DU_HDR_QMARK).
  - constructor; [reflexivity|apply IH; exact Hb2].
  - constructor; [exact Hlt|apply IH; exact Hb2].
Qed.

Lemma header_string_usv m : bytes m -> usv_list (header_string m).
Proof.
  intros Hb. unfold header_string. apply Forall_app. split.
  - destruct (starts_with_byte T_DU_HDR_PREFIX_IF m); [|constructor].
    repeat constructor; unfold is_usv; lia.
  - eapply Forall_impl; [|apply header_loop_ascii; exact Hb]. cbv beta. intros a Ha. unfold is_usv. lia.
Qed.

Lemma bytes_firstn n l : bytes l -> bytes (firstn n l).
Proof. intros H. rewrite <- (firstn_skipn n l) in H. apply bytes_app in H. tauto. Qed.
Lemma bytes_skipn n l : bytes l -> bytes (skipn n l).
Proof. intros H. rewrite <- (firstn_skipn n l) in H. apply bytes_app in H. tauto. Qed.
Lemma bytes_drop_while f l : bytes l -> bytes (drop_while f l).
Proof. intros H. destruct (drop_while_suffix f l) as [p Hp]. rewrite Hp in H. apply bytes_app in H. tauto. Qed.
Lemma bytes_drop_while_end f l : bytes l -> bytes (drop_while_end f l).
Proof. intros H. destruct (drop_while_end_prefix f l) as [p Hp]. rewrite Hp in H. apply bytes_app in H. tauto. Qed.

Lemma remove_base64_suffix_bytes s t : bytes s -> remove_base64_suffix s = Ok (Some t) -> bytes t.
Proof.
  intros Hb. unfold remove_base64_suffix.
  destruct (require_exact T_DU_B64_EXACT (rev s)) as [r1|]; [|discriminate].
  destruct (require_nocase T_DU_B64_NOCASE r1) as [r2|]; [|discriminate].
  destruct (skip_while_next r2) as [[b bs]|]; [|discriminate].
  destruct (negb (b =? T_DU_B64_SEP)); [discriminate|]. unfold slice_to.
  destruct (is_char_boundary s (length bs)); cbn [bind]; [|discriminate].
  intros H. inversion H; subst. apply bytes_firstn. exact Hb.
Qed.

Lemma parse_header_total h : bytes h -> exists r, parse_header h = Ok r.
Proof.
  intros Hb. unfold parse_header.
  set (trimmed := drop_while_end is_header_trim (drop_while is_header_trim h)).
  assert (Ht : bytes trimmed) by (apply bytes_drop_while_end, bytes_drop_while; exact Hb).
  destruct (remove_base64_suffix_total trimmed) as [w Hw]. rewrite Hw. cbn [bind].
  assert (Hm : bytes (match w with Some t => t | None => trimmed end)).
  { destruct w as [t|]; [exact (remove_base64_suffix_bytes _ _ Ht Hw)|exact Ht]. }
  unfold from_str.
  destruct (parse_total _ (header_string_usv _ Hm)) as [r Hr]. rewrite Hr. cbn [bind].
  eexists. reflexivity.
Qed.

(* ---- sub-slices of a byte string are byte strings ---- *)
Lemma pretend_parse_bytes input a : bytes input -> pretend_parse_data_url input = Ok (Some a) -> bytes a.
Proof.
  intros Hb. unfold pretend_parse_data_url.
  destruct (require_scheme T_DU_SCHEME (drop_while is_c0_or_space input)) as [b1|]; [|discriminate].
  destruct (filter_next b1) as [[b bs]|]; [|discriminate].
  destruct (negb (b =? T_DU_COLON)); [discriminate|]. unfold slice_from.
  destruct (is_char_boundary _ _); cbn [bind]; [|discriminate].
  intros H. inversion H; subst. apply bytes_drop_while_end, bytes_skipn, bytes_drop_while. exact Hb.
Qed.

Lemma fcbf_loop_bytes s : bytes s -> forall rest i a b, fcbf_loop s i rest = Ok (Some (a, b)) -> bytes a /\ bytes b.
Proof.
  intros Hb. induction rest as [|byte rest IH]; intros i a b; cbn [fcbf_loop]; [discriminate|].
  destruct (byte =? T_DU_COMMA).
  - unfold slice_to, slice_from. destruct (is_char_boundary s i); cbn [bind]; [|discriminate].
    destruct (is_char_boundary s (i + 1)); cbn [bind]; [|discriminate].
    intros H. inversion H; subst. split; [apply bytes_firstn|apply bytes_skipn]; exact Hb.
  - destruct (byte =? T_DU_HASH); [discriminate|]. apply IH.
Qed.

Lemma find_comma_bytes s a b : bytes s -> find_comma_before_fragment s = Ok (Some (a, b)) -> bytes a /\ bytes b.
Proof. intros Hb H. exact (fcbf_loop_bytes s Hb s 0%nat a b H). Qed.

(* ---- DataUrl::process ---- *)
Theorem process_bytes_total input : bytes input -> after_ascii_ok input -> exists r, process_bytes input = Ok r.
Proof.
  intros Hb Hok. unfold process_bytes.
  destruct (pretend_parse_total input Hok) as [[a|] [H1 H2]]; rewrite H1; cbn [bind]; [|eexists; reflexivity].
  pose proof (pretend_parse_bytes _ _ Hb H1) as Hba.
  destruct (find_comma_total a H2) as [[[h body]|] [H3 H4]]; rewrite H3; cbn [bind]; [|eexists; reflexivity].
  destruct (find_comma_bytes _ _ _ Hba H3) as [Hbh _].
  destruct (parse_header_total h Hbh) as [r Hr]. rewrite Hr. cbn [bind]. eexists. reflexivity.
Qed.

Theorem process_total s : usv_list s -> exists r, process s = Ok r.
Proof.
  intros H. apply process_bytes_total; [apply utf8_encode_bytes; exact H|apply utf8_encode_after_ascii; exact H].
Qed.
