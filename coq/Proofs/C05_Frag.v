(* Proofs/C05_Frag.v - a component-level clause proved for the stored slice: the fragment of every
   parse result (any base: the base's fragment is never kept) and of every set_fragment result is
   inside 0x21..0x7E and free of space, double quote, '<', '>', backtick. *)
From RU Require Import Base.Prelude Base.Utf8 Model.AsciiSet Gen.Tables Model.PercentEncoding
  Model.HostT Model.UrlRecord Model.Parser Model.Setters Proofs.ListN Proofs.C05_Enc Proofs.C05_Parser
  Proofs.C05_Setters.

Lemma comp_clean_nil D : comp_clean D [].
Proof. split; [constructor | intros d _ H; destruct H]. Qed.

Lemma comp_clean_app D a b : comp_clean D a -> comp_clean D b -> comp_clean D (a ++ b).
Proof.
  intros [A1 A2] [B1 B2]. split; [apply Forall_app; split; assumption|].
  intros d Hd Hin. apply in_app_or in Hin. destruct Hin as [H|H]; [exact (A2 d Hd H) | exact (B2 d Hd H)].
Qed.

Lemma fragment_piece_clean xs : comp_clean D_FRAGMENT (pe_display T_FRAGMENT xs).
Proof. apply pe_display_clean; [apply T_FRAGMENT_facts | apply T_FRAGMENT_facts | reflexivity]. Qed.

Lemma parse_fragment_loop_clean l : forall ser pr,
  exists t, parse_fragment_loop ser pr l = ser ++ t /\ comp_clean D_FRAGMENT t.
Proof.
  induction l as [|c r IH]; intros ser pr; cbn [parse_fragment_loop].
  - destruct pr; [exists []; rewrite app_nil_r; split; [reflexivity | apply comp_clean_nil]|].
    unfold flush_part. eexists; split; [reflexivity | apply fragment_piece_clean].
  - destruct (is_tnl c); [|apply IH].
    destruct (IH (flush_part T_FRAGMENT utf8_encode ser pr) []) as [t [Ht Hok]]. rewrite Ht. unfold flush_part.
    rewrite <- app_assoc. eexists; split; [reflexivity|].
    apply comp_clean_app; [apply fragment_piece_clean | exact Hok].
Qed.

(* the serialization is X ++ "#" ++ t with fragment_start = |X| and t clean *)
Definition frag_ok (s : list N) (fs : option N) : Prop :=
  match fs with
  | Some f => exists X t, s = X ++ [35] ++ t /\ f = nlen X /\ comp_clean D_FRAGMENT t
  | None => True
  end.

Definition frag_oku (u : url) : Prop := frag_ok (ser u) (fragment_start u).

Lemma to_u32_eq n m : to_u32 n = POk m -> m = n.
Proof. unfold to_u32. destruct (n <=? U32_MAX_P); intros H; [inversion H; reflexivity | discriminate]. Qed.

Lemma frag_ok_new X l f : to_u32 (nlen X) = POk f -> frag_ok (parse_fragment (X ++ [35]) l) (Some f).
Proof.
  intros Hf. apply to_u32_eq in Hf. subst f. unfold parse_fragment.
  destruct (parse_fragment_loop_clean l (X ++ [35]) []) as [t [Ht Hc]]. rewrite Ht, <- app_assoc.
  exists X, t. repeat split; [apply Hc | apply Hc].
Qed.

Lemma pqf_frag ovr ctx st se sr l s qs fs :
  parse_query_and_fragment ovr ctx st se sr l = POk (s, qs, fs) -> frag_ok s fs.
Proof.
  unfold parse_query_and_fragment. intros H.
  destruct (inp_next l) as [[c r]|]; [|inversion H; subst; exact I].
  destruct (c =? 35).
  { pb H f0 Hf0. inversion H; subst. apply frag_ok_new. exact Hf0. }
  destruct (c =? 63); [|discriminate]. pb H q0 Hq0.
  destruct (parse_query ovr ctx st se (sr ++ [63]) r) as [ser1 rem].
  destruct rem as [r2|]; [|inversion H; subst; exact I].
  pb H f0 Hf0. inversion H; subst. apply frag_ok_new. exact Hf0.
Qed.

Lemma wqaf_frag ovr ctx st se ue hs he hi port ps sr rem u :
  with_query_and_fragment ovr ctx st se ue hs he hi port ps sr rem = POk u -> frag_oku u.
Proof.
  unfold with_query_and_fragment. intros H. pb H a Ha. destruct a as [ser1 ps1].
  pb H b Hb. destruct b as [[ser2 qs] fs]. inversion H; subst. unfold frag_oku. cbn [ser fragment_start].
  eapply pqf_frag. exact Hb.
Qed.

Lemma fragment_only_frag base l u : fragment_only base l = POk u -> frag_oku u.
Proof.
  unfold fragment_only. cbv zeta. intros H. pb H f0 Hf0. inversion H; subst. unfold frag_oku. cbn [ser fragment_start].
  apply frag_ok_new. exact Hf0.
Qed.

Section WithHosts.
Variable dbg : bool.
Variable host_parse host_parse_opaque : list N -> result host.
Variable host_display : host -> list N.
Variable ovr : option (list N -> list N).

Lemma after_double_slash_frag ctx st se sr l u :
  after_double_slash dbg host_parse host_parse_opaque host_display ovr ctx st se sr l = POk u -> frag_oku u.
Proof.
  unfold after_double_slash. cbv zeta. intros H.
  pb H a Ha. destruct a as [[ser1 ue] remaining]. pb H hs Hhs.
  pb H b Hb. destruct b as [[[[ser2 he] hi] port] remaining2].
  destruct (hi_eqb hi HI_None && negb (nlen (sr ++ [47; 47]) =? nlen ser1)); [discriminate|].
  pb H ps Hps. pb H c Hc. destruct c as [[ser3 hh] remaining3]. eapply wqaf_frag. exact H.
Qed.

Lemma parse_non_special_frag ctx st se sr l u :
  parse_non_special dbg host_parse host_parse_opaque host_display ovr ctx st se sr l = POk u -> frag_oku u.
Proof.
  unfold parse_non_special. intros H.
  destruct (inp_split_prefix_str s_ss l) as [rem|]; [eapply after_double_slash_frag; exact H|].
  pb H ps Hps. pb H a Ha. destruct a as [ser1 remaining]. eapply wqaf_frag. exact H.
Qed.

Lemma url_with_frag base s qs fs : frag_ok s fs -> frag_oku (url_with base s qs fs).
Proof. intros H. exact H. Qed.

Lemma parse_relative_frag ctx st base l u :
  parse_relative dbg host_parse host_parse_opaque host_display ovr ctx st base l = POk u -> frag_oku u.
Proof.
  unfold parse_relative. intros H.
  destruct (inp_split_first l) as [fc iaf].
  destruct fc as [c|]; [|inversion H; subst; exact I].
  destruct (c =? 63).
  { pb H a Ha. destruct a as [[s qs] fs]. inversion H; subst. apply url_with_frag. eapply pqf_frag. exact Ha. }
  destruct (c =? 35); [eapply fragment_only_frag; exact H|].
  destruct ((c =? 47) || (c =? 92) && st_is_special st).
  { destruct (inp_count_matching (fun d : N => (d =? 47) || (d =? 92) && st_is_special st) l) as [slashes remaining].
    destruct (2 <=? slashes).
    - cbv zeta in H. pb H u_ Hu.
      destruct (negb (st_is_special st)).
      + destruct (inp_split_prefix_str s_ss l); eapply after_double_slash_frag; exact H.
      + eapply after_double_slash_frag; exact H.
    - cbv zeta in H. pb H a Ha. destruct a as [[s hh] rem]. eapply wqaf_frag. exact H. }
  cbv zeta in H. pb H s1 Hs1. pb H a Ha. destruct a as [[s3 hh] rem]. eapply wqaf_frag. exact H.
Qed.

Lemma parse_file_frag ctx st base_file l u :
  parse_file dbg host_parse host_display ovr ctx st base_file l = POk u -> frag_oku u.
Proof.
  unfold parse_file. intros H.
  destruct (inp_split_first l) as [fc af]. cbv zeta in H.
  destruct (match fc with Some c => is_slash_or_bslash c | None => false end).
  { destruct (inp_split_first af) as [nc an].
    destruct (match nc with Some c => is_slash_or_bslash c | None => false end).
    - pb H a Ha. destruct a as [[[ser1 flag] hi] remaining]. pb H he Hhe.
      pb H b Hb. destruct b as [[ser2 hh] remaining2].
      destruct (negb hh); cbv beta iota zeta in H; pb H c Hc; destruct c as [[ser4 qs] fs];
        inversion H; subst; unfold frag_oku; cbn [ser fragment_start file_url]; eapply pqf_frag; exact Hc.
    - match type of H with context [if negb (starts_with_wdl_segment af) then ?a else ?b] =>
        destruct (if negb (starts_with_wdl_segment af) then a else b) as [[ser1 he] hi] end.
      pb H a Ha. destruct a as [[ser2 hh] remaining]. pb H c Hc. destruct c as [[ser3 qs] fs].
      inversion H; subst. unfold frag_oku. cbn [ser fragment_start file_url]. eapply pqf_frag; exact Hc. }
  destruct base_file as [base|].
  2:{ pb H a Ha. destruct a as [[s2 hh] rem]. pb H c Hc. destruct c as [[s3 qs] fs].
      inversion H; subst. unfold frag_oku. cbn [ser fragment_start file_url]. eapply pqf_frag; exact Hc. }
  destruct fc as [c|]; [|inversion H; subst; exact I].
  destruct (c =? 63).
  { pb H a Ha. destruct a as [[s qs] fs]. inversion H; subst. apply url_with_frag. eapply pqf_frag. exact Ha. }
  destruct (c =? 35); [eapply fragment_only_frag; exact H|].
  destruct (negb (starts_with_wdl_segment l)).
  - pb H s1 Hs1. pb H a Ha. destruct a as [[s2 hh] rem]. eapply wqaf_frag. exact H.
  - pb H a Ha. destruct a as [[s2 hh] rem]. pb H c0 Hc. destruct c0 as [[s3 qs] fs].
    inversion H; subst. unfold frag_oku. cbn [ser fragment_start file_url]. eapply pqf_frag; exact Hc.
Qed.

Lemma parse_with_scheme_frag base scheme l u :
  parse_with_scheme dbg host_parse host_parse_opaque host_display ovr base scheme l = POk u -> frag_oku u.
Proof.
  unfold parse_with_scheme. intros H. pb H se Hse. cbv zeta in H.
  destruct (scheme_type_of scheme).
  - eapply parse_file_frag. exact H.
  - destruct (inp_count_matching is_slash_or_bslash l) as [slashes remaining].
    destruct base as [b|]; [|eapply after_double_slash_frag; exact H].
    destruct ((slashes <? 2) && list_eqb (b_scheme b) scheme); [|eapply after_double_slash_frag; exact H].
    pb H u_ Hu. eapply parse_relative_frag. exact H.
  - eapply parse_non_special_frag. exact H.
Qed.

Theorem parse_url_frag base input u :
  parse_url dbg host_parse host_parse_opaque host_display ovr base input = POk u -> frag_oku u.
Proof.
  unfold parse_url. cbv zeta. intros H.
  destruct (parse_scheme CUrlParser (input_new_trim_c0 input)) as [[scheme remaining]|].
  - eapply parse_with_scheme_frag. exact H.
  - destruct base as [b|]; [|discriminate].
    destruct (inp_starts_with_char 35 (input_new_trim_c0 input)); [eapply fragment_only_frag; exact H|].
    destruct (cannot_be_a_base b) as [[|]|]; try discriminate.
    destruct (st_is_file (scheme_type_of (b_scheme b))).
    + eapply parse_file_frag. exact H.
    + eapply parse_relative_frag. exact H.
Qed.

End WithHosts.

(* the accessor returns exactly t *)
Lemma frag_oku_fragment dbg u f : frag_oku u -> fragment dbg u = Some (Some f) -> comp_clean D_FRAGMENT f.
Proof.
  unfold frag_oku, frag_ok, fragment. destruct (fragment_start u) as [fs|]; [|discriminate].
  intros (X & t & Hs & Hf & Hc) H.
  ob H x Hx. unfold u_slice_from, slice_from_o in H. rewrite Hs in H.
  destruct (fs + 1 <=? nlen (X ++ [35] ++ t)); cbn [bindo] in H; [|discriminate].
  inversion H; subst f fs. clear H.
  assert (nskipn (nlen X + 1) (X ++ [35] ++ t) = t) as E.
  { unfold nskipn, nlen. replace (N.to_nat (N.of_nat (length X) + 1)) with (length X + 1)%nat by lia.
    rewrite skipn_app. rewrite skipn_all2 by lia. replace (length X + 1 - length X)%nat with 1%nat by lia. reflexivity. }
  cbn [app] in E. rewrite E. exact Hc.
Qed.

Lemma set_fragment_frag dbg u input u' : set_fragment dbg u (Some input) = Some u' -> frag_oku u'.
Proof.
  unfold set_fragment. intros H. ob H s0 Hs0. inversion H; subst. unfold frag_oku.
  cbn [ser fragment_start set_ser set_fragment_start]. unfold parse_fragment.
  destruct (parse_fragment_loop_clean input (s0 ++ [35]) []) as [t [Ht Hc]]. rewrite Ht, <- app_assoc.
  exists s0, t. repeat split; apply Hc.
Qed.
