(* Proofs/C02_QHost.v - L2 for url::quirks::set_hostname and url::quirks::set_host on the canonical forms.
   Both run the host state of the parser on the argument and hand the host to Url::set_host_internal (quirks host
   also the port the port state reads behind ':'), so on a record a host setter acts on (C02_SetHostCanon.hostable:
   not cannot-be-a-base, no "/." marker) the result is the canonical record with the new host (and port) -
   C02_SetHostCanon.shi_hostable - provided the empty host is only stored on a record without userinfo and port:
   - quirks hostname checks port, user name and password itself (three getters, evaluated here on the frame sh_url);
   - quirks host checks user name, old port and new port but NOT the password: a://:pw@h/p -> a://:pw@/p is F-C07-8,
     the class Known_F_C02_10 of C02_Stmt4.v, excluded by known_step3. *)
From RU Require Import Base.Prelude Base.Utf8 Base.Utf8Facts Model.AsciiSet Gen.Tables
  Model.PercentEncoding Model.HostT Model.UrlRecord Model.Parser Model.Setters Model.WF
  Proofs.ListN Proofs.C02_Parts Proofs.C02_Opaque Proofs.C02_Path Proofs.C02_Reach Proofs.C02_AuthParts
  Proofs.C02_Auth Proofs.C02_AuthWf Proofs.C02_AuthSp Proofs.C02_AuthMain Proofs.C02_Canon Proofs.C02_SetPort
  Proofs.C02_Hist Proofs.C02_SetHostFrame Proofs.C02_SetHostCanon Proofs.C02_SetCred Proofs.C02_SetCredCanon
  Proofs.C02_QPort Proofs.C03_WF Proofs.C06_Quirks Proofs.C02_Stmt4.
Open Scope N_scope.
Open Scope list_scope.

(* ---------- username() / password() on the userinfo frame ---------- *)
Section Getters.
Variable dbg : bool.
Variables (sch X : list N) (dh dp : N) (dq df : option N) (hi : host_internal) (pt : option N).
Notation SH := (sh_url sch X dh dp dq df hi pt).

Lemma sh_has_authority Un Ur : has_authority dbg (SH Un Ur) = Some true.
Proof.
  unfold sh_url, A. cbv zeta.
  change ((sch ++ [58; 47; 47]) ++ Un ++ Ur ++ X) with ((sch ++ 58 :: 47 :: 47 :: []) ++ Un ++ Ur ++ X).
  apply has_authority_front.
Qed.

Lemma sh_username Un Ur : username dbg (SH Un Ur) = Some Un.
Proof.
  unfold username. rewrite sh_has_authority. cbn [bindo andb].
  change (scheme_end (SH Un Ur)) with (nlen sch). change (username_end (SH Un Ur)) with (nlen (A sch) + nlen Un).
  rewrite A_len. destruct (nlen sch + 3 <? nlen sch + 3 + nlen Un) eqn:E.
  - unfold u_slice. rewrite sh_ser. rewrite slice_o_some; [| lia | rewrite !nlen_app, A_len; lia].
    rewrite <- A_len. rewrite nskipn_app_len. replace (nlen (A sch) + nlen Un - nlen (A sch)) with (nlen Un) by lia.
    rewrite nfirstn_app_len. reflexivity.
  - destruct Un as [|c r]; [reflexivity|]. apply N.ltb_ge in E. rewrite nlen_cons in E. pose proof (N.le_0_l (nlen r)). lia.
Qed.

Lemma sh_password Un P : password dbg (SH Un (58 :: P ++ [64])) = Some (Some P).
Proof.
  unfold password. rewrite sh_has_authority. cbn [bindo andb].
  change (username_end (SH Un (58 :: P ++ [64]))) with (nlen (A sch) + nlen Un).
  change (host_start (SH Un (58 :: P ++ [64]))) with (nlen (A sch) + nlen Un + nlen (58 :: P ++ [64])).
  assert (ser (SH Un (58 :: P ++ [64])) = (A sch ++ Un) ++ 58 :: P ++ 64 :: X) as Es.
  { rewrite sh_ser. rewrite <- !app_assoc. cbn [app]. rewrite <- app_assoc. reflexivity. }
  assert (nlen (A sch) + nlen Un =? nlen (ser (SH Un (58 :: P ++ [64]))) = false) as ->.
  { rewrite Es. rewrite !nlen_app, !nlen_cons. apply N.eqb_neq. lia. }
  cbn [negb]. unfold byte_is, byte_at. rewrite Es.
  rewrite <- (nlen_app (A sch) Un). rewrite nnth_app_at_loc. cbn [bindo]. rewrite N.eqb_refl.
  assert (nlen (A sch ++ Un) + nlen (58 :: P ++ [64]) - 1 = nlen ((A sch ++ Un) ++ 58 :: P)) as E1
    by (rewrite !nlen_app, !nlen_cons, !nlen_app; change (nlen [64]) with 1; lia).
  rewrite E1.
  assert ((A sch ++ Un) ++ 58 :: P ++ 64 :: X = ((A sch ++ Un) ++ 58 :: P) ++ 64 :: X) as E2
    by (rewrite <- !app_assoc; reflexivity).
  assert ((if dbg then d <- (x <- nnth ((A sch ++ Un) ++ 58 :: P ++ 64 :: X) (nlen ((A sch ++ Un) ++ 58 :: P)) ;; Some (x =? 64)) ;; assert_o d
           else Some tt) = Some tt) as ->.
  { destruct dbg; [|reflexivity]. rewrite E2. rewrite nnth_app_at_loc. cbn [bindo]. reflexivity. }
  cbn [bindo]. unfold u_slice. rewrite Es.
  rewrite slice_o_some; [| rewrite !nlen_app, !nlen_cons; lia | rewrite E2; rewrite (nlen_app _ (64 :: X)); lia].
  replace (nlen (A sch ++ Un) + 1) with (nlen ((A sch ++ Un) ++ [58])) by (rewrite (nlen_app _ [58]); reflexivity).
  replace ((A sch ++ Un) ++ 58 :: P ++ 64 :: X) with (((A sch ++ Un) ++ [58]) ++ P ++ 64 :: X) by (rewrite <- !app_assoc; reflexivity).
  rewrite nskipn_app_len.
  replace (nlen ((A sch ++ Un) ++ 58 :: P) - nlen ((A sch ++ Un) ++ [58])) with (nlen P) by (rewrite !nlen_app, !nlen_cons; change (nlen []) with 0; lia).
  rewrite nfirstn_app_len. reflexivity.
Qed.
End Getters.

Section QHost.
Variable dbg : bool.
Variable hp hpo : list N -> result host.
Variable hd : host -> list N.
Hypothesis HRT : HostRT hp hpo hd.
Hypothesis HAb : host_above hp hpo hd.

Notation auth_ok := (auth_ok hp hpo hd).
Notation auth_url := (auth_url hd).
Notation host_ok := (host_ok hp hpo hd).
Notation Canon := (Canon hp hpo hd).
Notation hostable := (hostable hp hpo hd).

(* what the two getters say about the userinfo of a record a host setter acts on *)
Lemma auth_username sch ui h pt p q f : username dbg (auth_url sch ui h pt p q f) = Some (ui_user ui).
Proof. rewrite auth_url_sh. apply sh_username. Qed.

Lemma auth_password_pw sch u0 p0 h pt p q f : password dbg (auth_url sch (UPw u0 p0) h pt p q f) = Some (Some p0).
Proof. rewrite auth_url_sh. cbn [ui_user ui_rest]. apply sh_password. Qed.

Lemma hostable_user_empty u st sch ui pt : hostable u st sch ui pt -> ui_ok ui -> username dbg u = Some [] ->
  ui = UNone \/ exists p0, ui = UPw [] p0.
Proof.
  intros Hu. destruct Hu as [sch0 segs last q f K Hm | sch0 ui0 h pt0 p q f K | sch0 ui0 h pt0 p q f K Kp]; intros Ok0 E.
  - left. reflexivity.
  - rewrite auth_username in E. inversion E as [E']. destruct ui0 as [|a|a b]; cbn [ui_user] in E'.
    + left. reflexivity.
    + exfalso. subst a. exact (proj2 Ok0 eq_refl).
    + right. subst a. exists b. reflexivity.
  - rewrite auth_username in E. inversion E as [E']. destruct ui0 as [|a|a b]; cbn [ui_user] in E'.
    + left. reflexivity.
    + exfalso. subst a. exact (proj2 Ok0 eq_refl).
    + right. subst a. exists b. reflexivity.
Qed.

Lemma hostable_ui_ok u st sch ui pt : hostable u st sch ui pt -> ui_ok ui.
Proof.
  intros Hu. destruct Hu as [sch0 segs last q f K Hm | sch0 ui0 h pt0 p q f K | sch0 ui0 h pt0 p q f K Kp].
  - exact I.
  - exact (ak_ui _ _ _ _ _ _ _ _ _ _ _ K).
  - exact (ak_ui _ _ _ _ _ _ _ _ _ _ _ K).
Qed.

Lemma hostable_pw_empty u st sch pt p0 : hostable u st sch (UPw [] p0) pt -> q_password dbg u = Some [] -> False.
Proof.
  intros Hu. remember (UPw [] p0) as ui eqn:Eui.
  destruct Hu as [sch0 segs last q f K Hm | sch0 ui0 h pt0 p q f K | sch0 ui0 h pt0 p q f K Kp]; intros E.
  - discriminate Eui.
  - subst ui0. unfold q_password in E. rewrite auth_password_pw in E. cbn [bindo] in E. inversion E as [E'].
    exact (proj2 (proj2 (ak_ui _ _ _ _ _ _ _ _ _ _ _ K)) E').
  - subst ui0. unfold q_password in E. rewrite auth_password_pw in E. cbn [bindo] in E. inversion E as [E'].
    exact (proj2 (proj2 (ak_ui _ _ _ _ _ _ _ _ _ _ _ K)) E').
Qed.

(* has_password_b on the canonical record whose userinfo is ":" pw "@" *)
Lemma auth_has_password sch p0 h pt p q f :
  uname_empty (auth_url sch (UPw [] p0) h pt p q f) = true /\ has_password_b (auth_url sch (UPw [] p0) h pt p q f) = true.
Proof.
  assert (has_authority_b (auth_url sch (UPw [] p0) h pt p q f) = true) as Ha.
  { unfold has_authority_b. cbn [auth_url ser scheme_end]. unfold auth_ser, auth_pre, auth_front.
    rewrite <- !app_assoc. rewrite nskipn_app_len. reflexivity. }
  split.
  - unfold uname_empty. rewrite Ha. cbn [auth_url scheme_end username_end ui_ulen andb]. change (nlen []) with 0.
    replace (nlen sch + 3 <? nlen sch + 3 + 0) with false by lia. reflexivity.
  - unfold has_password_b. rewrite Ha. cbn [andb].
    cbn [auth_url ser username_end ui_ulen]. change (nlen []) with 0. rewrite N.add_0_r.
    assert (auth_ser hd sch (UPw [] p0) h pt p q f
            = (sch ++ [58; 47; 47]) ++ 58 :: (p0 ++ [64]) ++ hd h ++ port_text pt ++ pth_text p ++ qf_text q f) as Es.
    { unfold auth_ser, auth_pre, auth_front. cbn [ui_text]. repeat first [rewrite <- !app_assoc | progress cbn [app]]. reflexivity. }
    rewrite Es. replace (nlen sch + 3) with (nlen (sch ++ [58; 47; 47])) by (rewrite nlen_app; reflexivity).
    rewrite byte_eqb_app. rewrite andb_true_r. apply negb_true_iff. apply N.eqb_neq.
    rewrite (nlen_app (sch ++ [58; 47; 47])), nlen_cons. lia.
Qed.

(* the host state of the parser returns a value of the host parser of the scheme kind *)
Lemma parse_host_hpx st l h rem : st_is_file st = false -> parse_host hp hpo st l = POk (h, rem) ->
  exists t, hpx hp hpo st t = Ok h.
Proof.
  intros Hnf. rewrite (parse_host_unfold hp hpo st Hnf l). destruct (host_scan (st_is_special st) false [] l) as [t rm].
  destruct (scheme_type_eqb st STSpecialNotFile && match t with [] => true | _ => false end); [discriminate|].
  destruct (hpx hp hpo st t) as [h0|e] eqn:E; cbn [of_result pbind]; [|discriminate].
  intros H. inversion H; subst. exists t. exact E.
Qed.

Lemma parse_host_host_ok st l h rem : st_is_file st = false -> parse_host hp hpo st l = POk (h, rem) ->
  (h = HDomain [] -> st_is_special st = false) -> host_ok st h.
Proof.
  intros Hnf Ep He. destruct (parse_host_hpx st l h rem Hnf Ep) as [t Et].
  destruct (host_eq_dec_nil h) as [->|Hne].
  - left. split; [reflexivity | exact (He eq_refl)].
  - exact (hpx_host_ok hp hpo hd HRT HAb st t h Et Hne).
Qed.

Lemma st_not_file_eqb st : st_is_file st = false -> scheme_type_eqb st STFile = false.
Proof. destruct st; [discriminate | reflexivity | reflexivity]. Qed.

(* ---------- url::quirks::set_hostname ---------- *)
Theorem q_set_hostname_Canon u v u' s : Canon u ->
  known_step2 dbg hp hpo hd u (OQHostname v) = false ->
  q_set_hostname dbg hp hpo hd u v = Some (u', s) -> nlen (ser u') <= U32_MAX_P -> Canon u'.
Proof.
  intros C Hk. unfold known_step2, known_step in Hk. rewrite !orb_false_iff in Hk.
  destruct Hk as [[[[[K1 _] _] _] _] _]. unfold Known_F_C03_5 in K1. cbn [is_host_or_path_op] in K1. rewrite andb_true_r in K1.
  unfold q_set_hostname. destruct (Canon_classes hp hpo hd u C) as [Hc | [Hm | (st & sch & ui & pt & Hh)]].
  - rewrite Hc. cbn [bindo]. intros E _. inversion E; subst. exact C.
  - congruence.
  - destruct (hostable_facts hp hpo hd HRT u st sch ui pt Hh) as (Es & Est & Hnf & Hc & Eso & Ept & Hui & Hpo & _).
    pose proof (proj1 (proj2 (Canon_fixpoint dbg hp hpo hd HRT u C))) as W.
    rewrite Hc. cbn [bindo negb]. rewrite Es. cbn [bindo]. rewrite Est. rewrite (st_not_file_eqb st Hnf). cbn [andb].
    destruct (parse_host hp hpo st (input_new_no_trim v)) as [[h rem]|e|] eqn:Ep; cbn [pres_ok bindo].
    3:{ discriminate. }
    2:{ intros E _. inversion E; subst. exact C. }
    match goal with |- bindo ?r _ = _ -> _ => destruct r as [rej|] eqn:Er end; cbn [bindo]; [|discriminate].
    destruct rej. { intros E _. inversion E; subst. exact C. }
    assert (h = HDomain [] -> st_is_special st = false /\ ui = UNone /\ pt = None) as Hemp.
    { intros ->. destruct (q_port dbg u) as [p0|] eqn:Eq; cbn [bindo] in Er; [|discriminate Er].
      destruct (username dbg u) as [un|] eqn:Eu; cbn [bindo] in Er; [|discriminate Er].
      destruct (q_password dbg u) as [pw|] eqn:Epw; cbn [bindo] in Er; [|discriminate Er].
      injection Er as Hr. rewrite !orb_false_iff in Hr. destruct Hr as [[[R1 R2] R3] R4].
      split; [destruct st; [discriminate Hnf | discriminate R1 | reflexivity]|].
      destruct p0; [|discriminate R2]. destruct un; [|discriminate R3]. destruct pw; [|discriminate R4].
      split; [|rewrite <- Ept; exact (q_port_empty dbg u W Eq)].
      destruct (hostable_user_empty u st sch ui pt Hh (hostable_ui_ok u st sch ui pt Hh) Eu) as [E|[p0 E]]; [exact E|].
      exfalso. subst ui. exact (hostable_pw_empty u st sch pt p0 Hh Epw). }
    destruct (set_host_internal dbg hd u h None) as [u1|] eqn:E1; [|discriminate]. cbn [bindo].
    intros E Hb. inversion E; subst u1 s. clear E.
    apply (shi_hostable dbg hp hpo hd u st sch ui pt h None u' Hh); try assumption.
    + apply (parse_host_host_ok st _ h rem Hnf Ep). intros E. exact (proj1 (Hemp E)).
    + intros E. exact (proj2 (Hemp E)).
Qed.

(* ---------- url::quirks::set_host ---------- *)
Theorem q_set_host_Canon u v u' s : (forall t, hp t <> Ok (HDomain [])) -> Canon u ->
  known_step3 dbg hp hpo hd u (OQHost v) = false ->
  q_set_host dbg hp hpo hd u v = Some (u', s) -> nlen (ser u') <= U32_MAX_P -> Canon u'.
Proof.
  intros HN1 C Hk3. unfold known_step3 in Hk3. apply orb_false_iff in Hk3. destruct Hk3 as [Hk K10].
  unfold known_step2, known_step in Hk. rewrite !orb_false_iff in Hk.
  destruct Hk as [[[[[K1 _] _] _] _] _]. unfold Known_F_C03_5 in K1. cbn [is_host_or_path_op] in K1. rewrite andb_true_r in K1.
  unfold q_set_host. destruct (Canon_classes hp hpo hd u C) as [Hc | [Hm | (st & sch & ui & pt & Hh)]].
  - rewrite Hc. cbn [bindo]. intros E _. inversion E; subst. exact C.
  - congruence.
  - destruct (hostable_facts hp hpo hd HRT u st sch ui pt Hh) as (Es & Est & Hnf & Hc & Eso & Ept & Hui & Hpo & _).
    rewrite Hc. cbn [bindo negb]. rewrite Es. cbn [bindo]. rewrite Est. rewrite (st_not_file_eqb st Hnf). cbn [andb].
    destruct (parse_host hp hpo st (input_new_no_trim v)) as [[h rem]|e|] eqn:Ep; cbn [pres_ok bindo].
    3:{ discriminate. }
    2:{ intros E _. inversion E; subst. exact C. }
    set (opt_port := match inp_split_prefix_char 58 rem with
                     | Some rem0 => if inp_is_empty rem0 then Some None
                                    else match parse_port CSetter (default_port sch) rem0 with
                                         | POk (p, _) => Some (Some p)
                                         | _ => Some None
                                         end
                     | None => Some None
                     end).
    assert (forall np, opt_port = Some (Some np) -> port_ok (default_port sch) np) as Hnp.
    { intros np E. unfold opt_port in E. destruct (inp_split_prefix_char 58 rem) as [rem0|]; [|discriminate E].
      destruct (inp_is_empty rem0); [discriminate E|].
      destruct (parse_port CSetter (default_port sch) rem0) as [[p r]|e|] eqn:Epp; inversion E; subst.
      exact (parse_port_ok _ _ _ _ _ Epp). }
    destruct opt_port as [op|] eqn:Eop; cbn [bindo]; [|discriminate].
    destruct (username dbg u) as [un|] eqn:Eu; cbn [bindo]; [|discriminate].
    match goal with |- (if ?c then _ else _) = _ -> _ => destruct c eqn:Erej end.
    { intros E _. inversion E; subst. exact C. }
    assert (h = HDomain [] -> st_is_special st = false /\ ui = UNone
                              /\ match op with Some np => np | None => pt end = None) as Hemp.
    { intros ->. cbn [andb] in Erej. rewrite !orb_false_iff in Erej. destruct Erej as [[R1 R2] R3].
      assert (st_is_special st = false) as Esp.
      { destruct (st_is_special st) eqn:Esp; [exfalso | reflexivity].
        destruct (parse_host_hpx st _ _ rem Hnf Ep) as [t Et]. unfold hpx in Et. rewrite Esp in Et. exact (HN1 t Et). }
      split; [exact Esp|]. destruct un; [|discriminate R1]. split.
      - destruct (hostable_user_empty u st sch ui pt Hh (hostable_ui_ok u st sch ui pt Hh) Eu) as [E|[p0 E]]; [exact E|].
        exfalso. subst ui. unfold Known_F_C02_10 in K10. rewrite Eso, Est, Esp in K10. cbn [negb andb] in K10.
        remember (UPw [] p0) as ui eqn:Eui.
        destruct Hh as [sch0 segs last q f K Hm | sch0 ui0 h0 pt0 p q f K | sch0 ui0 h0 pt0 p q f K Kp];
          [discriminate Eui | subst ui0 | subst ui0];
          destruct (auth_has_password sch0 p0 h0 pt0 p q f) as [X1 X2]; rewrite X1, X2 in K10; discriminate K10.
      - rewrite Ept in R3. destruct op as [[np|]|]; [discriminate R2 | reflexivity | destruct pt; [discriminate R3 | reflexivity]]. }
    destruct (set_host_internal dbg hd u h op) as [u1|] eqn:E1; [|discriminate]. cbn [bindo].
    intros E Hb. inversion E; subst u1 s. clear E.
    apply (shi_hostable dbg hp hpo hd u st sch ui pt h op u' Hh); try assumption.
    + apply (parse_host_host_ok st _ h rem Hnf Ep). intros E. exact (proj1 (Hemp E)).
    + intros E. exact (proj2 (Hemp E)).
    + destruct op as [np|]; [exact (Hnp np eq_refl) | exact Hpo].
Qed.
End QHost.
