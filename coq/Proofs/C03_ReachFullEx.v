(* Proofs/C03_ReachFullEx.v - non-vacuity of C03_reachability_full: host functions that meet all five hypotheses
   (HostWf, host_nonempty, IpWf, HostOK, IpOKv) and a history of C02's Reachable3 with a query_pairs_mut session, a
   path_segments_mut session on an authority-less record, a path setter and a join. *)
From RU Require Import Proofs.C15_Ser.
From Coq Require Import String.
From RU Require Import Base.Prelude Base.Utf8 Base.Outcome_c15 Model.HostT Model.UrlRecord Model.Parser Model.Setters Model.WF
  Model.FormUrlencoded Model.QueryPairs
  Proofs.ListN Proofs.C02_Reach Proofs.C02_AuthMain Proofs.C02_Hist Proofs.C02_SetHostCanon Proofs.C02_Reach3
  Proofs.C05_Enc Proofs.C05_Parser Proofs.C05_Setters Proofs.C05_CompSteps3 Proofs.C05_Alphabet
  Proofs.C03_ReachParts Proofs.C03_ReachHost Proofs.C03_ReachEx Proofs.C03_AuthEnd Proofs.C03_ReachKnown.
Open Scope string_scope.
Open Scope N_scope.
Open Scope list_scope.

Lemma ex3_full_hyps :
  HostWf ex_hp3 ex_hp ex_hd2 /\ host_nonempty ex_hp3 ex_hp /\ IpWf ex_hd2 /\ HostOK ex_hp3 ex_hp ex_hd2 /\ IpOKv ex_hd2.
Proof.
  destruct ex3_hyps as ((HRT & _) & HNE & HIP).
  assert (forall s h, ex_hp s = Ok h -> Forall ok_byte (ex_hd2 h)) as G.
  { intros s h E. unfold ex_hp in E. destruct s as [|c r]; [inversion E; constructor|].
    destruct (forallb ex_hostc (c :: r)) eqn:F; inversion E; subst. cbn [ex_hd2].
    rewrite forallb_forall in F. apply Forall_forall. intros x Hx. specialize (F x Hx).
    unfold ex_hostc, is_alnum, is_alpha, is_lower, is_upper, is_digit in F. unfold ok_byte. lia. }
  split; [exact (HostRT_HostWf _ _ _ HRT)|]. split; [split; [exact HNE|]|split; [exact HIP|split]].
  - intros s _ H. unfold ex_hp in H. destruct s as [|c r]; [reflexivity|].
    destruct (forallb ex_hostc (c :: r)); inversion H.
  - intros h [->|[[s Hs]|[s Hs]]]; [constructor | | exact (G s h Hs)].
    destruct s as [|c r]; [discriminate Hs | exact (G (c :: r) h Hs)].
  - intros h Hh. destruct h as [d|a|p]; [destruct Hh | |]; cbn [ex_hd2]; repeat constructor; unfold ok_byte; lia.
Qed.

(* parse "a:/p?x=1"; query_pairs_mut().append_pair("k", "v w") -> a:/p?x=1&k=v+w; path_segments_mut: pop, push "",
   push "b/c" -> a:/b%2Fc?x=1&k=v+w (never "//"); set_path "/d" ; join "e" -> a:/e *)
Definition reach3_example_stmt : Prop :=
  exists u, Reachable3 true ex_hp3 ex_hp ex_hd2 u /\ ser u = B "a:/e".

Ltac kfd := vm_compute; reflexivity.

Lemma reach3_example : reach3_example_stmt.
Proof.
  destruct (parse_url true ex_hp3 ex_hp ex_hd2 None None (B "a:/p?x=1")) as [u0| |] eqn:E0;
    [|vm_compute in E0; discriminate ..].
  assert (Known_file_drive u0 = false -> Reachable3 true ex_hp3 ex_hp ex_hd2 u0) as R0
    by (apply (R3_parse true ex_hp3 ex_hp ex_hd2 None (B "a:/p?x=1") u0); [usv_tac | exact E0]).
  vm_compute in E0. injection E0 as <-. specialize (R0 ltac:(kfd)).
  (* query_pairs_mut *)
  match type of R0 with Reachable3 ?d ?hp ?hpo ?hd ?u =>
    destruct (query_pairs_session d u [OpAppendPair (B "k") (B "v w")]) as [u1|] eqn:E1; [|vm_compute in E1; discriminate];
    assert (Known_file_drive u1 = false -> Reachable3 d hp hpo hd u1) as R1
      by (apply (R3_qpm d hp hpo hd u [OpAppendPair (B "k") (B "v w")] u1 R0);
          [constructor; [split; usv_tac | constructor] | exact E1])
  end.
  vm_compute in E1. injection E1 as <-. specialize (R1 ltac:(kfd)). clear R0.
  (* path_segments_mut *)
  match type of R1 with Reachable3 ?d ?hp ?hpo ?hd ?u =>
    destruct (apply_op d hp hpo hd u (OPathSegments [PPop; PPush []; PPush (B "b/c")])) as [u2|] eqn:E2;
      [|vm_compute in E2; discriminate];
    assert (Known_file_drive u2 = false -> Reachable3 d hp hpo hd u2) as R2
      by (apply (R3_step d hp hpo hd u (OPathSegments [PPop; PPush []; PPush (B "b/c")]) u2 R1);
          [cbn [op_args_ok]; repeat constructor; cbn [psm_op_usv]; usv_tac | vm_compute; reflexivity | exact E2])
  end.
  vm_compute in E2. injection E2 as <-. specialize (R2 ltac:(kfd)). clear R1.
  (* set_path *)
  match type of R2 with Reachable3 ?d ?hp ?hpo ?hd ?u =>
    destruct (apply_op d hp hpo hd u (OSetPath (B "/d"))) as [u3|] eqn:E3; [|vm_compute in E3; discriminate];
    assert (Known_file_drive u3 = false -> Reachable3 d hp hpo hd u3) as R3
      by (apply (R3_step d hp hpo hd u (OSetPath (B "/d")) u3 R2);
          [cbn [op_args_ok]; usv_tac | vm_compute; reflexivity | exact E3])
  end.
  vm_compute in E3. injection E3 as <-. specialize (R3 ltac:(kfd)). clear R2.
  (* join *)
  match type of R3 with Reachable3 ?d ?hp ?hpo ?hd ?b =>
    destruct (parse_url d hp hpo hd None (Some b) (B "e")) as [u4| |] eqn:E4; [|vm_compute in E4; discriminate ..];
    assert (Known_file_drive u4 = false -> Reachable3 d hp hpo hd u4) as R4
      by (apply (R3_join d hp hpo hd None b (B "e") u4 R3); [usv_tac | exact E4])
  end.
  vm_compute in E4. injection E4 as <-. specialize (R4 ltac:(kfd)).
  eexists. split; [exact R4 | vm_compute; reflexivity].
Qed.

(* ---------- the first formulation (C02_Reach.Reachable, HostWf alone) is false ---------- *)
(* a Host::parse that returns the empty host for the non-empty text "x" (url::Host never does: it fails with
   EmptyHost) meets HostWf; with it set_host(Some "x") on "http://h:81/" - a call outside known_step, whose
   argument is not empty - stores the empty host in front of the port: "http://:81/" is not wf_b *)
Definition bad_hp2 (s : list N) : result host := if list_eqb s (B "x") then Ok (HDomain []) else ex_hp s.

Lemma bad_hp2_wf : HostWf bad_hp2 ex_hp ex_hd.
Proof.
  destruct ex_host_wf as (A & B0 & C). split; [|split; [exact B0 | exact C]].
  intros s h H Hne. unfold bad_hp2 in H. destruct (list_eqb s (B "x")); [inversion H; subst; contradiction | exact (A s h H Hne)].
Qed.

Lemma full_statement_witness : exists u, Reachable true bad_hp2 ex_hp ex_hd u /\ wf_b u = false.
Proof.
  destruct (parse_url true bad_hp2 ex_hp ex_hd None None (B "http://h:81/")) as [u0| |] eqn:E0;
    [|vm_compute in E0; discriminate ..].
  assert (Known_file_drive u0 = false -> Reachable true bad_hp2 ex_hp ex_hd u0) as R0
    by (apply (R_parse true bad_hp2 ex_hp ex_hd None (B "http://h:81/") u0); [usv_tac | exact E0]).
  vm_compute in E0. injection E0 as <-. specialize (R0 ltac:(kfd)).
  match type of R0 with Reachable ?d ?hp ?hpo ?hd ?u =>
    destruct (apply_op d hp hpo hd u (OSetHost (Some (B "x")))) as [u1|] eqn:E1; [|vm_compute in E1; discriminate];
    assert (Known_file_drive u1 = false -> Reachable d hp hpo hd u1) as R1
      by (apply (R_step d hp hpo hd u (OSetHost (Some (B "x"))) u1 R0);
          [cbn [op_args_ok usv_opt]; usv_tac | vm_compute; reflexivity | exact E1])
  end.
  vm_compute in E1. injection E1 as <-. specialize (R1 ltac:(kfd)).
  eexists. split; [exact R1 | vm_compute; reflexivity].
Qed.
