(* Proofs/C05_ParseUI.v - the userinfo and path clauses of C05 on the raw record, and what the parser
   states establish for them.
     ui_raw s se ue hs : the username slice [se+3, ue) and the password slice [ue+1, hs-1) of s are free
                         of D_USERINFO (both slices are empty in the layouts without userinfo);
     path_raw p        : a path text that starts with '/' consists of bytes outside D_PATH;
     up_ok u           : both, for the slices of the record u.
   On a well-formed record up_ok together with the query / fragment clauses IS comp_ok (up_comp, comp_up).
   Then: the userinfo state writes "un [: pw] @" with un, pw free of D_USERINFO (any input numbers);
   the query / fragment states and with_query_and_fragment keep both clauses. *)
From RU Require Import Base.Prelude Base.Utf8 Model.AsciiSet Gen.Tables Model.PercentEncoding
  Model.HostT Model.UrlRecord Model.Parser Model.Setters Model.WF
  Proofs.ListN Proofs.C06_List Proofs.C02_Parts Proofs.C03_WF Proofs.C06_WFI Proofs.C06_Tail Proofs.C06_Steps
  Proofs.C04_Parse Proofs.C04_ParseTotal Proofs.C03_ReachParts
  Proofs.C05_Enc Proofs.C05_Parser Proofs.C05_Setters Proofs.C05_History Proofs.C05_Sharp Proofs.C05_Frag Proofs.C05_Query
  Proofs.C05_Comp Proofs.C05_PathClean Proofs.C05_CompSteps Proofs.C05_QueryFree.

(* ---------- free / pq ---------- *)
Lemma free_pq l : free D_PATH l -> forallb pq l = true.
Proof.
  intros H. apply forallb_forall. intros c Hc. unfold pq. apply negb_true_iff.
  destruct (existsb (N.eqb c) D_PATH) eqn:E; [|reflexivity]. exfalso.
  apply existsb_exists in E. destruct E as (d & Hd & E). apply N.eqb_eq in E. subst d. exact (H c Hd Hc).
Qed.

Lemma pq_free' l : forallb pq l = true -> free D_PATH l.
Proof. intros H d Hd. exact (pq_free l H d Hd). Qed.

Lemma free_cons D c l : ~ In c D -> free D l -> free D (c :: l).
Proof. intros Hc Hl d Hd [E|Hin]; [subst; contradiction | exact (Hl d Hd Hin)]. Qed.

(* ---------- the clauses on the raw record ---------- *)
Definition ui_raw (s : list N) (se ue hs : N) : Prop :=
  free D_USERINFO (nfirstn (ue - (se + 3)) (nskipn (se + 3) s))
  /\ free D_USERINFO (nfirstn (hs - 1 - (ue + 1)) (nskipn (ue + 1) s)).

Definition path_raw (p : list N) : Prop := forall r, p = 47 :: r -> forallb pq p = true.

Definition up_ok (u : url) : Prop :=
  ui_raw (ser u) (scheme_end u) (username_end u) (host_start u)
  /\ path_raw (piece u (path_start u) (path_end u)).

Lemma ui_raw_trivial s se ue hs : ue <= se + 3 -> hs <= ue + 2 -> ui_raw s se ue hs.
Proof.
  intros H1 H2. unfold ui_raw. replace (ue - (se + 3)) with 0 by lia. replace (hs - 1 - (ue + 1)) with 0 by lia.
  split; apply free_nil.
Qed.

Lemma ui_raw_pre a s s' se ue hs : agree_pre a s s' -> ue <= a -> hs <= a + 1 ->
  ui_raw s se ue hs -> ui_raw s' se ue hs.
Proof.
  intros H H1 H2 [A B]. unfold ui_raw.
  rewrite (pre_piece a s s' (se + 3) ue H H1).
  rewrite (pre_piece a s s' (ue + 1) (hs - 1) H ltac:(lia)). split; assumption.
Qed.

Lemma path_raw_pq p : forallb pq p = true -> path_raw p.
Proof. intros H r _. exact H. Qed.

Lemma path_raw_nil : path_raw [].
Proof. intros r H. discriminate. Qed.

(* ---------- up_ok <-> comp_ok on a well-formed record ---------- *)
Lemma path_end_pidx u : pidx u AfterPath = path_end u.
Proof. reflexivity. Qed.

Theorem up_comp dbg u : wf_b u = true -> up_ok u ->
  (forall q, query dbg u = Some (Some q) -> free D_QUERY q) ->
  (forall f, fragment dbg u = Some (Some f) -> free D_FRAGMENT f) -> comp_ok dbg u.
Proof.
  intros W [[U1 U2] P] Q F. split; [|split; [|split; [|split; assumption]]].
  - intros un Hun. rewrite (username_eval dbg u W) in Hun. inversion Hun as [E]. unfold piece. cbn [pidx].
    destruct (has_authority_b u) eqn:Ha; [exact U1|].
    rewrite (nf_ue (wf_noauth_facts u W Ha)), N.sub_diag. apply free_nil.
  - intros pw Hpw. rewrite (password_piece dbg u W) in Hpw. destruct (has_password_b u) eqn:Hp; [|discriminate].
    inversion Hpw as [E]. unfold piece. cbn [pidx]. rewrite Hp. exact U2.
  - intros p r Hp Hr. rewrite (path_eval u W) in Hp. injection Hp as <-. apply pq_free'. exact (P r Hr).
Qed.

Theorem comp_up dbg u : wf_b u = true -> comp_ok dbg u -> up_ok u.
Proof.
  intros W (A & B & C & _ & _). split.
  - destruct (has_authority_b u) eqn:Ha.
    + pose proof (wf_auth_facts u W Ha) as F. split.
      * pose proof (A _ (username_eval dbg u W)) as X. unfold piece in X. cbn [pidx] in X. rewrite Ha in X. exact X.
      * destruct (has_password_b u) eqn:Hp.
        -- pose proof (B (piece u (pidx u BeforePassword) (pidx u AfterPassword))) as X.
           rewrite (password_piece dbg u W), Hp in X. specialize (X eq_refl). unfold piece in X. cbn [pidx] in X.
           rewrite Hp in X. exact X.
        -- pose proof (af_ue F); pose proof (af_hs F); pose proof (af_he F); pose proof (af_ps F); pose proof (af_len F).
           destruct (af_userinfo F) as [(U1 & U2)|[(U1 & U2 & U3 & U4)|(U1 & U2 & U3 & U4)]].
           ++ replace (host_start u - 1 - (username_end u + 1)) with 0 by lia. apply free_nil.
           ++ exfalso. unfold has_password_b in Hp. rewrite Ha, U2 in Hp.
              replace (username_end u =? nlen (ser u)) with false in Hp by lia. discriminate.
           ++ replace (host_start u - 1 - (username_end u + 1)) with 0 by lia. apply free_nil.
    + pose proof (wf_noauth_facts u W Ha) as F. apply ui_raw_trivial; rewrite ?(nf_ue F), ?(nf_hs F); lia.
  - intros r Hr. apply free_pq. apply (C _ r); [|exact Hr]. rewrite (path_eval u W). reflexivity.
Qed.

(* the bounds of the userinfo slices on a well-formed record *)
Lemma wf_ui_bounds u : wf_b u = true -> username_end u <= path_start u /\ host_start u <= path_start u.
Proof.
  intros W. destruct (has_authority_b u) eqn:Ha.
  - pose proof (wf_auth_facts u W Ha) as F. pose proof (af_hs F); pose proof (af_he F); pose proof (af_ps F). lia.
  - pose proof (wf_noauth_facts u W Ha) as F. rewrite (nf_ue F), (nf_hs F).
    destruct (nf_ps F) as [E|(E & _)]; lia.
Qed.

(* ---------- the userinfo state ---------- *)
Lemma userinfo_char_free c : free D_USERINFO (pe_display T_USERINFO (utf8_encode [c])).
Proof.
  apply comp_clean_free. apply pe_display_clean; [apply T_USERINFO_facts | apply T_USERINFO_facts | reflexivity].
Qed.

Definition ui_st (ser0 : list N) (n : N) (ser : list N) (uend : option N) (hpw : bool) : Prop :=
  match uend with
  | None => hpw = false /\ exists un, ser = ser0 ++ un /\ free D_USERINFO un
  | Some i => exists un, free D_USERINFO un /\ i = nlen ser0 + nlen un
                /\ if hpw then exists pw, free D_USERINFO pw /\ ser = ser0 ++ un ++ [58] ++ pw
                   else n = 0 /\ ser = ser0 ++ un
  end.

Lemma uloop_ui ser0 l : forall n ser uend hpw hun ser1 uend1 hpw1 hun1,
  userinfo_loop l n ser uend hpw hun = POk (ser1, uend1, hpw1, hun1) ->
  ui_st ser0 n ser uend hpw -> ui_st ser0 0 ser1 uend1 hpw1.
Proof.
  induction l as [|c r IH]; intros n ser uend hpw hun ser1 uend1 hpw1 hun1 H I.
  - cbn [userinfo_loop] in H. destruct (n =? 0) eqn:E0; [|discriminate]. inversion H; subst.
    apply N.eqb_eq in E0. subst n. exact I.
  - cbn [userinfo_loop] in H. destruct (n =? 0) eqn:E0.
    { inversion H; subst. apply N.eqb_eq in E0. subst n. exact I. }
    apply N.eqb_neq in E0.
    destruct (is_tnl c); [eapply IH; [exact H | exact I]|].
    destruct uend as [i|].
    + rewrite andb_false_r in H. destruct I as (un & Fu & Ei & I). destruct hpw.
      * destruct I as (pw & Fp & ->). eapply IH; [exact H|]. unfold push_encoded.
        exists un. split; [exact Fu|]. split; [exact Ei|].
        exists (pw ++ pe_display T_USERINFO (utf8_encode [c])).
        split; [apply free_app; [exact Fp | apply userinfo_char_free]|]. rewrite <- !app_assoc. reflexivity.
      * destruct I as [I _]. contradiction.
    + rewrite andb_true_r in H. destruct I as (-> & un & -> & Fu).
      destruct (c =? 58).
      * destruct (to_u32 (nlen (ser0 ++ un))) as [ue| |] eqn:Eu; cbn [pbind] in H; try discriminate.
        apply to_u32_inv in Eu. destruct Eu as [-> _].
        destruct (0 <? n - 1) eqn:En.
        -- eapply IH; [exact H|]. exists un. split; [exact Fu|]. split; [apply nlen_app|].
           exists []. split; [apply free_nil|]. rewrite <- !app_assoc. reflexivity.
        -- eapply IH; [exact H|]. exists un. split; [exact Fu|]. split; [apply nlen_app|]. split; [lia | reflexivity].
      * eapply IH; [exact H|]. unfold push_encoded. split; [reflexivity|].
        exists (un ++ pe_display T_USERINFO (utf8_encode [c])). rewrite <- app_assoc. split; [reflexivity|].
        apply free_app; [exact Fu | apply userinfo_char_free].
Qed.

(* "un", "un@" or "un:pw@" behind ser0 *)
Theorem parse_userinfo_ui st ser0 l ser1 ue rem :
  parse_userinfo st ser0 l = POk (ser1, ue, rem) ->
  exists un t, free D_USERINFO un /\ ue = nlen ser0 + nlen un /\ ser1 = ser0 ++ un ++ t
    /\ (t = [] \/ t = [64] \/ exists pw, free D_USERINFO pw /\ t = [58] ++ pw ++ [64]).
Proof.
  assert (forall u, u = nlen ser0 -> exists un t, free D_USERINFO un /\ u = nlen ser0 + nlen un
            /\ ser0 = ser0 ++ un ++ t
            /\ (t = [] \/ t = [64] \/ exists pw, free D_USERINFO pw /\ t = [58] ++ pw ++ [64])) as Hnone.
  { intros u ->. exists [], []. rewrite nlen_nil, N.add_0_r, !app_nil_r.
    split; [apply free_nil|]. split; [reflexivity|]. split; [reflexivity | left; reflexivity]. }
  unfold parse_userinfo. destruct (scan_last_at (st_is_special st) l 0 None) as [[n rm]|].
  - destruct n as [|p].
    + destruct (inp_next rm) as [[c r]|]; [|discriminate].
      destruct ((c =? 47) || (c =? 63) || (c =? 35) || st_is_special st && (c =? 92)); [discriminate|].
      destruct (to_u32 (nlen ser0)) as [u| |] eqn:Eu; cbn [pbind]; try discriminate.
      apply to_u32_inv in Eu. destruct Eu as [Eu _]. intros H. inversion H; subst. apply Hnone. reflexivity.
    + destruct (userinfo_loop l (N.pos p) ser0 None false false) as [[[[s1 uend] hpw] hun]| |] eqn:E; cbn [pbind]; try discriminate.
      assert (ui_st ser0 (N.pos p) ser0 None false) as I0.
      { split; [reflexivity|]. exists []. rewrite app_nil_r. split; [reflexivity | apply free_nil]. }
      pose proof (uloop_ui ser0 l _ _ _ _ _ _ _ _ _ E I0) as I.
      destruct uend as [i|].
      * cbn [pbind]. intros H. inversion H; subst. destruct I as (un & Fu & Ei & I). destruct hpw.
        -- destruct I as (pw & Fp & ->). rewrite orb_true_r. exists un, ([58] ++ pw ++ [64]).
           split; [exact Fu|]. split; [exact Ei|]. split; [rewrite <- !app_assoc; reflexivity|].
           right. right. exists pw. split; [exact Fp | reflexivity].
        -- destruct I as (_ & ->). rewrite orb_false_r. destruct hun.
           ++ exists un, [64]. split; [exact Fu|]. split; [exact Ei|]. split; [rewrite <- app_assoc; reflexivity|].
              right. left. reflexivity.
           ++ exists un, []. rewrite app_nil_r. split; [exact Fu|]. split; [exact Ei|]. split; [reflexivity | left; reflexivity].
      * destruct I as (-> & un & -> & Fu).
        destruct (to_u32 (nlen (ser0 ++ un))) as [u| |] eqn:Eu; cbn [pbind]; try discriminate.
        apply to_u32_inv in Eu. destruct Eu as [-> _]. intros H. inversion H; subst. rewrite orb_false_r.
        destruct hun.
        -- exists un, [64]. split; [exact Fu|]. split; [apply nlen_app|]. split; [rewrite <- app_assoc; reflexivity|].
           right. left. reflexivity.
        -- exists un, []. rewrite app_nil_r. split; [exact Fu|]. split; [apply nlen_app|]. split; [reflexivity | left; reflexivity].
  - destruct (to_u32 (nlen ser0)) as [u| |] eqn:Eu; cbn [pbind]; try discriminate.
    apply to_u32_inv in Eu. destruct Eu as [Eu _]. intros H. inversion H; subst. apply Hnone. reflexivity.
Qed.

(* the raw clause for what the userinfo state leaves behind "scheme://" *)
Lemma userinfo_ui_raw st se ser0 l ser1 ue rem : nlen ser0 = se + 3 ->
  parse_userinfo st ser0 l = POk (ser1, ue, rem) ->
  ui_raw ser1 se ue (nlen ser1) /\ se + 3 <= ue /\ ue <= nlen ser1 /\ exists x, ser1 = ser0 ++ x.
Proof.
  intros L0 H. destruct (parse_userinfo_ui st ser0 l ser1 ue rem H) as (un & t & Fu & -> & -> & Ht).
  split; [|split; [lia|split; [rewrite !nlen_app; lia | eexists; reflexivity]]].
  unfold ui_raw. rewrite <- L0. replace (nlen ser0 + nlen un - nlen ser0) with (nlen un) by lia.
  rewrite nskipn_app_exact. rewrite (nfirstn_app_exact un t). split; [exact Fu|].
  replace (ser0 ++ un ++ t) with ((ser0 ++ un) ++ t) by (rewrite <- app_assoc; reflexivity).
  replace (nlen ser0 + nlen un) with (nlen (ser0 ++ un)) by apply nlen_app.
  destruct Ht as [->|[->|(pw & Fp & ->)]].
  - rewrite app_nil_r. replace (nlen (ser0 ++ un) - 1 - (nlen (ser0 ++ un) + 1)) with 0 by lia. apply free_nil.
  - rewrite nlen_app. change (nlen [64]) with 1.
    replace (nlen (ser0 ++ un) + 1 - 1 - (nlen (ser0 ++ un) + 1)) with 0 by lia. apply free_nil.
  - rewrite nskipn_app_ge by lia. replace (nlen (ser0 ++ un) + 1 - nlen (ser0 ++ un)) with 1 by lia.
    change (nskipn 1 ([58] ++ pw ++ [64])) with (pw ++ [64]).
    rewrite !nlen_app. change (nlen [58]) with 1. change (nlen [64]) with 1.
    replace (nlen ser0 + nlen un + (1 + (nlen pw + 1)) - 1 - (nlen ser0 + nlen un + 1)) with (nlen pw) by lia.
    rewrite nfirstn_app_exact. exact Fp.
Qed.

Lemma ui_raw_app s t se ue hs : ue <= nlen s -> hs <= nlen s + 1 -> ui_raw s se ue hs -> ui_raw (s ++ t) se ue hs.
Proof. intros H1 H2. exact (ui_raw_pre (nlen s) s _ se ue hs (agree_pre_app_r s t) H1 H2). Qed.

(* ---------- the query / fragment states keep both clauses ---------- *)
Lemma pqf_up ovr st se0 s rem s2 qs fs se ue hs he hi pt ps :
  parse_query_and_fragment ovr CUrlParser st se0 s rem = POk (s2, qs, fs) ->
  ps <= nlen s -> (forall t, ui_raw (s ++ t) se ue hs) -> path_raw (nskipn ps s) ->
  up_ok (mkUrl s2 se ue hs he hi pt ps qs fs).
Proof.
  intros H Lp U P. destruct (pqf_shape _ _ _ _ _ _ _ _ H) as (q & f & -> & -> & -> & _).
  split; cbn [ser scheme_end username_end host_start path_start].
  - apply U.
  - assert (path_end (mkUrl (s ++ qf_text q f) se ue hs he hi pt ps (qf_qs (nlen s) q) (qf_fs (nlen s) q f)) = nlen s) as E.
    { unfold path_end. cbn [query_start fragment_start ser]. destruct q as [x|]; [reflexivity|].
      destruct f as [y|]; cbn [qf_qs qf_fs qf_qtext]; [rewrite nlen_nil; lia|].
      unfold qf_text. cbn [qf_qtext qf_ftext app]. rewrite app_nil_r. reflexivity. }
    rewrite E. unfold piece. cbn [ser path_start]. rewrite nskipn_app_le by exact Lp.
    rewrite nfirstn_app_le by (rewrite nlen_nskipn; lia). rewrite nfirstn_all by (rewrite nlen_nskipn; lia). exact P.
Qed.

Lemma nskipn_ins a b c n : nlen a = n -> nskipn (n + nlen b) (a ++ b ++ c) = c.
Proof. intros <-. rewrite app_assoc, <- nlen_app. apply nskipn_app_exact. Qed.

(* ---------- with_query_and_fragment ---------- *)
(* the hypothesis G: the record has no userinfo at all, or the serialization has "://" behind the
   scheme and the path starts behind the authority *)
Lemma wqf_up ovr st se ue hs he hi pt ps s rem u :
  with_query_and_fragment ovr CUrlParser st se ue hs he hi pt ps s rem = POk u ->
  ps <= nlen s ->
  ((ue <= se + 3 /\ hs <= ue + 2)
   \/ (se + 3 <= ps /\ ue <= ps /\ hs <= ps /\ starts_with s_css (nskipn se s) = true)) ->
  ui_raw s se ue hs -> path_raw (nskipn ps s) -> up_ok u.
Proof.
  unfold with_query_and_fragment. intros H Lp G U P.
  pb H a Ha. destruct a as [s1 ps1]. pb H b Hb. destruct b as [[s2 qs] fs]. inversion H; subst u. clear H.
  assert (nskipn ps1 s1 = nskipn ps s /\ ps1 <= nlen s1
          /\ ((s1 = s /\ ps1 = ps) \/ ps = se + 1
              \/ (ps = se + 3 /\ list_eqb (nfirstn (ps - se) (nskipn se s)) [58; 47; 46] = true))) as (E1 & E2 & E3).
  { assert (nlen (nfirstn ps s) = ps) as Lf by (apply nlen_nfirstn; exact Lp).
    destruct (ps =? se + 1) eqn:Eps.
    - apply N.eqb_eq in Eps.
      destruct (starts_with s_ss (nskipn ps s)).
      + pb Ha x Hx. inversion Ha; subst s1 ps1.
        split; [|split; [|right; left; exact Eps]].
        * exact (nskipn_ins (nfirstn ps s) [47; 46] (nskipn ps s) ps Lf).
        * change (ps + 2 <= nlen (nfirstn ps s ++ [47; 46] ++ nskipn ps s)).
          rewrite !nlen_app, Lf, nlen_nskipn. change (nlen [47; 46]) with 2. lia.
      + pb Ha x Hx. inversion Ha; subst s1 ps1. split; [reflexivity|]. split; [exact Lp | left; split; reflexivity].
    - destruct ((ps =? se + 3) && list_eqb (nfirstn (ps - se) (nskipn se s)) [58; 47; 46]) eqn:E2.
      + apply andb_true_iff in E2. destruct E2 as [E2 E3]. apply N.eqb_eq in E2.
        pb Ha x Hx. rewrite C04_ParseTotal.match47 in Ha.
        destruct (match nnth s (ps + 1) with Some d => d =? 47 | None => false end).
        * pb Ha y Hy. inversion Ha; subst s1 ps1. split; [reflexivity|]. split; [exact Lp | left; split; reflexivity].
        * pb Ha y Hy. inversion Ha; subst s1 ps1.
          assert (nlen (nfirstn se s) = se) as Ls by (apply nlen_nfirstn; lia).
          split; [|split; [|right; right; split; assumption]].
          -- replace (ps - 2) with (se + nlen [58]) by (change (nlen [58]) with 1; lia).
             exact (nskipn_ins (nfirstn se s) [58] (nskipn ps s) se Ls).
          -- change (ps - 2 <= nlen (nfirstn se s ++ [58] ++ nskipn ps s)).
             rewrite !nlen_app, Ls, nlen_nskipn. change (nlen [58]) with 1. lia.
      + inversion Ha; subst s1 ps1. split; [reflexivity|]. split; [exact Lp | left; split; reflexivity]. }
  rewrite <- E1 in P.
  destruct G as [(G1 & G2)|(G1 & G2 & G3 & G4)].
  - apply (pqf_up ovr st se s1 rem s2 qs fs se ue hs he hi pt ps1 Hb E2); [|exact P].
    intros t. apply ui_raw_trivial; assumption.
  - destruct E3 as [(-> & ->)|[E3|(E3 & E4)]].
    + apply (pqf_up ovr st se s rem s2 qs fs se ue hs he hi pt ps Hb Lp); [|exact P].
      intros t. apply ui_raw_app; [lia | lia | exact U].
    + lia.
    + exfalso. apply list_eqb_spec in E4. replace (ps - se) with 3 in E4 by lia.
      rewrite (css_dot_false _ E4) in G4. discriminate.
Qed.
