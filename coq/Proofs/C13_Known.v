(* Proofs/C13_Known.v - the two known classes, their witnesses, small-scope computations. *)
From RU Require Import Base.Prelude Base.Utf8 Base.U32_c13 Gen.Tables Model.Punycode Spec.Rfc3492
  Proofs.C13_Ascii Proofs.C13_Bounds Proofs.C13_Enc Proofs.C13_Dec.

(* F-C13-1: while encoding s some delta fits in 32 bits but the decoder's i + delta does not *)
Definition Known_C13 (s : list N) : Prop := known_c13 s = true.
(* F-C13-2: decoder input of 2^32 code units or more (base_len as u32 truncates, length + 1 overflows) *)
Definition Known_C13_2 (p : list N) : Prop := U32_MAX < len p.

Lemma usv_list_forallb s : forallb is_usvb s = true -> usv_list s.
Proof.
  unfold usv_list. induction s as [|c r IH]; cbn [forallb]; intros H; [constructor|].
  apply andb_true_iff in H. destruct H as [H1 H2]. constructor; [apply is_usvb_spec; exact H1|exact (IH H2)].
Qed.

(* ---- F-C13-1 ---- *)
Definition witness_c13_1 : list N := repeat 128 3856 ++ [1113679].   (* U+0080 x 3856 ++ [U+10FE4F] *)

Definition witness_c13_1_p : list N :=
  Eval vm_compute in (match encode true witness_c13_1 with Ok p => p | _ => [] end).

Lemma witness_c13_1_usv : forallb is_usvb witness_c13_1 = true.
Proof. vm_compute. reflexivity. Qed.
Lemma witness_c13_1_known : known_c13 witness_c13_1 = true.
Proof. vm_compute. reflexivity. Qed.
Lemma witness_c13_1_enc_debug : encode true witness_c13_1 = Ok witness_c13_1_p.
Proof. vm_compute. reflexivity. Qed.
Lemma witness_c13_1_enc_release : encode false witness_c13_1 = Ok witness_c13_1_p.
Proof. vm_compute. reflexivity. Qed.
Lemma witness_c13_1_dec_debug : decode true witness_c13_1_p = Err.
Proof. vm_compute. reflexivity. Qed.
Lemma witness_c13_1_dec_release : decode false witness_c13_1_p = Err.
Proof. vm_compute. reflexivity. Qed.
Lemma witness_c13_1_len : N.of_nat (length witness_c13_1) = 3857 /\ N.of_nat (length witness_c13_1_p) = 3866.
Proof. vm_compute. split; reflexivity. Qed.

Lemma c13_1_refuted :
  exists s, usv_list s /\ Known_C13 s /\
    forall cfg, exists p, encode cfg s = Ok p /\ decode cfg p = Err /\ decode cfg p <> Ok s.
Proof.
  exists witness_c13_1.
  split; [exact (usv_list_forallb _ witness_c13_1_usv)|]. split; [exact witness_c13_1_known|].
  intros [|]; exists witness_c13_1_p.
  - split; [exact witness_c13_1_enc_debug|]. split; [exact witness_c13_1_dec_debug|].
    rewrite witness_c13_1_dec_debug. discriminate.
  - split; [exact witness_c13_1_enc_release|]. split; [exact witness_c13_1_dec_release|].
    rewrite witness_c13_1_dec_release. discriminate.
Qed.

(* the class is empty below 3855 scalars is DESIGN's claim; here: the two neighbours of the witness *)
Lemma c13_1_boundary :
  known_c13 (repeat 128 3855 ++ [1113679]) = false /\ known_c13 (repeat 128 3856 ++ [1113679]) = true.
Proof. vm_compute. split; reflexivity. Qed.

(* ---- F-C13-2 ---- *)
Lemma rposition_repeat n : s_rposition (repeat 97 n ++ [45; 97]) = Some n.
Proof.
  induction n as [|n IH]; [reflexivity|]. cbn [repeat app]. cbn [s_rposition]. rewrite IH. reflexivity.
Qed.

Lemma forallb_repeat n : forallb (fun c => c <? 128) (repeat 97 n) = true.
Proof. induction n as [|n IH]; [reflexivity|]. cbn [repeat forallb]. rewrite IH. reflexivity. Qed.

Lemma decode_huge cfg n : N.of_nat n = U32_MAX ->
  decode cfg (repeat 97 n ++ [45; 97]) = Panic (if cfg then 233 else 33).
Proof.
  intros Hn. unfold decode, decode_with, decoder_decode. rewrite split_eq. unfold s_split.
  rewrite rposition_repeat.
  destruct n as [|n']; [discriminate|]. remember (Datatypes.S n') as n.
  replace (0 <? n)%nat with true by (subst n; reflexivity).
  assert (Hf : firstn n (repeat 97 n ++ [45; 97]) = repeat 97 n).
  { rewrite firstn_app, repeat_length, Nat.sub_diag. cbn [firstn]. rewrite app_nil_r.
    rewrite <- (repeat_length 97 n) at 1. apply firstn_all. }
  assert (Hs : skipn (Datatypes.S n) (repeat 97 n ++ [45; 97]) = [97]).
  { rewrite skipn_app, repeat_length. replace (Datatypes.S n - n)%nat with 1%nat by lia.
    rewrite skipn_all2 by (rewrite repeat_length; lia). reflexivity. }
  rewrite Hf, Hs. cbn [inst_external andb]. rewrite forallb_repeat. cbn [negb].
  rewrite repeat_length, Hn.
  destruct cfg; vm_compute; reflexivity.
Qed.

Lemma c13_2_refuted :
  exists p, Known_C13_2 p /\ ascii p /\ forall cfg, exists site, decode cfg p = Panic site.
Proof.
  exists (repeat 97 (N.to_nat U32_MAX) ++ [45; 97]). split; [|split].
  - unfold Known_C13_2, len. rewrite app_length, repeat_length, Nat2N.inj_add, N2Nat.id. cbn [length]. lia.
  - apply ascii_app. split.
    + unfold ascii. generalize (N.to_nat U32_MAX). intros n. induction n as [|n IH]; cbn [repeat]; constructor; [unfold is_ascii; lia|exact IH].
    + constructor; [unfold is_ascii; lia|]. constructor; [unfold is_ascii; lia|constructor].
  - intros cfg. eexists. apply decode_huge. apply N2Nat.id.
Qed.

(* ---- small-scope computations inside the kernel (a test of the statements that are not proved in
        general; all sequences up to length 4 over the class alphabets of the correspondence) ---- *)
Fixpoint all_seqs (alphabet : list N) (n : nat) : list (list N) :=
  match n with
  | O => [[]]
  | Datatypes.S k => [] :: flat_map (fun s => map (fun a => a :: s) alphabet) (all_seqs alphabet k)
  end.

Definition has_non_ascii (s : list N) : bool := existsb (fun c => 128 <=? c) s.

(* p with the part after the last delimiter (at a position > 0) in lower case *)
Definition lower_digits (p : list N) : list N :=
  let (base, rest) := s_split p in
  match s_rposition p with
  | Some (Datatypes.S _) => base ++ [s_delimiter] ++ map to_lower rest
  | _ => map to_lower rest
  end.
Definition eq_upto_digit_case (q p : list N) : Prop := q = lower_digits p.

Definition rt_enc_check (s : list N) : bool :=
  match encode true s with
  | Ok p => match decode true p with Ok s' => list_eqb s s' | _ => false end
  | _ => false
  end.
Definition rt_dec_check (p : list N) : bool :=
  match decode true p with
  | Ok s => if has_non_ascii s then match encode true s with Ok q => list_eqb q (lower_digits p) | _ => false end else true
  | _ => true
  end.

Lemma small_scope_round_trips :
  forallb rt_enc_check (all_seqs [97; 45; 128; 252; 256; 65535; 65536; 1114111] 4) = true /\
  forallb rt_dec_check (all_seqs [97; 122; 65; 48; 57; 45; 33] 4) = true.
Proof. vm_compute. split; reflexivity. Qed.
